/-
  C05 cost, part 2: the parser is linear, for EVERY token list (terminated or not).

  `N p` = what the reader can still deliver, look-ahead included. Two potentials never grow along
  a run of the state machine:

      M1 = (source lines emitted) + N + owe        owe ∈ {0,1}: a state entered with a look-ahead
                                                   it cannot have in a real run emits without reading
      M2 = (tokens stored in the a/b fields of the emitted lines and of the line under
            construction) + N

  Both start at `toks.length`, so `parse` returns at most `toks.length` lines holding at most
  `toks.length` operand tokens in all.
-/
import Gmars.Model.Parser

namespace Gmars
namespace Parser

/-- tokens the reader can still deliver, the look-ahead included -/
def N (p : PState) : Nat := if p.atEOF then 0 else p.rest.length + 1

/-- tokens stored in the operand / value fields of a source line -/
def tokCount (l : SourceLine) : Nat := (l.a.getD []).length + (l.b.getD []).length

def sumToks (ls : Array SourceLine) : Nat := (ls.toList.map tokCount).sum

/-- a state function that emits a line for the token in the look-ahead: entered with any other
    look-ahead (never the case in a run from `parseLine`) it emits without reading -/
def owe : Option St → Token → Nat
  | some .emptyLines, t => if t.typ = .newline then 0 else 1
  | some .comment, t => if t.typ = .comment then 0 else 1
  | some .pseudoOp, t => if t.typ = .text then 0 else 1
  | some .pseudoExpr, t => if t.isExpressionTerm then 0 else 1
  | some .exprA, t => if t.isExpressionTerm then 0 else 1
  | some .exprB, t => if t.isExpressionTerm then 0 else 1
  | _, _ => 0

/-- the line under construction counts until `parseLine` starts the next one -/
def curW : Option St → PState → Nat
  | none, _ => 0
  | some .line, _ => 0
  | some _, p => tokCount p.cur

def M1 (o : Option St) (p : PState) : Nat := p.lines.size + N p + owe o p.nextToken
def M2 (o : Option St) (p : PState) : Nat := sumToks p.lines + curW o p + N p

theorem owe_le (o : Option St) (t : Token) : owe o t ≤ 1 := by
  unfold owe; split <;> first | omega | (split <;> omega)

theorem curW_le (o : Option St) (p : PState) : curW o p ≤ tokCount p.cur := by
  unfold curW; split <;> omega

theorem curW_line (p : PState) : curW (some .line) p = 0 := rfl
theorem curW_none (p : PState) : curW none p = 0 := rfl

/-! ### the primitives -/

/-- `q` differs from `p` in bookkeeping fields only -/
structure Sim (p q : PState) : Prop where
  rest : q.rest = p.rest
  atEOF : q.atEOF = p.atEOF
  tok : q.nextToken = p.nextToken
  lines : q.lines = p.lines

theorem Sim.N {p q : PState} (h : Sim p q) : N q = N p := by
  unfold Parser.N; rw [h.rest, h.atEOF]

theorem Sim.refl (p : PState) : Sim p p := ⟨rfl, rfl, rfl, rfl⟩

theorem Sim.trans {p q r : PState} (h1 : Sim p q) (h2 : Sim q r) : Sim p r :=
  ⟨h2.rest.trans h1.rest, h2.atEOF.trans h1.atEOF, h2.tok.trans h1.tok, h2.lines.trans h1.lines⟩

theorem sim_setErr (p : PState) : Sim p (setErr p) := ⟨rfl, rfl, rfl, rfl⟩
theorem sim_incNewlines (p : PState) : Sim p (incNewlines p) := ⟨rfl, rfl, rfl, rfl⟩
theorem sim_noteReference (p : PState) : Sim p (noteReference p) := by
  unfold noteReference; split
  · exact ⟨rfl, rfl, rfl, rfl⟩
  · exact Sim.refl p

theorem cur_setErr (p : PState) : (setErr p).cur = p.cur := rfl
theorem cur_noteReference (p : PState) : (noteReference p).cur = p.cur := by
  unfold noteReference; split <;> rfl
theorem tokCount_incNewlines (p : PState) : tokCount (incNewlines p).cur = tokCount p.cur := rfl

theorem N_emit (p : PState) : N (emit p) = N p := rfl
theorem tok_emit (p : PState) : (emit p).nextToken = p.nextToken := rfl
theorem cur_emit (p : PState) : (emit p).cur = p.cur := rfl
theorem size_emit (p : PState) : (emit p).lines.size = p.lines.size + 1 := by
  simp [emit]
theorem sumToks_emit (p : PState) : sumToks (emit p).lines = sumToks p.lines + tokCount p.cur := by
  simp [emit, sumToks]

/-- `next()`: the reader loses one token, or (already at EOF) nothing changes at all -/
theorem advance_spec (p : PState) :
    (advance p).lines = p.lines ∧ (advance p).cur = p.cur ∧
    (N (advance p) + 1 = N p ∨ (N (advance p) = N p ∧ (advance p).nextToken = p.nextToken)) := by
  unfold advance next
  cases h : p.atEOF
  · cases hr : p.rest with
    | nil => simp [N, h, hr]
    | cons t r => simp [N, h, hr]
  · simp [N, h]

theorem advance_lines (p : PState) : (advance p).lines = p.lines := (advance_spec p).1
theorem advance_cur (p : PState) : (advance p).cur = p.cur := (advance_spec p).2.1
theorem advance_N_le (p : PState) : N (advance p) ≤ N p := by
  rcases (advance_spec p).2.2 with h | h <;> omega

/-- a look-ahead of another type after `next()`: a token was really read -/
theorem advance_N_lt {p : PState} (h : (advance p).nextToken ≠ p.nextToken) :
    N (advance p) + 1 = N p := by
  rcases (advance_spec p).2.2 with h' | h'
  · exact h'
  · exact absurd h'.2 h

theorem next_snd (p : PState) : (next p).2 = advance p := rfl

theorem typ_of_isOp {t : Token} (h : t.isOp = true) : t.typ = .text := by
  unfold Token.isOp at h
  split at h
  · cases h
  · rename_i h'; simpa using h'

theorem owe_opState {t : Token} (h : t.isOp = true) : owe (some (opState t)) t = 0 := by
  unfold opState; split
  · simp [owe, typ_of_isOp h]
  · rfl

theorem exprTerm_of_symbol {t : Token} (h : t.typ = .symbol) : t.isExpressionTerm = true := by
  simp [Token.isExpressionTerm, h]

theorem ne_of_typ_ne {a b : Token} (h : a.typ ≠ b.typ) : a ≠ b := fun e => h (by rw [e])

/-! ### the loops -/

theorem skipLoop_cost (site : String) (t : TokType) (bump : Bool) :
    ∀ fuel p p', skipLoop site t bump fuel p = .ok p' →
      p'.lines = p.lines ∧ tokCount p'.cur = tokCount p.cur ∧ N p' ≤ N p ∧
      (p.nextToken.typ = t → N p' + 1 ≤ N p) := by
  intro fuel
  induction fuel with
  | zero => intro p p' h; simp [skipLoop] at h
  | succ fuel ih =>
    intro p p' h
    unfold skipLoop at h
    by_cases ht : p.nextToken.typ = t
    · simp only [ht, beq_self_eq_true, if_true] at h
      split at h
      · cases h
      · generalize hq : (if bump = true then incNewlines p else p) = q at h
        have hs : Sim p q := by
          subst hq; split
          · exact sim_incNewlines p
          · exact Sim.refl p
        have hc : tokCount q.cur = tokCount p.cur := by
          subst hq; split <;> rfl
        obtain ⟨h1, h2, h3, h4⟩ := ih _ _ h
        obtain ⟨a1, a2, a3⟩ := advance_spec q
        refine ⟨by rw [h1, a1, hs.lines], by rw [h2, a2, hc], ?_, fun _ => ?_⟩
        · have := hs.N; rcases a3 with a3 | a3 <;> omega
        · have := hs.N
          rcases a3 with a3 | a3
          · omega
          · have := h4 (by rw [a3.2, hs.tok, ht]); omega
    · have : (p.nextToken.typ == t) = false := by simpa using ht
      simp only [this, Bool.false_eq_true, if_false] at h
      cases h
      exact ⟨rfl, rfl, Nat.le_refl _, fun h => absurd h ht⟩

/-- with the reader marked exhausted but tokens left (never the case in a run) the loop spins -/
theorem exprLoop_stuck (site : String) :
    ∀ fuel p acc, p.atEOF = true → p.rest ≠ [] → p.nextToken.isExpressionTerm = true →
      ∀ r, exprLoop site fuel p acc ≠ .ok r := by
  intro fuel
  induction fuel with
  | zero => intro p acc _ _ _ r h; simp [exprLoop] at h
  | succ fuel ih =>
    intro p acc h1 h2 h3 r h
    unfold exprLoop at h
    have hf : frozen p = false := by simpa [frozen] using h2
    simp only [h3, if_true, hf, Bool.false_eq_true, if_false] at h
    have hs := sim_noteReference p
    have hq : advance (noteReference p) = noteReference p := by
      unfold advance next; rw [hs.atEOF, h1]; rfl
    rw [hq] at h
    exact ih _ _ (by rw [hs.atEOF, h1]) (by rw [hs.rest]; exact h2) (by rw [hs.tok]; exact h3) r h

theorem exprLoop_cost (site : String) :
    ∀ fuel p acc p' acc', exprLoop site fuel p acc = .ok (p', acc') →
      p'.lines = p.lines ∧ p'.cur = p.cur ∧ acc'.length + N p' ≤ acc.length + N p ∧ N p' ≤ N p ∧
      (p.nextToken.isExpressionTerm = true → N p' + 1 ≤ N p) := by
  intro fuel
  induction fuel with
  | zero => intro p acc p' acc' h; simp [exprLoop] at h
  | succ fuel ih =>
    intro p acc p' acc' h
    by_cases he : p.nextToken.isExpressionTerm = true
    · by_cases hst : p.atEOF = true ∧ p.rest ≠ []
      · exact absurd h (exprLoop_stuck site _ p acc hst.1 hst.2 he _)
      · unfold exprLoop at h
        simp only [he, if_true] at h
        split at h
        · cases h
        · rename_i hfr
          have hrest : p.rest ≠ [] := by simpa [frozen] using hfr
          have hlive : p.atEOF = false := by
            cases hp : p.atEOF
            · rfl
            · exact absurd ⟨hp, hrest⟩ hst
          have hs := sim_noteReference p
          obtain ⟨h1, h2, h3, h5, _⟩ := ih _ _ _ _ h
          obtain ⟨a1, a2, _⟩ := advance_spec (noteReference p)
          have hN : N (advance (noteReference p)) + 1 = N p := by
            obtain ⟨u, r, hr⟩ : ∃ u r, p.rest = u :: r := by
              cases hp : p.rest with
              | nil => exact absurd hp hrest
              | cons u r => exact ⟨u, r, rfl⟩
            unfold advance next
            simp [N, hs.atEOF, hs.rest, hlive, hr]
          refine ⟨by rw [h1, a1, hs.lines], by rw [h2, a2, cur_noteReference], ?_, ?_, fun _ => ?_⟩
          · simp only [List.length_cons] at h3; omega
          · omega
          · omega
    · unfold exprLoop at h
      simp only [he, Bool.false_eq_true, if_false] at h
      cases h
      exact ⟨rfl, rfl, Nat.le_refl _, Nat.le_refl _, fun h => absurd h he⟩

theorem collectExpr_cost {site : String} {p p' : PState} {ts : List Token}
    (h : collectExpr site p = .ok (p', ts)) :
    p'.lines = p.lines ∧ p'.cur = p.cur ∧ ts.length + N p' ≤ N p ∧
    (p.nextToken.isExpressionTerm = true → N p' + 1 ≤ N p) := by
  unfold collectExpr at h
  cases hl : exprLoop site (p.rest.length + 1) p [] with
  | error e => rw [hl] at h; cases h
  | ok r =>
    obtain ⟨p1, acc⟩ := r
    rw [hl] at h
    simp only [bind, Except.bind, pure, Except.pure, Except.ok.injEq, Prod.mk.injEq] at h
    obtain ⟨rfl, rfl⟩ := h
    obtain ⟨h1, h2, h3, _, h4⟩ := exprLoop_cost site _ _ _ _ _ hl
    refine ⟨h1, h2, ?_, h4⟩
    simp only [List.length_reverse, List.length_nil] at h3 ⊢
    omega

/-! ### what one state function call costs -/

/-- neither potential grows -/
def StepCost (s : St) (p : PState) (p' : PState) (o : Option St) : Prop :=
  M1 o p' ≤ M1 (some s) p ∧ M2 o p' ≤ M2 (some s) p

/-- stopping or handing over with the same reader and lines (or fewer tokens left), nothing owed -/
theorem StepCost.of_le {s : St} {p p' : PState} {o : Option St}
    (hl : p'.lines = p.lines) (hc : tokCount p'.cur ≤ tokCount p.cur) (hs : s ≠ .line)
    (hN : N p' + owe o p'.nextToken ≤ N p + owe (some s) p.nextToken) (hN' : N p' ≤ N p) :
    StepCost s p p' o := by
  constructor
  · simp only [M1, hl]; omega
  · have h1 := curW_le o p'
    have h2 : curW (some s) p = tokCount p.cur := by cases s <;> first | rfl | exact absurd rfl hs
    simp only [M2, hl, h2]; omega

theorem owe_none (t : Token) : owe none t = 0 := rfl

theorem step_line_cost {p p' : PState} {o : Option St} (h : step .line p = .ok (p', o)) :
    StepCost .line p p' o := by
  rw [step] at h
  split at h
  · cases h; exact ⟨Nat.le_refl _, Nat.le_refl _⟩
  · dsimp only at h
    split at h <;> cases h
    · rename_i hty
      constructor
      · simp only [M1, owe, hty, if_true]; exact Nat.le_refl _
      · simp only [M2, curW, tokCount]; exact Nat.le_refl _
    · rename_i hty
      constructor
      · simp only [M1, owe, hty, if_true]; exact Nat.le_refl _
      · simp only [M2, curW, tokCount]; exact Nat.le_refl _
    · constructor
      · simp only [M1, owe]; exact Nat.le_refl _
      · simp only [M2, curW, tokCount]; exact Nat.le_refl _
    · exact ⟨Nat.le_refl _, Nat.le_refl _⟩
    · exact ⟨Nat.le_refl _, Nat.le_refl _⟩

theorem step_emptyLines_cost {p p' : PState} {o : Option St}
    (h : step .emptyLines p = .ok (p', o)) : StepCost .emptyLines p p' o := by
  rw [step] at h
  cases hs : skipLoop "parseEmptyLines" .newline true (p.rest.length + 1) p with
  | error e => rw [hs] at h; cases h
  | ok p1 =>
    rw [hs] at h
    simp only [bind, Except.bind, pure, Except.pure, Except.ok.injEq, Prod.mk.injEq] at h
    obtain ⟨rfl, rfl⟩ := h
    obtain ⟨h1, h2, h3, h4⟩ := skipLoop_cost _ _ _ _ _ _ hs
    constructor
    · simp only [M1, size_emit, N_emit, h1, owe]
      split
      · rename_i hty; have := h4 hty; omega
      · omega
    · simp only [M2, sumToks_emit, N_emit, h1, h2, curW]; omega

/-- `consumeEmitLine(parseLine)` entered from a state that does not owe more than `.comment` -/
theorem consumeEmitLine_cost {q p' : PState} {o : Option St}
    (h : consumeEmitLine .line q = (p', o)) :
    M1 o p' ≤ M1 (some .comment) q ∧ M2 o p' ≤ M2 (some .comment) q := by
  unfold consumeEmitLine at h
  obtain ⟨a1, a2, a3⟩ := advance_spec q
  have hlt : (advance q).nextToken.typ ≠ .comment → q.nextToken.typ = .comment →
      N (advance q) + 1 = N q := fun h1 h2 =>
    advance_N_lt (ne_of_typ_ne (by rw [h2]; exact h1))
  generalize advance q = q1 at *
  dsimp only at h
  split at h
  · rename_i hty
    have hty : q1.nextToken.typ = .eof := by simpa using hty
    cases h
    constructor
    · simp only [M1, size_emit, N_emit, a1, owe]
      split
      · rename_i hc; have := hlt (by rw [hty]; decide) hc; omega
      · rcases a3 with a3 | a3 <;> omega
    · simp only [M2, sumToks_emit, N_emit, a1, a2, curW]
      rcases a3 with a3 | a3 <;> omega
  · split at h
    · cases h
      have hle : N q1 ≤ N q := by rcases a3 with a3 | a3 <;> omega
      constructor
      · simp only [M1, owe_none]
        show q1.lines.size + N q1 + 0 ≤ _
        rw [a1]; omega
      · simp only [M2, curW_none]
        show sumToks q1.lines + 0 + N q1 ≤ _
        rw [a1]; omega
    · rename_i hne hnl
      have hnl : q1.nextToken.typ = .newline := by simpa using hnl
      obtain ⟨b1, b2, b3⟩ := advance_spec (emit (incNewlines q1))
      have hN2 : N (advance (emit (incNewlines q1))) ≤ N q1 := by
        have : N (emit (incNewlines q1)) = N q1 := rfl
        rcases b3 with b3 | b3 <;> omega
      have hsz : (advance (emit (incNewlines q1))).lines.size = q.lines.size + 1 := by
        rw [b1, size_emit]; show q1.lines.size + 1 = _; rw [a1]
      have hsum : sumToks (advance (emit (incNewlines q1))).lines = sumToks q.lines + tokCount q.cur := by
        rw [b1, sumToks_emit]; show sumToks q1.lines + tokCount q1.cur = _; rw [a1, a2]
      have key : N q1 + 1 ≤ N q + owe (some .comment) q.nextToken := by
        simp only [owe]
        split
        · rename_i hc; have := hlt (by rw [hnl]; decide) hc; omega
        · rcases a3 with a3 | a3 <;> omega
      have hle : N q1 ≤ N q := by rcases a3 with a3 | a3 <;> omega
      rcases hnx : next (emit (incNewlines q1)) with ⟨t, q3⟩
      have hq3 : q3 = advance (emit (incNewlines q1)) := by rw [advance, hnx]
      rw [hnx] at h
      dsimp only at h
      subst hq3
      split at h <;> cases h
      · constructor
        · simp only [M1, owe_none, hsz]; omega
        · simp only [M2, hsum, curW]; omega
      · constructor
        · simp only [M1, hsz]; show _ + _ + 0 ≤ _; omega
        · simp only [M2, hsum, curW]; omega

theorem step_comment_cost {p p' : PState} {o : Option St} (h : step .comment p = .ok (p', o)) :
    StepCost .comment p p' o := by
  rw [step] at h
  generalize hq : ({ p with cur := { p.cur with comment := p.nextToken.val } } : PState) = q at h
  have hs : Sim p q := by subst hq; exact ⟨rfl, rfl, rfl, rfl⟩
  have hc : tokCount q.cur = tokCount p.cur := by subst hq; rfl
  simp only [Except.ok.injEq] at h
  obtain ⟨h1, h2⟩ := consumeEmitLine_cost h
  have hN := hs.N
  constructor
  · simp only [M1, hs.lines, hs.tok, hN] at h1 ⊢; exact h1
  · simp only [M2, hs.lines, hN, curW, hc] at h2 ⊢; exact h2

theorem step_labels_cost {p p' : PState} {o : Option St} (h : step .labels p = .ok (p', o)) :
    StepCost .labels p p' o := by
  rw [step] at h
  dsimp only at h
  split at h
  · split at h
    · cases h
    · cases h
      obtain ⟨a1, a2, _⟩ := advance_spec p
      exact .of_le a1 (by rw [a2]; exact Nat.le_refl _) (by decide)
        (by have := advance_N_le p; simp only [owe]; omega) (advance_N_le p)
  · split at h
    · rename_i hop
      cases h
      exact .of_le rfl (Nat.le_refl _) (by decide) (by rw [owe_opState hop]; simp [owe]) (Nat.le_refl _)
    · split at h
      · cases h
        exact .of_le rfl (Nat.le_refl _) (by decide) (by simp [owe]) (Nat.le_refl _)
      · generalize hq0 : (if p.symbols.contains p.nextToken.val = true then setErr p else p) = q0 at h
        have hs0 : Sim p q0 := by
          subst hq0; split
          · exact sim_setErr p
          · exact Sim.refl p
        have hc0 : q0.cur = p.cur := by subst hq0; split <;> rfl
        generalize hq : ({ q0 with
            symbols := if q0.symbols.contains p.nextToken.val then q0.symbols
                       else p.nextToken.val :: q0.symbols,
            cur := { q0.cur with labels := q0.cur.labels ++ [p.nextToken.val] } } : PState) = q at h
        have hs : Sim p q := by subst hq; exact hs0.trans ⟨rfl, rfl, rfl, rfl⟩
        have hc : tokCount q.cur = tokCount p.cur := by subst hq; show tokCount q0.cur = _; rw [hc0]
        rcases hnx : next q with ⟨r, q3⟩
        have hq3 : q3 = advance q := by rw [advance, hnx]
        rw [hnx] at h
        dsimp only at h
        subst hq3
        obtain ⟨a1, a2, _⟩ := advance_spec q
        have hle := advance_N_le q
        have hN := hs.N
        split at h <;> cases h
        · exact .of_le (by rw [show (setErr (advance q)).lines = (advance q).lines from rfl, a1, hs.lines])
            (by rw [cur_setErr, a2, hc]; exact Nat.le_refl _) (by decide)
            (by simp only [owe]; show N (advance q) + 0 ≤ _; omega) (by show N (advance q) ≤ _; omega)
        · exact .of_le (by rw [a1, hs.lines]) (by rw [a2, hc]; exact Nat.le_refl _) (by decide)
            (by simp only [owe]; omega) (by omega)

theorem step_colon_cost {p p' : PState} {o : Option St} (h : step .colon p = .ok (p', o)) :
    StepCost .colon p p' o := by
  rw [step] at h
  cases hsk : skipLoop "parseColon" .colon false (p.rest.length + 1) p with
  | error e => rw [hsk] at h; cases h
  | ok p1 =>
    rw [hsk] at h
    simp only [bind, Except.bind, pure, Except.pure] at h
    obtain ⟨h1, h2, h3, _⟩ := skipLoop_cost _ _ _ _ _ _ hsk
    split at h
    · split at h
      · cases h
      · cases h
        obtain ⟨a1, a2, _⟩ := advance_spec p1
        have := advance_N_le p1
        exact .of_le (by rw [a1, h1]) (by rw [a2, h2]; exact Nat.le_refl _) (by decide)
          (by simp only [owe]; omega) (by omega)
    · split at h
      · rename_i hop
        cases h
        exact .of_le h1 (by rw [h2]; exact Nat.le_refl _) (by decide)
          (by rw [owe_opState hop]; simp only [owe]; omega) h3
      · split at h <;> cases h
        · exact .of_le h1 (by rw [h2]; exact Nat.le_refl _) (by decide) (by simp only [owe]; omega) h3
        · exact .of_le h1 (by show tokCount p1.cur ≤ _; rw [h2]; exact Nat.le_refl _) (by decide)
            (by simp only [owe]; show N p1 + 0 ≤ _; omega) h3

/-- `emit` after the state has read the token that pays for the line -/
theorem StepCost.emit {s : St} {p q : PState} {o : Option St} (hs : s ≠ .line)
    (ho : o = none ∨ o = some .line)
    (hl : q.lines = p.lines) (hc : tokCount q.cur + N q ≤ tokCount p.cur + N p)
    (hN : N q + 1 ≤ N p + owe (some s) p.nextToken) :
    StepCost s p (Parser.emit q) o := by
  have h2 : curW (some s) p = tokCount p.cur := by cases s <;> first | rfl | exact absurd rfl hs
  have ho1 : owe o (Parser.emit q).nextToken = 0 := by rcases ho with rfl | rfl <;> rfl
  have ho2 : curW o (Parser.emit q) = 0 := by rcases ho with rfl | rfl <;> rfl
  constructor
  · simp only [M1, size_emit, N_emit, hl, ho1]; omega
  · simp only [M2, sumToks_emit, N_emit, hl, ho2, h2]; omega

theorem step_pseudoOp_cost {p p' : PState} {o : Option St} (h : step .pseudoOp p = .ok (p', o)) :
    StepCost .pseudoOp p p' o := by
  rw [step] at h
  dsimp only at h
  generalize hq : ({ p with
      cur := { p.cur with op := p.nextToken.val, typ := .pseudoOp },
      endSeen := p.endSeen || lowerStr p.nextToken.val == "end" } : PState) = q at h
  have hs : Sim p q := by subst hq; exact ⟨rfl, rfl, rfl, rfl⟩
  have hc : tokCount q.cur = tokCount p.cur := by subst hq; rfl
  have hN := hs.N
  obtain ⟨a1, a2, a3⟩ := advance_spec q
  have hlt : (advance q).nextToken.typ ≠ .text → p.nextToken.typ = .text →
      N (advance q) + 1 = N q := fun h1 h2 =>
    advance_N_lt (ne_of_typ_ne (by rw [hs.tok, h2]; exact h1))
  have hle := advance_N_le q
  generalize advance q = q1 at *
  -- the two emitting branches
  have hemit : ∀ o', (o' = none ∨ o' = some .line) → q1.nextToken.typ ≠ .text →
      StepCost .pseudoOp p (emit (incNewlines (advance q1))) o' := by
    intro o' ho' hty
    obtain ⟨b1, b2, _⟩ := advance_spec q1
    have hb := advance_N_le q1
    refine StepCost.emit (by decide) ho' (by show (advance q1).lines = _; rw [b1, a1, hs.lines]) ?_ ?_
    · rw [tokCount_incNewlines, b2, a2, hc, (sim_incNewlines _).N]; omega
    · rw [(sim_incNewlines _).N]
      simp only [owe]
      split
      · rename_i ht; have := hlt hty ht; omega
      · omega
  have hstop : StepCost .pseudoOp p (setErr q1) none :=
    .of_le (by show q1.lines = _; rw [a1, hs.lines]) (by rw [cur_setErr, a2, hc]; exact Nat.le_refl _)
      (by decide) (by simp only [owe_none]; show N q1 + 0 ≤ _; omega) (by show N q1 ≤ _; omega)
  split at h
  · rename_i hex
    cases h
    exact .of_le (by rw [a1, hs.lines]) (by rw [a2, hc]; exact Nat.le_refl _) (by decide)
      (by simp only [owe, hex, if_true]; omega) (by omega)
  · split at h
    · rename_i hcm
      have hcm : q1.nextToken.typ = .comment := by simpa using hcm
      cases h
      exact .of_le (by rw [a1, hs.lines]) (by rw [a2, hc]; exact Nat.le_refl _) (by decide)
        (by simp only [owe, hcm, if_true]; omega) (by omega)
    · split at h
      · rename_i heof
        have heof : q1.nextToken.typ = .eof := by simpa using heof
        split at h <;> cases h
        · exact hemit none (Or.inl rfl) (by rw [heof]; decide)
        · exact hstop
      · split at h
        · rename_i hnl
          have hnl : q1.nextToken.typ = .newline := by simpa using hnl
          split at h <;> cases h
          · exact hemit (some .line) (Or.inr rfl) (by rw [hnl]; decide)
          · exact hstop
        · cases h; exact hstop

theorem step_pseudoExpr_cost {p p' : PState} {o : Option St} (h : step .pseudoExpr p = .ok (p', o)) :
    StepCost .pseudoExpr p p' o := by
  rw [step] at h
  cases hce : collectExpr "parsePseudoExpr" p with
  | error e => rw [hce] at h; cases h
  | ok r =>
    obtain ⟨p1, ts⟩ := r
    rw [hce] at h
    simp only [bind, Except.bind, pure, Except.pure] at h
    obtain ⟨h1, h2, h3, h4⟩ := collectExpr_cost hce
    generalize hq : ({ p1 with cur := { p1.cur with a := some (p1.cur.a.getD [] ++ ts) } } : PState) = q at h
    have hs : Sim p1 q := by subst hq; exact ⟨rfl, rfl, rfl, rfl⟩
    have hc : tokCount q.cur = tokCount p.cur + ts.length := by
      subst hq; simp only [tokCount, Option.getD_some, List.length_append, h2]; omega
    have hN := hs.N
    have hpay : N q + 1 ≤ N p + owe (some .pseudoExpr) p.nextToken := by
      simp only [owe]; split
      · rename_i he; have := h4 he; omega
      · omega
    split at h
    · rename_i hcm
      cases h
      constructor
      · simp only [M1, hs.lines, h1, owe]; rw [hs.tok, hcm]; simp only [if_true]; omega
      · simp only [M2, hs.lines, h1, curW, hc]; omega
    · cases h
      obtain ⟨b1, b2, _⟩ := advance_spec q
      have hb := advance_N_le q
      refine StepCost.emit (by decide) (Or.inr rfl)
        (by show (advance q).lines = _; rw [b1, hs.lines, h1]) ?_ ?_
      · rw [tokCount_incNewlines, b2, hc, (sim_incNewlines _).N]; omega
      · rw [(sim_incNewlines _).N]; omega
    · cases h
      exact StepCost.emit (by decide) (Or.inr rfl) (by rw [hs.lines, h1]) (by rw [hc]; omega) hpay
    · cases h
      constructor
      · simp only [M1, owe_none]; show q.lines.size + N q + 0 ≤ _; rw [hs.lines, h1]; omega
      · simp only [M2, curW]; show sumToks q.lines + 0 + N q ≤ _; rw [hs.lines, h1]; omega

theorem step_op_cost {p p' : PState} {o : Option St} (h : step .op p = .ok (p', o)) :
    StepCost .op p p' o := by
  rw [step] at h
  dsimp only at h
  generalize hq : ({ p with
      cur := { p.cur with op := p.nextToken.val, typ := .instruction, codeLine := p.codeLine },
      codeLine := p.codeLine + 1 } : PState) = q at h
  have hs : Sim p q := by subst hq; exact ⟨rfl, rfl, rfl, rfl⟩
  have hc : tokCount q.cur = tokCount p.cur := by subst hq; rfl
  have hN := hs.N
  obtain ⟨a1, a2, _⟩ := advance_spec q
  have hle := advance_N_le q
  generalize advance q = q1 at *
  have key : ∀ s', owe (some s') q1.nextToken = 0 → StepCost .op p q1 (some s') := fun s' hs' =>
    .of_le (by rw [a1, hs.lines]) (by rw [a2, hc]; exact Nat.le_refl _) (by decide)
      (by rw [hs']; simp only [owe]; omega) (by omega)
  split at h
  · cases h; exact key _ rfl
  · split at h
    · rename_i hex
      cases h
      refine key _ ?_
      simp only [Bool.and_eq_true] at hex
      simp only [owe, hex.1, if_true]
    · split at h
      · rename_i hsym
        have hsym : q1.nextToken.typ = .symbol := by simpa using hsym
        split at h <;> cases h
        · exact key _ rfl
        · refine key _ ?_
          simp only [owe, exprTerm_of_symbol hsym, if_true]
      · cases h
        exact .of_le (by show q1.lines = _; rw [a1, hs.lines])
          (by rw [cur_setErr, a2, hc]; exact Nat.le_refl _) (by decide)
          (by simp only [owe]; show N q1 + 0 ≤ _; omega) (by show N q1 ≤ _; omega)

theorem step_mode_cost {s : St} {p p' q : PState} {o : Option St} (hs : Sim p q)
    (hc : tokCount q.cur = tokCount p.cur) (hne : s ≠ .line)
    {s' : St} (hs' : s' = .exprA ∨ s' = .exprB)
    (h : (if (advance q).nextToken.isExpressionTerm = true then
            (Except.ok (advance q, some s') : Except Fault (PState × Option St))
          else .ok (setErr (advance q), none)) = .ok (p', o)) :
    StepCost s p p' o := by
  have hN := hs.N
  obtain ⟨a1, a2, _⟩ := advance_spec q
  have hle := advance_N_le q
  split at h
  · rename_i hex
    cases h
    refine .of_le (by rw [a1, hs.lines]) (by rw [a2, hc]; exact Nat.le_refl _) hne ?_ (by omega)
    have : owe (some s') (advance q).nextToken = 0 := by
      rcases hs' with rfl | rfl <;> simp only [owe, hex, if_true]
    omega
  · cases h
    exact .of_le (by show (advance q).lines = _; rw [a1, hs.lines])
      (by rw [cur_setErr, a2, hc]; exact Nat.le_refl _) hne
      (by simp only [owe_none]; show N (advance q) + 0 ≤ _; omega) (by show N (advance q) ≤ _; omega)

theorem step_modeA_cost {p p' : PState} {o : Option St} (h : step .modeA p = .ok (p', o)) :
    StepCost .modeA p p' o := by
  rw [step] at h
  dsimp only at h
  exact step_mode_cost (q := { p with cur := { p.cur with amode := p.nextToken.val } })
    ⟨rfl, rfl, rfl, rfl⟩ rfl (by decide) (Or.inl rfl) h

theorem step_modeB_cost {p p' : PState} {o : Option St} (h : step .modeB p = .ok (p', o)) :
    StepCost .modeB p p' o := by
  rw [step] at h
  dsimp only at h
  exact step_mode_cost (q := { p with cur := { p.cur with bmode := p.nextToken.val } })
    ⟨rfl, rfl, rfl, rfl⟩ rfl (by decide) (Or.inr rfl) h

theorem step_comma_cost {p p' : PState} {o : Option St} (h : step .comma p = .ok (p', o)) :
    StepCost .comma p p' o := by
  rw [step] at h
  obtain ⟨a1, a2, _⟩ := advance_spec p
  have hle := advance_N_le p
  split at h
  · cases h
    exact .of_le a1 (by rw [a2]; exact Nat.le_refl _) (by decide) (by simp only [owe]; omega) hle
  · exact step_mode_cost (q := p) (Sim.refl p) rfl (by decide) (Or.inr rfl) h

theorem step_exprA_cost {p p' : PState} {o : Option St} (h : step .exprA p = .ok (p', o)) :
    StepCost .exprA p p' o := by
  rw [step] at h
  cases hce : collectExpr "parseExprA" p with
  | error e => rw [hce] at h; cases h
  | ok r =>
    obtain ⟨p1, ts⟩ := r
    rw [hce] at h
    simp only [bind, Except.bind, pure, Except.pure] at h
    obtain ⟨h1, h2, h3, h4⟩ := collectExpr_cost hce
    generalize hq : ({ p1 with cur := { p1.cur with a := some (p1.cur.a.getD [] ++ ts) } } : PState) = q at h
    have hs : Sim p1 q := by subst hq; exact ⟨rfl, rfl, rfl, rfl⟩
    have hc : tokCount q.cur = tokCount p.cur + ts.length := by
      subst hq; simp only [tokCount, Option.getD_some, List.length_append, h2]; omega
    have hN := hs.N
    have hpay : N q + 1 ≤ N p + owe (some .exprA) p.nextToken := by
      simp only [owe]; split
      · rename_i he; have := h4 he; omega
      · omega
    split at h
    · rename_i hcm
      cases h
      constructor
      · simp only [M1, hs.lines, h1, owe]; rw [hs.tok, hcm]; simp only [if_true]; omega
      · simp only [M2, hs.lines, h1, curW, hc]; omega
    · cases h
      constructor
      · simp only [M1, hs.lines, h1, owe]; omega
      · simp only [M2, hs.lines, h1, curW, hc]; omega
    · cases h
      exact StepCost.emit (by decide) (Or.inr rfl) (by rw [hs.lines, h1]) (by rw [hc]; omega) hpay
    · cases h
      exact StepCost.emit (by decide) (Or.inr rfl) (by rw [hs.lines, h1]) (by rw [hc]; omega) hpay
    · cases h
      constructor
      · simp only [M1, owe_none]; show q.lines.size + N q + 0 ≤ _; rw [hs.lines, h1]; omega
      · simp only [M2, curW]; show sumToks q.lines + 0 + N q ≤ _; rw [hs.lines, h1]; omega

theorem step_exprB_cost {p p' : PState} {o : Option St} (h : step .exprB p = .ok (p', o)) :
    StepCost .exprB p p' o := by
  rw [step] at h
  cases hce : collectExpr "parseExprB" p with
  | error e => rw [hce] at h; cases h
  | ok r =>
    obtain ⟨p1, ts⟩ := r
    rw [hce] at h
    simp only [bind, Except.bind, pure, Except.pure] at h
    obtain ⟨h1, h2, h3, h4⟩ := collectExpr_cost hce
    generalize hq : ({ p1 with cur := { p1.cur with b := some (p1.cur.b.getD [] ++ ts) } } : PState) = q at h
    have hs : Sim p1 q := by subst hq; exact ⟨rfl, rfl, rfl, rfl⟩
    have hc : tokCount q.cur = tokCount p.cur + ts.length := by
      subst hq; simp only [tokCount, Option.getD_some, List.length_append, h2]; omega
    have hN := hs.N
    have hpay : N q + 1 ≤ N p + owe (some .exprB) p.nextToken := by
      simp only [owe]; split
      · rename_i he; have := h4 he; omega
      · omega
    split at h
    · rename_i hcm
      cases h
      constructor
      · simp only [M1, hs.lines, h1, owe]; rw [hs.tok, hcm]; simp only [if_true]; omega
      · simp only [M2, hs.lines, h1, curW, hc]; omega
    · cases h
      -- advance (emit (incNewlines q))
      obtain ⟨b1, b2, _⟩ := advance_spec (emit (incNewlines q))
      have hb := advance_N_le (emit (incNewlines q))
      have hNe : N (emit (incNewlines q)) = N q := rfl
      constructor
      · simp only [M1, b1, size_emit]
        show q.lines.size + 1 + N (advance (emit (incNewlines q))) + 0 ≤ _
        rw [hs.lines, h1]; omega
      · simp only [M2, b1, sumToks_emit, curW]
        show sumToks q.lines + tokCount q.cur + 0 + N (advance (emit (incNewlines q))) ≤ _
        rw [hs.lines, h1, hc]; omega
    · cases h
      exact StepCost.emit (by decide) (Or.inr rfl) (by rw [hs.lines, h1]) (by rw [hc]; omega) hpay
    · cases h
      constructor
      · simp only [M1, owe_none]; show q.lines.size + N q + 0 ≤ _; rw [hs.lines, h1]; omega
      · simp only [M2, curW]; show sumToks q.lines + 0 + N q ≤ _; rw [hs.lines, h1]; omega

theorem step_cost (s : St) {p p' : PState} {o : Option St} (h : step s p = .ok (p', o)) :
    StepCost s p p' o := by
  cases s
  · exact step_line_cost h
  · exact step_emptyLines_cost h
  · exact step_comment_cost h
  · exact step_labels_cost h
  · exact step_colon_cost h
  · exact step_pseudoOp_cost h
  · exact step_pseudoExpr_cost h
  · exact step_op_cost h
  · exact step_modeA_cost h
  · exact step_exprA_cost h
  · exact step_comma_cost h
  · exact step_modeB_cost h
  · exact step_exprB_cost h

/-- along a whole run neither potential grows -/
theorem run_cost : ∀ (fuel : Nat) (s : St) (p p' : PState), run fuel s p = .ok p' →
    M1 none p' ≤ M1 (some s) p ∧ M2 none p' ≤ M2 (some s) p := by
  intro fuel
  induction fuel with
  | zero => intro s p p' h; simp [run] at h
  | succ fuel ih =>
    intro s p p' h
    unfold run at h
    cases hs : step s p with
    | error e => rw [hs] at h; cases h
    | ok r =>
      obtain ⟨p1, o⟩ := r
      rw [hs] at h
      obtain ⟨c1, c2⟩ := step_cost s hs
      cases o with
      | none =>
        simp only [bind, Except.bind, pure, Except.pure, Except.ok.injEq] at h
        subst h
        exact ⟨c1, c2⟩
      | some s' =>
        simp only [bind, Except.bind] at h
        obtain ⟨d1, d2⟩ := ih s' p1 p' h
        exact ⟨Nat.le_trans d1 c1, Nat.le_trans d2 c2⟩

theorem newParser_M (toks : List Token) :
    M1 (some .line) (newParser toks) = toks.length ∧ M2 (some .line) (newParser toks) = toks.length := by
  cases toks with
  | nil => constructor <;> simp [newParser, advance, next, M1, M2, N, owe, curW, sumToks]
  | cons t r => constructor <;> simp [newParser, advance, next, M1, M2, N, owe, curW, sumToks]

end Parser

open Parser in
/-- `parse_linear` — for EVERY token list: the parser returns at most one source line per token,
    and the operand / value fields of all returned lines together hold at most as many tokens as
    were read -/
theorem parse_linear {toks : List Token} {lines : List SourceLine} {ameta : AsmMeta}
    (h : parse toks = .ok (some (lines, ameta))) :
    lines.length ≤ toks.length ∧ (lines.map Parser.tokCount).sum ≤ toks.length := by
  unfold parse at h
  cases hr : Parser.run (Parser.runFuel toks) .line (Parser.newParser toks) with
  | error e => rw [hr] at h; cases h
  | ok p =>
    rw [hr] at h
    simp only [bind, Except.bind, pure, Except.pure] at h
    obtain ⟨c1, c2⟩ := Parser.run_cost _ _ _ _ hr
    obtain ⟨n1, n2⟩ := Parser.newParser_M toks
    rw [n1] at c1
    rw [n2] at c2
    split at h
    · cases h
    · split at h
      · cases h
      · simp only [Except.ok.injEq, Option.some.injEq, Prod.mk.injEq] at h
        obtain ⟨rfl, _⟩ := h
        constructor
        · simp only [Parser.M1, Parser.owe] at c1
          simp only [Array.length_toList]; omega
        · simp only [Parser.M2, Parser.curW, Parser.sumToks] at c2
          omega

end Gmars
