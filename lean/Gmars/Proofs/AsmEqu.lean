/-
  C03 / C07, compiler stage: programs with labels, EQU definitions (anywhere, EQU-in-EQU, using
  labels and the predefined constants) and `;assert` lines.  Main theorem: `compile_meaning_equ`.

  The hypothesis "every symbol is defined once" is necessary, as for labels: on
      x equ 5 / x dat x
  the model of `compile()` (like Go: `values` is looked up before `labels`) ACCEPTS the program
  (dat 5), `Spec.meaningFlat` rejects it (checked with #eval).

  The hypothesis "EQU chains shorter than 64" (`d s < 63`) is necessary as well: on the chain
      x0 equ x1 / x1 equ x2 / … / x63 equ x64 / x64 equ 5 / dat x0        (65 EQUs)
  the model accepts (dat 5; Go has no depth limit on an acyclic table), `Spec.expandEqus 64` runs
  out of fuel and the reference rejects (checked with #eval; 64 EQUs are accepted by both, and
  with a label at the end of the chain 63 are, 64 are not).  Likewise the 20000-token limit
  (`SizeOK`) exists in the reference only.  Cyclic tables are rejected by both
  (`compile_equ_cyclic`).
-/
import Gmars.Proofs.EquSize

namespace Gmars.AsmLine
open Gmars.Compile Gmars.ExprProofs

/-! ## the reference's passes over the items -/

theorem xequsOf_items (prog : List XItem) : Spec.equsOf (prog.map XItem.toItem) = xequs prog := by
  induction prog with
  | nil => rfl
  | cons it r ih =>
    unfold Spec.equsOf at ih ⊢
    cases it <;> simp only [List.map_cons, XItem.toItem, List.filterMap_cons, xequs, ih]

/-- the tables `Spec.meaningFlat` works with -/
def xtables (sc : Spec.Cfg) (prog : List XItem) : Spec.Tables :=
  { labels := xlabelsFrom 0 prog, equs := xequs prog ++ Spec.predefined sc }

theorem tablesOf_xitems (sc : Spec.Cfg) (prog : List XItem) :
    tablesOf sc (prog.map XItem.toItem) (xlabelsFrom 0 prog) = xtables sc prog := by
  unfold tablesOf xtables
  rw [xequsOf_items]

theorem xlabelFold_aux (prog : List XItem) :
    ∀ (ls : List (String × Nat)) (k : Nat),
      (prog.map XItem.toItem).foldl (fun (acc : List (String × Nat) × Nat) it =>
        match it with
        | .instr ls _ _ _ _ => (acc.1 ++ ls.map (fun l => (l, acc.2)), acc.2 + 1)
        | _ => acc) (ls, k) = (ls ++ xlabelsFrom k prog, k + xinstrCount prog) := by
  induction prog with
  | nil => intro ls k; simp [xlabelsFrom, xinstrCount]
  | cons it r ih =>
    intro ls k
    cases it with
    | instr l op md a b =>
      simp only [List.map_cons, List.foldl_cons, XItem.toItem]
      rw [ih]
      simp only [xlabelsFrom, xinstrCount, List.filter_cons, XItem.isInstr, if_true, List.length_cons,
        List.append_assoc]
      congr 1; omega
    | equ kw n e => simp only [List.map_cons, List.foldl_cons, XItem.toItem]; rw [ih]; rfl
    | org kw e => simp only [List.map_cons, List.foldl_cons, XItem.toItem]; rw [ih]; rfl
    | end_ kw e => simp only [List.map_cons, List.foldl_cons, XItem.toItem]; rw [ih]; rfl
    | assert cm e => simp only [List.map_cons, List.foldl_cons, XItem.toItem]; rw [ih]; rfl

theorem xlabelFold_items (prog : List XItem) :
    labelFold (prog.map XItem.toItem) = (xlabelsFrom 0 prog, xinstrCount prog) := by
  have h := xlabelFold_aux prog [] 0
  simp only [List.nil_append, Nat.zero_add] at h
  exact h

theorem xmetaOf_items (prog : List XItem) (k : Spec.MetaKind) : metaOf (prog.map XItem.toItem) k = [] := by
  unfold metaOf
  rw [List.filterMap_eq_nil_iff]
  intro x hx
  obtain ⟨it, _, rfl⟩ := List.mem_map.1 hx
  cases it <;> rfl

/-- the entry-point expression: the last `ORG`, or `END` with an argument -/
def xstartStep (acc : List Spec.ETok) : XItem → List Spec.ETok
  | .org _ e => e
  | .end_ _ (some e) => e
  | _ => acc

def xstart (prog : List XItem) : List Spec.ETok := prog.foldl xstartStep [.num 0]

theorem xstartFold_aux (prog : List XItem) :
    ∀ acc : List Spec.ETok, (prog.map XItem.toItem).foldl (fun acc it =>
        match it with
        | .org e => e
        | .end_ (some e) => e
        | _ => acc) acc = prog.foldl xstartStep acc := by
  induction prog with
  | nil => intro acc; rfl
  | cons it r ih =>
    intro acc
    simp only [List.map_cons, List.foldl_cons]
    cases it with
    | instr ls op md a b => exact ih acc
    | equ kw n e => exact ih acc
    | org kw e => exact ih e
    | end_ kw e =>
      cases e with
      | none => exact ih acc
      | some x => exact ih x
    | assert cm e => exact ih acc

theorem xstartFold_items (prog : List XItem) : startFold (prog.map XItem.toItem) = xstart prog :=
  xstartFold_aux prog _

theorem codeFold_equ (c : Spec.Cfg) (t : Spec.Tables) (n : String) (e : List Spec.ETok)
    (r : List Spec.Item) (init : Option (List Instr) × Nat) :
    codeFold c t (.equ n e :: r) init = codeFold c t r init := by
  obtain ⟨x, k⟩ := init
  cases x <;> rfl

theorem codeFold_assert (c : Spec.Cfg) (t : Spec.Tables) (e : List Spec.ETok)
    (r : List Spec.Item) (init : Option (List Instr) × Nat) :
    codeFold c t (.assert e :: r) init = codeFold c t r init := by
  obtain ⟨x, k⟩ := init
  cases x <;> rfl

theorem xcodeFold_none (c : Spec.Cfg) (t : Spec.Tables) (prog : List XItem) :
    ∀ k, (codeFold c t (prog.map XItem.toItem) (none, k)).1 = none := by
  induction prog with
  | nil => intro k; rfl
  | cons it r ih =>
    intro k
    cases it with
    | instr ls op md a b => simp only [List.map_cons, XItem.toItem, codeFold_instr_none]; exact ih _
    | equ kw n e => simp only [List.map_cons, XItem.toItem, codeFold_equ]; exact ih _
    | org kw e => simp only [List.map_cons, XItem.toItem, codeFold_org]; exact ih _
    | end_ kw e => simp only [List.map_cons, XItem.toItem, codeFold_end]; exact ih _
    | assert cm e => simp only [List.map_cons, XItem.toItem, codeFold_assert]; exact ih _

theorem xcodeFold_length (c : Spec.Cfg) (t : Spec.Tables) (prog : List XItem) :
    ∀ (code : List Instr) (k : Nat) (out : List Instr),
      (codeFold c t (prog.map XItem.toItem) (some code, k)).1 = some out →
      out.length = code.length + xinstrCount prog := by
  induction prog with
  | nil => intro code k out h; cases h; simp [xinstrCount]
  | cons it r ih =>
    intro code k out h
    cases it with
    | instr ls op md a b =>
      simp only [List.map_cons, XItem.toItem, codeFold_instr_some] at h
      cases hi : Spec.instrMeaning c t k op md a.toP (b.map XOperand.toP) with
      | none => rw [hi, Option.map_none, xcodeFold_none] at h; cases h
      | some i =>
        rw [hi, Option.map_some] at h
        have := ih _ _ _ h
        simp only [xinstrCount, List.filter_cons, XItem.isInstr, if_true, List.length_cons,
          List.length_append, List.length_nil] at this ⊢
        omega
    | equ kw n e =>
      simp only [List.map_cons, XItem.toItem, codeFold_equ] at h
      exact ih _ _ _ h
    | org kw e =>
      simp only [List.map_cons, XItem.toItem, codeFold_org] at h
      exact ih _ _ _ h
    | end_ kw e =>
      simp only [List.map_cons, XItem.toItem, codeFold_end] at h
      exact ih _ _ _ h
    | assert cm e =>
      simp only [List.map_cons, XItem.toItem, codeFold_assert] at h
      exact ih _ _ _ h

theorem xlabelsFrom_lt (prog : List XItem) :
    ∀ k, ∀ p ∈ xlabelsFrom k prog, p.2 < k + xinstrCount prog := by
  induction prog with
  | nil => intro k p hp; simp [xlabelsFrom] at hp
  | cons it r ih =>
    intro k p hp
    cases it with
    | instr ls op md a b =>
      simp only [xlabelsFrom, List.mem_append, List.mem_map] at hp
      simp only [xinstrCount, List.filter_cons, XItem.isInstr, if_true, List.length_cons]
      rcases hp with ⟨l, _, rfl⟩ | hp
      · simp only; omega
      · have := ih (k + 1) p hp
        simp only [xinstrCount] at this
        omega
    | equ kw n e =>
      have := ih k p hp
      simpa [xinstrCount, List.filter_cons, XItem.isInstr] using this
    | org kw e =>
      have := ih k p hp
      simpa [xinstrCount, List.filter_cons, XItem.isInstr] using this
    | end_ kw e =>
      have := ih k p hp
      simpa [xinstrCount, List.filter_cons, XItem.isInstr] using this
    | assert cm e =>
      have := ih k p hp
      simpa [xinstrCount, List.filter_cons, XItem.isInstr] using this

/-! ## side conditions -/

/-- an expression inside the reference's size limit whose full expansion is a well-formed tree -/
structure GoodX (sc : Spec.Cfg) (t : Spec.Tables) (k : Nat) (e : List Spec.ETok) : Prop where
  size : SizeOK t.equs e
  tree : TreeOK sc t k e

theorem cst_etoks_ne_nil (c : CST) : c.etoks ≠ [] := by
  intro h
  have := CST.etoks_length c
  rw [h] at this
  have := ntoks_pos c
  simp at *
  omega

theorem TreeOK.ne_nil {sc : Spec.Cfg} {t : Spec.Tables} {k : Nat} {e : List Spec.ETok}
    (h : TreeOK sc t k e) : e ≠ [] := by
  intro he
  subst he
  obtain ⟨c, _, _, hc⟩ := h [] [] rfl rfl
  exact cst_etoks_ne_nil c hc

/-- side conditions on the item that is line `k` of the code: the keywords are the keywords, the
    opcode/modifier text is ASCII without a dot in the opcode, every expression is `GoodX`, the
    comment of an assert line starts with `;assert` and the lexer reads `e` (plus its end token)
    from the rest -/
def XItem.WF (lexTokens : String → List Token) (sc : Spec.Cfg) (t : Spec.Tables) (k : Nat) : XItem → Prop
  | .instr _ op md a b =>
    Ascii op ∧ '.' ∉ op.toList ∧ (∀ s, md = some s → Ascii s) ∧ GoodX sc t k a.expr ∧
      (∀ bo, b = some bo → GoodX sc t k bo.expr)
  | .equ kw _ e => lowerStr kw = "equ" ∧ SizeOK t.equs e
  | .org kw e => lowerStr kw = "org" ∧ GoodX sc t 0 e
  | .end_ kw e => lowerStr kw = "end" ∧ (∀ x, e = some x → GoodX sc t 0 x)
  | .assert cm e =>
    assertPrefix.isPrefixOf cm.toList = true ∧
      (∃ last, lexTokens (String.ofList (cm.toList.drop 7)) = toksOf e ++ [last]) ∧ GoodX sc t 0 e

def XProgWF (lexTokens : String → List Token) (sc : Spec.Cfg) (t : Spec.Tables) :
    Nat → List XItem → Prop
  | _, [] => True
  | k, it :: r => it.WF lexTokens sc t k ∧ XProgWF lexTokens sc t (if it.isInstr then k + 1 else k) r

/-- what `loadSymbols` needs to know: the keywords are the keywords, an `END` argument is not empty -/
def XItem.KW : XItem → Prop
  | .equ kw _ _ => lowerStr kw = "equ"
  | .org kw _ => lowerStr kw = "org"
  | .end_ kw e => lowerStr kw = "end" ∧ ∀ x, e = some x → x ≠ []
  | _ => True

theorem XItem.WF.kw {lexTokens : String → List Token} {sc : Spec.Cfg} {t : Spec.Tables} {k : Nat}
    {it : XItem} (h : it.WF lexTokens sc t k) : it.KW := by
  cases it with
  | instr ls op md a b => trivial
  | equ kw n e => exact h.1
  | org kw e => exact h.1
  | end_ kw e => exact ⟨h.1, fun x hx => (h.2 x hx).tree.ne_nil⟩
  | assert cm e => trivial

theorem XProgWF.kw {lexTokens : String → List Token} {sc : Spec.Cfg} {t : Spec.Tables}
    {prog : List XItem} : ∀ {k : Nat}, XProgWF lexTokens sc t k prog → ∀ it ∈ prog, it.KW := by
  induction prog with
  | nil => intro k _ it hit; cases hit
  | cons x r ih =>
    intro k hw it hit
    rcases List.mem_cons.1 hit with rfl | hit
    · exact hw.1.kw
    · exact ih hw.2 it hit

theorem toksOf_ne_nil {e : List Spec.ETok} (h : e ≠ []) : toksOf e ≠ [] := by
  cases e with
  | nil => exact absurd rfl h
  | cons x r => simp [toksOf]

/-! ## `loadSymbols` -/

theorem SymTab.has_false_of_not_mem (m : SymTab) (k : String) (h : k ∉ m.map (·.1)) :
    m.has k = false := by
  unfold SymTab.has
  have : m.find? (·.1 == k) = none := by
    rw [List.find?_eq_none]
    intro x hx hb
    have : x.1 = k := by simpa using hb
    exact h (this ▸ List.mem_map_of_mem hx)
  rw [this]; rfl

theorem SymTab.set_new (m : SymTab) (k : String) (v : List Token) (h : k ∉ m.map (·.1)) :
    m.set k v = m ++ [(k, v)] := by
  unfold SymTab.set
  rw [SymTab.has_false_of_not_mem m k h]
  rfl

def rendEqu (p : String × List Spec.ETok) : String × List Token := (p.1, toksOf p.2)

def xstartStepT (acc : List Token) : XItem → List Token
  | .org _ e => toksOf e
  | .end_ _ (some e) => toksOf e
  | _ => acc

theorem xstartT_aux (prog : List XItem) :
    ∀ acc : List Spec.ETok, prog.foldl xstartStepT (toksOf acc) = toksOf (prog.foldl xstartStep acc) := by
  induction prog with
  | nil => intro acc; rfl
  | cons it r ih =>
    intro acc
    simp only [List.foldl_cons]
    cases it with
    | instr ls op md a b => exact ih acc
    | equ kw n e => exact ih acc
    | org kw e => exact ih e
    | end_ kw e =>
      cases e with
      | none => exact ih acc
      | some x => exact ih x
    | assert cm e => exact ih acc

theorem xloadSymbolsLine_instr (c : Compiler) (cur : Int) (k : Nat) (ls : List String) (op : String)
    (md : Option String) (a : XOperand) (b : Option XOperand) :
    (loadSymbolsLine (c, cur) ((XItem.instr ls op md a b).toLine k)).1 =
      { c with labels := ls.foldl (fun t l => t.set l (k : Int)) c.labels } := rfl

theorem xloadSymbolsLine_equ (c : Compiler) (cur : Int) (k : Nat) (kw n : String) (e : List Spec.ETok)
    (hkw : lowerStr kw = "equ") :
    (loadSymbolsLine (c, cur) ((XItem.equ kw n e).toLine k)).1 =
      { c with values := c.values.set n (toksOf e) } := by
  unfold loadSymbolsLine
  simp only [XItem.toLine, hkw]
  rfl

theorem xloadSymbolsLine_org (c : Compiler) (cur : Int) (k : Nat) (kw : String) (e : List Spec.ETok)
    (hkw : lowerStr kw = "org") :
    (loadSymbolsLine (c, cur) ((XItem.org kw e).toLine k)).1 = { c with startExpr := toksOf e } := by
  unfold loadSymbolsLine
  simp only [XItem.toLine, hkw]
  rfl

theorem xloadSymbolsLine_end (c : Compiler) (cur : Int) (k : Nat) (kw : String)
    (e : Option (List Spec.ETok)) (hkw : lowerStr kw = "end") (hne : ∀ x, e = some x → x ≠ []) :
    (loadSymbolsLine (c, cur) ((XItem.end_ kw e).toLine k)).1 =
      { c with startExpr := xstartStepT c.startExpr (.end_ kw e) } := by
  unfold loadSymbolsLine
  simp only [XItem.toLine, hkw]
  cases e with
  | none => rfl
  | some x =>
    have h0 : toksOf x ≠ [] := toksOf_ne_nil (hne x rfl)
    have : (toksOf x).length > 0 := by
      cases h : toksOf x with
      | nil => exact absurd h h0
      | cons _ _ => simp
    simp [xstartStepT, this]

theorem xloadSymbolsLine_assert (c : Compiler) (cur : Int) (k : Nat) (cm : String) (e : List Spec.ETok) :
    (loadSymbolsLine (c, cur) ((XItem.assert cm e).toLine k)).1 = c := rfl

theorem foldl_loadSymbolsLine_xrender (prog : List XItem) :
    ∀ (k : Nat) (st : Compiler × Int), (∀ it ∈ prog, it.KW) →
      (st.1.labels.map (·.1) ++ (xlabelsFrom k prog).map (·.1)).Nodup →
      (st.1.values.map (·.1) ++ (xequs prog).map (·.1)).Nodup →
      ((xrender k prog).foldl loadSymbolsLine st).1 =
        { st.1 with labels := st.1.labels ++ (xlabelsFrom k prog).map castL,
                    values := st.1.values ++ (xequs prog).map rendEqu,
                    startExpr := prog.foldl xstartStepT st.1.startExpr } := by
  induction prog with
  | nil => intro k st _ _ _; simp [xrender, xlabelsFrom, xequs]
  | cons it r ih =>
    intro k st hw0 hnd hnq
    have hw : it.KW ∧ ∀ x ∈ r, x.KW :=
      ⟨hw0 it (List.mem_cons_self ..), fun x hx => hw0 x (List.mem_cons_of_mem _ hx)⟩
    obtain ⟨c, cur⟩ := st
    simp only [xrender, List.foldl_cons]
    cases it with
    | instr ls op md a b =>
      simp only [xlabelsFrom, List.map_append, List.map_map] at hnd
      have hnd1 : (c.labels.map (·.1) ++ ls).Nodup := by
        have : ((fun x : String × Nat => x.1) ∘ fun l => (l, k)) = id := rfl
        rw [this, List.map_id, ← List.append_assoc] at hnd
        exact (List.nodup_append.1 hnd).1
      have hs := set_fold (k : Int) ls c.labels hnd1
      have hst : loadSymbolsLine (c, cur) ((XItem.instr ls op md a b).toLine k) =
          ({ c with labels := c.labels ++ ls.map (fun l => (l, (k : Int))) },
            (loadSymbolsLine (c, cur) ((XItem.instr ls op md a b).toLine k)).2) := by
        rw [← hs, ← xloadSymbolsLine_instr c cur k ls op md a b]
      rw [hst]
      simp only [XItem.isInstr, if_true]
      rw [ih (k + 1) _ hw.2]
      · simp only [xlabelsFrom, xequs, List.map_append, List.map_map,
          List.append_assoc, xstartStepT]
        rfl
      · simp only [List.map_append, List.map_map, List.append_assoc]
        exact hnd
      · exact hnq
    | equ kw n e =>
      simp only [xequs, List.map_cons] at hnq
      have hn : n ∉ c.values.map (·.1) := by
        intro hm
        rw [List.nodup_append] at hnq
        exact hnq.2.2 n hm n (List.mem_cons_self ..) rfl
      have hst : loadSymbolsLine (c, cur) ((XItem.equ kw n e).toLine k) =
          ({ c with values := c.values ++ [(n, toksOf e)] },
            (loadSymbolsLine (c, cur) ((XItem.equ kw n e).toLine k)).2) := by
        rw [← SymTab.set_new c.values n (toksOf e) hn, ← xloadSymbolsLine_equ c cur k kw n e hw.1]
      rw [hst]
      simp only [XItem.isInstr, Bool.false_eq_true, if_false]
      rw [ih k _ hw.2 (by exact hnd)]
      · simp only [xlabelsFrom, xequs, List.map_cons, List.append_assoc, List.singleton_append,
          xstartStepT]
        rfl
      · simp only [List.map_append, List.map_cons, List.map_nil, List.append_assoc,
          List.singleton_append]
        exact hnq
    | org kw e =>
      have hst : loadSymbolsLine (c, cur) ((XItem.org kw e).toLine k) =
          ({ c with startExpr := toksOf e },
            (loadSymbolsLine (c, cur) ((XItem.org kw e).toLine k)).2) := by
        rw [← xloadSymbolsLine_org c cur k kw e hw.1]
      rw [hst]
      simp only [XItem.isInstr, Bool.false_eq_true, if_false]
      rw [ih k _ hw.2 (by exact hnd) (by exact hnq)]
      rfl
    | end_ kw e =>
      have hst : loadSymbolsLine (c, cur) ((XItem.end_ kw e).toLine k) =
          ({ c with startExpr := xstartStepT c.startExpr (.end_ kw e) },
            (loadSymbolsLine (c, cur) ((XItem.end_ kw e).toLine k)).2) := by
        rw [← xloadSymbolsLine_end c cur k kw e hw.1.1 hw.1.2]
      rw [hst]
      simp only [XItem.isInstr, Bool.false_eq_true, if_false]
      rw [ih k _ hw.2 (by exact hnd) (by exact hnq)]
      rfl
    | assert cm e =>
      have hst : loadSymbolsLine (c, cur) ((XItem.assert cm e).toLine k) =
          (c, (loadSymbolsLine (c, cur) ((XItem.assert cm e).toLine k)).2) :=
        Prod.ext (xloadSymbolsLine_assert c cur k cm e) rfl
      rw [hst]
      simp only [XItem.isInstr, Bool.false_eq_true, if_false]
      rw [ih k _ hw.2 (by exact hnd) (by exact hnq)]
      rfl

/-- the compiler state after `loadSymbols` -/
def symCX (cfg : Config) (prog : List XItem) : Compiler :=
  { cfg := cfg, values := consts cfg ++ (xequs prog).map rendEqu,
    labels := (xlabelsFrom 0 prog).map castL, startExpr := toksOf (xstart prog) }

theorem consts_keys (cfg : Config) : (consts cfg).map (·.1) = constNames := rfl

theorem symC_xrender (cfg : Config)
    (prog : List XItem) (hnl : ((xlabelsFrom 0 prog).map (·.1)).Nodup)
    (hnq : (constNames ++ (xequs prog).map (·.1)).Nodup)
    (hw : ∀ it ∈ prog, it.KW) :
    symC cfg (xrender 0 prog) = symCX cfg prog := by
  unfold symC loadSymbols
  simp only
  rw [foldl_loadSymbolsLine_xrender prog 0 _ hw (by simpa [loadConstants] using hnl)
    (by exact hnq)]
  unfold symCX xstart
  rw [← xstartT_aux]
  rfl

/-! ## the two tables -/

theorem tabRel_rend (Q : ETab) : TabRel (Q.map rendEqu) Q := by
  intro s
  unfold SymTab.get? ETab.get?
  induction Q with
  | nil => rfl
  | cons p r ih =>
    simp only [List.map_cons, List.find?_cons, rendEqu]
    cases (p.1 == s) with
    | true => rfl
    | false => exact ih

theorem tabRel_consts {cfg : Config} {sc : Spec.Cfg} (hr : CfgRel cfg sc) :
    TabRel (consts cfg) (Spec.predefined sc) := by
  intro s
  rw [consts_eq]
  unfold Spec.predefined SymTab.get? ETab.get?
  simp only [List.find?_cons, List.find?_nil, hr.M, hr.maxLen, hr.maxProcs, hr.minDist]
  cases ("CORESIZE" == s) with
  | true => rfl
  | false =>
    cases ("MAXLENGTH" == s) with
    | true => rfl
    | false =>
      cases ("MAXPROCESSES" == s) with
      | true => rfl
      | false =>
        cases ("MINDISTANCE" == s) with
        | true => rfl
        | false => rfl

theorem SymTab.get?_append (A B : SymTab) (s : String) :
    (A ++ B).get? s = (A.get? s).or (B.get? s) := by
  unfold SymTab.get?
  rw [List.find?_append]
  cases A.find? (·.1 == s) <;> rfl

theorem ETab.get?_append (A B : ETab) (s : String) :
    (A ++ B).get? s = (A.get? s).or (B.get? s) := by
  unfold ETab.get?
  rw [List.find?_append]
  cases A.find? (·.1 == s) <;> rfl

theorem ETab.get?_none_of_not_mem (Q : ETab) (s : String) (h : s ∉ Q.map (·.1)) : Q.get? s = none := by
  unfold ETab.get?
  have : Q.find? (·.1 == s) = none := by
    rw [List.find?_eq_none]
    intro x hx hb
    have : x.1 = s := by simpa using hb
    exact h (this ▸ List.mem_map_of_mem hx)
  rw [this]; rfl

theorem predefined_get?_none (sc : Spec.Cfg) (s : String) (h : s ∉ constNames) :
    ETab.get? (Spec.predefined sc) s = none := by
  unfold ETab.get?
  rw [predefined_find?_none sc s h]; rfl

/-- the model's table (constants first) against the reference's (constants last) -/
theorem tabRel_xequs {cfg : Config} {sc : Spec.Cfg} (hr : CfgRel cfg sc) (Q : ETab)
    (hnq : (constNames ++ Q.map (·.1)).Nodup) :
    TabRel (consts cfg ++ Q.map rendEqu) (Q ++ Spec.predefined sc) := by
  intro s
  rw [SymTab.get?_append, ETab.get?_append, tabRel_consts hr s, tabRel_rend Q s]
  by_cases hs : s ∈ constNames
  · have : s ∉ Q.map (·.1) := by
      intro hq
      rw [List.nodup_append] at hnq
      exact hnq.2.2 s hs s hq rfl
    rw [ETab.get?_none_of_not_mem Q s this]
    cases ETab.get? (Spec.predefined sc) s <;> rfl
  · rw [predefined_get?_none sc s hs]
    cases ETab.get? Q s <;> rfl

theorem rendEqu_keys (Q : ETab) : (Q.map rendEqu).map (·.1) = Q.map (·.1) := by
  rw [List.map_map]; rfl

theorem xequCtx {cfg : Config} {sc : Spec.Cfg} (hr : CfgRel cfg sc) (prog : List XItem)
    (hnq : (constNames ++ (xequs prog).map (·.1)).Nodup) {d : String → Nat}
    (hrk : ERanked (xequs prog ++ Spec.predefined sc) d) (hlt : ∀ s, d s < 63) :
    EquCtx (symCX cfg prog).values (xtables sc prog).equs d where
  rel := tabRel_xequs hr (xequs prog) hnq
  nodup := by
    show ((consts cfg ++ (xequs prog).map rendEqu).map (·.1)).Nodup
    rw [List.map_append, consts_keys, rendEqu_keys]
    exact hnq
  ranked := hrk
  lt := hlt

theorem xrel_of {cfg : Config} {sc : Spec.Cfg} (prog : List XItem) (hv : cfg.validate = true)
    (h63 : cfg.coreSize.toNat < 2 ^ 63) (hr : CfgRel cfg sc) (hsmall : xinstrCount prog < 2 ^ 63)
    (c : Compiler) (hcfg : c.cfg = cfg) (hl : c.labels = (xlabelsFrom 0 prog).map castL) :
    XRel c sc (xtables sc prog) where
  crel :=
    { legacy := by unfold Compiler.legacy; rw [hcfg, hr.legacy]
      m := by
        unfold Compiler.m
        rw [hcfg, mInt_of_lt h63, hr.M]
      pos := by rw [hr.M]; have := validate_ge3 hv; omega
      lt := by rw [hr.M]; exact h63 }
  labels := hl
  small := by
    intro p hp
    have := xlabelsFrom_lt prog 0 p hp
    omega

/-! ## the assertions -/

theorem assertsOk_cons (c : Spec.Cfg) (t : Spec.Tables) (it : Spec.Item) (r : List Spec.Item) :
    assertsOk c t (it :: r) =
      ((match it with
        | .assert e => match Spec.evalAt c t 0 e with
          | some v => v != 0
          | none => false
        | _ => true) && assertsOk c t r) := rfl

theorem assert_step (x : Option Int) (b : Bool) :
    ((optM x >>= fun v => if v == 0 then (.error .goErr : M Unit) else .ok ()) >>= fun _ =>
      if b then (.ok () : M Unit) else .error .goErr) =
      if ((match x with
          | some v => v != 0
          | none => false) && b) then .ok () else .error .goErr := by
  cases x with
  | none => rfl
  | some v =>
    simp only [optM, bind, Except.bind]
    by_cases hv0 : v = 0
    · subst hv0
      rfl
    · have h1 : (v == 0) = false := by simpa using hv0
      have h2 : (v != 0) = true := by simpa using hv0
      simp only [h1, h2, Bool.true_and]
      cases b <;> rfl

theorem evaluateAssertions_xrender (lexTokens : String → List Token) {c : Compiler} {sc : Spec.Cfg}
    {d : String → Nat} (prog0 : List XItem) (hr : XRel c sc (xtables sc prog0))
    (hx : EquCtx c.values (xtables sc prog0).equs d) (prog : List XItem) :
    ∀ k, XProgWF lexTokens sc (xtables sc prog0) k prog →
      evaluateAssertions lexTokens c (xrender k prog) =
        if assertsOk sc (xtables sc prog0) (prog.map XItem.toItem) then .ok () else .error .goErr := by
  induction prog with
  | nil => intro k _; rfl
  | cons it r ih =>
    intro k hw
    simp only [xrender, List.map_cons]
    rw [evaluateAssertions_cons, assertsOk_cons, ih _ hw.2]
    cases it with
    | instr ls op md a b => rfl
    | equ kw n e => rfl
    | org kw e => rfl
    | end_ kw e => rfl
    | assert cm e =>
      obtain ⟨hpre, ⟨last, hlex⟩, hg⟩ := hw.1
      have hcond : (((XItem.assert cm e).toLine k).typ == LineType.comment &&
          assertPrefix.isPrefixOf ((XItem.assert cm e).toLine k).comment.toList) = true := by
        simp only [XItem.toLine, hpre]
        rfl
      rw [if_pos hcond, evaluateAssertion_eq]
      have hcm : ((XItem.assert cm e).toLine k).comment = cm := rfl
      rw [hcm, hlex]
      have hne : (toksOf e ++ [last]).isEmpty = false := by
        cases toksOf e <;> rfl
      rw [hne]
      simp only [Bool.false_eq_true, if_false, List.dropLast_concat]
      have hop := operandM_raw hr hx 0 (by omega) e hg.size hg.tree
      unfold operandM at hop
      rw [← bind_assoc]
      have hop' : (expandExpression c (toksOf e) 0 >>= evalM) =
          optM (Spec.evalAt sc (xtables sc prog0) 0 e) := hop
      rw [hop']
      exact assert_step _ _

/-! ## the instruction loop -/

theorem assembleLine_xtoLine {c : Compiler} {sc : Spec.Cfg} {t : Spec.Tables}
    (hr : XRel c sc t)
    (hop : ∀ (k : Nat) (e : List Spec.ETok), k < 2 ^ 63 → GoodX sc t k e →
      operandM c (toksOf e) (k : Int) = optM (Spec.evalAt sc t k e))
    (lexTokens : String → List Token)
    (k : Nat) (hk : k < 2 ^ 63) (ls : List String) (op : String) (md : Option String) (a : XOperand)
    (b : Option XOperand) (hw : (XItem.instr ls op md a b).WF lexTokens sc t k) :
    assembleLine c ((XItem.instr ls op md a b).toLine k) =
      optM (Spec.instrMeaning sc t k op md a.toP (b.map XOperand.toP)) := by
  obtain ⟨hop1, hdot, hmd, ha, hb⟩ := hw
  refine assembleLine_meaning c _ sc t k op md a.toP (b.map XOperand.toP) hr.crel.legacy hr.crel.m
    hr.crel.pos hr.crel.lt hop1 hdot hmd rfl rfl ?_ ?_ ?_ ?_
  · cases b <;> rfl
  · cases b with
    | none => rfl
    | some bo =>
      show (toksOf bo.expr).isEmpty = false
      have := toksOf_ne_nil (hb bo rfl).tree.ne_nil
      cases h : toksOf bo.expr with
      | nil => exact absurd h this
      | cons x r => rfl
  · exact hop k a.expr hk ha
  · intro bo' hbo
    cases b with
    | none => cases hbo
    | some bo =>
      cases hbo
      exact hop k bo.expr hk (hb bo rfl)

theorem assembleLines_xrender {c : Compiler} {sc : Spec.Cfg} {t : Spec.Tables}
    (hr : XRel c sc t)
    (hop : ∀ (k : Nat) (e : List Spec.ETok), k < 2 ^ 63 → GoodX sc t k e →
      operandM c (toksOf e) (k : Int) = optM (Spec.evalAt sc t k e))
    (lexTokens : String → List Token) (prog : List XItem) :
    ∀ (k : Nat) (code : Array Instr), XProgWF lexTokens sc t k prog → k + xinstrCount prog < 2 ^ 63 →
      assembleLines c (xrender k prog) code =
        optM ((codeFold sc t (prog.map XItem.toItem) (some code.toList, k)).1.map List.toArray) := by
  induction prog with
  | nil => intro k code _ _; simp [xrender, assembleLines, codeFold, optM]
  | cons it r ih =>
    intro k code hw hk
    have hskip : ∀ ln : SourceLine, ln.typ ≠ .instruction →
        assembleLines c (ln :: xrender k r) code = assembleLines c (xrender k r) code := by
      intro ln hty
      conv => lhs; unfold assembleLines
      rw [if_pos (by simpa using hty)]
    cases it with
    | instr ls op md a b =>
      have hk' : k + 1 + xinstrCount r < 2 ^ 63 := by
        simp only [xinstrCount, List.filter_cons, XItem.isInstr, if_true, List.length_cons] at hk ⊢
        omega
      have h1 := assembleLine_xtoLine hr hop lexTokens k (by omega) ls op md a b hw.1
      simp only [xrender, XItem.isInstr, if_true, List.map_cons, XItem.toItem, codeFold_instr_some]
      unfold assembleLines
      have hty : ((XItem.instr ls op md a b).toLine k).typ = .instruction := rfl
      rw [hty]
      simp only [bne_self_eq_false, Bool.false_eq_true, if_false]
      rw [h1]
      cases Spec.instrMeaning sc t k op md a.toP (b.map XOperand.toP) with
      | none =>
        simp only [Option.map_none, xcodeFold_none]
        rfl
      | some i =>
        simp only [Option.map_some]
        show assembleLines c (xrender (k + 1) r) (code.push i) = _
        rw [ih (k + 1) (code.push i) hw.2 hk', Array.toList_push]
    | equ kw n e =>
      have hk' : k + xinstrCount r < 2 ^ 63 := by
        simpa [xinstrCount, List.filter_cons, XItem.isInstr] using hk
      simp only [xrender, XItem.isInstr, Bool.false_eq_true, if_false, List.map_cons, XItem.toItem,
        codeFold_equ]
      rw [hskip _ (by simp [XItem.toLine])]
      exact ih k code hw.2 hk'
    | org kw e =>
      have hk' : k + xinstrCount r < 2 ^ 63 := by
        simpa [xinstrCount, List.filter_cons, XItem.isInstr] using hk
      simp only [xrender, XItem.isInstr, Bool.false_eq_true, if_false, List.map_cons, XItem.toItem,
        codeFold_org]
      rw [hskip _ (by simp [XItem.toLine])]
      exact ih k code hw.2 hk'
    | end_ kw e =>
      have hk' : k + xinstrCount r < 2 ^ 63 := by
        simpa [xinstrCount, List.filter_cons, XItem.isInstr] using hk
      simp only [xrender, XItem.isInstr, Bool.false_eq_true, if_false, List.map_cons, XItem.toItem,
        codeFold_end]
      rw [hskip _ (by simp [XItem.toLine])]
      exact ih k code hw.2 hk'
    | assert cm e =>
      have hk' : k + xinstrCount r < 2 ^ 63 := by
        simpa [xinstrCount, List.filter_cons, XItem.isInstr] using hk
      simp only [xrender, XItem.isInstr, Bool.false_eq_true, if_false, List.map_cons, XItem.toItem,
        codeFold_assert]
      rw [hskip _ (by simp [XItem.toLine])]
      exact ih k code hw.2 hk'

/-! ## `Spec.meaningFlat` of the items -/

theorem xequs_sizeOK (lexTokens : String → List Token) (sc : Spec.Cfg) (t : Spec.Tables)
    (prog : List XItem) : ∀ k, XProgWF lexTokens sc t k prog → ∀ p ∈ xequs prog, SizeOK t.equs p.2 := by
  induction prog with
  | nil => intro k _ p hp; cases hp
  | cons it r ih =>
    intro k hw p hp
    cases it with
    | equ kw n e =>
      simp only [xequs, List.mem_cons] at hp
      rcases hp with rfl | hp
      · exact hw.1.2
      · exact ih _ hw.2 p hp
    | instr ls op md a b => exact ih _ hw.2 p hp
    | org kw e => exact ih _ hw.2 p hp
    | end_ kw e => exact ih _ hw.2 p hp
    | assert cm e => exact ih _ hw.2 p hp

theorem xstart_good (lexTokens : String → List Token) (sc : Spec.Cfg) (t : Spec.Tables)
    (hz : GoodX sc t 0 [.num 0]) (prog : List XItem) :
    ∀ k, XProgWF lexTokens sc t k prog → GoodX sc t 0 (xstart prog) := by
  unfold xstart
  suffices h : ∀ acc, GoodX sc t 0 acc → ∀ k, XProgWF lexTokens sc t k prog →
      GoodX sc t 0 (prog.foldl xstartStep acc) from h _ hz
  induction prog with
  | nil => intro acc h _ _; exact h
  | cons it r ih =>
    intro acc hacc k hw
    simp only [List.foldl_cons]
    cases it with
    | instr ls op md a b => exact ih acc hacc _ hw.2
    | equ kw n e => exact ih acc hacc _ hw.2
    | org kw e => exact ih e hw.1.2 _ hw.2
    | end_ kw e =>
      cases e with
      | none => exact ih acc hacc _ hw.2
      | some x => exact ih x (hw.1.2 x rfl) _ hw.2
    | assert cm e => exact ih acc hacc _ hw.2

theorem iterE_noname (tab : ETab) (k : Nat) (ts : List Spec.ETok) (hn : ∀ t ∈ ts, isName t = false) :
    iterE tab k ts = ts := by
  apply iterE_keyfree
  intro s hs
  have := hn _ hs
  simp [isName] at this

theorem goodX_zero (sc : Spec.Cfg) (t : Spec.Tables) : GoodX sc t 0 [.num 0] where
  size := by
    intro j _
    rw [iterE_noname _ _ _ (by intro x hx; simp at hx; subst hx; rfl)]
    simp
  tree := by
    intro x out h1 h2
    rw [expandEqus_noname _ _ (by intro x hx; simp at hx; subst hx; rfl) (by simp)] at h1
    cases h1
    rw [substLabels_noname _ _ _ _ (by intro x hx; simp at hx; subst hx; rfl)] at h2
    cases h2
    exact ⟨.num 0, trivial, (Int.pow_pos (by decide) : (0 : Int) < (2 : Int) ^ 500), rfl⟩

theorem meaningFlat_xitems (lexTokens : String → List Token) (sc : Spec.Cfg) (prog : List XItem)
    {d : String → Nat} {V : SymTab} (hx : EquCtx V (xtables sc prog).equs d)
    (hnd : ((xlabelsFrom 0 prog).map (·.1) ++ (xequs prog).map (·.1) ++ constNames).Nodup)
    (hw : XProgWF lexTokens sc (xtables sc prog) 0 prog) :
    Spec.meaningFlat sc (prog.map XItem.toItem) =
      (codeFold sc (xtables sc prog) (prog.map XItem.toItem) (some [], 0)).1.bind fun code =>
        if code.length > sc.maxLen then none
        else if !(assertsOk sc (xtables sc prog) (prog.map XItem.toItem)) then none
        else
          (Spec.evalAt sc (xtables sc prog) 0 (xstart prog)).bind fun sv =>
            if sv < 0 || (sv ≥ xinstrCount prog && sv != 0) then none
            else some { code := code, start := sv.toNat, name := "", author := "", strategy := "" } := by
  rw [meaningFlat_eq, xlabelFold_items]
  unfold flatTail
  simp only [tablesOf_xitems]
  have hd : (((xlabelsFrom 0 prog).map (·.1) ++ (Spec.equsOf (prog.map XItem.toItem)).map (·.1) ++
      (Spec.predefined sc).map (·.1)).eraseDups.length !=
      ((xlabelsFrom 0 prog).map (·.1) ++ (Spec.equsOf (prog.map XItem.toItem)).map (·.1) ++
      (Spec.predefined sc).map (·.1)).length) = false := by
    rw [xequsOf_items, predefined_names]
    have := eraseDups_of_nodup _ hnd
    unfold constNames at this
    rw [this]
    simp
  rw [hd]
  have he : ((xtables sc prog).equs.all
      (fun (_, e) => (Spec.expandEqus 64 (xtables sc prog).equs e).isSome)) = true := by
    rw [List.all_eq_true]
    intro x hxm
    have hxm' : x ∈ xequs prog ++ Spec.predefined sc := hxm
    rcases List.mem_append.1 hxm' with h | h
    · have := hx.expandEqus (xequs_sizeOK lexTokens sc _ prog 0 hw x h)
      simp only [this, Option.isSome_some]
    · simp only [Spec.predefined, List.mem_cons, List.not_mem_nil, or_false] at h
      rcases h with rfl | rfl | rfl | rfl <;>
        (simp only; rw [expandEqus_noname _ _ (by intro t ht; simp at ht; subst ht; rfl) (by simp)]; rfl)
  rw [he, xstartFold_items]
  simp only [xmetaOf_items, Bool.false_eq_true, if_false, Bool.not_true, List.getLast?_nil, Option.map_none,
    Option.getD_none, List.map_nil]
  rfl

/-! ## `compile_meaning_equ` -/

theorem xrender_cfg_labels (cfg : Config) (prog : List XItem) (R : SymTab) :
    ({ symCX cfg prog with values := R } : Compiler).labels = (xlabelsFrom 0 prog).map castL := rfl

theorem nodup_parts {A B C : List String} (h : (A ++ B ++ C).Nodup) :
    A.Nodup ∧ (C ++ B).Nodup := by
  rw [List.append_assoc] at h
  have h1 := (List.nodup_append.1 h).1
  have h2 : (B ++ C).Nodup := by
    rw [List.nodup_append] at h
    exact h.2.1
  refine ⟨h1, ?_⟩
  rw [List.nodup_append] at h2 ⊢
  exact ⟨h2.2.1, h2.1, fun a ha b hb hab => h2.2.2 b hb a ha hab.symm⟩

theorem compileX_meaning_equ (lexTokens : String → List Token) (cfg : Config) (sc : Spec.Cfg)
    (prog : List XItem) (ameta : AsmMeta) (d : String → Nat)
    (hv : cfg.validate = true) (h63 : cfg.coreSize.toNat < 2 ^ 63) (hr : CfgRel cfg sc)
    (hnd : ((xlabelsFrom 0 prog).map (·.1) ++ (xequs prog).map (·.1) ++ constNames).Nodup)
    (hsmall : xinstrCount prog < 2 ^ 63)
    (hrk : ERanked (xequs prog ++ Spec.predefined sc) d) (hlt : ∀ s, d s < 63)
    (hw : XProgWF lexTokens sc (xtables sc prog) 0 prog) :
    compileX lexTokens cfg (xrender 0 prog) ameta =
      optM ((Spec.meaningFlat sc (prog.map XItem.toItem)).map (toWD ameta)) := by
  obtain ⟨hnl, hnq⟩ := nodup_parts hnd
  have hctx := xequCtx hr prog hnq hrk hlt
  have hsym := symC_xrender cfg prog hnl hnq hw.kw
  have hrelS : XRel (symCX cfg prog) sc (xtables sc prog) :=
    xrel_of prog hv h63 hr hsmall _ rfl rfl
  obtain ⟨resolved, hres, _⟩ := expandExpressions_full hctx.acyclic
  have hrelR : XRel { symCX cfg prog with values := resolved } sc (xtables sc prog) :=
    xrel_of prog hv h63 hr hsmall _ rfl rfl
  have hopR : ∀ (k : Nat) (e : List Spec.ETok), k < 2 ^ 63 → GoodX sc (xtables sc prog) k e →
      operandM { symCX cfg prog with values := resolved } (toksOf e) (k : Int) =
        optM (Spec.evalAt sc (xtables sc prog) k e) :=
    fun k e hk hg => operandM_resolved hrelR hctx hres k hk e hg.size hg.tree
  rw [compileX_eq, hv]
  simp only [Bool.not_true, Bool.false_eq_true, if_false]
  have hresC : ∀ R, resC cfg (xrender 0 prog) R = { symC cfg (xrender 0 prog) with values := R } :=
    fun _ => rfl
  simp only [hresC, hsym, hctx.acyclic, Bool.false_eq_true, if_false, hres,
    evaluateAssertions_xrender lexTokens prog hrelS hctx prog 0 hw]
  rw [meaningFlat_xitems lexTokens sc prog hctx hnd hw]
  cases hA : assertsOk sc (xtables sc prog) (prog.map XItem.toItem) with
  | false =>
    simp only [Bool.false_eq_true, if_false, Bool.not_false, if_true]
    cases (codeFold sc (xtables sc prog) (prog.map XItem.toItem) (some [], 0)).1 with
    | none => rfl
    | some code =>
      simp only [Option.bind_some]
      split <;> rfl
  | true =>
    simp only [if_true, Bool.not_true, Bool.false_eq_true, if_false]
    show (assembleLines { symCX cfg prog with values := resolved } (xrender 0 prog) #[] >>= fun code =>
      finishX cfg ameta { symCX cfg prog with values := resolved } code) = _
    rw [assembleLines_xrender hrelR hopR lexTokens prog 0 #[] hw (by omega)]
    cases hcode : (codeFold sc (xtables sc prog) (prog.map XItem.toItem) (some [], 0)).1 with
    | none => rfl
    | some code =>
      have hlen := xcodeFold_length sc _ prog [] 0 code hcode
      simp only [List.length_nil, Nat.zero_add] at hlen
      simp only [Option.map_some, Option.bind_some]
      show finishX cfg ameta { symCX cfg prog with values := resolved } code.toArray = _
      unfold finishX
      simp only [List.size_toArray, hr.maxLen]
      split
      · rfl
      · have hst : expandExpression { symCX cfg prog with values := resolved }
              ({ symCX cfg prog with values := resolved } : Compiler).startExpr 0 >>= evalM =
            optM (Spec.evalAt sc (xtables sc prog) 0 (xstart prog)) :=
          hopR 0 (xstart prog) (by omega)
            (xstart_good lexTokens sc _ (goodX_zero sc _) prog 0 hw)
        rw [← bind_assoc, hst]
        cases Spec.evalAt sc (xtables sc prog) 0 (xstart prog) with
        | none => rfl
        | some sv =>
          simp only [optM, bind, Except.bind, Option.bind_some, hlen]
          split
          · rfl
          · rename_i hneg
            have h0 : 0 ≤ sv := by
              simp only [Bool.or_eq_true, decide_eq_true_eq, not_or] at hneg
              omega
            simp only [Option.map_some, toWD, Int.toNat_of_nonneg h0]

/-- **3 / 7, with EQUs.**  Programs of labelled instructions, `ORG`/`END`, `;assert` lines and
    EQU definitions placed anywhere, whose values may use numbers, operators, parentheses, labels,
    the predefined constants and other EQU names (defined earlier or later).  On the parser's
    source lines the model of `compile()` — cycle check, the assertions expanded with the table as
    loaded, `expandExpressions`, then the fixpoint `expandExpression` at every use — returns
    exactly `Spec.meaningFlat` of the items: the same code and entry point, or a rejection when the
    reference rejects (an undefined name, a failed or unevaluable assert, a division by zero, the
    length limit, a bad entry point).

    Hypotheses: every symbol (label, EQU name, predefined constant) is defined once; fewer than
    `2^63` instructions; the EQU table is acyclic with chains shorter than 64 (`ERanked`, `d s < 63`:
    the reference's fuel); `XProgWF`: keywords, ASCII opcode text, every expression stays within
    the reference's 20000-token limit while it is expanded (`SizeOK`) and its FULL textual
    expansion (EQU bodies inserted without parentheses, labels as signed offsets) is the token
    list of a precedence-well-formed tree in the range the `go/types.Eval` model answers on
    (`TreeOK`). -/
theorem compile_meaning_equ (lexTokens : String → List Token) (cfg : Config) (sc : Spec.Cfg)
    (prog : List XItem) (ameta : AsmMeta) (d : String → Nat)
    (hv : cfg.validate = true) (h63 : cfg.coreSize.toNat < 2 ^ 63) (hr : CfgRel cfg sc)
    (hnd : ((xlabelsFrom 0 prog).map (·.1) ++ (xequs prog).map (·.1) ++ constNames).Nodup)
    (hsmall : xinstrCount prog < 2 ^ 63)
    (hrk : ERanked (xequs prog ++ Spec.predefined sc) d) (hlt : ∀ s, d s < 63)
    (hw : XProgWF lexTokens sc (xtables sc prog) 0 prog) :
    compile lexTokens cfg (xrender 0 prog) ameta =
      .ok ((Spec.meaningFlat sc (prog.map XItem.toItem)).map (toWD ameta)) := by
  unfold compile
  rw [compileX_meaning_equ lexTokens cfg sc prog ameta d hv h63 hr hnd hsmall hrk hlt hw]
  cases (Spec.meaningFlat sc (prog.map XItem.toItem)).map (toWD ameta) <;> rfl

/-- on these programs the answer never rests on an expression outside the modelled subset of
    `go/types.Eval` -/
theorem compile_meaning_equ_modelled (lexTokens : String → List Token) (cfg : Config) (sc : Spec.Cfg)
    (prog : List XItem) (ameta : AsmMeta) (d : String → Nat)
    (hv : cfg.validate = true) (h63 : cfg.coreSize.toNat < 2 ^ 63) (hr : CfgRel cfg sc)
    (hnd : ((xlabelsFrom 0 prog).map (·.1) ++ (xequs prog).map (·.1) ++ constNames).Nodup)
    (hsmall : xinstrCount prog < 2 ^ 63)
    (hrk : ERanked (xequs prog ++ Spec.predefined sc) d) (hlt : ∀ s, d s < 63)
    (hw : XProgWF lexTokens sc (xtables sc prog) 0 prog) :
    compileUnmodelled lexTokens cfg (xrender 0 prog) ameta = false := by
  unfold compileUnmodelled
  rw [compileX_meaning_equ lexTokens cfg sc prog ameta d hv h63 hr hnd hsmall hrk hlt hw]
  cases (Spec.meaningFlat sc (prog.map XItem.toItem)).map (toWD ameta) <;> rfl


/-! ## the assertions decide -/

theorem assertsOk_iff (sc : Spec.Cfg) (t : Spec.Tables) (prog : List XItem) :
    assertsOk sc t (prog.map XItem.toItem) = true ↔
      ∀ cm e, XItem.assert cm e ∈ prog → ∃ v, Spec.evalAt sc t 0 e = some v ∧ v ≠ 0 := by
  induction prog with
  | nil =>
    constructor
    · intro _ cm e h; cases h
    · intro _; rfl
  | cons it r ih =>
    rw [List.map_cons, assertsOk_cons, Bool.and_eq_true, ih]
    constructor
    · rintro ⟨h1, h2⟩ cm e hm
      rcases List.mem_cons.1 hm with rfl | hm
      · simp only [XItem.toItem] at h1
        cases hv : Spec.evalAt sc t 0 e with
        | none => rw [hv] at h1; cases h1
        | some v =>
          rw [hv] at h1
          exact ⟨v, rfl, by simpa using h1⟩
      · exact h2 cm e hm
    · intro h
      refine ⟨?_, fun cm e hm => h cm e (List.mem_cons_of_mem _ hm)⟩
      cases it with
      | assert cm e =>
        obtain ⟨v, hv, hne⟩ := h cm e (List.mem_cons_self ..)
        simp only [XItem.toItem, hv]
        simpa using hne
      | instr ls op md a b => rfl
      | equ kw n e => rfl
      | org kw e => rfl
      | end_ kw e => rfl

/-- **assert_decision.**  The assertion stage of `compile()` — every `;assert` expression expanded
    with the EQU table as loaded (before `expandExpressions`) and evaluated — passes iff every
    assert has a value in the reference and that value is not 0; otherwise it returns an error. -/
theorem assert_decision (lexTokens : String → List Token) (cfg : Config) (sc : Spec.Cfg)
    (prog : List XItem) (ameta : AsmMeta) (d : String → Nat)
    (hv : cfg.validate = true) (h63 : cfg.coreSize.toNat < 2 ^ 63) (hr : CfgRel cfg sc)
    (hnd : ((xlabelsFrom 0 prog).map (·.1) ++ (xequs prog).map (·.1) ++ constNames).Nodup)
    (hsmall : xinstrCount prog < 2 ^ 63)
    (hrk : ERanked (xequs prog ++ Spec.predefined sc) d) (hlt : ∀ s, d s < 63)
    (hw : XProgWF lexTokens sc (xtables sc prog) 0 prog) :
    ((∀ cm e, XItem.assert cm e ∈ prog →
        ∃ v, Spec.evalAt sc (xtables sc prog) 0 e = some v ∧ v ≠ 0) →
      evaluateAssertions lexTokens (symC cfg (xrender 0 prog)) (xrender 0 prog) = .ok ()) ∧
    ((∃ cm e, XItem.assert cm e ∈ prog ∧
        (Spec.evalAt sc (xtables sc prog) 0 e = none ∨ Spec.evalAt sc (xtables sc prog) 0 e = some 0)) →
      evaluateAssertions lexTokens (symC cfg (xrender 0 prog)) (xrender 0 prog) = .error .goErr ∧
      compile lexTokens cfg (xrender 0 prog) ameta = .ok none) := by
  obtain ⟨hnl, hnq⟩ := nodup_parts hnd
  have hctx := xequCtx hr prog hnq hrk hlt
  have hsym := symC_xrender cfg prog hnl hnq hw.kw
  have hrelS : XRel (symCX cfg prog) sc (xtables sc prog) :=
    xrel_of prog hv h63 hr hsmall _ rfl rfl
  rw [hsym, evaluateAssertions_xrender lexTokens prog hrelS hctx prog 0 hw]
  constructor
  · intro h
    rw [if_pos ((assertsOk_iff sc _ prog).2 h)]
  · rintro ⟨cm, e, hm, hbad⟩
    have hno : assertsOk sc (xtables sc prog) (prog.map XItem.toItem) = false := by
      cases hA : assertsOk sc (xtables sc prog) (prog.map XItem.toItem) with
      | false => rfl
      | true =>
        obtain ⟨v, h1, h2⟩ := (assertsOk_iff sc _ prog).1 hA cm e hm
        rcases hbad with hb | hb
        · rw [hb] at h1; cases h1
        · rw [hb] at h1; cases h1; exact absurd rfl h2
    refine ⟨by rw [hno]; rfl, ?_⟩
    rw [compile_meaning_equ lexTokens cfg sc prog ameta d hv h63 hr hnd hsmall hrk hlt hw,
      meaningFlat_xitems lexTokens sc prog hctx hnd hw, hno]
    cases (codeFold sc (xtables sc prog) (prog.map XItem.toItem) (some [], 0)).1 with
    | none => rfl
    | some code =>
      simp only [Option.bind_some, Bool.not_false, if_true]
      split <;> rfl

/-! ## cyclic tables -/

theorem of_not_not_true {b : Bool} (h : ¬ (!b) = true) : b = true := by
  cases b
  · exact absurd rfl h
  · rfl

/-- **A cyclic EQU table is rejected by both.**  "Cyclic" = no rank function exists. -/
theorem compile_equ_cyclic (lexTokens : String → List Token) (cfg : Config) (sc : Spec.Cfg)
    (prog : List XItem) (ameta : AsmMeta) (hr : CfgRel cfg sc)
    (hnd : ((xlabelsFrom 0 prog).map (·.1) ++ (xequs prog).map (·.1) ++ constNames).Nodup)
    (hkw : ∀ it ∈ prog, it.KW)
    (hcyc : ¬ ∃ d, ERanked (xequs prog ++ Spec.predefined sc) d) :
    compile lexTokens cfg (xrender 0 prog) ameta = .ok none ∧
      Spec.meaningFlat sc (prog.map XItem.toItem) = none := by
  obtain ⟨hnl, hnq⟩ := nodup_parts hnd
  have hsym := symC_xrender cfg prog hnl hnq hkw
  have hrel : TabRel (symCX cfg prog).values (xequs prog ++ Spec.predefined sc) :=
    tabRel_xequs hr (xequs prog) hnq
  constructor
  · have hc : graphContainsCycle (buildReferenceGraph (symCX cfg prog).values) = true := by
      cases hc : graphContainsCycle (buildReferenceGraph (symCX cfg prog).values) with
      | true => rfl
      | false =>
        exact absurd ⟨_, TRanked.eranked hrel (Ranked.tranked (ranked_of_acyclic hc).1)⟩ hcyc
    unfold compile
    rw [compileX_eq, hsym, hc]
    cases cfg.validate <;> rfl
  · rw [meaningFlat_eq, xlabelFold_items]
    unfold flatTail
    simp only [tablesOf_xitems]
    split
    · rfl
    · split
      · rfl
      · rename_i hall
        exfalso
        apply hcyc
        refine ⟨_, ranked_of_expandEqus ?_⟩
        intro k v hkv
        have hall' := of_not_not_true hall
        rw [List.all_eq_true] at hall'
        unfold ETab.get? at hkv
        cases hf : (xequs prog ++ Spec.predefined sc).find? (·.1 == k) with
        | none => rw [hf] at hkv; cases hkv
        | some p =>
          rw [hf] at hkv
          obtain ⟨k', v'⟩ := p
          cases hkv
          exact hall' (k', v') (List.mem_of_find?_eq_some hf)

end Gmars.AsmLine
