/-
  C03, compiler stage: programs with labels (no EQUs).  Operand expressions are templates `NT`
  (trees over numbers and label names); a label stands for the offset `(idx - line) tmod M` of the
  labelled instruction from the referring one, written as a signed number.

  Main theorem: `compile_meaning_labels`.  Its hypothesis "every label is defined once and is none
  of the predefined constants" is necessary: on
      x jmp x / x dat 0            (duplicate label)
      CORESIZE jmp CORESIZE        (label named like a constant)
  the model of `compile()` (like Go: `labels` is a map, `values` is looked up first) ACCEPTS the
  program (jmp 1 resp. jmp 0), `Spec.meaningFlat` rejects it (checked with #eval).
-/
import Gmars.Proofs.AsmProgram

namespace Gmars.AsmLine
open Gmars.Compile Gmars.ExprProofs

/-! ## expression templates -/

inductive NT
  | num (n : Nat)
  | name (s : String)
  | signs (ss : List Bool) (e : NT)
  | paren (e : NT)
  | bin (op : String) (l r : NT)
  deriving Repr, Inhabited

def textTok (s : String) : Token := { typ := .text, val := s }

def NT.tokens : NT → List Token
  | .num n => [ExprProofs.numTok n]
  | .name s => [textTok s]
  | .signs ss e => ss.map signTok ++ e.tokens
  | .paren e => lpTok :: (e.tokens ++ [rpTok])
  | .bin op l r => l.tokens ++ opTok op :: r.tokens

def NT.etoks : NT → List Spec.ETok
  | .num n => [.num n]
  | .name s => [.name s]
  | .signs ss e => ss.map (fun s => Spec.ETok.op (signStr s)) ++ e.etoks
  | .paren e => .lp :: (e.etoks ++ [.rp])
  | .bin op l r => l.etoks ++ .op op :: r.etoks

def NT.names : NT → List String
  | .num _ => []
  | .name s => [s]
  | .signs _ e => e.names
  | .paren e => e.names
  | .bin _ l r => l.names ++ r.names

/-- a sign run in front of a tree (sign runs stay maximal) -/
def mkSigns (ss : List Bool) : CST → CST
  | .signs ss' e => .signs (ss ++ ss') e
  | c => .signs ss c

/-- an offset as a signed number -/
def valCST (v : Int) : CST := if v < 0 then .signs [true] (.num v.natAbs) else .num v.toNat

/-- the tree a template stands for once its names have values; `none` = an unknown name -/
def NT.inst (σ : String → Option Int) : NT → Option CST
  | .num n => some (.num n)
  | .name s => (σ s).map valCST
  | .signs ss e => (e.inst σ).map (mkSigns ss)
  | .paren e => (e.inst σ).map .paren
  | .bin op l r => (l.inst σ).bind fun a => (r.inst σ).map fun b => .bin op a b

theorem mkSigns_tokens (ss : List Bool) (c : CST) : (mkSigns ss c).tokens = ss.map signTok ++ c.tokens := by
  cases c <;> simp [mkSigns, CST.tokens]

theorem mkSigns_etoks (ss : List Bool) (c : CST) :
    (mkSigns ss c).etoks = ss.map (fun s => Spec.ETok.op (signStr s)) ++ c.etoks := by
  cases c <;> simp [mkSigns, CST.etoks]

/-! ### substitution on gmars tokens -/

def substT (σ : String → Option Int) : List Token → Option (List Token)
  | [] => some []
  | t :: r =>
    if t.typ == .text then
      (σ t.val).bind fun v => (substT σ r).map fun rest => (valCST v).tokens ++ rest
    else (substT σ r).map (t :: ·)

theorem substT_append (σ : String → Option Int) (a b : List Token) :
    substT σ (a ++ b) = (substT σ a).bind fun x => (substT σ b).map fun y => x ++ y := by
  induction a with
  | nil => simp [substT]
  | cons t r ih =>
    simp only [List.cons_append, substT]
    split
    · cases σ t.val with
      | none => rfl
      | some v =>
        simp only [Option.bind_some, ih]
        cases substT σ r with
        | none => rfl
        | some x => cases substT σ b <;> simp
    · rw [ih]
      cases substT σ r with
      | none => rfl
      | some x => cases substT σ b <;> simp

theorem substT_cons_notext (σ : String → Option Int) (t : Token) (r : List Token)
    (h : t.typ ≠ .text) : substT σ (t :: r) = (substT σ r).map (t :: ·) := by
  have ht : (t.typ == TokType.text) = false := by simpa using h
  simp only [substT, ht, Bool.false_eq_true, if_false]

theorem substT_notext (σ : String → Option Int) (ts : List Token) (h : ∀ t ∈ ts, t.typ ≠ .text) :
    substT σ ts = some ts := by
  induction ts with
  | nil => rfl
  | cons t r ih =>
    have ht : (t.typ == TokType.text) = false := by simpa using h t (List.mem_cons_self ..)
    simp only [substT, ht, Bool.false_eq_true, if_false,
      ih (fun x hx => h x (List.mem_cons_of_mem _ hx)), Option.map_some]

theorem signToks_notext (ss : List Bool) : ∀ t ∈ ss.map signTok, t.typ ≠ .text := by
  intro t ht
  obtain ⟨s, _, rfl⟩ := List.mem_map.1 ht
  simp [signTok]

theorem substT_tokens (σ : String → Option Int) (e : NT) :
    substT σ e.tokens = (e.inst σ).map CST.tokens := by
  induction e with
  | num n => rfl
  | name s =>
    simp only [NT.tokens, substT, textTok, beq_self_eq_true, if_true, NT.inst]
    cases σ s <;> simp
  | signs ss e ih =>
    simp only [NT.tokens, NT.inst, substT_append, substT_notext σ _ (signToks_notext ss), ih,
      Option.bind_some, Option.map_map]
    cases e.inst σ <;> simp [mkSigns_tokens]
  | paren e ih =>
    simp only [NT.tokens, NT.inst]
    rw [substT_cons_notext σ _ _ (by simp [lpTok]), substT_append, ih,
      substT_notext σ [rpTok] (by simp [rpTok])]
    cases e.inst σ <;> simp [CST.tokens]
  | bin op l r ihl ihr =>
    simp only [NT.tokens, NT.inst, substT_append, ihl]
    cases l.inst σ with
    | none => rfl
    | some a =>
      simp only [Option.bind_some, Option.map_some]
      rw [substT_cons_notext σ _ _ (by simp [opTok]), ihr]
      cases r.inst σ <;> simp [CST.tokens]

/-! ### substitution on reference tokens -/

def substE (σ : String → Option Int) : List Spec.ETok → Option (List Spec.ETok)
  | [] => some []
  | .name s :: r => (σ s).bind fun v => (substE σ r).map fun rest => (valCST v).etoks ++ rest
  | t :: r => (substE σ r).map (t :: ·)

theorem substE_cons_other (σ : String → Option Int) (t : Spec.ETok) (r : List Spec.ETok)
    (h : isName t = false) : substE σ (t :: r) = (substE σ r).map (t :: ·) := by
  cases t <;> first | rfl | (simp [isName] at h)

theorem substE_append (σ : String → Option Int) (a b : List Spec.ETok) :
    substE σ (a ++ b) = (substE σ a).bind fun x => (substE σ b).map fun y => x ++ y := by
  induction a with
  | nil => simp [substE]
  | cons t r ih =>
    cases ht : isName t with
    | true =>
      cases t <;> simp [isName] at ht
      rename_i s
      simp only [List.cons_append, substE]
      cases σ s with
      | none => rfl
      | some v =>
        simp only [Option.bind_some, ih]
        cases substE σ r with
        | none => rfl
        | some x => cases substE σ b <;> simp
    | false =>
      rw [List.cons_append, substE_cons_other σ t _ ht, substE_cons_other σ t _ ht, ih]
      cases substE σ r with
      | none => rfl
      | some x => cases substE σ b <;> simp

theorem substE_noname (σ : String → Option Int) (ts : List Spec.ETok) (h : ∀ t ∈ ts, isName t = false) :
    substE σ ts = some ts := by
  induction ts with
  | nil => rfl
  | cons t r ih =>
    rw [substE_cons_other σ t r (h t (List.mem_cons_self ..)),
      ih (fun x hx => h x (List.mem_cons_of_mem _ hx))]
    rfl

theorem substE_etoks (σ : String → Option Int) (e : NT) :
    substE σ e.etoks = (e.inst σ).map CST.etoks := by
  induction e with
  | num n => rfl
  | name s =>
    simp only [NT.etoks, substE, NT.inst]
    cases σ s <;> simp
  | signs ss e ih =>
    have hs : ∀ t ∈ ss.map (fun s => Spec.ETok.op (signStr s)), isName t = false := by
      intro t ht
      obtain ⟨s, _, rfl⟩ := List.mem_map.1 ht
      rfl
    simp only [NT.etoks, NT.inst, substE_append, substE_noname σ _ hs, ih, Option.bind_some,
      Option.map_map]
    cases e.inst σ <;> simp [mkSigns_etoks]
  | paren e ih =>
    simp only [NT.etoks, NT.inst]
    rw [substE_cons_other σ _ _ rfl, substE_append, ih]
    cases e.inst σ <;> simp [substE, CST.etoks]
  | bin op l r ihl ihr =>
    simp only [NT.etoks, NT.inst, substE_append, ihl]
    cases l.inst σ with
    | none => rfl
    | some a =>
      simp only [Option.bind_some, Option.map_some]
      rw [substE_cons_other σ _ _ rfl, ihr]
      cases r.inst σ <;> simp [CST.etoks]


/-! ## the model's label expansion -/

theorem valCST_tokens (v : Int) :
    (valCST v).tokens =
      if v < 0 then [{ typ := .symbol, val := "-" }, Compile.numTok v.natAbs] else [Compile.numTok v.toNat] := by
  unfold valCST
  split <;> rfl

theorem wrap64_bounds (i : Int) : -9223372036854775808 ≤ wrap64 i ∧ wrap64 i < 9223372036854775808 := by
  unfold wrap64
  simp only
  split <;> omega

theorem wrap64_id {i : Int} (h0 : -9223372036854775808 ≤ i) (h1 : i < 9223372036854775808) :
    wrap64 i = i := by
  unfold wrap64
  simp only
  split <;> omega

/-- `expandTok` on a label: the offset as one or two tokens -/
theorem expandTok_label (c : Compiler) (line : Int) (s : String) (label : Int)
    (hm : mInt c.m ≠ 0) (hm63 : mInt c.m < 9223372036854775808)
    (hv : c.values.get? s = none) (hl : c.labels.get? s = some label) :
    expandTok c line (textTok s) =
      .ok (valCST (Int.tmod (wrap64 (label - line)) (mInt c.m))).tokens := by
  unfold expandTok
  simp only [textTok, beq_self_eq_true, if_true, hv, hl]
  rw [if_neg (by simpa using hm), valCST_tokens]
  generalize hval : Int.tmod (wrap64 (label - line)) (mInt c.m) = val
  split
  · rename_i hneg
    have hb := wrap64_bounds (label - line)
    have hmb : -9223372036854775808 ≤ mInt c.m := (wrap64_bounds _).1
    have h1 : -val < 9223372036854775808 := by
      have := Int.tmod_lt_of_pos (wrap64 (label - line)) (b := -mInt c.m)
      have := Int.lt_tmod_of_pos (wrap64 (label - line)) (b := -mInt c.m)
      have e : Int.tmod (wrap64 (label - line)) (-mInt c.m) = val := by rw [Int.tmod_neg, hval]
      by_cases hp : 0 < mInt c.m
      · have := Int.lt_tmod_of_pos (wrap64 (label - line)) hp
        omega
      · have hp' : 0 < -mInt c.m := by omega
        have := Int.lt_tmod_of_pos (wrap64 (label - line)) hp'
        omega
    rw [wrap64_id (by omega) h1]
    have : (-val).toNat = val.natAbs := by omega
    rw [this]
  · rfl

/-- the offsets the model gives the names of a line -/
def sigmaC (c : Compiler) (line : Int) (s : String) : Option Int :=
  (c.labels.get? s).map fun label => Int.tmod (wrap64 (label - line)) (mInt c.m)

theorem expandOnce_subst (c : Compiler) (line : Int) (hm : mInt c.m ≠ 0)
    (hm63 : mInt c.m < 9223372036854775808) :
    ∀ ts : List Token, (∀ t ∈ ts, t.typ = .text → c.values.get? t.val = none) →
      expandOnce c line ts = optM (substT (sigmaC c line) ts) := by
  intro ts
  induction ts with
  | nil => intro _; rfl
  | cons t r ih =>
    intro h
    have ihr := ih (fun x hx => h x (List.mem_cons_of_mem _ hx))
    unfold expandOnce
    rw [ihr]
    by_cases ht : t.typ = .text
    · have hv := h t (List.mem_cons_self ..) ht
      have ht' : t = textTok t.val := by
        cases t; simp only [textTok] at ht ⊢; subst ht; rfl
      have hb : (t.typ == TokType.text) = true := by simpa using ht
      simp only [substT, hb, if_true, sigmaC]
      cases hl : c.labels.get? t.val with
      | none =>
        have : expandTok c line t = .error .goErr := by
          unfold expandTok
          simp only [hb, if_true, hv, hl]
        rw [this]; rfl
      | some label =>
        rw [ht', expandTok_label c line t.val label hm hm63 hv hl]
        simp only [Option.map_some, Option.bind_some]
        cases substT (sigmaC c line) r <;> rfl
    · have hb : (t.typ == TokType.text) = false := by simpa using ht
      have : expandTok c line t = .ok [t] := by
        unfold expandTok
        rw [if_neg (by simpa using ht)]
      rw [this, substT_cons_notext _ _ _ ht]
      cases substT (sigmaC c line) r <;> rfl

theorem valCST_notext (v : Int) : ∀ t ∈ (valCST v).tokens, t.typ ≠ .text :=
  tokens_not_text _

theorem substT_out_notext (σ : String → Option Int) :
    ∀ (ts out : List Token), substT σ ts = some out → ∀ t ∈ out, t.typ ≠ .text := by
  intro ts
  induction ts with
  | nil => intro out h; cases h; simp
  | cons t r ih =>
    intro out h
    by_cases ht : t.typ = .text
    · have hb : (t.typ == TokType.text) = true := by simpa using ht
      simp only [substT, hb, if_true] at h
      cases hs : σ t.val with
      | none => rw [hs] at h; cases h
      | some v =>
        rw [hs] at h
        simp only [Option.bind_some] at h
        cases hr : substT σ r with
        | none => rw [hr] at h; cases h
        | some rest =>
          rw [hr] at h
          cases h
          intro x hx
          rcases List.mem_append.1 hx with hx | hx
          · exact valCST_notext v x hx
          · exact ih rest hr x hx
    · rw [substT_cons_notext σ t r ht] at h
      cases hr : substT σ r with
      | none => rw [hr] at h; cases h
      | some rest =>
        rw [hr] at h
        cases h
        intro x hx
        rcases List.mem_cons.1 hx with rfl | hx
        · exact ht
        · exact ih rest hr x hx

/-- `expandExpression` on a token list whose names are labels (not keys of `values`): one round
    of substitution, a second round that changes nothing -/
theorem expandExpression_subst (c : Compiler) (line : Int) (hm : mInt c.m ≠ 0)
    (hm63 : mInt c.m < 9223372036854775808) (ts : List Token)
    (h : ∀ t ∈ ts, t.typ = .text → c.values.get? t.val = none) :
    expandExpression c ts line = optM (substT (sigmaC c line) ts) := by
  unfold expandExpression
  cases ts with
  | nil => rfl
  | cons x r =>
    simp only [List.isEmpty_cons, Bool.false_eq_true, if_false]
    show expandLoop c line (c.values.length + c.labels.length + 1 + 1) (x :: r) = _
    unfold expandLoop
    rw [expandOnce_subst c line hm hm63 _ h]
    cases hs : substT (sigmaC c line) (x :: r) with
    | none => rfl
    | some out =>
      simp only [optM, bind, Except.bind]
      split
      · rfl
      · unfold expandLoop
        have hout := substT_out_notext _ _ _ hs
        have h1 : expandOnce c line out = .ok out :=
          expandOnce_id (d := fun _ => 0) (fun t ht => by
            unfold tokDepth
            rw [if_neg (hout t ht)]
            exact Nat.le_refl 0)
        rw [h1]
        simp [bind, Except.bind, pure, Except.pure]

/-! ## the reference's label substitution -/

/-- the offsets the reference gives the names of a line -/
def sigmaS (M : Nat) (labels : List (String × Nat)) (line : Nat) (s : String) : Option Int :=
  (labels.find? (·.1 == s)).map fun p => Int.tmod ((p.2 : Int) - (line : Int)) (M : Int)

theorem valCST_etoks (v : Int) :
    (valCST v).etoks = if v < 0 then [.op "-", .num v.natAbs] else [.num v.toNat] := by
  unfold valCST
  split <;> rfl

theorem foldlM_subst (σ : String → Option Int)
    (F : List Spec.ETok → Spec.ETok → Option (List Spec.ETok))
    (hname : ∀ acc s, F acc (.name s) = (σ s).map fun v => acc ++ (valCST v).etoks)
    (hother : ∀ acc t, isName t = false → F acc t = some (acc ++ [t])) :
    ∀ (ts acc : List Spec.ETok), ts.foldlM F acc = (substE σ ts).map (acc ++ ·) := by
  intro ts
  induction ts with
  | nil => intro acc; simp [substE]
  | cons t r ih =>
    intro acc
    rw [List.foldlM_cons]
    cases ht : isName t with
    | true =>
      cases t <;> simp [isName] at ht
      rename_i s
      rw [hname]
      simp only [substE]
      cases σ s with
      | none => rfl
      | some v =>
        simp only [Option.map_some, Option.bind_eq_bind, Option.bind_some, ih]
        cases substE σ r <;> simp
    | false =>
      rw [hother acc t ht, substE_cons_other σ t r ht]
      simp only [Option.bind_eq_bind, Option.bind_some, ih]
      cases substE σ r <;> simp

theorem substLabels_eq (c : Spec.Cfg) (t : Spec.Tables) (line : Nat) (ts : List Spec.ETok) :
    Spec.substLabels c t line ts = substE (sigmaS c.M t.labels line) ts := by
  unfold Spec.substLabels
  rw [foldlM_subst (sigmaS c.M t.labels line) _ ?_ ?_ ts []]
  · cases substE (sigmaS c.M t.labels line) ts <;> simp
  · intro acc s
    simp only [sigmaS]
    cases t.labels.find? (·.1 == s) with
    | none => rfl
    | some p =>
      obtain ⟨l, idx⟩ := p
      simp only [Option.map_some, valCST_etoks]
      split <;> rfl
  · intro acc tk h
    cases tk <;> first | rfl | (simp [isName] at h)

/-- names that are not EQU names pass `Spec.expandEqus` unchanged -/
theorem expandEqus_nokey (tab : List (String × List Spec.ETok)) (ts : List Spec.ETok)
    (hn : ∀ s, Spec.ETok.name s ∈ ts → tab.find? (·.1 == s) = none) (hlen : ts.length ≤ 20000) :
    Spec.expandEqus 64 tab ts = some ts := by
  unfold Spec.expandEqus
  rw [if_neg (by omega)]
  split
  · rfl
  · rename_i h
    refine absurd (List.all_eq_true.2 ?_) h
    intro t ht
    cases t with
    | name s => simp [hn s ht]
    | _ => rfl

theorem mem_etoks_names (e : NT) (s : String) : Spec.ETok.name s ∈ e.etoks → s ∈ e.names := by
  induction e with
  | num n => simp [NT.etoks]
  | name s' => simp [NT.etoks, NT.names]
  | signs ss e ih =>
    simp only [NT.etoks, NT.names, List.mem_append, List.mem_map]
    rintro (⟨x, _, h⟩ | h)
    · cases h
    · exact ih h
  | paren e ih =>
    simp only [NT.etoks, NT.names, List.mem_cons, List.mem_append, List.not_mem_nil, or_false]
    rintro (h | h | h)
    · cases h
    · exact ih h
    · cases h
  | bin op l r ihl ihr =>
    simp only [NT.etoks, NT.names, List.mem_append, List.mem_cons]
    rintro (h | h | h)
    · exact Or.inl (ihl h)
    · cases h
    · exact Or.inr (ihr h)

theorem mem_tokens_names (e : NT) (t : Token) : t ∈ e.tokens → t.typ = .text → t.val ∈ e.names := by
  induction e with
  | num n => simp only [NT.tokens, List.mem_singleton]; rintro rfl h; cases h
  | name s => simp only [NT.tokens, NT.names, List.mem_singleton]; rintro rfl _; rfl
  | signs ss e ih =>
    simp only [NT.tokens, NT.names, List.mem_append, List.mem_map]
    rintro (⟨x, _, rfl⟩ | h) ht
    · cases ht
    · exact ih h ht
  | paren e ih =>
    simp only [NT.tokens, NT.names, List.mem_cons, List.mem_append, List.not_mem_nil, or_false]
    rintro (rfl | h | rfl) ht
    · cases ht
    · exact ih h ht
    · cases ht
  | bin op l r ihl ihr =>
    simp only [NT.tokens, NT.names, List.mem_append, List.mem_cons]
    rintro (h | rfl | h) ht
    · exact Or.inl (ihl h ht)
    · cases ht
    · exact Or.inr (ihr h ht)

/-- the reference's value of a template: substitute, then evaluate -/
theorem evalAt_nt (c : Spec.Cfg) (t : Spec.Tables) (line : Nat) (e : NT)
    (hn : ∀ s ∈ e.names, t.equs.find? (·.1 == s) = none) (hlen : e.etoks.length ≤ 20000) :
    Spec.evalAt c t line e.etoks =
      (e.inst (sigmaS c.M t.labels line)).bind fun x => Spec.Expr.evalInt x.etoks := by
  unfold Spec.evalAt
  rw [expandEqus_nokey _ _ (fun s hs => hn s (mem_etoks_names e s hs)) hlen]
  simp only [Option.bind_eq_bind, Option.bind_some]
  rw [substLabels_eq, substE_etoks]
  cases e.inst (sigmaS c.M t.labels line) <;> rfl

/-- a template inside the modelled range for the offsets `σ` -/
structure GoodTmpl (σ : String → Option Int) (consts : List String) (e : NT) : Prop where
  notConst : ∀ s ∈ e.names, s ∉ consts
  len : e.etoks.length ≤ 20000
  wf : ∀ x, e.inst σ = some x → WFprec x ∧ NoBigLit x

/-- the model's operand evaluation of a template is the reference's, when both read the names
    the same way -/
theorem operandM_nt (c : Compiler) (sc : Spec.Cfg) (t : Spec.Tables) (k : Nat) (e : NT)
    (hm : mInt c.m ≠ 0) (hm63 : mInt c.m < 9223372036854775808)
    (hσ : ∀ s, sigmaC c (k : Int) s = sigmaS sc.M t.labels k s)
    (hv : ∀ s ∈ e.names, c.values.get? s = none)
    (hq : ∀ s ∈ e.names, t.equs.find? (·.1 == s) = none)
    (hlen : e.etoks.length ≤ 20000)
    (hwf : ∀ x, e.inst (sigmaS sc.M t.labels k) = some x → WFprec x ∧ NoBigLit x) :
    operandM c e.tokens (k : Int) = optM (Spec.evalAt sc t k e.etoks) := by
  unfold operandM
  rw [expandExpression_subst c _ hm hm63 _ (fun tk htk htx => hv _ (mem_tokens_names e tk htk htx)),
    evalAt_nt sc t k e hq hlen]
  have hfun : sigmaC c (k : Int) = sigmaS sc.M t.labels k := funext hσ
  rw [hfun, substT_tokens]
  cases hx : e.inst (sigmaS sc.M t.labels k) with
  | none => rfl
  | some x =>
    obtain ⟨h1, h2⟩ := hwf x hx
    show evalM x.tokens = _
    unfold evalM
    rw [model_agrees_with_reference x h1 h2]
    simp only [Option.bind_some]
    cases Spec.Expr.evalInt x.etoks <;> rfl

/-! ## programs with labels -/

structure LOperand where
  mode : Option Mode
  expr : NT

inductive LItem
  | instr (labels : List String) (op : String) (md : Option String) (a : LOperand) (b : Option LOperand)
  | org (kw : String) (e : NT)
  | end_ (kw : String) (e : Option NT)

def LOperand.toP (o : LOperand) : Spec.POperand := { mode := o.mode, expr := o.expr.etoks }

/-- the program as the reference reads it -/
def LItem.toItem : LItem → Spec.Item
  | .instr ls op md a b => .instr ls op md a.toP (b.map LOperand.toP)
  | .org _ e => .org e.etoks
  | .end_ _ e => .end_ (e.map NT.etoks)

def LItem.isInstr : LItem → Bool
  | .instr .. => true
  | _ => false

/-- the program as the parser hands it to the compiler -/
def LItem.toLine (k : Nat) : LItem → SourceLine
  | .instr ls op md a b =>
    { typ := .instruction, codeLine := (k : Int), labels := ls, op := opString op md,
      amode := modeString a.mode, a := some a.expr.tokens,
      bmode := modeString (b.bind (·.mode)), b := b.map (·.expr.tokens) }
  | .org kw e => { typ := .pseudoOp, op := kw, a := some e.tokens }
  | .end_ kw e => { typ := .pseudoOp, op := kw, a := e.map NT.tokens }

def lrender (k : Nat) : List LItem → List SourceLine
  | [] => []
  | it :: r => it.toLine k :: lrender (if it.isInstr then k + 1 else k) r

/-- the label table: every label with the index of its instruction -/
def labelsFrom (k : Nat) : List LItem → List (String × Nat)
  | [] => []
  | .instr ls _ _ _ _ :: r => ls.map (fun l => (l, k)) ++ labelsFrom (k + 1) r
  | .org _ _ :: r => labelsFrom k r
  | .end_ _ _ :: r => labelsFrom k r

def linstrCount (prog : List LItem) : Nat := (prog.filter LItem.isInstr).length

def constNames : List String := ["CORESIZE", "MAXLENGTH", "MAXPROCESSES", "MINDISTANCE"]

/-- side conditions on the item that is line `k` of the code, for the label table `S` -/
def LItem.WF (M : Nat) (S : List (String × Nat)) (k : Nat) : LItem → Prop
  | .instr _ op md a b =>
    Ascii op ∧ '.' ∉ op.toList ∧ (∀ s, md = some s → Ascii s) ∧
      GoodTmpl (sigmaS M S k) constNames a.expr ∧
      (∀ bo, b = some bo → GoodTmpl (sigmaS M S k) constNames bo.expr)
  | .org kw e => lowerStr kw = "org" ∧ GoodTmpl (sigmaS M S 0) constNames e
  | .end_ kw e => lowerStr kw = "end" ∧ (∀ x, e = some x → GoodTmpl (sigmaS M S 0) constNames x)

def ProgWF (M : Nat) (S : List (String × Nat)) : Nat → List LItem → Prop
  | _, [] => True
  | k, it :: r => it.WF M S k ∧ ProgWF M S (if it.isInstr then k + 1 else k) r

theorem nt_tokens_ne_nil (e : NT) : e.tokens ≠ [] := by
  induction e with
  | num n => simp [NT.tokens]
  | name s => simp [NT.tokens]
  | signs ss e ih => simp [NT.tokens, ih]
  | paren e ih => simp [NT.tokens]
  | bin op l r ihl ihr => simp [NT.tokens]

/-! ### the label table of `loadSymbols` -/

def castL (p : String × Nat) : String × Int := (p.1, (p.2 : Int))

theorem LabTab.has_false_of_not_mem (m : LabTab) (k : String) (h : k ∉ m.map (·.1)) :
    m.has k = false := by
  unfold LabTab.has
  have : m.find? (·.1 == k) = none := by
    rw [List.find?_eq_none]
    intro x hx hb
    have : x.1 = k := by simpa using hb
    exact h (this ▸ List.mem_map_of_mem hx)
  rw [this]; rfl

theorem set_fold (v : Int) (ls : List String) :
    ∀ T : LabTab, (T.map (·.1) ++ ls).Nodup →
      ls.foldl (fun t l => t.set l v) T = T ++ ls.map (fun l => (l, v)) := by
  induction ls with
  | nil => intro T _; simp
  | cons l r ih =>
    intro T hnd
    have hl : l ∉ T.map (·.1) := by
      intro hm
      rw [List.nodup_append] at hnd
      exact hnd.2.2 l hm l (List.mem_cons_self ..) rfl
    have hset : T.set l v = T ++ [(l, v)] := by
      unfold LabTab.set
      rw [LabTab.has_false_of_not_mem T l hl]
      rfl
    rw [List.foldl_cons, hset, ih]
    · simp
    · simpa [List.append_assoc] using hnd

def lstartStep (acc : List Token) : LItem → List Token
  | .org _ e => e.tokens
  | .end_ _ (some e) => e.tokens
  | _ => acc

theorem loadSymbolsLine_instr (c : Compiler) (cur : Int) (k : Nat) (ls : List String) (op : String)
    (md : Option String) (a : LOperand) (b : Option LOperand) :
    (loadSymbolsLine (c, cur) ((LItem.instr ls op md a b).toLine k)).1 =
      { c with labels := ls.foldl (fun t l => t.set l (k : Int)) c.labels } := rfl

theorem loadSymbolsLine_org (c : Compiler) (cur : Int) (k : Nat) (kw : String) (e : NT)
    (hkw : lowerStr kw = "org") :
    (loadSymbolsLine (c, cur) ((LItem.org kw e).toLine k)).1 = { c with startExpr := e.tokens } := by
  unfold loadSymbolsLine
  simp only [LItem.toLine, hkw]
  rfl

theorem loadSymbolsLine_end (c : Compiler) (cur : Int) (k : Nat) (kw : String) (e : Option NT)
    (hkw : lowerStr kw = "end") :
    (loadSymbolsLine (c, cur) ((LItem.end_ kw e).toLine k)).1 =
      { c with startExpr := lstartStep c.startExpr (.end_ kw e) } := by
  unfold loadSymbolsLine
  simp only [LItem.toLine, hkw]
  cases e with
  | none => rfl
  | some x =>
    have h0 : x.tokens ≠ [] := nt_tokens_ne_nil x
    have : (x.tokens).length > 0 := by
      cases h : x.tokens with
      | nil => exact absurd h h0
      | cons _ _ => simp
    simp [lstartStep, this]

theorem foldl_loadSymbolsLine_lrender (M : Nat) (S : List (String × Nat)) (prog : List LItem) :
    ∀ (k : Nat) (st : Compiler × Int), ProgWF M S k prog →
      (st.1.labels.map (·.1) ++ (labelsFrom k prog).map (·.1)).Nodup →
      ((lrender k prog).foldl loadSymbolsLine st).1 =
        { st.1 with labels := st.1.labels ++ (labelsFrom k prog).map castL,
                    startExpr := prog.foldl lstartStep st.1.startExpr } := by
  induction prog with
  | nil => intro k st _ _; simp [lrender, labelsFrom]
  | cons it r ih =>
    intro k st hw hnd
    obtain ⟨c, cur⟩ := st
    simp only [lrender, List.foldl_cons]
    cases it with
    | instr ls op md a b =>
      simp only [labelsFrom, List.map_append, List.map_map] at hnd
      have hnd1 : (c.labels.map (·.1) ++ ls).Nodup := by
        have : ((fun x : String × Nat => x.1) ∘ fun l => (l, k)) = id := rfl
        rw [this, List.map_id, ← List.append_assoc] at hnd
        exact (List.nodup_append.1 hnd).1
      have hs := set_fold (k : Int) ls c.labels hnd1
      have hst : loadSymbolsLine (c, cur) ((LItem.instr ls op md a b).toLine k) =
          ({ c with labels := c.labels ++ ls.map (fun l => (l, (k : Int))) },
            (loadSymbolsLine (c, cur) ((LItem.instr ls op md a b).toLine k)).2) := by
        rw [← hs, ← loadSymbolsLine_instr c cur k ls op md a b]
      rw [hst]
      simp only [LItem.isInstr, if_true]
      rw [ih (k + 1) _ hw.2]
      · simp only [labelsFrom, List.map_append, List.map_map,
          List.append_assoc, lstartStep]
        rfl
      · simp only [List.map_append, List.map_map, List.append_assoc]
        exact hnd
    | org kw e =>
      have hst : loadSymbolsLine (c, cur) ((LItem.org kw e).toLine k) =
          ({ c with startExpr := e.tokens },
            (loadSymbolsLine (c, cur) ((LItem.org kw e).toLine k)).2) := by
        rw [← loadSymbolsLine_org c cur k kw e hw.1.1]
      rw [hst]
      simp only [LItem.isInstr, Bool.false_eq_true, if_false]
      rw [ih k _ hw.2 (by exact hnd)]
      rfl
    | end_ kw e =>
      have hst : loadSymbolsLine (c, cur) ((LItem.end_ kw e).toLine k) =
          ({ c with startExpr := lstartStep c.startExpr (.end_ kw e) },
            (loadSymbolsLine (c, cur) ((LItem.end_ kw e).toLine k)).2) := by
        rw [← loadSymbolsLine_end c cur k kw e hw.1.1]
      rw [hst]
      simp only [LItem.isInstr, Bool.false_eq_true, if_false]
      rw [ih k _ hw.2 (by exact hnd)]
      rfl

/-! ### the two readings of a name agree -/

theorem get?_castL (S : List (String × Nat)) (s : String) :
    LabTab.get? (S.map castL) s = (S.find? (·.1 == s)).map fun p => (p.2 : Int) := by
  unfold LabTab.get?
  induction S with
  | nil => rfl
  | cons p r ih =>
    simp only [List.map_cons, List.find?_cons, castL]
    cases (p.1 == s) with
    | true => rfl
    | false => exact ih

theorem sigma_agree (c : Compiler) (M : Nat) (S : List (String × Nat)) (k : Nat)
    (hl : c.labels = S.map castL) (hm : mInt c.m = (M : Int))
    (hS : ∀ p ∈ S, p.2 < 2 ^ 63) (hk : k < 2 ^ 63) (s : String) :
    sigmaC c (k : Int) s = sigmaS M S k s := by
  unfold sigmaC sigmaS
  rw [hl, get?_castL, hm]
  cases h : S.find? (·.1 == s) with
  | none => rfl
  | some p =>
    have hp := hS p (List.mem_of_find?_eq_some h)
    simp only [Option.map_some]
    rw [wrap64_id (by omega) (by omega)]

/-- what the compiler state and the reference tables have in common -/
structure TRel (c : Compiler) (sc : Spec.Cfg) (t : Spec.Tables) : Prop where
  crel : CRel c sc
  labels : c.labels = t.labels.map castL
  small : ∀ p ∈ t.labels, p.2 < 2 ^ 63
  vals : ∀ s, s ∉ constNames → c.values.get? s = none
  equs : ∀ s, s ∉ constNames → t.equs.find? (·.1 == s) = none

theorem operandM_tmpl {c : Compiler} {sc : Spec.Cfg} {t : Spec.Tables} (hr : TRel c sc t) (k : Nat)
    (hk : k < 2 ^ 63) (e : NT) (he : GoodTmpl (sigmaS sc.M t.labels k) constNames e) :
    operandM c e.tokens (k : Int) = optM (Spec.evalAt sc t k e.etoks) := by
  have hm0 : mInt c.m ≠ 0 := by rw [hr.crel.m]; have := hr.crel.pos; omega
  have hm63 : mInt c.m < 9223372036854775808 := by rw [hr.crel.m]; have := hr.crel.lt; omega
  exact operandM_nt c sc t k e hm0 hm63
    (sigma_agree c sc.M t.labels k hr.labels hr.crel.m hr.small hk)
    (fun s hs => hr.vals s (he.notConst s hs))
    (fun s hs => hr.equs s (he.notConst s hs))
    he.len he.wf

/-! ### the instruction loop -/

theorem lcodeFold_none (c : Spec.Cfg) (t : Spec.Tables) (prog : List LItem) :
    ∀ k, (codeFold c t (prog.map LItem.toItem) (none, k)).1 = none := by
  induction prog with
  | nil => intro k; rfl
  | cons it r ih =>
    intro k
    cases it with
    | instr ls op md a b => simp only [List.map_cons, LItem.toItem, codeFold_instr_none]; exact ih _
    | org kw e => simp only [List.map_cons, LItem.toItem, codeFold_org]; exact ih _
    | end_ kw e => simp only [List.map_cons, LItem.toItem, codeFold_end]; exact ih _

theorem assembleLine_ltoLine {c : Compiler} {sc : Spec.Cfg} {t : Spec.Tables} (hr : TRel c sc t)
    (k : Nat) (hk : k < 2 ^ 63) (ls : List String) (op : String) (md : Option String) (a : LOperand)
    (b : Option LOperand) (hw : (LItem.instr ls op md a b).WF sc.M t.labels k) :
    assembleLine c ((LItem.instr ls op md a b).toLine k) =
      optM (Spec.instrMeaning sc t k op md a.toP (b.map LOperand.toP)) := by
  obtain ⟨hop, hdot, hmd, ha, hb⟩ := hw
  refine assembleLine_meaning c _ sc t k op md a.toP (b.map LOperand.toP) hr.crel.legacy hr.crel.m
    hr.crel.pos hr.crel.lt hop hdot hmd rfl rfl ?_ ?_ ?_ ?_
  · cases b <;> rfl
  · cases b with
    | none => rfl
    | some bo =>
      show (bo.expr.tokens).isEmpty = false
      have := nt_tokens_ne_nil bo.expr
      cases h : bo.expr.tokens with
      | nil => exact absurd h this
      | cons x r => rfl
  · exact operandM_tmpl hr k hk a.expr ha
  · intro bo' hbo
    cases b with
    | none => cases hbo
    | some bo =>
      cases hbo
      exact operandM_tmpl hr k hk bo.expr (hb bo rfl)

theorem assembleLines_lrender {c : Compiler} {sc : Spec.Cfg} {t : Spec.Tables} (hr : TRel c sc t)
    (prog : List LItem) :
    ∀ (k : Nat) (code : Array Instr), ProgWF sc.M t.labels k prog → k + linstrCount prog < 2 ^ 63 →
      assembleLines c (lrender k prog) code =
        optM ((codeFold sc t (prog.map LItem.toItem) (some code.toList, k)).1.map List.toArray) := by
  induction prog with
  | nil => intro k code _ _; simp [lrender, assembleLines, codeFold, optM]
  | cons it r ih =>
    intro k code hw hk
    cases it with
    | instr ls op md a b =>
      have hk' : k + 1 + linstrCount r < 2 ^ 63 := by
        simp only [linstrCount, List.filter_cons, LItem.isInstr, if_true, List.length_cons] at hk ⊢
        omega
      have h1 := assembleLine_ltoLine hr k (by omega) ls op md a b hw.1
      simp only [lrender, LItem.isInstr, if_true, List.map_cons, LItem.toItem, codeFold_instr_some]
      unfold assembleLines
      have hty : ((LItem.instr ls op md a b).toLine k).typ = .instruction := rfl
      rw [hty]
      simp only [bne_self_eq_false, Bool.false_eq_true, if_false]
      rw [h1]
      cases Spec.instrMeaning sc t k op md a.toP (b.map LOperand.toP) with
      | none =>
        simp only [Option.map_none, lcodeFold_none]
        rfl
      | some i =>
        simp only [Option.map_some]
        show assembleLines c (lrender (k + 1) r) (code.push i) = _
        rw [ih (k + 1) (code.push i) hw.2 hk', Array.toList_push]
    | org kw e =>
      have hk' : k + linstrCount r < 2 ^ 63 := by
        simpa [linstrCount, List.filter_cons, LItem.isInstr] using hk
      simp only [lrender, LItem.isInstr, Bool.false_eq_true, if_false, List.map_cons, LItem.toItem,
        codeFold_org]
      unfold assembleLines
      have hty : ((LItem.org kw e).toLine k).typ = .pseudoOp := rfl
      rw [hty]
      simp only [show (LineType.pseudoOp != LineType.instruction) = true from rfl, if_true]
      exact ih k code hw.2 hk'
    | end_ kw e =>
      have hk' : k + linstrCount r < 2 ^ 63 := by
        simpa [linstrCount, List.filter_cons, LItem.isInstr] using hk
      simp only [lrender, LItem.isInstr, Bool.false_eq_true, if_false, List.map_cons, LItem.toItem,
        codeFold_end]
      unfold assembleLines
      have hty : ((LItem.end_ kw e).toLine k).typ = .pseudoOp := rfl
      rw [hty]
      simp only [show (LineType.pseudoOp != LineType.instruction) = true from rfl, if_true]
      exact ih k code hw.2 hk'

/-! ### the reference's passes -/

theorem llabelFold_aux (prog : List LItem) :
    ∀ (ls : List (String × Nat)) (k : Nat),
      (prog.map LItem.toItem).foldl (fun (acc : List (String × Nat) × Nat) it =>
        match it with
        | .instr ls _ _ _ _ => (acc.1 ++ ls.map (fun l => (l, acc.2)), acc.2 + 1)
        | _ => acc) (ls, k) = (ls ++ labelsFrom k prog, k + linstrCount prog) := by
  induction prog with
  | nil => intro ls k; simp [labelsFrom, linstrCount]
  | cons it r ih =>
    intro ls k
    cases it with
    | instr l op md a b =>
      simp only [List.map_cons, List.foldl_cons, LItem.toItem]
      rw [ih]
      simp only [labelsFrom, linstrCount, List.filter_cons, LItem.isInstr, if_true, List.length_cons,
        List.append_assoc]
      congr 1; omega
    | org kw e =>
      simp only [List.map_cons, List.foldl_cons, LItem.toItem]
      rw [ih]; rfl
    | end_ kw e =>
      simp only [List.map_cons, List.foldl_cons, LItem.toItem]
      rw [ih]; rfl

theorem llabelFold_items (prog : List LItem) :
    labelFold (prog.map LItem.toItem) = (labelsFrom 0 prog, linstrCount prog) := by
  have h := llabelFold_aux prog [] 0
  simp only [List.nil_append, Nat.zero_add] at h
  exact h

theorem lequsOf_items (prog : List LItem) : Spec.equsOf (prog.map LItem.toItem) = [] := by
  unfold Spec.equsOf
  rw [List.filterMap_eq_nil_iff]
  intro x hx
  obtain ⟨it, _, rfl⟩ := List.mem_map.1 hx
  cases it <;> rfl

theorem lassertsOk_items (c : Spec.Cfg) (t : Spec.Tables) (prog : List LItem) :
    assertsOk c t (prog.map LItem.toItem) = true := by
  unfold assertsOk
  rw [List.all_eq_true]
  intro x hx
  obtain ⟨it, _, rfl⟩ := List.mem_map.1 hx
  cases it <;> rfl

theorem lmetaOf_items (prog : List LItem) (k : Spec.MetaKind) : metaOf (prog.map LItem.toItem) k = [] := by
  unfold metaOf
  rw [List.filterMap_eq_nil_iff]
  intro x hx
  obtain ⟨it, _, rfl⟩ := List.mem_map.1 hx
  cases it <;> rfl

def lstartStepN (acc : NT) : LItem → NT
  | .org _ e => e
  | .end_ _ (some e) => e
  | _ => acc

def startNT (prog : List LItem) : NT := prog.foldl lstartStepN (.num 0)

def lstartToks (prog : List LItem) : List Token :=
  prog.foldl lstartStep [{ typ := .number, val := "0" }]

theorem lstartToks_aux (prog : List LItem) :
    ∀ acc : NT, prog.foldl lstartStep acc.tokens = (prog.foldl lstartStepN acc).tokens := by
  induction prog with
  | nil => intro acc; rfl
  | cons it r ih =>
    intro acc
    simp only [List.foldl_cons]
    cases it with
    | instr ls op md a b => exact ih acc
    | org kw e => exact ih e
    | end_ kw e =>
      cases e with
      | none => exact ih acc
      | some x => exact ih x

theorem lstartToks_eq (prog : List LItem) : lstartToks prog = (startNT prog).tokens := by
  unfold lstartToks startNT
  rw [← lstartToks_aux]
  rfl

theorem lstartFold_aux (prog : List LItem) :
    ∀ acc : NT, (prog.map LItem.toItem).foldl (fun acc it =>
        match it with
        | .org e => e
        | .end_ (some e) => e
        | _ => acc) acc.etoks = (prog.foldl lstartStepN acc).etoks := by
  induction prog with
  | nil => intro acc; rfl
  | cons it r ih =>
    intro acc
    simp only [List.map_cons, List.foldl_cons]
    cases it with
    | instr ls op md a b => exact ih acc
    | org kw e => exact ih e
    | end_ kw e =>
      cases e with
      | none => exact ih acc
      | some x => exact ih x

theorem lstartFold_items (prog : List LItem) :
    startFold (prog.map LItem.toItem) = (startNT prog).etoks := by
  unfold startFold startNT
  rw [← lstartFold_aux]
  rfl

theorem goodTmpl_zero (σ : String → Option Int) : GoodTmpl σ constNames (.num 0) where
  notConst := by intro s hs; simp [NT.names] at hs
  len := by simp [NT.etoks]
  wf := by
    intro x hx
    cases hx
    exact ⟨trivial, (Int.pow_pos (by decide) : (0 : Int) < (2 : Int) ^ 500)⟩

theorem startNT_good (M : Nat) (S : List (String × Nat)) (prog : List LItem) :
    ∀ k, ProgWF M S k prog → GoodTmpl (sigmaS M S 0) constNames (startNT prog) := by
  unfold startNT
  suffices h : ∀ acc, GoodTmpl (sigmaS M S 0) constNames acc → ∀ k, ProgWF M S k prog →
      GoodTmpl (sigmaS M S 0) constNames (prog.foldl lstartStepN acc) from h _ (goodTmpl_zero _)
  induction prog with
  | nil => intro acc h _ _; exact h
  | cons it r ih =>
    intro acc hacc k hw
    simp only [List.foldl_cons]
    cases it with
    | instr ls op md a b => exact ih acc hacc _ hw.2
    | org kw e => exact ih e hw.1.2 _ hw.2
    | end_ kw e =>
      cases e with
      | none => exact ih acc hacc _ hw.2
      | some x => exact ih x (hw.1.2 x rfl) _ hw.2

theorem lcodeFold_length (c : Spec.Cfg) (t : Spec.Tables) (prog : List LItem) :
    ∀ (code : List Instr) (k : Nat) (out : List Instr),
      (codeFold c t (prog.map LItem.toItem) (some code, k)).1 = some out →
      out.length = code.length + linstrCount prog := by
  induction prog with
  | nil => intro code k out h; cases h; simp [linstrCount]
  | cons it r ih =>
    intro code k out h
    cases it with
    | instr ls op md a b =>
      simp only [List.map_cons, LItem.toItem, codeFold_instr_some] at h
      cases hi : Spec.instrMeaning c t k op md a.toP (b.map LOperand.toP) with
      | none => rw [hi, Option.map_none, lcodeFold_none] at h; cases h
      | some i =>
        rw [hi, Option.map_some] at h
        have := ih _ _ _ h
        simp only [linstrCount, List.filter_cons, LItem.isInstr, if_true, List.length_cons,
          List.length_append, List.length_nil] at this ⊢
        omega
    | org kw e =>
      simp only [List.map_cons, LItem.toItem, codeFold_org] at h
      exact ih _ _ _ h
    | end_ kw e =>
      simp only [List.map_cons, LItem.toItem, codeFold_end] at h
      exact ih _ _ _ h

theorem labelsFrom_lt (prog : List LItem) :
    ∀ k, ∀ p ∈ labelsFrom k prog, p.2 < k + linstrCount prog := by
  induction prog with
  | nil => intro k p hp; simp [labelsFrom] at hp
  | cons it r ih =>
    intro k p hp
    cases it with
    | instr ls op md a b =>
      simp only [labelsFrom, List.mem_append, List.mem_map] at hp
      simp only [linstrCount, List.filter_cons, LItem.isInstr, if_true, List.length_cons]
      rcases hp with ⟨l, _, rfl⟩ | hp
      · simp only; omega
      · have := ih (k + 1) p hp
        simp only [linstrCount] at this
        omega
    | org kw e =>
      have := ih k p hp
      simpa [linstrCount, List.filter_cons, LItem.isInstr] using this
    | end_ kw e =>
      have := ih k p hp
      simpa [linstrCount, List.filter_cons, LItem.isInstr] using this

theorem eraseDups_of_nodup {α : Type} [BEq α] [LawfulBEq α] :
    ∀ (l : List α), l.Nodup → l.eraseDups = l := by
  intro l
  induction l with
  | nil => intro _; rfl
  | cons a as ih =>
    intro h
    rw [List.nodup_cons] at h
    rw [List.eraseDups_cons]
    have : as.filter (fun b => !b == a) = as := by
      rw [List.filter_eq_self]
      intro b hb
      have : b ≠ a := fun e => h.1 (e ▸ hb)
      simpa using this
    rw [this, ih h.2]

theorem consts_get?_none (cfg : Config) (s : String) (h : s ∉ constNames) :
    (consts cfg).get? s = none := by
  simp only [constNames, List.mem_cons, List.not_mem_nil, or_false, not_or] at h
  obtain ⟨h1, h2, h3, h4⟩ := h
  rw [consts_eq]
  unfold SymTab.get?
  have e1 : ("CORESIZE" == s) = false := by simpa using Ne.symm h1
  have e2 : ("MAXLENGTH" == s) = false := by simpa using Ne.symm h2
  have e3 : ("MAXPROCESSES" == s) = false := by simpa using Ne.symm h3
  have e4 : ("MINDISTANCE" == s) = false := by simpa using Ne.symm h4
  simp [e1, e2, e3, e4]

theorem predefined_find?_none (sc : Spec.Cfg) (s : String) (h : s ∉ constNames) :
    (Spec.predefined sc).find? (·.1 == s) = none := by
  simp only [constNames, List.mem_cons, List.not_mem_nil, or_false, not_or] at h
  obtain ⟨h1, h2, h3, h4⟩ := h
  unfold Spec.predefined
  have e1 : ("CORESIZE" == s) = false := by simpa using Ne.symm h1
  have e2 : ("MAXLENGTH" == s) = false := by simpa using Ne.symm h2
  have e3 : ("MAXPROCESSES" == s) = false := by simpa using Ne.symm h3
  have e4 : ("MINDISTANCE" == s) = false := by simpa using Ne.symm h4
  simp [e1, e2, e3, e4]

/-! ## `compile_meaning_labels` -/

theorem meaningFlat_litems (sc : Spec.Cfg) (prog : List LItem)
    (hnd : ((labelsFrom 0 prog).map (·.1) ++ constNames).Nodup) :
    Spec.meaningFlat sc (prog.map LItem.toItem) =
      (codeFold sc (tablesOf sc (prog.map LItem.toItem) (labelsFrom 0 prog)) (prog.map LItem.toItem)
          (some [], 0)).1.bind
        fun code =>
          if code.length > sc.maxLen then none
          else
            (Spec.evalAt sc (tablesOf sc (prog.map LItem.toItem) (labelsFrom 0 prog)) 0
                (startNT prog).etoks).bind fun sv =>
              if sv < 0 || (sv ≥ linstrCount prog && sv != 0) then none
              else some { code := code, start := sv.toNat, name := "", author := "", strategy := "" } := by
  rw [meaningFlat_eq, llabelFold_items]
  unfold flatTail
  simp only
  have hd : (((labelsFrom 0 prog).map (·.1) ++ (Spec.equsOf (prog.map LItem.toItem)).map (·.1) ++
      (Spec.predefined sc).map (·.1)).eraseDups.length !=
      ((labelsFrom 0 prog).map (·.1) ++ (Spec.equsOf (prog.map LItem.toItem)).map (·.1) ++
      (Spec.predefined sc).map (·.1)).length) = false := by
    rw [lequsOf_items, predefined_names, List.map_nil, List.append_nil]
    have : ((labelsFrom 0 prog).map (·.1) ++ ["CORESIZE", "MAXLENGTH", "MAXPROCESSES", "MINDISTANCE"]).eraseDups
        = (labelsFrom 0 prog).map (·.1) ++ ["CORESIZE", "MAXLENGTH", "MAXPROCESSES", "MINDISTANCE"] :=
      eraseDups_of_nodup _ hnd
    rw [this]
    simp
  rw [hd]
  have he : ((tablesOf sc (prog.map LItem.toItem) (labelsFrom 0 prog)).equs.all
      (fun (_, e) => (Spec.expandEqus 64 (tablesOf sc (prog.map LItem.toItem) (labelsFrom 0 prog)).equs e).isSome))
        = true := by
    unfold tablesOf
    simp only [lequsOf_items, List.nil_append]
    rw [List.all_eq_true]
    intro x hx
    simp only [Spec.predefined, List.mem_cons, List.not_mem_nil, or_false] at hx
    rcases hx with rfl | rfl | rfl | rfl <;>
      (simp only; rw [expandEqus_noname _ _ (by intro t ht; simp at ht; subst ht; rfl) (by simp)]; rfl)
  rw [he, lassertsOk_items, lstartFold_items]
  simp only [lmetaOf_items, Bool.false_eq_true, if_false, Bool.not_true, List.getLast?_nil, Option.map_none,
    Option.getD_none, List.map_nil]
  rfl

/-- the compiler state `compile()` assembles a labelled program with -/
def asmCL (cfg : Config) (prog : List LItem) : Compiler :=
  { cfg := cfg, values := consts cfg, labels := (labelsFrom 0 prog).map castL,
    startExpr := lstartToks prog }

theorem symC_lrender (cfg : Config) (M : Nat) (prog : List LItem)
    (hnd : ((labelsFrom 0 prog).map (·.1)).Nodup)
    (hw : ProgWF M (labelsFrom 0 prog) 0 prog) :
    symC cfg (lrender 0 prog) = asmCL cfg prog := by
  unfold symC loadSymbols
  simp only
  rw [foldl_loadSymbolsLine_lrender M (labelsFrom 0 prog) prog 0 _ hw (by simpa [loadConstants] using hnd)]
  rfl

theorem asmCL_rel {cfg : Config} {sc : Spec.Cfg} (prog : List LItem) (hv : cfg.validate = true)
    (h63 : cfg.coreSize.toNat < 2 ^ 63) (hr : CfgRel cfg sc) (hsmall : linstrCount prog < 2 ^ 63) :
    TRel (asmCL cfg prog) sc (tablesOf sc (prog.map LItem.toItem) (labelsFrom 0 prog)) where
  crel :=
    { legacy := by rw [hr.legacy]; rfl
      m := by
        show mInt cfg.coreSize = _
        rw [mInt_of_lt h63, hr.M]
      pos := by rw [hr.M]; have := validate_ge3 hv; omega
      lt := by rw [hr.M]; exact h63 }
  labels := rfl
  small := by
    intro p hp
    have := labelsFrom_lt prog 0 p hp
    omega
  vals := fun s hs => consts_get?_none cfg s hs
  equs := by
    intro s hs
    show (Spec.equsOf (prog.map LItem.toItem) ++ Spec.predefined sc).find? (·.1 == s) = none
    rw [lequsOf_items, List.nil_append]
    exact predefined_find?_none sc s hs

theorem lrender_not_comment (prog : List LItem) : ∀ k, ∀ ln ∈ lrender k prog, ln.typ ≠ .comment := by
  induction prog with
  | nil => intro k ln h; simp [lrender] at h
  | cons it r ih =>
    intro k ln h
    simp only [lrender, List.mem_cons] at h
    rcases h with rfl | h
    · cases it <;> simp [LItem.toLine]
    · exact ih _ ln h

theorem compileX_meaning_labels (lexTokens : String → List Token) (cfg : Config) (sc : Spec.Cfg)
    (prog : List LItem) (ameta : AsmMeta)
    (hv : cfg.validate = true) (h63 : cfg.coreSize.toNat < 2 ^ 63) (hr : CfgRel cfg sc)
    (hnd : ((labelsFrom 0 prog).map (·.1) ++ constNames).Nodup)
    (hsmall : linstrCount prog < 2 ^ 63)
    (hw : ProgWF sc.M (labelsFrom 0 prog) 0 prog) :
    compileX lexTokens cfg (lrender 0 prog) ameta =
      optM ((Spec.meaningFlat sc (prog.map LItem.toItem)).map (toWD ameta)) := by
  have hnd1 : ((labelsFrom 0 prog).map (·.1)).Nodup := (List.nodup_append.1 hnd).1
  have hrel := asmCL_rel prog hv h63 hr hsmall
  rw [compileX_eq, hv]
  simp only [Bool.not_true, Bool.false_eq_true, if_false]
  have hres : ∀ R, resC cfg (lrender 0 prog) R = { symC cfg (lrender 0 prog) with values := R } :=
    fun _ => rfl
  simp only [hres, symC_lrender cfg sc.M prog hnd1 hw]
  have hvals : (asmCL cfg prog).values = consts cfg := rfl
  simp only [hvals, consts_acyclic, Bool.false_eq_true, if_false,
    evaluateAssertions_none lexTokens _ _ (lrender_not_comment prog 0), consts_expand]
  show (assembleLines (asmCL cfg prog) (lrender 0 prog) #[] >>= fun code =>
    finishX cfg ameta (asmCL cfg prog) code) = _
  rw [assembleLines_lrender hrel prog 0 #[] hw (by omega), meaningFlat_litems sc prog hnd]
  simp only
  cases hcode : (codeFold sc (tablesOf sc (prog.map LItem.toItem) (labelsFrom 0 prog))
      (prog.map LItem.toItem) (some [], 0)).1 with
  | none => rfl
  | some code =>
    have hlen := lcodeFold_length sc _ prog [] 0 code hcode
    simp only [List.length_nil, Nat.zero_add] at hlen
    simp only [Option.map_some, Option.bind_some]
    show finishX cfg ameta (asmCL cfg prog) code.toArray = _
    unfold finishX
    simp only [List.size_toArray, hr.maxLen]
    split
    · rfl
    · have hst : expandExpression (asmCL cfg prog) (asmCL cfg prog).startExpr 0 >>= evalM =
          optM (Spec.evalAt sc (tablesOf sc (prog.map LItem.toItem) (labelsFrom 0 prog)) 0
            (startNT prog).etoks) := by
        have := operandM_tmpl hrel 0 (by omega) (startNT prog) (startNT_good sc.M _ prog 0 hw)
        rw [← this]
        show operandM _ (lstartToks prog) 0 = _
        rw [lstartToks_eq]
        rfl
      rw [← bind_assoc, hst]
      cases Spec.evalAt sc (tablesOf sc (prog.map LItem.toItem) (labelsFrom 0 prog)) 0
          (startNT prog).etoks with
      | none => rfl
      | some sv =>
        simp only [optM, bind, Except.bind, Option.bind_some, hlen]
        split
        · rfl
        · rename_i hneg
          have h0 : 0 ≤ sv := by
            simp only [Bool.or_eq_true, decide_eq_true_eq, not_or] at hneg
            omega
          simp only [Option.map_some, toWD, Int.toNat_of_nonneg h0]

/-- **3, with labels.** Programs whose instructions carry labels and whose operands (and ORG/END
    arguments) are templates over numbers and label names: a label stands for the offset
    `(idx - line) tmod M`, written as a signed number, on both sides.  Hypotheses: every label is
    defined once and is none of the predefined constants (the reference rejects such programs, the
    Go map silently keeps the last definition), fewer than `2^63` instructions, and `ProgWF`: ASCII
    opcode/modifier text without a dot in the opcode, no predefined constant in an operand, at most
    20000 tokens per operand, and the trees the templates stand for are precedence-well-formed
    and inside the range the `go/types.Eval` model answers on. -/
theorem compile_meaning_labels (lexTokens : String → List Token) (cfg : Config) (sc : Spec.Cfg)
    (prog : List LItem) (ameta : AsmMeta)
    (hv : cfg.validate = true) (h63 : cfg.coreSize.toNat < 2 ^ 63) (hr : CfgRel cfg sc)
    (hnd : ((labelsFrom 0 prog).map (·.1) ++ constNames).Nodup)
    (hsmall : linstrCount prog < 2 ^ 63)
    (hw : ProgWF sc.M (labelsFrom 0 prog) 0 prog) :
    compile lexTokens cfg (lrender 0 prog) ameta =
      .ok ((Spec.meaningFlat sc (prog.map LItem.toItem)).map (toWD ameta)) := by
  unfold compile
  rw [compileX_meaning_labels lexTokens cfg sc prog ameta hv h63 hr hnd hsmall hw]
  cases (Spec.meaningFlat sc (prog.map LItem.toItem)).map (toWD ameta) <;> rfl

/-! ## precedence well-formedness of a template carries over to the tree it stands for -/

def NT.prec : NT → Nat
  | .bin op _ _ => Spec.Expr.prec op
  | _ => 6

def NT.isAtom : NT → Bool
  | .num _ | .name _ | .paren _ => true
  | _ => false

/-- `WFprec` for templates: a name counts as an atom -/
def NTWF : NT → Prop
  | .num _ => True
  | .name _ => True
  | .signs _ e => e.isAtom = true ∧ NTWF e
  | .paren e => NTWF e
  | .bin op l r => isArith op ∧ NTWF l ∧ NTWF r ∧ Spec.Expr.prec op ≤ l.prec ∧ Spec.Expr.prec op < r.prec

theorem valCST_wf (v : Int) : WFprec (valCST v) ∧ (valCST v).prec = 6 := by
  unfold valCST
  split
  · exact ⟨⟨rfl, trivial⟩, rfl⟩
  · exact ⟨trivial, rfl⟩

theorem mkSigns_valCST_wf (ss : List Bool) (v : Int) : WFprec (mkSigns ss (valCST v)) := by
  unfold valCST
  split
  · exact ⟨rfl, trivial⟩
  · exact ⟨rfl, trivial⟩

theorem mkSigns_prec (ss : List Bool) (c : CST) : (mkSigns ss c).prec = 6 := by
  cases c <;> rfl

theorem wfprec_inst (σ : String → Option Int) (e : NT) (hw : NTWF e) :
    ∀ x, e.inst σ = some x → WFprec x ∧ x.prec = e.prec := by
  induction e with
  | num n => intro x hx; cases hx; exact ⟨trivial, rfl⟩
  | name s =>
    intro x hx
    simp only [NT.inst] at hx
    cases hs : σ s with
    | none => rw [hs] at hx; cases hx
    | some v => rw [hs] at hx; cases hx; exact valCST_wf v
  | paren e ih =>
    intro x hx
    simp only [NT.inst] at hx
    cases he : e.inst σ with
    | none => rw [he] at hx; cases hx
    | some y =>
      rw [he] at hx; cases hx
      exact ⟨(ih hw y he).1, rfl⟩
  | signs ss e ih =>
    intro x hx
    simp only [NT.inst] at hx
    cases he : e.inst σ with
    | none => rw [he] at hx; cases hx
    | some y =>
      rw [he] at hx; cases hx
      refine ⟨?_, mkSigns_prec ss y⟩
      obtain ⟨hat, hwe⟩ := hw
      cases e with
      | num n => cases he; exact ⟨rfl, trivial⟩
      | name s =>
        simp only [NT.inst] at he
        cases hs : σ s with
        | none => rw [hs] at he; cases he
        | some v => rw [hs] at he; cases he; exact mkSigns_valCST_wf ss v
      | paren e' =>
        simp only [NT.inst] at he
        cases he' : e'.inst σ with
        | none => rw [he'] at he; cases he
        | some z =>
          rw [he'] at he; cases he
          exact ⟨rfl, (ih hwe _ (by simp [NT.inst, he'])).1⟩
      | signs ss' e' => cases hat
      | bin op l r => cases hat
  | bin op l r ihl ihr =>
    intro x hx
    simp only [NT.inst] at hx
    cases hl : l.inst σ with
    | none => rw [hl] at hx; cases hx
    | some a =>
      cases hr : r.inst σ with
      | none => rw [hl, hr] at hx; cases hx
      | some b =>
        rw [hl, hr] at hx; cases hx
        obtain ⟨hop, hwl, hwr, hpl, hpr⟩ := hw
        obtain ⟨h1, h2⟩ := ihl hwl a hl
        obtain ⟨h3, h4⟩ := ihr hwr b hr
        exact ⟨⟨hop, h1, h3, by rw [h2]; exact hpl, by rw [h4]; exact hpr⟩, rfl⟩

/-- `GoodTmpl` from a syntactic check of the template plus the range condition -/
theorem GoodTmpl.of_ntwf {σ : String → Option Int} {consts : List String} {e : NT}
    (hn : ∀ s ∈ e.names, s ∉ consts) (hlen : e.etoks.length ≤ 20000) (hw : NTWF e)
    (hb : ∀ x, e.inst σ = some x → NoBigLit x) : GoodTmpl σ consts e :=
  ⟨hn, hlen, fun x hx => ⟨(wfprec_inst σ e hw x hx).1, hb x hx⟩⟩

end Gmars.AsmLine
