/-
  C09, assembler half: THE ASSEMBLER READS EVERY LAYOUT VARIATION OF A PRINTED LOAD FILE BACK
  EXACTLY.

  `LoadLayout.Layout` (the perturbations of `LoadLayout.load_print_any_layout`: a letter-case mask
  per mnemonic / `ORG` / `END` word, arbitrary gaps of blanks, tabs, VT, FF, CR between the fields,
  an optional trailing `;comment` on every line, LF or CR-LF, any number of blank, white-space-only
  and comment lines before, between and after the lines, the final newline present or missing) is
  related to the assembler directly:

      text --Lex.tokens--> tokens        `tokens_render`      (AsmLayoutLex / AsmLayoutText)
           --scan loop---> tokens        `assemble_stages_noEqu`
           --parse-------> source lines  `parse_yprog`        (AsmLayoutParse: trailing comments,
                                                               unterminated last line)
           --compile-----> warrior       `compileX_congr_strip`, `compileX_meaning_labels`,
                                         `meaningFlat_progR`  (AsmLayoutCompile / AsmLayoutMeaning)

    * `asm_print_any_layout`            the assembler on every layout of the printed warrior
    * `both_readers_agree_any_layout`   `parseLoadFile` and `assemble` read the same code and start
-/
import Gmars.Proofs.AsmLayoutMeaning
import Gmars.Proofs.AsmCompose

namespace Gmars
namespace AsmLayout
open Gmars.Render Gmars.AsmCompose Gmars.AsmLine Gmars.ExprProofs Gmars.AsmPrint
open Gmars.LoadLayout (Layout InstrLay DirLay Filler)
open Gmars.AsmCompose (XItem)

/-! ### plain filler lines -/

/-- the filler line is neither a metadata comment (`;name`, `;author`, `;strategy`; for the
    assembler also when indented) nor an assertion (`;assert`) -/
def fillerPlain : Filler → Prop
  | .blank _ => True
  | .comment _ text => plainCmt (String.ofList (';' :: text)) = true

/-- no filler line the assembler reads is a metadata or assertion comment (what follows `END`
    under '88 is not read) -/
structure AsmPlain (L : Layout) (legacy : Bool) : Prop where
  dirPre : ∀ f ∈ L.dir.pre, fillerPlain f
  lines : ∀ p ∈ L.lines, ∀ f ∈ p.pre, fillerPlain f
  post : legacy = false → ∀ f ∈ L.post, fillerPlain f

/-! ### the lines of a layout are well-formed and denote `progR` -/

theorem fillerLines_ok (fs : List Filler) (h : ∀ f ∈ fs, fillerPlain f) : ∀ l ∈ fillerLines fs, l.OK := by
  intro l hl
  simp only [fillerLines, List.mem_map] at hl
  obtain ⟨f, hf, rfl⟩ := hl
  cases f with
  | blank ws => trivial
  | comment ws text => exact h _ hf

theorem instrLine_ok (legacy : Bool) (p : InstrLay) : (instrLine legacy p).OK := by
  show IsOpName (opString (opR p.mask p.instr) (mdR legacy p.mask p.instr))
  rw [← opWordR_eq]
  exact isOpName_opWordR legacy p.mask p.instr

theorem instrLines_ok (legacy : Bool) (ps : List InstrLay) (h : ∀ p ∈ ps, ∀ f ∈ p.pre, fillerPlain f) :
    ∀ l ∈ ps.flatMap (instrLines legacy), l.OK := by
  intro l hl
  simp only [List.mem_flatMap, instrLines, List.mem_append, List.mem_singleton] at hl
  obtain ⟨p, hp, hl | rfl⟩ := hl
  · exact fillerLines_ok p.pre (h p hp) l hl
  · exact instrLine_ok legacy p

theorem flItems_fillerLines (fs : List Filler) : flItems (fillerLines fs) = [] := by
  induction fs with
  | nil => rfl
  | cons f r ih =>
    cases f <;> simpa [fillerLines, flItems, fillerLine, FLine.litems] using ih

theorem flItems_instrLines (legacy : Bool) (ps : List InstrLay) :
    flItems (ps.flatMap (instrLines legacy)) = ps.map (LIR legacy) := by
  induction ps with
  | nil => rfl
  | cons p r ih =>
    simp only [List.flatMap_cons, instrLines, flItems_append, flItems_fillerLines, List.nil_append, ih,
      List.map_cons]
    rfl

/-! ### text tokens: no `for`, no `equ` -/

/-- the text tokens of the line are an opcode or `ORG` / `END` -/
def FLine.TextOK : FLine → Prop
  | .instr op md _ _ => IsOpName (opString op md)
  | .dir kw _ _ => lowerStr kw = "org" ∨ lowerStr kw = "end"
  | _ => True

theorem textIn_cmtToks (c : Option String) : TextIn notForEqu (cmtToks c) := by
  intro t ht h
  cases c with
  | none => cases ht
  | some v =>
    simp only [cmtToks, List.mem_cons, List.not_mem_nil, or_false] at ht
    subst ht; cases h

theorem FLine.textIn0 {l : FLine} (h : l.TextOK) : TextIn notForEqu l.tokens0 := by
  cases l with
  | blank => exact TextIn.nil
  | cmt v =>
    intro t ht hh
    simp only [FLine.tokens0, List.mem_cons, List.not_mem_nil, or_false] at ht
    subst ht; cases hh
  | instr op md i c =>
    refine TextIn.append ?_ (textIn_cmtToks c)
    intro t ht hh
    simp only [instrToks, List.mem_cons, List.not_mem_nil, or_false] at ht
    rcases ht with rfl | rfl | rfl | rfl | rfl | rfl
    · exact notForEqu_op h
    all_goals cases hh
  | dir kw n c =>
    refine TextIn.append ?_ (textIn_cmtToks c)
    intro t ht hh
    simp only [List.mem_cons, List.not_mem_nil, or_false] at ht
    rcases ht with rfl | rfl
    · exact notForEqu_kw h
    · cases hh

theorem textIn_nl : TextIn notForEqu [nlTok] := by
  intro t ht hh
  simp only [List.mem_singleton] at ht
  subst ht; cases hh

theorem FLine.textIn {l : FLine} (h : l.TextOK) : TextIn notForEqu l.tokens :=
  TextIn.append (FLine.textIn0 h) textIn_nl

theorem textIn_flTokens (ls : List FLine) (h : ∀ l ∈ ls, l.TextOK) : TextIn notForEqu (flTokens ls) := by
  induction ls with
  | nil => exact TextIn.nil
  | cons l r ih =>
    exact TextIn.append (FLine.textIn (h l (by simp))) (ih (fun x hx => h x (by simp [hx])))

theorem textIn_flTokensNL (ls : List FLine) (h : ∀ l ∈ ls, l.TextOK) (nl : Bool) :
    TextIn notForEqu (flTokensNL ls nl) := by
  induction ls with
  | nil => exact TextIn.nil
  | cons l r ih =>
    cases r with
    | nil =>
      cases nl
      · exact FLine.textIn0 (h l (by simp))
      · exact TextIn.append (FLine.textIn (h l (by simp))) TextIn.nil
    | cons l' r' =>
      rw [flTokensNL_cons_cons]
      exact TextIn.append (FLine.textIn (h l (by simp))) (ih (fun x hx => h x (by simp [hx])))

theorem FLine.OK.textOK {l : FLine} (h : l.OK) : l.TextOK := by
  cases l with
  | blank => trivial
  | cmt v => trivial
  | instr op md i c => exact h
  | dir kw n c => exact Or.inl h

theorem fillerLines_textOK (fs : List Filler) : ∀ l ∈ fillerLines fs, l.TextOK := by
  intro l hl
  simp only [fillerLines, List.mem_map] at hl
  obtain ⟨f, _, rfl⟩ := hl
  cases f <;> trivial

/-! ### parser and compiler on the lines -/

theorem norm_strip_append (a b : List SourceLine) :
    norm ((a ++ b).map strip) = norm (a.map strip) ++ norm (b.map strip) := by
  rw [List.map_append, norm_append]

/-- parser and compiler stage on a packed program: `ls` are the lines in front of the end `fin`,
    `finItems` the label-program items of the end -/
theorem parseCompile_lines (cfg : Config) (ls : List FLine) (hOK : ∀ l ∈ ls, l.OK) (fin : YFin)
    (hfin : fin.OK) (hrefs : ∀ refs, fin.refs refs = refs) (hmeta : ∀ m, fin.metadata m = m)
    (finItems : List LItem)
    (hfl : ∀ ln, norm ((fin.lines ln ((linstrCount (flItems ls) : Nat) : Int)).map strip) =
      norm (lrender (linstrCount (flItems ls)) finItems))
    (r : Option WarriorData)
    (hc : Compile.compileX lexString cfg (lrender 0 (flItems ls ++ finItems)) {} = Compile.optM r) :
    parseCompile cfg (YProg.tokens ⟨(pack ls).1, (pack ls).2, fin⟩) = resOf r := by
  have hp : (YProg.mk (pack ls).1 (pack ls).2 fin).OK := by
    refine ⟨pack_ok ls hOK, ?_, ?_, ?_, hfin⟩
    · show (yitemsLabels (pack ls).2).Nodup
      rw [pack_labels]; exact List.nodup_nil
    · intro l hl
      have : l ∈ yitemsLabels (pack ls).2 := hl
      rw [pack_labels] at this; cases this
    · intro x hx
      have : x ∈ fin.refs (yitemsRefs (pack ls).2 []) := hx
      rw [hrefs, pack_refs] at this; cases this
  have hparse := parse_yprog _ hp
  have hm : (YProg.mk (pack ls).1 (pack ls).2 fin).metadata = {} := by
    show fin.metadata (yitemsMeta (pack ls).2 {}) = {}
    rw [hmeta, pack_meta ls hOK {}]
  rw [hm] at hparse
  refine parseCompile_of cfg _ _ _ hparse r ?_
  rw [← hc]
  apply compileX_congr_strip
  obtain ⟨h1, h2⟩ := pack_norm ls hOK ((1 : Int) + ((pack ls).1 : Nat)) 0
  have h2' : yitemsEndCode (pack ls).2 0 = ((linstrCount (flItems ls) : Nat) : Int) := by
    have := h2; simp only [Nat.zero_add] at this; exact this
  simp only [YProg.lines, norm_strip_append, norm_strip_blankLines, List.nil_append]
  rw [lrender_append, norm_append, h2', hfl, Nat.zero_add]
  congr 1

theorem norm_fin_end (kw : String) (n : Nat) (cm : Option String) (trail : List Token) (ln cl : Int)
    (k : Nat) :
    norm (((YFin.end_ kw [numTok n] cm trail).lines ln cl).map strip) =
      norm (lrender k [LItem.end_ kw (some (.num n))]) := by
  cases cm <;> rfl

/-! ### an unterminated last line -/

/-- the last line, without its newline, as the end of the token stream -/
def finOf : FLine → YFin
  | .blank => .eof
  | .cmt v => .cmtU v
  | .instr op md i c => .stmtU (mkStmt op md i 0) c
  | .dir kw n c => .endU kw [numTok n] c

/-- the label-program items of an unterminated last line (a directive there is the END line) -/
def finItemsOf : FLine → List LItem
  | .instr op md i _ => [LIof op md i]
  | .dir kw n _ => [.end_ kw (some (.num n))]
  | _ => []

/-- well-formed last line: as `FLine.OK`, but a directive is an END -/
def FLine.LastOK : FLine → Prop
  | .blank => True
  | .cmt v => plainCmt v = true
  | .instr op md _ _ => IsOpName (opString op md)
  | .dir kw _ _ => lowerStr kw = "end"

theorem finOf_tokens (l : FLine) : (finOf l).tokens = l.tokens0 ++ [Render.eofTok] := by
  cases l with
  | blank => rfl
  | cmt v => rfl
  | instr op md i c =>
    simp [finOf, YFin.tokens, FLine.tokens0, mkStmt, mkOperand, Operand.tokens, Stmt.bTokens, instrToks,
      modeTok]
  | dir kw n c => simp [finOf, YFin.tokens, FLine.tokens0]

/-- parser and compiler stage when the last line `last` is not terminated -/
theorem parseCompile_linesU (cfg : Config) (ls : List FLine) (hOK : ∀ l ∈ ls, l.OK) (last : FLine)
    (hlast : last.LastOK) (r : Option WarriorData)
    (hc : Compile.compileX lexString cfg (lrender 0 (flItems ls ++ finItemsOf last)) {} = Compile.optM r) :
    parseCompile cfg (flTokens ls ++ (last.tokens0 ++ [Lex.eofTok])) = resOf r := by
  have e : flTokens ls ++ (last.tokens0 ++ [Lex.eofTok]) =
      YProg.tokens ⟨(pack ls).1, (pack ls).2, finOf last⟩ := by
    simp only [YProg.tokens, pack_tokens ls, List.append_assoc, finOf_tokens]
    rfl
  rw [e]
  refine parseCompile_lines cfg ls hOK (finOf last) ?_ ?_ ?_ (finItemsOf last) ?_ r hc
  · cases last with
    | blank => trivial
    | cmt v => trivial
    | instr op md i c => exact ⟨mkStmt_ok hlast i 0, rfl, _, rfl⟩
    | dir kw n c => exact ⟨hlast, fun t ht => by simp at ht; subst ht; rfl, by simp⟩
  · intro refs; cases last <;> rfl
  · intro m
    cases last with
    | cmt v => exact captureMeta_plain hlast m
    | blank => rfl
    | instr op md i c => rfl
    | dir kw n c => rfl
  · intro ln
    cases last with
    | blank => rfl
    | cmt v =>
      show norm ([({ line := ln, typ := .comment, comment := v } : SourceLine)].map strip) = []
      rw [List.map_cons, norm_cons_irrelevant _ _ (by
        simp only [relevant, strip, beq_self_eq_true, if_true]
        rw [assert_plain hlast]; rfl)]
      rfl
    | instr op md i c => cases c <;> rfl
    | dir kw n c => cases c <;> rfl

/-! ### the compiler stage on the program of a layout -/

theorem compile_progR (cfg : Config) (L : Layout) (start : Nat)
    (hv : cfg.validate = true) (hM : cfg.coreSize.toNat < 2 ^ 63)
    (hf : ∀ p ∈ L.lines, p.instr.a.toNat < cfg.coreSize.toNat ∧ p.instr.b.toNat < cfg.coreSize.toNat)
    (h31 : ∀ p ∈ L.lines, p.instr.a.toNat < 2 ^ 31 ∧ p.instr.b.toNat < 2 ^ 31) (hs31 : start < 2 ^ 31)
    (hstart : start < L.lines.length) (hlen : L.lines.length ≤ cfg.length.toNat)
    (hl : (cfg.mode == .icws88) = true → ∀ p ∈ L.lines, Spec.Legal88 p.instr = true) :
    Compile.compileX lexString cfg (lrender 0 (progR (cfg.mode == .icws88) L start)) {} =
      Compile.optM (some { name := "", author := "", strategy := "",
                           code := (L.lines.map (·.instr)).toArray, start := (start : Int) }) := by
  have hlc := validate_length_le hv
  have hmf := meaningFlat_progR (specCfg cfg) L start hf h31 hs31 hstart hlen hl
  rw [compileX_meaning_labels lexString cfg (specCfg cfg) (progR (cfg.mode == .icws88) L start) {} hv hM
    (specCfg_rel cfg) (by rw [progR_labelsFrom]; decide) (by rw [progR_count]; omega)
    (progR_progWF _ _ L start (by omega))]
  have hmf' : Spec.meaningFlat (specCfg cfg) ((progR (cfg.mode == .icws88) L start).map LItem.toItem) =
      some { code := L.lines.map (·.instr), start := start } := hmf
  rw [hmf']
  rfl

/-! ### the lines of the two dialects -/

theorem dirLine_org_ok (d : DirLay) (n : Nat) : (dirLine d "ORG" n).OK := lowerStr_orgR d.mask

theorem flines94_ok (L : Layout) (start : Nat) (hp : AsmPlain L false) :
    ∀ l ∈ flines94 L start, l.OK := by
  intro l hl
  simp only [flines94, List.mem_append, List.mem_cons] at hl
  rcases hl with hl | rfl | hl | hl
  · exact fillerLines_ok _ hp.dirPre l hl
  · exact dirLine_org_ok _ _
  · exact instrLines_ok false _ hp.lines l hl
  · exact fillerLines_ok _ (hp.post rfl) l hl

theorem flItems_flines94 (L : Layout) (start : Nat) :
    flItems (flines94 L start) = progR false L start := by
  simp only [flines94, flItems_append, flItems_fillerLines, List.nil_append, flItems, dirLine,
    FLine.litems, flItems_instrLines, List.append_nil, List.singleton_append, progR, Bool.false_eq_true,
    if_false]

theorem fbody88_ok (L : Layout) (hp : AsmPlain L true) : ∀ l ∈ fbody88 L, l.OK := by
  intro l hl
  simp only [fbody88, List.mem_append] at hl
  rcases hl with hl | hl
  · exact instrLines_ok true _ hp.lines l hl
  · exact fillerLines_ok _ hp.dirPre l hl

theorem flItems_fbody88 (L : Layout) : flItems (fbody88 L) = L.lines.map (LIR true) := by
  simp only [fbody88, flItems_append, flItems_fillerLines, flItems_instrLines, List.append_nil]

/-- the lines of a layout have no `for` and no `equ` among their words -/
theorem flines_textOK (L : Layout) (legacy : Bool) (start : Nat) :
    ∀ l ∈ flinesOf L legacy start, l.TextOK := by
  have hi : ∀ lg, ∀ l ∈ L.lines.flatMap (instrLines lg), l.TextOK := by
    intro lg l hl
    simp only [List.mem_flatMap, instrLines, List.mem_append, List.mem_singleton] at hl
    obtain ⟨p, _, hl | rfl⟩ := hl
    · exact fillerLines_textOK _ l hl
    · exact (instrLine_ok lg p).textOK
  intro l hl
  cases legacy
  · simp only [flinesOf, Bool.false_eq_true, if_false, flines94, List.mem_append, List.mem_cons] at hl
    rcases hl with hl | rfl | hl | hl
    · exact fillerLines_textOK _ l hl
    · exact Or.inl (lowerStr_orgR _)
    · exact hi false l hl
    · exact fillerLines_textOK _ l hl
  · simp only [flinesOf, if_true, flines88, fbody88, List.mem_append, List.mem_cons] at hl
    rcases hl with (hl | hl) | rfl | hl
    · exact hi true l hl
    · exact fillerLines_textOK _ l hl
    · exact Or.inr (lowerStr_endR _)
    · exact fillerLines_textOK _ l hl

/-! ### the two dialects, with and without the final newline -/

theorem fillerLine_lastOK (f : Filler) (h : fillerPlain f) : (fillerLine f).LastOK := by
  cases f with
  | blank ws => trivial
  | comment ws text => exact h

/-- '94: parser and compiler on the token stream of the layout -/
theorem parseCompile94 (cfg : Config) (L : Layout) (start : Nat) (hplain : AsmPlain L false)
    (hne : L.lines ≠ []) (r : Option WarriorData)
    (hc : Compile.compileX lexString cfg (lrender 0 (progR false L start)) {} = Compile.optM r)
    (nl : Bool) :
    parseCompile cfg (flTokensNL (flines94 L start) nl ++ [Lex.eofTok]) = resOf r := by
  cases nl with
  | true =>
    have e : flTokensNL (flines94 L start) true ++ [Lex.eofTok] =
        YProg.tokens ⟨(pack (flines94 L start)).1, (pack (flines94 L start)).2, .eof⟩ := by
      simp only [flTokensNL_true, YProg.tokens, YFin.tokens, pack_tokens (flines94 L start),
        List.append_assoc]
      rfl
    rw [e]
    exact parseCompile_lines cfg (flines94 L start) (flines94_ok L start hplain) .eof trivial
      (fun _ => rfl) (fun _ => rfl) [] (fun _ => rfl) r
      (by rw [List.append_nil, flItems_flines94]; exact hc)
  | false =>
    obtain ⟨dir, lines, post, fnl⟩ := L
    simp only at hne
    rcases List.eq_nil_or_concat post with hp | ⟨post', f, hp⟩
    · -- the last line is the last instruction
      subst hp
      obtain ⟨ps, plast, rfl⟩ : ∃ ps plast, lines = ps ++ [plast] :=
        ⟨_, _, (List.dropLast_concat_getLast hne).symm⟩
      have hsplit : flines94 ⟨dir, ps ++ [plast], [], fnl⟩ start =
          (fillerLines dir.pre ++ dirLine dir "ORG" start ::
            (ps.flatMap (instrLines false) ++ fillerLines plast.pre)) ++ [instrLine false plast] := by
        simp [flines94, fillerLines, instrLines, List.flatMap_append]
      rw [hsplit, flTokensNL_concat, List.append_assoc]
      refine parseCompile_linesU cfg _ ?_ (instrLine false plast) (instrLine_ok false plast) r ?_
      · intro l hl
        simp only [List.mem_append, List.mem_cons] at hl
        rcases hl with hl | rfl | hl | hl
        · exact fillerLines_ok _ hplain.dirPre l hl
        · exact dirLine_org_ok _ _
        · exact instrLines_ok false _ (fun p hp => hplain.lines p (by simp [hp])) l hl
        · exact fillerLines_ok _ (hplain.lines plast (by simp)) l hl
      · have : flItems ((fillerLines dir.pre ++ dirLine dir "ORG" start ::
            (ps.flatMap (instrLines false) ++ fillerLines plast.pre))) ++
            finItemsOf (instrLine false plast) = progR false ⟨dir, ps ++ [plast], [], fnl⟩ start := by
          simp only [flItems_append, flItems_fillerLines, List.nil_append, flItems, dirLine,
            FLine.litems, flItems_instrLines, List.append_nil, progR,
            Bool.false_eq_true, if_false, finItemsOf, instrLine, List.map_append, List.map_cons,
            List.map_nil, LIR, List.cons_append]
        rw [this]; exact hc
    · -- the last line is a filler line
      rw [List.concat_eq_append] at hp
      subst hp
      have hsplit : flines94 ⟨dir, lines, post' ++ [f], fnl⟩ start =
          (fillerLines dir.pre ++ dirLine dir "ORG" start ::
            (lines.flatMap (instrLines false) ++ fillerLines post')) ++ [fillerLine f] := by
        simp [flines94, fillerLines]
      rw [hsplit, flTokensNL_concat, List.append_assoc]
      refine parseCompile_linesU cfg _ ?_ (fillerLine f)
        (fillerLine_lastOK f (hplain.post rfl f (by simp))) r ?_
      · intro l hl
        simp only [List.mem_append, List.mem_cons] at hl
        rcases hl with hl | rfl | hl | hl
        · exact fillerLines_ok _ hplain.dirPre l hl
        · exact dirLine_org_ok _ _
        · exact instrLines_ok false _ hplain.lines l hl
        · exact fillerLines_ok _ (fun g hg => hplain.post rfl g (by simp [hg])) l hl
      · have : flItems ((fillerLines dir.pre ++ dirLine dir "ORG" start ::
            (lines.flatMap (instrLines false) ++ fillerLines post'))) ++
            finItemsOf (fillerLine f) = progR false ⟨dir, lines, post' ++ [f], fnl⟩ start := by
          have hf : finItemsOf (fillerLine f) = [] := by cases f <;> rfl
          simp only [flItems_append, flItems_fillerLines, List.nil_append, flItems, dirLine,
            FLine.litems, flItems_instrLines, List.append_nil, List.singleton_append, progR,
            Bool.false_eq_true, if_false, hf]
        rw [this]; exact hc

/-- '88 with a terminated END line: whatever tokens `trail` follow it -/
theorem parseCompile88_trail (cfg : Config) (L : Layout) (start : Nat) (hplain : AsmPlain L true)
    (r : Option WarriorData)
    (hc : Compile.compileX lexString cfg (lrender 0 (progR true L start)) {} = Compile.optM r)
    (trail : List Token) :
    parseCompile cfg (flTokens (fbody88 L) ++ ((dirLine L.dir "END" start).tokens ++ (trail ++ [Lex.eofTok]))) =
      resOf r := by
  have e : flTokens (fbody88 L) ++ ((dirLine L.dir "END" start).tokens ++ (trail ++ [Lex.eofTok])) =
      YProg.tokens ⟨(pack (fbody88 L)).1, (pack (fbody88 L)).2,
        .end_ (recaseS L.dir.mask "END") [numTok start] (trailCmt L.dir.trail)
          (trail ++ [Render.eofTok])⟩ := by
    simp only [YProg.tokens, YFin.tokens, pack_tokens (fbody88 L), List.append_assoc, dirLine,
      FLine.tokens, FLine.tokens0, List.cons_append, List.nil_append]
    rfl
  have hfin : (YFin.end_ (recaseS L.dir.mask "END") [numTok start] (trailCmt L.dir.trail)
      (trail ++ [Render.eofTok])).OK :=
    ⟨lowerStr_endR _, fun t ht => by simp at ht; subst ht; rfl, by simp, fun _ => by simp⟩
  rw [e]
  exact parseCompile_lines cfg (fbody88 L) (fbody88_ok L hplain) _ hfin
    (fun _ => rfl) (fun _ => rfl) [LItem.end_ (recaseS L.dir.mask "END") (some (.num start))]
    (fun ln => norm_fin_end _ _ _ _ ln _ _) r
    (by rw [flItems_fbody88]; exact hc)

/-- '88: parser and compiler on the token stream of the layout -/
theorem parseCompile88 (cfg : Config) (L : Layout) (start : Nat) (hplain : AsmPlain L true)
    (r : Option WarriorData)
    (hc : Compile.compileX lexString cfg (lrender 0 (progR true L start)) {} = Compile.optM r)
    (nl : Bool) :
    parseCompile cfg (flTokensNL (flines88 L start) nl ++ [Lex.eofTok]) = resOf r := by
  cases hpost : fillerLines L.post with
  | nil =>
    cases nl with
    | true =>
      have := parseCompile88_trail cfg L start hplain r hc []
      simpa [flines88, hpost, flTokensNL_true, flTokens_append, flTokens] using this
    | false =>
      have hsplit : flines88 L start = fbody88 L ++ [dirLine L.dir "END" start] := by
        simp [flines88, hpost]
      rw [hsplit, flTokensNL_concat, List.append_assoc]
      refine parseCompile_linesU cfg _ (fbody88_ok L hplain) (dirLine L.dir "END" start) (lowerStr_endR _) r ?_
      have : flItems (fbody88 L) ++ finItemsOf (dirLine L.dir "END" start) = progR true L start := by
        simp only [flItems_fbody88, finItemsOf, dirLine, progR, if_true]
      rw [this]; exact hc
  | cons y ys =>
    have := parseCompile88_trail cfg L start hplain r hc (flTokensNL (y :: ys) nl)
    have e : flTokensNL (flines88 L start) nl =
        flTokens (fbody88 L) ++ ((dirLine L.dir "END" start).tokens ++ flTokensNL (y :: ys) nl) := by
      rw [flines88, hpost, flTokensNL_append _ _ (by simp), flTokensNL_cons_cons]
    rw [e]
    simpa [List.append_assoc] using this

/-! ## the theorems -/

/-- **`asm_print_any_layout`** (C09, assembler half, every layout).

    For every warrior (fields below the core size and below 2^31, entry point below its length and
    below 2^31, `Legal88` under '88, no longer than the maximum length, valid configuration, core
    size below 2^63) and EVERY layout perturbation `L` of its canonical printing
    (`LoadLayout.render_canonical`: the trivial layout is `Spec.printLoad`) —

      * each mnemonic(.modifier) / `ORG` / `END` word in any mixture of upper and lower case,
      * arbitrary runs of blanks, tabs, VT, FF and CR before, between and after the fields (only
        the gap between `ORG` / `END` and the number must not be empty; `MOV.I$1,$2` is fine),
      * an optional trailing `;comment` (any characters but LF) on every line, LF or CR-LF,
      * any number of blank, white-space-only, comment and indented comment lines before, between
        and after the lines (none of them starting with `;name`, `;author`, `;strategy`,
        `;assert`; after `END` anything goes),
      * with or without a newline after the last line —

    `CompileWarrior` returns exactly the instructions and the entry point, with empty metadata.
    `src` is any byte string the Go reader decodes to the text. -/
theorem asm_print_any_layout (cfg : Config) (L : Layout) (start : Nat)
    (hok : AsmOK L) (hplain : AsmPlain L (cfg.mode == .icws88))
    (hv : cfg.validate = true) (hM : cfg.coreSize.toNat < 2 ^ 63)
    (hf : ∀ p ∈ L.lines, p.instr.a.toNat < cfg.coreSize.toNat ∧ p.instr.b.toNat < cfg.coreSize.toNat)
    (h31 : ∀ p ∈ L.lines, p.instr.a.toNat < 2 ^ 31 ∧ p.instr.b.toNat < 2 ^ 31) (hs31 : start < 2 ^ 31)
    (hstart : start < L.lines.length) (hlen : L.lines.length ≤ cfg.length.toNat)
    (hl : (cfg.mode == .icws88) = true → ∀ p ∈ L.lines, Spec.Legal88 p.instr = true)
    (src : List UInt8) (hsrc : decodeRunes src = L.render (cfg.mode == .icws88) start) :
    assemble cfg src =
      .ok { name := "", author := "", strategy := "", code := (L.lines.map (·.instr)).toArray,
            start := (start : Int) } := by
  have htok : lexBytes src =
      flTokensNL (flinesOf L (cfg.mode == .icws88) start) L.finalNewline ++ [Lex.eofTok] := by
    unfold lexBytes; rw [hsrc, tokens_render L _ start hok]
  have hti : TextIn notForEqu (lexBytes src) := by
    rw [htok]
    refine TextIn.append (textIn_flTokensNL _ (flines_textOK L _ start) _) ?_
    intro t ht hh
    simp only [List.mem_singleton] at ht
    subst ht; cases hh
  rw [assemble_stages_noEqu cfg src (noForTok_of_textIn hti) (noEquTok_of_textIn hti), htok]
  have hc := compile_progR cfg L start hv hM hf h31 hs31 hstart hlen hl
  have hne : L.lines ≠ [] := by
    intro h; rw [h] at hstart; simp at hstart
  generalize hleg : (cfg.mode == .icws88) = legacy at *
  cases legacy
  · simp only [flinesOf, Bool.false_eq_true, if_false]
    rw [parseCompile94 cfg L start hplain hne _ hc]
    rfl
  · simp only [flinesOf, if_true]
    rw [parseCompile88 cfg L start hplain _ hc]
    rfl

/-- `asm_print_any_layout` on the UTF-8 encoding of the text (comments may contain any
    characters) -/
theorem asm_print_any_layout_utf8 (cfg : Config) (L : Layout) (start : Nat)
    (hok : AsmOK L) (hplain : AsmPlain L (cfg.mode == .icws88))
    (hv : cfg.validate = true) (hM : cfg.coreSize.toNat < 2 ^ 63)
    (hf : ∀ p ∈ L.lines, p.instr.a.toNat < cfg.coreSize.toNat ∧ p.instr.b.toNat < cfg.coreSize.toNat)
    (h31 : ∀ p ∈ L.lines, p.instr.a.toNat < 2 ^ 31 ∧ p.instr.b.toNat < 2 ^ 31) (hs31 : start < 2 ^ 31)
    (hstart : start < L.lines.length) (hlen : L.lines.length ≤ cfg.length.toNat)
    (hl : (cfg.mode == .icws88) = true → ∀ p ∈ L.lines, Spec.Legal88 p.instr = true) :
    assemble cfg (String.ofList (L.render (cfg.mode == .icws88) start)).toUTF8.data.toList =
      .ok { name := "", author := "", strategy := "", code := (L.lines.map (·.instr)).toArray,
            start := (start : Int) } :=
  asm_print_any_layout cfg L start hok hplain hv hM hf h31 hs31 hstart hlen hl _
    (decodeRunes_toUTF8 _)

/-- the layouts of the loader theorem are layouts of the assembler theorem: `Layout.ok` (gaps of
    ASCII white space, those between mnemonic / mode / number not empty, fields below the core
    size, `Legal88` under '88) implies `AsmOK` and the hypotheses on the fields -/
theorem hyps_of_ok {L : Layout} {cfg : Config} (hok : L.ok cfg.coreSize (cfg.mode == .icws88)) :
    AsmOK L ∧
    (∀ p ∈ L.lines, p.instr.a.toNat < cfg.coreSize.toNat ∧ p.instr.b.toNat < cfg.coreSize.toNat) ∧
    ((cfg.mode == .icws88) = true → ∀ p ∈ L.lines, Spec.Legal88 p.instr = true) := by
  refine ⟨AsmOK.of_ok hok, ?_, ?_⟩
  · intro p hp
    obtain ⟨_, _, h⟩ := hok.lines p hp
    exact ⟨UInt64.lt_iff_toNat_lt.mp h.a_lt, UInt64.lt_iff_toNat_lt.mp h.b_lt⟩
  · intro hleg p hp
    exact (hok.lines p hp).2.2.legal hleg

/-- **`both_readers_agree_any_layout`** — the two halves of C09 combined: on every layout text
    the load-file reader `parseLoadFile` and the assembler `CompileWarrior` return the same
    instructions and the same entry point (those of the printed warrior).

    The common family is the WHOLE family `LoadLayout.Layout` of `load_print_any_layout` (case
    masks, gaps of blanks / tabs / VT / FF / CR with the gaps mnemonic–mode and mode–number not
    empty, trailing comments, LF or CR-LF, blank / white-space-only / comment / indented comment
    filler lines anywhere, with or without the final newline) restricted by
      * `hplain`  no filler line in front of `END` starts, after optional white space, with
                  `;name`, `;author`, `;strategy` or `;assert` (the assembler takes the first
                  three for metadata even when indented, and evaluates the fourth),
      * `h31`, `hlen`  the assembler's own limits: fields below 2^31 (`AsmPrint.asm_print_big`),
                  at most `cfg.length` instructions; `hv` the configuration is valid.
    The loader's hypotheses `hok`, `hM`, `hstart`, `hs31` are those of `load_print_any_layout_meta`
    (no `Layout.plain`: the loader's metadata may differ, code and entry point do not). -/
theorem both_readers_agree_any_layout (cfg : Config) (L : Layout) (start : Nat)
    (hok : L.ok cfg.coreSize (cfg.mode == .icws88)) (hplain : AsmPlain L (cfg.mode == .icws88))
    (hv : cfg.validate = true) (hM : cfg.coreSize.toNat < 2 ^ 63)
    (h31 : ∀ p ∈ L.lines, p.instr.a.toNat < 2 ^ 31 ∧ p.instr.b.toNat < 2 ^ 31) (hs31 : start < 2 ^ 31)
    (hstart : start < L.lines.length) (hlen : L.lines.length ≤ cfg.length.toNat)
    (src : List UInt8) (hsrc : decodeRunes src = L.render (cfg.mode == .icws88) start) :
    ∃ (w : WarriorData) (a : WarriorData),
      parseLoadFile cfg (L.render (cfg.mode == .icws88) start) = .ok (some w) ∧
      assemble cfg src = .ok a ∧ w.code = a.code ∧ w.start = a.start ∧
      a.code = (L.lines.map (·.instr)).toArray ∧ a.start = (start : Int) := by
  obtain ⟨h1, h2, h3⟩ := hyps_of_ok hok
  exact ⟨_, _, LoadLayout.load_print_any_layout_meta cfg L start hok hM hstart hs31,
    asm_print_any_layout cfg L start h1 hplain hv hM h2 h31 hs31 hstart hlen h3 src hsrc,
    rfl, rfl, rfl, rfl⟩

/-! ### the canonical layout: `asm_print` again -/

theorem asmPlain_canon (code : List Instr) (legacy : Bool) : AsmPlain (Layout.canon code) legacy := by
  refine ⟨fun f hf => (by cases hf), ?_, fun _ f hf => (by cases hf)⟩
  intro p hp f hf
  obtain ⟨i, _, rfl⟩ := List.mem_map.1 hp
  cases hf

/-- `AsmPrint.asm_print` is the instance of `asm_print_any_layout` at the trivial layout -/
theorem asm_print_canon (cfg : Config) (code : List Instr) (start : Nat)
    (hv : cfg.validate = true) (hM : cfg.coreSize.toNat < 2 ^ 63)
    (hf : ∀ i ∈ code, i.a.toNat < cfg.coreSize.toNat ∧ i.b.toNat < cfg.coreSize.toNat)
    (h31 : ∀ i ∈ code, i.a.toNat < 2 ^ 31 ∧ i.b.toNat < 2 ^ 31) (hs31 : start < 2 ^ 31)
    (hstart : start < code.length) (hlen : code.length ≤ cfg.length.toNat)
    (hl : (cfg.mode == .icws88) = true → ∀ i ∈ code, Spec.Legal88 i = true)
    (src : List UInt8) (hsrc : decodeRunes src = Spec.printLoad (cfg.mode == .icws88) code start) :
    assemble cfg src =
      .ok { name := "", author := "", strategy := "", code := code.toArray, start := (start : Int) } := by
  have hok := (LoadLayout.canon_ok cfg.coreSize (cfg.mode == .icws88) code
    (fun i hi => ⟨UInt64.lt_iff_toNat_lt.mpr (hf i hi).1, UInt64.lt_iff_toNat_lt.mpr (hf i hi).2⟩) hl).1
  have hmem : ∀ p ∈ (Layout.canon code).lines, p.instr ∈ code := by
    intro p hp
    obtain ⟨i, hi, rfl⟩ := List.mem_map.1 hp
    exact hi
  have hcode : (Layout.canon code).lines.map (·.instr) = code := by
    simp [Layout.canon, List.map_map, Function.comp_def]
  have hlen' : (Layout.canon code).lines.length = code.length := by simp [Layout.canon]
  have := asm_print_any_layout cfg (Layout.canon code) start (AsmOK.of_ok hok) (asmPlain_canon code _) hv
    hM (fun p hp => hf _ (hmem p hp)) (fun p hp => h31 _ (hmem p hp)) hs31 (by rw [hlen']; exact hstart)
    (by rw [hlen']; exact hlen) (fun h p hp => hl h _ (hmem p hp)) src
    (by rw [hsrc, LoadLayout.render_canonical])
  rw [hcode] at this
  exact this

end AsmLayout
end Gmars
