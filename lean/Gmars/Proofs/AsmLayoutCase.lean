/-
  C09, assembler half, layout perturbations (part 3): the case masks of `LoadLayout` as case
  variants (`AsmComposeEqu.CaseEq`) of the mnemonic, modifier and `ORG` / `END` words.

    * `caseEq_recase`     a masked ASCII word is a case variant of the word
    * `opR`, `mdR`, `opWordR_eq`   the masked word `OP.MOD` is `opString` of a masked opcode and a
                          masked modifier
    * `identOK_opWordR`, `isOpName_opWordR`, `identOK_kwR`, `lowerStr_kwR`
-/
import Gmars.Proofs.AsmComposeEquCase
import Gmars.Proofs.AsmPrint
import Gmars.Proofs.LoadLayout

namespace Gmars
namespace AsmLayout
open Gmars.Render Gmars.AsmLine Gmars.AsmCompose Gmars.AsmComposeEqu Gmars.GoStr Gmars.AsmPrint

/-- a word with a case mask of `LoadLayout` applied -/
def recaseS (mask : List Bool) (s : String) : String := String.ofList (LoadLayout.recase mask s.toList)

theorem recase_ascii (mask : List Bool) (l : List Char) (h : ∀ c ∈ l, c.toNat < 128) :
    ∀ c ∈ LoadLayout.recase mask l, c.toNat < 128 := by
  induction l generalizing mask with
  | nil => cases mask <;> exact h
  | cons c cs ih =>
    cases mask with
    | nil => exact h
    | cons b bs =>
      intro x hx
      simp only [LoadLayout.recase, List.mem_cons] at hx
      rcases hx with rfl | hx
      · cases b
        · simpa using h c (by simp)
        · simpa using (recase_char (h c (by simp))).2.1
      · exact ih bs (fun y hy => h y (by simp [hy])) x hx

/-- a masked ASCII word is a case variant of the word -/
theorem caseEq_recaseS (mask : List Bool) {s : String} (h : Ascii s) : CaseEq s (recaseS mask s) := by
  refine ⟨h, ?_, ?_⟩
  · intro c hc
    rw [recaseS, String.toList_ofList] at hc
    exact recase_ascii mask s.toList h c hc
  · apply lowerStr_of_lower
    rw [recaseS, String.toList_ofList, LoadLayout.toLower_recase]

theorem recase_nil' (w : List Char) : LoadLayout.recase [] w = w := by cases w <;> rfl

theorem recase_append (m : List Bool) (a b : List Char) :
    LoadLayout.recase m (a ++ b) =
      LoadLayout.recase (m.take a.length) a ++ LoadLayout.recase (m.drop a.length) b := by
  induction a generalizing m with
  | nil => simp [recase_nil']
  | cons c a ih =>
    cases m with
    | nil => simp [recase_nil']
    | cons x m =>
      simp only [List.cons_append, LoadLayout.recase, List.length_cons, List.take_succ_cons,
        List.drop_succ_cons, ih m]

theorem recase_empty (m : List Bool) : LoadLayout.recase m [] = [] := by cases m <;> rfl

theorem recase_take (m : List Bool) (w : List Char) :
    LoadLayout.recase (m.take w.length) w = LoadLayout.recase m w := by
  have := recase_append m w []
  rw [List.append_nil, recase_empty, List.append_nil] at this
  exact this.symm

theorem recase_dot (m : List Bool) (b : List Char) :
    LoadLayout.recase m ('.' :: b) = '.' :: LoadLayout.recase m.tail b := by
  cases m with
  | nil => simp [recase_nil']
  | cons x m =>
    cases x
    · rfl
    · simp only [LoadLayout.recase, if_true, List.tail_cons]
      congr 1

/-- the opcode part of a masked mnemonic word -/
def opR (mask : List Bool) (i : Instr) : String := recaseS (mask.take i.op.name.length) i.op.name

/-- the modifier part (none under '88) -/
def mdR (legacy : Bool) (mask : List Bool) (i : Instr) : Option String :=
  if legacy then none else some (recaseS (mask.drop i.op.name.length).tail i.md.name)

/-- the masked mnemonic word of a line of the load file -/
def opWordR (legacy : Bool) (mask : List Bool) (i : Instr) : String :=
  String.ofList (LoadLayout.recase mask (RoundTrip.opWord legacy i))

theorem opWordR_eq (legacy : Bool) (mask : List Bool) (i : Instr) :
    opWordR legacy mask i = opString (opR mask i) (mdR legacy mask i) := by
  apply String.toList_injective
  cases legacy
  · simp only [opWordR, RoundTrip.opWord, Bool.false_eq_true, if_false, mdR, opString_some_toList, opR,
      recaseS, String.toList_ofList, recase_append, recase_dot, String.length_toList]
  · simp only [opWordR, RoundTrip.opWord, if_true, List.append_nil, mdR, opString_none, opR, recaseS,
      String.toList_ofList]
    rw [← String.length_toList, recase_take]

theorem caseEq_opR (mask : List Bool) (i : Instr) : CaseEq i.op.name (opR mask i) :=
  caseEq_recaseS _ (ascii_opName i.op).1

theorem caseEqO_mdR (legacy : Bool) (mask : List Bool) (i : Instr) :
    CaseEqO (mdText legacy i) (mdR legacy mask i) := by
  cases legacy
  · exact caseEq_recaseS _ (ascii_mdName i.md)
  · trivial

theorem caseEq_opWordR (legacy : Bool) (mask : List Bool) (i : Instr) :
    CaseEq (opString i.op.name (mdText legacy i)) (opWordR legacy mask i) := by
  rw [opWordR_eq]
  exact opString_caseEq (caseEq_opR mask i) (caseEqO_mdR legacy mask i)

theorem identOK_opWordR (legacy : Bool) (mask : List Bool) (i : Instr) :
    identOK (opWordR legacy mask i) = true := by
  rw [← identOK_caseEq (caseEq_opWordR legacy mask i)]
  exact identOK_opText legacy i

theorem isOpName_opWordR (legacy : Bool) (mask : List Bool) (i : Instr) :
    IsOpName (opWordR legacy mask i) := by
  refine isOpName_lower (caseEq_opWordR legacy mask i).2.2 ?_
  cases legacy
  · exact isOpName_op94 i.op i.md
  · exact isOpName_op88 i.op

theorem dot_not_mem_opR (mask : List Bool) (i : Instr) : '.' ∉ (opR mask i).toList := by
  intro h
  have h1 : '.' ∈ toLower (opR mask i).toList := AsmLine.dot_mem_toLower h
  rw [← lower_of_lowerStr (caseEq_opR mask i).2.2, dot_mem_lower_iff] at h1
  exact (ascii_opName i.op).2 h1

/-- a masked keyword -/
theorem caseEq_kwR (mask : List Bool) {kw : String} (h : Ascii kw) : CaseEq kw (recaseS mask kw) :=
  caseEq_recaseS mask h

theorem ascii_ORG : Ascii "ORG" := by unfold Ascii; decide
theorem ascii_END : Ascii "END" := by unfold Ascii; decide

theorem lowerStr_orgR (mask : List Bool) : lowerStr (recaseS mask "ORG") = "org" := by
  rw [← (caseEq_recaseS mask ascii_ORG).2.2]; decide

theorem lowerStr_endR (mask : List Bool) : lowerStr (recaseS mask "END") = "end" := by
  rw [← (caseEq_recaseS mask ascii_END).2.2]; decide

theorem identOK_orgR (mask : List Bool) : identOK (recaseS mask "ORG") = true := by
  rw [← identOK_caseEq (caseEq_recaseS mask ascii_ORG)]; decide

theorem identOK_endR (mask : List Bool) : identOK (recaseS mask "END") = true := by
  rw [← identOK_caseEq (caseEq_recaseS mask ascii_END)]; decide

end AsmLayout
end Gmars
