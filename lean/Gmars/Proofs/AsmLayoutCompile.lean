/-
  C09, assembler half, layout perturbations (part 2): the compiler stage does not read the
  `comment` field of an instruction or pseudo-op line (a trailing comment), only that of comment
  lines (for `;assert`).

    * `strip`, `compileX_strip` : `compileX` on `lines.map strip` = `compileX` on `lines`
    * `compileX_congr_strip`    : equal `norm (lines.map strip)`, equal results
-/
import Gmars.Proofs.AsmComposeCongr

namespace Gmars
namespace AsmLayout
open Compile AsmCompose

/-- forget the trailing comment of a line that is not a comment line -/
def strip (l : SourceLine) : SourceLine := if l.typ == .comment then l else { l with comment := "" }

theorem strip_typ (l : SourceLine) : (strip l).typ = l.typ := by
  unfold strip; split <;> rfl

theorem loadSymbolsLine_strip (st : Compiler × Int) (l : SourceLine) :
    loadSymbolsLine st (strip l) = loadSymbolsLine st l := by
  unfold strip; split <;> rfl

theorem foldl_loadSymbolsLine_strip (lines : List SourceLine) (st : Compiler × Int) :
    (lines.map strip).foldl loadSymbolsLine st = lines.foldl loadSymbolsLine st := by
  induction lines generalizing st with
  | nil => rfl
  | cons l r ih => simp only [List.map_cons, List.foldl_cons, loadSymbolsLine_strip, ih]

theorem symC_strip (cfg : Config) (lines : List SourceLine) :
    symC cfg (lines.map strip) = symC cfg lines := by
  unfold symC loadSymbols
  simp only [foldl_loadSymbolsLine_strip]

theorem evaluateAssertions_strip (lexTokens : String → List Token) (c : Compiler)
    (lines : List SourceLine) :
    evaluateAssertions lexTokens c (lines.map strip) = evaluateAssertions lexTokens c lines := by
  induction lines with
  | nil => rfl
  | cons l r ih =>
    simp only [List.map_cons]
    unfold evaluateAssertions
    rw [ih]
    unfold strip
    split
    · rfl
    · rename_i h
      have h' : (l.typ == LineType.comment) = false := by simpa using h
      simp only [h', Bool.false_and, Bool.false_eq_true, if_false]

theorem assembleLines_strip (c : Compiler) (lines : List SourceLine) (acc : Array Instr) :
    assembleLines c (lines.map strip) acc = assembleLines c lines acc := by
  induction lines generalizing acc with
  | nil => rfl
  | cons l r ih =>
    simp only [List.map_cons]
    unfold assembleLines
    have h2 : assembleLine c (strip l) = assembleLine c l := by
      unfold strip; split <;> rfl
    rw [strip_typ, h2]
    split
    · exact ih acc
    · simp only [ih]

/-- the compiler stage does not read trailing comments -/
theorem compileX_strip (lexTokens : String → List Token) (cfg : Config) (lines : List SourceLine)
    (ameta : AsmMeta) :
    compileX lexTokens cfg (lines.map strip) ameta = compileX lexTokens cfg lines ameta := by
  rw [compileX_eq, compileX_eq]
  have hres : ∀ R, resC cfg (lines.map strip) R = resC cfg lines R := by
    intro R; unfold resC; rw [symC_strip]
  simp only [symC_strip, hres, evaluateAssertions_strip, assembleLines_strip]

/-- equal `norm`s after forgetting the trailing comments, equal results -/
theorem compileX_congr_strip (lexTokens : String → List Token) (cfg : Config) (l₁ l₂ : List SourceLine)
    (ameta : AsmMeta) (h : norm (l₁.map strip) = norm l₂) :
    compileX lexTokens cfg l₁ ameta = compileX lexTokens cfg l₂ ameta := by
  rw [← compileX_strip, compileX_congr lexTokens cfg _ l₂ ameta h]

end AsmLayout
end Gmars
