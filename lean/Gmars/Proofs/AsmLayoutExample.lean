/-
  The hypotheses of `asm_print_any_layout` / `both_readers_agree_any_layout` are satisfiable by a
  layout that uses every kind of perturbation: the '94 text

      ";redcode\n\r\n oRg\t1; start\r\n  ; indented\nmOv.I $ 0,$\x0b1\x0c;c\nDAT.F # 3, # 4\r\n\n;end\n"

  (letter case, a tab, VT, FF, a missing gap after the comma, trailing comments, CR-LF, an empty
  CR-LF line, comment lines, an indented comment, a blank line) assembles to
  `MOV.I $0, $1 / DAT.F #3, #4`, start 1, and the load-file reader reads the same; likewise
  without the final newline.
-/
import Gmars.Proofs.AsmLayout

namespace Gmars.AsmLayout.Example
open Gmars Gmars.LoadLayout Gmars.AsmLayout Gmars.AsmCompose

def cfg : Config := Config.quick .icws94 8000 8000 80000 100

def L : Layout :=
  { dir := { pre := [.comment [] "redcode".toList, .blank ['\r']],
             mask := [true, false, true],
             gaps := { d0 := [' '], d1 := ['\t'], d2 := [] },
             trail := { comment := some " start".toList, cr := true } },
    lines := [
      { pre := [.comment [' ', ' '] " indented".toList],
        mask := [true, false, true, false, false],
        gaps := { g0 := [], g1 := [' '], g2 := [' '], g3 := [], g4 := [], g5 := ['\x0b'], g6 := ['\x0c'] },
        trail := { comment := some "c".toList },
        instr := { op := .mov, md := .i, a := 0, am := .direct, b := 1, bm := .direct } },
      { trail := { cr := true },
        instr := { op := .dat, md := .f, a := 3, am := .immediate, b := 4, bm := .immediate } } ],
    post := [.blank [], .comment [] "end".toList] }

theorem L_render :
    L.render false 1 =
      ";redcode\n\r\n oRg\t1; start\r\n  ; indented\nmOv.I $ 0,$\x0b1\x0c;c\nDAT.F # 3, # 4\r\n\n;end\n".toList := by
  decide

theorem blanks_dec (g : List Char) (h : g.all (fun c => GoStr.isAsciiSpace c && c != '\n') = true) :
    RoundTrip.Blanks g := by
  intro c hc
  have := List.all_eq_true.mp h c hc
  simpa using this

theorem L_ok : L.ok cfg.coreSize (cfg.mode == .icws88) := by
  refine ⟨?_, ⟨blanks_dec _ (by decide), blanks_dec _ (by decide), blanks_dec _ (by decide), by decide⟩,
    ?_, ?_, ?_⟩
  · intro f hf
    simp only [L, List.mem_cons, List.not_mem_nil, or_false] at hf
    rcases hf with rfl | rfl
    · exact ⟨blanks_dec _ (by decide), by decide⟩
    · exact blanks_dec _ (by decide)
  · intro c hc
    simp only [L, Option.some.injEq] at hc
    subst hc; decide
  · intro p hp
    simp only [L, List.mem_cons, List.not_mem_nil, or_false] at hp
    rcases hp with rfl | rfl
    · refine ⟨?_, ?_, ⟨⟨blanks_dec _ (by decide), blanks_dec _ (by decide), blanks_dec _ (by decide),
        blanks_dec _ (by decide), blanks_dec _ (by decide), blanks_dec _ (by decide),
        blanks_dec _ (by decide), by decide, by decide, by decide⟩, by decide, by decide,
        fun h => by cases h⟩⟩
      · intro f hf
        simp only [List.mem_singleton] at hf
        subst hf
        exact ⟨blanks_dec _ (by decide), by decide⟩
      · intro c hc
        simp only [Option.some.injEq] at hc
        subst hc; decide
    · refine ⟨fun f hf => (by cases hf), ?_, ⟨RoundTrip.canonGaps_ok, by decide, by decide, fun h => by cases h⟩⟩
      intro c hc; cases hc
  · intro f hf
    simp only [L, List.mem_cons, List.not_mem_nil, or_false] at hf
    rcases hf with rfl | rfl
    · exact blanks_dec _ (by decide)
    · exact ⟨blanks_dec _ (by decide), by decide⟩

theorem L_plain : AsmPlain L (cfg.mode == .icws88) := by
  refine ⟨?_, ?_, ?_⟩
  · intro f hf
    simp only [L, List.mem_cons, List.not_mem_nil, or_false] at hf
    rcases hf with rfl | rfl
    · show plainCmt _ = true; decide
    · trivial
  · intro p hp f hf
    simp only [L, List.mem_cons, List.not_mem_nil, or_false] at hp
    rcases hp with rfl | rfl
    · simp only [List.mem_singleton] at hf
      subst hf
      show plainCmt _ = true; decide
    · cases hf
  · intro _ f hf
    simp only [L, List.mem_cons, List.not_mem_nil, or_false] at hf
    rcases hf with rfl | rfl
    · trivial
    · show plainCmt _ = true; decide

/-- the theorem applies: both readers return `MOV.I $0, $1 / DAT.F #3, #4`, start 1 -/
theorem example_agree :
    ∃ (w a : WarriorData),
      parseLoadFile cfg (L.render false 1) = .ok (some w) ∧
      assemble cfg (String.ofList (L.render false 1)).toUTF8.data.toList = .ok a ∧
      w.code = a.code ∧ w.start = a.start ∧ a.code = (L.lines.map (·.instr)).toArray ∧ a.start = 1 :=
  both_readers_agree_any_layout cfg L 1 L_ok L_plain (by decide) (by decide)
    (by
      intro p hp
      simp only [L, List.mem_cons, List.not_mem_nil, or_false] at hp
      rcases hp with rfl | rfl <;> decide)
    (by decide) (by decide) (by decide) _ (decodeRunes_toUTF8 _)

/-! ### the same text without its final newline -/

def L' : Layout := { L with finalNewline := false }

theorem L'_render :
    L'.render false 1 =
      ";redcode\n\r\n oRg\t1; start\r\n  ; indented\nmOv.I $ 0,$\x0b1\x0c;c\nDAT.F # 3, # 4\r\n\n;end".toList := by
  decide

theorem example_agree' :
    ∃ (w a : WarriorData),
      parseLoadFile cfg (L'.render false 1) = .ok (some w) ∧
      assemble cfg (String.ofList (L'.render false 1)).toUTF8.data.toList = .ok a ∧
      w.code = a.code ∧ w.start = a.start ∧ a.code = (L.lines.map (·.instr)).toArray ∧ a.start = 1 :=
  both_readers_agree_any_layout cfg L' 1 ⟨L_ok.dirPre, L_ok.dirGaps, L_ok.dirTrail, L_ok.lines, L_ok.post⟩
    ⟨L_plain.dirPre, L_plain.lines, L_plain.post⟩ (by decide) (by decide)
    (by
      intro p hp
      have hp' : p ∈ L.lines := hp
      simp only [L, List.mem_cons, List.not_mem_nil, or_false] at hp'
      rcases hp' with rfl | rfl <;> decide)
    (by decide) (by decide) (by decide) _ (decodeRunes_toUTF8 _)

end Gmars.AsmLayout.Example
