/-
  C09, assembler half, layout perturbations (part 4): the lexer on the text of a
  `LoadLayout.Layout`.

  Gaps may consist of any ASCII white space but the newline (blank, tab, VT, FF, CR: `Blanks`,
  as for the loader); a trailing comment `;…` becomes one comment token (a CR in front of the LF
  belongs to it); a CR after the last field is white space.

    * `FLine`, `FLine.tokens0`, `FLine.tokens`   an abstract line and its tokens
    * `sends_filler`, `sends_instr`, `sends_dir`   one line, followed by its newline or by the end
                                                   of the text
-/
import Gmars.Proofs.AsmLayoutCase
import Gmars.Proofs.AsmLayoutParse

namespace Gmars
namespace AsmLayout
open Gmars.Render Gmars.AsmCompose Gmars.GoStr Gmars.AsmPrint Gmars.LoadLayout Gmars.ExprProofs
open Gmars.RoundTrip (Blanks Gaps DirGaps)
open Gmars.Lex (sends isTextRune)
open Gmars.Unicode (isSpaceU)

/-! ### white space -/

theorem blank_facts {c : Char} (h : isAsciiSpace c = true) (hn : c ≠ '\n') :
    isSpaceU c = true ∧ (c == '\n') = false ∧ isTextRune c = false ∧ c ≠ '=' := by
  simp only [isAsciiSpace, Bool.or_eq_true, beq_iff_eq] at h
  rcases h with ((((rfl | rfl) | rfl) | rfl) | rfl) | rfl
  · decide
  · decide
  · exact absurd rfl hn
  · decide
  · decide
  · decide

theorem sends_gap (g : List Char) (hg : Blanks g) (rest : List Char) : sends (g ++ rest) = sends rest := by
  induction g with
  | nil => rfl
  | cons c r ih =>
    obtain ⟨h1, h2, _, _⟩ := blank_facts (hg c (by simp)).1 (hg c (by simp)).2
    rw [List.cons_append, sends_space c h1, h2, ih (fun x hx => hg x (by simp [hx]))]
    rfl

theorem blanks_append {a b : List Char} (ha : Blanks a) (hb : Blanks b) : Blanks (a ++ b) := by
  intro c hc
  rcases List.mem_append.mp hc with h | h
  · exact ha c h
  · exact hb c h

theorem blanks_cr : Blanks ['\r'] := by
  intro c hc
  simp only [List.mem_singleton] at hc
  subst hc
  decide

/-- a word, a gap, and what follows: when the gap is empty the word must end before what follows -/
theorem sends_word_gap (w : Word) (hv : w.valid = true) (g : List Char) (hg : Blanks g)
    (rest : List Char) (hs : g = [] → w.stopsBefore rest.head? = true) :
    sends (w.chars ++ (g ++ rest)) = w.tok :: sends rest := by
  cases g with
  | nil => rw [List.nil_append, sends_word w hv rest (hs rfl)]
  | cons c r =>
    obtain ⟨_, _, h3, h4⟩ := blank_facts (hg c (by simp)).1 (hg c (by simp)).2
    rw [sends_word w hv _ (by rw [List.cons_append, List.head?_cons]; exact stopsBefore_of_noText w c h3 h4),
      sends_gap _ hg]

/-! ### abstract lines -/

/-- a line of a (perturbed) load file as the parser sees it: a white-space-only line, a comment
    line, an instruction line `op[.md] m a, m b` or a directive line `kw n`, the latter two with an
    optional trailing comment -/
inductive FLine
  | blank
  | cmt (v : String)
  | instr (op : String) (md : Option String) (i : Instr) (c : Option String)
  | dir (kw : String) (n : Nat) (c : Option String)

def modeTok (m : Mode) : Token := ⟨.symbol, String.singleton m.sym⟩

def instrToks (w : String) (i : Instr) : List Token :=
  [⟨.text, w⟩, modeTok i.am, numTok i.a.toNat, commaTok, modeTok i.bm, numTok i.b.toNat]

/-- the tokens of the line without the newline token -/
def FLine.tokens0 : FLine → List Token
  | .blank => []
  | .cmt v => [cmtTok v]
  | .instr op md i c => instrToks (AsmLine.opString op md) i ++ cmtToks c
  | .dir kw n c => [⟨.text, kw⟩, numTok n] ++ cmtToks c

def FLine.tokens (l : FLine) : List Token := l.tokens0 ++ [nlTok]

def flTokens : List FLine → List Token
  | [] => []
  | l :: r => l.tokens ++ flTokens r

/-- the tokens of the lines; without the final newline (`nl = false`) the last line has no
    newline token -/
def flTokensNL : List FLine → Bool → List Token
  | [], _ => []
  | [l], false => l.tokens0
  | l :: r, nl => l.tokens ++ flTokensNL r nl

/-! ### the end of a line -/

/-- the comment token of a trailing comment: a CR in front of the LF is part of it -/
def trailCmt (t : Trail) : Option String :=
  t.comment.map (fun c => String.ofList (';' :: (c ++ if t.cr then ['\r'] else [])))

/-- the last word of a line, the last gap, the trail; `tail` is the newline and the rest of the
    text, or nothing -/
theorem sends_trail (w : Word) (hv : w.valid = true) (g : List Char) (hg : Blanks g) (t : Trail)
    (ht : t.ok) (tail : List Char) (hend : LineEnd tail) (hs : w.stopsBefore tail.head? = true) :
    sends (w.chars ++ (g ++ (t.render ++ tail))) = w.tok :: (cmtToks (trailCmt t) ++ sends tail) := by
  obtain ⟨cm, cr⟩ := t
  cases cm with
  | none =>
    cases cr with
    | false =>
      simp only [Trail.render, Bool.false_eq_true, if_false, List.nil_append, trailCmt, Option.map_none,
        cmtToks]
      rw [sends_word_gap w hv g hg tail (fun _ => hs)]
    | true =>
      simp only [Trail.render, if_true, List.nil_append, trailCmt, Option.map_none, cmtToks]
      rw [← List.append_assoc g, sends_word_gap w hv (g ++ ['\r']) (blanks_append hg blanks_cr) tail
        (fun h => by simp at h)]
  | some c =>
    have hc : ∀ x ∈ c ++ (if cr = true then ['\r'] else []), x ≠ '\n' := by
      intro x hx
      rcases List.mem_append.mp hx with h | h
      · exact ht c rfl x h
      · cases cr
        · simp at h
        · simp only [if_true, List.mem_singleton] at h; subst h; decide
    simp only [Trail.render, trailCmt, Option.map_some, cmtToks, List.cons_append, List.append_assoc,
      List.nil_append]
    rw [sends_word_gap w hv g hg (';' :: (c ++ ((if cr = true then ['\r'] else []) ++ tail)))
      (fun _ => stopsBefore_semicolon w)]
    have := sends_comment (c ++ (if cr = true then ['\r'] else [])) hc tail hend
    simp only [List.cons_append, List.append_assoc] at this
    rw [this]
    rfl

/-! ### filler lines -/

def fillerLine : Filler → FLine
  | .blank _ => .blank
  | .comment _ text => .cmt (String.ofList (';' :: text))

theorem sends_filler (f : Filler) (hf : f.ok) (tail : List Char) (hend : LineEnd tail) :
    sends (f.content ++ tail) = (fillerLine f).tokens0 ++ sends tail := by
  cases f with
  | blank ws =>
    simp only [Filler.content, fillerLine, FLine.tokens0]
    rw [sends_gap ws hf]
    rfl
  | comment ws text =>
    simp only [Filler.content, fillerLine, FLine.tokens0, List.append_assoc]
    rw [sends_gap ws hf.1]
    have := sends_comment text hf.2 tail hend
    simp only [List.cons_append] at this ⊢
    rw [this]
    rfl

/-! ### instruction and directive lines -/

theorem stops_modeSym (w : Word) (m : Mode) : w.stopsBefore (some m.sym) = true := by
  cases m <;> exact stopsBefore_of_noText w _ (by decide) (by decide)

theorem modeWord_tok (m : Mode) : (modeWord m.sym).tok = modeTok m := by
  cases m <;> rfl

theorem stops_mode_digit (m : Mode) (d : Char) (hd : d.isDigit = true) :
    (modeWord m.sym).stopsBefore (some d) = true := by
  have hne : d ≠ '=' := by intro h; subst h; revert hd; decide
  cases m <;> simp [modeWord, Mode.sym, Word.stopsBefore, hne]

theorem digits_head (n : Nat) (X : List Char) :
    ∃ d, (Nat.toDigits 10 n ++ X).head? = some d ∧ d.isDigit = true := by
  obtain ⟨c, cs, hd, _, hv⟩ := numWord_spec n
  refine ⟨c, by rw [hd]; rfl, ?_⟩
  simp only [Word.valid, Bool.and_eq_true] at hv
  exact hv.1.1

theorem sends_ident_then_mode (W : String) (hid : identOK W = true) (g : List Char) (hg : Blanks g)
    (m : Mode) (X : List Char) :
    sends (W.toList ++ (g ++ m.sym :: X)) = (⟨.text, W⟩ : Token) :: sends (m.sym :: X) := by
  have := sends_word_gap (identWord W) (identWord_valid hid) g hg (m.sym :: X)
    (fun _ => stops_modeSym _ m)
  rwa [identWord_chars hid, identWord_tok hid] at this

theorem sends_ident_gap (W : String) (hid : identOK W = true) (g : List Char) (hg : Blanks g)
    (hne : g ≠ []) (X : List Char) :
    sends (W.toList ++ (g ++ X)) = (⟨.text, W⟩ : Token) :: sends X := by
  have := sends_word_gap (identWord W) (identWord_valid hid) g hg X (fun h => absurd h hne)
  rwa [identWord_chars hid, identWord_tok hid] at this

theorem sends_mode_then_digits (m : Mode) (g : List Char) (hg : Blanks g) (n : Nat) (X : List Char) :
    sends (m.sym :: (g ++ (Nat.toDigits 10 n ++ X))) = modeTok m :: sends (Nat.toDigits 10 n ++ X) := by
  obtain ⟨d, hd, hd'⟩ := digits_head n X
  have := sends_word_gap (modeWord m.sym) (modeWord_valid m) g hg (Nat.toDigits 10 n ++ X)
    (fun _ => by rw [hd]; exact stops_mode_digit m d hd')
  rwa [modeWord_chars, modeWord_tok, List.singleton_append] at this

theorem sends_num_then_comma (n : Nat) (g : List Char) (hg : Blanks g) (X : List Char) :
    sends (Nat.toDigits 10 n ++ (g ++ ',' :: X)) = numTok n :: sends (',' :: X) := by
  have := sends_word_gap (numWord n) (numWord_valid n) g hg (',' :: X)
    (fun _ => stopsBefore_sym _ ',' (by decide))
  rwa [numWord_chars, numWord_tok] at this

theorem sends_comma_gap (g : List Char) (hg : Blanks g) (X : List Char) :
    sends (',' :: (g ++ X)) = commaTok :: sends X := by
  have := sends_word_gap (Word.sym ',') (by decide) g hg X (fun _ => rfl)
  exact this

theorem num_stops_lineEnd (n : Nat) (tail : List Char) (hend : LineEnd tail) :
    (numWord n).stopsBefore tail.head? = true := by
  rcases hend with rfl | ⟨r, rfl⟩
  · obtain ⟨c, cs, _, hw, _⟩ := numWord_spec n
    rw [hw]; rfl
  · exact stopsBefore_newline _

theorem sends_num_trail (n : Nat) (g : List Char) (hg : Blanks g) (t : Trail) (ht : t.ok)
    (tail : List Char) (hend : LineEnd tail) :
    sends (Nat.toDigits 10 n ++ (g ++ (t.render ++ tail))) =
      numTok n :: (cmtToks (trailCmt t) ++ sends tail) := by
  have := sends_trail (numWord n) (numWord_valid n) g hg t ht tail hend (num_stops_lineEnd n tail hend)
  rwa [numWord_chars, numWord_tok] at this

/-- the gaps of an instruction line for the assembler: white space, any of them may be empty -/
structure GapsBlank (g : Gaps) : Prop where
  b0 : Blanks g.g0
  b1 : Blanks g.g1
  b2 : Blanks g.g2
  b3 : Blanks g.g3
  b4 : Blanks g.g4
  b5 : Blanks g.g5
  b6 : Blanks g.g6

theorem GapsBlank.of_ok {g : Gaps} (h : g.ok) : GapsBlank g := ⟨h.b0, h.b1, h.b2, h.b3, h.b4, h.b5, h.b6⟩

def instrLine (legacy : Bool) (p : InstrLay) : FLine :=
  .instr (opR p.mask p.instr) (mdR legacy p.mask p.instr) p.instr (trailCmt p.trail)

theorem sends_instr (legacy : Bool) (p : InstrLay) (hg : GapsBlank p.gaps) (ht : p.trail.ok)
    (tail : List Char) (hend : LineEnd tail) :
    sends (p.content legacy ++ tail) = (instrLine legacy p).tokens0 ++ sends tail := by
  obtain ⟨pre, mask, g, t, i⟩ := p
  simp only at hg ht
  have hid := identOK_opWordR legacy mask i
  have hW : LoadLayout.recase mask (RoundTrip.opWord legacy i) = (opWordR legacy mask i).toList := by
    rw [opWordR, String.toList_ofList]
  simp only [InstrLay.content, instrBodyM, List.append_assoc, List.cons_append, List.nil_append]
  rw [sends_gap g.g0 hg.b0, hW, sends_ident_then_mode _ hid g.g1 hg.b1,
    sends_mode_then_digits i.am g.g2 hg.b2, sends_num_then_comma _ g.g3 hg.b3,
    sends_comma_gap g.g4 hg.b4, sends_mode_then_digits i.bm g.g5 hg.b5,
    sends_num_trail _ g.g6 hg.b6 t ht tail hend]
  simp [instrLine, FLine.tokens0, instrToks, opWordR_eq]

/-- the ORG / END line -/
def dirLine (d : DirLay) (kw : String) (n : Nat) : FLine :=
  .dir (recaseS d.mask kw) n (trailCmt d.trail)

theorem sends_dir (d : DirLay) (kw : String) (hk : identOK (recaseS d.mask kw) = true) (n : Nat)
    (hg : d.gaps.ok) (ht : d.trail.ok) (tail : List Char) (hend : LineEnd tail) :
    sends (d.content kw.toList n ++ tail) = (dirLine d kw n).tokens0 ++ sends tail := by
  obtain ⟨pre, mask, g, t⟩ := d
  simp only at hg ht hk
  have hW : LoadLayout.recase mask kw.toList = (recaseS mask kw).toList := by
    rw [recaseS, String.toList_ofList]
  simp only [DirLay.content, dirBodyM, List.append_assoc]
  rw [sends_gap g.d0 hg.b0, hW, sends_ident_gap _ hk g.d1 hg.b1 hg.n1,
    sends_num_trail _ g.d2 hg.b2 t ht tail hend]
  simp [dirLine, FLine.tokens0]

end AsmLayout
end Gmars
