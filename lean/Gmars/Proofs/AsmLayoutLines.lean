/-
  C09, assembler half, layout perturbations (part 6): what the parser makes of the lines of a
  layout, as far as the compiler reads it.

    * `FLine.OK`, `flItems`     well-formed lines; the label-program items they denote
    * `pack_ok`, `pack_labels`, `pack_refs`, `pack_meta`   the hypotheses of `parse_yprog`
    * `pack_norm`               `norm` of the parsed lines (trailing comments forgotten) is
                                `norm (lrender … (flItems ls))`
-/
import Gmars.Proofs.AsmLayoutText
import Gmars.Proofs.AsmLayoutCompile
import Gmars.Proofs.AsmComposeBridge

namespace Gmars
namespace AsmLayout
open Gmars.Render Gmars.AsmCompose Gmars.AsmLine Gmars.ExprProofs Gmars.Parser
open Gmars.AsmCompose (XItem)

/-- the comment is neither a metadata line (`;name`, `;author`, `;strategy`) nor an assertion -/
def plainCmt (v : String) : Bool :=
  !(";name".toList.isPrefixOf v.toList) && !(";author".toList.isPrefixOf v.toList) &&
    !(";strategy".toList.isPrefixOf v.toList) && !(";assert".toList.isPrefixOf v.toList)

theorem captureMeta_plain {v : String} (h : plainCmt v = true) (m : AsmMeta) : captureMeta m v = m := by
  simp only [plainCmt, Bool.and_eq_true, Bool.not_eq_true'] at h
  obtain ⟨⟨⟨h1, h2⟩, h3⟩, _⟩ := h
  simp only [captureMeta, h1, h2, h3, Bool.false_eq_true, if_false]

theorem assert_plain {v : String} (h : plainCmt v = true) :
    Compile.assertPrefix.isPrefixOf v.toList = false := by
  simp only [plainCmt, Bool.and_eq_true, Bool.not_eq_true'] at h
  exact h.2

/-- well-formed lines: the mnemonic word is taken for an opcode, the directive (in front of the
    instructions or between them) is an ORG, comment lines are plain -/
def FLine.OK : FLine → Prop
  | .blank => True
  | .cmt v => plainCmt v = true
  | .instr op md _ _ => IsOpName (opString op md)
  | .dir kw _ _ => lowerStr kw = "org"

/-- the items of the label program the lines denote -/
def FLine.litems : FLine → List LItem
  | .instr op md i _ =>
    [.instr [] op md ⟨some i.am, .num i.a.toNat⟩ (some ⟨some i.bm, .num i.b.toNat⟩)]
  | .dir kw n _ => [.org kw (.num n)]
  | _ => []

def flItems : List FLine → List LItem
  | [] => []
  | l :: r => l.litems ++ flItems r

theorem flItems_append (a b : List FLine) : flItems (a ++ b) = flItems a ++ flItems b := by
  induction a with
  | nil => rfl
  | cons l r ih => simp [flItems, ih]

theorem numTok_exprTerm (n : Nat) : (numTok n).isExpressionTerm = true := rfl

theorem modeStr_mem (m : Mode) : String.singleton m.sym ∈ modeStrs := by
  cases m <;> decide

theorem mkOperand_ok (strict : Bool) (m : Mode) (n : Nat) : (mkOperand m n).OK strict := by
  refine ⟨?_, numTok n, [], rfl, modeStr_mem m⟩
  intro t ht
  simp only [mkOperand, List.mem_singleton] at ht
  subst ht; rfl

theorem mkStmt_ok {op : String} {md : Option String} (h : IsOpName (opString op md)) (i : Instr)
    (k : Nat) : (mkStmt op md i k).OK := by
  refine ⟨?_, h, mkOperand_ok true _ _, ?_⟩
  · intro l hl; cases hl
  · intro b hb
    simp only [mkStmt, Option.some.injEq] at hb
    subst hb
    exact mkOperand_ok false _ _

theorem pack_ok (ls : List FLine) (h : ∀ l ∈ ls, l.OK) : ∀ it ∈ (pack ls).2, it.OK := by
  induction ls with
  | nil => intro it hit; cases hit
  | cons l r ih =>
    have ihr := ih (fun x hx => h x (by simp [hx]))
    have hl := h l (by simp)
    intro it hit
    cases l with
    | blank => exact ihr it hit
    | cmt v =>
      simp only [pack, List.mem_cons] at hit
      rcases hit with rfl | hit
      · trivial
      · exact ihr it hit
    | instr op md i c =>
      cases c with
      | none =>
        simp only [pack, List.mem_cons] at hit
        rcases hit with rfl | hit
        · exact mkStmt_ok hl i _
        · exact ihr it hit
      | some c =>
        simp only [pack, List.mem_cons] at hit
        rcases hit with rfl | hit
        · exact ⟨mkStmt_ok hl i _, _, rfl⟩
        · exact ihr it hit
    | dir kw n c =>
      cases c with
      | none =>
        simp only [pack, List.mem_cons] at hit
        rcases hit with rfl | hit
        · exact ⟨hl, by simp, fun t ht => by simp at ht; subst ht; rfl⟩
        · exact ihr it hit
      | some c =>
        simp only [pack, List.mem_cons] at hit
        rcases hit with rfl | hit
        · exact ⟨hl, by simp, fun t ht => by simp at ht; subst ht; rfl⟩
        · exact ihr it hit

theorem pack_labels (ls : List FLine) : yitemsLabels (pack ls).2 = [] := by
  induction ls with
  | nil => rfl
  | cons l r ih =>
    cases l with
    | blank => exact ih
    | cmt v => simp [pack, yitemsLabels, YItem.labelNames, XItem.labelNames, Item.labelNames, ih]
    | instr op md i c =>
      cases c <;>
        simp [pack, yitemsLabels, YItem.labelNames, XItem.labelNames, Item.labelNames, Stmt.labelNames,
          mkStmt, ih]
    | dir kw n c => cases c <;> simp [pack, yitemsLabels, YItem.labelNames, XItem.labelNames, ih]

theorem addRefs_num (n : Nat) (refs : List String) : addRefs [numTok n] refs = refs := rfl

theorem mkStmt_refs (op : String) (md : Option String) (i : Instr) (k : Nat) (refs : List String) :
    (mkStmt op md i k).refs refs = refs := rfl

theorem pack_refs (ls : List FLine) (refs : List String) : yitemsRefs (pack ls).2 refs = refs := by
  induction ls with
  | nil => rfl
  | cons l r ih =>
    cases l with
    | blank => exact ih
    | cmt v => simp [pack, yitemsRefs, YItem.refs, XItem.refs, Item.refs, ih]
    | instr op md i c =>
      cases c <;> simp [pack, yitemsRefs, YItem.refs, XItem.refs, Item.refs, mkStmt_refs, ih]
    | dir kw n c => cases c <;> simp [pack, yitemsRefs, YItem.refs, XItem.refs, addRefs_num, ih]

theorem pack_meta (ls : List FLine) (h : ∀ l ∈ ls, l.OK) (m : AsmMeta) :
    yitemsMeta (pack ls).2 m = m := by
  induction ls with
  | nil => rfl
  | cons l r ih =>
    have ihr := ih (fun x hx => h x (by simp [hx]))
    have hl := h l (by simp)
    cases l with
    | blank => exact ihr
    | cmt v =>
      simp [pack, yitemsMeta, YItem.metadata, XItem.metadata, Item.metadata, captureMeta_plain hl, ihr]
    | instr op md i c =>
      cases c <;> simp [pack, yitemsMeta, YItem.metadata, XItem.metadata, Item.metadata, ihr]
    | dir kw n c => cases c <;> simp [pack, yitemsMeta, YItem.metadata, XItem.metadata, ihr]

/-! ### what the compiler reads of the parsed lines -/

theorem norm_strip_blankLines (ln : Int) (k : Nat) : norm ((blankLines ln k).map strip) = [] := by
  unfold blankLines
  split <;> rfl

theorem norm_strip_cmt (v : String) (k : Nat) (ln : Int) (h : plainCmt v = true) :
    norm ((commentLine ln v :: blankLines (ln + 1) k).map strip) = [] := by
  rw [List.map_cons, norm_cons_irrelevant _ _ (by
    simp only [relevant, strip, commentLine, beq_self_eq_true, if_true]
    rw [assert_plain h]; rfl), norm_strip_blankLines]

/-- the label-program item of an instruction line -/
def LIof (op : String) (md : Option String) (i : Instr) : LItem :=
  .instr [] op md ⟨some i.am, .num i.a.toNat⟩ (some ⟨some i.bm, .num i.b.toNat⟩)

theorem norm_strip_stmt (op : String) (md : Option String) (i : Instr) (k : Nat) (ln : Int) (cl : Nat) :
    norm (((mkStmt op md i k).lines ln (cl : Int)).map strip) = [(LIof op md i).toLine cl] := by
  simp only [Stmt.lines, mkStmt, List.map_cons]
  rw [norm_cons_relevant _ _ rfl, norm_strip_blankLines]
  rfl

theorem norm_strip_stmtC (op : String) (md : Option String) (i : Instr) (k : Nat) (c : String) (ln : Int)
    (cl : Nat) :
    norm ((stmtCLines (mkStmt op md i k) c ln (cl : Int)).map strip) = [(LIof op md i).toLine cl] := by
  simp only [stmtCLines, mkStmt, List.map_cons]
  rw [norm_cons_relevant _ _ rfl, norm_strip_blankLines]
  rfl

theorem norm_strip_org (kw : String) (n k : Nat) (ln : Int) :
    norm ((pseudoLine ln kw [numTok n] :: blankLines (ln + 1) k).map strip) =
      [(LItem.org kw (.num n)).toLine 0] := by
  rw [List.map_cons, norm_cons_relevant _ _ rfl, norm_strip_blankLines]
  rfl

theorem norm_strip_orgC (kw : String) (n k : Nat) (c : String) (ln : Int) :
    norm ((orgCLines kw [numTok n] c k ln).map strip) = [(LItem.org kw (.num n)).toLine 0] := by
  simp only [orgCLines, List.map_cons]
  rw [norm_cons_relevant _ _ rfl, norm_strip_blankLines]
  rfl

theorem norm_lrender_instr (cl : Nat) (op : String) (md : Option String) (i : Instr) (r : List LItem) :
    norm (lrender cl (LIof op md i :: r)) = (LIof op md i).toLine cl :: norm (lrender (cl + 1) r) := by
  simp only [lrender, LIof, LItem.isInstr, if_true]
  rw [norm_cons_relevant _ _ rfl]
  rfl

theorem norm_lrender_org (cl : Nat) (kw : String) (e : NT) (r : List LItem) :
    norm (lrender cl (LItem.org kw e :: r)) = (LItem.org kw e).toLine 0 :: norm (lrender cl r) := by
  simp only [lrender, LItem.isInstr, Bool.false_eq_true, if_false]
  rw [norm_cons_relevant _ _ rfl]
  rfl

theorem linstrCount_cons_instr (op : String) (md : Option String) (i : Instr) (r : List LItem) :
    linstrCount (LIof op md i :: r) = linstrCount r + 1 := by
  simp [linstrCount, LIof, LItem.isInstr, List.filter_cons]

theorem linstrCount_cons_org (kw : String) (e : NT) (r : List LItem) :
    linstrCount (LItem.org kw e :: r) = linstrCount r := by
  simp [linstrCount, LItem.isInstr]

theorem norm_item_cmt (v : String) (k : Nat) (ln cl : Int) (h : plainCmt v = true) :
    norm (((YItem.x (.base (.comment v k))).lines ln cl).map strip) = [] :=
  norm_strip_cmt v k ln h

theorem norm_item_stmt (op : String) (md : Option String) (i : Instr) (k : Nat) (ln : Int) (cl : Nat) :
    norm (((YItem.x (.base (.stmt (mkStmt op md i k)))).lines ln (cl : Int)).map strip) =
      [(LIof op md i).toLine cl] :=
  norm_strip_stmt op md i k ln cl

theorem norm_item_stmtC (op : String) (md : Option String) (i : Instr) (k : Nat) (c : String) (ln : Int)
    (cl : Nat) :
    norm (((YItem.stmtC (mkStmt op md i k) c).lines ln (cl : Int)).map strip) =
      [(LIof op md i).toLine cl] :=
  norm_strip_stmtC op md i k c ln cl

theorem norm_item_org (kw : String) (n k : Nat) (ln cl : Int) :
    norm (((YItem.x (.org kw [numTok n] k)).lines ln cl).map strip) = [(LItem.org kw (.num n)).toLine 0] :=
  norm_strip_org kw n k ln

theorem norm_item_orgC (kw : String) (n k : Nat) (c : String) (ln cl : Int) :
    norm (((YItem.orgC kw [numTok n] c k).lines ln cl).map strip) = [(LItem.org kw (.num n)).toLine 0] :=
  norm_strip_orgC kw n k c ln

/-- **what the compiler reads of the parsed lines** (trailing comments forgotten) is the
    rendering of the label program the lines denote; the code line counter ends at the number of
    instructions -/
theorem pack_norm (ls : List FLine) (h : ∀ l ∈ ls, l.OK) : ∀ (ln : Int) (cl : Nat),
    norm ((yitemsLines (pack ls).2 ln (cl : Int)).map strip) = norm (lrender cl (flItems ls)) ∧
      yitemsEndCode (pack ls).2 (cl : Int) = ((cl + linstrCount (flItems ls) : Nat) : Int) := by
  induction ls with
  | nil => intro ln cl; exact ⟨rfl, by simp [pack, yitemsEndCode, flItems, linstrCount]⟩
  | cons l r ih =>
    have ihr := ih (fun x hx => h x (by simp [hx]))
    have hl := h l (by simp)
    intro ln cl
    cases l with
    | blank => exact ihr ln cl
    | cmt v =>
      obtain ⟨i1, i2⟩ := ihr (ln + 1 + ((pack r).1 : Int)) cl
      simp only [pack, yitemsLines, List.map_append, norm_append, norm_item_cmt v _ ln _ hl,
        List.nil_append, flItems, FLine.litems, yitemsEndCode, YItem.blanks, XItem.blanks, Item.blanks,
        YItem.codeLines, XItem.codeLines, Item.codeLines, Int.add_zero]
      exact ⟨i1, i2⟩
    | instr op md i c =>
      obtain ⟨i1, i2⟩ := ihr (ln + 1 + ((pack r).1 : Int)) (cl + 1)
      have e : ((cl : Int) + 1) = ((cl + 1 : Nat) : Int) := by omega
      have hc : ((cl + 1 + linstrCount (flItems r) : Nat) : Int) =
          ((cl + (linstrCount (flItems r) + 1) : Nat) : Int) := by omega
      have hcount : linstrCount (LIof op md i :: flItems r) = linstrCount (flItems r) + 1 :=
        linstrCount_cons_instr op md i _
      cases c with
      | none =>
        simp only [pack, yitemsLines, List.map_append, norm_append, norm_item_stmt, flItems, FLine.litems,
          yitemsEndCode, List.singleton_append, YItem.blanks, XItem.blanks, Item.blanks,
          YItem.codeLines, XItem.codeLines, Item.codeLines, e]
        refine ⟨?_, ?_⟩
        · rw [show (mkStmt op md i (pack r).1).blanks = (pack r).1 from rfl, i1]
          exact (norm_lrender_instr cl op md i (flItems r)).symm
        · rw [i2, hc, ← hcount]; rfl
      | some c =>
        simp only [pack, yitemsLines, List.map_append, norm_append, norm_item_stmtC, flItems, FLine.litems,
          yitemsEndCode, List.singleton_append, YItem.blanks, YItem.codeLines, e]
        refine ⟨?_, ?_⟩
        · rw [show (mkStmt op md i (pack r).1).blanks = (pack r).1 from rfl, i1]
          exact (norm_lrender_instr cl op md i (flItems r)).symm
        · rw [i2, hc, ← hcount]; rfl
    | dir kw n c =>
      obtain ⟨i1, i2⟩ := ihr (ln + 1 + ((pack r).1 : Int)) cl
      cases c with
      | none =>
        simp only [pack, yitemsLines, List.map_append, norm_append, norm_item_org, flItems, FLine.litems,
          yitemsEndCode, List.singleton_append, YItem.blanks, XItem.blanks, YItem.codeLines,
          XItem.codeLines, Int.add_zero]
        refine ⟨?_, ?_⟩
        · rw [i1]; exact (norm_lrender_org cl kw _ (flItems r)).symm
        · rw [i2, linstrCount_cons_org]
      | some c =>
        simp only [pack, yitemsLines, List.map_append, norm_append, norm_item_orgC, flItems, FLine.litems,
          yitemsEndCode, List.singleton_append, YItem.blanks, YItem.codeLines, Int.add_zero]
        refine ⟨?_, ?_⟩
        · rw [i1]; exact (norm_lrender_org cl kw _ (flItems r)).symm
        · rw [i2, linstrCount_cons_org]

end AsmLayout
end Gmars
