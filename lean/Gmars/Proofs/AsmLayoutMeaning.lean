/-
  C09, assembler half, layout perturbations (part 7): the label program a layout denotes — the
  load program of `AsmPrint` with every mnemonic, modifier and `ORG` / `END` word in its own
  letter case — and its reference meaning.

    * `LIR`, `progR`            the program
    * `progR_labelsFrom`, `progR_count`, `progR_progWF`   the hypotheses of `compileX_meaning_labels`
    * `meaningFlat_progR`       its meaning is `code` / `start`
-/
import Gmars.Proofs.AsmLayoutLines

namespace Gmars
namespace AsmLayout
open Gmars.Render Gmars.AsmCompose Gmars.AsmLine Gmars.ExprProofs Gmars.AsmPrint Gmars.AsmComposeEqu
open Gmars.LoadLayout (Layout InstrLay DirLay)

/-- the label-program item of an instruction line of a layout -/
def LIR (legacy : Bool) (p : InstrLay) : LItem :=
  LIof (opR p.mask p.instr) (mdR legacy p.mask p.instr) p.instr

/-- the label program of a layout: `ORG start` first ('94) or `END start` last ('88) -/
def progR (legacy : Bool) (L : Layout) (start : Nat) : List LItem :=
  if legacy then L.lines.map (LIR true) ++ [.end_ (recaseS L.dir.mask "END") (some (.num start))]
  else .org (recaseS L.dir.mask "ORG") (.num start) :: L.lines.map (LIR false)

theorem labelsFrom_LIR (legacy : Bool) (ps : List InstrLay) (k : Nat) :
    labelsFrom k (ps.map (LIR legacy)) = [] := by
  induction ps generalizing k with
  | nil => rfl
  | cons p r ih => simp [LIR, LIof, labelsFrom, ih]

theorem linstrCount_LIR (legacy : Bool) (ps : List InstrLay) :
    linstrCount (ps.map (LIR legacy)) = ps.length := by
  induction ps with
  | nil => rfl
  | cons p r ih =>
    rw [List.map_cons, LIR, linstrCount_cons_instr, List.length_cons]
    exact congrArg (· + 1) ih

theorem progR_labelsFrom (legacy : Bool) (L : Layout) (start : Nat) :
    labelsFrom 0 (progR legacy L start) = [] := by
  unfold progR
  cases legacy
  · simp [labelsFrom, labelsFrom_LIR]
  · simp [labelsFrom_append, labelsFrom, labelsFrom_LIR]

theorem progR_count (legacy : Bool) (L : Layout) (start : Nat) :
    linstrCount (progR legacy L start) = L.lines.length := by
  unfold progR
  cases legacy
  · simp only [Bool.false_eq_true, if_false, linstrCount_cons_org, linstrCount_LIR]
  · simp only [if_true]
    have := linstrCount_LIR true L.lines
    simp only [linstrCount, List.filter_append, List.length_append] at this ⊢
    simp [this, LItem.isInstr]

theorem LIR_wf (legacy : Bool) (M : Nat) (S : List (String × Nat)) (k : Nat) (p : InstrLay) :
    (LIR legacy p).WF M S k := by
  refine ⟨(caseEq_opR p.mask p.instr).2.1, dot_not_mem_opR p.mask p.instr, ?_,
    goodTmpl_num _ _ p.instr.a.toNat_lt, ?_⟩
  · intro s hs
    cases legacy
    · simp only [mdR, Bool.false_eq_true, if_false, Option.some.injEq] at hs
      subst hs
      exact (caseEq_recaseS _ (ascii_mdName p.instr.md)).2.1
    · simp [mdR] at hs
  · intro bo hbo
    cases hbo
    exact goodTmpl_num _ _ p.instr.b.toNat_lt

theorem progWF_LIR (legacy : Bool) (M : Nat) (S : List (String × Nat)) (ps : List InstrLay)
    (tl : List LItem) (htl : ∀ k, ProgWF M S k tl) :
    ∀ k, ProgWF M S k (ps.map (LIR legacy) ++ tl) := by
  induction ps with
  | nil => exact htl
  | cons p r ih =>
    intro k
    simp only [List.map_cons, List.cons_append, ProgWF]
    exact ⟨LIR_wf legacy M S k p, ih _⟩

theorem progR_progWF (legacy : Bool) (M : Nat) (L : Layout) (start : Nat) (hs : start < 2 ^ 64) :
    ProgWF M (labelsFrom 0 (progR legacy L start)) 0 (progR legacy L start) := by
  rw [progR_labelsFrom]
  unfold progR
  cases legacy
  · simp only [Bool.false_eq_true, if_false, ProgWF, LItem.isInstr]
    refine ⟨⟨lowerStr_orgR _, goodTmpl_num _ _ hs⟩, ?_⟩
    have := progWF_LIR false M [] L.lines [] (fun _ => trivial) 0
    simpa using this
  · simp only [if_true]
    refine progWF_LIR true M [] L.lines _ (fun k => ?_) 0
    refine ⟨⟨lowerStr_endR _, ?_⟩, trivial⟩
    intro x hx
    cases hx
    exact goodTmpl_num _ _ hs

/-! ### the meaning: letter case is not seen -/

/-- the same item as the reference reads it, as an item of `AsmEqu` -/
def xOf (op : String) (md : Option String) (i : Instr) : AsmLine.XItem :=
  .instr [] op md ⟨some i.am, [.num i.a.toNat]⟩ (some ⟨some i.bm, [.num i.b.toNat]⟩)

theorem xcases_lines (legacy : Bool) (ps : List InstrLay) (tl tl' : List AsmLine.XItem)
    (h : XCases tl tl') :
    XCases ((ps.map (fun p => xOf p.instr.op.name (mdText legacy p.instr) p.instr)) ++ tl)
      ((ps.map (fun p => xOf (opR p.mask p.instr) (mdR legacy p.mask p.instr) p.instr)) ++ tl') := by
  induction ps with
  | nil => exact h
  | cons p r ih =>
    exact ⟨⟨_, _, rfl, caseEq_opR p.mask p.instr, caseEqO_mdR legacy p.mask p.instr⟩, ih⟩

/-- **the reference reads the program of a layout as `code` / `start`** -/
theorem meaningFlat_progR (sc : Spec.Cfg) (L : Layout) (start : Nat)
    (hf : ∀ p ∈ L.lines, p.instr.a.toNat < sc.M ∧ p.instr.b.toNat < sc.M)
    (h31 : ∀ p ∈ L.lines, p.instr.a.toNat < 2 ^ 31 ∧ p.instr.b.toNat < 2 ^ 31) (hs31 : start < 2 ^ 31)
    (hstart : start < L.lines.length) (hlen : L.lines.length ≤ sc.maxLen)
    (hl : sc.legacy = true → ∀ p ∈ L.lines, Spec.Legal88 p.instr = true) :
    Spec.meaningFlat sc ((progR sc.legacy L start).map LItem.toItem) =
      some { code := L.lines.map (·.instr), start := start } := by
  have hcanon := meaningFlat_loadProg sc (L.lines.map (·.instr)) start
    (by intro i hi; obtain ⟨p, hp, rfl⟩ := List.mem_map.1 hi; exact hf p hp)
    (by intro i hi; obtain ⟨p, hp, rfl⟩ := List.mem_map.1 hi; exact h31 p hp) hs31
    (by simpa using hstart) (by simpa using hlen)
    (by intro h i hi; obtain ⟨p, hp, rfl⟩ := List.mem_map.1 hi; exact hl h p hp)
  rw [← hcanon, loadProg_litems]
  unfold progR
  cases sc.legacy
  · simp only [Bool.false_eq_true, if_false]
    have hx := xcases_lines false L.lines [] [] trivial
    have := (XCases.meaning_eq (XCases.append (P := [AsmLine.XItem.org "ORG" [.num start]])
      (Q := [AsmLine.XItem.org (recaseS L.dir.mask "ORG") [.num start]])
      ⟨⟨_, rfl, (caseEq_recaseS L.dir.mask ascii_ORG).2.2⟩, trivial⟩ hx) sc)
    simp only [List.append_nil, List.cons_append, List.nil_append, List.map_cons, List.map_map] at this
    simp only [List.map_cons, List.map_map]
    exact this
  · simp only [if_true]
    have hx := xcases_lines true L.lines [AsmLine.XItem.end_ "END" (some [.num start])]
      [AsmLine.XItem.end_ (recaseS L.dir.mask "END") (some [.num start])]
      ⟨⟨_, rfl, (caseEq_recaseS L.dir.mask ascii_END).2.2⟩, trivial⟩
    have := XCases.meaning_eq hx sc
    simp only [List.map_append, List.map_cons, List.map_map, List.map_nil] at this ⊢
    exact this

end AsmLayout
end Gmars
