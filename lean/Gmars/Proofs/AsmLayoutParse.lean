/-
  C09, assembler half, layout perturbations (part 1): the parser stage on programs whose
  statement, ORG and END lines may carry a TRAILING COMMENT.  Extends
  `Gmars/Proofs/AsmComposeParse.lean` (statements, comment lines, blank lines, ORG lines, a final
  END line).

    * `step_exprB_comment`, `step_pseudoExpr_comment`   the two new transitions
    * `YItem`       an item of `AsmComposeParse` or a statement / ORG line with a trailing comment
    * `YFin`        how the token stream ends: EOF, an END line (with or without a trailing
                    comment) followed by anything, or an UNTERMINATED last line (comment line,
                    statement, END line) followed by EOF
    * `parse_yprog` : `parse p.tokens = .ok (some (p.lines, p.metadata))`

  A trailing comment is recorded in the `comment` field of the instruction / pseudo-op line (it is
  NOT scanned for `;name` / `;author` / `;strategy`: only `parseLine` does that, at the start of
  a line), the newline after it is counted in `newlines`.
-/
import Gmars.Proofs.AsmComposeParse

namespace Gmars
namespace AsmLayout
open Gmars.Parser Gmars.Render Gmars.AsmCompose

def cmtTok (v : String) : Token := ⟨.comment, v⟩

/-! ### the new transitions -/

/-- `parseExprB` up to a comment: nothing is emitted yet -/
theorem step_exprB_comment (c : Ctx) (toks : List Token) (hts : ∀ t ∈ toks, t.isExpressionTerm = true)
    (v : String) (rest' : List Token) (t0 : Token) (rest0 : List Token)
    (h : t0 :: rest0 = toks ++ cmtTok v :: rest') :
    step .exprB (c.st t0 rest0) =
      .ok (({ c with references := addRefs toks c.references,
                     cur := { c.cur with b := some (c.cur.b.getD [] ++ toks) } } : Ctx).st
             (cmtTok v) rest', some .comment) := by
  simp only [step]
  rw [collectExpr_ok "parseExprB" toks hts (cmtTok v) rfl rest' c t0 rest0 h]
  simp [bind, Except.bind, pure, Except.pure, Ctx.st, cmtTok]

/-- `parsePseudoExpr` up to a comment -/
theorem step_pseudoExpr_comment (c : Ctx) (toks : List Token)
    (hts : ∀ t ∈ toks, t.isExpressionTerm = true)
    (v : String) (rest' : List Token) (t0 : Token) (rest0 : List Token)
    (h : t0 :: rest0 = toks ++ cmtTok v :: rest') :
    step .pseudoExpr (c.st t0 rest0) =
      .ok (({ c with references := addRefs toks c.references,
                     cur := { c.cur with a := some (c.cur.a.getD [] ++ toks) } } : Ctx).st
             (cmtTok v) rest', some .comment) := by
  simp only [step]
  rw [collectExpr_ok "parsePseudoExpr" toks hts (cmtTok v) rfl rest' c t0 rest0 h]
  simp [bind, Except.bind, pure, Except.pure, Ctx.st, cmtTok]

/-! ### a statement with a trailing comment -/

/-- the statement `s` (with a B operand), a comment, the newline and `s.blanks` further newlines -/
def stmtCTokens (s : Stmt) (v : String) : List Token :=
  labelTokens s.labels ++
    ((⟨.text, s.op⟩ : Token) :: (s.a.tokens ++ (s.bTokens ++ cmtTok v :: nlTok :: List.replicate s.blanks nlTok)))

def stmtCLines (s : Stmt) (v : String) (ln cl : Int) : List SourceLine :=
  { s.instrLine ln cl with comment := v } :: blankLines (ln + 1) s.blanks

theorem reach_stmtC (s : Stmt) (hs : s.OK) (bo : Operand) (hb : s.b = some bo) (v : String) (c : Ctx)
    (hf : FreshLabels s.labelNames c.symbols)
    (t' : Token) (ht' : (t'.typ == TokType.newline) = false) (rest' : List Token)
    (t0 : Token) (rest0 : List Token) (h : t0 :: rest0 = stmtCTokens s v ++ t' :: rest') :
    ∃ cur', ReachLe (8 * (stmtCTokens s v).length) .line (c.st t0 rest0) .line
      (({ line := c.line + 1 + s.blanks, codeLine := c.codeLine + 1, cur := cur',
          metadata := c.metadata, lines := c.lines ++ stmtCLines s v c.line c.codeLine,
          symbols := s.labelNames.reverse ++ c.symbols,
          references := s.refs c.references } : Ctx).st t' rest') := by
  obtain ⟨hlab, hop, ha, hbk⟩ := hs
  rcases s with ⟨ls, op, a, b, blanks⟩
  simp only at hb
  subst hb
  simp only [Stmt.labelNames] at hf hlab hop ha hbk ⊢
  simp only [stmtCTokens, List.append_assoc, List.cons_append] at h
  obtain ⟨w, hw⟩ : ∃ w, t0 = ⟨.text, w⟩ := by
    cases ls with
    | nil => simp [labelTokens] at h; exact ⟨_, h.1⟩
    | cons lc ls => obtain ⟨l, cl⟩ := lc; simp [labelTokens] at h; exact ⟨_, h.1⟩
  subst hw
  have hLlen := labelTokens_length ls
  have h1 := ReachLe.one (step_line_text c w rest0)
  have h2 := reach_labels op hop _ ls ({ c with cur := { line := c.line } } : Ctx) _ rest0 hlab hf h
  obtain ⟨t, ts, htoks, h3⟩ := reach_opA
    ({ c with cur := { line := c.line, labels := [] ++ ls.map (·.1) },
              symbols := (ls.map (·.1)).reverse ++ c.symbols } : Ctx) op a ha
    (Stmt.bTokens ⟨ls, op, a, some bo, blanks⟩ ++
      cmtTok v :: nlTok :: (List.replicate blanks nlTok ++ t' :: rest'))
  have h123 := (h1.trans h2).trans h3
  have hAlen : 1 ≤ a.tokens.length := by simp [Operand.tokens, htoks]; omega
  clear h1 h2 h3
  have hbo : bo.OK false := hbk bo rfl
  simp only [Stmt.bTokens, List.cons_append] at h123
  have h4 := h123.trans (ReachLe.one (step_exprA_comma _ a.toks ha.1
    (bo.tokens ++ cmtTok v :: nlTok :: (List.replicate blanks nlTok ++ t' :: rest')) t
    (ts ++ commaTok :: (bo.tokens ++ cmtTok v :: nlTok :: (List.replicate blanks nlTok ++ t' :: rest')))
    (by simp [htoks])))
  obtain ⟨t'', rest'', h''⟩ : ∃ t'' rest'', t'' :: rest'' = List.replicate blanks nlTok ++ t' :: rest' := by
    cases blanks <;> simp [List.replicate_succ]
  rw [← h''] at h4
  have hB : ∀ (cc : Ctx), ∃ t2 ts2, bo.toks = t2 :: ts2 ∧
      ReachLe 2 .comma (cc.st commaTok (bo.tokens ++ cmtTok v :: nlTok :: t'' :: rest'')) .exprB
        (({ cc with cur := { cc.cur with bmode := bo.mode.getD cc.cur.bmode } } : Ctx).st t2
          (ts2 ++ cmtTok v :: nlTok :: t'' :: rest'')) := fun cc => reach_commaB cc bo hbo _
  obtain ⟨t2, ts2, htoks2, h5⟩ := hB _
  have h5 := h4.trans h5
  have hBlen : 1 ≤ bo.tokens.length := by simp [Operand.tokens, htoks2]; omega
  have h6 := h5.trans (ReachLe.one (step_exprB_comment _ bo.toks hbo.1 v (nlTok :: t'' :: rest'') t2
    (ts2 ++ cmtTok v :: nlTok :: t'' :: rest'') (by simp [htoks2])))
  have h7 := h6.trans (ReachLe.one (step_comment _ v t'' rest''))
  obtain ⟨cur', h8⟩ := reach_blanks _ blanks t' ht' rest' t'' rest'' h''
  refine ⟨cur', (h7.trans h8).mono' ?_ ?_⟩
  · simp [stmtCLines, Stmt.instrLine, Stmt.refs, Stmt.labelNames]
  · simp [stmtCTokens, Stmt.bTokens]; omega

/-! ### an ORG line with a trailing comment -/

def orgCTokens (kw : String) (toks : List Token) (v : String) (k : Nat) : List Token :=
  (⟨.text, kw⟩ : Token) :: (toks ++ cmtTok v :: nlTok :: List.replicate k nlTok)

def orgCLines (kw : String) (toks : List Token) (v : String) (k : Nat) (ln : Int) : List SourceLine :=
  { pseudoLine ln kw toks with comment := v } :: blankLines (ln + 1) k

theorem reach_orgC (kw : String) (hk : lowerStr kw = "org") (toks : List Token)
    (hne : toks ≠ []) (hts : ∀ t ∈ toks, t.isExpressionTerm = true) (v : String) (k : Nat) (c : Ctx)
    (t' : Token) (ht' : (t'.typ == TokType.newline) = false) (rest' : List Token)
    (t0 : Token) (rest0 : List Token)
    (h : t0 :: rest0 = orgCTokens kw toks v k ++ t' :: rest') :
    ∃ cur', ReachLe (8 * (orgCTokens kw toks v k).length) .line (c.st t0 rest0) .line
      (({ line := c.line + 1 + k, codeLine := c.codeLine, cur := cur',
          metadata := c.metadata,
          lines := c.lines ++ orgCLines kw toks v k c.line,
          symbols := c.symbols, references := addRefs toks c.references } : Ctx).st t' rest') := by
  simp only [orgCTokens, List.cons_append, List.cons.injEq, List.append_assoc] at h
  obtain ⟨rfl, rfl⟩ := h
  obtain ⟨t1, ts1, rfl⟩ : ∃ t1 ts1, toks = t1 :: ts1 := by
    cases toks with
    | nil => exact absurd rfl hne
    | cons a b => exact ⟨a, b, rfl⟩
  obtain ⟨t'', rest'', h''⟩ : ∃ t'' rest'', t'' :: rest'' = List.replicate k nlTok ++ t' :: rest' := by
    cases k <;> simp [List.replicate_succ]
  rw [← h'']
  have hpo := isPseudoOp_of_lower hk (Or.inl rfl)
  have h1 := ReachLe.one (step_line_text c kw (t1 :: ts1 ++ cmtTok v :: nlTok :: t'' :: rest''))
  have h2 := h1.trans (ReachLe.one (step_labels_pseudo _ kw hpo _))
  have h3 := h2.trans (ReachLe.one (step_pseudoOp_org _ kw hk t1 (hts t1 (by simp)) _))
  have h4 := h3.trans (ReachLe.one (step_pseudoExpr_comment _ (t1 :: ts1) hts v (nlTok :: t'' :: rest'') t1
    (ts1 ++ cmtTok v :: nlTok :: t'' :: rest'') (by simp)))
  have h5 := h4.trans (ReachLe.one (step_comment _ v t'' rest''))
  obtain ⟨cur', h6⟩ := reach_blanks _ k t' ht' rest' t'' rest'' h''
  refine ⟨cur', (h5.trans h6).mono' ?_ (by simp [orgCTokens]; omega)⟩
  simp [orgCLines, pseudoLine]

/-! ### items -/

/-- an item of `AsmComposeParse` (statement, comment line, ORG line), or a statement with a B
    operand / an ORG line followed by a comment on the same line -/
inductive YItem
  | x (it : XItem)
  | stmtC (s : Stmt) (v : String)
  | orgC (kw : String) (toks : List Token) (v : String) (blanks : Nat)

def YItem.tokens : YItem → List Token
  | .x it => it.tokens
  | .stmtC s v => stmtCTokens s v
  | .orgC kw toks v k => orgCTokens kw toks v k

def YItem.OK : YItem → Prop
  | .x it => it.OK
  | .stmtC s _ => s.OK ∧ ∃ bo, s.b = some bo
  | .orgC kw toks _ _ => lowerStr kw = "org" ∧ toks ≠ [] ∧ ∀ t ∈ toks, t.isExpressionTerm = true

def YItem.lines : YItem → Int → Int → List SourceLine
  | .x it, ln, cl => it.lines ln cl
  | .stmtC s v, ln, cl => stmtCLines s v ln cl
  | .orgC kw toks v k, ln, _ => orgCLines kw toks v k ln

def YItem.blanks : YItem → Nat
  | .x it => it.blanks
  | .stmtC s _ => s.blanks
  | .orgC _ _ _ k => k

def YItem.codeLines : YItem → Int
  | .x it => it.codeLines
  | .stmtC _ _ => 1
  | .orgC _ _ _ _ => 0

def YItem.labelNames : YItem → List String
  | .x it => it.labelNames
  | .stmtC s _ => s.labelNames
  | .orgC _ _ _ _ => []

def YItem.refs : YItem → List String → List String
  | .x it, refs => it.refs refs
  | .stmtC s _, refs => s.refs refs
  | .orgC _ toks _ _, refs => addRefs toks refs

def YItem.metadata : YItem → AsmMeta → AsmMeta
  | .x it, m => it.metadata m
  | .stmtC _ _, m => m
  | .orgC _ _ _ _, m => m

theorem reach_yitem (it : YItem) (hok : it.OK) (c : Ctx) (hf : FreshLabels it.labelNames c.symbols)
    (t' : Token) (ht' : (t'.typ == TokType.newline) = false) (rest' : List Token)
    (t0 : Token) (rest0 : List Token) (h : t0 :: rest0 = it.tokens ++ t' :: rest') :
    ∃ cur', ReachLe (8 * it.tokens.length) .line (c.st t0 rest0) .line
      (({ line := c.line + 1 + it.blanks, codeLine := c.codeLine + it.codeLines, cur := cur',
          metadata := it.metadata c.metadata, lines := c.lines ++ it.lines c.line c.codeLine,
          symbols := it.labelNames.reverse ++ c.symbols,
          references := it.refs c.references } : Ctx).st t' rest') := by
  cases it with
  | x it => exact reach_xitem it hok c hf t' ht' rest' t0 rest0 h
  | stmtC s v =>
    obtain ⟨hs, bo, hb⟩ := hok
    exact reach_stmtC s hs bo hb v c hf t' ht' rest' t0 rest0 h
  | orgC kw toks v k =>
    obtain ⟨hk, hne, hts⟩ := hok
    obtain ⟨cur', h1⟩ := reach_orgC kw hk toks hne hts v k c t' ht' rest' t0 rest0 h
    refine ⟨cur', h1.mono' ?_ (Nat.le_refl _)⟩
    simp [YItem.lines, YItem.blanks, YItem.codeLines, YItem.metadata, YItem.labelNames, YItem.refs]

def yitemsTokens : List YItem → List Token
  | [] => []
  | it :: r => it.tokens ++ yitemsTokens r

def yitemsLines : List YItem → Int → Int → List SourceLine
  | [], _, _ => []
  | it :: r, ln, cl => it.lines ln cl ++ yitemsLines r (ln + 1 + it.blanks) (cl + it.codeLines)

def yitemsLabels : List YItem → List String
  | [] => []
  | it :: r => it.labelNames ++ yitemsLabels r

def yitemsRefs : List YItem → List String → List String
  | [], refs => refs
  | it :: r, refs => yitemsRefs r (it.refs refs)

def yitemsMeta : List YItem → AsmMeta → AsmMeta
  | [], m => m
  | it :: r, m => yitemsMeta r (it.metadata m)

def yitemsEndLine : List YItem → Int → Int
  | [], ln => ln
  | it :: r, ln => yitemsEndLine r (ln + 1 + it.blanks)

def yitemsEndCode : List YItem → Int → Int
  | [], cl => cl
  | it :: r, cl => yitemsEndCode r (cl + it.codeLines)

/-- every item starts with a token that is not a newline -/
theorem yitem_tokens_head (it : YItem) (r : List Token) :
    ∃ t1 rest1, it.tokens ++ r = t1 :: rest1 ∧ (t1.typ == TokType.newline) = false := by
  cases it with
  | x it => exact xitem_tokens_head it r
  | stmtC s v =>
    simp only [YItem.tokens, stmtCTokens, List.append_assoc]
    cases hl : s.labels with
    | nil => exact ⟨_, _, by simp [labelTokens]; exact ⟨rfl, rfl⟩, rfl⟩
    | cons lc ls =>
      obtain ⟨l, cl⟩ := lc
      exact ⟨_, _, by simp [labelTokens]; exact ⟨rfl, rfl⟩, rfl⟩
  | orgC kw toks v k => exact ⟨_, _, by simp [YItem.tokens, orgCTokens]; exact ⟨rfl, rfl⟩, rfl⟩

theorem reach_yitems (t' : Token) (ht' : (t'.typ == TokType.newline) = false) (rest' : List Token) :
    ∀ (items : List YItem) (c : Ctx) (t0 : Token) (rest0 : List Token),
      (∀ it ∈ items, it.OK) → FreshLabels (yitemsLabels items) c.symbols →
      t0 :: rest0 = yitemsTokens items ++ t' :: rest' →
      ∃ cur', ReachLe (8 * (yitemsTokens items).length) .line (c.st t0 rest0) .line
        (({ line := yitemsEndLine items c.line, codeLine := yitemsEndCode items c.codeLine, cur := cur',
            metadata := yitemsMeta items c.metadata,
            lines := c.lines ++ yitemsLines items c.line c.codeLine,
            symbols := (yitemsLabels items).reverse ++ c.symbols,
            references := yitemsRefs items c.references } : Ctx).st t' rest') := by
  intro items
  induction items with
  | nil =>
    intro c t0 rest0 _ _ h
    simp [yitemsTokens] at h; obtain ⟨rfl, rfl⟩ := h
    exact ⟨c.cur, by
      simpa [yitemsTokens, yitemsEndLine, yitemsEndCode, yitemsMeta, yitemsLines, yitemsLabels,
        yitemsRefs] using ReachLe.refl .line (c.st t0 rest0)⟩
  | cons it items ih =>
    intro c t0 rest0 hok hf h
    simp only [yitemsLabels, FreshLabels_append] at hf
    simp only [yitemsTokens, List.append_assoc] at h
    obtain ⟨t1, rest1, h1, ht1⟩ : ∃ t1 rest1, t1 :: rest1 = yitemsTokens items ++ t' :: rest' ∧
        (t1.typ == TokType.newline) = false := by
      cases items with
      | nil => exact ⟨t', rest', by simp [yitemsTokens], ht'⟩
      | cons it' items' =>
        obtain ⟨t1, rest1, e, ht1⟩ := yitem_tokens_head it' (yitemsTokens items' ++ t' :: rest')
        exact ⟨t1, rest1, by simp only [yitemsTokens, List.append_assoc]; exact e.symm, ht1⟩
    rw [← h1] at h
    obtain ⟨cur1, r1⟩ := reach_yitem it (hok it (by simp)) c hf.1 t1 ht1 rest1 t0 rest0 h
    obtain ⟨cur2, r2⟩ := ih
      ({ line := c.line + 1 + it.blanks, codeLine := c.codeLine + it.codeLines, cur := cur1,
         metadata := it.metadata c.metadata, lines := c.lines ++ it.lines c.line c.codeLine,
         symbols := it.labelNames.reverse ++ c.symbols,
         references := it.refs c.references } : Ctx)
      t1 rest1 (fun x hx => hok x (by simp [hx])) hf.2 h1
    refine ⟨cur2, (r1.trans r2).mono' ?_ (by simp [yitemsTokens]; omega)⟩
    simp [yitemsEndLine, yitemsEndCode, yitemsMeta, yitemsLines, yitemsLabels, yitemsRefs]

/-! ### the END line with a trailing comment -/

theorem step_pseudoExpr_comment_end (c : Ctx) (toks : List Token)
    (hts : ∀ t ∈ toks, t.isExpressionTerm = true)
    (v : String) (rest' : List Token) (t0 : Token) (rest0 : List Token)
    (h : t0 :: rest0 = toks ++ cmtTok v :: rest') :
    step .pseudoExpr (withEnd (c.st t0 rest0)) =
      .ok (withEnd (Ctx.st
            { c with references := addRefs toks c.references,
                     cur := { c.cur with a := some (c.cur.a.getD [] ++ toks) } } (cmtTok v) rest'),
           some .comment) := by
  simp only [step]
  rw [collectExpr_withEnd, collectExpr_ok "parsePseudoExpr" toks hts (cmtTok v) rfl rest' c t0 rest0 h]
  simp [bind, Except.bind, pure, Except.pure, Except.map, Ctx.st, cmtTok, withEnd]

theorem step_comment_end (c : Ctx) (v : String) (t'' : Token) (rest'' : List Token) :
    step .comment (withEnd (c.st (cmtTok v) (nlTok :: t'' :: rest''))) =
      .ok (withEnd (Ctx.st
            { c with line := c.line + 1,
                     cur := { c.cur with comment := v, newlines := c.cur.newlines + 1 },
                     lines := c.lines ++ [{ c.cur with comment := v, newlines := c.cur.newlines + 1 }] }
            t'' rest''), some .line) := by
  simp [step, Ctx.st, consumeEmitLine, advance, next, nlTok, emit, incNewlines, withEnd, cmtTok]

/-- the END line `kw toks ;comment` as the parser records it -/
def endLineC (ln : Int) (kw : String) (toks : List Token) (v : String) : SourceLine :=
  { endLine ln kw toks with comment := v }

theorem run_endC (kw : String) (hk : lowerStr kw = "end") (toks : List Token) (hne : toks ≠ [])
    (hts : ∀ t ∈ toks, t.isExpressionTerm = true) (v : String) (c : Ctx)
    (t'' : Token) (rest'' : List Token) (t0 : Token) (rest0 : List Token)
    (h : t0 :: rest0 = (⟨.text, kw⟩ : Token) :: (toks ++ cmtTok v :: nlTok :: t'' :: rest'')) (fuel : Nat) :
    run (fuel + 6) .line (c.st t0 rest0) =
      .ok (withEnd (Ctx.st
            { line := c.line + 1, codeLine := c.codeLine, cur := endLineC c.line kw toks v,
              metadata := c.metadata,
              lines := c.lines ++ [endLineC c.line kw toks v],
              symbols := c.symbols, references := addRefs toks c.references } t'' rest'')) := by
  simp only [List.cons.injEq] at h
  obtain ⟨rfl, rfl⟩ := h
  have hpo := isPseudoOp_of_lower hk (Or.inr rfl)
  obtain ⟨t1, ts1, rfl⟩ : ∃ t1 ts1, toks = t1 :: ts1 := by
    cases toks with
    | nil => exact absurd rfl hne
    | cons a b => exact ⟨a, b, rfl⟩
  rw [run_some (step_line_text c kw _), run_some (step_labels_pseudo _ kw hpo _)]
  rw [List.cons_append, run_some (step_pseudoOp_end_expr _ kw hk t1 (hts t1 (by simp)) _),
    run_some (step_pseudoExpr_comment_end _ (t1 :: ts1) hts v (nlTok :: t'' :: rest'') t1 _ (by simp)),
    run_some (step_comment_end _ v t'' rest''), run_none (step_line_end _ rfl)]
  simp [endLineC, endLine]

/-! ### an unterminated last line: the steps that meet the EOF token -/

/-- `parseExprB` up to the EOF token: the line is emitted, its (missing) newline not counted -/
theorem step_exprB_eof (c : Ctx) (toks : List Token) (hts : ∀ t ∈ toks, t.isExpressionTerm = true)
    (t0 : Token) (rest0 : List Token) (h : t0 :: rest0 = toks ++ eofTok :: []) :
    step .exprB (c.st t0 rest0) =
      .ok (({ c with references := addRefs toks c.references,
                     cur := { c.cur with b := some (c.cur.b.getD [] ++ toks) },
                     lines := c.lines ++ [{ c.cur with b := some (c.cur.b.getD [] ++ toks) }] } : Ctx).st
             eofTok [], some .line) := by
  simp only [step]
  rw [collectExpr_ok "parseExprB" toks hts eofTok rfl [] c t0 rest0 h]
  simp [bind, Except.bind, pure, Except.pure, Ctx.st, eofTok, emit]

/-- a comment token right in front of the EOF token: the line is emitted -/
theorem step_comment_eof (c : Ctx) (v : String) :
    step .comment (c.st (cmtTok v) [eofTok]) =
      .ok (({ c with cur := { c.cur with comment := v },
                     lines := c.lines ++ [{ c.cur with comment := v }] } : Ctx).st eofTok [], none) := by
  simp [step, Ctx.st, consumeEmitLine, advance, next, eofTok, emit, cmtTok]

theorem step_pseudoExpr_eof_end (c : Ctx) (toks : List Token)
    (hts : ∀ t ∈ toks, t.isExpressionTerm = true)
    (t0 : Token) (rest0 : List Token) (h : t0 :: rest0 = toks ++ eofTok :: []) :
    step .pseudoExpr (withEnd (c.st t0 rest0)) =
      .ok (withEnd (Ctx.st
            { c with references := addRefs toks c.references,
                     cur := { c.cur with a := some (c.cur.a.getD [] ++ toks) },
                     lines := c.lines ++ [{ c.cur with a := some (c.cur.a.getD [] ++ toks) }] }
            eofTok []), some .line) := by
  simp only [step]
  rw [collectExpr_withEnd, collectExpr_ok "parsePseudoExpr" toks hts eofTok rfl [] c t0 rest0 h]
  simp [bind, Except.bind, pure, Except.pure, Except.map, Ctx.st, eofTok, withEnd, emit]

theorem step_comment_eof_end (c : Ctx) (v : String) :
    step .comment (withEnd (c.st (cmtTok v) [eofTok])) =
      .ok (withEnd (Ctx.st
            { c with cur := { c.cur with comment := v },
                     lines := c.lines ++ [{ c.cur with comment := v }] } eofTok []), none) := by
  simp [step, Ctx.st, consumeEmitLine, advance, next, eofTok, emit, cmtTok, withEnd]

theorem _root_.Gmars.Render.ReachLe.run_one {b : Nat} {s s1 : St} {p p1 q : PState}
    (h : ReachLe b s p s1 p1) (h1 : step s1 p1 = .ok (q, none)) :
    ∃ m, m ≤ b + 1 ∧ ∀ fuel, run (fuel + m) s p = .ok q := by
  obtain ⟨n, hn, h⟩ := h
  refine ⟨n + 1, by omega, fun fuel => ?_⟩
  rw [show fuel + (n + 1) = (fuel + 1) + n by omega, h, run_none h1]

theorem _root_.Gmars.Render.ReachLe.run_two {b : Nat} {s s1 s2 : St} {p p1 p2 q : PState}
    (h : ReachLe b s p s1 p1) (h1 : step s1 p1 = .ok (p2, some s2)) (h2 : step s2 p2 = .ok (q, none)) :
    ∃ m, m ≤ b + 2 ∧ ∀ fuel, run (fuel + m) s p = .ok q := by
  obtain ⟨m, hm, h⟩ := (h.trans (ReachLe.one h1)).run_one h2
  exact ⟨m, by omega, h⟩

/-- a statement without labels and with a B operand, from the start of its line to `parseExprB` -/
theorem reach_stmt_exprB (op : String) (hop : IsOpName op) (a : Operand) (ha : a.OK true) (bo : Operand)
    (hbo : bo.OK false) (c : Ctx) (tail : List Token) (t0 : Token) (rest0 : List Token)
    (h : t0 :: rest0 = (⟨.text, op⟩ : Token) :: (a.tokens ++ (commaTok :: bo.tokens ++ tail))) :
    ∃ t2 ts2, bo.toks = t2 :: ts2 ∧
      ReachLe 7 .line (c.st t0 rest0) .exprB
        (({ line := c.line, codeLine := c.codeLine + 1,
            cur := { line := c.line, op := op, typ := .instruction, codeLine := c.codeLine,
                     amode := a.mode.getD "", a := some a.toks, bmode := bo.mode.getD "" },
            metadata := c.metadata, lines := c.lines, symbols := c.symbols,
            references := addRefs a.toks c.references } : Ctx).st t2 (ts2 ++ tail)) := by
  simp only [List.cons.injEq] at h
  obtain ⟨rfl, rfl⟩ := h
  have h1 := ReachLe.one (step_line_text c op (a.tokens ++ (commaTok :: bo.tokens ++ tail)))
  have h2 := h1.trans (ReachLe.one (step_labels_op _ op hop _))
  obtain ⟨t, ts, htoks, h3⟩ := reach_opA ({ c with cur := { line := c.line } } : Ctx) op a ha
    (commaTok :: bo.tokens ++ tail)
  have h4 := (h2.trans h3).trans (ReachLe.one (step_exprA_comma _ a.toks ha.1 (bo.tokens ++ tail) t
    (ts ++ commaTok :: (bo.tokens ++ tail)) (by simp [htoks])))
  obtain ⟨t2, ts2, htoks2, h5⟩ := reach_commaB
    ({ line := c.line, codeLine := c.codeLine + 1,
       cur := { line := c.line, op := op, typ := .instruction, codeLine := c.codeLine,
                amode := a.mode.getD "", a := some a.toks },
       metadata := c.metadata, lines := c.lines, symbols := c.symbols,
       references := addRefs a.toks c.references } : Ctx) bo hbo tail
  refine ⟨t2, ts2, htoks2, ?_⟩
  have h4' : ReachLe 5 .line (c.st ⟨.text, op⟩ (a.tokens ++ (commaTok :: bo.tokens ++ tail))) .comma
      (({ line := c.line, codeLine := c.codeLine + 1,
          cur := { line := c.line, op := op, typ := .instruction, codeLine := c.codeLine,
                   amode := a.mode.getD "", a := some a.toks },
          metadata := c.metadata, lines := c.lines, symbols := c.symbols,
          references := addRefs a.toks c.references } : Ctx).st commaTok (bo.tokens ++ tail)) :=
    h4.mono' (by simp) (by omega)
  exact (h4'.trans h5).mono (by omega)

/-! ### how the token stream ends -/

/-- the end of the token stream:
      * `eof`    the EOF token right after the items (every line is terminated);
      * `end_`   an END line `kw toks` with an optional trailing comment, its newline, and `trail`
                 (never read; not empty: at least the EOF token);
      * `cmtU`, `stmtU`, `endU`   an UNTERMINATED last line (the text does not end with a newline):
                 a comment line, a statement (no labels, with a B operand) or an END line, the
                 latter two with an optional trailing comment, then the EOF token -/
inductive YFin
  | eof
  | end_ (kw : String) (toks : List Token) (cm : Option String) (trail : List Token)
  | cmtU (v : String)
  | stmtU (s : Stmt) (cm : Option String)
  | endU (kw : String) (toks : List Token) (cm : Option String)

def cmtToks : Option String → List Token
  | none => []
  | some v => [cmtTok v]

def YFin.tokens : YFin → List Token
  | .eof => [eofTok]
  | .end_ kw toks cm trail => (⟨.text, kw⟩ : Token) :: (toks ++ (cmtToks cm ++ nlTok :: trail))
  | .cmtU v => [cmtTok v, eofTok]
  | .stmtU s cm => (⟨.text, s.op⟩ : Token) :: (s.a.tokens ++ (s.bTokens ++ (cmtToks cm ++ [eofTok])))
  | .endU kw toks cm => (⟨.text, kw⟩ : Token) :: (toks ++ (cmtToks cm ++ [eofTok]))

def YFin.OK : YFin → Prop
  | .eof => True
  | .end_ kw toks cm trail =>
    lowerStr kw = "end" ∧ (∀ t ∈ toks, t.isExpressionTerm = true) ∧ trail ≠ [] ∧ (cm.isSome → toks ≠ [])
  | .cmtU _ => True
  | .stmtU s _ => s.OK ∧ s.labels = [] ∧ ∃ bo, s.b = some bo
  | .endU kw toks _ => lowerStr kw = "end" ∧ (∀ t ∈ toks, t.isExpressionTerm = true) ∧ toks ≠ []

/-- the comment field of a line with an optional trailing comment -/
def cmtOf : Option String → String
  | none => ""
  | some v => v

/-- the lines the end contributes, at line `ln` with code line counter `cl` -/
def YFin.lines : YFin → Int → Int → List SourceLine
  | .eof, _, _ => []
  | .end_ kw toks none _, ln, _ => [endLine ln kw toks]
  | .end_ kw toks (some v) _, ln, _ => [endLineC ln kw toks v]
  | .cmtU v, ln, _ => [{ line := ln, typ := .comment, comment := v }]
  | .stmtU s cm, ln, cl => [{ s.instrLine ln cl with comment := cmtOf cm, newlines := 0 }]
  | .endU kw toks cm, ln, _ => [{ endLine ln kw toks with comment := cmtOf cm, newlines := 0 }]

def YFin.refs : YFin → List String → List String
  | .eof, refs => refs
  | .end_ _ toks _ _, refs => addRefs toks refs
  | .cmtU _, refs => refs
  | .stmtU s _, refs => s.refs refs
  | .endU _ toks _, refs => addRefs toks refs

def YFin.metadata : YFin → AsmMeta → AsmMeta
  | .cmtU v, m => captureMeta m v
  | _, m => m

theorem yfin_tokens_head (f : YFin) :
    ∃ tf restf, f.tokens = tf :: restf ∧ (tf.typ == TokType.newline) = false := by
  cases f with
  | eof => exact ⟨eofTok, [], rfl, rfl⟩
  | end_ kw toks cm trail => exact ⟨_, _, rfl, rfl⟩
  | cmtU v => exact ⟨_, _, rfl, rfl⟩
  | stmtU s cm => exact ⟨_, _, rfl, rfl⟩
  | endU kw toks cm => exact ⟨_, _, rfl, rfl⟩

theorem run_cmtU (v : String) (c : Ctx) :
    ∃ m, m ≤ 16 ∧ ∀ fuel, run (fuel + m) .line (c.st (cmtTok v) [eofTok]) =
      .ok (({ c with cur := { line := c.line, typ := .comment, comment := v },
                     metadata := captureMeta c.metadata v,
                     lines := c.lines ++ [{ line := c.line, typ := .comment, comment := v }] } : Ctx).st
            eofTok []) := by
  obtain ⟨m, hm, h⟩ := (ReachLe.one (step_line_comment c v [eofTok])).run_one (step_comment_eof _ v)
  exact ⟨m, by omega, h⟩

theorem run_stmtU (s : Stmt) (hs : s.OK) (hl : s.labels = []) (bo : Operand) (hb : s.b = some bo)
    (cm : Option String) (c : Ctx) (t0 : Token) (rest0 : List Token)
    (h : t0 :: rest0 = (YFin.stmtU s cm).tokens) :
    ∃ q : PState, ∃ m, m ≤ 16 ∧ (∀ fuel, run (fuel + m) .line (c.st t0 rest0) = .ok q) ∧ q.err = false ∧
      q.lines = (c.lines ++ (YFin.stmtU s cm).lines c.line c.codeLine).toArray ∧
      q.metadata = c.metadata ∧ q.symbols = c.symbols ∧ q.references = s.refs c.references := by
  obtain ⟨_, hop, ha, hbk⟩ := hs
  rcases s with ⟨ls, op, a, b, blanks⟩
  simp only at hl hb
  subst hl hb
  have hbo : bo.OK false := hbk bo rfl
  cases cm with
  | none =>
    simp only [YFin.tokens, Stmt.bTokens, cmtToks, List.nil_append] at h
    obtain ⟨t2, ts2, htoks2, r⟩ := reach_stmt_exprB op hop a ha bo hbo c [eofTok] t0 rest0 (by simpa using h)
    obtain ⟨m, hm, hrun⟩ := r.run_two (step_exprB_eof _ bo.toks hbo.1 t2 (ts2 ++ [eofTok])
      (by simp [htoks2])) (step_line_eof _ _)
    refine ⟨_, m, by omega, hrun, rfl, ?_, rfl, rfl, rfl⟩
    simp [Ctx.st, YFin.lines, Stmt.instrLine, Stmt.labelNames, cmtOf]
  | some v =>
    simp only [YFin.tokens, Stmt.bTokens, cmtToks, List.cons_append, List.nil_append] at h
    obtain ⟨t2, ts2, htoks2, r⟩ := reach_stmt_exprB op hop a ha bo hbo c [cmtTok v, eofTok] t0 rest0
      (by simpa using h)
    obtain ⟨m, hm, hrun⟩ := r.run_two (step_exprB_comment _ bo.toks hbo.1 v [eofTok] t2
      (ts2 ++ [cmtTok v, eofTok]) (by simp [htoks2])) (step_comment_eof _ v)
    refine ⟨_, m, by omega, hrun, rfl, ?_, rfl, rfl, rfl⟩
    simp [Ctx.st, YFin.lines, Stmt.instrLine, Stmt.labelNames, cmtOf]

/-- the unterminated END line as the parser records it -/
def endLineU (ln : Int) (kw : String) (toks : List Token) (cm : Option String) : SourceLine :=
  { line := ln, typ := .pseudoOp, op := kw, a := some toks, comment := cmtOf cm }

theorem run_endU_none (kw : String) (hk : lowerStr kw = "end") (toks : List Token) (hne : toks ≠ [])
    (hts : ∀ t ∈ toks, t.isExpressionTerm = true) (c : Ctx) (t0 : Token) (rest0 : List Token)
    (h : t0 :: rest0 = (⟨.text, kw⟩ : Token) :: (toks ++ [eofTok])) (fuel : Nat) :
    run (fuel + 5) .line (c.st t0 rest0) =
      .ok (withEnd (Ctx.st
            { line := c.line, codeLine := c.codeLine, cur := endLineU c.line kw toks none,
              metadata := c.metadata, lines := c.lines ++ [endLineU c.line kw toks none],
              symbols := c.symbols, references := addRefs toks c.references } eofTok [])) := by
  simp only [List.cons.injEq] at h
  obtain ⟨rfl, rfl⟩ := h
  have hpo := isPseudoOp_of_lower hk (Or.inr rfl)
  obtain ⟨t1, ts1, rfl⟩ : ∃ t1 ts1, toks = t1 :: ts1 := by
    cases toks with
    | nil => exact absurd rfl hne
    | cons a b => exact ⟨a, b, rfl⟩
  rw [run_some (step_line_text c kw _), run_some (step_labels_pseudo _ kw hpo _),
    List.cons_append, run_some (step_pseudoOp_end_expr _ kw hk t1 (hts t1 (by simp)) _),
    run_some (step_pseudoExpr_eof_end _ (t1 :: ts1) hts t1 _ (by simp)),
    run_none (step_line_end _ rfl)]
  simp [endLineU, cmtOf]

theorem run_endU_some (kw : String) (hk : lowerStr kw = "end") (toks : List Token) (hne : toks ≠ [])
    (hts : ∀ t ∈ toks, t.isExpressionTerm = true) (v : String) (c : Ctx) (t0 : Token)
    (rest0 : List Token)
    (h : t0 :: rest0 = (⟨.text, kw⟩ : Token) :: (toks ++ [cmtTok v, eofTok])) (fuel : Nat) :
    run (fuel + 5) .line (c.st t0 rest0) =
      .ok (withEnd (Ctx.st
            { line := c.line, codeLine := c.codeLine, cur := endLineU c.line kw toks (some v),
              metadata := c.metadata, lines := c.lines ++ [endLineU c.line kw toks (some v)],
              symbols := c.symbols, references := addRefs toks c.references } eofTok [])) := by
  simp only [List.cons.injEq] at h
  obtain ⟨rfl, rfl⟩ := h
  have hpo := isPseudoOp_of_lower hk (Or.inr rfl)
  obtain ⟨t1, ts1, rfl⟩ : ∃ t1 ts1, toks = t1 :: ts1 := by
    cases toks with
    | nil => exact absurd rfl hne
    | cons a b => exact ⟨a, b, rfl⟩
  rw [run_some (step_line_text c kw _), run_some (step_labels_pseudo _ kw hpo _),
    List.cons_append, run_some (step_pseudoOp_end_expr _ kw hk t1 (hts t1 (by simp)) _),
    run_some (step_pseudoExpr_comment_end _ (t1 :: ts1) hts v [eofTok] t1 _ (by simp)),
    run_none (step_comment_eof_end _ v)]
  simp [endLineU, cmtOf]

theorem run_endU (kw : String) (hk : lowerStr kw = "end") (toks : List Token) (hne : toks ≠ [])
    (hts : ∀ t ∈ toks, t.isExpressionTerm = true) (cm : Option String) (c : Ctx)
    (t0 : Token) (rest0 : List Token) (h : t0 :: rest0 = (YFin.endU kw toks cm).tokens) :
    ∃ q : PState, ∃ m, m ≤ 16 ∧ (∀ fuel, run (fuel + m) .line (c.st t0 rest0) = .ok q) ∧ q.err = false ∧
      q.lines = (c.lines ++ (YFin.endU kw toks cm).lines c.line c.codeLine).toArray ∧
      q.metadata = c.metadata ∧ q.symbols = c.symbols ∧ q.references = addRefs toks c.references := by
  cases cm with
  | none =>
    simp only [YFin.tokens, cmtToks, List.nil_append] at h
    refine ⟨_, 5, by omega, run_endU_none kw hk toks hne hts c t0 rest0 h, rfl, ?_, rfl, rfl, rfl⟩
    simp [Ctx.st, withEnd, YFin.lines, endLine, endLineU, cmtOf, hne]
  | some v =>
    simp only [YFin.tokens, cmtToks, List.cons_append, List.nil_append] at h
    refine ⟨_, 5, by omega, run_endU_some kw hk toks hne hts v c t0 rest0 h, rfl, ?_, rfl, rfl, rfl⟩
    simp [Ctx.st, withEnd, YFin.lines, endLine, endLineU, cmtOf, hne]

/-- from the start of the last part the parser runs to its end -/
theorem run_fin (f : YFin) (hf : f.OK) (c : Ctx) (tf : Token) (restf : List Token)
    (h : tf :: restf = f.tokens) :
    ∃ q : PState, ∃ m, m ≤ 16 ∧ (∀ fuel, run (fuel + m) .line (c.st tf restf) = .ok q) ∧ q.err = false ∧
      q.lines = (c.lines ++ f.lines c.line c.codeLine).toArray ∧ q.metadata = f.metadata c.metadata ∧
      q.symbols = c.symbols ∧ q.references = f.refs c.references := by
  cases f with
  | eof =>
    simp only [YFin.tokens, List.cons.injEq] at h
    obtain ⟨rfl, rfl⟩ := h
    refine ⟨_, 1, by omega, fun fuel => run_none (step_line_eof c []) fuel, rfl, ?_, rfl, rfl, rfl⟩
    simp [Ctx.st, YFin.lines]
  | end_ kw toks cm trail =>
    obtain ⟨hk, hts, htr, hcm⟩ := hf
    obtain ⟨t'', rest'', rfl⟩ : ∃ t'' rest'', trail = t'' :: rest'' := by
      cases trail with
      | nil => exact absurd rfl htr
      | cons a b => exact ⟨a, b, rfl⟩
    cases cm with
    | none =>
      simp only [YFin.tokens, cmtToks, List.nil_append] at h
      refine ⟨_, 5, by omega, fun fuel => run_end kw hk toks hts c t'' rest'' tf restf h fuel, rfl, ?_,
        rfl, rfl, rfl⟩
      simp [Ctx.st, withEnd, YFin.lines]
    | some v =>
      simp only [YFin.tokens, cmtToks, List.cons_append, List.nil_append] at h
      refine ⟨_, 6, by omega, fun fuel => run_endC kw hk toks (hcm rfl) hts v c t'' rest'' tf restf h fuel,
        rfl, ?_, rfl, rfl, rfl⟩
      simp [Ctx.st, withEnd, YFin.lines]
  | cmtU v =>
    simp only [YFin.tokens, List.cons.injEq] at h
    obtain ⟨rfl, rfl⟩ := h
    obtain ⟨m, hm, hrun⟩ := run_cmtU v c
    refine ⟨_, m, hm, hrun, rfl, ?_, rfl, rfl, rfl⟩
    simp [Ctx.st, YFin.lines]
  | stmtU s cm =>
    obtain ⟨hs, hl, bo, hb⟩ := hf
    exact run_stmtU s hs hl bo hb cm c tf restf h
  | endU kw toks cm =>
    obtain ⟨hk, hts, hne⟩ := hf
    exact run_endU kw hk toks hne hts cm c tf restf h

/-! ### programs -/

/-- `lead` blank lines, the items, the end -/
structure YProg where
  lead : Nat := 0
  items : List YItem
  fin : YFin := .eof

/-- token rendering of the program -/
def YProg.tokens (p : YProg) : List Token :=
  List.replicate p.lead nlTok ++ (yitemsTokens p.items ++ p.fin.tokens)

def YProg.labels (p : YProg) : List String := yitemsLabels p.items

/-- the source lines the program denotes -/
def YProg.lines (p : YProg) : List SourceLine :=
  blankLines 1 p.lead ++ (yitemsLines p.items (1 + p.lead) 0 ++
    p.fin.lines (yitemsEndLine p.items (1 + p.lead)) (yitemsEndCode p.items 0))

def YProg.metadata (p : YProg) : AsmMeta := p.fin.metadata (yitemsMeta p.items {})

def YProg.refs (p : YProg) : List String := p.fin.refs (yitemsRefs p.items [])

structure YProg.OK (p : YProg) : Prop where
  items : ∀ it ∈ p.items, it.OK
  nodup : p.labels.Nodup
  notPredefined : ∀ l ∈ p.labels, l ∉ predefined
  /-- every name referred to is a label of the program or predefined -/
  defined : ∀ x ∈ p.refs, x ∈ p.labels ∨ x ∈ predefined
  fin : p.fin.OK

/-- **the parser on programs with trailing comments and an unterminated last line** -/
theorem parse_yprog (p : YProg) (hp : p.OK) :
    parse p.tokens = .ok (some (p.lines, p.metadata)) := by
  obtain ⟨lead, items, fin⟩ := p
  have hfresh : FreshLabels (yitemsLabels items) predefined :=
    (FreshLabels_iff _ _).mpr ⟨hp.nodup, hp.notPredefined⟩
  obtain ⟨tf, restf, hfin, htf⟩ := yfin_tokens_head fin
  obtain ⟨t1, rest1, h1, ht1⟩ : ∃ t1 rest1, t1 :: rest1 = yitemsTokens items ++ tf :: restf ∧
      (t1.typ == TokType.newline) = false := by
    cases items with
    | nil => exact ⟨tf, restf, by simp [yitemsTokens], htf⟩
    | cons it' items' =>
      obtain ⟨t1, rest1, e, ht1⟩ := yitem_tokens_head it' (yitemsTokens items' ++ tf :: restf)
      exact ⟨t1, rest1, by simp only [yitemsTokens, List.append_assoc]; exact e.symm, ht1⟩
  obtain ⟨t0, rest0, h0⟩ : ∃ t0 rest0, t0 :: rest0 = List.replicate lead nlTok ++ t1 :: rest1 := by
    cases lead <;> simp [List.replicate_succ]
  have htoks : YProg.tokens ⟨lead, items, fin⟩ = t0 :: rest0 := by
    simp only [YProg.tokens]; rw [hfin, h0, h1]
  obtain ⟨cur1, r1⟩ := reach_blanks ({} : Ctx) lead t1 ht1 rest1 t0 rest0 h0
  obtain ⟨cur2, r2⟩ := reach_yitems tf htf restf items
    ({ line := (1 : Int) + lead, cur := cur1, lines := [] ++ blankLines 1 lead } : Ctx)
    t1 rest1 hp.items hfresh h1
  have r12 := r1.trans r2
  have hlen : (YProg.tokens ⟨lead, items, fin⟩).length =
      lead + ((yitemsTokens items).length + (restf.length + 1)) := by
    simp [YProg.tokens, hfin]
  obtain ⟨q, m, hm, hq, hqerr, hqlines, hqmeta, hqsym, hqref⟩ := run_fin fin hp.fin
    ({ line := yitemsEndLine items ((1 : Int) + lead),
        codeLine := yitemsEndCode items 0, cur := cur2,
        metadata := yitemsMeta items {},
        lines := [] ++ blankLines 1 lead ++ yitemsLines items ((1 : Int) + lead) 0,
        symbols := (yitemsLabels items).reverse ++ predefined,
        references := yitemsRefs items [] } : Ctx) tf restf hfin.symm
  have hrun := r12.finish_run hq
    (fuel := runFuel (YProg.tokens ⟨lead, items, fin⟩))
    (by simp only [runFuel, hlen]; omega)
  have hv : symbolsValid q = true := by
    apply symbolsValid_of (refs := fin.refs (yitemsRefs items []))
      (syms := (yitemsLabels items).reverse ++ predefined)
    · intro x hx
      rcases hp.defined x hx with h | h
      · simp [YProg.labels] at h; simp [h]
      · simp [h]
    · exact hqref
    · exact hqsym
  simp only [parse, htoks, newParser_cons]
  rw [← htoks, hrun]
  simp [bind, Except.bind, pure, Except.pure, hqerr, hv, hqlines, hqmeta, YProg.lines, YProg.metadata]

end AsmLayout
end Gmars
