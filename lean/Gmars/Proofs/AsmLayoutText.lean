/-
  C09, assembler half, layout perturbations (part 5): the token stream of the whole text of a
  `LoadLayout.Layout` (final newline present), and that token stream as a parser-level program
  `YProg`.

    * `flinesOf`, `tokens_render`   the lexer on `L.render`
    * `pack`, `pack_tokens`              lines grouped into items with their blank lines
-/
import Gmars.Proofs.AsmLayoutLex

namespace Gmars
namespace AsmLayout
open Gmars.Render Gmars.AsmCompose Gmars.GoStr Gmars.AsmPrint Gmars.LoadLayout Gmars.ExprProofs
open Gmars.RoundTrip (Blanks Gaps DirGaps)
open Gmars.Lex (sends)

/-! ### the lines of a layout -/

def fillerLines (fs : List Filler) : List FLine := fs.map fillerLine

def instrLines (legacy : Bool) (p : InstrLay) : List FLine := fillerLines p.pre ++ [instrLine legacy p]

/-- '94: `ORG n` first -/
def flines94 (L : Layout) (start : Nat) : List FLine :=
  fillerLines L.dir.pre ++ dirLine L.dir "ORG" start ::
    (L.lines.flatMap (instrLines false) ++ fillerLines L.post)

/-- '88: the lines in front of `END n` -/
def fbody88 (L : Layout) : List FLine := L.lines.flatMap (instrLines true) ++ fillerLines L.dir.pre

def flines88 (L : Layout) (start : Nat) : List FLine :=
  fbody88 L ++ dirLine L.dir "END" start :: fillerLines L.post

def flinesOf (L : Layout) (legacy : Bool) (start : Nat) : List FLine :=
  if legacy then flines88 L start else flines94 L start

/-- what the assembler needs of a layout: gaps are ASCII white space without newline (the gap
    between `ORG` / `END` and the number is not empty), comments have no newline -/
structure AsmOK (L : Layout) : Prop where
  dirPre : ∀ f ∈ L.dir.pre, f.ok
  dirGaps : L.dir.gaps.ok
  dirTrail : L.dir.trail.ok
  lines : ∀ p ∈ L.lines, (∀ f ∈ p.pre, f.ok) ∧ p.trail.ok ∧ GapsBlank p.gaps
  post : ∀ f ∈ L.post, f.ok

theorem AsmOK.of_ok {L : Layout} {M : UInt64} {legacy : Bool} (h : L.ok M legacy) : AsmOK L where
  dirPre := h.dirPre
  dirGaps := h.dirGaps
  dirTrail := h.dirTrail
  lines := fun p hp => ⟨(h.lines p hp).1, (h.lines p hp).2.1, GapsBlank.of_ok (h.lines p hp).2.2.1⟩
  post := h.post

/-! ### the text, line by line -/

theorem flTokens_append (a b : List FLine) : flTokens (a ++ b) = flTokens a ++ flTokens b := by
  induction a with
  | nil => rfl
  | cons l r ih => simp [flTokens, ih]

theorem flTokensNL_true (ls : List FLine) : flTokensNL ls true = flTokens ls := by
  induction ls with
  | nil => rfl
  | cons l r ih =>
    cases r with
    | nil => simp [flTokensNL, flTokens]
    | cons l' r' => simp only [flTokensNL, flTokens] at ih ⊢; rw [ih]

theorem flTokensNL_cons_cons (l l' : FLine) (r : List FLine) (nl : Bool) :
    flTokensNL (l :: l' :: r) nl = l.tokens ++ flTokensNL (l' :: r) nl := by
  cases nl <;> rfl

/-- without the final newline: all lines but the last, then the last without its newline token -/
theorem flTokensNL_concat (a : List FLine) (l : FLine) :
    flTokensNL (a ++ [l]) false = flTokens a ++ l.tokens0 := by
  induction a with
  | nil => rfl
  | cons x r ih =>
    cases r with
    | nil => simp [flTokensNL, flTokens]
    | cons y r' =>
      rw [List.cons_append, List.cons_append, flTokensNL_cons_cons, ← List.cons_append, ih]
      simp [flTokens]

theorem flTokensNL_append (a b : List FLine) (hb : b ≠ []) (nl : Bool) :
    flTokensNL (a ++ b) nl = flTokens a ++ flTokensNL b nl := by
  induction a with
  | nil => rfl
  | cons x r ih =>
    obtain ⟨y, r', hr⟩ : ∃ y r', r ++ b = y :: r' := by
      cases r with
      | nil =>
        cases b with
        | nil => exact absurd rfl hb
        | cons y r' => exact ⟨y, r', rfl⟩
      | cons y r' => exact ⟨y, r' ++ b, rfl⟩
    rw [List.cons_append, hr, flTokensNL_cons_cons, ← hr, ih]
    simp [flTokens]

/-- the content `c` (a line without its line end) is lexed into the tokens of `f`, whether the
    newline or the end of the text follows -/
def LexPair (c : Str) (f : FLine) : Prop :=
  ∀ tail, LineEnd tail → sends (c ++ tail) = f.tokens0 ++ sends tail

/-- **the lexer on lines joined by newlines**, with or without the final newline -/
theorem sends_joinLines (pl : List (Str × FLine)) (h : ∀ p ∈ pl, LexPair p.1 p.2) (nl : Bool) :
    sends (joinLines (pl.map (·.1)) nl) = flTokensNL (pl.map (·.2)) nl ++ [Lex.eofTok] := by
  induction pl with
  | nil => simp [joinLines, flTokensNL, sends_nil]
  | cons p r ih =>
    have hp := h p (by simp)
    cases r with
    | nil =>
      cases nl with
      | false =>
        have := hp [] (Or.inl rfl)
        simp only [List.append_nil, sends_nil] at this
        simpa [joinLines, flTokensNL] using this
      | true =>
        have := hp ['\n'] (Or.inr ⟨[], rfl⟩)
        rw [sends_newline, sends_nil] at this
        simp only [List.map_cons, List.map_nil, joinLines, flTokensNL, FLine.tokens, List.append_assoc,
          List.append_nil]
        rw [this]
        rfl
    | cons q r' =>
      have ih' := ih (fun x hx => h x (by simp [hx]))
      simp only [List.map_cons] at ih' ⊢
      rw [joinLines_cons_cons, hp _ (Or.inr ⟨_, rfl⟩), sends_newline, ih', flTokensNL_cons_cons]
      simp [FLine.tokens, nlTok]

/-! ### the lines of a layout with their contents -/

def fillerPairs (fs : List Filler) : List (Str × FLine) := fs.map (fun f => (f.content, fillerLine f))

def instrPairs (legacy : Bool) (p : InstrLay) : List (Str × FLine) :=
  fillerPairs p.pre ++ [(p.content legacy, instrLine legacy p)]

def pairs94 (L : Layout) (start : Nat) : List (Str × FLine) :=
  fillerPairs L.dir.pre ++ (L.dir.content "ORG".toList start, dirLine L.dir "ORG" start) ::
    (L.lines.flatMap (instrPairs false) ++ fillerPairs L.post)

def pairs88 (L : Layout) (start : Nat) : List (Str × FLine) :=
  (L.lines.flatMap (instrPairs true) ++ fillerPairs L.dir.pre) ++
    (L.dir.content "END".toList start, dirLine L.dir "END" start) :: fillerPairs L.post

theorem fillerPairs_fst (fs : List Filler) : (fillerPairs fs).map (·.1) = (fillerItems fs).map (·.1) := by
  simp [fillerPairs, fillerItems, List.map_map, Function.comp_def]

theorem fillerPairs_snd (fs : List Filler) : (fillerPairs fs).map (·.2) = fillerLines fs := by
  simp [fillerPairs, fillerLines, List.map_map, Function.comp_def]

theorem instrPairs_fst (legacy : Bool) (ps : List InstrLay) :
    (ps.flatMap (instrPairs legacy)).map (·.1) = (ps.flatMap (instrItems legacy)).map (·.1) := by
  induction ps with
  | nil => rfl
  | cons p r ih =>
    simp only [List.flatMap_cons, List.map_append, ih, instrPairs, instrItems, fillerPairs_fst,
      List.map_cons, List.map_nil]

theorem instrPairs_snd (legacy : Bool) (ps : List InstrLay) :
    (ps.flatMap (instrPairs legacy)).map (·.2) = ps.flatMap (instrLines legacy) := by
  induction ps with
  | nil => rfl
  | cons p r ih =>
    simp only [List.flatMap_cons, List.map_append, ih, instrPairs, instrLines, fillerPairs_snd,
      List.map_cons, List.map_nil]

theorem pairs_fst (L : Layout) (legacy : Bool) (start : Nat) :
    ((if legacy then pairs88 L start else pairs94 L start).map (·.1)) =
      (if legacy then L.items88 start else L.items94 start).map (·.1) := by
  cases legacy
  · simp only [Bool.false_eq_true, if_false, pairs94, Layout.items94, List.map_append, List.map_cons,
      fillerPairs_fst, instrPairs_fst]
  · simp only [if_true, pairs88, Layout.items88, Layout.body88, List.map_append, List.map_cons,
      fillerPairs_fst, instrPairs_fst]

theorem pairs_snd (L : Layout) (legacy : Bool) (start : Nat) :
    ((if legacy then pairs88 L start else pairs94 L start).map (·.2)) = flinesOf L legacy start := by
  cases legacy
  · simp only [Bool.false_eq_true, if_false, pairs94, flinesOf, flines94, List.map_append, List.map_cons,
      fillerPairs_snd, instrPairs_snd]
  · simp only [if_true, pairs88, flinesOf, flines88, fbody88, List.map_append, List.map_cons,
      fillerPairs_snd, instrPairs_snd]

theorem fillerPairs_lex (fs : List Filler) (hf : ∀ f ∈ fs, f.ok) : ∀ p ∈ fillerPairs fs, LexPair p.1 p.2 := by
  intro p hp
  simp only [fillerPairs, List.mem_map] at hp
  obtain ⟨f, hfm, rfl⟩ := hp
  exact fun tail hend => sends_filler f (hf f hfm) tail hend

theorem instrPairs_lex (legacy : Bool) (ps : List InstrLay)
    (h : ∀ p ∈ ps, (∀ f ∈ p.pre, f.ok) ∧ p.trail.ok ∧ GapsBlank p.gaps) :
    ∀ q ∈ ps.flatMap (instrPairs legacy), LexPair q.1 q.2 := by
  intro q hq
  simp only [List.mem_flatMap, instrPairs, List.mem_append, List.mem_singleton] at hq
  obtain ⟨p, hp, hq | rfl⟩ := hq
  · exact fillerPairs_lex p.pre (h p hp).1 q hq
  · exact fun tail hend => sends_instr legacy p (h p hp).2.2 (h p hp).2.1 tail hend

theorem pairs_lex (L : Layout) (legacy : Bool) (start : Nat) (hok : AsmOK L) :
    ∀ p ∈ (if legacy then pairs88 L start else pairs94 L start), LexPair p.1 p.2 := by
  intro p hp
  cases legacy
  · simp only [Bool.false_eq_true, if_false, pairs94, List.mem_append, List.mem_cons] at hp
    rcases hp with hp | rfl | hp | hp
    · exact fillerPairs_lex _ hok.dirPre p hp
    · exact fun tail hend => sends_dir L.dir "ORG" (identOK_orgR _) start hok.dirGaps hok.dirTrail tail hend
    · exact instrPairs_lex false _ hok.lines p hp
    · exact fillerPairs_lex _ hok.post p hp
  · simp only [if_true, pairs88, List.mem_append, List.mem_cons] at hp
    rcases hp with (hp | hp) | rfl | hp
    · exact instrPairs_lex true _ hok.lines p hp
    · exact fillerPairs_lex _ hok.dirPre p hp
    · exact fun tail hend => sends_dir L.dir "END" (identOK_endR _) start hok.dirGaps hok.dirTrail tail hend
    · exact fillerPairs_lex _ hok.post p hp

/-- **the lexer on the text of a layout**, with or without the final newline -/
theorem tokens_render (L : Layout) (legacy : Bool) (start : Nat) (hok : AsmOK L) :
    Lex.tokens (L.render legacy start) =
      flTokensNL (flinesOf L legacy start) L.finalNewline ++ [Lex.eofTok] := by
  rw [Lex.tokens_eq_sends, Layout.render, ← pairs_fst, sends_joinLines _ (pairs_lex L legacy start hok),
    pairs_snd]

/-! ### the lines as parser-level items -/

def mkOperand (m : Mode) (n : Nat) : Operand :=
  { mode := some (String.singleton m.sym), toks := [numTok n] }

/-- the statement of an instruction line, followed by `k` blank lines -/
def mkStmt (op : String) (md : Option String) (i : Instr) (k : Nat) : Stmt :=
  { labels := [], op := AsmLine.opString op md, a := mkOperand i.am i.a.toNat,
    b := some (mkOperand i.bm i.b.toNat), blanks := k }

/-- group the lines into items: every white-space-only line is counted as a blank line of the
    item in front of it (the first component counts those in front of the first item) -/
def pack : List FLine → Nat × List YItem
  | [] => (0, [])
  | .blank :: r => ((pack r).1 + 1, (pack r).2)
  | .cmt v :: r => (0, .x (.base (.comment v (pack r).1)) :: (pack r).2)
  | .instr op md i none :: r => (0, .x (.base (.stmt (mkStmt op md i (pack r).1))) :: (pack r).2)
  | .instr op md i (some c) :: r => (0, .stmtC (mkStmt op md i (pack r).1) c :: (pack r).2)
  | .dir kw n none :: r => (0, .x (.org kw [numTok n] (pack r).1) :: (pack r).2)
  | .dir kw n (some c) :: r => (0, .orgC kw [numTok n] c (pack r).1 :: (pack r).2)

theorem pack_tokens (ls : List FLine) :
    flTokens ls = List.replicate (pack ls).1 nlTok ++ yitemsTokens (pack ls).2 := by
  induction ls with
  | nil => rfl
  | cons l r ih =>
    cases l with
    | blank => simp [flTokens, FLine.tokens, FLine.tokens0, pack, ih, List.replicate_succ]
    | cmt v =>
      simp [flTokens, FLine.tokens, FLine.tokens0, pack, ih, yitemsTokens, YItem.tokens, XItem.tokens, Item.tokens, cmtTok]
    | instr op md i c =>
      cases c with
      | none =>
        simp [flTokens, FLine.tokens, FLine.tokens0, pack, ih, yitemsTokens, YItem.tokens, XItem.tokens, Item.tokens,
          Stmt.tokens, mkStmt, mkOperand, Operand.tokens, Stmt.bTokens, labelTokens, instrToks, modeTok,
          cmtToks]
      | some c =>
        simp [flTokens, FLine.tokens, FLine.tokens0, pack, ih, yitemsTokens, YItem.tokens, stmtCTokens, mkStmt, mkOperand,
          Operand.tokens, Stmt.bTokens, labelTokens, instrToks, modeTok, cmtToks]
    | dir kw n c =>
      cases c with
      | none => simp [flTokens, FLine.tokens, FLine.tokens0, pack, ih, yitemsTokens, YItem.tokens, XItem.tokens, cmtToks]
      | some c => simp [flTokens, FLine.tokens, FLine.tokens0, pack, ih, yitemsTokens, YItem.tokens, orgCTokens, cmtToks]

end AsmLayout
end Gmars
