/-
  C03 "Redcode source assembles to the instructions it denotes", compiler stage:
  one assembled line.

  1. `assembleLine_shape`  — `assembleLine` = (pure shape function) ∘ (operand evaluation)
  2. `lineShape_meaning`   — the shape function is `Spec.instrMeaning`
  3. `assembleLine_meaning` — both together
-/
import Gmars.Proofs.CompileWF
import Gmars.Proofs.AsmOps

namespace Gmars.AsmLine
open Gmars.Compile GoStr

/-! ## 1. the shape of an assembled line -/

/-- what `reduceMod v m` answers for `m ≠ 0` -/
def redI (v m : Int) : UInt64 :=
  toAddr (if Int.tmod v m < 0 then Int.tmod (wrap64 (m + Int.tmod v m)) m else Int.tmod v m)

theorem reduceMod_eq {v m : Int} (hm : m ≠ 0) : reduceMod v m = .ok (redI v m) := by
  unfold reduceMod redI
  rw [if_neg (by simpa using hm)]

/-- decoding of a mode symbol per dialect; the empty text stands for the default mode -/
def modeShape (legacy : Bool) (dflt : Mode) (s : String) : Option Mode :=
  if s == "" then some dflt
  else if legacy then getAddressMode88 s.toList else getAddressMode s.toList

/-- opcode / modifier resolution per dialect -/
def opShape (legacy : Bool) (opS : String) (am bm : Mode) : Option (Op × Modifier) :=
  if legacy then
    match getOpCode88 opS.toList with
    | none => none
    | some op =>
      match getOpModeAndValidate88 op am bm with
      | none => none
      | some md => some (op, md)
  else
    match getOp94 opS.toList with
    | some r => some r
    | none =>
      match getOpCode opS.toList with
      | none => none
      | some op => some (op, getOpMode94 op am bm)

/-- operand placement (lone-operand rule) and reduction modulo `m` -/
def placeShape (m : Int) (op : Op) (md : Modifier) (am bm : Mode) (hasB : Bool)
    (avO bvO : Option Int) : Option Instr :=
  match avO with
  | none => none
  | some av =>
    if hasB then
      match bvO with
      | none => none
      | some bv => some { op := op, md := md, am := am, a := redI av m, bm := bm, b := redI bv m }
    else if op == .dat then
      some { op := op, md := md, am := .immediate, a := redI 0 m, bm := am, b := redI av m }
    else
      some { op := op, md := md, am := am, a := redI av m, bm := bm, b := redI 0 m }

/-- `lineShape` with optional operand values (`none` = the operand does not evaluate) -/
def lineShapeO (legacy : Bool) (m : Int) (opS amodeS bmodeS : String) (hasB : Bool)
    (avO bvO : Option Int) : Option Instr :=
  let dflt : Mode := if legacy && lowerStr opS == "dat" then .immediate else .direct
  match modeShape legacy dflt amodeS with
  | none => none
  | some am =>
    match modeShape legacy dflt bmodeS with
    | none => none
    | some bm =>
      match opShape legacy opS am bm with
      | none => none
      | some (op, md) => placeShape m op md am bm hasB avO bvO

/-- The instruction a source line assembles to, as a pure function of the dialect, the modulus
    `int(coreSize)`, the three text fields of the line, "there is a B operand", and the values of
    the operand expressions: mode decoding per dialect, default modes (`$`; `#` for an '88 DAT),
    opcode/modifier resolution (`getOpCode88` + `getOpModeAndValidate88`, or `getOp94`, or
    `getOpCode` + `getOpMode94`), the lone-operand rule, reduction modulo `m`. -/
def lineShape (legacy : Bool) (m : Int) (opS amodeS bmodeS : String) (hasB : Bool) (av bv : Int) :
    Option Instr :=
  lineShapeO legacy m opS amodeS bmodeS hasB (some av) (some bv)

theorem modeOf_eq (c : Compiler) (ln : SourceLine) (s : String) :
    modeOf c ln s = optM (modeShape c.legacy (dfltMode c ln) s) := by
  unfold modeOf modeShape Compiler.getAddressMode
  split
  · rfl
  · rfl

theorem opOf_eq (c : Compiler) (ln : SourceLine) (am bm : Mode) :
    opOf c ln am bm = optM (opShape c.legacy ln.op am bm) := by
  unfold opOf opShape
  cases c.legacy
  · simp only [Bool.false_eq_true, if_false]
    cases h1 : getOp94 ln.op.toList with
    | some r => rfl
    | none => cases h2 : getOpCode ln.op.toList <;> simp only [optM, bind, Except.bind]
  · simp only [if_true]
    cases h1 : getOpCode88 ln.op.toList with
    | none => rfl
    | some op =>
      cases h2 : getOpModeAndValidate88 op am bm <;> simp only [h2, optM, bind, Except.bind]

/-- the value an operand expression has for `assembleLine` -/
def operandM (c : Compiler) (e : List Token) (line : Int) : M Int :=
  expandExpression c e line >>= evalM

theorem assembleLine_eq' (c : Compiler) (ln : SourceLine) :
    assembleLine c ln =
      modeOf c ln ln.amode >>= fun aMode =>
      modeOf c ln ln.bmode >>= fun bMode =>
      opOf c ln aMode bMode >>= fun p =>
      operandM c (ln.a.getD []) ln.codeLine >>= fun aVal =>
      (if (ln.b.getD []).isEmpty then
          if p.1 == .dat then .ok (Mode.immediate, (0 : Int), aMode, aVal)
          else .ok (aMode, aVal, bMode, (0 : Int))
        else
          operandM c (ln.b.getD []) ln.codeLine >>= fun bVal => .ok (aMode, aVal, bMode, bVal))
        >>= fun (q : Mode × Int × Mode × Int) =>
      reduceMod q.2.1 (mInt c.m) >>= fun a =>
      reduceMod q.2.2.2 (mInt c.m) >>= fun b =>
      .ok { op := p.1, md := p.2, am := q.1, a := a, bm := q.2.2.1, b := b } := by
  rw [assembleLine_eq]
  unfold operandM operandsOf
  simp only [bind_assoc]

/-- General form of `assembleLine_shape`: the operand evaluations may fail with an ordinary
    error (`optM none`), in program order. -/
theorem assembleLine_shapeO (c : Compiler) (ln : SourceLine) (avO bvO : Option Int)
    (hm : mInt c.m ≠ 0)
    (hA : operandM c (ln.a.getD []) ln.codeLine = optM avO)
    (hB : (ln.b.getD []).isEmpty = false → operandM c (ln.b.getD []) ln.codeLine = optM bvO) :
    assembleLine c ln =
      optM (lineShapeO c.legacy (mInt c.m) ln.op ln.amode ln.bmode (!(ln.b.getD []).isEmpty)
        avO bvO) := by
  rw [assembleLine_eq', modeOf_eq, modeOf_eq]
  unfold lineShapeO
  have hd : dfltMode c ln = (if c.legacy && lowerStr ln.op == "dat" then Mode.immediate else .direct) := rfl
  rw [hd]
  simp only
  generalize (if c.legacy && lowerStr ln.op == "dat" then Mode.immediate else .direct) = dflt
  cases h1 : modeShape c.legacy dflt ln.amode with
  | none => rfl
  | some am =>
    cases h2 : modeShape c.legacy dflt ln.bmode with
    | none => rfl
    | some bm =>
      simp only [optM, bind, Except.bind, opOf_eq]
      cases h3 : opShape c.legacy ln.op am bm with
      | none => rfl
      | some p =>
        obtain ⟨op, md⟩ := p
        simp only [hA]
        unfold placeShape
        cases avO with
        | none => rfl
        | some av =>
          cases hb : (ln.b.getD []).isEmpty with
          | true =>
            by_cases hop : op = .dat
            · subst hop
              simp only [optM, Bool.not_true, Bool.false_eq_true, if_false, if_true, beq_self_eq_true,
                reduceMod_eq hm]
            · have : (op == Op.dat) = false := by simpa using hop
              simp only [optM, Bool.not_true, Bool.false_eq_true, if_false, if_true, this,
                reduceMod_eq hm]
          | false =>
            simp only [hB hb]
            cases bvO with
            | none => rfl
            | some bv =>
              simp only [optM, Bool.not_false, if_true, Bool.false_eq_true, if_false,
                reduceMod_eq hm]

/-- **1.** `assembleLine` = shape ∘ evaluation: if expanding and evaluating the A operand gives
    `av` and (when the line has a non-empty B operand) the B operand gives `bv`, then the result
    of `assembleLine` is the pure function `lineShape` of the line's text fields and these two
    values (an error of the mode / opcode / '88 validation stage being `none`).
    `mInt c.m ≠ 0` holds after `Config.validate` (`validate_coreSize`). -/
theorem assembleLine_shape (c : Compiler) (ln : SourceLine) (av bv : Int)
    (hm : mInt c.m ≠ 0)
    (hA : expandExpression c (ln.a.getD []) ln.codeLine >>= evalM = .ok av)
    (hB : (ln.b.getD []).isEmpty = false →
      expandExpression c (ln.b.getD []) ln.codeLine >>= evalM = .ok bv) :
    assembleLine c ln =
      optM (lineShape c.legacy (mInt c.m) ln.op ln.amode ln.bmode (!(ln.b.getD []).isEmpty) av bv) :=
  assembleLine_shapeO c ln (some av) (some bv) hm hA hB


/-! ## 2. the shape function is the reference meaning -/

/-- the `op` text of the source line of an abstract instruction -/
def opString (opS : String) (mdS : Option String) : String := opS ++ (mdS.map ("." ++ ·)).getD ""

/-- the mode text of the source line of an abstract operand -/
def modeString (m : Option Mode) : String := (m.map (fun m => String.singleton m.sym)).getD ""

theorem toAddr_of_nonneg {x : Int} (h0 : 0 ≤ x) (h1 : x < 18446744073709551616) :
    toAddr x = UInt64.ofNat x.toNat := by
  unfold toAddr
  rw [Int.emod_eq_of_lt h0 h1]

/-- `Spec.reduce M v` = the model's `reduceMod` for `0 < M < 2^63` -/
theorem redI_eq_reduce {M : Nat} (h0 : 0 < M) (h63 : M < 2 ^ 63) (v : Int) :
    redI v (M : Int) = Spec.reduce M v := by
  unfold redI Spec.reduce
  have h1 := Int.tmod_lt_of_pos v (b := (M : Int)) (by omega)
  have h2 := Int.lt_tmod_of_pos v (b := (M : Int)) (by omega)
  have h3 := Int.emod_nonneg v (b := (M : Int)) (by omega)
  have h4 := Int.emod_lt_of_pos v (b := (M : Int)) (by omega)
  have key : v % (M : Int) = if Int.tmod v M < 0 then Int.tmod v M + M else Int.tmod v M := by
    rw [Int.tmod_eq_emod]
    split <;> split <;> omega
  split
  · rename_i hneg
    rw [wrap64_of_small (by omega) (by omega), Int.tmod_eq_of_lt (by omega) (by omega),
      toAddr_of_nonneg (by omega) (by omega), key, if_pos hneg, Int.add_comm]
  · rename_i hneg
    rw [toAddr_of_nonneg (by omega) (by omega), key, if_neg hneg]

theorem redI_zero (m : Int) : redI 0 m = 0 := by
  unfold redI
  simp [toAddr]

theorem reduceMod_eq_reduce {M : Nat} (h0 : 0 < M) (h63 : M < 2 ^ 63) (v : Int) :
    reduceMod v (M : Int) = .ok (Spec.reduce M v) := by
  rw [reduceMod_eq (by omega), redI_eq_reduce h0 h63]


theorem modeString_none : modeString none = "" := rfl

theorem modeString_some_ne (m : Mode) : (modeString (some m) == "") = false := by
  cases m <;> decide

theorem modeString_some_toList (m : Mode) : (modeString (some m)).toList = [m.sym] := by
  simp [modeString]

/-- mode decoding against the reference: an explicit mode must be an '88 mode under '88 -/
theorem modeShape_modeString (legacy : Bool) (dflt : Mode) (hd : Spec.mode88 dflt = true)
    (mo : Option Mode) :
    modeShape legacy dflt (modeString mo) =
      if legacy && !Spec.mode88 (mo.getD dflt) then none else some (mo.getD dflt) := by
  cases mo with
  | none =>
    simp [modeShape, modeString_none, hd]
  | some m =>
    unfold modeShape
    rw [modeString_some_ne, modeString_some_toList, getAddressMode_sym, getAddressMode88_sym]
    cases legacy <;> cases h : Spec.mode88 m <;> simp [h]

theorem opString_none (opS : String) : opString opS none = opS := by
  simp [opString]

theorem opString_some_toList (opS s : String) :
    (opString opS (some s)).toList = opS.toList ++ '.' :: s.toList := by
  simp [opString, String.toList_append]

/-- the reference's modifier resolution -/
def mdSpec (legacy : Bool) (mdS : Option String) (op : Op) (am bm : Mode) : Option Modifier :=
  if legacy then (if mdS.isSome then none else Spec.implied88 op am bm)
  else
    match mdS with
    | some s => Spec.modOfString s
    | none => some (Spec.defaultMod94 op am bm)

theorem opShape_opString (legacy : Bool) (opS : String) (mdS : Option String) (am bm : Mode)
    (hop : Ascii opS) (hdot : '.' ∉ opS.toList) (hmd : ∀ s, mdS = some s → Ascii s)
    (ha : legacy = true → Spec.mode88 am = true) (hb : legacy = true → Spec.mode88 bm = true) :
    opShape legacy (opString opS mdS) am bm =
      match Spec.opOfString opS with
      | none => none
      | some op =>
        if legacy && !Spec.is88Op op then none
        else (mdSpec legacy mdS op am bm).map (fun md => (op, md)) := by
  unfold opShape mdSpec
  cases legacy with
  | true =>
    simp only [if_true, Bool.true_and]
    cases mdS with
    | some s =>
      rw [getOpCode88_dot (by rw [opString_some_toList]; simp)]
      cases Spec.opOfString opS with
      | none => rfl
      | some op => simp
    | none =>
      rw [opString_none, getOpCode88_eq hop]
      cases h : Spec.opOfString opS with
      | none => rfl
      | some op =>
        cases h8 : Spec.is88Op op with
        | false => simp [Option.filter, h8]
        | true =>
          simp only [Option.filter, h8, if_true, Bool.not_true, Bool.false_eq_true, if_false,
            Option.isSome_none]
          rw [validate88_eq op am bm (ha rfl) (hb rfl)]
          cases Spec.implied88 op am bm <;> rfl
  | false =>
    simp only [Bool.false_eq_true, if_false, Bool.false_and]
    cases mdS with
    | none =>
      rw [opString_none, getOp94_nodot hdot, getOpCode_eq hop]
      cases Spec.opOfString opS with
      | none => rfl
      | some op => simp [getOpMode94_eq]
    | some s =>
      have hs := hmd s rfl
      rw [opString_some_toList]
      have hfall : getOpCode (opS.toList ++ '.' :: s.toList) = none := getOpCode_dot (by simp)
      by_cases hsd : '.' ∈ s.toList
      · have h2 : 2 ≤ (opS.toList ++ '.' :: s.toList).count '.' := by
          rw [List.count_append, List.count_cons_self]
          have := List.count_pos_iff.2 hsd
          omega
        rw [getOp94_many h2, hfall]
        have : Spec.modOfString s = none := by rw [← getOpMode_eq hs]; exact getOpMode_dot hsd
        simp only [this]
        cases Spec.opOfString opS <;> rfl
      · rw [getOp94_two hdot hsd, getOpCode_eq hop, getOpMode_eq hs, hfall]
        cases Spec.opOfString opS with
        | none => rfl
        | some op => cases h : Spec.modOfString s <;> simp [h]


theorem dflt_opString (opS : String) (hop : Ascii opS) :
    (lowerStr (opString opS none) == "dat") = (Spec.opOfString opS == some .dat) := by
  rw [opString_none, lowerStr_dat_iff, getOpCode_eq hop]


theorem reduce_zero (M : Nat) : Spec.reduce M 0 = 0 := by
  simp [Spec.reduce]

theorem placeShape_spec {M : Nat} (h0 : 0 < M) (h63 : M < 2 ^ 63) (op : Op) (md : Modifier)
    (am bm : Mode) (avO : Option Int) (b : Option Spec.POperand) (f : Spec.POperand → Option Int)
    (hbm : b = none → op ≠ .dat → bm = .direct) :
    placeShape (M : Int) op md am bm b.isSome avO (b.bind f) =
      avO.bind fun av =>
        match b with
        | some bo => (f bo).bind fun bv =>
            some { op := op, md := md, am := am, a := Spec.reduce M av, bm := bm, b := Spec.reduce M bv }
        | none =>
          if op == .dat then
            some { op := op, md := md, am := .immediate, a := 0, bm := am, b := Spec.reduce M av }
          else some { op := op, md := md, am := am, a := Spec.reduce M av, bm := .direct, b := 0 } := by
  unfold placeShape
  cases avO with
  | none => rfl
  | some av =>
    cases b with
    | some bo =>
      cases h : f bo <;> simp [h, redI_eq_reduce h0 h63]
    | none =>
      by_cases hop : op = .dat
      · subst hop; simp [redI_eq_reduce h0 h63, reduce_zero]
      · have := hbm rfl hop
        subst this
        simp [hop, redI_eq_reduce h0 h63, reduce_zero]

/-- `Spec.instrMeaning` with its guards spelled out -/
theorem instrMeaning_eq (c : Spec.Cfg) (t : Spec.Tables) (line : Nat) (opS : String)
    (mdS : Option String) (a : Spec.POperand) (b : Option Spec.POperand) :
    Spec.instrMeaning c t line opS mdS a b =
      match Spec.opOfString opS with
      | none => none
      | some op =>
        if c.legacy && !Spec.is88Op op then none
        else
          let D : Mode := if c.legacy && op == .dat then .immediate else .direct
          let am := a.mode.getD D
          let bm := (b.bind (·.mode)).getD D
          if c.legacy && !(Spec.mode88 am && Spec.mode88 bm) then none
          else
            (mdSpec c.legacy mdS op am bm).bind fun md =>
              (Spec.evalAt c t line a.expr).bind fun av =>
                match b with
                | some bo => (Spec.evalAt c t line bo.expr).bind fun bv =>
                    some { op := op, md := md, am := am, a := Spec.reduce c.M av, bm := bm,
                           b := Spec.reduce c.M bv }
                | none =>
                  if op == .dat then
                    some { op := op, md := md, am := .immediate, a := 0, bm := am,
                           b := Spec.reduce c.M av }
                  else some { op := op, md := md, am := am, a := Spec.reduce c.M av,
                              bm := .direct, b := 0 } := by
  unfold Spec.instrMeaning mdSpec
  cases Spec.opOfString opS with
  | none => rfl
  | some op => cases b <;> rfl

theorem lineShapeO_meaning (c : Spec.Cfg) (t : Spec.Tables) (line : Nat) (opS : String)
    (mdS : Option String) (a : Spec.POperand) (b : Option Spec.POperand)
    (hM0 : 0 < c.M) (hM : c.M < 2 ^ 63)
    (hop : Ascii opS) (hdot : '.' ∉ opS.toList) (hmd : ∀ s, mdS = some s → Ascii s) :
    lineShapeO c.legacy (c.M : Int) (opString opS mdS) (modeString a.mode)
        (modeString (b.bind (·.mode))) b.isSome
        (Spec.evalAt c t line a.expr) (b.bind (fun bo => Spec.evalAt c t line bo.expr)) =
      Spec.instrMeaning c t line opS mdS a b := by
  unfold lineShapeO
  simp only
  generalize hD : (if c.legacy && lowerStr (opString opS mdS) == "dat" then Mode.immediate else Mode.direct) = D
  have hD88 : Spec.mode88 D = true := by subst hD; split <;> rfl
  rw [modeShape_modeString _ _ hD88, modeShape_modeString _ _ hD88, instrMeaning_eq]
  have hbmD : ∀ op : Op, b = none → op ≠ .dat →
      (b.bind fun x => x.mode).getD (if (c.legacy && op == Op.dat) = true then Mode.immediate else Mode.direct)
        = Mode.direct := by
    intro op hb hop
    subst hb
    have : (op == Op.dat) = false := by simpa using hop
    simp [this]
  obtain ⟨legacy, M, ml, mp, mdist⟩ := c
  simp only at hM0 hM hD hbmD ⊢
  cases legacy with
  | false =>
    simp only [Bool.false_and, Bool.false_eq_true, if_false] at hD hbmD ⊢
    subst hD
    rw [opShape_opString false opS mdS _ _ hop hdot hmd (by simp) (by simp)]
    cases hO : Spec.opOfString opS with
    | none => rfl
    | some op =>
      simp only [Bool.false_and, Bool.false_eq_true, if_false]
      cases hmd' : mdSpec false mdS op (a.mode.getD Mode.direct)
          ((b.bind fun x => x.mode).getD Mode.direct) with
      | none => rfl
      | some md =>
        simp only [Option.map_some, Option.bind_some]
        exact placeShape_spec hM0 hM _ _ _ _ _ _ _ (hbmD op)
  | true =>
    simp only [Bool.true_and] at hD hbmD ⊢
    cases mdS with
    | some s =>
      have hL : ∀ am bm, opShape true (opString opS (some s)) am bm = none := by
        intro am bm
        unfold opShape
        rw [if_pos rfl, getOpCode88_dot (by rw [opString_some_toList]; simp)]
      have hR : ∀ op am bm, mdSpec true (some s) op am bm = none := by
        intro op am bm; rfl
      simp only [hL, hR, Option.bind_none]
      apply Eq.trans (b := (none : Option Instr))
      · split
        · rfl
        · split <;> rfl
      · cases Spec.opOfString opS with
        | none => rfl
        | some op => simp
    | none =>
      rw [dflt_opString opS hop] at hD
      cases hO : Spec.opOfString opS with
      | none =>
        have hL : ∀ am bm, opShape true (opString opS none) am bm = none := by
          intro am bm
          unfold opShape
          rw [if_pos rfl, opString_none, getOpCode88_eq hop, hO]
          rfl
        simp only [hL]
        split
        · rfl
        · split <;> rfl
      | some op =>
        rw [hO] at hD
        have hD' : (if (op == Op.dat) = true then Mode.immediate else Mode.direct) = D := by
          rw [← hD]
          by_cases h : op = .dat
          · subst h; rfl
          · have h1 : (op == Op.dat) = false := by simpa using h
            have h2 : (some op == some Op.dat) = false := by simpa using h
            rw [h1, h2]
        have hbm0 := hbmD op
        clear hbmD
        simp only
        rw [hD'] at hbm0 ⊢
        generalize a.mode.getD D = am at *
        generalize hbm : (b.bind fun x => x.mode).getD D = bm at *
        cases ha : Spec.mode88 am with
        | false => simp
        | true =>
          cases hb : Spec.mode88 bm with
          | false => simp
          | true =>
            simp only [Bool.not_true, Bool.false_eq_true, if_false, Bool.and_self]
            rw [opShape_opString true opS none am bm hop hdot hmd (fun _ => ha) (fun _ => hb), hO]
            simp only [Bool.true_and]
            cases h8 : Spec.is88Op op with
            | false => rfl
            | true =>
              simp only [Bool.not_true, Bool.false_eq_true, if_false]
              cases hmd' : mdSpec true none op am bm with
              | none => rfl
              | some md =>
                simp only [Option.map_some, Option.bind_some]
                exact placeShape_spec hM0 hM _ _ _ _ _ _ _ hbm0

theorem placeShape_noB (m : Int) (op : Op) (md : Modifier) (am bm : Mode) (avO : Option Int)
    (bv : Int) :
    placeShape m op md am bm false avO (some bv) = placeShape m op md am bm false avO none := by
  unfold placeShape
  cases avO <;> rfl

theorem lineShapeO_noB (legacy : Bool) (m : Int) (opS amodeS bmodeS : String) (avO : Option Int)
    (bv : Int) :
    lineShapeO legacy m opS amodeS bmodeS false avO (some bv) =
      lineShapeO legacy m opS amodeS bmodeS false avO none := by
  unfold lineShapeO
  simp only [placeShape_noB]

/-- **2.** For an abstract instruction `Spec.Item.instr labels opS mdS a b` whose source line
    carries the text `opS[.mdS]`, the mode symbols (or nothing) and the operands, the shape
    function of part 1 is the reference meaning `Spec.instrMeaning`, given the same operand values:
    the dialect defaults (`getOpMode94 = Spec.defaultMod94`, `validate88_eq`, the '88 DAT `#`), the
    lone-operand placement and the reduction (`Spec.reduce M v` = the model's `reduceMod`) agree.

    Hypotheses beyond the requested ones: the opcode and modifier texts are ASCII (see
    `getOpCode_nonascii_counterexample`) and the opcode text has no dot (`mov.i` with no modifier
    is MOV.I for gmars and no opcode for the reference). `3 ≤ M` is not needed, `0 < M` is. -/
theorem lineShape_meaning (c : Spec.Cfg) (t : Spec.Tables) (line : Nat) (opS : String)
    (mdS : Option String) (a : Spec.POperand) (b : Option Spec.POperand) (av bv : Int)
    (hM0 : 0 < c.M) (hM : c.M < 2 ^ 63)
    (hop : Ascii opS) (hdot : '.' ∉ opS.toList) (hmd : ∀ s, mdS = some s → Ascii s)
    (hA : Spec.evalAt c t line a.expr = some av)
    (hB : ∀ bo, b = some bo → Spec.evalAt c t line bo.expr = some bv) :
    lineShape c.legacy (c.M : Int) (opString opS mdS) (modeString a.mode)
        (modeString (b.bind (·.mode))) b.isSome av bv =
      Spec.instrMeaning c t line opS mdS a b := by
  rw [← lineShapeO_meaning c t line opS mdS a b hM0 hM hop hdot hmd, hA]
  unfold lineShape
  cases b with
  | none => exact lineShapeO_noB ..
  | some bo => simp only [Option.bind_some, hB bo rfl]

/-! ## 3. one line: the model against the reference -/

/-- `assembleLine` on the source line of an abstract instruction answers with the reference
    meaning of that instruction, provided the operand evaluation of the model (`operandM`:
    `expandExpression` then `evaluateExpression`) agrees with the reference's (`Spec.evalAt`). -/
theorem assembleLine_meaning (c : Compiler) (ln : SourceLine) (sc : Spec.Cfg) (t : Spec.Tables)
    (line : Nat) (opS : String) (mdS : Option String) (a : Spec.POperand) (b : Option Spec.POperand)
    (hleg : c.legacy = sc.legacy) (hm : mInt c.m = (sc.M : Int))
    (hM0 : 0 < sc.M) (hM : sc.M < 2 ^ 63)
    (hop : Ascii opS) (hdot : '.' ∉ opS.toList) (hmd : ∀ s, mdS = some s → Ascii s)
    (hlop : ln.op = opString opS mdS) (hlam : ln.amode = modeString a.mode)
    (hlbm : ln.bmode = modeString (b.bind (·.mode)))
    (hlb : (ln.b.getD []).isEmpty = !b.isSome)
    (hA : operandM c (ln.a.getD []) ln.codeLine = optM (Spec.evalAt sc t line a.expr))
    (hB : ∀ bo, b = some bo →
      operandM c (ln.b.getD []) ln.codeLine = optM (Spec.evalAt sc t line bo.expr)) :
    assembleLine c ln = optM (Spec.instrMeaning sc t line opS mdS a b) := by
  rw [assembleLine_shapeO c ln (Spec.evalAt sc t line a.expr)
    (b.bind (fun bo => Spec.evalAt sc t line bo.expr)) (by rw [hm]; omega) hA]
  · rw [hleg, hm, hlop, hlam, hlbm, hlb, Bool.not_not,
      lineShapeO_meaning sc t line opS mdS a b hM0 hM hop hdot hmd]
  · intro hne
    cases b with
    | none => rw [hlb] at hne; cases hne
    | some bo => exact hB bo rfl

end Gmars.AsmLine
