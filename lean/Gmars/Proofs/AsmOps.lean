/-
  C03 "Redcode source assembles to the instructions it denotes", compiler stage, part 0:
  the decoding helpers of asm.go (`getOpCode`, `getOpCode88`, `getOpMode`, `getOp94`,
  `getAddressMode`, `getAddressMode88`, `getOpMode94`) against the independently written
  look-ups of the reference (`Spec.opOfString`, `Spec.modOfString`, `Spec.is88Op`,
  `Spec.defaultMod94`, `Spec.mode88`) — on ASCII opcode / modifier text.

  Outside ASCII the two sides DIFFER (Go's `strings.ToLower` maps U+0130 to `i`, Lean's
  `String.toUpper` leaves it alone): see `getOpCode_nonascii_counterexample`.
-/
import Gmars.Model.Token
import Gmars.Spec.Program
import Gmars.Proofs.GoStrLemmas

namespace Gmars.AsmLine
open GoStr

/-- every character is ASCII -/
def Ascii (s : String) : Prop := ∀ c ∈ s.toList, c.toNat < 128

/-! ## upper and lower case -/

theorem char_upper_lower_fin : ∀ n : Fin 128,
    Char.toUpper (lowerChar (Char.ofNat n)) = Char.toUpper (Char.ofNat n) ∧
    lowerChar (Char.toUpper (Char.ofNat n)) = lowerChar (Char.ofNat n) := by decide

theorem char_upper_lower {c : Char} (h : c.toNat < 128) :
    Char.toUpper (lowerChar c) = Char.toUpper c ∧ lowerChar (Char.toUpper c) = lowerChar c := by
  have := char_upper_lower_fin ⟨c.toNat, h⟩
  simpa [Char.ofNat_toNat] using this

theorem toUpper_eq {s : String} (h : Ascii s) :
    s.toUpper = String.ofList ((toLower s.toList).map Char.toUpper) := by
  apply String.toList_injective
  rw [String.toUpper, String.toList_map, String.toList_ofList, toLower, List.map_map]
  exact List.map_congr_left (fun c hc => ((char_upper_lower (h c hc)).1).symm)

theorem toLower_toUpper {s : String} (h : Ascii s) :
    toLower s.toUpper.toList = toLower s.toList := by
  rw [String.toUpper, String.toList_map, toLower, toLower, List.map_map]
  exact List.map_congr_left (fun c hc => (char_upper_lower (h c hc)).2)

theorem lowerChar_dot : lowerChar '.' = '.' := by decide

theorem dot_mem_toLower {l : Str} (h : '.' ∈ l) : '.' ∈ toLower l := by
  unfold toLower
  exact List.mem_map.2 ⟨'.', h, lowerChar_dot⟩

/-! ## opcodes -/

def Op.lname : Op → String
  | .dat => "dat" | .mov => "mov" | .add => "add" | .sub => "sub" | .mul => "mul"
  | .div => "div" | .mod => "mod" | .cmp => "cmp" | .seq => "seq" | .sne => "sne"
  | .slt => "slt" | .jmp => "jmp" | .jmz => "jmz" | .jmn => "jmn" | .djn => "djn"
  | .spl => "spl" | .nop => "nop"

theorem lower_name (o : Op) : String.ofList (toLower o.name.toList) = Op.lname o := by
  cases o <;> decide

/-- `getOpCode` (lower-case the text, look it up) is the reference look-up (upper-case the text,
    compare with the printed opcode names) on ASCII text -/
theorem getOpCode_eq {s : String} (h : Ascii s) : getOpCode s.toList = Spec.opOfString s := by
  unfold getOpCode Spec.opOfString
  split
  all_goals first
    | (rename_i heq
       have h1 := congrArg String.toList heq
       rw [String.toList_ofList] at h1
       rw [toUpper_eq h, h1]
       decide)
    | skip
  symm; rw [List.find?_eq_none]
  intro o _ hb
  have he : o.name = s.toUpper := by simpa using hb
  have hl : String.ofList (toLower s.toList) = Op.lname o := by
    rw [← lower_name, he, toLower_toUpper h]
  cases o <;> simp_all [Op.lname]

/-- the counterexample outside ASCII: Go lower-cases U+0130 to `i`, so `dİv` is DIV for gmars and
    no opcode for the reference -/
theorem getOpCode_nonascii_counterexample :
    getOpCode "dİv".toList = some .div ∧ Spec.opOfString "dİv" = none := by
  refine ⟨by decide, ?_⟩
  have : "dİv".toUpper = "DİV" := by
    apply String.toList_injective
    rw [String.toUpper, String.toList_map]
    decide
  unfold Spec.opOfString
  rw [this]
  decide

/-- `getOpCode88` is `getOpCode` restricted to the eleven '88 opcodes -/
theorem getOpCode88_eq_filter (l : Str) : getOpCode88 l = (getOpCode l).filter Spec.is88Op := by
  unfold getOpCode88 getOpCode
  generalize String.ofList (toLower l) = x
  split
  all_goals first
    | (subst_vars; decide)
    | skip
  split
  all_goals first
    | (subst_vars; simp_all; done)
    | (subst_vars; decide)
    | rfl

theorem getOpCode88_eq {s : String} (h : Ascii s) :
    getOpCode88 s.toList = (Spec.opOfString s).filter Spec.is88Op := by
  rw [getOpCode88_eq_filter, getOpCode_eq h]

theorem getOpCode_dot {l : Str} (h : '.' ∈ l) : getOpCode l = none := by
  have hd := dot_mem_toLower h
  unfold getOpCode
  split
  all_goals first
    | rfl
    | (rename_i heq
       have h1 := congrArg String.toList heq
       rw [String.toList_ofList] at h1
       rw [h1] at hd
       exact absurd hd (by decide))

theorem getOpCode88_dot {l : Str} (h : '.' ∈ l) : getOpCode88 l = none := by
  rw [getOpCode88_eq_filter, getOpCode_dot h]; rfl

/-- `lowerStr op == "dat"` (the test `assembleLine` uses for the '88 default mode) -/
theorem lowerStr_dat_iff (s : String) : (lowerStr s == "dat") = (getOpCode s.toList == some .dat) := by
  unfold getOpCode lowerStr
  generalize String.ofList (toLower s.toList) = x
  split
  all_goals first
    | (subst_vars; decide)
    | skip
  rename_i h _ _ _ _ _ _ _ _ _ _ _ _ _ _ _ _
  have : x ≠ "dat" := fun e => h e
  simp [this]

/-! ## modifiers -/

def Modifier.lname : Modifier → String
  | .f => "f" | .a => "a" | .b => "b" | .ab => "ab" | .ba => "ba" | .x => "x" | .i => "i"

theorem lower_mname (o : Modifier) : String.ofList (toLower o.name.toList) = Modifier.lname o := by
  cases o <;> decide

theorem getOpMode_eq {s : String} (h : Ascii s) : getOpMode s.toList = Spec.modOfString s := by
  unfold getOpMode Spec.modOfString
  split
  all_goals first
    | (rename_i heq
       have h1 := congrArg String.toList heq
       rw [String.toList_ofList] at h1
       rw [toUpper_eq h, h1]
       decide)
    | skip
  symm; rw [List.find?_eq_none]
  intro o _ hb
  have he : o.name = s.toUpper := by simpa using hb
  have hl : String.ofList (toLower s.toList) = Modifier.lname o := by
    rw [← lower_mname, he, toLower_toUpper h]
  cases o <;> simp_all [Modifier.lname]

theorem getOpMode_dot {l : Str} (h : '.' ∈ l) : getOpMode l = none := by
  have hd := dot_mem_toLower h
  unfold getOpMode
  split
  all_goals first
    | rfl
    | (rename_i heq
       have h1 := congrArg String.toList heq
       rw [String.toList_ofList] at h1
       rw [h1] at hd
       exact absurd hd (by decide))

/-! ## `strings.Split(op, ".")` and `getOp94` -/

theorem splitOnChar_go_length (c : Char) (s cur : Str) (acc : List Str) :
    (splitOnChar.go c s cur acc).length = acc.length + s.count c + 1 := by
  induction s generalizing cur acc with
  | nil => simp [splitOnChar.go]
  | cons x r ih =>
    unfold splitOnChar.go
    by_cases hx : x = c
    · subst hx
      simp only [beq_self_eq_true, if_true, ih, List.length_cons, List.count_cons_self]
      omega
    · have : (x == c) = false := by simpa using hx
      simp only [this, Bool.false_eq_true, if_false, ih]
      rw [List.count_cons_of_ne (by simpa using hx)]

theorem splitOnChar_length (c : Char) (s : Str) : (splitOnChar s c).length = s.count c + 1 := by
  unfold splitOnChar
  rw [splitOnChar_go_length]; simp

/-- `getOp94` on `op.md`: the two halves are decoded separately (both dot-free) -/
theorem getOp94_two {o m : Str} (ho : '.' ∉ o) (hm : '.' ∉ m) :
    getOp94 (o ++ '.' :: m) = (getOpCode o).bind (fun op => (getOpMode m).map (fun md => (op, md))) := by
  unfold getOp94
  rw [splitOnChar_one '.' o m (fun x hx e => ho (e ▸ hx)) (fun x hx e => hm (e ▸ hx))]
  show (do let x ← getOpCode o; let y ← getOpMode m; pure (x, y)) = _
  cases getOpCode o <;> cases getOpMode m <;> rfl

/-- more than one dot: `getOp94` gives up -/
theorem getOp94_many {l : Str} (h : 2 ≤ l.count '.') : getOp94 l = none := by
  unfold getOp94
  have := splitOnChar_length '.' l
  split
  · rename_i heq; rw [heq] at this; simp at this; omega
  · rfl

/-- no dot: `getOp94` gives up -/
theorem getOp94_nodot {l : Str} (h : '.' ∉ l) : getOp94 l = none := by
  unfold getOp94
  rw [splitOnChar_none '.' l (fun x hx e => h (e ▸ hx))]

/-! ## addressing modes and default modifiers -/

theorem getAddressMode_sym (m : Mode) : getAddressMode [m.sym] = some m := by cases m <;> rfl

theorem getAddressMode88_sym (m : Mode) :
    getAddressMode88 [m.sym] = if Spec.mode88 m then some m else none := by cases m <;> rfl

/-- the default modifiers of gmars are those of the ICWS'94 draft, for every opcode and every
    pair of modes -/
theorem getOpMode94_eq (op : Op) (am bm : Mode) : getOpMode94 op am bm = Spec.defaultMod94 op am bm := by
  cases op <;> cases am <;> cases bm <;> rfl

end Gmars.AsmLine
