/-
  C09, assembler half: the canonical load text `Spec.printLoad legacy code start`
  (`ORG n` first / `END n` last, one `OP[.MOD] m n, m n` per line) assembles to exactly
  `code` / `start`.  A corollary of `AsmCompose.assemble_meaning_labels`: the load text is one of
  the renderings of the source program `loadProg`.

    * `loadProg`, `loadLines`, `render_loadLines`
    * `meaningFlat_loadProg`   the reference meaning of the program is `code` / `start`
    * `asm_print`              the assembler on the text
-/
import Gmars.Proofs.AsmCompose
import Gmars.Spec.LoadText
import Gmars.Proofs.ForPassEval

namespace Gmars
namespace AsmPrint
open Gmars.Render Gmars.AsmLine Gmars.ExprProofs Gmars.AsmCompose

/-! ## the load text as a source program -/

/-- the modifier text of a line: none under '88 -/
def mdText (legacy : Bool) (i : Instr) : Option String := if legacy then none else some i.md.name

def loadOperandA (i : Instr) : LOperand := { mode := some i.am, expr := .num i.a.toNat }
def loadOperandB (i : Instr) : LOperand := { mode := some i.bm, expr := .num i.b.toNat }

/-- one instruction of the load file -/
def loadItem (legacy : Bool) (i : Instr) : SItem :=
  .instr [] i.op.name (mdText legacy i) (loadOperandA i) (some (loadOperandB i)) 0

/-- the load file as a source program: `ORG start` first ('94) or `END start` last ('88) -/
def loadProg (legacy : Bool) (code : List Instr) (start : Nat) : SProg :=
  if legacy then { items := code.map (loadItem true), fin := some ("END", some (.num start)) }
  else { items := .org "ORG" (.num start) 0 :: code.map (loadItem false) }

/-! ### its text -/

/-- the line `OP[.MOD] m a, m b` with the spacing of `Spec.printInstr` -/
def loadLine (legacy : Bool) (i : Instr) : SrcLine :=
  { words := [(identWord (opString i.op.name (mdText legacy i)), [' ']), (modeWord i.am.sym, [' ']),
              (numWord i.a.toNat, []), (Word.sym ',', [' ']), (modeWord i.bm.sym, [' ']),
              (numWord i.b.toNat, [])] }

/-- the line `KW n` -/
def dirLine (kw : String) (n : Nat) : SrcLine :=
  { words := [(identWord kw, [' ']), (numWord n, [])] }

def loadLines (legacy : Bool) (code : List Instr) (start : Nat) : List SrcLine :=
  if legacy then code.map (loadLine true) ++ [dirLine "END" start]
  else dirLine "ORG" start :: code.map (loadLine false)

theorem identOK_op94 (op : Op) (md : Modifier) : identOK (opString op.name (some md.name)) = true := by
  cases op <;> cases md <;> decide

theorem identOK_op88 (op : Op) : identOK (opString op.name none) = true := by
  cases op <;> decide

theorem identOK_opText (legacy : Bool) (i : Instr) :
    identOK (opString i.op.name (mdText legacy i)) = true := by
  cases legacy
  · exact identOK_op94 i.op i.md
  · exact identOK_op88 i.op

theorem identWord_chars {s : String} (h : identOK s = true) : (identWord s).chars = s.toList := by
  unfold identOK identWord at h
  unfold identWord
  cases hs : s.toList with
  | nil => rw [hs] at h; simp [Word.isIdent] at h
  | cons c cs => rfl

theorem numWord_chars (n : Nat) : (numWord n).chars = Nat.toDigits 10 n := by
  obtain ⟨c, cs, hd, hw, _⟩ := numWord_spec n
  rw [hw, hd]; rfl

theorem modeWord_chars (c : Char) : (modeWord c).chars = [c] := by
  unfold modeWord; split <;> rfl

theorem symWord_chars (c : Char) : (Word.sym c).chars = [c] := rfl

theorem opText_toList (legacy : Bool) (i : Instr) :
    (opString i.op.name (mdText legacy i)).toList =
      i.op.name.toList ++ (if legacy then [] else '.' :: i.md.name.toList) := by
  cases legacy
  · simp [mdText, opString_some_toList]
  · simp [mdText, opString_none]

theorem loadLine_chars (legacy : Bool) (i : Instr) :
    (loadLine legacy i).chars ++ ['\n'] = Spec.printInstr legacy i := by
  simp only [SrcLine.chars, loadLine, renderWords, SrcLine.commentChars,
    identWord_chars (identOK_opText legacy i), numWord_chars, modeWord_chars, opText_toList,
    Spec.printInstr, symWord_chars, List.nil_append, List.append_nil, List.append_assoc,
    List.cons_append]
  rfl

theorem dirLine_chars (kw : String) (hk : identOK kw = true) (n : Nat) :
    (dirLine kw n).chars ++ ['\n'] = kw.toList ++ ' ' :: (Nat.toDigits 10 n ++ ['\n']) := by
  simp [SrcLine.chars, dirLine, renderWords, SrcLine.commentChars, identWord_chars hk, numWord_chars]

theorem renderLines_append (a b : List SrcLine) : renderLines (a ++ b) = renderLines a ++ renderLines b := by
  induction a with
  | nil => rfl
  | cons l r ih => simp [renderLines, ih]

theorem renderLines_cons' (l : SrcLine) (r : List SrcLine) :
    renderLines (l :: r) = (l.chars ++ ['\n']) ++ renderLines r := by
  simp [renderLines]

theorem renderLines_loadLine (legacy : Bool) (code : List Instr) :
    renderLines (code.map (loadLine legacy)) = (code.map (Spec.printInstr legacy)).flatten := by
  induction code with
  | nil => rfl
  | cons i r ih =>
    rw [List.map_cons, renderLines_cons', loadLine_chars, ih]
    rfl

/-- the lines, rendered, are the canonical load text -/
theorem render_loadLines (legacy : Bool) (code : List Instr) (start : Nat) :
    renderLines (loadLines legacy code start) = Spec.printLoad legacy code start := by
  unfold loadLines Spec.printLoad
  cases legacy
  · simp only [Bool.false_eq_true, if_false, List.append_nil]
    rw [renderLines_cons', dirLine_chars "ORG" (by decide), renderLines_loadLine]
    simp
  · simp only [if_true, List.nil_append]
    rw [renderLines_append, renderLines_loadLine, renderLines_cons',
      dirLine_chars "END" (by decide)]
    simp [renderLines]

/-! ### the lines are a spacing of the program's source lines -/

theorem spaced_fst (ws : List Word) : (spaced ws).map (·.1) = ws := by
  induction ws with
  | nil => rfl
  | cons w r ih => simp [spaced, ih]

theorem loadItem_words (legacy : Bool) (i : Instr) :
    (wStmt [] i.op.name (mdText legacy i) (loadOperandA i) (some (loadOperandB i))).words =
      [identWord (opString i.op.name (mdText legacy i)), modeWord i.am.sym, numWord i.a.toNat,
       Word.sym ',', modeWord i.bm.sym, numWord i.b.toNat] := by
  simp [WStmt.words, wStmt, labelWords, WOperand.words, wOperand, WStmt.bWords, NTwords,
    loadOperandA, loadOperandB]

theorem loadLine_same (legacy : Bool) (i : Instr) :
    ∃ l, (loadItem legacy i).srcLines = [l] ∧ (loadLine legacy i).SameWords l := by
  refine ⟨_, rfl, ?_, rfl⟩
  simp only [spaced_fst, loadItem_words]
  rfl

theorem sameLines_loadItems (legacy : Bool) (code : List Instr) (r r' : List SrcLine)
    (h : SameLines r r') :
    SameLines (code.map (loadLine legacy) ++ r) (sitemsSrcLines (code.map (loadItem legacy)) ++ r') := by
  induction code with
  | nil => exact h
  | cons i c ih =>
    obtain ⟨l, hl, hs⟩ := loadLine_same legacy i
    simp only [List.map_cons, sitemsSrcLines, hl, List.cons_append, List.nil_append]
    exact ⟨hs, ih⟩

theorem dirLine_same (kw : String) (n : Nat) :
    (dirLine kw n).SameWords (pseudoSrcLine kw [numWord n]) := by
  refine ⟨?_, rfl⟩
  simp only [pseudoSrcLine, spaced_fst]
  rfl

theorem loadLines_same (legacy : Bool) (code : List Instr) (start : Nat) :
    SameLines (loadLines legacy code start) (loadProg legacy code start).srcLines := by
  unfold loadLines loadProg SProg.srcLines
  cases legacy
  · simp only [Bool.false_eq_true, if_false, List.replicate_zero, List.nil_append, sitemsSrcLines,
      SItem.srcLines, SProg.finSrcLines, List.cons_append]
    refine ⟨dirLine_same "ORG" start, ?_⟩
    have := sameLines_loadItems false code [] [] trivial
    simpa using this
  · simp only [if_true, List.replicate_zero, List.nil_append, SProg.finSrcLines]
    exact sameLines_loadItems true code _ _ ⟨dirLine_same "END" start, trivial⟩

theorem modeWord_valid (m : Mode) : (modeWord m.sym).valid = true := valid_modeWord (mem_modeChars m)

theorem loadLine_ok (legacy : Bool) (i : Instr) : (loadLine legacy i).ok (some '\n') = true := by
  have h1 := identWord_valid (identOK_opText legacy i)
  have h2 := modeWord_valid i.am
  have h3 := numWord_valid i.a.toNat
  have h4 := modeWord_valid i.bm
  have h5 := numWord_valid i.b.toNat
  have h6 := stopsBefore_sym (numWord i.a.toNat) ',' (by decide)
  have h7 := stopsBefore_newline (numWord i.b.toNat)
  have h8 := stopsBefore_blank (identWord (opString i.op.name (mdText legacy i))) ' ' (by decide)
  have h9 := stopsBefore_blank (modeWord i.am.sym) ' ' (by decide)
  have h10 := stopsBefore_blank (modeWord i.bm.sym) ' ' (by decide)
  simp only [SrcLine.ok, loadLine, List.all_nil, Bool.true_and, wordsOK, renderWords,
    List.nil_append, List.cons_append, headOr, symWord_chars, h1, h2, h3, h4, h5, h6, h7, h8, h9, h10]
  decide

theorem dirLine_ok (kw : String) (hk : identOK kw = true) (n : Nat) :
    (dirLine kw n).ok (some '\n') = true := by
  have h1 := identWord_valid hk
  have h3 := numWord_valid n
  have h7 := stopsBefore_newline (numWord n)
  have h8 := stopsBefore_blank (identWord kw) ' ' (by decide)
  simp only [SrcLine.ok, dirLine, List.all_nil, Bool.true_and, wordsOK, renderWords,
    List.nil_append, List.cons_append, headOr, h1, h3, h7, h8]
  decide

theorem loadLines_ok (legacy : Bool) (code : List Instr) (start : Nat) :
    ∀ l ∈ loadLines legacy code start, l.ok (some '\n') = true := by
  intro l hl
  unfold loadLines at hl
  cases legacy
  · simp only [Bool.false_eq_true, if_false, List.mem_cons, List.mem_map] at hl
    rcases hl with rfl | ⟨i, _, rfl⟩
    · exact dirLine_ok "ORG" (by decide) start
    · exact loadLine_ok false i
  · simp only [if_true, List.mem_append, List.mem_map, List.mem_singleton] at hl
    rcases hl with ⟨i, _, rfl⟩ | rfl
    · exact loadLine_ok true i
    · exact dirLine_ok "END" (by decide) start

/-! ## the hypotheses of `assemble_meaning_labels` -/

/-- the label-program item of an instruction of the load file -/
def LI (legacy : Bool) (i : Instr) : LItem :=
  .instr [] i.op.name (mdText legacy i) (loadOperandA i) (some (loadOperandB i))

theorem filterMap_loadItems (legacy : Bool) (code : List Instr) :
    (code.map (loadItem legacy)).filterMap SItem.toL = code.map (LI legacy) := by
  induction code with
  | nil => rfl
  | cons i r ih =>
    simp only [List.map_cons, List.filterMap_cons, loadItem, SItem.toL, ih]
    rfl

theorem loadProg_litems (legacy : Bool) (code : List Instr) (start : Nat) :
    (loadProg legacy code start).litems =
      if legacy then code.map (LI true) ++ [.end_ "END" (some (.num start))]
      else .org "ORG" (.num start) :: code.map (LI false) := by
  unfold loadProg SProg.litems SProg.finL
  cases legacy
  · simp only [Bool.false_eq_true, if_false, List.filterMap_cons, SItem.toL, filterMap_loadItems,
      List.append_nil]
  · simp only [if_true, filterMap_loadItems]

theorem loadProg_lexOK (legacy : Bool) (code : List Instr) (start : Nat) :
    (loadProg legacy code start).LexOK := by
  have hi : ∀ l, ∀ it ∈ code.map (loadItem l), it.LexOK := by
    intro l it hit
    simp only [List.mem_map] at hit
    obtain ⟨i, _, rfl⟩ := hit
    exact ⟨(by intro p hp; cases hp), identOK_opText l i, trivial, fun bo hbo => by cases hbo; trivial⟩
  unfold loadProg
  cases legacy
  · refine ⟨?_, (by intro kw e h; cases h)⟩
    intro it hit
    simp only [Bool.false_eq_true, if_false, List.mem_cons] at hit
    rcases hit with rfl | hit
    · exact ⟨by decide, trivial⟩
    · exact hi false it hit
  · refine ⟨hi true, ?_⟩
    intro kw e h
    simp only [if_true, Option.some.injEq, Prod.mk.injEq] at h
    obtain ⟨rfl, rfl⟩ := h
    exact ⟨by decide, fun x hx => by cases hx; trivial⟩

theorem isOpName_op94 (op : Op) (md : Modifier) : IsOpName (opString op.name (some md.name)) := by
  cases op <;> cases md <;> decide

theorem isOpName_op88 (op : Op) : IsOpName (opString op.name none) := by
  cases op <;> decide

theorem loadProg_namesOK (legacy : Bool) (code : List Instr) (start : Nat) :
    (loadProg legacy code start).NamesOK := by
  have hi : ∀ l, ∀ it ∈ code.map (loadItem l), it.NamesOK := by
    intro l it hit
    simp only [List.mem_map] at hit
    obtain ⟨i, _, rfl⟩ := hit
    refine ⟨(by intro p hp; cases hp), ?_⟩
    cases l
    · exact isOpName_op94 i.op i.md
    · exact isOpName_op88 i.op
  unfold loadProg
  cases legacy
  · refine ⟨?_, (by intro kw e h; cases h)⟩
    intro it hit
    simp only [Bool.false_eq_true, if_false, List.mem_cons] at hit
    rcases hit with rfl | hit
    · show lowerStr "ORG" = "org"; decide
    · exact hi false it hit
  · refine ⟨hi true, ?_⟩
    intro kw e h
    simp only [if_true, Option.some.injEq, Prod.mk.injEq] at h
    obtain ⟨rfl, rfl⟩ := h
    decide

theorem loadProg_plain (legacy : Bool) (code : List Instr) (start : Nat) :
    ∀ it ∈ (loadProg legacy code start).items, it.Plain := by
  intro it hit
  unfold loadProg at hit
  cases legacy
  · simp only [Bool.false_eq_true, if_false, List.mem_cons, List.mem_map] at hit
    rcases hit with rfl | ⟨i, _, rfl⟩ <;> trivial
  · simp only [if_true, List.mem_map] at hit
    obtain ⟨i, _, rfl⟩ := hit
    trivial

theorem labelsFrom_LI (legacy : Bool) (code : List Instr) (k : Nat) :
    labelsFrom k (code.map (LI legacy)) = [] := by
  induction code generalizing k with
  | nil => rfl
  | cons i r ih => simp [LI, labelsFrom, ih]

theorem linstrCount_LI (legacy : Bool) (code : List Instr) :
    linstrCount (code.map (LI legacy)) = code.length := by
  induction code with
  | nil => rfl
  | cons i r ih =>
    simp only [linstrCount, List.map_cons, List.filter_cons, LI, LItem.isInstr, if_true,
      List.length_cons] at ih ⊢
    omega

theorem loadProg_labelsFrom (legacy : Bool) (code : List Instr) (start : Nat) :
    labelsFrom 0 (loadProg legacy code start).litems = [] := by
  rw [loadProg_litems]
  cases legacy
  · simp [labelsFrom, labelsFrom_LI]
  · simp [labelsFrom_append, labelsFrom, labelsFrom_LI]

theorem loadProg_labels (legacy : Bool) (code : List Instr) (start : Nat) :
    (loadProg legacy code start).labels = [] := by
  unfold SProg.labels; rw [loadProg_labelsFrom]; rfl

theorem loadProg_names (legacy : Bool) (code : List Instr) (start : Nat) :
    (loadProg legacy code start).names = [] := by
  unfold SProg.names
  rw [loadProg_litems]
  have : ∀ l, (code.map (LI l)).flatMap LItemNames = [] := by
    intro l
    induction code with
    | nil => rfl
    | cons i r ih => simp [LI, LItemNames, loadOperandA, loadOperandB, NT.names, ih]
  cases legacy
  · simp [LItemNames, NT.names, this]
  · simp [LItemNames, NT.names, this]

theorem loadProg_count (legacy : Bool) (code : List Instr) (start : Nat) :
    linstrCount (loadProg legacy code start).litems = code.length := by
  rw [loadProg_litems]
  cases legacy
  · simp only [Bool.false_eq_true, if_false]
    have := linstrCount_LI false code
    simp only [linstrCount, List.filter_cons, LItem.isInstr] at this ⊢
    simpa using this
  · simp only [if_true]
    have := linstrCount_LI true code
    simp only [linstrCount, List.filter_append, List.length_append] at this ⊢
    simp [this, LItem.isInstr]

theorem big_gt64 : (2 : Int) ^ 64 < GoEval.big := by
  unfold GoEval.big
  have h : (2 : Int) ^ 500 = 2 ^ 64 * 2 ^ 436 := by rw [← Int.pow_add]
  have h2 : (1 : Int) < 2 ^ 436 := by
    have : (2 : Int) ^ 436 = 2 * 2 ^ 435 := by rw [← Int.pow_succ']
    have hp : (0 : Int) < 2 ^ 435 := Int.pow_pos (by decide)
    omega
  have h3 : (0 : Int) < 2 ^ 64 := by decide
  rw [h]
  calc (2 : Int) ^ 64 = 2 ^ 64 * 1 := by omega
    _ < 2 ^ 64 * 2 ^ 436 := Int.mul_lt_mul_of_pos_left h2 h3

theorem goodTmpl_num (σ : String → Option Int) (n : Nat) (hn : n < 2 ^ 64) :
    GoodTmpl σ constNames (.num n) where
  notConst := by intro s hs; simp [NT.names] at hs
  len := by simp [NT.etoks]
  wf := by
    intro x hx
    cases hx
    refine ⟨trivial, ?_⟩
    show (n : Int) < GoEval.big
    have := big_gt64
    have h' : (n : Int) < 2 ^ 64 := by exact_mod_cast hn
    omega

theorem ascii_opName (op : Op) : Ascii op.name ∧ '.' ∉ op.name.toList := by
  cases op <;> exact ⟨by unfold Ascii; decide, by decide⟩

theorem ascii_mdName (md : Modifier) : Ascii md.name := by
  cases md <;> (unfold Ascii; decide)

theorem LI_wf (legacy : Bool) (M : Nat) (S : List (String × Nat)) (k : Nat) (i : Instr) :
    (LI legacy i).WF M S k := by
  refine ⟨(ascii_opName i.op).1, (ascii_opName i.op).2, ?_, goodTmpl_num _ _ i.a.toNat_lt, ?_⟩
  · intro s hs
    cases legacy
    · simp only [mdText, Bool.false_eq_true, if_false, Option.some.injEq] at hs
      subst hs; exact ascii_mdName i.md
    · simp [mdText] at hs
  · intro bo hbo
    cases hbo
    exact goodTmpl_num _ _ i.b.toNat_lt

theorem progWF_LI (legacy : Bool) (M : Nat) (S : List (String × Nat)) (code : List Instr)
    (tl : List LItem) (htl : ∀ k, ProgWF M S k tl) :
    ∀ k, ProgWF M S k (code.map (LI legacy) ++ tl) := by
  induction code with
  | nil => exact htl
  | cons i r ih =>
    intro k
    simp only [List.map_cons, List.cons_append, ProgWF]
    exact ⟨LI_wf legacy M S k i, ih _⟩

theorem loadProg_progWF (legacy : Bool) (M : Nat) (code : List Instr) (start : Nat)
    (hs : start < 2 ^ 64) :
    ProgWF M (labelsFrom 0 (loadProg legacy code start).litems) 0 (loadProg legacy code start).litems := by
  rw [loadProg_labelsFrom, loadProg_litems]
  cases legacy
  · simp only [Bool.false_eq_true, if_false, ProgWF, LItem.isInstr]
    refine ⟨⟨by decide, goodTmpl_num _ _ hs⟩, ?_⟩
    have := progWF_LI false M [] code [] (fun _ => trivial) 0
    simpa using this
  · simp only [if_true]
    refine progWF_LI true M [] code _ (fun k => ?_) 0
    refine ⟨⟨by decide, ?_⟩, trivial⟩
    intro x hx
    cases hx
    exact goodTmpl_num _ _ hs

/-! ## the reference meaning of the load program -/

theorem opOfString_name (op : Op) : Spec.opOfString op.name = some op := by
  rw [← getOpCode_eq (ascii_opName op).1]
  cases op <;> decide

theorem modOfString_name (md : Modifier) : Spec.modOfString md.name = some md := by
  rw [← getOpMode_eq (ascii_mdName md)]
  cases md <;> decide

/-- the reference value of a number literal below 2^31 -/
theorem evalAt_num (c : Spec.Cfg) (t : Spec.Tables) (line : Nat) (n : Nat) (hn : n < 2 ^ 31) :
    Spec.evalAt c t line [.num n] = some (n : Int) := by
  have h1 := evalAt_cst c t line (.num n) (by simp [CST.ntoks])
  have h2 := reference_evalInt_cst (.num n) trivial
  simp only [CST.etoks] at h1 h2
  rw [h1, h2]
  simp only [denote, Option.bind_some]
  rw [if_pos]
  constructor
  · have : (0 : Int) ≤ n := Int.natCast_nonneg n
    omega
  · have : (n : Int) < 2 ^ 31 := by exact_mod_cast hn
    omega

theorem reduce_field (M : Nat) (x : UInt64) (h : x.toNat < M) : Spec.reduce M (x.toNat : Int) = x := by
  unfold Spec.reduce
  rw [Int.emod_eq_of_lt (Int.natCast_nonneg _) (by exact_mod_cast h), Int.toNat_natCast,
    UInt64.ofNat_toNat]

theorem is88Op_of_mem {op : Op} (h : op ∈ ops88) : Spec.is88Op op = true := by
  simp only [ops88, List.mem_cons, List.not_mem_nil, or_false] at h
  rcases h with rfl | rfl | rfl | rfl | rfl | rfl | rfl | rfl | rfl | rfl | rfl <;> rfl

/-- the reference meaning of one line of the load file is the instruction -/
theorem instrMeaning_load (c : Spec.Cfg) (t : Spec.Tables) (line : Nat) (i : Instr)
    (hf : i.a.toNat < c.M ∧ i.b.toNat < c.M)
    (h31 : i.a.toNat < 2 ^ 31 ∧ i.b.toNat < 2 ^ 31)
    (hl : c.legacy = true → Spec.Legal88 i = true) :
    Spec.instrMeaning c t line i.op.name (mdText c.legacy i) (loadOperandA i).toP
      (some (loadOperandB i).toP) = some i := by
  rw [instrMeaning_eq, opOfString_name]
  simp only [LOperand.toP, loadOperandA, loadOperandB, NT.etoks, Option.getD_some, Option.bind_some,
    evalAt_num c t line _ h31.1, evalAt_num c t line _ h31.2, reduce_field _ _ hf.1,
    reduce_field _ _ hf.2]
  cases hleg : c.legacy with
  | false =>
    simp only [Bool.false_and, Bool.false_eq_true, if_false, mdSpec, mdText, modOfString_name,
      Option.bind_some]
  | true =>
    have hL := hl hleg
    unfold Spec.Legal88 at hL
    have hL' : Spec.implied88 i.op i.am i.bm = some i.md := by simpa using hL
    obtain ⟨ha, hb, hop⟩ := implied88_isSome (op := i.op) (am := i.am) (bm := i.bm) (by rw [hL']; rfl)
    simp only [Bool.true_and, is88Op_of_mem hop, ha, hb, Bool.not_true, Bool.false_eq_true, if_false,
      Bool.and_self, mdSpec, mdText, if_true, Option.isSome_none, hL', Option.bind_some]

theorem codeFold_LI (c : Spec.Cfg) (t : Spec.Tables) (code : List Instr)
    (hf : ∀ i ∈ code, i.a.toNat < c.M ∧ i.b.toNat < c.M)
    (h31 : ∀ i ∈ code, i.a.toNat < 2 ^ 31 ∧ i.b.toNat < 2 ^ 31)
    (hl : c.legacy = true → ∀ i ∈ code, Spec.Legal88 i = true) (tl : List Spec.Item) :
    ∀ (acc : List Instr) (k : Nat),
      codeFold c t ((code.map (LI c.legacy)).map LItem.toItem ++ tl) (some acc, k) =
        codeFold c t tl (some (acc ++ code), k + code.length) := by
  induction code with
  | nil => intro acc k; simp
  | cons i r ih =>
    intro acc k
    simp only [List.map_cons, List.cons_append, LI, LItem.toItem, Option.map_some, codeFold_instr_some]
    rw [instrMeaning_load c t k i (hf i (by simp)) (h31 i (by simp)) (fun h => hl h i (by simp))]
    simp only [Option.map_some]
    have := ih (fun x hx => hf x (by simp [hx])) (fun x hx => h31 x (by simp [hx]))
      (fun h x hx => hl h x (by simp [hx])) (acc ++ [i]) (k + 1)
    rw [this]
    simp only [List.append_assoc, List.cons_append, List.nil_append, List.length_cons]
    rw [show k + 1 + r.length = k + (r.length + 1) by omega]

theorem startNT_loadProg (legacy : Bool) (code : List Instr) (start : Nat) :
    startNT (loadProg legacy code start).litems = .num start := by
  rw [loadProg_litems]
  have h : ∀ (l : Bool) (acc : NT), (code.map (LI l)).foldl lstartStepN acc = acc := by
    intro l acc
    induction code with
    | nil => rfl
    | cons i r ih => simpa [LI, lstartStepN] using ih
  unfold startNT
  cases legacy
  · simp only [Bool.false_eq_true, if_false, List.foldl_cons, lstartStepN, h]
  · simp only [if_true, List.foldl_append, h, List.foldl_cons, lstartStepN, List.foldl_nil]

/-- **the reference reads the load program as `code` / `start`** -/
theorem meaningFlat_loadProg (sc : Spec.Cfg) (code : List Instr) (start : Nat)
    (hf : ∀ i ∈ code, i.a.toNat < sc.M ∧ i.b.toNat < sc.M)
    (h31 : ∀ i ∈ code, i.a.toNat < 2 ^ 31 ∧ i.b.toNat < 2 ^ 31) (hs31 : start < 2 ^ 31)
    (hstart : start < code.length) (hlen : code.length ≤ sc.maxLen)
    (hl : sc.legacy = true → ∀ i ∈ code, Spec.Legal88 i = true) :
    Spec.meaningFlat sc ((loadProg sc.legacy code start).litems.map LItem.toItem) =
      some { code := code, start := start } := by
  have hnd : ((labelsFrom 0 (loadProg sc.legacy code start).litems).map (·.1) ++ constNames).Nodup := by
    rw [loadProg_labelsFrom]; decide
  rw [meaningFlat_litems sc _ hnd, loadProg_count, startNT_loadProg]
  generalize tablesOf sc _ _ = T
  have hcode : (codeFold sc T ((loadProg sc.legacy code start).litems.map LItem.toItem) (some [], 0)).1 =
      some code := by
    rw [loadProg_litems]
    cases hleg : sc.legacy with
    | false =>
      simp only [Bool.false_eq_true, if_false, List.map_cons, LItem.toItem, codeFold_org]
      have := codeFold_LI sc T code hf h31 hl [] [] 0
      rw [hleg] at this
      simp only [List.append_nil, List.nil_append] at this
      rw [this]; rfl
    | true =>
      simp only [if_true, List.map_append]
      have := codeFold_LI sc T code hf h31 hl ([LItem.end_ "END" (some (.num start))].map LItem.toItem) [] 0
      rw [hleg] at this
      rw [this]
      simp only [List.map_cons, List.map_nil, LItem.toItem, codeFold_end]
      rfl
  rw [hcode]
  simp only [Option.bind_some, NT.etoks]
  rw [if_neg (by omega), evalAt_num sc T 0 start hs31]
  simp only [Option.bind_some]
  rw [if_neg]
  · simp
  · simp only [Bool.or_eq_true, decide_eq_true_eq, Bool.and_eq_true, bne_iff_ne, ne_eq, not_or, not_and,
      Decidable.not_not]
    constructor
    · have : (0 : Int) ≤ start := Int.natCast_nonneg start
      omega
    · intro h
      have : (start : Int) < code.length := by exact_mod_cast hstart
      omega

/-! ### fields of 2^31 and more: no meaning -/

theorem evalAt_num_big (c : Spec.Cfg) (t : Spec.Tables) (line : Nat) (n : Nat) (hn : 2 ^ 31 ≤ n) :
    Spec.evalAt c t line [.num n] = none := by
  have h1 := evalAt_cst c t line (.num n) (by simp [CST.ntoks])
  have h2 := reference_evalInt_cst (.num n) trivial
  simp only [CST.etoks] at h1 h2
  rw [h1, h2]
  simp only [denote, Option.bind_some]
  rw [if_neg]
  intro h
  have : (2 : Int) ^ 31 ≤ n := by exact_mod_cast hn
  omega

theorem bind_const_none {α β : Type} (x : Option α) : (x.bind fun _ => (none : Option β)) = none := by
  cases x <;> rfl

theorem instrMeaning_load_big (c : Spec.Cfg) (t : Spec.Tables) (line : Nat) (legacy : Bool) (i : Instr)
    (h : 2 ^ 31 ≤ i.a.toNat ∨ 2 ^ 31 ≤ i.b.toNat) :
    Spec.instrMeaning c t line i.op.name (mdText legacy i) (loadOperandA i).toP
      (some (loadOperandB i).toP) = none := by
  rw [instrMeaning_eq, opOfString_name]
  simp only [LOperand.toP, loadOperandA, loadOperandB, NT.etoks]
  rcases h with h | h
  · simp only [evalAt_num_big c t line _ h, Option.bind_none, bind_const_none, ite_self]
  · simp only [evalAt_num_big c t line _ h, Option.bind_none, bind_const_none, ite_self]

theorem codeFold_LI_big (c : Spec.Cfg) (t : Spec.Tables) (legacy : Bool) (code : List Instr)
    (tl : List LItem) (h : ∃ i ∈ code, 2 ^ 31 ≤ i.a.toNat ∨ 2 ^ 31 ≤ i.b.toNat) :
    ∀ (acc : Option (List Instr)) (k : Nat),
      (codeFold c t ((code.map (LI legacy) ++ tl).map LItem.toItem) (acc, k)).1 = none := by
  induction code with
  | nil => obtain ⟨i, hi, _⟩ := h; cases hi
  | cons i r ih =>
    intro acc k
    cases acc with
    | none => exact lcodeFold_none c t _ k
    | some acc =>
      simp only [List.map_cons, List.cons_append, LI, LItem.toItem, Option.map_some,
        codeFold_instr_some]
      by_cases hb : 2 ^ 31 ≤ i.a.toNat ∨ 2 ^ 31 ≤ i.b.toNat
      · rw [instrMeaning_load_big c t k legacy i hb]
        exact lcodeFold_none c t _ (k + 1)
      · have hr : ∃ j ∈ r, 2 ^ 31 ≤ j.a.toNat ∨ 2 ^ 31 ≤ j.b.toNat := by
          obtain ⟨j, hj, hjb⟩ := h
          rcases List.mem_cons.mp hj with rfl | hj
          · exact absurd hjb hb
          · exact ⟨j, hj, hjb⟩
        exact ih hr _ _

/-- a field of 2^31 or more: the load program has no meaning (the reference, like gmars,
    evaluates operands as 32-bit integers) -/
theorem meaningFlat_loadProg_big (sc : Spec.Cfg) (legacy : Bool) (code : List Instr) (start : Nat)
    (h : ∃ i ∈ code, 2 ^ 31 ≤ i.a.toNat ∨ 2 ^ 31 ≤ i.b.toNat) :
    Spec.meaningFlat sc ((loadProg legacy code start).litems.map LItem.toItem) = none := by
  have hnd : ((labelsFrom 0 (loadProg legacy code start).litems).map (·.1) ++ constNames).Nodup := by
    rw [loadProg_labelsFrom]; decide
  rw [meaningFlat_litems sc _ hnd]
  generalize tablesOf sc _ _ = T
  have hcode : (codeFold sc T ((loadProg legacy code start).litems.map LItem.toItem) (some [], 0)).1 =
      none := by
    rw [loadProg_litems]
    cases legacy with
    | false =>
      simp only [Bool.false_eq_true, if_false, List.map_cons, LItem.toItem, codeFold_org]
      have := codeFold_LI_big sc T false code [] h (some []) 0
      simpa using this
    | true =>
      simp only [if_true]
      exact codeFold_LI_big sc T true code _ h (some []) 0
  rw [hcode]
  rfl

/-! ## `asm_print` -/

theorem validate_length_le {cfg : Config} (hv : cfg.validate = true) :
    cfg.length.toNat ≤ cfg.coreSize.toNat := by
  unfold Config.validate at hv
  by_cases h : cfg.length > cfg.coreSize
  · simp only [h, if_true] at hv
    repeat (first | (split at hv) | cases hv)
  · rw [gt_iff_lt, UInt64.lt_iff_toNat_lt] at h
    omega

/-- the reference configuration of a Go configuration -/
def specCfg (cfg : Config) : Spec.Cfg :=
  { legacy := cfg.mode == .icws88, M := cfg.coreSize.toNat, maxLen := cfg.length.toNat,
    maxProcs := cfg.processes.toNat, minDist := cfg.distance.toNat }

theorem specCfg_rel (cfg : Config) : CfgRel cfg (specCfg cfg) := ⟨rfl, rfl, rfl, rfl, rfl⟩

theorem xitemsMeta_loadItems (legacy : Bool) (code : List Instr) (m : AsmMeta) :
    xitemsMeta ((code.map (loadItem legacy)).map SItem.toX) m = m := by
  induction code with
  | nil => rfl
  | cons i r ih => simpa [xitemsMeta, loadItem, SItem.toX, XItem.metadata, WItem.toItem, Item.metadata] using ih

theorem loadProg_meta (legacy : Bool) (code : List Instr) (start : Nat) :
    (loadProg legacy code start).meta = {} := by
  unfold SProg.meta XProg.metadata SProg.toX loadProg
  cases legacy
  · simp only [Bool.false_eq_true, if_false, List.map_cons, xitemsMeta, SItem.toX, XItem.metadata,
      xitemsMeta_loadItems]
  · simp only [if_true, xitemsMeta_loadItems]

/-- the assembler on the canonical load text of ANY instruction list: it answers with the
    reference meaning of the load program (`meaningFlat_loadProg`: `code` / `start` for a
    well-formed warrior with fields below 2^31; `meaningFlat_loadProg_big`: none when a field is
    2^31 or more) -/
theorem asm_print_meaning (cfg : Config) (code : List Instr) (start : Nat)
    (hv : cfg.validate = true) (hM : cfg.coreSize.toNat < 2 ^ 63)
    (hs64 : start < 2 ^ 64) (hlen : code.length < 2 ^ 63)
    (src : List UInt8) (hsrc : decodeRunes src = Spec.printLoad (cfg.mode == .icws88) code start) :
    assemble cfg src =
      match Spec.meaningFlat (specCfg cfg)
        ((loadProg (cfg.mode == .icws88) code start).litems.map LItem.toItem) with
      | some m => .ok (toWD {} m)
      | none => .err := by
  have h := assemble_meaning_labels cfg (specCfg cfg) (loadProg (cfg.mode == .icws88) code start)
    hv hM (specCfg_rel cfg) (loadProg_lexOK _ _ _) (loadProg_namesOK _ _ _) (loadProg_plain _ _ _)
    (by rw [loadProg_labels]; decide) (by rw [loadProg_names]; intro x hx; cases hx)
    (by rw [loadProg_count]; exact hlen)
    (loadProg_progWF _ _ code start hs64)
    (loadLines (cfg.mode == .icws88) code start) (loadLines_ok _ _ _) (loadLines_same _ _ _)
    src (by rw [hsrc, render_loadLines])
  rw [h, loadProg_meta]
  rfl

/-- **3. `asm_print`** (C09, assembler half): for a warrior `code` / `start` the canonical load
    text `Spec.printLoad` (`ORG n` first under '94, `END n` last under '88, one fully explicit
    `OP[.MOD] m a, m b` per line) assembles to exactly `code` / `start`, with empty metadata.
    `src` is any byte string the Go reader decodes to that text (`asm_print_ascii`: its bytes).

    DEVIATION from the requested statement: the fields and the entry point must be below 2^31
    (`h31`, `hs31`).  gmars evaluates every operand with `evaluateExpression`, which rejects
    values outside the int32 range, so e.g. `DAT.F $ 0, $ 2147483648` on a core of 2^32 is
    an assembly ERROR although the field is below the core size (`asm_print_big`). -/
theorem asm_print (cfg : Config) (code : List Instr) (start : Nat)
    (hv : cfg.validate = true) (hM : cfg.coreSize.toNat < 2 ^ 63)
    (hf : ∀ i ∈ code, i.a.toNat < cfg.coreSize.toNat ∧ i.b.toNat < cfg.coreSize.toNat)
    (h31 : ∀ i ∈ code, i.a.toNat < 2 ^ 31 ∧ i.b.toNat < 2 ^ 31) (hs31 : start < 2 ^ 31)
    (hstart : start < code.length) (hlen : code.length ≤ cfg.length.toNat)
    (hl : (cfg.mode == .icws88) = true → ∀ i ∈ code, Spec.Legal88 i = true)
    (src : List UInt8) (hsrc : decodeRunes src = Spec.printLoad (cfg.mode == .icws88) code start) :
    assemble cfg src =
      .ok { name := "", author := "", strategy := "", code := code.toArray, start := (start : Int) } := by
  have hlc := validate_length_le hv
  have hmf : Spec.meaningFlat (specCfg cfg)
      ((loadProg (cfg.mode == .icws88) code start).litems.map LItem.toItem) =
      some { code := code, start := start } :=
    meaningFlat_loadProg (specCfg cfg) code start hf h31 hs31 hstart hlen hl
  rw [asm_print_meaning cfg code start hv hM (by omega) (by omega) src hsrc, hmf]
  rfl

/-- the 2^31 bound of `asm_print` is necessary: with a field of 2^31 or more (possible on cores
    larger than 2^31) the canonical load text is REJECTED by the assembler -/
theorem asm_print_big (cfg : Config) (code : List Instr) (start : Nat)
    (hv : cfg.validate = true) (hM : cfg.coreSize.toNat < 2 ^ 63)
    (hs64 : start < 2 ^ 64) (hlen : code.length < 2 ^ 63)
    (hbig : ∃ i ∈ code, 2 ^ 31 ≤ i.a.toNat ∨ 2 ^ 31 ≤ i.b.toNat)
    (src : List UInt8) (hsrc : decodeRunes src = Spec.printLoad (cfg.mode == .icws88) code start) :
    assemble cfg src = .err := by
  rw [asm_print_meaning cfg code start hv hM hs64 hlen src hsrc,
    meaningFlat_loadProg_big (specCfg cfg) _ code start hbig]

/-! ### the text as bytes -/

/-- all characters are ASCII -/
def AsciiL (l : List Char) : Prop := ∀ c ∈ l, c.toNat < 128

theorem AsciiL.append {a b : List Char} (ha : AsciiL a) (hb : AsciiL b) : AsciiL (a ++ b) := by
  intro c hc
  rcases List.mem_append.mp hc with h | h
  · exact ha c h
  · exact hb c h

theorem AsciiL.cons {c : Char} {b : List Char} (hc : c.toNat < 128) (hb : AsciiL b) : AsciiL (c :: b) := by
  intro x hx
  rcases List.mem_cons.mp hx with rfl | h
  · exact hc
  · exact hb x h

theorem asciiL_nil : AsciiL [] := by intro c hc; cases hc

theorem asciiL_digits (n : Nat) : AsciiL (Nat.toDigits 10 n) := by
  intro c hc
  have := (GoStr.isDigit_iff c).1 (GoStr.toDigits_all_isDigit n c hc)
  omega

theorem asciiL_sym (m : Mode) : m.sym.toNat < 128 := by cases m <;> decide

theorem printInstr_ascii (legacy : Bool) (i : Instr) : AsciiL (Spec.printInstr legacy i) := by
  unfold Spec.printInstr
  have hop : AsciiL i.op.name.toList := (ascii_opName i.op).1
  have hmd : AsciiL i.md.name.toList := ascii_mdName i.md
  refine AsciiL.append (AsciiL.append (AsciiL.append (AsciiL.append (AsciiL.append (AsciiL.append
    (AsciiL.append (AsciiL.append (AsciiL.append (AsciiL.append hop ?_) ?_) ?_) ?_) ?_) ?_) ?_) ?_) ?_) ?_
  · cases legacy
    · exact AsciiL.cons (by decide) hmd
    · exact asciiL_nil
  · exact AsciiL.cons (by decide) asciiL_nil
  · exact AsciiL.cons (asciiL_sym _) asciiL_nil
  · exact AsciiL.cons (by decide) asciiL_nil
  · exact asciiL_digits _
  · exact AsciiL.cons (by decide) (AsciiL.cons (by decide) asciiL_nil)
  · exact AsciiL.cons (asciiL_sym _) asciiL_nil
  · exact AsciiL.cons (by decide) asciiL_nil
  · exact asciiL_digits _
  · exact AsciiL.cons (by decide) asciiL_nil

theorem printLoad_ascii (legacy : Bool) (code : List Instr) (start : Nat) :
    AsciiL (Spec.printLoad legacy code start) := by
  unfold Spec.printLoad
  have hc : AsciiL (code.map (Spec.printInstr legacy)).flatten := by
    intro c hc
    simp only [List.mem_flatten, List.mem_map] at hc
    obtain ⟨l, ⟨i, _, rfl⟩, hcl⟩ := hc
    exact printInstr_ascii legacy i c hcl
  have hdir : ∀ kw : String, AsciiL kw.toList →
      AsciiL (kw.toList ++ Nat.toDigits 10 start ++ "\n".toList) := fun kw hk =>
    AsciiL.append (AsciiL.append hk (asciiL_digits _)) (AsciiL.cons (by decide) asciiL_nil)
  refine AsciiL.append (AsciiL.append ?_ hc) ?_
  · cases legacy
    · exact hdir "ORG " (by unfold AsciiL; decide)
    · exact asciiL_nil
  · cases legacy
    · exact asciiL_nil
    · exact hdir "END " (by unfold AsciiL; decide)

/-- `asm_print` on the bytes of the (ASCII) load text -/
theorem asm_print_ascii (cfg : Config) (code : List Instr) (start : Nat)
    (hv : cfg.validate = true) (hM : cfg.coreSize.toNat < 2 ^ 63)
    (hf : ∀ i ∈ code, i.a.toNat < cfg.coreSize.toNat ∧ i.b.toNat < cfg.coreSize.toNat)
    (h31 : ∀ i ∈ code, i.a.toNat < 2 ^ 31 ∧ i.b.toNat < 2 ^ 31) (hs31 : start < 2 ^ 31)
    (hstart : start < code.length) (hlen : code.length ≤ cfg.length.toNat)
    (hl : (cfg.mode == .icws88) = true → ∀ i ∈ code, Spec.Legal88 i = true) :
    assemble cfg (asciiBytes (Spec.printLoad (cfg.mode == .icws88) code start)) =
      .ok { name := "", author := "", strategy := "", code := code.toArray, start := (start : Int) } :=
  asm_print cfg code start hv hM hf h31 hs31 hstart hlen hl _
    (decodeRunes_ascii _ (printLoad_ascii _ code start))

end AsmPrint
end Gmars
