/-
  C03 "Redcode source assembles to the instructions it denotes", compiler stage:
  whole programs without labels and EQUs (`compile_meaning`).

  The abstract program is a list of `CItem`s (instructions whose operands are concrete syntax
  trees `CST` over numbers, `ORG e`, `END [e]`).  It is read in two ways: as the reference's
  `Spec.Item`s (`CItem.toItem`, operands rendered as reference tokens) and as the parser's
  `SourceLine`s (`render`, operands rendered as gmars tokens).  The model of `compile()` on the
  lines answers exactly `Spec.meaningFlat` of the items.
-/
import Gmars.Proofs.AsmLine
import Gmars.Proofs.ExprProofs

namespace Gmars.AsmLine
open Gmars.Compile Gmars.ExprProofs

/-! ## `Spec.meaningFlat` as a chain of guards -/

/-- the label table and the instruction count `Spec.meaningFlat` starts with -/
def labelFold (items : List Spec.Item) : List (String × Nat) × Nat :=
  items.foldl (fun (acc : List (String × Nat) × Nat) it =>
    match it with
    | .instr ls _ _ _ _ => (acc.1 ++ ls.map (fun l => (l, acc.2)), acc.2 + 1)
    | _ => acc) ([], 0)

/-- the instruction loop of `Spec.meaningFlat` -/
def codeFold (c : Spec.Cfg) (t : Spec.Tables) (items : List Spec.Item)
    (init : Option (List Instr) × Nat) : Option (List Instr) × Nat :=
  items.foldl (fun (acc : Option (List Instr) × Nat) it =>
    match it, acc.1 with
    | .instr _ op md a b, some code =>
      ((Spec.instrMeaning c t acc.2 op md a b).map (fun i => code ++ [i]), acc.2 + 1)
    | .instr .., none => (none, acc.2 + 1)
    | _, _ => acc) init

/-- the entry-point expression -/
def startFold (items : List Spec.Item) : List Spec.ETok :=
  items.foldl (fun acc it =>
    match it with
    | .org e => e
    | .end_ (some e) => e
    | _ => acc) [.num 0]

def assertsOk (c : Spec.Cfg) (t : Spec.Tables) (items : List Spec.Item) : Bool :=
  items.all (fun it =>
    match it with
    | .assert e => match Spec.evalAt c t 0 e with
      | some v => v != 0
      | none => false
    | _ => true)

def metaOf (items : List Spec.Item) (k : Spec.MetaKind) : List String :=
  items.filterMap (fun | .info k' s => if k == k' then some s else none | _ => none)



/-- the tables `Spec.meaningFlat` works with -/
def tablesOf (c : Spec.Cfg) (items : List Spec.Item) (labels : List (String × Nat)) : Spec.Tables :=
  { labels := labels, equs := Spec.equsOf items ++ Spec.predefined c }

/-- `Spec.meaningFlat` after its label pass -/
def flatTail (c : Spec.Cfg) (items : List Spec.Item) (labels : List (String × Nat)) (n : Nat) :
    Option Spec.Meaning :=
  if (labels.map (·.1) ++ (Spec.equsOf items).map (·.1) ++ (Spec.predefined c).map (·.1)).eraseDups.length
      != (labels.map (·.1) ++ (Spec.equsOf items).map (·.1) ++ (Spec.predefined c).map (·.1)).length then none
  else if !((tablesOf c items labels).equs.all
      (fun (_, e) => (Spec.expandEqus 64 (tablesOf c items labels).equs e).isSome)) then none
  else
    (codeFold c (tablesOf c items labels) items (some [], 0)).1.bind fun code =>
      if code.length > c.maxLen then none
      else if !(assertsOk c (tablesOf c items labels) items) then none
      else
        (Spec.evalAt c (tablesOf c items labels) 0 (startFold items)).bind fun sv =>
          if sv < 0 || (sv ≥ n && sv != 0) then none
          else some { code := code, start := sv.toNat,
                      name := (((metaOf items .name).getLast?).map Spec.trimAscii).getD "",
                      author := (((metaOf items .author).getLast?).map Spec.trimAscii).getD "",
                      strategy := String.join ((metaOf items .strategy).map (fun s => s ++ "\n")) }

theorem meaningFlat_eq (c : Spec.Cfg) (items : List Spec.Item) :
    Spec.meaningFlat c items = flatTail c items (labelFold items).1 (labelFold items).2 := by
  unfold Spec.meaningFlat
  split
  rename_i labels n heq
  have hl : labelFold items = (labels, n) := heq
  rw [hl]
  unfold flatTail tablesOf
  simp (config := {zeta := false}) only [Option.bind_eq_bind, Option.bind_none]
  simp only []
  rfl

/-! ## operand expressions: trees over numbers -/

theorem tokens_not_text (e : CST) : ∀ t ∈ e.tokens, t.typ ≠ .text := by
  induction e with
  | num n => intro t ht; simp only [CST.tokens, List.mem_singleton] at ht; subst ht; simp [ExprProofs.numTok]
  | signs ss e ih =>
    intro t ht
    simp only [CST.tokens, List.mem_append, List.mem_map] at ht
    rcases ht with ⟨s, _, rfl⟩ | ht
    · simp [signTok]
    · exact ih t ht
  | paren e ih =>
    intro t ht
    simp only [CST.tokens, List.mem_cons, List.mem_append, List.not_mem_nil, or_false] at ht
    rcases ht with rfl | ht | rfl
    · simp [lpTok]
    · exact ih t ht
    · simp [rpTok]
  | bin op l r ihl ihr =>
    intro t ht
    simp only [CST.tokens, List.mem_append, List.mem_cons] at ht
    rcases ht with ht | rfl | ht
    · exact ihl t ht
    · simp [opTok]
    · exact ihr t ht

def isName : Spec.ETok → Bool
  | .name _ => true
  | _ => false

theorem etoks_no_name (e : CST) : ∀ t ∈ e.etoks, isName t = false := by
  induction e with
  | num n => intro t ht; simp only [CST.etoks, List.mem_singleton] at ht; subst ht; rfl
  | signs ss e ih =>
    intro t ht
    simp only [CST.etoks, List.mem_append, List.mem_map] at ht
    rcases ht with ⟨s, _, rfl⟩ | ht
    · rfl
    · exact ih t ht
  | paren e ih =>
    intro t ht
    simp only [CST.etoks, List.mem_cons, List.mem_append, List.not_mem_nil, or_false] at ht
    rcases ht with rfl | ht | rfl
    · rfl
    · exact ih t ht
    · rfl
  | bin op l r ihl ihr =>
    intro t ht
    simp only [CST.etoks, List.mem_append, List.mem_cons] at ht
    rcases ht with ht | rfl | ht
    · exact ihl t ht
    · rfl
    · exact ihr t ht

theorem ntoks_pos (e : CST) : 0 < e.ntoks := by
  induction e with
  | num n => simp [CST.ntoks]
  | signs ss e ih => simp only [CST.ntoks]; omega
  | paren e ih => simp only [CST.ntoks]; omega
  | bin op l r ihl ihr => simp only [CST.ntoks]; omega

theorem tokens_ne_nil (e : CST) : e.tokens ≠ [] := by
  intro h
  have := CST.tokens_length e
  rw [h] at this
  have := ntoks_pos e
  simp at *
  omega

/-- name-free token lists pass `Spec.expandEqus` unchanged (whatever the table) -/
theorem expandEqus_noname (tab : List (String × List Spec.ETok)) (ts : List Spec.ETok)
    (hn : ∀ t ∈ ts, isName t = false) (hlen : ts.length ≤ 20000) :
    Spec.expandEqus 64 tab ts = some ts := by
  unfold Spec.expandEqus
  rw [if_neg (by omega)]
  split
  · rfl
  · rename_i h
    refine absurd (List.all_eq_true.2 ?_) h
    intro t ht
    have := hn t ht
    cases t <;> first | rfl | (simp [isName] at this)

theorem foldlM_append_some {α : Type} (F : List α → α → Option (List α)) (ts : List α)
    (h : ∀ acc, ∀ tk ∈ ts, F acc tk = some (acc ++ [tk])) :
    ∀ acc, ts.foldlM F acc = some (acc ++ ts) := by
  induction ts with
  | nil => intro acc; simp
  | cons x r ih =>
    intro acc
    rw [List.foldlM_cons, h acc x (List.mem_cons_self ..)]
    simp only [Option.bind_eq_bind, Option.bind_some]
    rw [ih (fun acc tk htk => h acc tk (List.mem_cons_of_mem _ htk))]
    simp

/-- … and `Spec.substLabels` -/
theorem substLabels_noname (c : Spec.Cfg) (t : Spec.Tables) (line : Nat) (ts : List Spec.ETok)
    (hn : ∀ t ∈ ts, isName t = false) :
    Spec.substLabels c t line ts = some ts := by
  unfold Spec.substLabels
  refine (foldlM_append_some _ ts ?_ []).trans (by simp)
  intro acc tk htk
  have := hn tk htk
  cases tk <;> first | rfl | (simp [isName] at this)

/-- the reference evaluates a tree over numbers with its expression evaluator alone -/
theorem evalAt_cst (c : Spec.Cfg) (t : Spec.Tables) (line : Nat) (e : CST) (hlen : e.ntoks ≤ 20000) :
    Spec.evalAt c t line e.etoks = Spec.Expr.evalInt e.etoks := by
  unfold Spec.evalAt
  rw [expandEqus_noname _ _ (etoks_no_name e) (by rw [CST.etoks_length]; exact hlen)]
  simp only [Option.bind_eq_bind, Option.bind_some]
  rw [substLabels_noname _ _ _ _ (etoks_no_name e)]
  rfl

/-- text-free token lists pass `expandExpression` unchanged (whatever the tables) -/
theorem expandExpression_notext (c : Compiler) (ts : List Token) (line : Int)
    (hn : ∀ t ∈ ts, t.typ ≠ .text) : expandExpression c ts line = .ok ts := by
  unfold expandExpression
  cases ts with
  | nil => rfl
  | cons x r =>
    simp only [List.isEmpty_cons, Bool.false_eq_true, if_false]
    have h1 : expandOnce c line (x :: r) = .ok (x :: r) :=
      expandOnce_id (d := fun _ => 0) (fun t ht => by
        unfold tokDepth
        rw [if_neg (hn t ht)]
        exact Nat.le_refl 0)
    show expandLoop c line (c.values.length + c.labels.length + 1 + 1) (x :: r) = _
    unfold expandLoop
    rw [h1]
    simp [bind, Except.bind, pure, Except.pure]

/-- an operand well inside the modelled range -/
structure GoodExpr (e : CST) : Prop where
  wf : WFprec e
  nobig : NoBigLit e
  len : e.ntoks ≤ 20000

/-- the model's operand evaluation of a tree over numbers is the reference's -/
theorem operandM_cst (c : Compiler) (sc : Spec.Cfg) (t : Spec.Tables) (k : Nat) (line : Int)
    (e : CST) (he : GoodExpr e) :
    operandM c e.tokens line = optM (Spec.evalAt sc t k e.etoks) := by
  unfold operandM
  rw [expandExpression_notext c _ _ (tokens_not_text e), evalAt_cst sc t k e he.len]
  show evalM e.tokens = _
  unfold evalM
  rw [model_agrees_with_reference e he.wf he.nobig]
  cases Spec.Expr.evalInt e.etoks <;> rfl


/-! ## abstract programs without labels and EQUs -/

structure COperand where
  mode : Option Mode
  expr : CST

/-- instructions (opcode text, optional modifier text, operands), `ORG e`, `END [e]`; `kw` is the
    keyword as written (`org`, `ORG`, …) -/
inductive CItem
  | instr (op : String) (md : Option String) (a : COperand) (b : Option COperand)
  | org (kw : String) (e : CST)
  | end_ (kw : String) (e : Option CST)

def COperand.toP (o : COperand) : Spec.POperand := { mode := o.mode, expr := o.expr.etoks }

/-- the program as the reference reads it -/
def CItem.toItem : CItem → Spec.Item
  | .instr op md a b => .instr [] op md a.toP (b.map COperand.toP)
  | .org _ e => .org e.etoks
  | .end_ _ e => .end_ (e.map CST.etoks)

def CItem.isInstr : CItem → Bool
  | .instr .. => true
  | _ => false

/-- the program as the parser hands it to the compiler: line `k` of the code -/
def CItem.toLine (k : Nat) : CItem → SourceLine
  | .instr op md a b =>
    { typ := .instruction, codeLine := (k : Int), op := opString op md,
      amode := modeString a.mode, a := some a.expr.tokens,
      bmode := modeString (b.bind (·.mode)), b := b.map (·.expr.tokens) }
  | .org kw e => { typ := .pseudoOp, op := kw, a := some e.tokens }
  | .end_ kw e => { typ := .pseudoOp, op := kw, a := e.map CST.tokens }

def render (k : Nat) : List CItem → List SourceLine
  | [] => []
  | it :: r => it.toLine k :: render (if it.isInstr then k + 1 else k) r

/-- side conditions: ASCII opcode / modifier text, no dot in the opcode text, operands inside the
    modelled range, the keywords are the keywords -/
def CItem.WF : CItem → Prop
  | .instr op md a b =>
    Ascii op ∧ '.' ∉ op.toList ∧ (∀ s, md = some s → Ascii s) ∧ GoodExpr a.expr ∧
      (∀ bo, b = some bo → GoodExpr bo.expr)
  | .org kw e => lowerStr kw = "org" ∧ GoodExpr e
  | .end_ kw e => lowerStr kw = "end" ∧ (∀ x, e = some x → GoodExpr x)

/-! ## `loadSymbols` -/

/-- the effect of one item on the start expression -/
def startStep (acc : List Token) : CItem → List Token
  | .org _ e => e.tokens
  | .end_ _ (some e) => e.tokens
  | _ => acc

theorem loadSymbolsLine_toLine (c : Compiler) (cur : Int) (k : Nat) (it : CItem) (hw : it.WF) :
    (loadSymbolsLine (c, cur) (it.toLine k)).1 = { c with startExpr := startStep c.startExpr it } := by
  cases it with
  | instr op md a b => rfl
  | org kw e =>
    unfold loadSymbolsLine
    simp only [CItem.toLine, hw.1]
    rfl
  | end_ kw e =>
    unfold loadSymbolsLine
    simp only [CItem.toLine, hw.1]
    cases e with
    | none => rfl
    | some x =>
      have : (x.tokens).length > 0 := by rw [CST.tokens_length]; exact ntoks_pos x
      simp [startStep, this]

theorem foldl_loadSymbolsLine_render (prog : List CItem) (hw : ∀ it ∈ prog, it.WF) :
    ∀ (k : Nat) (st : Compiler × Int),
      ((render k prog).foldl loadSymbolsLine st).1 =
        { st.1 with startExpr := prog.foldl startStep st.1.startExpr } := by
  induction prog with
  | nil => intro k st; rfl
  | cons it r ih =>
    intro k st
    simp only [render, List.foldl_cons]
    rw [ih (fun x hx => hw x (List.mem_cons_of_mem _ hx))]
    obtain ⟨c, cur⟩ := st
    rw [loadSymbolsLine_toLine c cur k it (hw it (List.mem_cons_self ..))]

def consts (cfg : Config) : SymTab :=
  (loadConstants { cfg := cfg, values := [], labels := [] }).values

theorem consts_eq (cfg : Config) : consts cfg =
    [("CORESIZE", [Compile.numTok cfg.coreSize.toNat]), ("MAXLENGTH", [Compile.numTok cfg.length.toNat]),
     ("MAXPROCESSES", [Compile.numTok cfg.processes.toNat]),
     ("MINDISTANCE", [Compile.numTok cfg.distance.toNat])] := rfl

theorem consts_acyclic (cfg : Config) :
    graphContainsCycle (buildReferenceGraph (consts cfg)) = false := by
  rw [consts_eq]; rfl

theorem consts_expand (cfg : Config) :
    expandExpressions (consts cfg) (buildReferenceGraph (consts cfg)) = some (consts cfg) := by
  rw [consts_eq]; rfl

/-- the start expression `loadSymbols` leaves behind -/
def startToks (prog : List CItem) : List Token :=
  prog.foldl startStep [{ typ := .number, val := "0" }]

theorem symC_render (cfg : Config) (prog : List CItem) (hw : ∀ it ∈ prog, it.WF) :
    symC cfg (render 0 prog) =
      { cfg := cfg, values := consts cfg, labels := [], startExpr := startToks prog } := by
  unfold symC loadSymbols
  simp only
  rw [foldl_loadSymbolsLine_render prog hw]
  rfl

/-! ## assertions: there are none -/

theorem render_not_comment (prog : List CItem) : ∀ k, ∀ ln ∈ render k prog, ln.typ ≠ .comment := by
  induction prog with
  | nil => intro k ln h; simp [render] at h
  | cons it r ih =>
    intro k ln h
    simp only [render, List.mem_cons] at h
    rcases h with rfl | h
    · cases it <;> simp [CItem.toLine]
    · exact ih _ ln h

theorem evaluateAssertions_none (lexTokens : String → List Token) (c : Compiler)
    (lines : List SourceLine) (h : ∀ ln ∈ lines, ln.typ ≠ .comment) :
    evaluateAssertions lexTokens c lines = .ok () := by
  induction lines with
  | nil => rfl
  | cons ln r ih =>
    rw [evaluateAssertions_cons]
    have : (ln.typ == LineType.comment) = false := by simpa using h ln (List.mem_cons_self ..)
    simp only [this, Bool.false_and, Bool.false_eq_true, if_false]
    exact ih (fun x hx => h x (List.mem_cons_of_mem _ hx))

/-! ## the instruction loop -/

theorem codeFold_instr_some (c : Spec.Cfg) (t : Spec.Tables) (ls : List String) (op : String)
    (md : Option String) (a : Spec.POperand) (b : Option Spec.POperand) (r : List Spec.Item)
    (code : List Instr) (k : Nat) :
    codeFold c t (.instr ls op md a b :: r) (some code, k) =
      codeFold c t r ((Spec.instrMeaning c t k op md a b).map (fun i => code ++ [i]), k + 1) := rfl

theorem codeFold_instr_none (c : Spec.Cfg) (t : Spec.Tables) (ls : List String) (op : String)
    (md : Option String) (a : Spec.POperand) (b : Option Spec.POperand) (r : List Spec.Item)
    (k : Nat) :
    codeFold c t (.instr ls op md a b :: r) (none, k) = codeFold c t r (none, k + 1) := rfl

theorem codeFold_org (c : Spec.Cfg) (t : Spec.Tables) (e : List Spec.ETok) (r : List Spec.Item)
    (init : Option (List Instr) × Nat) :
    codeFold c t (.org e :: r) init = codeFold c t r init := by
  obtain ⟨x, k⟩ := init
  cases x <;> rfl

theorem codeFold_end (c : Spec.Cfg) (t : Spec.Tables) (e : Option (List Spec.ETok)) (r : List Spec.Item)
    (init : Option (List Instr) × Nat) :
    codeFold c t (.end_ e :: r) init = codeFold c t r init := by
  obtain ⟨x, k⟩ := init
  cases x <;> rfl

/-- once an instruction has no meaning the program has none -/
theorem codeFold_none (c : Spec.Cfg) (t : Spec.Tables) (prog : List CItem) :
    ∀ k, (codeFold c t (prog.map CItem.toItem) (none, k)).1 = none := by
  induction prog with
  | nil => intro k; rfl
  | cons it r ih =>
    intro k
    cases it with
    | instr op md a b => simp only [List.map_cons, CItem.toItem, codeFold_instr_none]; exact ih _
    | org kw e => simp only [List.map_cons, CItem.toItem, codeFold_org]; exact ih _
    | end_ kw e => simp only [List.map_cons, CItem.toItem, codeFold_end]; exact ih _

/-- the compiler state and the reference configuration describe the same dialect and core -/
structure CRel (c : Compiler) (sc : Spec.Cfg) : Prop where
  legacy : c.legacy = sc.legacy
  m : mInt c.m = (sc.M : Int)
  pos : 0 < sc.M
  lt : sc.M < 2 ^ 63

/-- one instruction line against `Spec.instrMeaning` -/
theorem assembleLine_toLine (c : Compiler) (sc : Spec.Cfg) (hr : CRel c sc) (t : Spec.Tables) (k : Nat)
    (op : String) (md : Option String) (a : COperand) (b : Option COperand)
    (hw : (CItem.instr op md a b).WF) :
    assembleLine c ((CItem.instr op md a b).toLine k) =
      optM (Spec.instrMeaning sc t k op md a.toP (b.map COperand.toP)) := by
  obtain ⟨hop, hdot, hmd, ha, hb⟩ := hw
  refine assembleLine_meaning c _ sc t k op md a.toP (b.map COperand.toP) hr.legacy hr.m hr.pos hr.lt
    hop hdot hmd rfl rfl ?_ ?_ ?_ ?_
  · cases b <;> rfl
  · cases b with
    | none => rfl
    | some bo =>
      show (bo.expr.tokens).isEmpty = false
      have := tokens_ne_nil bo.expr
      cases h : bo.expr.tokens with
      | nil => exact absurd h this
      | cons x r => rfl
  · exact operandM_cst c sc t k _ a.expr ha
  · intro bo' hbo
    cases b with
    | none => cases hbo
    | some bo =>
      cases hbo
      exact operandM_cst c sc t k _ bo.expr (hb bo rfl)

/-- the instruction loop of `compile()` against the instruction loop of `Spec.meaningFlat` -/
theorem assembleLines_render (c : Compiler) (sc : Spec.Cfg) (hr : CRel c sc) (t : Spec.Tables)
    (prog : List CItem) (hw : ∀ it ∈ prog, it.WF) :
    ∀ (k : Nat) (code : Array Instr),
      assembleLines c (render k prog) code =
        optM ((codeFold sc t (prog.map CItem.toItem) (some code.toList, k)).1.map List.toArray) := by
  induction prog with
  | nil => intro k code; simp [render, assembleLines, codeFold, optM]
  | cons it r ih =>
    intro k code
    have hwr : ∀ x ∈ r, x.WF := fun x hx => hw x (List.mem_cons_of_mem _ hx)
    cases it with
    | instr op md a b =>
      have h1 := assembleLine_toLine c sc hr t k op md a b (hw _ (List.mem_cons_self ..))
      simp only [render, CItem.isInstr, if_true, List.map_cons, CItem.toItem, codeFold_instr_some]
      unfold assembleLines
      have hty : ((CItem.instr op md a b).toLine k).typ = .instruction := rfl
      rw [hty]
      simp only [bne_self_eq_false, Bool.false_eq_true, if_false]
      rw [h1]
      cases Spec.instrMeaning sc t k op md a.toP (b.map COperand.toP) with
      | none =>
        simp only [Option.map_none, codeFold_none]
        rfl
      | some i =>
        simp only [Option.map_some]
        show assembleLines c (render (k + 1) r) (code.push i) = _
        rw [ih hwr (k + 1) (code.push i), Array.toList_push]
    | org kw e =>
      simp only [render, CItem.isInstr, Bool.false_eq_true, if_false, List.map_cons, CItem.toItem,
        codeFold_org]
      unfold assembleLines
      have hty : ((CItem.org kw e).toLine k).typ = .pseudoOp := rfl
      rw [hty]
      simp only [show (LineType.pseudoOp != LineType.instruction) = true from rfl, if_true]
      exact ih hwr k code
    | end_ kw e =>
      simp only [render, CItem.isInstr, Bool.false_eq_true, if_false, List.map_cons, CItem.toItem,
        codeFold_end]
      unfold assembleLines
      have hty : ((CItem.end_ kw e).toLine k).typ = .pseudoOp := rfl
      rw [hty]
      simp only [show (LineType.pseudoOp != LineType.instruction) = true from rfl, if_true]
      exact ih hwr k code

/-! ## the reference's passes over a label- and EQU-free program -/

/-- number of instructions -/
def instrCount (prog : List CItem) : Nat := (prog.filter CItem.isInstr).length

theorem labelFold_items_aux (prog : List CItem) :
    ∀ (ls : List (String × Nat)) (k : Nat),
      (prog.map CItem.toItem).foldl (fun (acc : List (String × Nat) × Nat) it =>
        match it with
        | .instr ls _ _ _ _ => (acc.1 ++ ls.map (fun l => (l, acc.2)), acc.2 + 1)
        | _ => acc) (ls, k) = (ls, k + instrCount prog) := by
  induction prog with
  | nil => intro ls k; rfl
  | cons it r ih =>
    intro ls k
    cases it with
    | instr op md a b =>
      simp only [List.map_cons, List.foldl_cons, CItem.toItem, List.map_nil, List.append_nil]
      rw [ih]
      simp only [instrCount, List.filter_cons, CItem.isInstr, if_true, List.length_cons]
      congr 1; omega
    | org kw e =>
      simp only [List.map_cons, List.foldl_cons, CItem.toItem]
      rw [ih]; rfl
    | end_ kw e =>
      simp only [List.map_cons, List.foldl_cons, CItem.toItem]
      rw [ih]; rfl

theorem labelFold_items (prog : List CItem) :
    labelFold (prog.map CItem.toItem) = ([], instrCount prog) := by
  unfold labelFold
  rw [labelFold_items_aux]
  simp

theorem equsOf_items (prog : List CItem) : Spec.equsOf (prog.map CItem.toItem) = [] := by
  unfold Spec.equsOf
  rw [List.filterMap_eq_nil_iff]
  intro x hx
  obtain ⟨it, _, rfl⟩ := List.mem_map.1 hx
  cases it <;> rfl

theorem assertsOk_items (c : Spec.Cfg) (t : Spec.Tables) (prog : List CItem) :
    assertsOk c t (prog.map CItem.toItem) = true := by
  unfold assertsOk
  rw [List.all_eq_true]
  intro x hx
  obtain ⟨it, _, rfl⟩ := List.mem_map.1 hx
  cases it <;> rfl

theorem metaOf_items (prog : List CItem) (k : Spec.MetaKind) : metaOf (prog.map CItem.toItem) k = [] := by
  unfold metaOf
  rw [List.filterMap_eq_nil_iff]
  intro x hx
  obtain ⟨it, _, rfl⟩ := List.mem_map.1 hx
  cases it <;> rfl

/-- the entry-point expression as a tree -/
def startStepC (acc : CST) : CItem → CST
  | .org _ e => e
  | .end_ _ (some e) => e
  | _ => acc

def startCST (prog : List CItem) : CST := prog.foldl startStepC (.num 0)

theorem startToks_aux (prog : List CItem) :
    ∀ acc : CST, prog.foldl startStep acc.tokens = (prog.foldl startStepC acc).tokens := by
  induction prog with
  | nil => intro acc; rfl
  | cons it r ih =>
    intro acc
    simp only [List.foldl_cons]
    cases it with
    | instr op md a b => exact ih acc
    | org kw e => exact ih e
    | end_ kw e =>
      cases e with
      | none => exact ih acc
      | some x => exact ih x

theorem startToks_eq (prog : List CItem) : startToks prog = (startCST prog).tokens := by
  unfold startToks startCST
  rw [← startToks_aux]
  rfl

theorem startFold_aux (prog : List CItem) :
    ∀ acc : CST, (prog.map CItem.toItem).foldl (fun acc it =>
        match it with
        | .org e => e
        | .end_ (some e) => e
        | _ => acc) acc.etoks = (prog.foldl startStepC acc).etoks := by
  induction prog with
  | nil => intro acc; rfl
  | cons it r ih =>
    intro acc
    simp only [List.map_cons, List.foldl_cons]
    cases it with
    | instr op md a b => exact ih acc
    | org kw e => exact ih e
    | end_ kw e =>
      cases e with
      | none => exact ih acc
      | some x => exact ih x

theorem startFold_items (prog : List CItem) :
    startFold (prog.map CItem.toItem) = (startCST prog).etoks := by
  unfold startFold startCST
  rw [← startFold_aux]
  rfl

theorem goodExpr_zero : GoodExpr (.num 0) :=
  ⟨trivial, (Int.pow_pos (by decide) : (0 : Int) < (2 : Int) ^ 500), by simp [CST.ntoks]⟩

theorem startCST_good (prog : List CItem) (hw : ∀ it ∈ prog, it.WF) : GoodExpr (startCST prog) := by
  unfold startCST
  suffices h : ∀ acc, GoodExpr acc → GoodExpr (prog.foldl startStepC acc) from h _ goodExpr_zero
  induction prog with
  | nil => intro acc h; exact h
  | cons it r ih =>
    intro acc hacc
    have hwr : ∀ x ∈ r, x.WF := fun x hx => hw x (List.mem_cons_of_mem _ hx)
    have hit := hw it (List.mem_cons_self ..)
    simp only [List.foldl_cons]
    cases it with
    | instr op md a b => exact ih hwr acc hacc
    | org kw e => exact ih hwr e hit.2
    | end_ kw e =>
      cases e with
      | none => exact ih hwr acc hacc
      | some x => exact ih hwr x (hit.2 x rfl)

/-- the instruction loop keeps count -/
theorem codeFold_length (c : Spec.Cfg) (t : Spec.Tables) (prog : List CItem) :
    ∀ (code : List Instr) (k : Nat) (out : List Instr),
      (codeFold c t (prog.map CItem.toItem) (some code, k)).1 = some out →
      out.length = code.length + instrCount prog := by
  induction prog with
  | nil => intro code k out h; cases h; simp [instrCount]
  | cons it r ih =>
    intro code k out h
    cases it with
    | instr op md a b =>
      simp only [List.map_cons, CItem.toItem, codeFold_instr_some] at h
      cases hi : Spec.instrMeaning c t k op md a.toP (b.map COperand.toP) with
      | none => rw [hi, Option.map_none, codeFold_none] at h; cases h
      | some i =>
        rw [hi, Option.map_some] at h
        have := ih _ _ _ h
        simp only [instrCount, List.filter_cons, CItem.isInstr, if_true, List.length_cons,
          List.length_append, List.length_nil] at this ⊢
        omega
    | org kw e =>
      simp only [List.map_cons, CItem.toItem, codeFold_org] at h
      exact ih _ _ _ h
    | end_ kw e =>
      simp only [List.map_cons, CItem.toItem, codeFold_end] at h
      exact ih _ _ _ h

/-! ## `compile_meaning` -/

/-- the Go configuration and the reference configuration describe the same hill -/
structure CfgRel (cfg : Config) (sc : Spec.Cfg) : Prop where
  legacy : sc.legacy = (cfg.mode == .icws88)
  M : sc.M = cfg.coreSize.toNat
  maxLen : sc.maxLen = cfg.length.toNat
  maxProcs : sc.maxProcs = cfg.processes.toNat
  minDist : sc.minDist = cfg.distance.toNat

/-- the warrior `compile()` returns for a meaning: the parser's metadata, the code, the entry point -/
def toWD (ameta : AsmMeta) (mn : Spec.Meaning) : WarriorData :=
  { name := ameta.name, author := ameta.author, strategy := ameta.strategy,
    code := mn.code.toArray, start := (mn.start : Int) }

theorem predefined_names (sc : Spec.Cfg) :
    (Spec.predefined sc).map (·.1) = ["CORESIZE", "MAXLENGTH", "MAXPROCESSES", "MINDISTANCE"] := rfl

/-- `Spec.meaningFlat` of a label- and EQU-free program: the instruction loop, the length limit,
    the entry point -/
theorem meaningFlat_items (sc : Spec.Cfg) (prog : List CItem) (hw : ∀ it ∈ prog, it.WF) :
    Spec.meaningFlat sc (prog.map CItem.toItem) =
      (codeFold sc (tablesOf sc (prog.map CItem.toItem) []) (prog.map CItem.toItem) (some [], 0)).1.bind
        fun code =>
          if code.length > sc.maxLen then none
          else
            (Spec.Expr.evalInt (startCST prog).etoks).bind fun sv =>
              if sv < 0 || (sv ≥ instrCount prog && sv != 0) then none
              else some { code := code, start := sv.toNat, name := "", author := "", strategy := "" } := by
  rw [meaningFlat_eq, labelFold_items]
  unfold flatTail
  simp only
  have hd : ((([] : List (String × Nat)).map (·.1) ++ (Spec.equsOf (prog.map CItem.toItem)).map (·.1) ++
      (Spec.predefined sc).map (·.1)).eraseDups.length !=
      (([] : List (String × Nat)).map (·.1) ++ (Spec.equsOf (prog.map CItem.toItem)).map (·.1) ++
      (Spec.predefined sc).map (·.1)).length) = false := by
    rw [equsOf_items, predefined_names]
    decide
  rw [hd]
  have he : ((tablesOf sc (prog.map CItem.toItem) []).equs.all
      (fun (_, e) => (Spec.expandEqus 64 (tablesOf sc (prog.map CItem.toItem) []).equs e).isSome)) = true := by
    unfold tablesOf
    simp only [equsOf_items, List.nil_append]
    rw [List.all_eq_true]
    intro x hx
    simp only [Spec.predefined, List.mem_cons, List.not_mem_nil, or_false] at hx
    rcases hx with rfl | rfl | rfl | rfl <;>
      (simp only; rw [expandEqus_noname _ _ (by intro t ht; simp at ht; subst ht; rfl) (by simp)]; rfl)
  rw [he, assertsOk_items, startFold_items, evalAt_cst _ _ _ _ (startCST_good prog hw).len]
  simp only [metaOf_items, Bool.false_eq_true, if_false, Bool.not_true, List.getLast?_nil, Option.map_none,
    Option.getD_none, List.map_nil]
  rfl

theorem validate_ge3 {cfg : Config} (hv : cfg.validate = true) : 3 ≤ cfg.coreSize.toNat := by
  unfold Config.validate at hv
  by_cases h : cfg.coreSize < 3
  · rw [if_pos h] at hv; cases hv
  · rw [UInt64.lt_iff_toNat_lt] at h
    have : (3 : UInt64).toNat = 3 := rfl
    omega

/-- the compiler state `compile()` assembles with -/
def asmC (cfg : Config) (prog : List CItem) : Compiler :=
  { cfg := cfg, values := consts cfg, labels := [], startExpr := startToks prog }

theorem asmC_rel {cfg : Config} {sc : Spec.Cfg} (prog : List CItem) (hv : cfg.validate = true)
    (h63 : cfg.coreSize.toNat < 2 ^ 63) (hr : CfgRel cfg sc) : CRel (asmC cfg prog) sc where
  legacy := by rw [hr.legacy]; rfl
  m := by
    show mInt cfg.coreSize = _
    rw [mInt_of_lt h63, hr.M]
  pos := by rw [hr.M]; have := validate_ge3 hv; omega
  lt := by rw [hr.M]; exact h63

theorem compileX_meaning (lexTokens : String → List Token) (cfg : Config) (sc : Spec.Cfg)
    (prog : List CItem) (ameta : AsmMeta)
    (hv : cfg.validate = true) (h63 : cfg.coreSize.toNat < 2 ^ 63) (hr : CfgRel cfg sc)
    (hw : ∀ it ∈ prog, it.WF) :
    compileX lexTokens cfg (render 0 prog) ameta =
      optM ((Spec.meaningFlat sc (prog.map CItem.toItem)).map (toWD ameta)) := by
  rw [compileX_eq, hv]
  simp only [Bool.not_true, Bool.false_eq_true, if_false]
  have hres : ∀ R, resC cfg (render 0 prog) R = { symC cfg (render 0 prog) with values := R } :=
    fun _ => rfl
  simp only [hres, symC_render cfg prog hw, consts_acyclic, Bool.false_eq_true, if_false,
    evaluateAssertions_none lexTokens _ _ (render_not_comment prog 0), consts_expand]
  show (assembleLines (asmC cfg prog) (render 0 prog) #[] >>= fun code =>
    finishX cfg ameta (asmC cfg prog) code) = _
  have hrel := asmC_rel prog hv h63 hr
  rw [assembleLines_render (asmC cfg prog) sc hrel (tablesOf sc (prog.map CItem.toItem) []) prog hw,
    meaningFlat_items sc prog hw]
  simp only
  cases hcode : (codeFold sc (tablesOf sc (prog.map CItem.toItem) []) (prog.map CItem.toItem)
      (some [], 0)).1 with
  | none => rfl
  | some code =>
    have hlen := codeFold_length sc _ prog [] 0 code hcode
    simp only [List.length_nil, Nat.zero_add] at hlen
    simp only [Option.map_some, Option.bind_some]
    show finishX cfg ameta (asmC cfg prog) code.toArray = _
    unfold finishX
    simp only [List.size_toArray, hr.maxLen]
    split
    · rfl
    · have hst : expandExpression (asmC cfg prog) (asmC cfg prog).startExpr 0 >>= evalM =
          optM (Spec.Expr.evalInt (startCST prog).etoks) := by
        have := operandM_cst (asmC cfg prog) sc (tablesOf sc (prog.map CItem.toItem) []) 0 0
          (startCST prog) (startCST_good prog hw)
        rw [evalAt_cst _ _ _ _ (startCST_good prog hw).len] at this
        rw [← this]
        show operandM _ (startToks prog) 0 = _
        rw [startToks_eq]
      rw [← bind_assoc, hst]
      cases Spec.Expr.evalInt (startCST prog).etoks with
      | none => rfl
      | some sv =>
        simp only [optM, bind, Except.bind, Option.bind_some, hlen]
        split
        · rfl
        · rename_i hneg
          have h0 : 0 ≤ sv := by
            simp only [Bool.or_eq_true, decide_eq_true_eq, not_or] at hneg
            omega
          simp only [Option.map_some, toWD, Int.toNat_of_nonneg h0]

/-- **3.** Label- and EQU-free programs: instructions whose operands are precedence-well-formed
    trees over numbers (inside the range the `go/types.Eval` model answers on, at most 20000
    tokens each), plus `ORG e` / `END [e]` lines.  On the corresponding source lines the model of
    `compile()` returns exactly the reference meaning: the same code, the same entry point, or
    an error when the reference says the program has no meaning. -/
theorem compile_meaning (lexTokens : String → List Token) (cfg : Config) (sc : Spec.Cfg)
    (prog : List CItem) (ameta : AsmMeta)
    (hv : cfg.validate = true) (h63 : cfg.coreSize.toNat < 2 ^ 63) (hr : CfgRel cfg sc)
    (hw : ∀ it ∈ prog, it.WF) :
    compile lexTokens cfg (render 0 prog) ameta =
      .ok ((Spec.meaningFlat sc (prog.map CItem.toItem)).map (toWD ameta)) := by
  unfold compile
  rw [compileX_meaning lexTokens cfg sc prog ameta hv h63 hr hw]
  cases (Spec.meaningFlat sc (prog.map CItem.toItem)).map (toWD ameta) <;> rfl

/-- on these programs the answer of the model never rests on an expression outside the modelled
    subset of `go/types.Eval` -/
theorem compile_meaning_modelled (lexTokens : String → List Token) (cfg : Config) (sc : Spec.Cfg)
    (prog : List CItem) (ameta : AsmMeta)
    (hv : cfg.validate = true) (h63 : cfg.coreSize.toNat < 2 ^ 63) (hr : CfgRel cfg sc)
    (hw : ∀ it ∈ prog, it.WF) :
    compileUnmodelled lexTokens cfg (render 0 prog) ameta = false := by
  unfold compileUnmodelled
  rw [compileX_meaning lexTokens cfg sc prog ameta hv h63 hr hw]
  cases (Spec.meaningFlat sc (prog.map CItem.toItem)).map (toWD ameta) <;> rfl
end Gmars.AsmLine
