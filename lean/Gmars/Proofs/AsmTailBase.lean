/-
  C03 / C06, labels on the END line (`last end first`), compiler stage, generic part.

    * `compileFrom`, `compileX_from`   `compileX` = `loadSymbols`, then a function of the state
                                        and the lines that does not read the `labels` fields
    * `compileFrom_unl`                … so the labels on the lines may be forgotten after
                                        `loadSymbols`
    * `foldl_loadSymbolsLine_cur`      the counter `curPseudoLine` of `loadSymbols`
    * `loadSymbolsLine_endT`           an END line that carries labels
    * `meaningFlatT_eq`                `Spec.meaningFlatT` as `flatTail` with the longer table
-/
import Gmars.Proofs.AsmEqu
import Gmars.Spec.ProgramTail

namespace Gmars.AsmLine
open Gmars.Compile Gmars.ExprProofs

/-! ## `compileX` after `loadSymbols` -/

/-- `compile()` after `loadSymbols` (configuration already validated) -/
def compileFrom (lexTokens : String → List Token) (cfg : Config) (ameta : AsmMeta) (c : Compiler)
    (lines : List SourceLine) : M WarriorData :=
  if graphContainsCycle (buildReferenceGraph c.values) then .error .goErr
  else
    evaluateAssertions lexTokens c lines >>= fun _ =>
    optM (expandExpressions c.values (buildReferenceGraph c.values)) >>= fun resolved =>
    assembleLines { c with values := resolved } lines #[] >>= fun code =>
    finishX cfg ameta { c with values := resolved } code

theorem compileX_from (lexTokens : String → List Token) (cfg : Config) (lines : List SourceLine)
    (ameta : AsmMeta) (hv : cfg.validate = true) :
    compileX lexTokens cfg lines ameta = compileFrom lexTokens cfg ameta (symC cfg lines) lines := by
  rw [compileX_eq, hv]
  rfl

/-- forget the labels of a source line -/
def unl (l : SourceLine) : SourceLine := { l with labels := [] }

theorem evaluateAssertions_unl (lexTokens : String → List Token) (c : Compiler)
    (lines : List SourceLine) :
    evaluateAssertions lexTokens c (lines.map unl) = evaluateAssertions lexTokens c lines := by
  induction lines with
  | nil => rfl
  | cons l r ih =>
    rw [List.map_cons, evaluateAssertions_cons, evaluateAssertions_cons, ih]
    rfl

theorem assembleLines_unl (c : Compiler) (lines : List SourceLine) :
    ∀ acc : Array Instr, assembleLines c (lines.map unl) acc = assembleLines c lines acc := by
  induction lines with
  | nil => intro acc; rfl
  | cons l r ih =>
    intro acc
    rw [List.map_cons]
    unfold assembleLines
    have h1 : (unl l).typ = l.typ := rfl
    have h2 : assembleLine c (unl l) = assembleLine c l := rfl
    rw [h1, h2]
    split
    · exact ih acc
    · simp only [ih]

/-- after `loadSymbols` the labels on the lines are not read any more -/
theorem compileFrom_unl (lexTokens : String → List Token) (cfg : Config) (ameta : AsmMeta)
    (c : Compiler) (l₁ l₂ : List SourceLine) (h : l₁.map unl = l₂.map unl) :
    compileFrom lexTokens cfg ameta c l₁ = compileFrom lexTokens cfg ameta c l₂ := by
  unfold compileFrom
  rw [← evaluateAssertions_unl lexTokens c l₁, ← evaluateAssertions_unl lexTokens c l₂, h]
  simp only [← assembleLines_unl _ l₁, ← assembleLines_unl _ l₂, h]

/-! ## the counter of `loadSymbols` -/

def isInstrLine (l : SourceLine) : Bool := l.typ == .instruction

theorem loadSymbolsLine_snd (st : Compiler × Int) (l : SourceLine) :
    (loadSymbolsLine st l).2 = if isInstrLine l then wrap64 (st.2 + 1) else st.2 := by
  obtain ⟨c, cur⟩ := st
  unfold loadSymbolsLine isInstrLine
  simp only
  split <;> rfl

theorem foldl_loadSymbolsLine_cur (lines : List SourceLine) :
    ∀ st : Compiler × Int, 0 ≤ st.2 → st.2 + ((lines.filter isInstrLine).length : Int) < 2 ^ 63 →
      (lines.foldl loadSymbolsLine st).2 = st.2 + ((lines.filter isInstrLine).length : Int) := by
  induction lines with
  | nil => intro st _ _; simp
  | cons l r ih =>
    intro st h0 hlt
    rw [List.foldl_cons]
    have hs := loadSymbolsLine_snd st l
    cases hl : isInstrLine l with
    | true =>
      rw [hl, if_pos rfl] at hs
      simp only [List.filter_cons, hl, if_true, List.length_cons, Int.natCast_add, Int.natCast_one] at hlt ⊢
      have hw : wrap64 (st.2 + 1) = st.2 + 1 := wrap64_id (by omega) (by omega)
      rw [ih _ (by rw [hs, hw]; omega) (by rw [hs, hw]; omega), hs, hw]
      omega
    | false =>
      rw [hl, if_neg (by simp)] at hs
      simp only [List.filter_cons, hl, Bool.false_eq_true, if_false] at hlt ⊢
      rw [ih _ (by rw [hs]; exact h0) (by rw [hs]; exact hlt), hs]

/-! ## an END line with labels -/

theorem loadSymbolsLine_endT (c : Compiler) (cur : Int) (ln : SourceLine)
    (hty : ln.typ = .pseudoOp) (hop : lowerStr ln.op = "end") :
    loadSymbolsLine (c, cur) ln =
      ({ c with startExpr := if (ln.a.getD []).length > 0 then ln.a.getD [] else c.startExpr,
                labels := ln.labels.foldl (fun t l => t.set l cur) c.labels }, cur) := by
  unfold loadSymbolsLine
  simp only [hty, hop]
  have h1 : (LineType.pseudoOp == LineType.instruction) = false := rfl
  have h2 : (LineType.pseudoOp == LineType.pseudoOp) = true := rfl
  have h3 : ("end" == "equ") = false := by decide
  have h4 : ("end" == "org") = false := by decide
  have h5 : ("end" == "end") = true := by decide
  simp only [h1, h2, h3, h4, h5, if_true, Bool.false_eq_true, if_false]
  by_cases hlen : (ln.a.getD []).length > 0
  · simp only [hlen, if_true]
  · simp only [hlen, if_false]

/-! ## `Spec.meaningFlatT` as a chain of guards -/

theorem meaningFlatT_eq (c : Spec.Cfg) (items : List Spec.Item) (tail : List String) :
    Spec.meaningFlatT c items tail =
      flatTail c items ((labelFold items).1 ++ tail.map (fun l => (l, (labelFold items).2)))
        (labelFold items).2 := by
  unfold Spec.meaningFlatT
  split
  rename_i labels n heq
  have hl : labelFold items = (labels, n) := heq
  rw [hl]
  unfold flatTail tablesOf
  simp (config := {zeta := false}) only [Option.bind_eq_bind, Option.bind_none]
  simp only []
  rfl

end Gmars.AsmLine
