/-
  C03 / C06: the whole assembler, from BYTES, on programs with labels, EQUs, asserts, comments,
  ORG — and a last line `l1 l2 … END [expr]` that carries labels (without colons).

  Stage theorems composed:
      bytes --decodeRunes--> characters --Lex.tokens--> tokens --forLoop (pre-scan)--> tokens
            --parse--> source lines --compile--> warrior

    * `TProg`, `TProg.lex_tokens`                    the lexer on any spacing of the source lines
    * `AsmTail.scan_tpprog`, `assemble_stages_tpprog`, `parse_tpprog`   (AsmTailParse.lean)
    * `TProg.norm_lines`                             for the compiler the parsed lines are
                                                     `xrenderT p.body p.kw p.e p.tail`
    * `TProg.toP_OK`
    * `AsmLine.compileX_meaning_equ_tail`            (AsmTailEqu.lean)
    * **`assemble_meaning_equ_tail`** (here)
-/
import Gmars.Proofs.AsmComposeEqu
import Gmars.Proofs.AsmTailParse
import Gmars.Proofs.AsmTailEqu

namespace Gmars
namespace AsmTail
open Gmars.Render Gmars.AsmLine Gmars.ExprProofs Gmars.AsmCompose Gmars.AsmComposeEqu

/-! ## source programs whose END line carries labels -/

/-- `lead` empty lines, the items, the last line `tail… kw [e]` and `trail` empty lines -/
structure TProg where
  lead : Nat := 0
  items : List EItem
  tail : List String
  kw : String
  e : Option (List Spec.ETok) := none
  trail : Nat := 0

/-- the same program with the labels of the END line dropped -/
def TProg.base (p : TProg) : EProg :=
  { lead := p.lead, items := p.items, fin := some (p.kw, p.e), trail := p.trail }

/-- the abstract program in front of the END line -/
def TProg.body (p : TProg) : List AsmLine.XItem := p.items.filterMap EItem.toX

/-- the abstract program: layout forgotten -/
def TProg.xitems (p : TProg) : List AsmLine.XItem := p.body ++ [AsmLine.XItem.end_ p.kw p.e]

theorem TProg.xitems_base (p : TProg) : p.base.xitems = p.xitems := rfl

/-- the labels of the instructions, in order -/
def TProg.labels (p : TProg) : List String := (xlabelsFrom 0 p.body).map (·.1)

/-- the EQU names, in order -/
def TProg.equNames (p : TProg) : List String := (xequs p.body).map (·.1)

/-- the names the program refers to in operands, EQU bodies, ORG and END -/
def TProg.names (p : TProg) : List String := p.xitems.flatMap XItemNames

/-- the tokens of the END argument -/
def TProg.etoks (p : TProg) : List Token := (p.e.map toksOf).getD []

/-- the line `l1 l2 … kw ws…` -/
def tailSrcLine (tail : List String) (kw : String) (ws : List Word) : SrcLine :=
  match tail with
  | [] => pseudoSrcLine kw ws
  | l :: r => pseudoSrcLine l (r.map identWord ++ identWord kw :: ws)

/-- **the canonical source lines**: words separated by one blank -/
def TProg.srcLines (p : TProg) : List SrcLine :=
  List.replicate p.lead emptySrcLine ++ (eitemsSrcLines p.items ++
    (tailSrcLine p.tail p.kw ((p.e.map ewords).getD []) :: List.replicate p.trail emptySrcLine))

/-- as a parser-level program -/
def TProg.toP (p : TProg) : TPProg :=
  { lead := p.lead, items := p.items.map EItem.toP, tail := p.tail, kw := p.kw, toks := p.etoks,
    trail := List.replicate p.trail nlTok ++ [eofTok] }

/-- the metadata the parser gathers from the comment lines -/
def TProg.meta (p : TProg) : AsmMeta := p.toP.metadata

/-! ## the lexer -/

theorem tailSrcLine_ok (tail : List String) (kw : String) (ws : List Word)
    (ht : ∀ l ∈ tail, identOK l = true) (hk : identOK kw = true) (hws : ∀ w ∈ ws, w.valid = true) :
    (tailSrcLine tail kw ws).ok (some '\n') = true := by
  cases tail with
  | nil => exact pseudoSrcLine_ok kw ws hk hws
  | cons l r =>
    refine pseudoSrcLine_ok l _ (ht l (by simp)) ?_
    intro w hw
    rcases List.mem_append.1 hw with hw | hw
    · obtain ⟨x, hx, rfl⟩ := List.mem_map.1 hw
      exact identWord_valid (ht x (by simp [hx]))
    · rcases List.mem_cons.1 hw with rfl | hw
      · exact identWord_valid hk
      · exact hws w hw

theorem tailSrcLine_toks (tail : List String) (kw : String) (ws : List Word)
    (ht : ∀ l ∈ tail, identOK l = true) (hk : identOK kw = true) :
    (tailSrcLine tail kw ws).toks = tailTokens tail ++ (⟨.text, kw⟩ : Token) :: ws.map Word.tok := by
  cases tail with
  | nil => exact pseudoSrcLine_toks kw ws hk
  | cons l r =>
    simp only [tailSrcLine, pseudoSrcLine_toks l _ (ht l (by simp)), tailTokens, List.map_cons,
      List.map_append, List.map_map, identWord_tok hk, List.cons_append, List.cons.injEq, true_and]
    congr 1
    apply List.map_congr_left
    intro x hx
    exact identWord_tok (ht x (by simp [hx]))

/-- lexical conditions: those of the program without END-line labels, and the END-line labels are
    identifiers -/
structure TProg.LexOK (p : TProg) : Prop where
  base : p.base.LexOK
  tail : ∀ l ∈ p.tail, identOK l = true

theorem TProg.fin_lex (p : TProg) (h : p.LexOK) :
    identOK p.kw = true ∧ ∀ x, p.e = some x → ELexOK x ∧ x ≠ [] :=
  h.base.fin p.kw p.e rfl

theorem TProg.ewords_valid (p : TProg) (h : p.LexOK) :
    ∀ w ∈ (p.e.map ewords).getD [], w.valid = true := by
  cases he : p.e with
  | none => intro w hw; simp at hw
  | some x => exact AsmComposeEqu.ewords_valid x (((p.fin_lex h).2 x he).1)

theorem TProg.srcLines_ok (p : TProg) (h : p.LexOK) : ∀ l ∈ p.srcLines, l.ok (some '\n') = true := by
  intro l hl
  simp only [TProg.srcLines, List.mem_append, List.mem_replicate, List.mem_cons] at hl
  rcases hl with ⟨_, rfl⟩ | hl | rfl | ⟨_, rfl⟩
  · exact emptySrcLine_ok
  · exact eitemsSrcLines_ok p.items h.base.items l hl
  · exact tailSrcLine_ok p.tail p.kw _ h.tail (p.fin_lex h).1 (p.ewords_valid h)
  · exact emptySrcLine_ok

theorem TProg.ewords_tok (p : TProg) (h : p.LexOK) :
    ((p.e.map ewords).getD []).map Word.tok = p.etoks := by
  unfold TProg.etoks
  cases he : p.e with
  | none => rfl
  | some x =>
    simp only [Option.map_some, Option.getD_some]
    exact AsmComposeEqu.ewords_tok x (((p.fin_lex h).2 x he).1)

/-- the canonical source lines carry the tokens of the parser-level program -/
theorem TProg.linesToks_eq (p : TProg) (h : p.LexOK) :
    linesToks p.srcLines ++ [Lex.eofTok] = p.toP.tokens := by
  simp only [TProg.srcLines, linesToks_append, linesToks_replicate,
    eitemsSrcLines_toks p.items h.base.items, TPProg.tokens, TProg.toP, List.append_assoc]
  congr 2
  simp only [linesToks, linesToks_replicate, TPProg.finTokens,
    tailSrcLine_toks p.tail p.kw _ h.tail (p.fin_lex h).1, p.ewords_tok h, List.append_assoc,
    List.cons_append]
  rfl

/-- **lexer stage** -/
theorem TProg.lex_tokens (p : TProg) (h : p.LexOK) (ls : List SrcLine)
    (hls : ∀ l ∈ ls, l.ok (some '\n') = true) (hsame : SameLines ls p.srcLines) :
    Lex.tokens (renderLines ls) = p.toP.tokens := by
  rw [lex_tokens_words ls hls, linesToks_sameWords hsame, p.linesToks_eq h]

/-! ## the parsed lines, as the compiler reads them -/

theorem core_endLineP (ln : Int) (p : TProg) (h : p.LexOK) :
    core (endLineP ln p.kw p.etoks p.tail) = xendLineT p.kw p.e p.tail := by
  unfold TProg.etoks
  cases he : p.e with
  | none => rfl
  | some x =>
    simp only [core, endLineP, endLine, xendLineT, AsmLine.XItem.toLine, Option.map_some,
      Option.getD_some]
    have hne := ((p.fin_lex h).2 x he).2
    have : (toksOf x).isEmpty = false := by
      cases hx : x with
      | nil => exact absurd hx hne
      | cons _ _ => rfl
    simp [this]

theorem TProg.norm_lines (p : TProg) (h : p.LexOK) (hp : ∀ it ∈ p.items, it.CommentOK) :
    norm p.toP.lines = xrenderT p.body p.kw p.e p.tail := by
  simp only [TPProg.lines, norm_append, norm_blankLines, List.nil_append, TProg.toP, xrenderT]
  have := (norm_eitems_lines p.items h.base.items hp ((1 : Int) + p.lead) 0).1
  simp only [Int.natCast_zero] at this
  rw [this]
  congr 1
  rw [norm_cons_relevant _ _ rfl, norm_nil, core_endLineP _ p h]

/-! ## parser-level well-formedness -/

theorem TProg.labels_eq (p : TProg) : p.labels = xlabelNames p.body := by
  unfold TProg.labels
  rw [xlabelsFrom_names]

theorem TProg.toP_labels_perm (p : TProg) (h : p.LexOK) :
    (pitemsLabels (p.items.map EItem.toP)).Perm (p.labels ++ p.equNames) := by
  rw [p.labels_eq]
  exact pitemsLabels_perm p.items h.base.items

theorem TProg.toP_refs (p : TProg) (h : p.LexOK) : ∀ x ∈ p.toP.refs, x ∈ p.names := by
  intro x hx
  unfold TProg.names TProg.xitems TProg.body
  rw [List.flatMap_append, List.mem_append]
  simp only [TPProg.refs, TProg.toP] at hx
  rcases mem_addRefs hx with hx | hx
  · rcases mem_pitemsRefs p.items h.base.items hx with hx | hx
    · simp at hx
    · exact Or.inl hx
  · right
    unfold TProg.etoks at hx
    cases he : p.e with
    | none => rw [he] at hx; simp [tokNames] at hx
    | some y =>
      rw [he] at hx
      simp only [Option.map_some, Option.getD_some, tokNames_toksOf] at hx
      simpa [XItemNames] using hx

theorem nodup_rearrange {A T Q C : List String} (h : (A ++ T ++ Q ++ C).Nodup) :
    (A ++ Q ++ T).Nodup := by
  have h1 : (A ++ T ++ Q).Nodup := (List.nodup_append.1 h).1
  have hp : (A ++ Q ++ T).Perm (A ++ T ++ Q) := by
    rw [List.append_assoc, List.append_assoc]
    exact List.Perm.append_left _ List.perm_append_comm
  exact hp.nodup_iff.mpr h1

/-- **parser stage hypotheses** -/
theorem TProg.toP_OK (p : TProg) (h : p.LexOK) (hn : p.base.NamesOK)
    (htn : ∀ l ∈ p.tail, IsLabelName l) (hkw : ∀ x ∈ p.xitems, x.KW)
    (hnd : (p.labels ++ p.tail ++ p.equNames ++ constNames).Nodup)
    (hcl : ∀ x ∈ p.names, x ∈ p.labels ∨ x ∈ p.tail ∨ x ∈ p.equNames ∨ x ∈ constNames) :
    p.toP.OK where
  items := by
    intro it hit
    simp only [TProg.toP, List.mem_map] at hit
    obtain ⟨s, hs, rfl⟩ := hit
    exact EItem.toP_OK (h.base.items s hs) (hn.items s hs)
      (fun x hx => hkw x (List.mem_append_left _ (List.mem_filterMap.mpr ⟨s, hs, hx⟩)))
  tail := htn
  nodup := by
    show (pitemsLabels (p.items.map EItem.toP) ++ p.tail).Nodup
    exact ((p.toP_labels_perm h).append_right _).nodup_iff.mpr (nodup_rearrange hnd)
  notPredefined := by
    intro l hl hp
    have hl' : l ∈ p.labels ++ p.tail ++ p.equNames := by
      rcases List.mem_append.1 (show l ∈ pitemsLabels (p.items.map EItem.toP) ++ p.tail from hl) with
        hl | hl
      · rcases List.mem_append.1 ((p.toP_labels_perm h).mem_iff.mp hl) with hl | hl
        · exact List.mem_append_left _ (List.mem_append_left _ hl)
        · exact List.mem_append_right _ hl
      · exact List.mem_append_left _ (List.mem_append_right _ hl)
    exact (List.nodup_append.1 hnd).2.2 l hl' l hp rfl
  defined := by
    intro x hx
    show x ∈ pitemsLabels (p.items.map EItem.toP) ++ p.tail ∨ x ∈ predefined
    rcases hcl x (p.toP_refs h x hx) with h1 | h1 | h1 | h1
    · exact Or.inl (List.mem_append_left _
        ((p.toP_labels_perm h).mem_iff.mpr (List.mem_append_left _ h1)))
    · exact Or.inl (List.mem_append_right _ h1)
    · exact Or.inl (List.mem_append_left _
        ((p.toP_labels_perm h).mem_iff.mpr (List.mem_append_right _ h1)))
    · exact Or.inr h1
  kw := (hkw _ (List.mem_append_right _ (List.mem_singleton.mpr rfl))).1
  toks := by
    show ∀ t ∈ p.etoks, t.isExpressionTerm = true
    unfold TProg.etoks
    cases he : p.e with
    | none => intro t ht; simp at ht
    | some x => exact toksOf_exprTerm x (((p.fin_lex h).2 x he).1)
  trail := by simp [TProg.toP]

/-! ## the whole assembler -/

/-- **`assemble_meaning_equ_tail`** — `assemble_meaning_equ` for programs whose last line is
    `l1 l2 … END [expr]`.

    `p : TProg` is a program of labelled instructions, ORG lines, EQU lines, `;assert` comment
    lines (`p.body : List AsmLine.XItem`), a last line with the labels `p.tail` (no colons), the
    keyword `p.kw` and the optional argument `p.e`, with a layout: colon suffixes of instruction
    labels, blank lines, comment lines.  `ls` is ANY list of source lines carrying the words of the
    program (`SameLines ls p.srcLines`) with arbitrary leading blanks and separators of blanks and
    tabs (`SrcLine.ok`).  `src` is any byte string the Go reader decodes to that text.

    Then `CompileWarrior` returns the warrior of the reference meaning `Spec.meaningFlatT` — the
    END-line labels stand for the address just after the code, in operands, EQU bodies, asserts,
    ORG and END arguments — or an error exactly when the reference rejects the program.

    Hypotheses: those of `assemble_meaning_equ`, with the END-line labels among the symbols that
    are identifiers (`p.LexOK`), taken for labels by the parser (`htn`), defined once (`hnd`) and
    usable in expressions (`hcl`). -/
theorem assemble_meaning_equ_tail (cfg : Config) (sc : Spec.Cfg) (p : TProg) (d : String → Nat)
    (hv : cfg.validate = true) (h63 : cfg.coreSize.toNat < 2 ^ 63) (hr : CfgRel cfg sc)
    (hlex : p.LexOK) (hnames : p.base.NamesOK) (htn : ∀ l ∈ p.tail, IsLabelName l)
    (hplain : ∀ cs k, EItem.comment cs k ∈ p.items → plainComment cs)
    (hnd : (p.labels ++ p.tail ++ p.equNames ++ constNames).Nodup)
    (hcl : ∀ x ∈ p.names, x ∈ p.labels ∨ x ∈ p.tail ∨ x ∈ p.equNames ∨ x ∈ constNames)
    (hsmall : xinstrCount p.body < 2 ^ 63)
    (hrk : ERanked (xequs p.body ++ Spec.predefined sc) d) (hlt : ∀ s, d s < 63)
    (hw : XProgWF lexString sc (xtablesT sc p.body p.kw p.e p.tail) 0 p.xitems)
    (ls : List SrcLine) (hls : ∀ l ∈ ls, l.ok (some '\n') = true) (hsame : SameLines ls p.srcLines)
    (src : List UInt8) (hsrc : decodeRunes src = renderLines ls) :
    assemble cfg src =
      match Spec.meaningFlatT sc (p.xitems.map AsmLine.XItem.toItem) p.tail with
      | some m => .ok (toWD p.meta m)
      | none => .err := by
  have hOK : p.toP.OK := p.toP_OK hlex hnames htn hw.kw hnd hcl
  have htok : lexBytes src = p.toP.tokens := by
    unfold lexBytes; rw [hsrc, p.lex_tokens hlex ls hls hsame]
  rw [assemble_stages_tpprog cfg src p.toP hOK htok]
  have hc : Compile.compileX lexString cfg p.toP.lines p.toP.metadata =
      Compile.optM ((Spec.meaningFlatT sc (p.xitems.map AsmLine.XItem.toItem) p.tail).map
        (toWD p.toP.metadata)) := by
    rw [← compileX_norm, p.norm_lines hlex (p.base.commentOK (p.xitems_base ▸ hw) hplain)]
    exact compileX_meaning_equ_tail lexString cfg sc p.body p.kw p.e p.tail _ d hv h63 hr hnd hsmall
      hrk hlt hw
  rw [parseCompile_of cfg _ p.toP.lines p.toP.metadata (parse_tpprog p.toP hOK) _ hc]
  cases Spec.meaningFlatT sc (p.xitems.map AsmLine.XItem.toItem) p.tail <;> rfl

/-- `assemble_meaning_equ_tail` for ASCII text given as characters -/
theorem assemble_meaning_equ_tail_ascii (cfg : Config) (sc : Spec.Cfg) (p : TProg) (d : String → Nat)
    (hv : cfg.validate = true) (h63 : cfg.coreSize.toNat < 2 ^ 63) (hr : CfgRel cfg sc)
    (hlex : p.LexOK) (hnames : p.base.NamesOK) (htn : ∀ l ∈ p.tail, IsLabelName l)
    (hplain : ∀ cs k, EItem.comment cs k ∈ p.items → plainComment cs)
    (hnd : (p.labels ++ p.tail ++ p.equNames ++ constNames).Nodup)
    (hcl : ∀ x ∈ p.names, x ∈ p.labels ∨ x ∈ p.tail ∨ x ∈ p.equNames ∨ x ∈ constNames)
    (hsmall : xinstrCount p.body < 2 ^ 63)
    (hrk : ERanked (xequs p.body ++ Spec.predefined sc) d) (hlt : ∀ s, d s < 63)
    (hw : XProgWF lexString sc (xtablesT sc p.body p.kw p.e p.tail) 0 p.xitems)
    (ls : List SrcLine) (hls : ∀ l ∈ ls, l.ok (some '\n') = true) (hsame : SameLines ls p.srcLines)
    (hascii : ∀ c ∈ renderLines ls, c.toNat < 128) :
    assemble cfg (asciiBytes (renderLines ls)) =
      match Spec.meaningFlatT sc (p.xitems.map AsmLine.XItem.toItem) p.tail with
      | some m => .ok (toWD p.meta m)
      | none => .err :=
  assemble_meaning_equ_tail cfg sc p d hv h63 hr hlex hnames htn hplain hnd hcl hsmall hrk hlt hw ls hls
    hsame _ (decodeRunes_ascii _ hascii)

/-- `assemble_meaning_equ_tail` for the UTF-8 encoding (`String.toUTF8`) of the text -/
theorem assemble_meaning_equ_tail_utf8 (cfg : Config) (sc : Spec.Cfg) (p : TProg) (d : String → Nat)
    (hv : cfg.validate = true) (h63 : cfg.coreSize.toNat < 2 ^ 63) (hr : CfgRel cfg sc)
    (hlex : p.LexOK) (hnames : p.base.NamesOK) (htn : ∀ l ∈ p.tail, IsLabelName l)
    (hplain : ∀ cs k, EItem.comment cs k ∈ p.items → plainComment cs)
    (hnd : (p.labels ++ p.tail ++ p.equNames ++ constNames).Nodup)
    (hcl : ∀ x ∈ p.names, x ∈ p.labels ∨ x ∈ p.tail ∨ x ∈ p.equNames ∨ x ∈ constNames)
    (hsmall : xinstrCount p.body < 2 ^ 63)
    (hrk : ERanked (xequs p.body ++ Spec.predefined sc) d) (hlt : ∀ s, d s < 63)
    (hw : XProgWF lexString sc (xtablesT sc p.body p.kw p.e p.tail) 0 p.xitems)
    (ls : List SrcLine) (hls : ∀ l ∈ ls, l.ok (some '\n') = true) (hsame : SameLines ls p.srcLines) :
    assemble cfg (String.ofList (renderLines ls)).toUTF8.data.toList =
      match Spec.meaningFlatT sc (p.xitems.map AsmLine.XItem.toItem) p.tail with
      | some m => .ok (toWD p.meta m)
      | none => .err :=
  assemble_meaning_equ_tail cfg sc p d hv h63 hr hlex hnames htn hplain hnd hcl hsmall hrk hlt hw ls hls
    hsame _ (decodeRunes_toUTF8 _)

end AsmTail
end Gmars
