/-
  C03 / C06, labels on the END line: what the theorems say about the value of such a label.

  Let `last` be a label of the END line of a program with `n` instructions, core size `M`.

    * `evalAt_tail` / `reduce_tail` / `instrMeaning_tail_a` : used bare as an operand of
      instruction `i` it evaluates to `(n - i) mod M` — for `i = 0` and `n = M` that is `0`, never
      `M` (`reduce_tail_full`).
    * `meaningFlatT_start_tail` : a program whose entry point expression (the last ORG, or the END
      argument) is the bare label is REJECTED when `0 < n < M` — the entry point `n` is not `< n`.
      (`compile_start_tail_rejected`: so `compile()` returns an error.)
    * The statement "always rejected for non-empty code" is FALSE for `n = M` (possible when
      `Length = CoreSize`, `Distance = 0`): the label then evaluates to `n mod M = 0`, a valid entry
      point, and both gmars and the reference ACCEPT with start 0.  Checked with #eval on the model
      `assemble` and on `Spec.meaningFlatT`: core size 3, `jmp last / dat 0 / dat 0 / last end last`
      gives `jmp 0 / dat 0 / dat 0`, start 0.  `meaningFlatT_end_tail_full` is the general
      statement: for `n = M`, `END last` means `END 0`.
-/
import Gmars.Proofs.AsmTailEqu

namespace Gmars.AsmLine
open Gmars.Compile Gmars.ExprProofs

/-! ## the value of an END-line label -/

theorem evalInt_num (k : Nat) (h : k ≤ 2147483647) : Spec.Expr.evalInt [.num k] = some (k : Int) := by
  unfold Spec.Expr.evalInt
  have : Spec.Expr.eval [.num k] = some (.int k) := rfl
  rw [this]
  simp only
  rw [if_pos (by omega)]

/-- a bare label whose position `n` is not before the referring line `i`: the offset `n - i`
    reduced modulo the core size -/
theorem evalAt_label_fwd (sc : Spec.Cfg) (t : Spec.Tables) (i n : Nat) (s s' : String)
    (hq : t.equs.find? (·.1 == s) = none) (hl : t.labels.find? (·.1 == s) = some (s', n))
    (hi : i ≤ n) (hM : 0 < sc.M) (h31 : sc.M ≤ 2 ^ 31) :
    Spec.evalAt sc t i [.name s] = some (((n - i) % sc.M : Nat) : Int) := by
  unfold Spec.evalAt
  rw [expandEqus_nokey _ _ (by
    intro x hx
    simp only [List.mem_singleton, Spec.ETok.name.injEq] at hx
    subst hx; exact hq) (by simp)]
  simp only [Option.bind_eq_bind, Option.bind_some]
  have hv : Int.tmod ((n : Int) - (i : Int)) (sc.M : Int) = (((n - i) % sc.M : Nat) : Int) := by
    have h0 : (n : Int) - (i : Int) = ((n - i : Nat) : Int) := by omega
    rw [h0, Int.tmod_eq_emod_of_nonneg (by omega)]
    exact (Int.natCast_emod _ _).symm
  have hsub : Spec.substLabels sc t i [.name s] = some [.num ((n - i) % sc.M)] := by
    unfold Spec.substLabels
    simp only [List.foldlM_cons, List.foldlM_nil, hl, hv]
    have hnn : ¬ (((n - i) % sc.M : Nat) : Int) < 0 := by omega
    rw [if_neg hnn, Int.toNat_natCast]
    rfl
  rw [hsub]
  simp only [Option.bind_some]
  have hlt : (n - i) % sc.M < sc.M := Nat.mod_lt _ hM
  exact evalInt_num _ (by omega)

theorem reduce_natCast (M k : Nat) (hM : 0 < M) :
    Spec.reduce M ((k % M : Nat) : Int) = UInt64.ofNat (k % M) := by
  unfold Spec.reduce
  have hlt : k % M < M := Nat.mod_lt _ hM
  have : ((k % M : Nat) : Int) % (M : Int) = ((k % M : Nat) : Int) :=
    Int.emod_eq_of_lt (by omega) (by omega)
  rw [this, Int.toNat_natCast]

/-- the label table of a program whose END line carries labels: an END-line label that is not an
    instruction label is found with the number of instructions -/
theorem find?_xtailLabels (body : List XItem) (tail : List String) (l : String)
    (hl : l ∈ tail) (hnl : l ∉ (xlabelsFrom 0 body).map (·.1)) :
    (xtailLabels body tail).find? (·.1 == l) = some (l, xinstrCount body) := by
  unfold xtailLabels
  rw [List.find?_append]
  have h1 : (xlabelsFrom 0 body).find? (·.1 == l) = none := by
    rw [List.find?_eq_none]
    intro x hx hb
    have : x.1 = l := by simpa using hb
    exact hnl (this ▸ List.mem_map_of_mem hx)
  rw [h1, Option.none_or]
  induction tail with
  | nil => cases hl
  | cons a r ih =>
    simp only [List.map_cons, List.find?_cons]
    by_cases ha : a = l
    · subst ha; simp
    · have : (a == l) = false := by simpa using ha
      simp only [this]
      rcases List.mem_cons.1 hl with h | h
      · exact absurd h.symm ha
      · exact ih h

theorem find?_equs_none (sc : Spec.Cfg) (Q : ETab) (l : String) (hq : l ∉ Q.map (·.1))
    (hc : l ∉ constNames) : (Q ++ Spec.predefined sc).find? (·.1 == l) = none := by
  rw [List.find?_append]
  have h1 : Q.find? (·.1 == l) = none := by
    rw [List.find?_eq_none]
    intro x hx hb
    have : x.1 = l := by simpa using hb
    exact hq (this ▸ List.mem_map_of_mem hx)
  rw [h1, Option.none_or]
  exact predefined_find?_none sc l hc

/-- what "distinct from all other names" gives for one END-line label -/
theorem tail_label_fresh {body : List XItem} {tail : List String} {l : String}
    (hnd : ((xlabelsFrom 0 body).map (·.1) ++ tail ++ (xequs body).map (·.1) ++ constNames).Nodup)
    (hl : l ∈ tail) :
    l ∉ (xlabelsFrom 0 body).map (·.1) ∧ l ∉ (xequs body).map (·.1) ∧ l ∉ constNames := by
  have h1 := List.nodup_append.1 hnd
  have h2 := List.nodup_append.1 h1.1
  have h3 := List.nodup_append.1 h2.1
  refine ⟨fun h => h3.2.2 l h l hl rfl, fun h => h2.2.2 l (List.mem_append_right _ hl) l h rfl,
    fun h => h1.2.2 l (List.mem_append_left _ (List.mem_append_right _ hl)) l h rfl⟩

/-- **operand value.**  In a program of `n = xinstrCount body` instructions whose END line carries
    the label `last` (distinct from all other names), the bare operand `last` of instruction `i`
    evaluates to `(n - i) mod M` in the reference … -/
theorem evalAt_tail (sc : Spec.Cfg) (body : List XItem) (kw : String) (e : Option (List Spec.ETok))
    (tail : List String) (last : String) (i : Nat)
    (hnd : ((xlabelsFrom 0 body).map (·.1) ++ tail ++ (xequs body).map (·.1) ++ constNames).Nodup)
    (hl : last ∈ tail) (hi : i ≤ xinstrCount body) (hM : 0 < sc.M) (h31 : sc.M ≤ 2 ^ 31) :
    Spec.evalAt sc (xtablesT sc body kw e tail) i [.name last] =
      some (((xinstrCount body - i) % sc.M : Nat) : Int) := by
  obtain ⟨h1, h2, h3⟩ := tail_label_fresh hnd hl
  refine evalAt_label_fwd sc _ i (xinstrCount body) last last ?_ ?_ hi hM h31
  · show (xequs (body ++ [XItem.end_ kw e]) ++ Spec.predefined sc).find? (·.1 == last) = none
    have : xequs (body ++ [XItem.end_ kw e]) = xequs body := by rw [xequs_app]; simp [xequs]
    rw [this]
    exact find?_equs_none sc _ last h2 h3
  · exact find?_xtailLabels body tail last hl h1

/-- … and the field of the instruction is `(n - i) mod M` as an address: in particular `0`, never
    `M`, for `i = 0` and `n = M` -/
theorem reduce_tail (M n i : Nat) (hM : 0 < M) :
    Spec.reduce M (((n - i) % M : Nat) : Int) = UInt64.ofNat ((n - i) % M) :=
  reduce_natCast M (n - i) hM

theorem reduce_tail_full (M : Nat) (hM : 0 < M) :
    Spec.reduce M (((M - 0) % M : Nat) : Int) = 0 := by
  rw [reduce_tail M M 0 hM]
  simp

theorem bind2_a {A : UInt64} {ins : Instr} (x : Option Modifier) (y : Option Int)
    (f : Modifier → Int → Instr) (hf : ∀ m bv, (f m bv).a = A)
    (h : (x.bind fun m => y.bind fun bv => some (f m bv)) = some ins) : ins.a = A := by
  cases x with
  | none => cases h
  | some m =>
    cases y with
    | none => cases h
    | some bv => cases h; exact hf m bv

/-- the A-field of a two-operand instruction is the reduced value of its A-expression -/
theorem instrMeaning_a (sc : Spec.Cfg) (t : Spec.Tables) (line : Nat) (op : String)
    (md : Option String) (a b : Spec.POperand) (ins : Instr) (v : Int)
    (h : Spec.instrMeaning sc t line op md a (some b) = some ins)
    (hv : Spec.evalAt sc t line a.expr = some v) : ins.a = Spec.reduce sc.M v := by
  unfold Spec.instrMeaning at h
  simp only [hv, Option.bind_eq_bind, Option.bind_some, Option.bind_eq_some_iff] at h
  obtain ⟨o, _, h⟩ := h
  split at h
  · simp at h
  · split at h
    · split at h
      · simp at h
      · exact bind2_a _ _ _ (fun _ _ => rfl) h
    · split at h
      · simp at h
      · exact bind2_a _ _ _ (fun _ _ => rfl) h

/-- **operand value, in the instruction.**  `op.md last, b` as instruction `i` of a program of `n`
    instructions whose END line carries `last`: the A-field is `(n - i) mod M` — for `i = 0`,
    `n = M` that is `0`, never `M`.  (By `compile_meaning_equ_tail` / `assemble_meaning_equ_tail`
    this is the A-field gmars assembles.) -/
theorem instrMeaning_tail_a (sc : Spec.Cfg) (body : List XItem) (kw : String)
    (e : Option (List Spec.ETok)) (tail : List String) (last : String) (i : Nat)
    (op : String) (md : Option String) (mode : Option Mode) (b : Spec.POperand) (ins : Instr)
    (hnd : ((xlabelsFrom 0 body).map (·.1) ++ tail ++ (xequs body).map (·.1) ++ constNames).Nodup)
    (hl : last ∈ tail) (hi : i ≤ xinstrCount body) (hM : 0 < sc.M) (h31 : sc.M ≤ 2 ^ 31)
    (h : Spec.instrMeaning sc (xtablesT sc body kw e tail) i op md ⟨mode, [.name last]⟩ (some b) =
      some ins) :
    ins.a = UInt64.ofNat ((xinstrCount body - i) % sc.M) := by
  rw [instrMeaning_a sc _ i op md _ b ins _ h (evalAt_tail sc body kw e tail last i hnd hl hi hM h31)]
  exact reduce_tail sc.M _ i hM

/-! ## an END-line label as the entry point -/

theorem xstart_end_some (body : List XItem) (kw : String) (x : List Spec.ETok) :
    xstart (body ++ [XItem.end_ kw (some x)]) = x := by
  unfold xstart
  rw [List.foldl_append]
  rfl

/-- `flatTail` with a start expression that evaluates to `sv` outside the code: no meaning -/
theorem flatTail_bad_start (sc : Spec.Cfg) (items : List Spec.Item) (S : List (String × Nat)) (n : Nat)
    (sv : Int) (hsv : Spec.evalAt sc (tablesOf sc items S) 0 (startFold items) = some sv)
    (hbad : sv < 0 ∨ ((n : Int) ≤ sv ∧ sv ≠ 0)) : flatTail sc items S n = none := by
  unfold flatTail
  split
  · rfl
  · split
    · rfl
    · cases (codeFold sc (tablesOf sc items S) items (some [], 0)).1 with
      | none => rfl
      | some code =>
        simp only [Option.bind_some]
        split
        · rfl
        · split
          · rfl
          · rw [hsv]
            simp only [Option.bind_some]
            rw [if_pos]
            rcases hbad with h | ⟨h1, h2⟩
            · simp [h]
            · simp [h1, h2]

/-- **`org last` / `end last` is rejected for `0 < n < M`.**  When the entry point expression of
    the program (the last ORG, or the END argument: `xstart`) is the bare END-line label `last`,
    the reference gives the program no meaning: the entry point would be `n`, which is not `< n`. -/
theorem meaningFlatT_start_tail (sc : Spec.Cfg) (body : List XItem) (kw : String)
    (e : Option (List Spec.ETok)) (tail : List String) (last : String)
    (hnd : ((xlabelsFrom 0 body).map (·.1) ++ tail ++ (xequs body).map (·.1) ++ constNames).Nodup)
    (hl : last ∈ tail) (hstart : xstart (body ++ [XItem.end_ kw e]) = [.name last])
    (hn : 0 < xinstrCount body) (hlt : xinstrCount body < sc.M) (h31 : sc.M ≤ 2 ^ 31) :
    Spec.meaningFlatT sc ((body ++ [XItem.end_ kw e]).map XItem.toItem) tail = none := by
  rw [meaningFlatT_xitems, xinstrCount_end]
  have hev := evalAt_tail sc body kw e tail last 0 hnd hl (Nat.zero_le _) (by omega) h31
  rw [Nat.sub_zero, Nat.mod_eq_of_lt hlt] at hev
  refine flatTail_bad_start sc _ _ _ (xinstrCount body : Int) ?_ (Or.inr ⟨Int.le_refl _, by omega⟩)
  rw [tablesOf_xitemsS, xstartFold_items, hstart]
  exact hev

/-- … with `END last` -/
theorem meaningFlatT_end_tail (sc : Spec.Cfg) (body : List XItem) (kw : String)
    (tail : List String) (last : String)
    (hnd : ((xlabelsFrom 0 body).map (·.1) ++ tail ++ (xequs body).map (·.1) ++ constNames).Nodup)
    (hl : last ∈ tail)
    (hn : 0 < xinstrCount body) (hlt : xinstrCount body < sc.M) (h31 : sc.M ≤ 2 ^ 31) :
    Spec.meaningFlatT sc ((body ++ [XItem.end_ kw (some [.name last])]).map XItem.toItem) tail =
      none :=
  meaningFlatT_start_tail sc body kw _ tail last hnd hl (xstart_end_some body kw _) hn hlt h31

/-- so the compiler stage of gmars returns an error -/
theorem compile_start_tail_rejected (lexTokens : String → List Token) (cfg : Config) (sc : Spec.Cfg)
    (body : List XItem) (kw : String) (e : Option (List Spec.ETok)) (tail : List String)
    (last : String) (ameta : AsmMeta) (d : String → Nat)
    (hv : cfg.validate = true) (h63 : cfg.coreSize.toNat < 2 ^ 63) (hr : CfgRel cfg sc)
    (hnd : ((xlabelsFrom 0 body).map (·.1) ++ tail ++ (xequs body).map (·.1) ++ constNames).Nodup)
    (hsmall : xinstrCount body < 2 ^ 63)
    (hrk : ERanked (xequs body ++ Spec.predefined sc) d) (hlt : ∀ s, d s < 63)
    (hw : XProgWF lexTokens sc (xtablesT sc body kw e tail) 0 (body ++ [XItem.end_ kw e]))
    (hl : last ∈ tail) (hstart : xstart (body ++ [XItem.end_ kw e]) = [.name last])
    (hn : 0 < xinstrCount body) (hnM : xinstrCount body < sc.M) (h31 : sc.M ≤ 2 ^ 31) :
    compile lexTokens cfg (xrenderT body kw e tail) ameta = .ok none := by
  rw [compile_meaning_equ_tail lexTokens cfg sc body kw e tail ameta d hv h63 hr hnd hsmall hrk hlt hw,
    meaningFlatT_start_tail sc body kw e tail last hnd hl hstart hn hnM h31]
  rfl

/-! ## `n = M`: accepted, entry point 0 -/

/-- `flatTail` depends on the start expression only through its value -/
theorem evalAt_tail_full (sc : Spec.Cfg) (body : List XItem) (kw : String)
    (e : Option (List Spec.ETok)) (tail : List String) (last : String)
    (hnd : ((xlabelsFrom 0 body).map (·.1) ++ tail ++ (xequs body).map (·.1) ++ constNames).Nodup)
    (hl : last ∈ tail) (hfull : xinstrCount body = sc.M) (hM : 0 < sc.M) (h31 : sc.M ≤ 2 ^ 31) :
    Spec.evalAt sc (xtablesT sc body kw e tail) 0 [.name last] = some 0 := by
  have := evalAt_tail sc body kw e tail last 0 hnd hl (Nat.zero_le _) hM h31
  rw [this, Nat.sub_zero, hfull, Nat.mod_self]
  rfl

/-! ### `flatTail` reads the END argument only through its value -/

theorem equsOf_snoc_end (l : List Spec.Item) (x : Option (List Spec.ETok)) :
    Spec.equsOf (l ++ [.end_ x]) = Spec.equsOf l := by
  unfold Spec.equsOf
  rw [List.filterMap_append]
  simp

theorem codeFold_snoc_end (c : Spec.Cfg) (t : Spec.Tables) (l : List Spec.Item)
    (x : Option (List Spec.ETok)) (init : Option (List Instr) × Nat) :
    codeFold c t (l ++ [.end_ x]) init = codeFold c t l init := by
  unfold codeFold
  rw [List.foldl_append]
  generalize List.foldl _ init l = acc
  obtain ⟨a, k⟩ := acc
  cases a <;> rfl

theorem assertsOk_snoc_end (c : Spec.Cfg) (t : Spec.Tables) (l : List Spec.Item)
    (x : Option (List Spec.ETok)) : assertsOk c t (l ++ [.end_ x]) = assertsOk c t l := by
  unfold assertsOk
  rw [List.all_append]
  simp

theorem startFold_snoc_end (l : List Spec.Item) (e : List Spec.ETok) :
    startFold (l ++ [.end_ (some e)]) = e := by
  unfold startFold
  rw [List.foldl_append]
  rfl

theorem metaOf_snoc_end (l : List Spec.Item) (x : Option (List Spec.ETok)) (k : Spec.MetaKind) :
    metaOf (l ++ [.end_ x]) k = metaOf l k := by
  unfold metaOf
  rw [List.filterMap_append]
  simp

theorem tablesOf_snoc_end (c : Spec.Cfg) (l : List Spec.Item) (x : Option (List Spec.ETok))
    (S : List (String × Nat)) : tablesOf c (l ++ [.end_ x]) S = tablesOf c l S := by
  unfold tablesOf
  rw [equsOf_snoc_end]

/-- two END arguments with the same value: the same meaning -/
theorem flatTail_end_congr (c : Spec.Cfg) (l : List Spec.Item) (e1 e2 : List Spec.ETok)
    (S : List (String × Nat)) (n : Nat)
    (h : Spec.evalAt c (tablesOf c l S) 0 e1 = Spec.evalAt c (tablesOf c l S) 0 e2) :
    flatTail c (l ++ [.end_ (some e1)]) S n = flatTail c (l ++ [.end_ (some e2)]) S n := by
  unfold flatTail
  simp only [equsOf_snoc_end, tablesOf_snoc_end, codeFold_snoc_end, assertsOk_snoc_end,
    startFold_snoc_end, metaOf_snoc_end, h]

theorem evalAt_zero (c : Spec.Cfg) (t : Spec.Tables) : Spec.evalAt c t 0 [.num 0] = some 0 := by
  have := evalAt_cst c t 0 (.num 0) (by simp [CST.ntoks])
  simp only [CST.etoks] at this
  rw [this]
  rfl

/-- **`end last` is `end 0` for `n = M`.**  In a program that fills the core (`n = M` instructions:
    possible when `Length = CoreSize`) the END-line label evaluates to `M mod M = 0`, a valid entry
    point: the program means what it means with `END 0`.  So the statement "`org last` / `end last`
    is always rejected for non-empty code" is FALSE; it holds for `0 < n < M`
    (`meaningFlatT_start_tail`).  Concrete instance, checked with #eval on the model and on the
    reference: core size 3, `jmp last / dat 0 / dat 0 / last end last` assembles to
    `jmp 0 / dat 0 / dat 0`, start 0. -/
theorem meaningFlatT_end_tail_full (sc : Spec.Cfg) (body : List XItem) (kw : String)
    (tail : List String) (last : String)
    (hnd : ((xlabelsFrom 0 body).map (·.1) ++ tail ++ (xequs body).map (·.1) ++ constNames).Nodup)
    (hl : last ∈ tail) (hfull : xinstrCount body = sc.M) (hM : 0 < sc.M) (h31 : sc.M ≤ 2 ^ 31) :
    Spec.meaningFlatT sc ((body ++ [XItem.end_ kw (some [.name last])]).map XItem.toItem) tail =
      Spec.meaningFlatT sc ((body ++ [XItem.end_ kw (some [.num 0])]).map XItem.toItem) tail := by
  rw [meaningFlatT_xitems, meaningFlatT_xitems, xinstrCount_end, xinstrCount_end]
  simp only [List.map_append, List.map_cons, List.map_nil, XItem.toItem]
  apply flatTail_end_congr
  rw [evalAt_zero]
  have := evalAt_tail_full sc body kw (some [.name last]) tail last hnd hl hfull hM h31
  have ht : xtablesT sc body kw (some [.name last]) tail =
      tablesOf sc (body.map XItem.toItem) (xtailLabels body tail) := by
    unfold xtablesT xtablesS tablesOf
    rw [xequsOf_items, xequs_app]
    simp [xequs]
  rw [← ht]
  exact this

end Gmars.AsmLine
