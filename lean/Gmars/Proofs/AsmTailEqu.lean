/-
  C03 / C06 / C07, labels on the END line, compiler stage, programs with labels, EQUs and asserts.

    * `compileFrom_xrender`          `compile_meaning_equ` for an ARBITRARY label table `S` (the
                                     proof of AsmEqu.lean with `xlabelsFrom 0 prog` replaced)
    * `symC_xrenderT`                `loadSymbols` on a program whose END line carries labels
    * **`compile_meaning_equ_tail`**
-/
import Gmars.Proofs.AsmTailBase

namespace Gmars.AsmLine
open Gmars.Compile Gmars.ExprProofs

/-! ## the compiler stage for an arbitrary label table -/

/-- the tables of the reference, with label table `S` -/
def xtablesS (sc : Spec.Cfg) (S : List (String × Nat)) (prog : List XItem) : Spec.Tables :=
  { labels := S, equs := xequs prog ++ Spec.predefined sc }

theorem tablesOf_xitemsS (sc : Spec.Cfg) (S : List (String × Nat)) (prog : List XItem) :
    tablesOf sc (prog.map XItem.toItem) S = xtablesS sc S prog := by
  unfold tablesOf xtablesS
  rw [xequsOf_items]

/-- the compiler state after `loadSymbols`, with label table `S` -/
def symCXS (cfg : Config) (S : List (String × Nat)) (prog : List XItem) : Compiler :=
  { cfg := cfg, values := consts cfg ++ (xequs prog).map rendEqu,
    labels := S.map castL, startExpr := toksOf (xstart prog) }

theorem xequCtxS {cfg : Config} {sc : Spec.Cfg} (hr : CfgRel cfg sc) (S : List (String × Nat))
    (prog : List XItem)
    (hnq : (constNames ++ (xequs prog).map (·.1)).Nodup) {d : String → Nat}
    (hrk : ERanked (xequs prog ++ Spec.predefined sc) d) (hlt : ∀ s, d s < 63) :
    EquCtx (symCXS cfg S prog).values (xtablesS sc S prog).equs d where
  rel := tabRel_xequs hr (xequs prog) hnq
  nodup := by
    show ((consts cfg ++ (xequs prog).map rendEqu).map (·.1)).Nodup
    rw [List.map_append, consts_keys, rendEqu_keys]
    exact hnq
  ranked := hrk
  lt := hlt

theorem xrel_ofS {cfg : Config} {sc : Spec.Cfg} (S : List (String × Nat)) (prog : List XItem)
    (hv : cfg.validate = true)
    (h63 : cfg.coreSize.toNat < 2 ^ 63) (hr : CfgRel cfg sc) (hS : ∀ p ∈ S, p.2 < 2 ^ 63)
    (c : Compiler) (hcfg : c.cfg = cfg) (hl : c.labels = S.map castL) :
    XRel c sc (xtablesS sc S prog) where
  crel :=
    { legacy := by unfold Compiler.legacy; rw [hcfg, hr.legacy]
      m := by
        unfold Compiler.m
        rw [hcfg, mInt_of_lt h63, hr.M]
      pos := by rw [hr.M]; have := validate_ge3 hv; omega
      lt := by rw [hr.M]; exact h63 }
  labels := hl
  small := hS

theorem evaluateAssertions_xrenderS (lexTokens : String → List Token) {c : Compiler} {sc : Spec.Cfg}
    {d : String → Nat} {t : Spec.Tables} (hr : XRel c sc t)
    (hx : EquCtx c.values t.equs d) (prog : List XItem) :
    ∀ k, XProgWF lexTokens sc t k prog →
      evaluateAssertions lexTokens c (xrender k prog) =
        if assertsOk sc t (prog.map XItem.toItem) then .ok () else .error .goErr := by
  induction prog with
  | nil => intro k _; rfl
  | cons it r ih =>
    intro k hw
    simp only [xrender, List.map_cons]
    rw [evaluateAssertions_cons, assertsOk_cons, ih _ hw.2]
    cases it with
    | instr ls op md a b => rfl
    | equ kw n e => rfl
    | org kw e => rfl
    | end_ kw e => rfl
    | assert cm e =>
      obtain ⟨hpre, ⟨last, hlex⟩, hg⟩ := hw.1
      have hcond : (((XItem.assert cm e).toLine k).typ == LineType.comment &&
          assertPrefix.isPrefixOf ((XItem.assert cm e).toLine k).comment.toList) = true := by
        simp only [XItem.toLine, hpre]
        rfl
      rw [if_pos hcond, evaluateAssertion_eq]
      have hcm : ((XItem.assert cm e).toLine k).comment = cm := rfl
      rw [hcm, hlex]
      have hne : (toksOf e ++ [last]).isEmpty = false := by
        cases toksOf e <;> rfl
      rw [hne]
      simp only [Bool.false_eq_true, if_false, List.dropLast_concat]
      have hop := operandM_raw hr hx 0 (by omega) e hg.size hg.tree
      unfold operandM at hop
      rw [← bind_assoc]
      have hop' : (expandExpression c (toksOf e) 0 >>= evalM) =
          optM (Spec.evalAt sc t 0 e) := hop
      rw [hop']
      exact assert_step _ _

theorem flatTail_xitems (lexTokens : String → List Token) (sc : Spec.Cfg) (S : List (String × Nat))
    (n : Nat) (prog : List XItem)
    {d : String → Nat} {V : SymTab} (hx : EquCtx V (xtablesS sc S prog).equs d)
    (hnd : (S.map (·.1) ++ (xequs prog).map (·.1) ++ constNames).Nodup)
    (hw : XProgWF lexTokens sc (xtablesS sc S prog) 0 prog) :
    flatTail sc (prog.map XItem.toItem) S n =
      (codeFold sc (xtablesS sc S prog) (prog.map XItem.toItem) (some [], 0)).1.bind fun code =>
        if code.length > sc.maxLen then none
        else if !(assertsOk sc (xtablesS sc S prog) (prog.map XItem.toItem)) then none
        else
          (Spec.evalAt sc (xtablesS sc S prog) 0 (xstart prog)).bind fun sv =>
            if sv < 0 || (sv ≥ n && sv != 0) then none
            else some { code := code, start := sv.toNat, name := "", author := "", strategy := "" } := by
  unfold flatTail
  simp only [tablesOf_xitemsS]
  have hd : ((S.map (·.1) ++ (Spec.equsOf (prog.map XItem.toItem)).map (·.1) ++
      (Spec.predefined sc).map (·.1)).eraseDups.length !=
      (S.map (·.1) ++ (Spec.equsOf (prog.map XItem.toItem)).map (·.1) ++
      (Spec.predefined sc).map (·.1)).length) = false := by
    rw [xequsOf_items, predefined_names]
    have := eraseDups_of_nodup _ hnd
    unfold constNames at this
    rw [this]
    simp
  rw [hd]
  have he : ((xtablesS sc S prog).equs.all
      (fun (_, e) => (Spec.expandEqus 64 (xtablesS sc S prog).equs e).isSome)) = true := by
    rw [List.all_eq_true]
    intro x hxm
    have hxm' : x ∈ xequs prog ++ Spec.predefined sc := hxm
    rcases List.mem_append.1 hxm' with h | h
    · have := hx.expandEqus (xequs_sizeOK lexTokens sc _ prog 0 hw x h)
      simp only [this, Option.isSome_some]
    · simp only [Spec.predefined, List.mem_cons, List.not_mem_nil, or_false] at h
      rcases h with rfl | rfl | rfl | rfl <;>
        (simp only; rw [expandEqus_noname _ _ (by intro t ht; simp at ht; subst ht; rfl) (by simp)]; rfl)
  rw [he, xstartFold_items]
  simp only [xmetaOf_items, Bool.false_eq_true, if_false, Bool.not_true, List.getLast?_nil, Option.map_none,
    Option.getD_none, List.map_nil]
  rfl

/-- the compiler stage after `loadSymbols`, for ANY label table `S` the state and the reference
    share: the answer is `flatTail` for that table -/
theorem compileFrom_xrender (lexTokens : String → List Token) (cfg : Config) (sc : Spec.Cfg)
    (S : List (String × Nat)) (prog : List XItem) (ameta : AsmMeta) (d : String → Nat)
    (hv : cfg.validate = true) (h63 : cfg.coreSize.toNat < 2 ^ 63) (hr : CfgRel cfg sc)
    (hnd : (S.map (·.1) ++ (xequs prog).map (·.1) ++ constNames).Nodup)
    (hS : ∀ p ∈ S, p.2 < 2 ^ 63)
    (hsmall : xinstrCount prog < 2 ^ 63)
    (hrk : ERanked (xequs prog ++ Spec.predefined sc) d) (hlt : ∀ s, d s < 63)
    (hw : XProgWF lexTokens sc (xtablesS sc S prog) 0 prog) :
    compileFrom lexTokens cfg ameta (symCXS cfg S prog) (xrender 0 prog) =
      optM ((flatTail sc (prog.map XItem.toItem) S (xinstrCount prog)).map (toWD ameta)) := by
  obtain ⟨_, hnq⟩ := nodup_parts hnd
  have hctx := xequCtxS hr S prog hnq hrk hlt
  have hrelS : XRel (symCXS cfg S prog) sc (xtablesS sc S prog) :=
    xrel_ofS S prog hv h63 hr hS _ rfl rfl
  obtain ⟨resolved, hres, _⟩ := expandExpressions_full hctx.acyclic
  have hrelR : XRel { symCXS cfg S prog with values := resolved } sc (xtablesS sc S prog) :=
    xrel_ofS S prog hv h63 hr hS _ rfl rfl
  have hopR : ∀ (k : Nat) (e : List Spec.ETok), k < 2 ^ 63 → GoodX sc (xtablesS sc S prog) k e →
      operandM { symCXS cfg S prog with values := resolved } (toksOf e) (k : Int) =
        optM (Spec.evalAt sc (xtablesS sc S prog) k e) :=
    fun k e hk hg => operandM_resolved hrelR hctx hres k hk e hg.size hg.tree
  unfold compileFrom
  simp only [hctx.acyclic, Bool.false_eq_true, if_false, hres,
    evaluateAssertions_xrenderS lexTokens hrelS hctx prog 0 hw]
  rw [flatTail_xitems lexTokens sc S _ prog hctx hnd hw]
  cases hA : assertsOk sc (xtablesS sc S prog) (prog.map XItem.toItem) with
  | false =>
    simp only [Bool.false_eq_true, if_false, Bool.not_false, if_true]
    cases (codeFold sc (xtablesS sc S prog) (prog.map XItem.toItem) (some [], 0)).1 with
    | none => rfl
    | some code =>
      simp only [Option.bind_some]
      split <;> rfl
  | true =>
    simp only [if_true, Bool.not_true, Bool.false_eq_true, if_false]
    show (assembleLines { symCXS cfg S prog with values := resolved } (xrender 0 prog) #[] >>= fun code =>
      finishX cfg ameta { symCXS cfg S prog with values := resolved } code) = _
    rw [assembleLines_xrender hrelR hopR lexTokens prog 0 #[] hw (by omega)]
    cases hcode : (codeFold sc (xtablesS sc S prog) (prog.map XItem.toItem) (some [], 0)).1 with
    | none => rfl
    | some code =>
      have hlen := xcodeFold_length sc _ prog [] 0 code hcode
      simp only [List.length_nil, Nat.zero_add] at hlen
      simp only [Option.map_some, Option.bind_some]
      show finishX cfg ameta { symCXS cfg S prog with values := resolved } code.toArray = _
      unfold finishX
      simp only [List.size_toArray, hr.maxLen]
      split
      · rfl
      · have hst : expandExpression { symCXS cfg S prog with values := resolved }
              ({ symCXS cfg S prog with values := resolved } : Compiler).startExpr 0 >>= evalM =
            optM (Spec.evalAt sc (xtablesS sc S prog) 0 (xstart prog)) :=
          hopR 0 (xstart prog) (by omega)
            (xstart_good lexTokens sc _ (goodX_zero sc _) prog 0 hw)
        rw [← bind_assoc, hst]
        cases Spec.evalAt sc (xtablesS sc S prog) 0 (xstart prog) with
        | none => rfl
        | some sv =>
          simp only [optM, bind, Except.bind, Option.bind_some, hlen]
          split
          · rfl
          · rename_i hneg
            have h0 : 0 ≤ sv := by
              simp only [Bool.or_eq_true, decide_eq_true_eq, not_or] at hneg
              omega
            simp only [Option.map_some, toWD, Int.toNat_of_nonneg h0]

/-! ## programs whose END line carries labels -/

/-- the label table: the labels of the instructions, then the labels of the END line with the
    number of instructions -/
def xtailLabels (body : List XItem) (tail : List String) : List (String × Nat) :=
  xlabelsFrom 0 body ++ tail.map (fun l => (l, xinstrCount body))

/-- the END line as the parser records it: the labels in front of `end` are its `labels` -/
def xendLineT (kw : String) (e : Option (List Spec.ETok)) (tail : List String) : SourceLine :=
  { (XItem.end_ kw e).toLine 0 with labels := tail }

/-- the source lines of `body`, then the line `tail… kw [e]` -/
def xrenderT (body : List XItem) (kw : String) (e : Option (List Spec.ETok)) (tail : List String) :
    List SourceLine :=
  xrender 0 body ++ [xendLineT kw e tail]

/-- the tables `Spec.meaningFlatT` works with -/
def xtablesT (sc : Spec.Cfg) (body : List XItem) (kw : String) (e : Option (List Spec.ETok))
    (tail : List String) : Spec.Tables :=
  xtablesS sc (xtailLabels body tail) (body ++ [XItem.end_ kw e])

theorem xinstrCount_app (a b : List XItem) : xinstrCount (a ++ b) = xinstrCount a + xinstrCount b := by
  simp [xinstrCount]

theorem xrender_app (a b : List XItem) :
    ∀ k, xrender k (a ++ b) = xrender k a ++ xrender (k + xinstrCount a) b := by
  induction a with
  | nil => intro k; simp [xrender, xinstrCount]
  | cons it r ih =>
    intro k
    simp only [List.cons_append, xrender, ih]
    cases hi : it.isInstr with
    | true =>
      have : xinstrCount (it :: r) = xinstrCount r + 1 := by simp [xinstrCount, hi]
      rw [this]
      simp only [if_true]
      rw [show k + 1 + xinstrCount r = k + (xinstrCount r + 1) by omega]
    | false =>
      have : xinstrCount (it :: r) = xinstrCount r := by simp [xinstrCount, hi]
      rw [this]
      simp only [Bool.false_eq_true, if_false]

theorem xlabelsFrom_app (a b : List XItem) :
    ∀ k, xlabelsFrom k (a ++ b) = xlabelsFrom k a ++ xlabelsFrom (k + xinstrCount a) b := by
  induction a with
  | nil => intro k; simp [xlabelsFrom, xinstrCount]
  | cons it r ih =>
    intro k
    cases it with
    | instr ls op md a' b' =>
      simp only [List.cons_append, xlabelsFrom, ih, xinstrCount, List.filter_cons, XItem.isInstr, if_true,
        List.length_cons, List.append_assoc]
      congr 3; omega
    | equ kw n e => simp [xlabelsFrom, ih, XItem.isInstr, xinstrCount]
    | org kw e => simp [xlabelsFrom, ih, XItem.isInstr, xinstrCount]
    | end_ kw e => simp [xlabelsFrom, ih, XItem.isInstr, xinstrCount]
    | assert cm e => simp [xlabelsFrom, ih, XItem.isInstr, xinstrCount]

theorem xequs_app (a b : List XItem) : xequs (a ++ b) = xequs a ++ xequs b := by
  induction a with
  | nil => rfl
  | cons it r ih => cases it <;> simp [xequs, ih]

theorem xprogWF_app (lexTokens : String → List Token) (sc : Spec.Cfg) (t : Spec.Tables)
    (a b : List XItem) :
    ∀ k, XProgWF lexTokens sc t k (a ++ b) ↔
      XProgWF lexTokens sc t k a ∧ XProgWF lexTokens sc t (k + xinstrCount a) b := by
  induction a with
  | nil => intro k; simp [XProgWF, xinstrCount]
  | cons it r ih =>
    intro k
    simp only [List.cons_append, XProgWF, ih, and_assoc]
    cases hi : it.isInstr with
    | true =>
      have : xinstrCount (it :: r) = xinstrCount r + 1 := by simp [xinstrCount, hi]
      rw [this]
      simp only [if_true]
      rw [show k + 1 + xinstrCount r = k + (xinstrCount r + 1) by omega]
    | false =>
      have : xinstrCount (it :: r) = xinstrCount r := by simp [xinstrCount, hi]
      rw [this]
      simp only [Bool.false_eq_true, if_false]

theorem xrender_instrLines (prog : List XItem) :
    ∀ k, ((xrender k prog).filter isInstrLine).length = xinstrCount prog := by
  induction prog with
  | nil => intro k; rfl
  | cons it r ih =>
    intro k
    have hl : isInstrLine (it.toLine k) = it.isInstr := by cases it <;> rfl
    simp only [xrender, List.filter_cons, hl, xinstrCount]
    cases it.isInstr with
    | true => simp only [if_true, List.length_cons, ih]; rfl
    | false => simp only [Bool.false_eq_true, if_false, ih]; rfl

theorem xstartStepT_endT (acc : List Token) (kw : String) (e : Option (List Spec.ETok))
    (tail : List String) (hne : ∀ x, e = some x → x ≠ []) :
    (if ((xendLineT kw e tail).a.getD []).length > 0 then (xendLineT kw e tail).a.getD [] else acc) =
      xstartStepT acc (XItem.end_ kw e) := by
  cases e with
  | none => rfl
  | some x =>
    have h0 : toksOf x ≠ [] := toksOf_ne_nil (hne x rfl)
    have hlen : ((xendLineT kw (some x) tail).a.getD []).length > 0 := by
      show (toksOf x).length > 0
      cases h : toksOf x with
      | nil => exact absurd h h0
      | cons _ _ => simp
    rw [if_pos hlen]
    rfl

/-- `loadSymbols` on a program whose END line carries labels: the END-line labels are appended to
    the label table with the number of instructions -/
theorem foldl_loadSymbolsLine_xrenderT (body : List XItem)
    (kw : String) (e : Option (List Spec.ETok)) (tail : List String) (st : Compiler × Int)
    (hst : st.2 = 0)
    (hnd : (st.1.labels.map (·.1) ++ ((xlabelsFrom 0 body).map (·.1) ++ tail)).Nodup)
    (hnq : (st.1.values.map (·.1) ++ (xequs body).map (·.1)).Nodup)
    (hsmall : xinstrCount body < 2 ^ 63)
    (hkw : (XItem.end_ kw e).KW)
    (hw : ∀ it ∈ body, it.KW) :
    ((xrenderT body kw e tail).foldl loadSymbolsLine st).1 =
      { st.1 with labels := st.1.labels ++ (xtailLabels body tail).map castL,
                  values := st.1.values ++ (xequs (body ++ [XItem.end_ kw e])).map rendEqu,
                  startExpr := (body ++ [XItem.end_ kw e]).foldl xstartStepT st.1.startExpr } := by
  unfold xrenderT
  rw [List.foldl_append, List.foldl_cons, List.foldl_nil]
  have hnd0 : (st.1.labels.map (·.1) ++ (xlabelsFrom 0 body).map (·.1)).Nodup := by
    rw [← List.append_assoc] at hnd
    exact (List.nodup_append.1 hnd).1
  have h1 := foldl_loadSymbolsLine_xrender body 0 st hw hnd0 hnq
  have h2 := foldl_loadSymbolsLine_cur (xrender 0 body) st (by rw [hst]; exact Int.le_refl 0)
    (by rw [xrender_instrLines, hst]; omega)
  rw [xrender_instrLines, hst, Int.zero_add] at h2
  generalize (xrender 0 body).foldl loadSymbolsLine st = st' at h1 h2
  obtain ⟨c', cur'⟩ := st'
  simp only at h1 h2
  subst h1 h2
  rw [loadSymbolsLine_endT _ _ (xendLineT kw e tail) rfl hkw.1]
  have hlab : (xendLineT kw e tail).labels = tail := rfl
  simp only [hlab, xstartStepT_endT _ kw e tail hkw.2]
  rw [set_fold]
  · simp only [xtailLabels, xequs_app, xequs, List.append_nil, List.foldl_append, List.foldl_cons,
      List.foldl_nil, List.map_append, List.map_map, List.append_assoc]
    rfl
  · simp only [List.map_append, List.map_map, List.append_assoc]
    exact hnd

theorem xstartT_eq (prog : List XItem) :
    prog.foldl xstartStepT [{ typ := .number, val := "0" }] = toksOf (xstart prog) := by
  unfold xstart
  rw [← xstartT_aux]
  rfl

theorem symC_xrenderT (cfg : Config) (body : List XItem)
    (kw : String) (e : Option (List Spec.ETok)) (tail : List String)
    (hnl : ((xlabelsFrom 0 body).map (·.1) ++ tail).Nodup)
    (hnq : (constNames ++ (xequs body).map (·.1)).Nodup)
    (hsmall : xinstrCount body < 2 ^ 63)
    (hkw : (XItem.end_ kw e).KW)
    (hw : ∀ it ∈ body, it.KW) :
    symC cfg (xrenderT body kw e tail) =
      symCXS cfg (xtailLabels body tail) (body ++ [XItem.end_ kw e]) := by
  unfold symC loadSymbols
  simp only
  rw [foldl_loadSymbolsLine_xrenderT body kw e tail _ rfl (by simpa [loadConstants] using hnl)
    (by exact hnq) hsmall hkw hw]
  unfold symCXS
  rw [← xstartT_eq]
  rfl

theorem xrenderT_unl (body : List XItem) (kw : String) (e : Option (List Spec.ETok))
    (tail : List String) :
    (xrenderT body kw e tail).map unl = (xrender 0 (body ++ [XItem.end_ kw e])).map unl := by
  unfold xrenderT
  rw [xrender_app]
  simp only [List.map_append, xrender, List.map_cons, List.map_nil]
  rfl

theorem xtailLabels_le (body : List XItem) (tail : List String) :
    ∀ p ∈ xtailLabels body tail, p.2 ≤ xinstrCount body := by
  intro p hp
  unfold xtailLabels at hp
  rcases List.mem_append.1 hp with hp | hp
  · have := xlabelsFrom_lt body 0 p hp
    omega
  · obtain ⟨l, _, rfl⟩ := List.mem_map.1 hp
    exact Nat.le_refl _

theorem xinstrCount_end (body : List XItem) (kw : String) (e : Option (List Spec.ETok)) :
    xinstrCount (body ++ [XItem.end_ kw e]) = xinstrCount body := by
  simp [xinstrCount, XItem.isInstr]

theorem meaningFlatT_xitems (sc : Spec.Cfg) (body : List XItem) (kw : String)
    (e : Option (List Spec.ETok)) (tail : List String) :
    Spec.meaningFlatT sc ((body ++ [XItem.end_ kw e]).map XItem.toItem) tail =
      flatTail sc ((body ++ [XItem.end_ kw e]).map XItem.toItem) (xtailLabels body tail)
        (xinstrCount (body ++ [XItem.end_ kw e])) := by
  rw [meaningFlatT_eq, xlabelFold_items]
  simp only [xlabelsFrom_app, xinstrCount_end]
  simp [xtailLabels, xlabelsFrom]

theorem xtail_nodup {A T Q C : List String} (h : (A ++ T ++ Q ++ C).Nodup) :
    (A ++ T).Nodup ∧ (C ++ Q).Nodup :=
  nodup_parts h

theorem compileX_meaning_equ_tail (lexTokens : String → List Token) (cfg : Config) (sc : Spec.Cfg)
    (body : List XItem) (kw : String) (e : Option (List Spec.ETok)) (tail : List String)
    (ameta : AsmMeta) (d : String → Nat)
    (hv : cfg.validate = true) (h63 : cfg.coreSize.toNat < 2 ^ 63) (hr : CfgRel cfg sc)
    (hnd : ((xlabelsFrom 0 body).map (·.1) ++ tail ++ (xequs body).map (·.1) ++ constNames).Nodup)
    (hsmall : xinstrCount body < 2 ^ 63)
    (hrk : ERanked (xequs body ++ Spec.predefined sc) d) (hlt : ∀ s, d s < 63)
    (hw : XProgWF lexTokens sc (xtablesT sc body kw e tail) 0 (body ++ [XItem.end_ kw e])) :
    compileX lexTokens cfg (xrenderT body kw e tail) ameta =
      optM ((Spec.meaningFlatT sc ((body ++ [XItem.end_ kw e]).map XItem.toItem) tail).map
        (toWD ameta)) := by
  obtain ⟨hnl, hnq⟩ := xtail_nodup hnd
  have hkwAll := hw.kw
  have hq : xequs (body ++ [XItem.end_ kw e]) = xequs body := by
    rw [xequs_app]; simp [xequs]
  have hS : ((xtailLabels body tail).map (·.1) ++ (xequs (body ++ [XItem.end_ kw e])).map (·.1) ++
      constNames).Nodup := by
    unfold xtailLabels
    rw [hq, List.map_append, List.map_map]
    have : ((fun x : String × Nat => x.1) ∘ fun l => (l, xinstrCount body)) = id := rfl
    rw [this, List.map_id]
    exact hnd
  rw [compileX_from _ _ _ _ hv,
    symC_xrenderT cfg body kw e tail hnl hnq hsmall
      (hkwAll _ (List.mem_append_right _ (List.mem_singleton.2 rfl)))
      (fun it hit => hkwAll it (List.mem_append_left _ hit)),
    compileFrom_unl _ _ _ _ _ _ (xrenderT_unl body kw e tail),
    compileFrom_xrender lexTokens cfg sc _ _ ameta d hv h63 hr hS
      (fun p hp => by have := xtailLabels_le body tail p hp; omega)
      (by rw [xinstrCount_end]; exact hsmall) (by rw [hq]; exact hrk) hlt hw,
    meaningFlatT_xitems]

/-- **`compile_meaning_equ_tail`** — `compile_meaning_equ` for programs whose last line is
    `l1 l2 … END [e]`.  `body` is a program of labelled instructions, EQU / ORG / `;assert` lines
    (`XItem`s), `kw`/`e` the keyword and the optional argument of the END line, `tail` the labels
    written in front of it; `xrenderT` are the parser's source lines (the END line has
    `labels := tail`).  The labels of `tail` stand for the address just after the code,
    `xinstrCount body`, wherever they are used: operands, EQU bodies, asserts, ORG / END arguments
    (`xtailLabels`, `xtablesT`).

    Hypotheses as in `compile_meaning_equ`, with the END-line labels among the symbols that must be
    defined once, and `XProgWF` for the tables with the longer label table. -/
theorem compile_meaning_equ_tail (lexTokens : String → List Token) (cfg : Config) (sc : Spec.Cfg)
    (body : List XItem) (kw : String) (e : Option (List Spec.ETok)) (tail : List String)
    (ameta : AsmMeta) (d : String → Nat)
    (hv : cfg.validate = true) (h63 : cfg.coreSize.toNat < 2 ^ 63) (hr : CfgRel cfg sc)
    (hnd : ((xlabelsFrom 0 body).map (·.1) ++ tail ++ (xequs body).map (·.1) ++ constNames).Nodup)
    (hsmall : xinstrCount body < 2 ^ 63)
    (hrk : ERanked (xequs body ++ Spec.predefined sc) d) (hlt : ∀ s, d s < 63)
    (hw : XProgWF lexTokens sc (xtablesT sc body kw e tail) 0 (body ++ [XItem.end_ kw e])) :
    compile lexTokens cfg (xrenderT body kw e tail) ameta =
      .ok ((Spec.meaningFlatT sc ((body ++ [XItem.end_ kw e]).map XItem.toItem) tail).map
        (toWD ameta)) := by
  unfold compile
  rw [compileX_meaning_equ_tail lexTokens cfg sc body kw e tail ameta d hv h63 hr hnd hsmall hrk hlt hw]
  cases (Spec.meaningFlatT sc ((body ++ [XItem.end_ kw e]).map XItem.toItem) tail).map (toWD ameta) <;>
    rfl

theorem compile_meaning_equ_tail_modelled (lexTokens : String → List Token) (cfg : Config)
    (sc : Spec.Cfg)
    (body : List XItem) (kw : String) (e : Option (List Spec.ETok)) (tail : List String)
    (ameta : AsmMeta) (d : String → Nat)
    (hv : cfg.validate = true) (h63 : cfg.coreSize.toNat < 2 ^ 63) (hr : CfgRel cfg sc)
    (hnd : ((xlabelsFrom 0 body).map (·.1) ++ tail ++ (xequs body).map (·.1) ++ constNames).Nodup)
    (hsmall : xinstrCount body < 2 ^ 63)
    (hrk : ERanked (xequs body ++ Spec.predefined sc) d) (hlt : ∀ s, d s < 63)
    (hw : XProgWF lexTokens sc (xtablesT sc body kw e tail) 0 (body ++ [XItem.end_ kw e])) :
    compileUnmodelled lexTokens cfg (xrenderT body kw e tail) ameta = false := by
  unfold compileUnmodelled
  rw [compileX_meaning_equ_tail lexTokens cfg sc body kw e tail ameta d hv h63 hr hnd hsmall hrk hlt hw]
  cases (Spec.meaningFlatT sc ((body ++ [XItem.end_ kw e]).map XItem.toItem) tail).map (toWD ameta) <;>
    rfl

end Gmars.AsmLine
