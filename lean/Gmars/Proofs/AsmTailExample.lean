/-
  The hypotheses of `assemble_meaning_equ_tail` are satisfiable: a program whose END line carries
  two labels, one of them used as an operand, from bytes, in an odd spacing:

      "a jmp last\n\tdat  last\nlast   fin\tend a\n"

  `last` and `fin` are 2 (the number of instructions): `jmp last` on line 0 is `jmp 2`, `dat last`
  on line 1 is `dat 1`; the entry point is `a` = 0.
-/
import Gmars.Proofs.AsmTailCompose
import Gmars.Proofs.EquExample

namespace Gmars.AsmTail.Example
open Gmars Gmars.Render Gmars.AsmLine Gmars.AsmCompose Gmars.AsmComposeEqu Gmars.AsmTail
open Gmars.AsmLine.EquExample

open Spec.ETok in
/-- the source program -/
def progT : TProg :=
  { items := [
      .instr [("a", false)] "jmp" none ⟨none, [name "last"]⟩ none 0,
      .instr [] "dat" none ⟨none, [name "last"]⟩ none 0 ],
    tail := ["last", "fin"], kw := "end", e := some [name "a"] }

abbrev tT : Spec.Tables := xtablesT scE progT.body progT.kw progT.e progT.tail

def idw (s : String) : Word :=
  match s.toList with
  | c :: cs => .ident c cs
  | [] => .sym ' '

/-- a spacing of the program: rendered as "a jmp last\n\tdat  last\nlast   fin\tend a\n" -/
def lsT : List SrcLine := [
  { words := [(idw "a", " ".toList), (idw "jmp", " ".toList), (idw "last", [])] },
  { lead := "\t".toList, words := [(idw "dat", "  ".toList), (idw "last", [])] },
  { words := [(idw "last", "   ".toList), (idw "fin", "\t".toList), (idw "end", " ".toList),
              (idw "a", [])] } ]

theorem lsT_text : String.ofList (renderLines lsT) = "a jmp last\n\tdat  last\nlast   fin\tend a\n" := by
  decide

theorem lsT_ok : ∀ l ∈ lsT, l.ok (some '\n') = true := by decide

theorem lsT_same : SameLines lsT progT.srcLines := ⟨⟨rfl, rfl⟩, ⟨rfl, rfl⟩, ⟨rfl, rfl⟩, trivial⟩

theorem size0 (e : List Spec.ETok) (hk : keyFreeB tT.equs e = true) (hlen : e.length ≤ 20000) :
    SizeOK tT.equs e :=
  sizeOK_of_keyfree 0 ((keyFreeB_iff _ _).1 hk) (by
    intro j hj
    have : j = 0 := by omega
    subst this
    exact hlen)

/-- a bare name that is a label with offset `v ≥ 0` at line `k` -/
theorem good_label (k : Nat) (s : String) (v : Nat) (hv : v < 1000)
    (hk : keyFreeB tT.equs [.name s] = true)
    (h1 : Spec.expandEqus 64 tT.equs [.name s] = some [.name s])
    (h2 : Spec.substLabels scE tT k [.name s] = some [.num v]) : GoodX scE tT k [.name s] where
  size := size0 _ hk (by simp)
  tree := by
    intro x out hx hout
    rw [h1] at hx
    cases hx
    rw [h2] at hout
    cases hout
    exact ⟨.num v, trivial, lit_big v hv, rfl⟩

theorem ascii_jmp : Ascii "jmp" := by
  have h : "jmp".toList = ['j', 'm', 'p'] := by decide
  intro c hc
  rw [h] at hc
  simp only [List.mem_cons, List.not_mem_nil, or_false] at hc
  rcases hc with rfl | rfl | rfl <;> decide

theorem progT_wf : XProgWF lexString scE tT 0 progT.xitems := by
  refine ⟨?_, ?_, ?_, trivial⟩
  · refine ⟨ascii_jmp, by decide, ?_, good_label 0 "last" 2 (by omega) (by decide) (by decide) (by decide), ?_⟩
    · intro s h; cases h
    · intro bo h; cases h
  · refine ⟨ascii_dat, by decide, ?_, good_label 1 "last" 1 (by omega) (by decide) (by decide) (by decide), ?_⟩
    · intro s h; cases h
    · intro bo h; cases h
  · refine ⟨by decide, ?_⟩
    intro x hx
    cases hx
    exact good_label 0 "a" 0 (by omega) (by decide) (by decide) (by decide)

theorem progT_ranked : ERanked (xequs progT.body ++ Spec.predefined scE) (fun _ => 0) := by
  intro k v hkv s hsv hsome
  exfalso
  have hh : ∀ s, Spec.ETok.name s ∉ v := by
    intro s hs
    revert hkv
    simp only [ETab.get?, xequs, progT, TProg.body, EItem.toX, List.filterMap_cons, List.filterMap_nil,
      Spec.predefined, List.nil_append, List.find?_cons]
    intro hkv
    split at hkv
    · cases hkv; simp at hs
    · split at hkv
      · cases hkv; simp at hs
      · split at hkv
        · cases hkv; simp at hs
        · split at hkv
          · cases hkv; simp at hs
          · simp at hkv
  exact hh s hsv

theorem progT_lex : progT.LexOK where
  base :=
    ⟨by decide, by
      intro kw e h
      cases h
      exact ⟨by decide, by intro x hx; cases hx; exact ⟨by decide, by decide⟩⟩⟩
  tail := by decide

theorem progT_plain : ∀ cs k, EItem.comment cs k ∈ progT.items → plainComment cs := by
  intro cs k h
  simp [progT] at h

/-- the theorem applies: from the bytes of this text `CompileWarrior` returns the reference
    meaning of the abstract program with the labels `last`, `fin` on its END line -/
theorem example_assemble :
    assemble cfgE (asciiBytes (renderLines lsT)) =
      match Spec.meaningFlatT scE (progT.xitems.map XItem.toItem) progT.tail with
      | some m => .ok (toWD progT.meta m)
      | none => .err :=
  assemble_meaning_equ_tail_ascii cfgE scE progT (fun _ => 0) (by decide) (by decide)
    ⟨rfl, rfl, rfl, rfl, rfl⟩ progT_lex ⟨by decide⟩ (by decide) progT_plain (by decide) (by decide)
    (by decide) progT_ranked (fun _ => by omega) progT_wf lsT lsT_ok lsT_same (by decide)

end Gmars.AsmTail.Example
