/-
  C03 / C06, labels on the END line, compiler stage, programs with labels (no EQUs).

  A label in front of `end` (`last end first`) is recorded by the parser in the `labels` field of
  the END source line (`typ = pseudoOp`, `codeLine = 0`); `loadSymbols` gives it the value of its
  counter `curPseudoLine`, the number of instruction lines read so far.  With END as the last line
  that is the number of instructions `n` of the program: the label table of `compile()` is
  `labelsFrom 0 body ++ tail.map (·, n)`, exactly the table of `Spec.meaningFlatT`.

    * `compileFrom_lrender`          `compile_meaning_labels` for an ARBITRARY label table `S`
                                     (the proof of AsmLabels.lean with `labelsFrom 0 prog` replaced)
    * `symC_lrenderT`                `loadSymbols` on a program whose END line carries labels
    * **`compile_meaning_labels_tail`**
-/
import Gmars.Proofs.AsmTailBase

namespace Gmars.AsmLine
open Gmars.Compile Gmars.ExprProofs

/-! ## the compiler stage for an arbitrary label table -/

/-- the compiler state after `loadSymbols`, with label table `S` -/
def asmCLS (cfg : Config) (S : List (String × Nat)) (prog : List LItem) : Compiler :=
  { cfg := cfg, values := consts cfg, labels := S.map castL, startExpr := lstartToks prog }

theorem flatTail_litems (sc : Spec.Cfg) (prog : List LItem) (S : List (String × Nat)) (n : Nat)
    (hnd : (S.map (·.1) ++ constNames).Nodup) :
    flatTail sc (prog.map LItem.toItem) S n =
      (codeFold sc (tablesOf sc (prog.map LItem.toItem) S) (prog.map LItem.toItem) (some [], 0)).1.bind
        fun code =>
          if code.length > sc.maxLen then none
          else
            (Spec.evalAt sc (tablesOf sc (prog.map LItem.toItem) S) 0 (startNT prog).etoks).bind fun sv =>
              if sv < 0 || (sv ≥ n && sv != 0) then none
              else some { code := code, start := sv.toNat, name := "", author := "", strategy := "" } := by
  unfold flatTail
  simp only
  have hd : ((S.map (·.1) ++ (Spec.equsOf (prog.map LItem.toItem)).map (·.1) ++
      (Spec.predefined sc).map (·.1)).eraseDups.length !=
      (S.map (·.1) ++ (Spec.equsOf (prog.map LItem.toItem)).map (·.1) ++
      (Spec.predefined sc).map (·.1)).length) = false := by
    rw [lequsOf_items, predefined_names, List.map_nil, List.append_nil]
    have : (S.map (·.1) ++ ["CORESIZE", "MAXLENGTH", "MAXPROCESSES", "MINDISTANCE"]).eraseDups
        = S.map (·.1) ++ ["CORESIZE", "MAXLENGTH", "MAXPROCESSES", "MINDISTANCE"] :=
      eraseDups_of_nodup _ hnd
    rw [this]
    simp
  rw [hd]
  have he : ((tablesOf sc (prog.map LItem.toItem) S).equs.all
      (fun (_, e) => (Spec.expandEqus 64 (tablesOf sc (prog.map LItem.toItem) S).equs e).isSome))
        = true := by
    unfold tablesOf
    simp only [lequsOf_items, List.nil_append]
    rw [List.all_eq_true]
    intro x hx
    simp only [Spec.predefined, List.mem_cons, List.not_mem_nil, or_false] at hx
    rcases hx with rfl | rfl | rfl | rfl <;>
      (simp only; rw [expandEqus_noname _ _ (by intro t ht; simp at ht; subst ht; rfl) (by simp)]; rfl)
  rw [he, lassertsOk_items, lstartFold_items]
  simp only [lmetaOf_items, Bool.false_eq_true, if_false, Bool.not_true, List.getLast?_nil, Option.map_none,
    Option.getD_none, List.map_nil]
  rfl

theorem asmCLS_rel {cfg : Config} {sc : Spec.Cfg} (S : List (String × Nat)) (prog : List LItem)
    (hv : cfg.validate = true) (h63 : cfg.coreSize.toNat < 2 ^ 63) (hr : CfgRel cfg sc)
    (hS : ∀ p ∈ S, p.2 < 2 ^ 63) :
    TRel (asmCLS cfg S prog) sc (tablesOf sc (prog.map LItem.toItem) S) where
  crel :=
    { legacy := by rw [hr.legacy]; rfl
      m := by
        show mInt cfg.coreSize = _
        rw [mInt_of_lt h63, hr.M]
      pos := by rw [hr.M]; have := validate_ge3 hv; omega
      lt := by rw [hr.M]; exact h63 }
  labels := rfl
  small := hS
  vals := fun s hs => consts_get?_none cfg s hs
  equs := by
    intro s hs
    show (Spec.equsOf (prog.map LItem.toItem) ++ Spec.predefined sc).find? (·.1 == s) = none
    rw [lequsOf_items, List.nil_append]
    exact predefined_find?_none sc s hs

/-- the compiler stage after `loadSymbols`, for ANY label table `S` the state and the reference
    share: the answer is `flatTail` (the body of `Spec.meaningFlat` / `Spec.meaningFlatT` behind
    the label pass) for that table -/
theorem compileFrom_lrender (lexTokens : String → List Token) (cfg : Config) (sc : Spec.Cfg)
    (S : List (String × Nat)) (prog : List LItem) (ameta : AsmMeta)
    (hv : cfg.validate = true) (h63 : cfg.coreSize.toNat < 2 ^ 63) (hr : CfgRel cfg sc)
    (hnd : (S.map (·.1) ++ constNames).Nodup) (hS : ∀ p ∈ S, p.2 < 2 ^ 63)
    (hsmall : linstrCount prog < 2 ^ 63)
    (hw : ProgWF sc.M S 0 prog) :
    compileFrom lexTokens cfg ameta (asmCLS cfg S prog) (lrender 0 prog) =
      optM ((flatTail sc (prog.map LItem.toItem) S (linstrCount prog)).map (toWD ameta)) := by
  have hrel := asmCLS_rel S prog hv h63 hr hS
  unfold compileFrom
  have hvals : (asmCLS cfg S prog).values = consts cfg := rfl
  simp only [hvals, consts_acyclic, Bool.false_eq_true, if_false,
    evaluateAssertions_none lexTokens _ _ (lrender_not_comment prog 0), consts_expand]
  show (assembleLines (asmCLS cfg S prog) (lrender 0 prog) #[] >>= fun code =>
    finishX cfg ameta (asmCLS cfg S prog) code) = _
  rw [assembleLines_lrender hrel prog 0 #[] hw (by omega), flatTail_litems sc prog S _ hnd]
  simp only
  cases hcode : (codeFold sc (tablesOf sc (prog.map LItem.toItem) S)
      (prog.map LItem.toItem) (some [], 0)).1 with
  | none => rfl
  | some code =>
    have hlen := lcodeFold_length sc _ prog [] 0 code hcode
    simp only [List.length_nil, Nat.zero_add] at hlen
    simp only [Option.map_some, Option.bind_some]
    show finishX cfg ameta (asmCLS cfg S prog) code.toArray = _
    unfold finishX
    simp only [List.size_toArray, hr.maxLen]
    split
    · rfl
    · have hst : expandExpression (asmCLS cfg S prog) (asmCLS cfg S prog).startExpr 0 >>= evalM =
          optM (Spec.evalAt sc (tablesOf sc (prog.map LItem.toItem) S) 0
            (startNT prog).etoks) := by
        have := operandM_tmpl hrel 0 (by omega) (startNT prog) (startNT_good sc.M _ prog 0 hw)
        rw [← this]
        show operandM _ (lstartToks prog) 0 = _
        rw [lstartToks_eq]
        rfl
      rw [← bind_assoc, hst]
      cases Spec.evalAt sc (tablesOf sc (prog.map LItem.toItem) S) 0
          (startNT prog).etoks with
      | none => rfl
      | some sv =>
        simp only [optM, bind, Except.bind, Option.bind_some, hlen]
        split
        · rfl
        · rename_i hneg
          have h0 : 0 ≤ sv := by
            simp only [Bool.or_eq_true, decide_eq_true_eq, not_or] at hneg
            omega
          simp only [Option.map_some, toWD, Int.toNat_of_nonneg h0]

/-! ## programs whose END line carries labels -/

/-- the label table: the labels of the instructions, then the labels of the END line with the
    number of instructions -/
def tailLabels (body : List LItem) (tail : List String) : List (String × Nat) :=
  labelsFrom 0 body ++ tail.map (fun l => (l, linstrCount body))

/-- the END line as the parser records it: the labels in front of `end` are its `labels` -/
def endLineT (kw : String) (e : Option NT) (tail : List String) : SourceLine :=
  { (LItem.end_ kw e).toLine 0 with labels := tail }

/-- the source lines of `body`, then the line `tail… kw [e]` -/
def lrenderT (body : List LItem) (kw : String) (e : Option NT) (tail : List String) : List SourceLine :=
  lrender 0 body ++ [endLineT kw e tail]

theorem lrender_append (a b : List LItem) :
    ∀ k, lrender k (a ++ b) = lrender k a ++ lrender (k + linstrCount a) b := by
  induction a with
  | nil => intro k; simp [lrender, linstrCount]
  | cons it r ih =>
    intro k
    simp only [List.cons_append, lrender, ih]
    cases it with
    | instr ls op md a' b' =>
      simp only [LItem.isInstr, if_true, linstrCount, List.filter_cons, List.length_cons]
      congr 3; omega
    | org kw e => simp [LItem.isInstr, linstrCount]
    | end_ kw e => simp [LItem.isInstr, linstrCount]

theorem linstrCount_append (a b : List LItem) : linstrCount (a ++ b) = linstrCount a + linstrCount b := by
  simp [linstrCount]

theorem labelsFrom_append (a b : List LItem) :
    ∀ k, labelsFrom k (a ++ b) = labelsFrom k a ++ labelsFrom (k + linstrCount a) b := by
  induction a with
  | nil => intro k; simp [labelsFrom, linstrCount]
  | cons it r ih =>
    intro k
    cases it with
    | instr ls op md a' b' =>
      simp only [List.cons_append, labelsFrom, ih, linstrCount, List.filter_cons, LItem.isInstr, if_true,
        List.length_cons, List.append_assoc]
      congr 3; omega
    | org kw e => simp [labelsFrom, ih, LItem.isInstr, linstrCount]
    | end_ kw e => simp [labelsFrom, ih, LItem.isInstr, linstrCount]

theorem progWF_append (M : Nat) (S : List (String × Nat)) (a b : List LItem) :
    ∀ k, ProgWF M S k (a ++ b) ↔ ProgWF M S k a ∧ ProgWF M S (k + linstrCount a) b := by
  induction a with
  | nil => intro k; simp [ProgWF, linstrCount]
  | cons it r ih =>
    intro k
    simp only [List.cons_append, ProgWF, ih, and_assoc]
    cases it with
    | instr ls op md a' b' =>
      simp only [LItem.isInstr, if_true, linstrCount, List.filter_cons, List.length_cons]
      have : k + 1 + (List.filter LItem.isInstr r).length = k + ((List.filter LItem.isInstr r).length + 1) := by
        omega
      rw [this]
    | org kw e => simp [LItem.isInstr, linstrCount]
    | end_ kw e => simp [LItem.isInstr, linstrCount]

theorem lrender_instrLines (prog : List LItem) :
    ∀ k, ((lrender k prog).filter isInstrLine).length = linstrCount prog := by
  induction prog with
  | nil => intro k; rfl
  | cons it r ih =>
    intro k
    cases it with
    | instr ls op md a b =>
      simp only [lrender, List.filter_cons, LItem.isInstr, if_true, linstrCount, List.length_cons]
      have : isInstrLine ((LItem.instr ls op md a b).toLine k) = true := rfl
      rw [this, if_pos rfl, List.length_cons, ih]
      rfl
    | org kw e =>
      simp only [lrender, List.filter_cons, LItem.isInstr, Bool.false_eq_true, if_false, linstrCount]
      have : isInstrLine ((LItem.org kw e).toLine k) = false := rfl
      rw [this, if_neg (by simp), ih]
      rfl
    | end_ kw e =>
      simp only [lrender, List.filter_cons, LItem.isInstr, Bool.false_eq_true, if_false, linstrCount]
      have : isInstrLine ((LItem.end_ kw e).toLine k) = false := rfl
      rw [this, if_neg (by simp), ih]
      rfl

theorem lstartStep_endT (acc : List Token) (kw : String) (e : Option NT) (tail : List String) :
    (if ((endLineT kw e tail).a.getD []).length > 0 then (endLineT kw e tail).a.getD [] else acc) =
      lstartStep acc (LItem.end_ kw e) := by
  cases e with
  | none => rfl
  | some x =>
    have h0 : x.tokens ≠ [] := nt_tokens_ne_nil x
    have hlen : ((endLineT kw (some x) tail).a.getD []).length > 0 := by
      show (x.tokens).length > 0
      cases h : x.tokens with
      | nil => exact absurd h h0
      | cons _ _ => simp
    rw [if_pos hlen]
    rfl

/-- `loadSymbols` on a program whose END line carries labels: the END-line labels are appended to
    the label table with the number of instructions -/
theorem foldl_loadSymbolsLine_lrenderT (M : Nat) (S : List (String × Nat)) (body : List LItem)
    (kw : String) (e : Option NT) (tail : List String) (st : Compiler × Int) (hst : st.2 = 0)
    (hnd : (st.1.labels.map (·.1) ++ ((labelsFrom 0 body).map (·.1) ++ tail)).Nodup)
    (hsmall : linstrCount body < 2 ^ 63)
    (hkw : lowerStr kw = "end")
    (hw : ProgWF M S 0 body) :
    ((lrenderT body kw e tail).foldl loadSymbolsLine st).1 =
      { st.1 with labels := st.1.labels ++ (tailLabels body tail).map castL,
                  startExpr := (body ++ [LItem.end_ kw e]).foldl lstartStep st.1.startExpr } := by
  unfold lrenderT
  rw [List.foldl_append, List.foldl_cons, List.foldl_nil]
  have hnd0 : (st.1.labels.map (·.1) ++ (labelsFrom 0 body).map (·.1)).Nodup := by
    rw [← List.append_assoc] at hnd
    exact (List.nodup_append.1 hnd).1
  have h1 := foldl_loadSymbolsLine_lrender M S body 0 st hw hnd0
  have h2 := foldl_loadSymbolsLine_cur (lrender 0 body) st (by rw [hst]; exact Int.le_refl 0)
    (by rw [lrender_instrLines, hst]; omega)
  rw [lrender_instrLines, hst, Int.zero_add] at h2
  generalize (lrender 0 body).foldl loadSymbolsLine st = st' at h1 h2
  obtain ⟨c', cur'⟩ := st'
  simp only at h1 h2
  subst h1 h2
  rw [loadSymbolsLine_endT _ _ (endLineT kw e tail) rfl hkw]
  have hlab : (endLineT kw e tail).labels = tail := rfl
  simp only [hlab, lstartStep_endT]
  rw [set_fold]
  · simp only [tailLabels, List.foldl_append, List.foldl_cons, List.foldl_nil, List.map_append,
      List.map_map, List.append_assoc]
    rfl
  · simp only [List.map_append, List.map_map, List.append_assoc]
    exact hnd

theorem symC_lrenderT (cfg : Config) (M : Nat) (S : List (String × Nat)) (body : List LItem)
    (kw : String) (e : Option NT) (tail : List String)
    (hnd : ((labelsFrom 0 body).map (·.1) ++ tail).Nodup)
    (hsmall : linstrCount body < 2 ^ 63)
    (hkw : lowerStr kw = "end")
    (hw : ProgWF M S 0 body) :
    symC cfg (lrenderT body kw e tail) =
      asmCLS cfg (tailLabels body tail) (body ++ [LItem.end_ kw e]) := by
  unfold symC loadSymbols
  simp only
  rw [foldl_loadSymbolsLine_lrenderT M S body kw e tail _ rfl (by simpa [loadConstants] using hnd)
    hsmall hkw hw]
  rfl

theorem lrenderT_unl (body : List LItem) (kw : String) (e : Option NT) (tail : List String) :
    (lrenderT body kw e tail).map unl = (lrender 0 (body ++ [LItem.end_ kw e])).map unl := by
  unfold lrenderT
  rw [lrender_append]
  simp only [List.map_append, lrender, List.map_cons, List.map_nil]
  rfl

theorem labelsFrom_tail_lt (body : List LItem) (tail : List String) :
    ∀ p ∈ tailLabels body tail, p.2 ≤ linstrCount body := by
  intro p hp
  unfold tailLabels at hp
  rcases List.mem_append.1 hp with hp | hp
  · have := labelsFrom_lt body 0 p hp
    omega
  · obtain ⟨l, _, rfl⟩ := List.mem_map.1 hp
    exact Nat.le_refl _

theorem meaningFlatT_litems (sc : Spec.Cfg) (body : List LItem) (kw : String) (e : Option NT)
    (tail : List String) :
    Spec.meaningFlatT sc ((body ++ [LItem.end_ kw e]).map LItem.toItem) tail =
      flatTail sc ((body ++ [LItem.end_ kw e]).map LItem.toItem) (tailLabels body tail)
        (linstrCount (body ++ [LItem.end_ kw e])) := by
  rw [meaningFlatT_eq, llabelFold_items]
  simp only [labelsFrom_append, linstrCount_append]
  simp [tailLabels, labelsFrom, linstrCount, LItem.isInstr]

theorem compileX_meaning_labels_tail (lexTokens : String → List Token) (cfg : Config) (sc : Spec.Cfg)
    (body : List LItem) (kw : String) (e : Option NT) (tail : List String) (ameta : AsmMeta)
    (hv : cfg.validate = true) (h63 : cfg.coreSize.toNat < 2 ^ 63) (hr : CfgRel cfg sc)
    (hnd : ((labelsFrom 0 body).map (·.1) ++ tail ++ constNames).Nodup)
    (hsmall : linstrCount body < 2 ^ 63)
    (hw : ProgWF sc.M (tailLabels body tail) 0 (body ++ [LItem.end_ kw e])) :
    compileX lexTokens cfg (lrenderT body kw e tail) ameta =
      optM ((Spec.meaningFlatT sc ((body ++ [LItem.end_ kw e]).map LItem.toItem) tail).map (toWD ameta)) := by
  have hwb := (progWF_append sc.M _ body [LItem.end_ kw e] 0).1 hw
  have hkw : lowerStr kw = "end" := hwb.2.1.1
  have hnd1 : ((labelsFrom 0 body).map (·.1) ++ tail).Nodup := (List.nodup_append.1 hnd).1
  have hS : ((tailLabels body tail).map (·.1) ++ constNames).Nodup := by
    unfold tailLabels
    rw [List.map_append, List.map_map]
    have : ((fun x : String × Nat => x.1) ∘ fun l => (l, linstrCount body)) = id := rfl
    rw [this, List.map_id]
    exact hnd
  have hcnt : linstrCount (body ++ [LItem.end_ kw e]) = linstrCount body := by
    simp [linstrCount, LItem.isInstr]
  rw [compileX_from _ _ _ _ hv, symC_lrenderT cfg sc.M _ body kw e tail hnd1 hsmall hkw hwb.1,
    compileFrom_unl _ _ _ _ _ _ (lrenderT_unl body kw e tail),
    compileFrom_lrender lexTokens cfg sc _ _ ameta hv h63 hr hS
      (fun p hp => by have := labelsFrom_tail_lt body tail p hp; omega) (by rw [hcnt]; exact hsmall) hw,
    meaningFlatT_litems]

/-- **`compile_meaning_labels_tail`** — `compile_meaning_labels` for programs whose last line is
    `l1 l2 … END [e]`.  `body` is a label program (`LItem`s), `kw`/`e` the keyword and the optional
    argument of the END line, `tail` the labels written in front of it; `lrenderT` are the parser's
    source lines (the END line has `labels := tail`).  The labels of `tail` stand for the address
    just after the code, `linstrCount body`, in every operand and in ORG / END arguments
    (`tailLabels`).

    Hypotheses as in `compile_meaning_labels`, with the END-line labels among the names that must
    be distinct (from each other, from the instruction labels and from the predefined constants),
    and `ProgWF` for the longer label table. -/
theorem compile_meaning_labels_tail (lexTokens : String → List Token) (cfg : Config) (sc : Spec.Cfg)
    (body : List LItem) (kw : String) (e : Option NT) (tail : List String) (ameta : AsmMeta)
    (hv : cfg.validate = true) (h63 : cfg.coreSize.toNat < 2 ^ 63) (hr : CfgRel cfg sc)
    (hnd : ((labelsFrom 0 body).map (·.1) ++ tail ++ constNames).Nodup)
    (hsmall : linstrCount body < 2 ^ 63)
    (hw : ProgWF sc.M (tailLabels body tail) 0 (body ++ [LItem.end_ kw e])) :
    compile lexTokens cfg (lrenderT body kw e tail) ameta =
      .ok ((Spec.meaningFlatT sc ((body ++ [LItem.end_ kw e]).map LItem.toItem) tail).map (toWD ameta)) := by
  unfold compile
  rw [compileX_meaning_labels_tail lexTokens cfg sc body kw e tail ameta hv h63 hr hnd hsmall hw]
  cases (Spec.meaningFlatT sc ((body ++ [LItem.end_ kw e]).map LItem.toItem) tail).map (toWD ameta) <;> rfl

theorem compile_meaning_labels_tail_modelled (lexTokens : String → List Token) (cfg : Config)
    (sc : Spec.Cfg) (body : List LItem) (kw : String) (e : Option NT) (tail : List String)
    (ameta : AsmMeta)
    (hv : cfg.validate = true) (h63 : cfg.coreSize.toNat < 2 ^ 63) (hr : CfgRel cfg sc)
    (hnd : ((labelsFrom 0 body).map (·.1) ++ tail ++ constNames).Nodup)
    (hsmall : linstrCount body < 2 ^ 63)
    (hw : ProgWF sc.M (tailLabels body tail) 0 (body ++ [LItem.end_ kw e])) :
    compileUnmodelled lexTokens cfg (lrenderT body kw e tail) ameta = false := by
  unfold compileUnmodelled
  rw [compileX_meaning_labels_tail lexTokens cfg sc body kw e tail ameta hv h63 hr hnd hsmall hw]
  cases (Spec.meaningFlatT sc ((body ++ [LItem.end_ kw e]).map LItem.toItem) tail).map (toWD ameta) <;> rfl

end Gmars.AsmLine
