/-
  C03 / C06, labels on the END line, parser and pre-scan stage.

  The last line read is `l1 l2 … kw [toks]` (labels WITHOUT colon in front of `end`).  The parser
  enters the labels into its symbol table like any label, records them in the `labels` field of
  the END source line (`endLineP`: `typ = pseudoOp`, `codeLine = 0`) and stops; the pre-scan of the
  FOR pass loop skips the labels and stops at `end`.

    * `reach_labels_pseudo`, `run_endT`
    * `TPProg`, `TPProg.tokens`, `TPProg.lines`, `TPProg.OK`
    * `parse_tpprog`, `scan_tpprog`, `assemble_stages_tpprog`
-/
import Gmars.Proofs.AsmComposeEquScan

namespace Gmars
namespace AsmTail
open Gmars.Parser Gmars.Render Gmars.AsmCompose Gmars.AsmComposeEqu Gmars.ForPass Gmars.Scan

/-- the label tokens in front of `end` -/
def tailTokens (tail : List String) : List Token := tail.map (fun l => (⟨.text, l⟩ : Token))

/-- labels (no colons), then a pseudo-op keyword: `parseLabels` hands over to `parsePseudoOp` -/
theorem reach_labels_pseudo (kw : String) (hp : (⟨.text, kw⟩ : Token).isPseudoOp = true)
    (rest' : List Token) :
    ∀ (ls : List String) (c : Ctx) (t0 : Token) (rest0 : List Token),
      (∀ l ∈ ls, IsLabelName l) → FreshLabels ls c.symbols →
      t0 :: rest0 = tailTokens ls ++ ⟨.text, kw⟩ :: rest' →
      ReachLe (ls.length + 1) .labels (c.st t0 rest0) .pseudoOp
        (({ c with symbols := ls.reverse ++ c.symbols,
                   cur := { c.cur with labels := c.cur.labels ++ ls } } : Ctx).st
          ⟨.text, kw⟩ rest') := by
  intro ls
  induction ls with
  | nil =>
    intro c t0 rest0 _ _ h
    simp [tailTokens] at h; obtain ⟨rfl, rfl⟩ := h
    simpa using ReachLe.one (step_labels_pseudo c kw hp _)
  | cons l ls ih =>
    intro c t0 rest0 hl hf h
    have hl0 : IsLabelName l := hl l (by simp)
    have hls : ∀ x ∈ ls, IsLabelName x := fun x hx => hl x (by simp [hx])
    simp only [FreshLabels] at hf
    obtain ⟨hs, hf⟩ := hf
    simp [tailTokens] at h; obtain ⟨rfl, rfl⟩ := h
    obtain ⟨t1, rest1, h1⟩ : ∃ t1 rest1,
        tailTokens ls ++ (⟨.text, kw⟩ : Token) :: rest' = t1 :: rest1 := by
      cases hlt : tailTokens ls <;> simp
    have h1' : List.map (fun l => (⟨.text, l⟩ : Token)) ls ++ (⟨.text, kw⟩ : Token) :: rest' =
        t1 :: rest1 := h1
    rw [h1']
    have := (ReachLe.one (step_labels_label c l hl0 hs t1 rest1)).trans
      (ih _ t1 rest1 hls hf h1.symm)
    refine ReachLe.mono (by simpa using this) (by simp; omega)

/-- the END line `tail… kw [toks]` as the parser records it -/
def endLineP (ln : Int) (kw : String) (toks : List Token) (tail : List String) : SourceLine :=
  { endLine ln kw toks with labels := tail }

/-- from the start of an END line with labels the parser runs to its end -/
theorem run_endT (kw : String) (hk : lowerStr kw = "end") (toks : List Token)
    (hts : ∀ t ∈ toks, t.isExpressionTerm = true) (tail : List String)
    (hl : ∀ l ∈ tail, IsLabelName l) (c : Ctx) (hf : FreshLabels tail c.symbols)
    (t'' : Token) (rest'' : List Token) (t0 : Token) (rest0 : List Token)
    (h : t0 :: rest0 = tailTokens tail ++ (⟨.text, kw⟩ : Token) :: (toks ++ nlTok :: t'' :: rest''))
    (fuel : Nat) :
    run (fuel + (tail.length + 5)) .line (c.st t0 rest0) =
      .ok (withEnd (Ctx.st
            { line := c.line + 1, codeLine := c.codeLine, cur := endLineP c.line kw toks tail,
              metadata := c.metadata,
              lines := c.lines ++ [endLineP c.line kw toks tail],
              symbols := tail.reverse ++ c.symbols, references := addRefs toks c.references }
            t'' rest'')) := by
  have hpo := isPseudoOp_of_lower hk (Or.inr rfl)
  -- the first token is a text token
  obtain ⟨v, hv⟩ : ∃ v, t0 = (⟨.text, v⟩ : Token) := by
    cases tail with
    | nil => simp [tailTokens] at h; exact ⟨kw, h.1⟩
    | cons l r => simp [tailTokens] at h; exact ⟨l, h.1⟩
  subst hv
  have r1 := (ReachLe.one (step_line_text c v rest0)).trans
    (reach_labels_pseudo kw hpo _ tail ({ c with cur := { line := c.line } } : Ctx) _ rest0 hl hf h)
  refine r1.finish_run (m := 3) ?_ (by omega)
  intro fuel
  cases toks with
  | nil =>
    simp only [List.nil_append]
    rw [run_some (step_pseudoOp_end_bare _ kw hk t'' rest''), run_none (step_line_end _ rfl)]
    simp [endLineP, endLine, addRefs]
  | cons t1 ts1 =>
    rw [List.cons_append, run_some (step_pseudoOp_end_expr _ kw hk t1 (hts t1 (by simp)) _),
      run_some (step_pseudoExpr_newline_end _ (t1 :: ts1) hts t'' rest'' t1 _ (by simp)),
      run_none (step_line_end _ rfl)]
    simp [endLineP, endLine]

/-! ### programs -/

/-- `lead` blank lines, the items, the END line `tail… kw [toks]` followed, after its newline, by
    `trail` (not empty: at least the EOF token; never read) -/
structure TPProg where
  lead : Nat := 0
  items : List PItem
  tail : List String
  kw : String
  toks : List Token
  trail : List Token := [eofTok]

def TPProg.finTokens (p : TPProg) : List Token :=
  tailTokens p.tail ++ (⟨.text, p.kw⟩ : Token) :: (p.toks ++ nlTok :: p.trail)

/-- token rendering of the program -/
def TPProg.tokens (p : TPProg) : List Token :=
  List.replicate p.lead nlTok ++ (pitemsTokens p.items ++ p.finTokens)

/-- the names the parser enters into its symbol table: labels, EQU names, END-line labels -/
def TPProg.labels (p : TPProg) : List String := pitemsLabels p.items ++ p.tail

/-- the source lines the program denotes -/
def TPProg.lines (p : TPProg) : List SourceLine :=
  blankLines 1 p.lead ++ (pitemsLines p.items (1 + p.lead) 0 ++
    [endLineP (pitemsEndLine p.items (1 + p.lead)) p.kw p.toks p.tail])

def TPProg.metadata (p : TPProg) : AsmMeta := pitemsMeta p.items {}

def TPProg.refs (p : TPProg) : List String := addRefs p.toks (pitemsRefs p.items [])

structure TPProg.OK (p : TPProg) : Prop where
  items : ∀ it ∈ p.items, it.OK
  tail : ∀ l ∈ p.tail, IsLabelName l
  nodup : p.labels.Nodup
  notPredefined : ∀ l ∈ p.labels, l ∉ predefined
  /-- every name referred to is a label, an EQU name or an END-line label, or predefined -/
  defined : ∀ x ∈ p.refs, x ∈ p.labels ∨ x ∈ predefined
  kw : lowerStr p.kw = "end"
  toks : ∀ t ∈ p.toks, t.isExpressionTerm = true
  trail : p.trail ≠ []

theorem tailTokens_head (tail : List String) (kw : String) (r : List Token) :
    ∃ tf restf, tailTokens tail ++ (⟨.text, kw⟩ : Token) :: r = tf :: restf ∧ tf.typ = .text := by
  cases tail with
  | nil => exact ⟨_, _, rfl, rfl⟩
  | cons l ls => exact ⟨_, _, rfl, rfl⟩

/-- **the parser on programs whose END line carries labels** -/
theorem parse_tpprog (p : TPProg) (hp : p.OK) :
    parse p.tokens = .ok (some (p.lines, p.metadata)) := by
  obtain ⟨lead, items, tail, kw, toks, trail⟩ := p
  have hfresh0 : FreshLabels (pitemsLabels items ++ tail) predefined :=
    (FreshLabels_iff _ _).mpr ⟨hp.nodup, hp.notPredefined⟩
  obtain ⟨hfresh, hfreshT⟩ := (FreshLabels_append _ _ _).1 hfresh0
  obtain ⟨tf, restf, hfin, htft⟩ := tailTokens_head tail kw (toks ++ nlTok :: trail)
  have htf : (tf.typ == TokType.newline) = false := by rw [htft]; rfl
  have hfin' : TPProg.finTokens ⟨lead, items, tail, kw, toks, trail⟩ = tf :: restf := hfin
  obtain ⟨t1, rest1, h1, ht1⟩ : ∃ t1 rest1, t1 :: rest1 = pitemsTokens items ++ tf :: restf ∧
      (t1.typ == TokType.newline) = false := by
    cases items with
    | nil => exact ⟨tf, restf, by simp [pitemsTokens], htf⟩
    | cons it' items' =>
      obtain ⟨t1, rest1, e, ht1⟩ := pitem_tokens_head it' (pitemsTokens items' ++ tf :: restf)
      exact ⟨t1, rest1, by simp only [pitemsTokens, List.append_assoc]; exact e.symm, ht1⟩
  obtain ⟨t0, rest0, h0⟩ : ∃ t0 rest0, t0 :: rest0 = List.replicate lead nlTok ++ t1 :: rest1 := by
    cases lead <;> simp [List.replicate_succ]
  have htoks : TPProg.tokens ⟨lead, items, tail, kw, toks, trail⟩ = t0 :: rest0 := by
    simp only [TPProg.tokens]; rw [hfin', h0, h1]
  obtain ⟨cur1, r1⟩ := reach_blanks ({} : Ctx) lead t1 ht1 rest1 t0 rest0 h0
  obtain ⟨cur2, r2⟩ := reach_pitems tf htf restf items
    ({ line := (1 : Int) + lead, cur := cur1, lines := [] ++ blankLines 1 lead } : Ctx)
    t1 rest1 hp.items hfresh h1
  have r12 := r1.trans r2
  have hlen : (TPProg.tokens ⟨lead, items, tail, kw, toks, trail⟩).length =
      lead + ((pitemsTokens items).length + (restf.length + 1)) := by
    simp [TPProg.tokens, hfin']
  obtain ⟨t'', rest'', rfl⟩ : ∃ t'' rest'', trail = t'' :: rest'' := by
    cases trail with
    | nil => exact absurd rfl hp.trail
    | cons a b => exact ⟨a, b, rfl⟩
  have hend := run_endT kw hp.kw toks hp.toks tail hp.tail
      ({ line := pitemsEndLine items ((1 : Int) + lead),
          codeLine := pitemsEndCode items 0, cur := cur2,
          metadata := pitemsMeta items {},
          lines := [] ++ blankLines 1 lead ++ pitemsLines items ((1 : Int) + lead) 0,
          symbols := (pitemsLabels items).reverse ++ predefined,
          references := pitemsRefs items [] } : Ctx) hfreshT t'' rest'' tf restf hfin.symm
  have hlen' : restf.length + 1 = tail.length + 1 + (toks.length + (rest''.length + 2)) := by
    have := congrArg List.length hfin
    simp [tailTokens] at this
    omega
  have hrun := r12.finish_run hend
    (fuel := runFuel (TPProg.tokens ⟨lead, items, tail, kw, toks, t'' :: rest''⟩))
    (by simp only [runFuel, hlen]; omega)
  simp only [parse, htoks, newParser_cons]
  rw [← htoks, hrun]
  have hv : symbolsValid (withEnd (Ctx.st
      { line := pitemsEndLine items ((1 : Int) + lead) + 1,
        codeLine := pitemsEndCode items 0,
        cur := endLineP (pitemsEndLine items ((1 : Int) + lead)) kw toks tail,
        metadata := pitemsMeta items {},
        lines := ([] ++ blankLines 1 lead ++ pitemsLines items ((1 : Int) + lead) 0) ++
            [endLineP (pitemsEndLine items ((1 : Int) + lead)) kw toks tail],
        symbols := tail.reverse ++ ((pitemsLabels items).reverse ++ predefined),
        references := addRefs toks (pitemsRefs items []) } t'' rest'')) = true := by
    apply symbolsValid_of (refs := addRefs toks (pitemsRefs items []))
      (syms := tail.reverse ++ ((pitemsLabels items).reverse ++ predefined))
    · intro x hx
      rcases hp.defined x hx with h | h
      · simp [TPProg.labels] at h
        rcases h with h | h
        · simp [h]
        · simp [h]
      · simp [h]
    · rfl
    · rfl
  have hv' := hv
  simp only [predefined] at hv'
  simp [bind, Except.bind, pure, Except.pure, Ctx.st, withEnd, TPProg.lines, TPProg.metadata] at hv' ⊢
  exact hv'

/-! ### the pre-scan -/

theorem isLabelTok_tailTokens (tail : List String) (hl : ∀ l ∈ tail, IsLabelName l) :
    ∀ x ∈ tailTokens tail, isLabelTok x = true := by
  intro x hx
  simp only [tailTokens, List.mem_map] at hx
  obtain ⟨l, hlm, rfl⟩ := hx
  exact isLabelTok_of_name (hl l hlm)

/-- **the pre-scan**: the labels in front of `end` are skipped, the scanner stops at `end` -/
theorem scan_tpprog (p : TPProg) (hp : p.OK) :
    scanInput p.tokens = .ok (some (pitemsEqus p.items, false)) := by
  have hnd : ((pitemsEqus p.items).map (·.1)).Nodup :=
    (pitemsEqus_sublist p.items).nodup (List.nodup_append.1 hp.nodup).1
  have hfinal : runScan p.finTokens (pitemsEqus p.items) = stop (pitemsEqus p.items) := by
    unfold TPProg.finTokens
    exact runScan_endLine (tailTokens p.tail) (⟨.text, p.kw⟩ : Token) _ _
      (isLabelTok_tailTokens p.tail hp.tail) rfl hp.kw
  have hrun : runScan p.tokens [] = stop (pitemsEqus p.items) := by
    unfold TPProg.tokens
    rw [runScan_nls, runScan_pitems _ p.items [] hp.items (by simpa using hnd), List.nil_append, hfinal]
  obtain ⟨t, r, htr⟩ : ∃ t r, p.tokens = t :: r := by
    cases h : p.tokens with
    | nil =>
      have := congrArg List.length h
      unfold TPProg.tokens TPProg.finTokens at this
      simp at this
    | cons t r => exact ⟨t, r, rfl⟩
  rw [htr, scanInput_eq_runScan, ← htr, hrun]
  rfl

/-- **`assemble` in stages**: when the lexer's token stream is that of a well-formed program whose
    END line carries labels, `CompileWarrior` is the parser followed by the compiler stage on it -/
theorem assemble_stages_tpprog (cfg : Config) (src : List UInt8) (p : TPProg) (hp : p.OK)
    (hsrc : lexBytes src = p.tokens) :
    assemble cfg src = parseCompile cfg p.tokens := by
  unfold assemble parseCompile
  simp only
  rw [hsrc, forLoop_done 13 0 _ _ (scan_tpprog p hp)]
  rfl

end AsmTail
end Gmars
