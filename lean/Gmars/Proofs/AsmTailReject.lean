/-
  C03 / C06, labels on the END line, from bytes: a program of `0 < n < M` instructions whose entry
  point expression (the last ORG, or the END argument) is a bare label of its END line is rejected
  by `CompileWarrior` (`assemble = .err`).  For `n = M` it is accepted with entry point 0, see
  `AsmLine.meaningFlatT_end_tail_full` in AsmTailCor.lean.
-/
import Gmars.Proofs.AsmTailCompose
import Gmars.Proofs.AsmTailCor

namespace Gmars
namespace AsmTail
open Gmars.Render Gmars.AsmLine Gmars.ExprProofs Gmars.AsmCompose Gmars.AsmComposeEqu

/-- **`org last` / `end last` with `last` on the END line: rejected, from bytes**, when
    `0 < n < M` (`n` the number of instructions; `M ≤ 2^31` so that the reference evaluator does
    not overflow on `n`) -/
theorem assemble_start_tail_rejected (cfg : Config) (sc : Spec.Cfg) (p : TProg) (d : String → Nat)
    (last : String)
    (hv : cfg.validate = true) (h63 : cfg.coreSize.toNat < 2 ^ 63) (hr : CfgRel cfg sc)
    (hlex : p.LexOK) (hnames : p.base.NamesOK) (htn : ∀ l ∈ p.tail, IsLabelName l)
    (hplain : ∀ cs k, EItem.comment cs k ∈ p.items → plainComment cs)
    (hnd : (p.labels ++ p.tail ++ p.equNames ++ constNames).Nodup)
    (hcl : ∀ x ∈ p.names, x ∈ p.labels ∨ x ∈ p.tail ∨ x ∈ p.equNames ∨ x ∈ constNames)
    (hsmall : xinstrCount p.body < 2 ^ 63)
    (hrk : ERanked (xequs p.body ++ Spec.predefined sc) d) (hlt : ∀ s, d s < 63)
    (hw : XProgWF lexString sc (xtablesT sc p.body p.kw p.e p.tail) 0 p.xitems)
    (ls : List SrcLine) (hls : ∀ l ∈ ls, l.ok (some '\n') = true) (hsame : SameLines ls p.srcLines)
    (src : List UInt8) (hsrc : decodeRunes src = renderLines ls)
    (hl : last ∈ p.tail) (hstart : xstart p.xitems = [.name last])
    (hn : 0 < xinstrCount p.body) (hnM : xinstrCount p.body < sc.M) (h31 : sc.M ≤ 2 ^ 31) :
    assemble cfg src = .err := by
  rw [assemble_meaning_equ_tail cfg sc p d hv h63 hr hlex hnames htn hplain hnd hcl hsmall hrk hlt hw
    ls hls hsame src hsrc]
  have := meaningFlatT_start_tail sc p.body p.kw p.e p.tail last hnd hl hstart hn hnM h31
  unfold TProg.xitems
  rw [this]

end AsmTail
end Gmars
