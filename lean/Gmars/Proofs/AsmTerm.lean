/-
  C05 "assembling any input terminates cleanly": faults (panic / endless loop) are unreachable
  from real input, for the whole assembler `assemble : Config → List UInt8 → AsmRes`.

    lexBytes_terminated   (AsmTermBase)    the lexer's output ends with its only tokEOF/tokError
    scan_no_fault         (AsmTermScan)    symbol scanner on a terminated stream
    expand_no_fault, expand_terminated (AsmTermExpand)   FOR expander
    parse_no_fault        (AsmTermParse)   parser
    Compile.compile_no_fault'  (CompileWF) compiler stage
    assemble_no_fault, assemble_err_xor, passes_bounded   (here)
-/
import Gmars.Model.Assemble
import Gmars.Proofs.AsmTermBase
import Gmars.Proofs.AsmTermScan
import Gmars.Proofs.AsmTermExpand
import Gmars.Proofs.AsmTermParse
import Gmars.Proofs.CompileWF

namespace Gmars

/-- `evaluateAssertion`'s lexer call never returns an empty token list -/
theorem lexString_ne_nil (s : String) : lexString s ≠ [] :=
  (lexTokens_terminated s.toList).ne_nil

/-! ### the scan / expand loop -/

/-- On a terminated stream the pass loop never faults, and what it hands to the parser is a
    terminated stream again. `depth ≤ 12` and `13 ≤ fuel + depth` hold for `forLoop 14 0`. -/
theorem forLoop_good : ∀ (fuel depth : Nat) (ts : List Token), Terminated ts → depth ≤ 12 →
    13 ≤ fuel + depth →
    (∀ f, forLoop fuel depth ts ≠ .error (.fault f)) ∧
    (∀ ts', forLoop fuel depth ts = .ok ts' → Terminated ts') := by
  intro fuel
  induction fuel with
  | zero => intro depth ts _ h1 h2; omega
  | succ fuel ih =>
    intro depth ts hts hd hf
    unfold forLoop
    split
    · rename_i f hscan
      exact absurd hscan (scan_no_fault hts f)
    · exact ⟨fun f h => (by cases h), fun ts' h => (by cases h)⟩
    · rename_i symbols forSeen hscan
      split
      · exact ⟨fun f h => (by cases h), fun ts' h => (by cases h; exact hts)⟩
      · rename_i hfs
        have hfs : forSeen = true := by simpa using hfs
        subst hfs
        split
        · rename_i f hexp
          exact absurd hexp (expand_no_fault hts (scanInput_forSeen hscan) f)
        · exact ⟨fun f h => (by cases h), fun ts' h => (by cases h)⟩
        · exact ⟨fun f h => (by cases h), fun ts' h => (by cases h)⟩
        · rename_i expanded hexp
          split
          · exact ⟨fun f h => (by cases h), fun ts' h => (by cases h)⟩
          · exact ih (depth + 1) expanded (expand_terminated hexp) (by omega) (by omega)

/-- `forLoop`'s fuel counts passes (one symbol scan + one expansion each); 13 of them always
    suffice: at depth 12 the loop stops with "too many passes" instead of going round again. So
    the result does not depend on the fuel once `13 ≤ fuel + depth`, for ANY token list. -/
theorem forLoop_fuel : ∀ (fuel depth : Nat) (ts : List Token), depth ≤ 12 → 13 ≤ fuel + depth →
    forLoop fuel depth ts = forLoop (13 - depth) depth ts := by
  intro fuel
  induction fuel with
  | zero => intro depth ts h1 h2; omega
  | succ fuel ih =>
    intro depth ts hd hf
    rw [show 13 - depth = (12 - depth) + 1 by omega]
    unfold forLoop
    split
    · rfl
    · rfl
    · split
      · rfl
      · split
        · rfl
        · rfl
        · rfl
        · split
          · rfl
          · rename_i hle
            rw [ih (depth + 1) _ (by omega) (by omega)]
            rw [show 13 - (depth + 1) = 12 - depth by omega]

/-- `CompileWarrior` performs at most 13 scan/expand passes: more fuel than 13 changes nothing,
    in particular the 14 of `assemble` is never used up -/
theorem passes_bounded (ts : List Token) (fuel : Nat) (h : 13 ≤ fuel) :
    forLoop fuel 0 ts = forLoop 13 0 ts :=
  forLoop_fuel fuel 0 ts (by omega) (by omega)

/-! ### the whole assembler -/

/-- for every byte string and every configuration the assembler returns: no panic, no endless
    loop, no blocked `Tokens()` -/
theorem assemble_no_fault (cfg : Config) (src : List UInt8) (f : Fault) :
    assemble cfg src ≠ .fault f := by
  have hlex := lexBytes_terminated src
  obtain ⟨hloop, hout⟩ := forLoop_good 14 0 (lexBytes src) hlex (by omega) (by omega)
  unfold assemble
  dsimp only
  split
  · rename_i r hr
    intro h; subst h
    exact hloop f hr
  · rename_i tokens hr
    have ht := hout tokens hr
    split
    · rename_i f' hp
      exact absurd hp (parse_no_fault ht f')
    · intro h; cases h
    · split
      · intro h; cases h
      · split
        · rename_i f' hc
          exact absurd hc (Compile.compile_no_fault' lexString_ne_nil f')
        · intro h; cases h
        · intro h; cases h

/-- the assembler answers with exactly one of: a warrior, an error, "outside the modelled subset" -/
theorem assemble_err_xor (cfg : Config) (src : List UInt8) :
    ((∃ w, assemble cfg src = .ok w) ∧ assemble cfg src ≠ .err ∧ assemble cfg src ≠ .unmodelled) ∨
    ((∀ w, assemble cfg src ≠ .ok w) ∧ assemble cfg src = .err ∧ assemble cfg src ≠ .unmodelled) ∨
    ((∀ w, assemble cfg src ≠ .ok w) ∧ assemble cfg src ≠ .err ∧ assemble cfg src = .unmodelled) := by
  cases h : assemble cfg src with
  | ok w => exact Or.inl ⟨⟨w, rfl⟩, by simp, by simp⟩
  | err => exact Or.inr (Or.inl ⟨by simp, rfl, by simp⟩)
  | unmodelled => exact Or.inr (Or.inr ⟨by simp, by simp, rfl⟩)
  | fault f => exact absurd h (assemble_no_fault cfg src f)

end Gmars
