/-
  C05, shared part: token streams that end with exactly one terminating token.

  `Terminated ts`: `ts = pre ++ [t]`, `t` is tokEOF / tokError, no token of `pre` is.
  `termB cur rest`: the same for the non-empty stream `cur :: rest`, as a Bool that computes by
  recursion on `rest` (the shape in which the state machines of symbol scanner, FOR expander and
  parser hold their input: look-ahead + unread tokens).
-/
import Gmars.Model.Lex
import Gmars.Model.ForExpand

namespace Gmars

/-- the stream ends with its only terminating token (tokEOF / tokError) -/
def Terminated (ts : List Token) : Prop :=
  ∃ pre t, ts = pre ++ [t] ∧ t.isTerm = true ∧ ∀ x ∈ pre, x.isTerm = false

/-- `Lex.isTerminator` and `Token.isTerm` are the same test -/
theorem isTerminator_eq_isTerm (t : Token) : Lex.isTerminator t = t.isTerm := rfl

/-- `cur :: rest` ends with its only terminating token -/
def termB : Token → List Token → Bool
  | t, [] => t.isTerm
  | t, u :: r => !t.isTerm && termB u r

@[simp] theorem termB_nil (t : Token) : termB t [] = t.isTerm := rfl
@[simp] theorem termB_cons (t u : Token) (r : List Token) :
    termB t (u :: r) = (!t.isTerm && termB u r) := rfl

theorem termB_of_terminated : ∀ {t : Token} {r : List Token}, Terminated (t :: r) → termB t r = true := by
  intro t r
  induction r generalizing t with
  | nil =>
    rintro ⟨pre, x, h, hx, hp⟩
    cases pre with
    | nil => simp at h; subst h; simpa using hx
    | cons a as =>
      simp at h
  | cons u r ih =>
    rintro ⟨pre, x, h, hx, hp⟩
    cases pre with
    | nil => simp at h
    | cons a as =>
      simp at h
      obtain ⟨rfl, h2⟩ := h
      have ha : t.isTerm = false := hp t (by simp)
      have : termB u r = true := ih ⟨as, x, h2, hx, fun y hy => hp y (by simp [hy])⟩
      simp [ha, this]

theorem terminated_of_termB : ∀ {t : Token} {r : List Token}, termB t r = true → Terminated (t :: r) := by
  intro t r
  induction r generalizing t with
  | nil => intro h; exact ⟨[], t, rfl, by simpa using h, by simp⟩
  | cons u r ih =>
    intro h
    simp at h
    obtain ⟨pre, x, hl, hx, hp⟩ := ih h.2
    refine ⟨t :: pre, x, by rw [hl]; rfl, hx, ?_⟩
    intro y hy
    rcases List.mem_cons.mp hy with rfl | hy
    · exact h.1
    · exact hp y hy

theorem terminated_cons_iff {t : Token} {r : List Token} : Terminated (t :: r) ↔ termB t r = true :=
  ⟨termB_of_terminated, terminated_of_termB⟩

theorem Terminated.ne_nil {ts : List Token} (h : Terminated ts) : ts ≠ [] := by
  obtain ⟨pre, t, rfl, _, _⟩ := h
  simp

/-- a terminated stream, as look-ahead and rest -/
theorem Terminated.cases {ts : List Token} (h : Terminated ts) :
    ∃ t r, ts = t :: r ∧ termB t r = true := by
  cases ts with
  | nil => exact absurd rfl h.ne_nil
  | cons t r => exact ⟨t, r, rfl, termB_of_terminated h⟩

/-- a live look-ahead is followed by at least one more token -/
theorem termB_live {t : Token} {rest : List Token} (h : termB t rest = true) (ht : t.isTerm = false) :
    ∃ u r, rest = u :: r ∧ termB u r = true := by
  cases rest with
  | nil => simp [ht] at h
  | cons u r => exact ⟨u, r, rfl, by simpa [ht] using h⟩

/-- a terminating look-ahead is the last token -/
theorem termB_last {t : Token} {rest : List Token} (h : termB t rest = true) (ht : t.isTerm = true) :
    rest = [] := by
  cases rest with
  | nil => rfl
  | cons u r => simp [ht] at h

theorem isTerm_iff (t : Token) : t.isTerm = true ↔ (t.typ = .eof ∨ t.typ = .error) := by
  simp [Token.isTerm]

theorem isTerm_false_iff (t : Token) : t.isTerm = false ↔ (t.typ ≠ .eof ∧ t.typ ≠ .error) := by
  simp [Token.isTerm]

/-! ### part 1: the lexer's output is terminated -/

theorem terminated_of_endsOnce {l : List Token} (h : Lex.endsOnce l = true) : Terminated l :=
  Lex.endsOnce_split h

theorem lexTokens_terminated (input : List Char) : Terminated (Lex.tokens input) := by
  rw [Lex.tokens_eq_sends]; exact Lex.sends_shape input

/-- for every byte string (invalid UTF-8, NUL, ^Z, ... included) `LexInput` returns a token list
    that ends with its only tokEOF / tokError token -/
theorem lexBytes_terminated (src : List UInt8) : Terminated (lexBytes src) :=
  lexTokens_terminated (decodeRunes src)

end Gmars
