/-
  C05, part 3: the FOR expander.

  * on a terminated stream that does not start with its terminating token the goroutine neither
    hangs nor panics (`expand_no_fault`);
  * whatever the input, if `ForExpand` returns, what `Tokens()` received ends with its only
    tokEOF / tokError token (`expand_terminated`, the `expander_terminal_last` property).

  Both come from one induction per state function: `RG (termB cur rest) result`, i.e. a result
  carries an output that is either still open (no terminating token sent) or closed by exactly
  one terminating token, sent last; and a `hang` needs an unterminated input.
-/
import Gmars.Proofs.AsmTermBase

namespace Gmars
namespace ForExpand

/-- the output side: `done` is set exactly when a terminating token has been sent, that token
    is the last one, and no other was sent -/
def Out.Good (o : Out) : Prop :=
  if o.done then Lex.endsOnce o.toks.toList = true else Lex.noTerm o.toks.toList = true

theorem Out.good_empty : Out.Good {} := by
  simp [Out.Good, Lex.noTerm]

theorem Out.Good.emit {o : Out} (h : o.Good) (t : Token) : (o.emit t).Good := by
  unfold Out.emit
  split
  · exact h
  · rename_i hd
    have hn : Lex.noTerm o.toks.toList = true := by
      unfold Out.Good at h; rw [if_neg hd] at h; exact h
    unfold Out.Good
    simp only [Array.toList_push]
    cases ht : t.isTerm
    · simp only [Bool.false_eq_true, if_false]
      exact Lex.noTerm_append hn (by simp [Lex.noTerm, isTerminator_eq_isTerm, ht])
    · simp only [if_true]
      exact Lex.endsOnce_append hn (by simp [Lex.endsOnce, isTerminator_eq_isTerm, ht])

theorem Out.emit_done {o : Out} {t : Token} (ht : t.isTerm = true) : (o.emit t).done = true := by
  unfold Out.emit
  split
  · assumption
  · exact ht

theorem Out.Good.emitLabels {o : Out} (h : o.Good) (labels : List String) : (o.emitLabels labels).Good := by
  unfold Out.emitLabels
  induction labels generalizing o with
  | nil => exact h
  | cons l ls ih => exact ih (h.emit _)

theorem Out.Good.foldl_list {α : Type} (f : Out → α → Out) (hf : ∀ o a, o.Good → (f o a).Good)
    (l : List α) {o : Out} (h : o.Good) : (l.foldl f o).Good := by
  induction l generalizing o with
  | nil => exact h
  | cons a as ih => exact ih (hf _ _ h)

theorem Out.Good.expand {o : Out} (h : o.Good) (c : Ctx) (content : Array Token) :
    (expand c content o).Good := by
  unfold ForExpand.expand
  refine Out.Good.foldl_list _ (fun o k ho => ?_) _ h
  rw [← Array.foldl_toList]
  exact Out.Good.foldl_list _ (fun o tok ho => ho.emit _) _ ho

/-- a result is fine: an output in good shape, or a hang that needed an unterminated input -/
def RG (b : Bool) : Res → Prop
  | .ok o => o.Good
  | .error _ => b = false

theorem RG.mono {b b' : Bool} {r : Res} (h : RG b r) (hb : b' = true → b = true) : RG b' r := by
  cases r with
  | ok o => exact h
  | error f =>
    simp only [RG] at h ⊢
    cases b' with
    | false => rfl
    | true => rw [hb rfl] at h; cases h

theorem RG.cons {cur t : Token} {r : List Token} {x : Res} (h : RG (termB t r) x) :
    RG (termB cur (t :: r)) x :=
  h.mono (by simp)

theorem RG.ok {b : Bool} {o : Out} (h : o.Good) : RG b (.ok o) := h

theorem RG.hang {cur : Token} {f : Fault} (h : cur.isTerm = false) : RG (termB cur []) (.error f) := h

/-! ### `forEmitConsumeStream`, `forRof` -/

theorem emitConsumeStream_rg (rest : List Token) : ∀ (cur : Token) (o : Out), o.Good →
    RG (termB cur rest) (emitConsumeStream cur rest o) := by
  induction rest with
  | nil =>
    intro cur o ho
    unfold emitConsumeStream
    split
    · exact .ok ho
    · split
      · exact .ok (ho.emit _)
      · exact .hang (by simp_all [Token.isTerm])
  | cons t r ih =>
    intro cur o ho
    unfold emitConsumeStream
    split
    · exact .ok ho
    · split
      · exact .ok (ho.emit _)
      · exact (ih t _ (ho.emit _)).cons

theorem forRof_rg (c : Ctx) (content : Array Token) (rest : List Token) : ∀ (cur : Token) (o : Out),
    o.Good → RG (termB cur rest) (forRof c content cur rest o) := by
  induction rest with
  | nil =>
    intro cur o ho
    unfold forRof
    split
    · rename_i h
      have hn : cur.isTerm = false := by simp_all [Token.isTerm]
      simp only [nextTok, hn, Bool.false_eq_true, if_false]
      exact emitConsumeStream_rg [] cur _ (ho.expand _ _)
    · split
      · exact emitConsumeStream_rg [] cur _ (ho.expand _ _)
      · split
        · exact .ok (ho.emit _)
        · exact .hang (by simp_all [Token.isTerm])
  | cons t r ih =>
    intro cur o ho
    unfold forRof
    split
    · rename_i h
      have hn : cur.isTerm = false := by simp_all [Token.isTerm]
      simp only [nextTok, hn, Bool.false_eq_true, if_false]
      exact (emitConsumeStream_rg r t _ (ho.expand _ _)).cons
    · split
      · exact emitConsumeStream_rg (t :: r) cur _ (ho.expand _ _)
      · split
        · exact .ok (ho.emit _)
        · exact (ih t _ ho).cons

/-! ### the body of the loop: `forInnerLabels`, `forInnerEmitConsumeLine` -/

theorem inner_rg (c : Ctx) (rest : List Token) :
    (∀ (cur : Token) (s : Inner), s.out.Good → RG (termB cur rest) (innerEmitConsumeLine c cur rest s)) ∧
    (∀ (cur : Token) (labelBuf : List String) (s : Inner), s.out.Good →
      RG (termB cur rest) (innerLabels c cur rest labelBuf s)) := by
  induction rest with
  | nil =>
    have hE : ∀ (cur : Token) (s : Inner), s.out.Good →
        RG (termB cur []) (innerEmitConsumeLine c cur [] s) := by
      intro cur s hs
      unfold innerEmitConsumeLine
      split
      · exact .ok (hs.emit _)
      · exact .ok hs
      · exact .hang (by simp_all [Token.isTerm])
      · exact .hang (by simp_all [Token.isTerm])
    refine ⟨hE, ?_⟩
    intro cur labelBuf s hs
    unfold innerLabels
    split
    · split
      · split
        · exact hE _ _ hs
        · split
          · exact hE _ _ hs
          · exact forRof_rg _ _ _ _ _ hs
        · exact hE _ _ hs
      · split
        · exact hE _ _ (hs.emitLabels _)
        · exact .hang (by simp_all [Token.isTerm])
    · exact hE _ _ hs
  | cons t r ih =>
    obtain ⟨ihE, ihL⟩ := ih
    have hE : ∀ (cur : Token) (s : Inner), s.out.Good →
        RG (termB cur (t :: r)) (innerEmitConsumeLine c cur (t :: r) s) := by
      intro cur s hs
      unfold innerEmitConsumeLine
      split
      · exact .ok (hs.emit _)
      · exact .ok hs
      · dsimp only
        split
        · exact (ihL _ _ (s.push cur) hs).cons
        · exact (ihE _ (s.push cur) hs).cons
      · dsimp only
        exact (ihE _ (s.push cur) hs).cons
    refine ⟨hE, ?_⟩
    intro cur labelBuf s hs
    unfold innerLabels
    split
    · split
      · split
        · exact hE _ _ hs
        · split
          · exact hE _ _ hs
          · exact forRof_rg _ _ _ _ _ hs
        · exact hE _ _ hs
      · split
        · exact hE _ _ (hs.emitLabels _)
        · exact (ihL _ _ _ hs).cons
    · exact hE _ _ hs

theorem innerLine_rg (c : Ctx) (cur : Token) (rest : List Token) (s : Inner) (hs : s.out.Good) :
    RG (termB cur rest) (innerLine c cur rest s) := by
  unfold innerLine
  split
  · exact (inner_rg c rest).2 _ _ _ hs
  · exact (inner_rg c rest).1 _ _ hs

/-! ### `forFor`, `forConsumeExpression` -/

theorem forFor_rg (eval : List Token → SymTab → EvalRes) (symbols : SymTab) (cur : Token)
    (rest : List Token) (exprBuf : List Token) (labelBuf : List String) (o : Out) (ho : o.Good) :
    RG (termB cur rest) (forFor eval symbols cur rest exprBuf labelBuf o) := by
  unfold forFor
  have ho' : (exprBuf.foldl (fun o t =>
      if t.isTerm then o.emit { typ := .error, val := "unexpected expression term: " ++ t.str } else o) o).Good := by
    refine Out.Good.foldl_list _ (fun o t ho => ?_) _ ho
    split
    · exact ho.emit _
    · exact ho
  dsimp only
  split
  · exact innerLine_rg _ _ _ _ ho'
  · exact .ok (ho'.emit _)
  · exact .ok (ho'.emit _)

theorem consumeExpression_rg (eval : List Token → SymTab → EvalRes) (symbols : SymTab)
    (rest : List Token) : ∀ (cur : Token) (exprBuf : List Token) (labelBuf : List String) (o : Out),
    o.Good → RG (termB cur rest) (consumeExpression eval symbols cur rest exprBuf labelBuf o) := by
  induction rest with
  | nil =>
    intro cur exprBuf labelBuf o ho
    unfold consumeExpression
    split
    · -- look-ahead newline, reader exhausted: whatever forFor does, the input was not terminated
      rename_i h
      have hb : termB cur [] = false := by simp [Token.isTerm, h]
      rw [hb]
      cases hr : forFor eval symbols cur [] exprBuf labelBuf o with
      | error f => rfl
      | ok o' =>
        have := forFor_rg eval symbols cur [] exprBuf labelBuf o ho
        rw [hr] at this
        exact this
    · exact .hang (by simp_all [Token.isTerm])
    · exact .ok (ho.emit _)
    · exact .ok ho
    · exact .hang (by simp_all [Token.isTerm])
  | cons t r ih =>
    intro cur exprBuf labelBuf o ho
    unfold consumeExpression
    split
    · exact (forFor_rg eval symbols t r exprBuf labelBuf o ho).cons
    · exact (ih _ _ _ _ ho).cons
    · exact .ok (ho.emit _)
    · exact .ok ho
    · exact (ih _ _ _ _ ho).cons

/-! ### outside a loop: `forConsumeLabels`, `forConsumeEmitLine` -/

theorem outer_rg (eval : List Token → SymTab → EvalRes) (symbols : SymTab) (rest : List Token) :
    (∀ (cur : Token) (o : Out), o.Good →
      RG (termB cur rest) (consumeEmitLine eval symbols cur rest o)) ∧
    (∀ (cur : Token) (labelBuf : List String) (o : Out), o.Good →
      RG (termB cur rest) (consumeLabels eval symbols cur rest labelBuf o)) := by
  induction rest with
  | nil =>
    have hE : ∀ (cur : Token) (o : Out), o.Good →
        RG (termB cur []) (consumeEmitLine eval symbols cur [] o) := by
      intro cur o ho
      unfold consumeEmitLine
      split
      · exact .hang (by simp_all [Token.isTerm])
      · exact .ok (ho.emit _)
      · exact .ok (ho.emit _)
      · exact .hang (by simp_all [Token.isTerm])
    refine ⟨hE, ?_⟩
    intro cur labelBuf o ho
    unfold consumeLabels
    dsimp only
    split
    · rename_i htext
      have hn : cur.isTerm = false := by simp_all [Token.isTerm]
      have hb : termB cur [] = false := hn
      split
      · split
        · rw [hb]
          cases hr : consumeExpression eval symbols cur [] [] labelBuf o with
          | error f => rfl
          | ok o' =>
            have := consumeExpression_rg eval symbols [] cur [] labelBuf o ho
            rw [hr] at this
            exact this
        · exact .hang hn
      · split
        · exact .hang hn
        · exact .hang hn
    · split
      · rename_i h
        simp only [Bool.or_eq_true, beq_iff_eq] at h
        exact .hang (by rcases h with (h | h) | h <;> simp [Token.isTerm, h])
      · exact .ok (ho.emit _)
  | cons t r ih =>
    obtain ⟨ihE, ihL⟩ := ih
    have hE : ∀ (cur : Token) (o : Out), o.Good →
        RG (termB cur (t :: r)) (consumeEmitLine eval symbols cur (t :: r) o) := by
      intro cur o ho
      unfold consumeEmitLine
      split
      · dsimp only
        split
        · exact (ihL _ _ _ (ho.emit _)).cons
        · exact (ihE _ _ (ho.emit _)).cons
      · exact .ok (ho.emit _)
      · exact .ok (ho.emit _)
      · exact (ihE _ _ (ho.emit _)).cons
    refine ⟨hE, ?_⟩
    intro cur labelBuf o ho
    unfold consumeLabels
    dsimp only
    split
    · split
      · split
        · exact (consumeExpression_rg eval symbols r t [] labelBuf o ho).cons
        · exact (ihE _ _ ((ho.emitLabels _).emit _)).cons
      · split
        · exact (ihE _ _ ((ho.emitLabels _).emit _)).cons
        · exact (ihL _ _ _ ho).cons
    · split
      · exact (ihL _ _ _ ho).cons
      · exact .ok (ho.emit _)

theorem forLine_rg (eval : List Token → SymTab → EvalRes) (symbols : SymTab) (cur : Token)
    (rest : List Token) (o : Out) (ho : o.Good) :
    RG (termB cur rest) (forLine eval symbols cur rest o) := by
  unfold forLine
  split
  · exact (outer_rg eval symbols rest).2 _ _ _ ho
  · exact (outer_rg eval symbols rest).1 _ _ ho

/-! ### `run()` and `Tokens()` -/

theorem received_of_endsOnce {l : List Token} (h : Lex.endsOnce l = true) : received l = l := by
  have : ∀ l, received l = Lex.takeThrough l := by
    intro l; induction l with
    | nil => rfl
    | cons x xs ih => simp only [received, Lex.takeThrough, ih]; rfl
  rw [this, Lex.takeThrough_of_endsOnce h]

/-- everything the goroutine sends ends with its only terminating token -/
theorem sendsWith_endsOnce {eval : List Token → SymTab → EvalRes} {toks : List Token} {symbols : SymTab}
    {s : List Token} {u : Bool} (h : sendsWith eval toks symbols = .ok (s, u)) :
    Lex.endsOnce s = true := by
  unfold sendsWith at h
  split at h
  · cases h
  · rename_i t r
    split at h
    · cases h
    · have hg := forLine_rg eval symbols t r {} Out.good_empty
      split at h
      · cases h
      · rename_i o ho
        rw [ho] at hg
        have hg' : (o.emit { typ := .eof, val := "" }).Good := Out.Good.emit hg _
        have hd : (o.emit { typ := .eof, val := "" }).done = true := Out.emit_done rfl
        unfold Out.Good at hg'
        rw [if_pos hd] at hg'
        simp only [Except.ok.injEq, Prod.mk.injEq] at h
        rw [← h.1]
        exact hg'

theorem sendsWith_noFault {eval : List Token → SymTab → EvalRes} {t : Token} {r : List Token}
    {symbols : SymTab} (h : termB t r = true) (ht : t.isTerm = false) :
    ∀ f, sendsWith eval (t :: r) symbols ≠ .error f := by
  intro f hf
  simp only [sendsWith, ht, Bool.false_eq_true, if_false] at hf
  have hg := forLine_rg eval symbols t r {} Out.good_empty
  split at hf
  · rename_i f' hf'
    rw [hf', h] at hg
    cases hg
  · cases hf

end ForExpand

/-- on a terminated stream with a live first token (in `CompileWarrior`: the scanner saw a `for`,
    `scanInput_forSeen`) the expander goroutine neither hangs nor panics, and the consumer is
    not left waiting -/
theorem expand_no_fault {eval : List Token → SymTab → EvalRes} {ts : List Token} {syms : SymTab}
    (h : Terminated ts) (hfirst : ∃ t r, ts = t :: r ∧ t.isTerm = false) :
    ∀ f, forExpandWith eval ts syms ≠ .error f := by
  obtain ⟨t, r, rfl, ht⟩ := hfirst
  intro f hf
  unfold forExpandWith at hf
  cases hs : ForExpand.sendsWith eval (t :: r) syms with
  | error f' => exact ForExpand.sendsWith_noFault (termB_of_terminated h) ht f' hs
  | ok x => rw [hs] at hf; cases hf

/-- the precondition is needed: on a stream that is only its terminating token `run()` returns
    without sending and `Tokens()` blocks for ever -/
theorem expand_first_terminal_hangs (eval : List Token → SymTab → EvalRes) (syms : SymTab) :
    forExpandWith eval [{ typ := .eof, val := "" }] syms = .error (.hang "forexpand: nothing sent") := rfl

/-- `expander_terminal_last`: whenever `ForExpand` returns, the tokens it returns end with
    exactly one terminating token (the goroutine sends one, and nothing after it) -/
theorem expand_terminated {eval : List Token → SymTab → EvalRes} {ts ts' : List Token} {syms : SymTab}
    {u : Bool} (h : forExpandWith eval ts syms = .ok (some ts', u)) : Terminated ts' := by
  unfold forExpandWith at h
  cases hs : ForExpand.sendsWith eval ts syms with
  | error f => rw [hs] at h; cases h
  | ok x =>
    obtain ⟨s, u'⟩ := x
    rw [hs] at h
    simp only [Except.map, Except.ok.injEq, Prod.mk.injEq, Option.some.injEq] at h
    have he := ForExpand.sendsWith_endsOnce hs
    rw [← h.1, ForExpand.received_of_endsOnce he]
    exact terminated_of_endsOnce he

/-- `ForExpand` never returns the "no tokens" error -/
theorem expand_some {eval : List Token → SymTab → EvalRes} {ts : List Token} {syms : SymTab}
    {x : Option (List Token)} {u : Bool} (h : forExpandWith eval ts syms = .ok (x, u)) :
    ∃ ts', x = some ts' := by
  unfold forExpandWith at h
  cases hs : ForExpand.sendsWith eval ts syms with
  | error f => rw [hs] at h; cases h
  | ok y =>
    rw [hs] at h
    simp only [Except.map, Except.ok.injEq, Prod.mk.injEq] at h
    exact ⟨_, h.1.symm⟩

end Gmars
