/-
  C05, part 4: the parser neither hangs nor runs out of fuel on a terminated token stream.

  Invariant of the reader: `atEOF` is not set and look-ahead :: unread tokens is a terminated
  stream. Every state function either stops or keeps the invariant, and strictly decreases
  `φ = 4 * (unread tokens) + w state look-ahead`, where `w ≤ 3` ranks the state functions that
  hand over without consuming a token.
-/
import Gmars.Proofs.AsmTermBase
import Gmars.Model.Parser

namespace Gmars
namespace Parser

/-- the reader is live and what it still delivers is a terminated stream -/
structure Inv (p : PState) : Prop where
  live : p.atEOF = false
  term : termB p.nextToken p.rest = true

theorem Inv.congr {p q : PState} (h : Inv p) (h1 : q.atEOF = p.atEOF) (h2 : q.nextToken = p.nextToken)
    (h3 : q.rest = p.rest) : Inv q := ⟨by rw [h1, h.live], by rw [h2, h3, h.term]⟩

/-- rank of a state function among those that can run without consuming a token -/
def w : St → Token → Nat
  | .line, _ => 2
  | .emptyLines, t => if t.typ = .newline then 0 else 3
  | .labels, _ => 1
  | .colon, t => if t.typ = .colon then 0 else 2
  | .pseudoExpr, _ => 3
  | .exprA, _ => 3
  | .exprB, _ => 3
  | .comment, _ => 0
  | .pseudoOp, _ => 0
  | .op, _ => 0
  | .modeA, _ => 0
  | .comma, _ => 0
  | .modeB, _ => 0

theorem w_le (s : St) (t : Token) : w s t ≤ 3 := by
  cases s <;> simp only [w] <;> first | omega | (split <;> omega)

def φ (s : St) (p : PState) : Nat := 4 * p.rest.length + w s p.nextToken

/-- what one state function call must achieve -/
def StepGood (s : St) (p : PState) : Except Fault (PState × Option St) → Prop
  | .error _ => False
  | .ok (_, none) => True
  | .ok (p', some s') => Inv p' ∧ φ s' p' < φ s p

theorem StepGood.stop {s : St} {p p' : PState} : StepGood s p (.ok (p', none)) := trivial

theorem StepGood.cont {s s' : St} {p p' : PState} (h : Inv p') (hφ : φ s' p' < φ s p) :
    StepGood s p (.ok (p', some s')) := ⟨h, hφ⟩

/-! ### `next()` -/

theorem next_fst {p : PState} (h : p.atEOF = false) : (next p).1 = p.nextToken := by
  unfold next; rw [h]; cases p.rest <;> rfl

theorem next_eq {p : PState} (h : p.atEOF = false) : next p = (p.nextToken, advance p) := by
  have := next_fst h
  unfold advance
  rw [← this]

theorem advance_cons {p : PState} {u : Token} {r : List Token} (hl : p.atEOF = false)
    (hr : p.rest = u :: r) :
    (advance p).atEOF = false ∧ (advance p).nextToken = u ∧ (advance p).rest = r := by
  simp [advance, next, hl, hr]

/-- `next()` on a live look-ahead: one token less, still a terminated stream -/
theorem Inv.adv_live {p : PState} (h : Inv p) (hn : p.nextToken.isTerm = false) :
    Inv (advance p) ∧ (advance p).rest.length + 1 = p.rest.length := by
  obtain ⟨u, r, hr, hur⟩ := termB_live h.term hn
  obtain ⟨h1, h2, h3⟩ := advance_cons h.live hr
  exact ⟨⟨h1, by rw [h2, h3]; exact hur⟩, by rw [h3, hr]; rfl⟩

/-- `next()` on the terminating token: the look-ahead stays -/
theorem Inv.adv_term {p : PState} (h : Inv p) (hn : p.nextToken.isTerm = true) :
    (advance p).nextToken = p.nextToken := by
  have hr := termB_last h.term hn
  simp [advance, next, h.live, hr]

theorem Inv.adv {p : PState} (h : Inv p) :
    (p.nextToken.isTerm = true ∧ (advance p).nextToken = p.nextToken) ∨
    (p.nextToken.isTerm = false ∧ Inv (advance p) ∧ (advance p).rest.length + 1 = p.rest.length) := by
  cases hn : p.nextToken.isTerm
  · exact Or.inr ⟨rfl, h.adv_live hn⟩
  · exact Or.inl ⟨rfl, h.adv_term hn⟩

theorem Inv.not_frozen {p : PState} (h : Inv p) (hn : p.nextToken.isTerm = false) : frozen p = false := by
  obtain ⟨u, r, hr, _⟩ := termB_live h.term hn
  simp [frozen, hr]

theorem isTerm_of_typ {t : Token} {ty : TokType} (h : t.typ = ty) (h1 : ty ≠ .eof) (h2 : ty ≠ .error) :
    t.isTerm = false := by
  simp [Token.isTerm, h, h1, h2]

theorem isTerm_of_exprTerm {t : Token} (h : t.isExpressionTerm = true) : t.isTerm = false := by
  simp [Token.isExpressionTerm] at h
  simp [Token.isTerm]
  rcases h with (((h | h) | h) | h) | h <;> simp [h]

theorem exprTerm_of_isTerm {t : Token} (h : t.isTerm = true) : t.isExpressionTerm = false := by
  cases h' : t.isExpressionTerm
  · rfl
  · rw [isTerm_of_exprTerm h'] at h; cases h

theorem isTerm_of_addressMode {t : Token} (h : t.isAddressMode = true) : t.isTerm = false := by
  simp [Token.isAddressMode] at h
  simp [Token.isTerm, h.1]

theorem isTerm_of_isOp {t : Token} (h : t.isOp = true) : t.isTerm = false := by
  unfold Token.isOp at h
  split at h
  · cases h
  · rename_i h'
    simp at h'
    simp [Token.isTerm, h']

/-! ### the loops -/

theorem skipLoop_good (site : String) (t : TokType) (bump : Bool) (h1 : t ≠ .eof) (h2 : t ≠ .error) :
    ∀ fuel p, Inv p → p.rest.length < fuel →
      ∃ p', skipLoop site t bump fuel p = .ok p' ∧ Inv p' ∧ p'.rest.length ≤ p.rest.length ∧
        (p.nextToken.typ = t → p'.rest.length < p.rest.length) := by
  intro fuel
  induction fuel with
  | zero => intro p _ h; omega
  | succ fuel ih =>
    intro p hp hf
    unfold skipLoop
    by_cases ht : p.nextToken.typ = t
    · have hn : p.nextToken.isTerm = false := isTerm_of_typ ht h1 h2
      have hq : Inv (if bump then incNewlines p else p) := by
        split
        · exact hp.congr rfl rfl rfl
        · exact hp
      have hqn : (if bump = true then incNewlines p else p).nextToken.isTerm = false := by
        split
        · exact hn
        · exact hn
      have hqr : (if bump = true then incNewlines p else p).rest = p.rest := by
        split <;> rfl
      obtain ⟨hq', hlen⟩ := hq.adv_live hqn
      rw [hqr] at hlen
      obtain ⟨p', he, hi, hle, _⟩ := ih _ hq' (by omega)
      refine ⟨p', ?_, hi, by omega, fun _ => by omega⟩
      simp only [ht, beq_self_eq_true, if_true, hp.not_frozen hn]
      simpa using he
    · refine ⟨p, ?_, hp, Nat.le_refl _, fun h => absurd h ht⟩
      simp [ht]

theorem exprLoop_good (site : String) :
    ∀ fuel p acc, Inv p → p.rest.length < fuel →
      ∃ p' acc', exprLoop site fuel p acc = .ok (p', acc') ∧ Inv p' ∧ p'.rest.length ≤ p.rest.length := by
  intro fuel
  induction fuel with
  | zero => intro p _ _ h; omega
  | succ fuel ih =>
    intro p acc hp hf
    unfold exprLoop
    cases ht : p.nextToken.isExpressionTerm
    · exact ⟨p, acc, by simp, hp, Nat.le_refl _⟩
    · have hn : p.nextToken.isTerm = false := isTerm_of_exprTerm ht
      have hq : Inv (noteReference p) := by
        unfold noteReference
        split
        · exact hp.congr rfl rfl rfl
        · exact hp
      have hqn : (noteReference p).nextToken = p.nextToken := by
        unfold noteReference; split <;> rfl
      have hqr : (noteReference p).rest = p.rest := by
        unfold noteReference; split <;> rfl
      obtain ⟨hq', hlen⟩ := hq.adv_live (by rw [hqn]; exact hn)
      rw [hqr] at hlen
      obtain ⟨p', acc', he, hi, hle⟩ := ih _ (p.nextToken :: acc) hq' (by omega)
      refine ⟨p', acc', ?_, hi, by omega⟩
      simp only [if_true, hp.not_frozen hn]
      simpa using he

theorem collectExpr_good (site : String) {p : PState} (hp : Inv p) :
    ∃ p' ts, collectExpr site p = .ok (p', ts) ∧ Inv p' ∧ p'.rest.length ≤ p.rest.length := by
  obtain ⟨p', acc', he, hi, hle⟩ := exprLoop_good site (p.rest.length + 1) p [] hp (by omega)
  refine ⟨p', acc'.reverse, ?_, hi, hle⟩
  unfold collectExpr
  rw [he]
  rfl


/-! ### the state functions -/

theorem step_line {p : PState} (hp : Inv p) : StepGood .line p (step .line p) := by
  rw [step]
  split
  · exact .stop
  · dsimp only
    split
    · rename_i h
      refine .cont (hp.congr rfl rfl rfl) ?_
      simp [φ, w, h]
    · refine .cont (hp.congr rfl rfl rfl) ?_
      simp [φ, w]
    · refine .cont (hp.congr rfl rfl rfl) ?_
      simp [φ, w]
    · exact .stop
    · exact .stop

theorem step_emptyLines {p : PState} (hp : Inv p) : StepGood .emptyLines p (step .emptyLines p) := by
  rw [step]
  obtain ⟨p', he, hi, hle, hlt⟩ :=
    skipLoop_good "parseEmptyLines" .newline true (by decide) (by decide) (p.rest.length + 1) p hp (by omega)
  rw [he]
  refine .cont (hi.congr rfl rfl rfl) ?_
  simp only [φ, w, emit]
  split
  · rename_i h; have := hlt h; omega
  · omega


theorem consumeEmitLine_good {ns : St} {q : PState} (hq : Inv q) (p' : PState) (s' : St)
    (h : consumeEmitLine ns q = (p', some s')) :
    s' = ns ∧ Inv p' ∧ p'.rest.length + 2 = q.rest.length := by
  unfold consumeEmitLine at h
  rcases hq.adv with ⟨ht, hnt⟩ | ⟨hn, hi, hlen⟩
  · generalize advance q = q1 at *
    dsimp only at h
    rw [isTerm_iff] at ht
    rw [← hnt] at ht
    rcases ht with ht | ht
    · simp [ht] at h
    · simp [ht] at h
  · generalize advance q = q1 at *
    dsimp only at h
    split at h
    · simp at h
    · split at h
      · simp at h
      · rename_i h1 h2
        have hnl : q1.nextToken.typ = .newline := by simpa using h2
        have hi2 : Inv (emit (incNewlines q1)) := hi.congr rfl rfl rfl
        rw [next_eq hi2.live] at h
        have hn2 : (emit (incNewlines q1)).nextToken.isTerm = false :=
          isTerm_of_typ (ty := .newline) hnl (by decide) (by decide)
        obtain ⟨hi3, hlen3⟩ := hi2.adv_live hn2
        have : (emit (incNewlines q1)).rest = q1.rest := rfl
        rw [this] at hlen3
        dsimp only at h
        split at h
        · simp at h
        · simp at h
          obtain ⟨rfl, rfl⟩ := h
          exact ⟨rfl, hi3, by omega⟩

theorem step_comment {p : PState} (hp : Inv p) : StepGood .comment p (step .comment p) := by
  rw [step]
  generalize hq : ({ p with cur := { p.cur with comment := p.nextToken.val } } : PState) = q
  have hqi : Inv q := by subst hq; exact hp.congr rfl rfl rfl
  have hqr : q.rest = p.rest := by subst hq; rfl
  rcases hc : consumeEmitLine .line q with ⟨p', o⟩
  cases o with
  | none => exact .stop
  | some s' =>
    obtain ⟨rfl, hi, hlen⟩ := consumeEmitLine_good hqi p' s' hc
    refine .cont hi ?_
    simp only [φ, w]
    rw [hqr] at hlen
    omega


theorem φ_opState (t : Token) (p : PState) : φ (opState t) p = 4 * p.rest.length := by
  unfold opState; split <;> simp [φ, w]

theorem step_labels {p : PState} (hp : Inv p) : StepGood .labels p (step .labels p) := by
  rw [step]
  dsimp only
  split
  · rename_i h
    have hn : p.nextToken.isTerm = false := by
      simp at h
      rcases h with h | h <;> simp [Token.isTerm, h]
    rw [hp.not_frozen hn]
    obtain ⟨hi, hlen⟩ := hp.adv_live hn
    refine .cont hi ?_
    simp only [φ, w]; omega
  · split
    · refine .cont hp ?_
      rw [φ_opState]; simp only [φ, w]; omega
    · split
      · rename_i h
        refine .cont hp ?_
        have : p.nextToken.typ = .colon := by simpa using h
        simp [φ, w, this]
      · generalize hq0 : (if p.symbols.contains p.nextToken.val = true then setErr p else p) = q0
        have hq0i : Inv q0 := by
          subst hq0; split
          · exact hp.congr rfl rfl rfl
          · exact hp
        have hq0n : q0.nextToken = p.nextToken := by subst hq0; split <;> rfl
        have hq0r : q0.rest = p.rest := by subst hq0; split <;> rfl
        generalize hq : ({ q0 with
            symbols := if q0.symbols.contains p.nextToken.val then q0.symbols
                       else p.nextToken.val :: q0.symbols,
            cur := { q0.cur with labels := q0.cur.labels ++ [p.nextToken.val] } } : PState) = q
        have hqi : Inv q := by subst hq; exact hq0i.congr rfl rfl rfl
        have hqn : q.nextToken = p.nextToken := by subst hq; exact hq0n
        have hqr : q.rest = p.rest := by subst hq; exact hq0r
        rw [next_eq hqi.live]
        dsimp only
        split
        · exact .stop
        · rename_i h
          have ht : q.nextToken.typ = .text := by simpa using h
          obtain ⟨hi, hlen⟩ := hqi.adv_live (isTerm_of_typ ht (by decide) (by decide))
          refine .cont hi ?_
          simp only [φ, w]; rw [hqr] at hlen; omega



theorem step_colon {p : PState} (hp : Inv p) : StepGood .colon p (step .colon p) := by
  rw [step]
  obtain ⟨p', he, hi, hle, hlt⟩ :=
    skipLoop_good "parseColon" .colon false (by decide) (by decide) (p.rest.length + 1) p hp (by omega)
  rw [he]
  simp only [bind, Except.bind, pure, Except.pure]
  have hφ : φ .colon p = 4 * p.rest.length + 2 ∨ p'.rest.length < p.rest.length := by
    by_cases h : p.nextToken.typ = .colon
    · exact Or.inr (hlt h)
    · left; simp [φ, w, h]
  have hφ' : 4 * p'.rest.length + 1 < φ .colon p := by
    rcases hφ with h | h
    · omega
    · simp only [φ]; omega
  split
  · rename_i h
    have hn : p'.nextToken.isTerm = false := by
      simp at h
      rcases h with h | h <;> simp [Token.isTerm, h]
    rw [hi.not_frozen hn]
    obtain ⟨hi2, hlen⟩ := hi.adv_live hn
    refine .cont hi2 ?_
    have := w_le .colon (advance p').nextToken
    simp only [φ] at hφ' ⊢; omega
  · split
    · refine .cont hi ?_
      rw [φ_opState]; omega
    · split
      · refine .cont hi ?_
        simp only [φ, w] at hφ' ⊢; omega
      · exact .stop


theorem typ_of_isTerm {t : Token} (h : t.isTerm = true) : t.typ = .eof ∨ t.typ = .error :=
  (isTerm_iff t).1 h

theorem step_pseudoOp {p : PState} (hp : Inv p) : StepGood .pseudoOp p (step .pseudoOp p) := by
  rw [step]
  dsimp only
  generalize hq : ({ p with
      cur := { p.cur with op := p.nextToken.val, typ := .pseudoOp },
      endSeen := p.endSeen || lowerStr p.nextToken.val == "end" } : PState) = q
  have hqi : Inv q := by subst hq; exact hp.congr rfl rfl rfl
  have hqr : q.rest = p.rest := by subst hq; rfl
  rcases hqi.adv with ⟨ht, hnt⟩ | ⟨hn, hi, hlen⟩
  · generalize advance q = q1 at *
    rw [← hnt] at ht
    have hex := exprTerm_of_isTerm ht
    rcases typ_of_isTerm ht with h | h <;> simp only [hex, h] <;> simp <;>
      first | exact .stop | (split <;> exact .stop)
  · generalize advance q = q1 at *
    rw [hqr] at hlen
    split
    · refine .cont hi ?_
      simp only [φ, w]; omega
    · split
      · refine .cont hi ?_
        simp only [φ, w]; omega
      · split
        · split <;> exact .stop
        · split
          · rename_i h
            have hnl : q1.nextToken.typ = .newline := by simpa using h
            split
            · obtain ⟨hi2, hlen2⟩ := hi.adv_live (isTerm_of_typ hnl (by decide) (by decide))
              refine .cont (hi2.congr rfl rfl rfl) ?_
              simp only [φ, w, emit, incNewlines]; omega
            · exact .stop
          · exact .stop

theorem step_op {p : PState} (hp : Inv p) : StepGood .op p (step .op p) := by
  rw [step]
  dsimp only
  generalize hq : ({ p with
      cur := { p.cur with op := p.nextToken.val, typ := .instruction, codeLine := p.codeLine },
      codeLine := p.codeLine + 1 } : PState) = q
  have hqi : Inv q := by subst hq; exact hp.congr rfl rfl rfl
  have hqr : q.rest = p.rest := by subst hq; rfl
  rcases hqi.adv with ⟨ht, hnt⟩ | ⟨hn, hi, hlen⟩
  · generalize advance q = q1 at *
    rw [← hnt] at ht
    have hex := exprTerm_of_isTerm ht
    have ham : q1.nextToken.isAddressMode = false := by
      rcases typ_of_isTerm ht with h | h <;> simp [Token.isAddressMode, h]
    rcases typ_of_isTerm ht with h | h <;> simp only [hex, ham, h] <;> simp <;> exact .stop
  · generalize advance q = q1 at *
    rw [hqr] at hlen
    have key : ∀ s', StepGood .op p (.ok (q1, some s')) := by
      intro s'
      refine .cont hi ?_
      have := w_le s' q1.nextToken
      simp only [φ]; omega
    split
    · exact key _
    · split
      · exact key _
      · split
        · split <;> exact key _
        · exact .stop

theorem step_modeA {p : PState} (hp : Inv p) : StepGood .modeA p (step .modeA p) := by
  rw [step]
  dsimp only
  generalize hq : ({ p with cur := { p.cur with amode := p.nextToken.val } } : PState) = q
  have hqi : Inv q := by subst hq; exact hp.congr rfl rfl rfl
  have hqr : q.rest = p.rest := by subst hq; rfl
  rcases hqi.adv with ⟨ht, hnt⟩ | ⟨hn, hi, hlen⟩
  · generalize advance q = q1 at *
    rw [← hnt] at ht
    simp only [exprTerm_of_isTerm ht]
    exact .stop
  · generalize advance q = q1 at *
    rw [hqr] at hlen
    split
    · refine .cont hi ?_
      simp only [φ, w]; omega
    · exact .stop

theorem step_modeB {p : PState} (hp : Inv p) : StepGood .modeB p (step .modeB p) := by
  rw [step]
  dsimp only
  generalize hq : ({ p with cur := { p.cur with bmode := p.nextToken.val } } : PState) = q
  have hqi : Inv q := by subst hq; exact hp.congr rfl rfl rfl
  have hqr : q.rest = p.rest := by subst hq; rfl
  rcases hqi.adv with ⟨ht, hnt⟩ | ⟨hn, hi, hlen⟩
  · generalize advance q = q1 at *
    rw [← hnt] at ht
    simp only [exprTerm_of_isTerm ht]
    exact .stop
  · generalize advance q = q1 at *
    rw [hqr] at hlen
    split
    · refine .cont hi ?_
      simp only [φ, w]; omega
    · exact .stop

theorem step_comma {p : PState} (hp : Inv p) : StepGood .comma p (step .comma p) := by
  rw [step]
  rcases hp.adv with ⟨ht, hnt⟩ | ⟨hn, hi, hlen⟩
  · generalize advance p = q1 at *
    rw [← hnt] at ht
    have hex := exprTerm_of_isTerm ht
    have ham : q1.nextToken.isAddressMode = false := by
      rcases typ_of_isTerm ht with h | h <;> simp [Token.isAddressMode, h]
    simp only [hex, ham]
    exact .stop
  · generalize advance p = q1 at *
    split
    · refine .cont hi ?_
      simp only [φ, w]; omega
    · split
      · refine .cont hi ?_
        simp only [φ, w]; omega
      · exact .stop


theorem step_pseudoExpr {p : PState} (hp : Inv p) : StepGood .pseudoExpr p (step .pseudoExpr p) := by
  rw [step]
  obtain ⟨p', ts, he, hi, hle⟩ := collectExpr_good "parsePseudoExpr" hp
  rw [he]
  simp only [bind, Except.bind, pure, Except.pure]
  split
  · refine .cont (hi.congr rfl rfl rfl) ?_
    simp only [φ, w]; omega
  · rename_i h
    have hnl : p'.nextToken.typ = .newline := h
    have hi1 : Inv { p' with cur := { p'.cur with a := some (p'.cur.a.getD [] ++ ts) } } :=
      hi.congr rfl rfl rfl
    obtain ⟨hi2, hlen2⟩ := hi1.adv_live (isTerm_of_typ hnl (by decide) (by decide))
    refine .cont (hi2.congr rfl rfl rfl) ?_
    simp only [φ, w, emit, incNewlines] at hlen2 ⊢; omega
  · refine .cont (hi.congr rfl rfl rfl) ?_
    simp only [φ, w, emit]; omega
  · exact .stop

theorem step_exprA {p : PState} (hp : Inv p) : StepGood .exprA p (step .exprA p) := by
  rw [step]
  obtain ⟨p', ts, he, hi, hle⟩ := collectExpr_good "parseExprA" hp
  rw [he]
  simp only [bind, Except.bind, pure, Except.pure]
  split
  · refine .cont (hi.congr rfl rfl rfl) ?_
    simp only [φ, w]; omega
  · refine .cont (hi.congr rfl rfl rfl) ?_
    simp only [φ, w]; omega
  · refine .cont (hi.congr rfl rfl rfl) ?_
    simp only [φ, w, emit]; omega
  · refine .cont (hi.congr rfl rfl rfl) ?_
    simp only [φ, w, emit]; omega
  · exact .stop

theorem step_exprB {p : PState} (hp : Inv p) : StepGood .exprB p (step .exprB p) := by
  rw [step]
  obtain ⟨p', ts, he, hi, hle⟩ := collectExpr_good "parseExprB" hp
  rw [he]
  simp only [bind, Except.bind, pure, Except.pure]
  split
  · refine .cont (hi.congr rfl rfl rfl) ?_
    simp only [φ, w]; omega
  · rename_i h
    have hnl : p'.nextToken.typ = .newline := h
    have hi1 : Inv (emit (incNewlines
        { p' with cur := { p'.cur with b := some (p'.cur.b.getD [] ++ ts) } })) := hi.congr rfl rfl rfl
    obtain ⟨hi2, hlen2⟩ := hi1.adv_live (isTerm_of_typ hnl (by decide) (by decide))
    refine .cont hi2 ?_
    simp only [φ, w, emit, incNewlines] at hlen2 ⊢; omega
  · refine .cont (hi.congr rfl rfl rfl) ?_
    simp only [φ, w, emit]; omega
  · exact .stop


/-! ### the machine -/

theorem step_good (s : St) {p : PState} (hp : Inv p) : StepGood s p (step s p) := by
  cases s
  · exact step_line hp
  · exact step_emptyLines hp
  · exact step_comment hp
  · exact step_labels hp
  · exact step_colon hp
  · exact step_pseudoOp hp
  · exact step_pseudoExpr hp
  · exact step_op hp
  · exact step_modeA hp
  · exact step_exprA hp
  · exact step_comma hp
  · exact step_modeB hp
  · exact step_exprB hp

/-- with more fuel than `φ` the machine stops by itself -/
theorem run_noFault : ∀ (fuel : Nat) (s : St) (p : PState), Inv p → φ s p < fuel →
    ∀ f, run fuel s p ≠ .error f := by
  intro fuel
  induction fuel with
  | zero => intro s p _ h; omega
  | succ fuel ih =>
    intro s p hp hφ f
    have hs := step_good s hp
    unfold run
    cases h : step s p with
    | error e => rw [h] at hs; exact hs.elim
    | ok r =>
      obtain ⟨p', o⟩ := r
      rw [h] at hs
      cases o with
      | none => simp [bind, Except.bind, pure, Except.pure]
      | some s' =>
        simp only [bind, Except.bind]
        exact ih s' p' hs.1 (by have := hs.2; omega) f

theorem newParser_inv {t : Token} {r : List Token} (h : termB t r = true) :
    Inv (newParser (t :: r)) ∧ (newParser (t :: r)).rest = r := by
  obtain ⟨h1, h2, h3⟩ := advance_cons (p := { rest := t :: r }) (u := t) (r := r) rfl rfl
  unfold newParser
  exact ⟨⟨h1, by rw [h2, h3]; exact h⟩, h3⟩

end Parser

/-- the parser neither hangs nor runs out of fuel on a terminated stream -/
theorem parse_no_fault {ts : List Token} (h : Terminated ts) : ∀ f, parse ts ≠ .error f := by
  obtain ⟨t, r, rfl, htr⟩ := h.cases
  obtain ⟨hi, hr⟩ := Parser.newParser_inv htr
  intro f hf
  unfold parse at hf
  cases hrun : Parser.run (Parser.runFuel (t :: r)) .line (Parser.newParser (t :: r)) with
  | error e =>
    refine Parser.run_noFault _ _ _ hi ?_ e hrun
    simp only [Parser.φ, Parser.w, hr, Parser.runFuel, List.length_cons]
    omega
  | ok p =>
    rw [hrun] at hf
    simp only [bind, Except.bind, pure, Except.pure] at hf
    split at hf
    · cases hf
    · split at hf <;> cases hf

end Gmars
