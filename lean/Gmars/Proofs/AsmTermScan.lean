/-
  C05, part 2: the symbol scanner neither hangs nor panics on a terminated token stream.
-/
import Gmars.Proofs.AsmTermBase

namespace Gmars
namespace Scan

def NoFault (r : Res) : Prop := ∀ f, r ≠ .error f

theorem stop_noFault (syms : SymTab) (b : Bool) : NoFault (stop syms b) := by
  intro f h; cases h

theorem ok_noFault (x) : NoFault (.ok x) := by
  intro f h; cases h

/-- the three state functions, by induction on the unread input; every recursive call is on the
    tail of `rest`, except `scanLabels → scanConsumeLine` which keeps `rest` -/
theorem all_noFault (rest : List Token) :
    (∀ cur syms, termB cur rest = true → NoFault (scanConsumeLine cur rest syms)) ∧
    (∀ cur valBuf labelBuf syms, termB cur rest = true →
      NoFault (scanEquValue cur rest valBuf labelBuf syms)) ∧
    (∀ cur labelBuf syms, termB cur rest = true → NoFault (scanLabels cur rest labelBuf syms)) := by
  induction rest with
  | nil =>
    have hC : ∀ cur syms, termB cur [] = true → NoFault (scanConsumeLine cur [] syms) := by
      intro cur syms h
      simp [Token.isTerm] at h
      unfold scanConsumeLine
      rcases h with h | h <;> simp only [h] <;> exact stop_noFault _ _
    have hE : ∀ cur valBuf labelBuf syms, termB cur [] = true →
        NoFault (scanEquValue cur [] valBuf labelBuf syms) := by
      intro cur valBuf labelBuf syms h
      simp [Token.isTerm] at h
      unfold scanEquValue
      rcases h with h | h <;> simp [h] <;> split <;>
        first | exact ok_noFault _ | exact stop_noFault _ _
    refine ⟨hC, hE, ?_⟩
    intro cur labelBuf syms h
    have hc := hC cur syms h
    simp [Token.isTerm] at h
    unfold scanLabels
    rcases h with h | h <;> simp only [h]
    · exact stop_noFault _ _
    · exact hc
  | cons t r ih =>
    obtain ⟨ihC, ihE, ihL⟩ := ih
    have hC : ∀ cur syms, termB cur (t :: r) = true → NoFault (scanConsumeLine cur (t :: r) syms) := by
      intro cur syms h
      simp at h
      unfold scanConsumeLine
      split
      · dsimp only
        split
        · exact stop_noFault _ _
        · split
          · exact ihL _ _ _ h.2
          · exact ihC _ _ h.2
      · exact stop_noFault _ _
      · exact stop_noFault _ _
      · dsimp only
        split
        · exact stop_noFault _ _
        · exact ihC _ _ h.2
    have hE : ∀ cur valBuf labelBuf syms, termB cur (t :: r) = true →
        NoFault (scanEquValue cur (t :: r) valBuf labelBuf syms) := by
      intro cur valBuf labelBuf syms h
      simp at h
      unfold scanEquValue
      split
      · split
        · exact ok_noFault _
        · split
          · dsimp only
            split
            · exact stop_noFault _ _
            · split
              · exact ihL _ _ _ h.2
              · exact ihC _ _ h.2
          · exact stop_noFault _ _
      · dsimp only
        exact ihE _ _ _ _ h.2
    refine ⟨hC, hE, ?_⟩
    intro cur labelBuf syms h
    have hc := hC cur syms h
    simp at h
    unfold scanLabels
    split
    · split
      · split
        · dsimp only
          split
          · exact stop_noFault _ _
          · exact ihE _ _ _ _ h.2
        · exact stop_noFault _ _
        · exact stop_noFault _ _
        · exact hc
      · split
        · exact hc
        · dsimp only
          split
          · exact stop_noFault _ _
          · exact ihL _ _ _ h.2
    · dsimp only
      split
      · exact stop_noFault _ _
      · exact ihL _ _ _ h.2
    · dsimp only
      split
      · exact stop_noFault _ _
      · exact ihL _ _ _ h.2
    · dsimp only
      split
      · exact stop_noFault _ _
      · exact ihL _ _ _ h.2
    · exact stop_noFault _ _
    · exact hc

theorem scanLine_noFault {cur : Token} {rest : List Token} (h : termB cur rest = true) (syms : SymTab) :
    NoFault (scanLine cur rest syms) := by
  unfold scanLine
  split
  · exact (all_noFault rest).2.2 _ _ _ h
  · exact (all_noFault rest).1 _ _ h

end Scan

/-- the symbol scanner neither hangs nor panics on a terminated stream -/
theorem scan_no_fault {ts : List Token} (h : Terminated ts) : ∀ f, scanInput ts ≠ .error f := by
  obtain ⟨t, r, rfl, htr⟩ := h.cases
  exact Scan.scanLine_noFault htr []

/-- `forSeen` is only reported when the stream does not start with a terminating token: the
    scanner stops without it on tokEOF / tokError, and sets it on a `for` text token only -/
theorem scanInput_forSeen {ts : List Token} {syms : SymTab}
    (h : scanInput ts = .ok (some (syms, true))) : ∃ t r, ts = t :: r ∧ t.isTerm = false := by
  cases ts with
  | nil =>
    exfalso
    simp only [scanInput, Scan.scanLine, Token.zero] at h
    unfold Scan.scanConsumeLine at h
    simp [Scan.stop] at h
  | cons t r =>
    refine ⟨t, r, rfl, ?_⟩
    cases ht : t.isTerm with
    | false => rfl
    | true =>
      exfalso
      simp [Token.isTerm] at ht
      simp only [scanInput, Scan.scanLine] at h
      unfold Scan.scanConsumeLine at h
      rcases ht with ht | ht <;> simp [ht, Scan.stop] at h

end Gmars
