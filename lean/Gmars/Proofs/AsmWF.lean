/- C06 at the level of the whole assembler: an accepted program comes from the compiler stage -/
import Gmars.Model.Assemble
import Gmars.Proofs.CompileWF

namespace Gmars

theorem forLoop_error_not_ok (fuel depth : Nat) (ts : List Token) (w : WarriorData) :
    forLoop fuel depth ts ≠ .error (.ok w) := by
  induction fuel generalizing depth ts with
  | zero => simp [forLoop]
  | succ f ih =>
    unfold forLoop
    split
    · simp
    · simp
    · split
      · simp
      · split
        · simp
        · simp
        · simp
        · split
          · simp
          · exact ih _ _

theorem assemble_ok_from_compile {cfg : Config} {src : List UInt8} {w : WarriorData}
    (h : assemble cfg src = .ok w) :
    ∃ lines ameta, compile lexString cfg lines ameta = .ok (some w) := by
  unfold assemble at h
  dsimp only at h
  split at h
  · rename_i r heq
    subst h
    exact absurd heq (forLoop_error_not_ok _ _ _ _)
  · split at h
    · cases h
    · cases h
    · rename_i lines ameta _
      split at h
      · cases h
      · split at h
        · cases h
        · cases h
        · rename_i w' hc
          cases h
          exact ⟨lines, ameta, hc⟩

end Gmars
