/- circular distance on a core of size M and the locality of folded pointers -/
import Gmars.Proofs.Fold

namespace Gmars.Spec

/-- distance between two addresses around the circular core -/
def circDist (M a b : Nat) : Nat := min ((a + M - b) % M) ((b + M - a) % M)

theorem mod_lt_two (a M : Nat) (h : a < 2 * M) : a % M = if a < M then a else a - M := by
  split
  · exact Nat.mod_eq_of_lt ‹_›
  · rw [Nat.mod_eq_sub_mod (by omega)]
    exact Nat.mod_eq_of_lt (by omega)

/-- the cell a folded pointer designates lies within half the limit of the base address -/
theorem fold_near (p L M pc : Nat) (hL : 0 < L) (hLM : L ≤ M) (hpc : pc < M) :
    circDist M ((pc + fold p L M) % M) pc ≤ L / 2 := by
  have hf := fold_lt p L M hL hLM
  have hr := fold_range p L M hL hLM
  generalize fold p L M = f at *
  unfold circDist
  rw [mod_lt_two (pc + f) M (by omega)]
  split
  · rw [mod_lt_two (pc + f + M - pc) M (by omega), mod_lt_two (pc + M - (pc + f)) M (by omega)]
    split <;> split <;> omega
  · rw [mod_lt_two (pc + f - M + M - pc) M (by omega), mod_lt_two (pc + M - (pc + f - M)) M (by omega)]
    split <;> split <;> omega

end Gmars.Spec
