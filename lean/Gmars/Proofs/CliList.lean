/-
  C16 for the tool: what `gmars -A` prints is, file by file, a listing that denotes the warrior
  the assembler produced for that file under the configuration the flags describe.

  `listing_roundtrip` (Props/C16) needs an entry point inside the code and, in the '88 dialect,
  legal '88 instructions: `assemble_wf` (Props/C06) provides both for every assembled warrior,
  given a core below 2^63 cells. For the tool that bound is not a hypothesis: a larger core makes
  `NewSimulator` panic in `make` before anything is printed (`cliAssembleRun`). The empty warrior
  (`LoadCode() = ""`) is covered too: the empty text reads back as the empty program with entry
  point 0, which is what the assembler returned.
-/
import Gmars.Model.CliList
import Gmars.Proofs.RoundTrip
import Gmars.Props.C06

namespace Gmars.Cli
open Gmars GoStr

/-- a file only assembles under a valid configuration (`newCompiler` validates it) -/
theorem assemble_ok_validate {cfg : Config} {src : List UInt8} {w : WarriorData}
    (h : assemble cfg src = .ok w) : cfg.validate = true := by
  obtain ⟨lines, ameta, hc⟩ := assemble_ok_from_compile h
  unfold Compile.compile at hc
  split at hc
  · rename_i w' hx
    exact (Compile.compileX_ok hx).1
  · cases hc
  · cases hc
  · cases hc

/-- the loop over the files: one warrior per file, in order, each the assembler's result -/
theorem assembleAll_ok {cfg : Config} : ∀ {files : List (List UInt8)} {ws : List WarriorData},
    assembleAll cfg files = .ok ws →
    ws.length = files.length ∧ ∀ p ∈ files.zip ws, assemble cfg p.1 = .ok p.2
  | [], ws, h => by
    simp only [assembleAll] at h
    cases h
    simp
  | f :: fs, ws, h => by
    simp only [assembleAll] at h
    split at h
    · rename_i w hw
      split at h
      · rename_i ws' hws
        cases h
        obtain ⟨hl, hz⟩ := assembleAll_ok hws
        refine ⟨by simp [hl], ?_⟩
        intro p hp
        simp only [List.zip_cons_cons, List.mem_cons] at hp
        rcases hp with rfl | hp
        · exact hw
        · exact hz p hp
      · cases h
    · cases h
    · cases h
    · cases h

/-- the warrior of the `i`-th file -/
theorem assembleAll_get {cfg : Config} {files : List (List UInt8)} {ws : List WarriorData}
    (h : assembleAll cfg files = .ok ws) (i : Nat) (hi : i < files.length) :
    ∃ hw : i < ws.length, assemble cfg files[i] = .ok ws[i] := by
  obtain ⟨hl, hz⟩ := assembleAll_ok h
  have hw : i < ws.length := hl ▸ hi
  refine ⟨hw, hz (files[i], ws[i]) ?_⟩
  rw [List.mem_iff_getElem]
  exact ⟨i, by rw [List.length_zip]; omega, by simp⟩

/-- if at least one file was assembled the configuration is valid: `NewSimulator` cannot fail
    in the `-A` branch (the `nilDeref` arm of `cliAssembleRun` is dead code, as in main.go) -/
theorem assembleAll_validate {cfg : Config} {files : List (List UInt8)} {ws : List WarriorData}
    (h : assembleAll cfg files = .ok ws) (hne : ws ≠ []) : cfg.validate = true := by
  obtain ⟨hl, hz⟩ := assembleAll_ok h
  match files, ws, hl, hz, hne with
  | f :: _, w :: _, _, hz, _ => exact assemble_ok_validate (hz (f, w) (by simp))
  | _, [], _, _, hne => exact absurd rfl hne

/-- `listingOf` is `LoadCode()` of a warrior added to the simulator `NewSimulator(cfg)` returns -/
theorem listingOf_sim {cfg : Config} {s : Sim} (h : Sim.new cfg = some s) (w : WarriorData) :
    loadCode s.m s.legacy w = listingOf cfg w := by
  unfold Sim.new at h
  split at h
  · cases h; rfl
  · cases h

/-- one file: the listing of an assembled warrior denotes that warrior. Hypotheses: the file
    assembles (which includes: the configuration is valid) and the core is below 2^63 cells
    (`assemble_wf` needs it: `int(m)` must not be negative in `reduceMod`). No hypothesis on the
    length: the empty warrior prints "" and "" reads back as the empty program, entry point 0. -/
theorem listing_denotes {cfg : Config} {src : List UInt8} {w : WarriorData}
    (h : assemble cfg src = .ok w) (h63 : cfg.coreSize.toNat < 2 ^ 63) :
    ∃ t, Spec.readText (listingOf cfg w) = some t ∧
      Spec.denotes cfg.coreSize.toNat t w.code.toList w.start = true := by
  obtain ⟨_, hst, _, h88⟩ := Props.C06.assemble_wf h h63
  rcases hst with ⟨h0, hs0⟩ | ⟨hs, hlt⟩
  · have hl : w.code.toList = [] := List.eq_nil_of_length_eq_zero (by simpa using h0)
    have he : listingOf cfg w = [] := by simp [listingOf, loadCode, h0]
    refine ⟨{ code := [], start := 0 }, ?_, ?_⟩
    · rw [he]; decide
    · rw [hl, hs0]; simp [Spec.denotes]
  · exact RoundTrip.listing_roundtrip_gen cfg.coreSize (cfg.mode == .icws88) w hs hlt
      (fun hl => h88 (by simpa using hl))

/-- the allocation limit of the Go runtime bounds the core far below 2^63 cells -/
theorem alloc_bound {m : Nat} (h : ¬ m * instrBytes > maxAlloc) : m < 2 ^ 63 := by
  simp only [instrBytes, maxAlloc] at h
  omega

/-- `cli_A_roundtrip` — whenever `gmars -A <flags> <files>` prints something (exit status 0),
    then for the configuration `cfg` the flags describe (`Cli.config`: a preset, or
    `NewQuickConfig` of `-8 -s -p -c -l`) there is one warrior per file (one or two files), in
    order, the `i`-th being what `CompileWarrior` returns for the `i`-th file under `cfg`; the
    output is the concatenation of `listing ++ "\n"` over the files; and each listing, read back
    with the reference reader `Spec.readText`, denotes (`Spec.denotes`, fields modulo the core
    size) exactly that warrior: its instructions and its entry point.

    No side condition is left to the caller: the validity of `cfg` follows from the assembler
    having accepted a file, the bound `core < 2^63` from the runtime's allocation limit
    (`NewSimulator` panics above 2^48/40 cells: no output), and empty warriors are included. -/
theorem cli_A_roundtrip {fl : Flags} {files : List (List UInt8)} {out : String}
    (h : cliAssembleOutput fl files = some out) :
    ∃ (cfg : Config) (ws : List WarriorData),
      config fl = some cfg ∧ cfg.validate = true ∧ cfg.coreSize.toNat < 2 ^ 63 ∧
      ws.length = files.length ∧ 1 ≤ files.length ∧ files.length ≤ 2 ∧
      (∀ p ∈ files.zip ws, assemble cfg p.1 = .ok p.2) ∧
      out = String.ofList ((ws.map (fun w => listingOf cfg w ++ ['\n'])).flatten) ∧
      ∀ w ∈ ws, ∃ t, Spec.readText (listingOf cfg w) = some t ∧
        Spec.denotes cfg.coreSize.toNat t w.code.toList w.start = true := by
  unfold cliAssembleOutput cliAssembleRun at h
  split at h
  · rename_i text hrun
    cases h
    split at hrun
    · cases hrun
    · rename_i cfg hcfg
      split at hrun
      · cases hrun
      · rename_i hlen
        split at hrun
        · rename_i r hr
          -- an error outcome is never `.out`
          have : ∀ {files ws'} , assembleAll cfg files = .error (.out ws') → False := by
            intro files
            induction files with
            | nil => intro ws' h; simp [assembleAll] at h
            | cons f fs ih =>
              intro ws' h
              simp only [assembleAll] at h
              split at h
              · split at h
                · cases h
                · rename_i r' hr'
                  cases h
                  exact ih hr'
              · cases h
              · cases h
              · cases h
          subst hrun
          exact (this hr).elim
        · rename_i ws hws
          split at hrun
          · cases hrun
          · rename_i hne
            split at hrun
            · cases hrun
            · rename_i hv
              split at hrun
              · cases hrun
              · rename_i halloc
                cases hrun
                obtain ⟨hl, hz⟩ := assembleAll_ok hws
                have h63 := alloc_bound halloc
                have hne' : ws ≠ [] := by
                  intro he; subst he; simp at hne
                refine ⟨cfg, ws, hcfg, by simpa using hv, h63, hl, ?_, by omega, hz, rfl, ?_⟩
                · have : 0 < ws.length := List.length_pos_iff.mpr hne'
                  omega
                · intro w hw
                  obtain ⟨i, hi, rfl⟩ := List.mem_iff_getElem.mp hw
                  obtain ⟨_, ha⟩ := assembleAll_get hws i (hl ▸ hi)
                  exact listing_denotes ha h63
  · cases h

/-- the same with the three hypotheses of the composition spelled out, for any configuration
    (not only one the flags can describe) and any number of files: if every file assembles and
    the core is below 2^63 cells, every listing in the text of the `-A` loop denotes its warrior -/
theorem listings_denote {cfg : Config} {files : List (List UInt8)} {ws : List WarriorData}
    (h : assembleAll cfg files = .ok ws) (h63 : cfg.coreSize.toNat < 2 ^ 63) :
    listings cfg ws = (ws.map (fun w => listingOf cfg w ++ ['\n'])).flatten ∧
    ∀ w ∈ ws, ∃ t, Spec.readText (listingOf cfg w) = some t ∧
      Spec.denotes cfg.coreSize.toNat t w.code.toList w.start = true := by
  refine ⟨rfl, ?_⟩
  intro w hw
  obtain ⟨hl, _⟩ := assembleAll_ok h
  obtain ⟨i, hi, rfl⟩ := List.mem_iff_getElem.mp hw
  obtain ⟨_, ha⟩ := assembleAll_get h i (hl ▸ hi)
  exact listing_denotes ha h63

/-! ### the whole thing on a two-line warrior -/

/-- the bytes of "mov 0, 1\ndat #3, 4001\n" -/
def twoLine : List UInt8 := "mov 0, 1\ndat #3, 4001\n".toList.map (fun c => UInt8.ofNat c.toNat)

/-- `gmars -A two.red` (default flags: ICWS'94, core 8000): ORG START first, modifiers printed,
    4001 shown as -3999 -/
theorem twoLine_default :
    cliAssembleOutput {} [twoLine] = some
      "       ORG      START\nSTART  MOV.I  $     0, $     1     \n       DAT.F  #     3, $ -3999     \n\n" := by
  decide +kernel

/-- `gmars -A -8 two.red`: no ORG line, no modifiers, END START last; under '88 rules the lone
    `$`-mode B operand of DAT is assembled as `#` -/
theorem twoLine_88 :
    cliAssembleOutput { use88 := true } [twoLine] = some
      "START  MOV    $     0, $     1     \n       DAT    #     3, # -3999     \n       END      START\n\n" := by
  decide +kernel

/-- the same file twice under a preset (`-preset nop256` wins over `-8 -s 55440`): two listings,
    each followed by the newline of `Println`; 4001 mod 256 = 161 is shown as -95 -/
example :
    cliAssembleOutput { preset := "nop256", use88 := true, size := 55440 } [twoLine, twoLine] = some
      ("       ORG      START\nSTART  MOV.I  $     0, $     1     \n       DAT.F  #     3, $   -95     \n\n" ++
       "       ORG      START\nSTART  MOV.I  $     0, $     1     \n       DAT.F  #     3, $   -95     \n\n") := by
  decide +kernel

/-- the listings read back: the reference reader finds the two instructions and the entry point -/
example :
    Spec.readText "       ORG      START\nSTART  MOV.I  $     0, $     1     \n       DAT.F  #     3, $ -3999     \n".toList =
      some { code := [(.mov, some .i, .direct, 0, .direct, 1), (.dat, some .f, .immediate, 3, .direct, -3999)],
             start := 0 } := by
  decide +kernel

example :
    Spec.readText "START  MOV    $     0, $     1     \n       DAT    #     3, # -3999     \n       END      START\n".toList =
      some { code := [(.mov, none, .direct, 0, .direct, 1), (.dat, none, .immediate, 3, .immediate, -3999)],
             start := 0 } := by
  decide +kernel

/-- `cli_A_roundtrip` applied to the run above: the configuration is the quick '88 configuration
    and the single listing denotes the assembled warrior -/
example : ∃ cfg w, config { use88 := true } = some cfg ∧ assemble cfg twoLine = .ok w ∧
    ∃ t, Spec.readText (listingOf cfg w) = some t ∧
      Spec.denotes cfg.coreSize.toNat t w.code.toList w.start = true := by
  obtain ⟨cfg, ws, hc, _, _, hl, _, _, hz, _, hd⟩ := cli_A_roundtrip twoLine_88
  match ws, hl with
  | [w], _ => exact ⟨cfg, w, hc, hz (twoLine, w) (by simp), hd w (by simp)⟩

/-- an empty program: `LoadCode()` is "", `Println` prints the bare newline -/
example : cliAssembleOutput {} ["; nothing\n".toList.map (fun c => UInt8.ofNat c.toNat)] = some "\n" := by
  decide +kernel

/-- nothing is printed when a file does not assemble (the second file here), for an unknown
    preset, for three files, for no file -/
example : cliAssembleOutput {} [twoLine, "mov 0,\n".toList.map (fun c => UInt8.ofNat c.toNat)] = none := by
  decide +kernel
example : cliAssembleOutput { preset := "bogus" } [twoLine] = none := by decide +kernel
example : cliAssembleOutput {} [twoLine, twoLine, twoLine] = none := by decide +kernel
example : cliAssembleOutput {} [] = none := by decide +kernel

/-- `-s -1` is the core size 2^64-1: the file assembles, `NewSimulator` panics in `make` -/
example : ∃ pn, cliAssembleRun { size := -1 } [twoLine] = .fault (.panic pn) ∧ pn = .makeLen := by
  refine ⟨.makeLen, ?_, rfl⟩
  have : (match cliAssembleRun { size := -1 } [twoLine] with
          | .fault (.panic .makeLen) => true | _ => false) = true := by decide +kernel
  split at this <;> simp_all

end Gmars.Cli
