/-
  The fixpoint loop of `expandExpression` (Gmars/Model/Compile.lean) never runs out of
  its fuel once `compile()` has passed the cycle check, and the compiler stage has no
  other way to panic: the ingredients of `compile_no_fault` (Gmars/Proofs/CompileWF.lean).
-/
import Gmars.Model.Compile

namespace Gmars
namespace Compile

/-! ## 0. the `Except` monad -/

theorem bind_eq_ok {ε α β : Type} {x : Except ε α} {f : α → Except ε β} {b : β}
    (h : (x >>= f) = .ok b) : ∃ a, x = .ok a ∧ f a = .ok b := by
  cases x with
  | error e => cases h
  | ok a => exact ⟨a, rfl, h⟩

theorem optM_eq_ok {α : Type} {o : Option α} {a : α} (h : optM o = .ok a) : o = some a := by
  cases o with
  | none => cases h
  | some x => cases h; rfl

/-- the computation neither panics nor hangs -/
def NoFault {α : Type} (x : M α) : Prop := ∀ f, x ≠ .error (.fault f)

theorem NoFault.ok {α : Type} (a : α) : NoFault (.ok a : M α) := fun _ h => by cases h
theorem NoFault.pure {α : Type} (a : α) : NoFault (Pure.pure a : M α) := fun _ h => by cases h
theorem NoFault.goErr {α : Type} : NoFault (.error .goErr : M α) := fun _ h => by cases h
theorem NoFault.unmodelled {α : Type} : NoFault (.error .unmodelled : M α) := fun _ h => by cases h

theorem NoFault.bind {α β : Type} {x : M α} {g : α → M β} (hx : NoFault x)
    (hg : ∀ a, x = .ok a → NoFault (g a)) : NoFault (x >>= g) := by
  cases x with
  | error e =>
    intro f h
    have h' : (Except.error e : M β) = .error (.fault f) := h
    cases h'
    exact hx f rfl
  | ok a => exact hg a rfl

theorem NoFault.optM {α : Type} (o : Option α) : NoFault (optM o) := by
  cases o with
  | none => exact NoFault.goErr
  | some a => exact NoFault.ok a

theorem NoFault.evalM (ts : List Token) : NoFault (evalM ts) := by
  unfold Compile.evalM
  split
  · exact NoFault.ok _
  · exact NoFault.goErr
  · exact NoFault.unmodelled

/-! ## 1. `int(c.m)` -/

/-- `int(c.m)` is zero only for a zero core size -/
theorem mInt_eq_zero {m : UInt64} (h : mInt m = 0) : m = 0 := by
  have hlt := m.toNat_lt
  unfold mInt wrap64 at h
  simp only [Int.ofNat_eq_natCast] at h
  apply UInt64.toNat_inj.mp
  simp only [UInt64.toNat_zero]
  split at h <;> omega

theorem reduceMod_noFault {v m : Int} (hm : m ≠ 0) : NoFault (reduceMod v m) := by
  unfold reduceMod
  rw [if_neg (by simpa using hm)]
  exact NoFault.ok _

/-! ## 2. ranked tables: one round of the loop lowers the depth of every text token -/

/-- depth of a token under a rank function on names: 0 for anything but a text token -/
def tokDepth (d : String → Nat) (t : Token) : Nat := if t.typ = .text then d t.val + 1 else 0

/-- `d` strictly decreases from a key of `values` to the text tokens of its value -/
def Ranked (values : SymTab) (d : String → Nat) : Prop :=
  ∀ k v, values.get? k = some v → ∀ t ∈ v, t.typ = .text → d t.val < d k

theorem expandTok_noFault {c : Compiler} (hm : mInt c.m ≠ 0) (line : Int) (t : Token) :
    NoFault (expandTok c line t) := by
  unfold expandTok
  split
  · split
    · exact NoFault.ok _
    · split
      · simp only
        rw [if_neg (by simpa using hm)]
        split
        · exact NoFault.ok _
        · exact NoFault.ok _
      · exact NoFault.goErr
  · exact NoFault.ok _

theorem expandTok_depth {c : Compiler} {d : String → Nat} (hr : Ranked c.values d) {line : Int}
    {t : Token} {out : List Token} (h : expandTok c line t = .ok out) :
    (t.typ ≠ .text ∧ out = [t]) ∨ (t.typ = .text ∧ ∀ t' ∈ out, tokDepth d t' < tokDepth d t) := by
  unfold expandTok at h
  split at h
  · rename_i htxt
    have htxt : t.typ = .text := by simpa using htxt
    right
    refine ⟨htxt, ?_⟩
    have hdt : tokDepth d t = d t.val + 1 := by unfold tokDepth; rw [if_pos htxt]
    split at h
    · rename_i v hv
      cases h
      intro t' ht'
      rw [hdt]
      unfold tokDepth
      split
      · rename_i h'
        have := hr _ _ hv t' ht' h'
        omega
      · omega
    · split at h
      · simp only at h
        split at h
        · cases h
        · split at h
          · cases h
            intro t' ht'
            rw [hdt]
            simp only [List.mem_cons, List.not_mem_nil, or_false] at ht'
            rcases ht' with rfl | rfl
            · unfold tokDepth; simp
            · unfold tokDepth numTok; simp
          · cases h
            intro t' ht'
            rw [hdt]
            simp only [List.mem_cons, List.not_mem_nil, or_false] at ht'
            subst ht'
            unfold tokDepth numTok; simp
      · cases h
  · rename_i htxt
    cases h
    left
    exact ⟨by simpa using htxt, rfl⟩

theorem expandOnce_noFault {c : Compiler} (hm : mInt c.m ≠ 0) (line : Int) (ts : List Token) :
    NoFault (expandOnce c line ts) := by
  induction ts with
  | nil => exact NoFault.ok _
  | cons t r ih =>
    unfold expandOnce
    exact NoFault.bind (expandTok_noFault hm line t) fun _ _ =>
      NoFault.bind ih fun _ _ => NoFault.pure _

/-- one round brings every token of depth `≤ n + 1` down to depth `≤ n` -/
theorem expandOnce_depth {c : Compiler} {d : String → Nat} (hr : Ranked c.values d) {line : Int}
    {n : Nat} : ∀ {ts out : List Token}, expandOnce c line ts = .ok out →
      (∀ t ∈ ts, tokDepth d t ≤ n + 1) → ∀ t' ∈ out, tokDepth d t' ≤ n := by
  intro ts
  induction ts with
  | nil =>
    intro out h _ t' ht'
    unfold expandOnce at h
    cases h
    cases ht'
  | cons t r ih =>
    intro out h hts t' ht'
    unfold expandOnce at h
    obtain ⟨x, hx, h⟩ := bind_eq_ok h
    obtain ⟨rest, hrest, h⟩ := bind_eq_ok h
    cases h
    rcases List.mem_append.mp ht' with ht' | ht'
    · rcases expandTok_depth hr hx with ⟨hnt, rfl⟩ | ⟨_, hlt⟩
      · simp only [List.mem_cons, List.not_mem_nil, or_false] at ht'
        subst ht'
        unfold tokDepth
        rw [if_neg hnt]
        omega
      · have := hlt t' ht'
        have := hts t (List.mem_cons_self ..)
        omega
    · exact ih hrest (fun t ht => hts t (List.mem_cons_of_mem _ ht)) t' ht'

/-- a round over a list without text tokens changes nothing -/
theorem expandOnce_id {c : Compiler} {d : String → Nat} {line : Int} :
    ∀ {ts : List Token}, (∀ t ∈ ts, tokDepth d t ≤ 0) → expandOnce c line ts = .ok ts := by
  intro ts
  induction ts with
  | nil => intro _; rfl
  | cons t r ih =>
    intro hts
    unfold expandOnce
    have ht : t.typ ≠ .text := by
      intro h
      have := hts t (List.mem_cons_self ..)
      unfold tokDepth at this
      rw [if_pos h] at this
      omega
    have : expandTok c line t = .ok [t] := by
      unfold expandTok
      rw [if_neg (by simpa using ht)]
    rw [this, ih (fun t ht => hts t (List.mem_cons_of_mem _ ht))]
    rfl

theorem expandLoop_noFault {c : Compiler} {d : String → Nat} (hm : mInt c.m ≠ 0)
    (hr : Ranked c.values d) (line : Int) :
    ∀ (fuel n : Nat) (ts : List Token), (∀ t ∈ ts, tokDepth d t ≤ n) → n < fuel →
      NoFault (expandLoop c line fuel ts) := by
  intro fuel
  induction fuel with
  | zero => intro n ts _ h; omega
  | succ fuel ih =>
    intro n ts hts hn
    unfold expandLoop
    refine NoFault.bind (expandOnce_noFault hm line ts) fun out hout => ?_
    split
    · exact NoFault.pure _
    · rename_i hne
      cases n with
      | zero =>
        rw [expandOnce_id hts] at hout
        cases hout
        simp at hne
      | succ n =>
        exact ih n out (expandOnce_depth hr hout hts) (by omega)

/-- on a ranked table whose ranks stay below the number of entries the loop of
    `expandExpression` ends within its fuel -/
theorem expandExpression_noFault {c : Compiler} {d : String → Nat} (hm : mInt c.m ≠ 0)
    (hr : Ranked c.values d) (hd : ∀ s, d s ≤ c.values.length) (expr : List Token) (line : Int) :
    NoFault (expandExpression c expr line) := by
  unfold expandExpression
  split
  · exact NoFault.ok _
  · refine expandLoop_noFault hm hr line _ (c.values.length + 1) expr ?_ (by omega)
    intro t _
    unfold tokDepth
    split
    · have := hd t.val; omega
    · omega

/-! ## 3. association lists -/

theorem SymTab.has_eq (m : SymTab) (k : String) : m.has k = (m.get? k).isSome := by
  unfold SymTab.has SymTab.get?
  cases m.find? (·.1 == k) <;> rfl

theorem SymTab.get?_set_self (m : SymTab) (k : String) (v : List Token) :
    (m.set k v).get? k = some v := by
  unfold SymTab.set
  split
  · rename_i h
    unfold SymTab.get?
    rw [List.find?_map]
    have hf : ((fun x : String × List Token => x.1 == k) ∘
        fun x : String × List Token => if (x.1 == k) = true then (x.1, v) else (x.1, x.2)) =
        fun x => x.1 == k := by
      funext x
      simp only [Function.comp]
      split <;> rfl
    rw [hf]
    unfold SymTab.has at h
    cases hfind : m.find? (·.1 == k) with
    | none => rw [hfind] at h; cases h
    | some x =>
      have := List.find?_some hfind
      simp only [Option.map_some]
      rw [if_pos this]
  · rename_i h
    unfold SymTab.get?
    unfold SymTab.has at h
    rw [List.find?_append]
    cases hfind : m.find? (·.1 == k) with
    | some x => rw [hfind] at h; simp at h
    | none => simp

theorem SymTab.get?_set_ne (m : SymTab) {k k' : String} (v : List Token) (hne : k' ≠ k) :
    (m.set k v).get? k' = m.get? k' := by
  unfold SymTab.set
  split
  · unfold SymTab.get?
    rw [List.find?_map]
    have hf : ((fun x : String × List Token => x.1 == k') ∘
        fun x : String × List Token => if (x.1 == k) = true then (x.1, v) else (x.1, x.2)) =
        fun x => x.1 == k' := by
      funext x
      simp only [Function.comp]
      split <;> rfl
    rw [hf]
    cases hfind : m.find? (·.1 == k') with
    | none => rfl
    | some x =>
      have hx : x.1 = k' := by simpa using List.find?_some hfind
      simp only [Option.map_some]
      rw [if_neg (by rw [hx]; simpa using hne)]
  · unfold SymTab.get?
    rw [List.find?_append]
    have : List.find? (fun x : String × List Token => x.1 == k') [(k, v)] = none := by
      simp only [List.find?_cons, List.find?_nil]
      have : (k == k') = false := by simpa using (Ne.symm hne)
      rw [this]
    rw [this, Option.or_none]

theorem SymTab.has_set (m : SymTab) (k k' : String) (v : List Token) :
    (m.set k v).has k' = (k' == k || m.has k') := by
  by_cases h : k' = k
  · subst h
    rw [SymTab.has_eq, SymTab.get?_set_self]
    simp
  · rw [SymTab.has_eq, SymTab.get?_set_ne m v h, ← SymTab.has_eq]
    have : (k' == k) = false := by simpa using h
    rw [this, Bool.false_or]

theorem SymTab.length_pos_of_has {m : SymTab} {k : String} (h : m.has k = true) : 0 < m.length := by
  cases m with
  | nil => cases h
  | cons _ _ => simp

/-! ## 4. the reference graph -/

/-- the adjacency list `buildReferenceGraph` computes for one value -/
def refsOf (values : SymTab) (toks : List Token) : List String :=
  toks.foldl (fun (acc : List String) t =>
    if t.typ != .text then acc
    else if values.has t.val then (if acc.contains t.val then acc else acc ++ [t.val]) else acc) []

def graphEntry (values : SymTab) (e : String × List Token) : Option (String × List String) :=
  if e.2.isEmpty then none else some (e.1, refsOf values e.2)

theorem buildReferenceGraph_eq (values : SymTab) :
    buildReferenceGraph values = values.filterMap (graphEntry values) := rfl

theorem refs_foldl_mem (values : SymTab) (toks : List Token) :
    ∀ acc : List String,
      (∀ s ∈ acc, s ∈ toks.foldl (fun (acc : List String) t =>
        if t.typ != .text then acc
        else if values.has t.val then (if acc.contains t.val then acc else acc ++ [t.val]) else acc) acc) ∧
      (∀ t ∈ toks, t.typ = .text → values.has t.val = true →
        t.val ∈ toks.foldl (fun (acc : List String) t =>
        if t.typ != .text then acc
        else if values.has t.val then (if acc.contains t.val then acc else acc ++ [t.val]) else acc) acc) := by
  induction toks with
  | nil =>
    intro acc
    exact ⟨fun s hs => hs, fun t ht => by cases ht⟩
  | cons t r ih =>
    intro acc
    rw [List.foldl_cons]
    constructor
    · intro s hs
      refine (ih _).1 s ?_
      split
      · exact hs
      · split
        · split
          · exact hs
          · exact List.mem_append_left _ hs
        · exact hs
    · intro t' ht' htxt hhas
      rcases List.mem_cons.mp ht' with rfl | ht'
      · refine (ih _).1 _ ?_
        rw [if_neg (by simpa using htxt), if_pos hhas]
        split
        · rename_i hc
          simpa using hc
        · exact List.mem_append_right _ (List.mem_singleton_self _)
      · exact (ih _).2 t' ht' htxt hhas

/-- every text token of a value that names a key of the table is in the adjacency list -/
theorem mem_refsOf {values : SymTab} {toks : List Token} {t : Token} (ht : t ∈ toks)
    (htxt : t.typ = .text) (hhas : values.has t.val = true) : t.val ∈ refsOf values toks :=
  (refs_foldl_mem values toks []).2 t ht htxt hhas

/-- the graph has the adjacency list of every key with a non-empty value -/
theorem graph_get?_of_get? (vals : SymTab) {key : String} {value : List Token} :
    ∀ (l : SymTab), l.get? key = some value → value ≠ [] →
      Graph.get? (l.filterMap (graphEntry vals)) key = some (refsOf vals value) := by
  intro l
  induction l with
  | nil => intro h; cases h
  | cons e l ih =>
    intro h hne
    unfold SymTab.get? at h
    rw [List.find?_cons] at h
    split at h
    · rename_i hk
      simp only [Option.map_some, Option.some.injEq] at h
      have hg : graphEntry vals e = some (e.1, refsOf vals value) := by
        unfold graphEntry
        rw [h, if_neg (by simpa using hne)]
      rw [List.filterMap_cons, hg]
      unfold Graph.get?
      rw [List.find?_cons_of_pos (by exact hk)]
      rfl
    · rename_i hk
      have ih' := ih h hne
      rw [List.filterMap_cons]
      cases hg : graphEntry vals e with
      | none => exact ih'
      | some x =>
        have hx : x.1 = e.1 := by
          unfold graphEntry at hg
          split at hg
          · cases hg
          · cases hg; rfl
        simp only
        unfold Graph.get?
        rw [List.find?_cons_of_neg (by rw [hx, hk]; exact Bool.false_ne_true)]
        exact ih'

/-- the keys of the graph are keys of the table -/
theorem has_of_graph_get? (vals : SymTab) {key : String} {refs : List String} :
    ∀ (l : SymTab), Graph.get? (l.filterMap (graphEntry vals)) key = some refs → l.has key = true := by
  intro l
  induction l with
  | nil => intro h; cases h
  | cons e l ih =>
    intro h
    unfold SymTab.has
    rw [List.find?_cons]
    split
    · rfl
    · rename_i hk
      rw [List.filterMap_cons] at h
      cases hg : graphEntry vals e with
      | none =>
        rw [hg] at h
        exact ih h
      | some x =>
        rw [hg] at h
        have hx : x.1 = e.1 := by
          unfold graphEntry at hg
          split at hg
          · cases hg
          · cases hg; rfl
        simp only at h
        unfold Graph.get? at h
        rw [List.find?_cons_of_neg (by rw [hx, hk]; exact Bool.false_ne_true)] at h
        exact ih h

/-! ## 5. ranks from the cycle check -/

def maxOf (f : String → Nat) : List String → Nat
  | [] => 0
  | r :: rs => max (f r) (maxOf f rs)

theorem le_maxOf {f : String → Nat} {rs : List String} {r : String} (h : r ∈ rs) :
    f r ≤ maxOf f rs := by
  induction rs with
  | nil => cases h
  | cons x xs ih =>
    unfold maxOf
    rcases List.mem_cons.mp h with rfl | h
    · exact Nat.le_max_left ..
    · exact Nat.le_trans (ih h) (Nat.le_max_right ..)

theorem maxOf_le {f : String → Nat} {rs : List String} {n : Nat} (h : ∀ r ∈ rs, f r ≤ n) :
    maxOf f rs ≤ n := by
  induction rs with
  | nil => exact Nat.zero_le _
  | cons x xs ih =>
    unfold maxOf
    exact Nat.max_le.mpr ⟨h x (List.mem_cons_self ..), ih fun r hr => h r (List.mem_cons_of_mem _ hr)⟩

theorem maxOf_congr {f g : String → Nat} {rs : List String} (h : ∀ r ∈ rs, f r = g r) :
    maxOf f rs = maxOf g rs := by
  induction rs with
  | nil => rfl
  | cons x xs ih =>
    unfold maxOf
    rw [h x (List.mem_cons_self ..), ih fun r hr => h r (List.mem_cons_of_mem _ hr)]

/-- height of a node: the number of nodes on the longest path starting there, cut off at `fuel` -/
def rk (g : Graph) : Nat → String → Nat
  | 0, _ => 0
  | fuel + 1, k =>
    match g.get? k with
    | none => 0
    | some refs => 1 + maxOf (rk g fuel) refs

theorem rk_of_none {g : Graph} {k : String} (h : g.get? k = none) (fuel : Nat) : rk g fuel k = 0 := by
  cases fuel with
  | zero => rfl
  | succ f => unfold rk; rw [h]

theorem nodeContainsCycle_false {fuel : Nat} {node : String} {g : Graph} {visited : List String}
    (h : nodeContainsCycle (fuel + 1) node g visited = false) {refs : List String}
    (hg : g.get? node = some refs) :
    ∀ r ∈ refs, (visited ++ [node]).contains r = false ∧
      nodeContainsCycle fuel r g (visited ++ [node]) = false := by
  unfold nodeContainsCycle at h
  simp only [hg] at h
  intro r hr
  have := (List.any_eq_false.mp h) r hr
  simpa only [Bool.or_eq_true, not_or, Bool.not_eq_true] using this

/-- a search that ends without finding a cycle has seen the full height of the node -/
theorem rk_stable {g : Graph} :
    ∀ (fuel : Nat) (k : String) (visited : List String),
      nodeContainsCycle fuel k g visited = false → ∀ fuel', fuel ≤ fuel' → rk g fuel' k = rk g fuel k := by
  intro fuel
  induction fuel with
  | zero =>
    intro k visited h
    unfold nodeContainsCycle at h
    cases h
  | succ fuel ih =>
    intro k visited h fuel' hle
    obtain ⟨f', rfl⟩ : ∃ f', fuel' = f' + 1 := ⟨fuel' - 1, by omega⟩
    unfold rk
    cases hg : g.get? k with
    | none => rfl
    | some refs =>
      simp only
      have hrefs := nodeContainsCycle_false h hg
      rw [maxOf_congr (f := rk g f') (g := rk g fuel)
        (fun r hr => ih r _ (hrefs r hr).2 f' (by omega))]

theorem mem_keys_of_get? {g : Graph} {k : String} {refs : List String} (h : g.get? k = some refs) :
    (k, refs) ∈ g := by
  unfold Graph.get? at h
  cases hf : g.find? (·.1 == k) with
  | none => rw [hf] at h; cases h
  | some e =>
    rw [hf] at h
    simp only [Option.map_some, Option.some.injEq] at h
    have h1 : e.1 = k := by simpa using List.find?_some hf
    have := List.mem_of_find?_eq_some hf
    rw [← h1, ← h]
    exact this

/-- the path searched so far plus the height still below stays within the number of nodes -/
theorem rk_bound {g : Graph} :
    ∀ (fuel : Nat) (k : String) (visited : List String),
      nodeContainsCycle fuel k g visited = false → visited.Nodup →
      (∀ x ∈ visited, (g.get? x).isSome = true) → k ∉ visited → (g.get? k).isSome = true →
      rk g fuel k + visited.length ≤ g.length := by
  intro fuel
  induction fuel with
  | zero =>
    intro k visited h
    unfold nodeContainsCycle at h
    cases h
  | succ fuel ih =>
    intro k visited h hnd hkeys hk hsome
    cases hg : g.get? k with
    | none => rw [hg] at hsome; cases hsome
    | some refs =>
      have hrefs := nodeContainsCycle_false h hg
      have hnd' : (visited ++ [k]).Nodup := by
        rw [List.nodup_append]
        refine ⟨hnd, by simp, ?_⟩
        intro a ha b hb
        simp only [List.mem_singleton] at hb
        subst hb
        intro hab
        subst hab
        exact hk ha
      have hkeys' : ∀ x ∈ visited ++ [k], (g.get? x).isSome = true := by
        intro x hx
        rcases List.mem_append.mp hx with hx | hx
        · exact hkeys x hx
        · simp only [List.mem_singleton] at hx
          subst hx
          exact hsome
      have hlen : (visited ++ [k]).length ≤ g.length := by
        have hsub : (visited ++ [k]) ⊆ g.map (·.1) := by
          intro x hx
          have := hkeys' x hx
          cases hx' : g.get? x with
          | none => rw [hx'] at this; cases this
          | some rs => exact List.mem_map.mpr ⟨_, mem_keys_of_get? hx', rfl⟩
        have := List.Nodup.length_le_of_subset hnd' hsub
        rwa [List.length_map] at this
      unfold rk
      simp only [hg]
      have : maxOf (rk g fuel) refs + (visited.length + 1) ≤ g.length := by
        have : maxOf (rk g fuel) refs ≤ g.length - (visited.length + 1) := by
          apply maxOf_le
          intro r hr
          cases hr' : g.get? r with
          | none => rw [rk_of_none hr']; exact Nat.zero_le _
          | some rs =>
            have hnot : r ∉ visited ++ [k] := by
              have := (hrefs r hr).1
              simpa using this
            have := ih r (visited ++ [k]) (hrefs r hr).2 hnd' hkeys' hnot (by rw [hr']; rfl)
            simp only [List.length_append, List.length_singleton] at this
            omega
        simp only [List.length_append, List.length_singleton] at hlen
        omega
      omega

/-- the rank function the cycle check certifies -/
def graphRank (g : Graph) (s : String) : Nat := rk g (g.length + 2) s

theorem graph_root {g : Graph} (hc : graphContainsCycle g = false) {k : String} {refs : List String}
    (hg : g.get? k = some refs) : nodeContainsCycle (g.length + 2) k g [] = false := by
  unfold graphContainsCycle at hc
  have := (List.any_eq_false.mp hc) _ (mem_keys_of_get? hg)
  simpa using this

theorem graphRank_le {g : Graph} (hc : graphContainsCycle g = false) (s : String) :
    graphRank g s ≤ g.length := by
  unfold graphRank
  cases hg : g.get? s with
  | none => rw [rk_of_none hg]; exact Nat.zero_le _
  | some refs =>
    have := rk_bound (g.length + 2) s [] (graph_root hc hg) List.nodup_nil
      (fun x hx => by cases hx) (fun hx => by cases hx) (by rw [hg]; rfl)
    simpa using this

theorem graphRank_pos {g : Graph} {k : String} {refs : List String} (hg : g.get? k = some refs) :
    0 < graphRank g k := by
  unfold graphRank rk
  simp only [hg]
  omega

theorem graphRank_lt {g : Graph} (hc : graphContainsCycle g = false) {k : String}
    {refs : List String} (hg : g.get? k = some refs) {r : String} (hr : r ∈ refs) :
    graphRank g r < graphRank g k := by
  have hroot := graph_root hc hg
  have hrefs := nodeContainsCycle_false hroot hg
  have hst := rk_stable (g.length + 1) r _ (hrefs r hr).2 (g.length + 2) (by omega)
  unfold graphRank
  rw [hst]
  conv => rhs; unfold rk
  simp only [hg]
  have := le_maxOf (f := rk g (g.length + 1)) hr
  omega

/-- a table that passed `graphContainsCycle` is ranked, with ranks up to its number of entries -/
theorem ranked_of_acyclic {values : SymTab}
    (hc : graphContainsCycle (buildReferenceGraph values) = false) :
    Ranked values (graphRank (buildReferenceGraph values)) ∧
      ∀ s, graphRank (buildReferenceGraph values) s ≤ values.length := by
  constructor
  · intro k v hv t ht htxt
    have hne : v ≠ [] := by intro h; subst h; cases ht
    have hg := graph_get?_of_get? values values hv hne
    rw [← buildReferenceGraph_eq] at hg
    cases hhas : values.has t.val with
    | true => exact graphRank_lt hc hg (mem_refsOf ht htxt hhas)
    | false =>
      have hnone : (buildReferenceGraph values).get? t.val = none := by
        cases hx : (buildReferenceGraph values).get? t.val with
        | none => rfl
        | some rs =>
          rw [buildReferenceGraph_eq] at hx
          rw [has_of_graph_get? values values hx] at hhas
          cases hhas
      unfold graphRank
      rw [rk_of_none hnone]
      exact graphRank_pos hg
  · intro s
    refine Nat.le_trans (graphRank_le hc s) ?_
    rw [buildReferenceGraph_eq]
    exact List.length_filterMap_le _ _

/-! ## 6. the table `expandExpressions` builds is fully expanded -/

/-- `res` has keys of `values` only and no text token of its values names a key of `values` -/
def ResInv (values res : SymTab) : Prop :=
  (∀ k, res.has k = true → values.has k = true) ∧
  (∀ k v, res.get? k = some v → ∀ t ∈ v, t.typ = .text → values.has t.val = false)

def Mono (res res' : SymTab) : Prop := ∀ k, res.has k = true → res'.has k = true

theorem fold_none {β : Type} (π : β → String) (E : String → SymTab → Option SymTab) (l : List β) :
    l.foldl (fun (acc : Option SymTab) x =>
      match acc with
      | none => none
      | some r => if r.has (π x) then some r else E (π x) r) none = none := by
  induction l with
  | nil => rfl
  | cons x xs ih => rw [List.foldl_cons]; exact ih

theorem fold_inv {β : Type} {values : SymTab} (π : β → String)
    (E : String → SymTab → Option SymTab)
    (hE : ∀ dep res res', ResInv values res → E dep res = some res' →
      ResInv values res' ∧ Mono res res' ∧ res'.has dep = true) :
    ∀ (l : List β) (res res' : SymTab), ResInv values res →
      l.foldl (fun (acc : Option SymTab) x =>
        match acc with
        | none => none
        | some r => if r.has (π x) then some r else E (π x) r) (some res) = some res' →
      ResInv values res' ∧ Mono res res' ∧ ∀ x ∈ l, res'.has (π x) = true := by
  intro l
  induction l with
  | nil =>
    intro res res' hinv h
    cases h
    exact ⟨hinv, fun k hk => hk, fun x hx => by cases hx⟩
  | cons x xs ih =>
    intro res res' hinv h
    rw [List.foldl_cons] at h
    simp only at h
    by_cases hx : res.has (π x) = true
    · rw [if_pos hx] at h
      obtain ⟨h1, h2, h3⟩ := ih res res' hinv h
      refine ⟨h1, h2, ?_⟩
      intro y hy
      rcases List.mem_cons.mp hy with rfl | hy
      · exact h2 _ hx
      · exact h3 y hy
    · rw [if_neg hx] at h
      cases hEx : E (π x) res with
      | none => rw [hEx, fold_none] at h; cases h
      | some r1 =>
        rw [hEx] at h
        obtain ⟨i1, m1, k1⟩ := hE _ _ _ hinv hEx
        obtain ⟨h1, h2, h3⟩ := ih r1 res' i1 h
        refine ⟨h1, fun k hk => h2 k (m1 k hk), ?_⟩
        intro y hy
        rcases List.mem_cons.mp hy with rfl | hy
        · exact h2 _ k1
        · exact h3 y hy

theorem expandValue_inv (values : SymTab) :
    ∀ (fuel : Nat) (key : String) (res res' : SymTab), ResInv values res →
      expandValue fuel key values res (buildReferenceGraph values) = some res' →
      ResInv values res' ∧ Mono res res' ∧ res'.has key = true := by
  intro fuel
  induction fuel with
  | zero =>
    intro key res res' _ h
    unfold expandValue at h
    cases h
  | succ fuel ih =>
    intro key res res' hinv h
    unfold expandValue at h
    cases hv : values.get? key with
    | none => rw [hv] at h; cases h
    | some value =>
      rw [hv] at h
      simp only at h
      by_cases hk : res.has key = true
      · rw [if_pos hk] at h
        cases h
        exact ⟨hinv, fun k hk => hk, hk⟩
      · rw [if_neg hk] at h
        split at h
        · cases h
        · rename_i r2 hfold
          cases h
          obtain ⟨i2, m2, d2⟩ := fold_inv (values := values) (fun s : String => s)
            (fun dep r => expandValue fuel dep values r (buildReferenceGraph values))
            (fun dep r r' hr he => ih dep r r' hr he) _ res r2 hinv hfold
          have hvk : values.has key = true := by rw [SymTab.has_eq, hv]; rfl
          refine ⟨⟨?_, ?_⟩, ?_, ?_⟩
          · intro k hk'
            rw [SymTab.has_set] at hk'
            rcases Bool.or_eq_true_iff.mp hk' with hk' | hk'
            · have : k = key := by simpa using hk'
              rw [this]; exact hvk
            · exact i2.1 k hk'
          · intro k v hkv t' ht' htxt
            by_cases hkk : k = key
            · subst hkk
              rw [SymTab.get?_set_self] at hkv
              cases hkv
              obtain ⟨t, ht, ht'⟩ := List.mem_flatMap.mp ht'
              split at ht'
              · rename_i httxt
                have httxt : t.typ = .text := by simpa using httxt
                split at ht'
                · rename_i v hv2
                  exact i2.2 _ _ hv2 t' ht' htxt
                · rename_i hnone
                  simp only [List.mem_singleton] at ht'
                  subst ht'
                  cases hhas : values.has t'.val with
                  | false => rfl
                  | true =>
                    have hne : value ≠ [] := by intro h; subst h; cases ht
                    have hg := graph_get?_of_get? values values hv hne
                    rw [← buildReferenceGraph_eq] at hg
                    have := d2 t'.val (by rw [hg]; exact mem_refsOf ht htxt hhas)
                    rw [SymTab.has_eq, hnone] at this
                    cases this
              · rename_i hnt
                simp only [List.mem_singleton] at ht'
                subst ht'
                exact absurd (by simpa using htxt) hnt
            · rw [SymTab.get?_set_ne _ _ hkk] at hkv
              exact i2.2 _ _ hkv t' ht' htxt
          · intro k hk'
            rw [SymTab.has_set, m2 k hk', Bool.or_true]
          · rw [SymTab.has_set]
            simp

theorem ResInv_nil (values : SymTab) : ResInv values [] :=
  ⟨fun k hk => (by cases hk), fun k v hk => (by cases hk)⟩

/-- the table `compile()` expands with after `expandExpressions` is ranked: rank 1 for its
    keys, rank 0 for every other name -/
theorem ranked_of_expandExpressions {values resolved : SymTab}
    (h : expandExpressions values (buildReferenceGraph values) = some resolved) :
    Ranked resolved (fun s => if resolved.has s then 1 else 0) ∧
      ∀ s, (fun s => if resolved.has s then 1 else 0) s ≤ resolved.length := by
  have hinv : ResInv values resolved := by
    unfold expandExpressions at h
    have := fold_inv (values := values) (fun e : String × List Token => e.1)
      (fun dep r => expandValue (values.length + 2) dep values r (buildReferenceGraph values))
      (fun dep r r' hr he => expandValue_inv values _ dep r r' hr he) values [] resolved
      (ResInv_nil values) h
    exact this.1
  constructor
  · intro k v hkv t ht htxt
    have h1 : resolved.has k = true := by rw [SymTab.has_eq, hkv]; rfl
    have h2 : resolved.has t.val = false := by
      cases hh : resolved.has t.val with
      | false => rfl
      | true =>
        have := hinv.2 k v hkv t ht htxt
        rw [hinv.1 _ hh] at this
        cases this
    simp only [h1, h2, if_true]
    decide
  · intro s
    simp only
    split
    · rename_i hh
      exact SymTab.length_pos_of_has hh
    · exact Nat.zero_le _

end Compile
end Gmars
