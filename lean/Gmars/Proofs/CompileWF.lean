/-
  C06 "accepted programs are well-formed and obey the selected rule set":
  properties of the model of the compiler stage (Gmars/Model/Compile.lean).
-/
import Gmars.Model.Compile
import Gmars.Proofs.LoadOK
import Gmars.Proofs.CompileExpand

namespace Gmars
namespace Compile

/-! ## 1. `compileX` and `assembleLine` as plain bind chains -/

/-- the compiler state `compile()` works with after `loadSymbols` -/
def symC (cfg : Config) (lines : List SourceLine) : Compiler := loadSymbols { cfg := cfg } lines

/-- … and after `expandExpressions` -/
def resC (cfg : Config) (lines : List SourceLine) (resolved : SymTab) : Compiler :=
  { symC cfg lines with values := resolved }

/-- the tail of `compile()`: length check, start expression, start check -/
def finishX (cfg : Config) (ameta : AsmMeta) (c : Compiler) (code : Array Instr) : M WarriorData :=
  if code.size > cfg.length.toNat then .error .goErr
  else
    expandExpression c c.startExpr 0 >>= fun startExpr =>
    evalM startExpr >>= fun startVal =>
    if startVal < 0 || (startVal ≥ code.size && startVal != 0) then .error .goErr
    else .ok { name := ameta.name, author := ameta.author, strategy := ameta.strategy,
               code := code, start := startVal }

theorem compileX_eq (lexTokens : String → List Token) (cfg : Config) (lines : List SourceLine)
    (ameta : AsmMeta) :
    compileX lexTokens cfg lines ameta =
      if !cfg.validate then .error .goErr
      else if graphContainsCycle (buildReferenceGraph (symC cfg lines).values) then .error .goErr
      else
        evaluateAssertions lexTokens (symC cfg lines) lines >>= fun _ =>
        optM (expandExpressions (symC cfg lines).values
                (buildReferenceGraph (symC cfg lines).values)) >>= fun resolved =>
        assembleLines (resC cfg lines resolved) lines #[] >>= fun code =>
        finishX cfg ameta (resC cfg lines resolved) code := by
  unfold compileX finishX
  cases cfg.validate <;> simp only [Bool.not_false, Bool.not_true, if_true]
  · rfl
  · split
    · rfl
    · rfl

def dfltMode (c : Compiler) (ln : SourceLine) : Mode :=
  if c.legacy && lowerStr ln.op == "dat" then .immediate else .direct

def modeOf (c : Compiler) (ln : SourceLine) (s : String) : M Mode :=
  if s == "" then .ok (dfltMode c ln) else optM (c.getAddressMode s)

def opOf (c : Compiler) (ln : SourceLine) (aMode bMode : Mode) : M (Op × Modifier) :=
  if c.legacy then
    optM (getOpCode88 ln.op.toList) >>= fun op88 =>
    optM (getOpModeAndValidate88 op88 aMode bMode) >>= fun md88 => .ok (op88, md88)
  else
    match getOp94 ln.op.toList with
    | some r => .ok r
    | none => optM (getOpCode ln.op.toList) >>= fun op94 => .ok (op94, getOpMode94 op94 aMode bMode)

def operandsOf (c : Compiler) (ln : SourceLine) (op : Op) (aMode bMode : Mode) (aVal : Int) :
    M (Mode × Int × Mode × Int) :=
  if (ln.b.getD []).isEmpty then
    if op == .dat then .ok (Mode.immediate, (0 : Int), aMode, aVal)
    else .ok (aMode, aVal, bMode, (0 : Int))
  else
    expandExpression c (ln.b.getD []) ln.codeLine >>= fun bExpr =>
    evalM bExpr >>= fun bVal => .ok (aMode, aVal, bMode, bVal)

theorem assembleLine_eq (c : Compiler) (ln : SourceLine) :
    assembleLine c ln =
      modeOf c ln ln.amode >>= fun aMode =>
      modeOf c ln ln.bmode >>= fun bMode =>
      opOf c ln aMode bMode >>= fun p =>
      expandExpression c (ln.a.getD []) ln.codeLine >>= fun aExpr =>
      evalM aExpr >>= fun aVal =>
      operandsOf c ln p.1 aMode bMode aVal >>= fun q =>
      reduceMod q.2.1 (mInt c.m) >>= fun a =>
      reduceMod q.2.2.2 (mInt c.m) >>= fun b =>
      .ok { op := p.1, md := p.2, am := q.1, a := a, bm := q.2.2.1, b := b } := by
  rfl

/-! ## 2. `reduceMod` -/

theorem wrap64_of_small {i : Int} (h0 : 0 ≤ i) (h1 : i < 9223372036854775808) : wrap64 i = i := by
  unfold wrap64
  simp only
  split <;> omega

theorem mInt_of_lt {m : UInt64} (h : m.toNat < 2 ^ 63) : mInt m = (m.toNat : Int) := by
  unfold mInt
  simp only [Int.ofNat_eq_natCast]
  exact wrap64_of_small (by omega) (by omega)

theorem reduceMod_lt {v : Int} {cs r : UInt64} (h63 : cs.toNat < 2 ^ 63)
    (h : reduceMod v (mInt cs) = .ok r) : r < cs := by
  rw [mInt_of_lt h63] at h
  unfold reduceMod at h
  split at h
  · cases h
  · rename_i hm
    have hm0 : (cs.toNat : Int) ≠ 0 := by simpa using hm
    have hpos : 0 < cs.toNat := by omega
    simp only [Except.ok.injEq] at h
    subst h
    have h1 := Int.tmod_lt_of_pos v (b := (cs.toNat : Int)) (by omega)
    have h2 := Int.lt_tmod_of_pos v (b := (cs.toNat : Int)) (by omega)
    generalize v.tmod (cs.toNat : Int) = t at *
    have key : ∀ x : Int, 0 ≤ x → x < cs.toNat → toAddr x < cs := by
      intro x hx0 hx1
      unfold toAddr
      rw [UInt64.lt_iff_toNat_lt, UInt64.toNat_ofNat']
      have : (x % 18446744073709551616).toNat = x.toNat := by
        rw [Int.emod_eq_of_lt hx0 (by omega)]
      rw [this, Nat.mod_eq_of_lt (by omega)]
      omega
    split
    · rw [wrap64_of_small (by omega) (by omega), Int.tmod_eq_of_lt (by omega) (by omega)]
      exact key _ (by omega) (by omega)
    · exact key _ (by omega) (by omega)

/-- without `coreSize < 2^63` the bound fails: for `coreSize = 3·2^62` Go's `int(c.m)` is
    `-2^62` and `-5` is reduced to `Address(-5) = 2^64 - 5 ≥ coreSize` -/
theorem reduceMod_counterexample :
    reduceMod (-5) (mInt 13835058055282163712) = .ok 18446744073709551611 ∧
      ¬ (18446744073709551611 : UInt64) < 13835058055282163712 := by
  have hm : mInt 13835058055282163712 = -4611686018427387904 := by
    unfold mInt wrap64; decide
  refine ⟨?_, by decide⟩
  rw [hm]
  unfold reduceMod
  rw [if_neg (by decide)]
  simp only [wrap64, toAddr, Except.ok.injEq]
  decide

/-! ## 3. one assembled line -/

theorem assembleLine_lt {c : Compiler} {ln : SourceLine} {i : Instr} (h63 : c.m.toNat < 2 ^ 63)
    (h : assembleLine c ln = .ok i) : i.a < c.m ∧ i.b < c.m := by
  rw [assembleLine_eq] at h
  obtain ⟨aMode, _, h⟩ := bind_eq_ok h
  obtain ⟨bMode, _, h⟩ := bind_eq_ok h
  obtain ⟨p, _, h⟩ := bind_eq_ok h
  obtain ⟨aExpr, _, h⟩ := bind_eq_ok h
  obtain ⟨aVal, _, h⟩ := bind_eq_ok h
  obtain ⟨q, _, h⟩ := bind_eq_ok h
  obtain ⟨a, ha, h⟩ := bind_eq_ok h
  obtain ⟨b, hb, h⟩ := bind_eq_ok h
  cases h
  exact ⟨reduceMod_lt h63 ha, reduceMod_lt h63 hb⟩

theorem modeOf_88 {c : Compiler} {ln : SourceLine} {s : String} {m : Mode} (hl : c.legacy = true)
    (h : modeOf c ln s = .ok m) : Spec.mode88 m = true := by
  unfold modeOf at h
  split at h
  · cases h
    unfold dfltMode
    split <;> rfl
  · have := optM_eq_ok h
    unfold Compiler.getAddressMode at this
    rw [if_pos hl] at this
    exact getAddressMode88_range this

/-- the lone-operand DAT rule keeps the line inside the '88 table -/
theorem implied88_lone_dat {am bm : Mode} {md : Modifier}
    (h : Spec.implied88 .dat am bm = some md) : Spec.implied88 .dat .immediate am = some md := by
  revert h
  cases am <;> cases bm <;> cases md <;> decide

theorem assembleLine_legal88 {c : Compiler} {ln : SourceLine} {i : Instr} (hl : c.legacy = true)
    (h : assembleLine c ln = .ok i) : Spec.Legal88 i = true := by
  rw [assembleLine_eq] at h
  obtain ⟨aMode, ham, h⟩ := bind_eq_ok h
  obtain ⟨bMode, hbm, h⟩ := bind_eq_ok h
  obtain ⟨p, hp, h⟩ := bind_eq_ok h
  obtain ⟨aExpr, _, h⟩ := bind_eq_ok h
  obtain ⟨aVal, _, h⟩ := bind_eq_ok h
  obtain ⟨q, hq, h⟩ := bind_eq_ok h
  obtain ⟨a, _, h⟩ := bind_eq_ok h
  obtain ⟨b, _, h⟩ := bind_eq_ok h
  cases h
  have ha88 := modeOf_88 hl ham
  have hb88 := modeOf_88 hl hbm
  -- the opcode and the validated modifier
  unfold opOf at hp
  rw [if_pos hl] at hp
  obtain ⟨op88, _, hp⟩ := bind_eq_ok hp
  obtain ⟨md88, hmd, hp⟩ := bind_eq_ok hp
  cases hp
  have hv := optM_eq_ok hmd
  rw [validate88_eq op88 aMode bMode ha88 hb88] at hv
  unfold Spec.Legal88
  simp only [beq_iff_eq]
  -- the operands
  unfold operandsOf at hq
  split at hq
  · split at hq
    · rename_i hdat
      have hdat : op88 = .dat := by simpa using hdat
      cases hq
      subst hdat
      exact implied88_lone_dat hv
    · cases hq; exact hv
  · obtain ⟨bExpr, _, hq⟩ := bind_eq_ok hq
    obtain ⟨bVal, _, hq⟩ := bind_eq_ok hq
    cases hq
    exact hv

/-! ## 4. all lines -/

theorem assembleLines_all {c : Compiler} {P : Instr → Prop}
    (hP : ∀ ln i, assembleLine c ln = .ok i → P i) :
    ∀ (lines : List SourceLine) (acc code : Array Instr),
      assembleLines c lines acc = .ok code → (∀ i ∈ acc.toList, P i) → ∀ i ∈ code.toList, P i := by
  intro lines
  induction lines with
  | nil =>
    intro acc code h hacc
    unfold assembleLines at h
    cases h
    exact hacc
  | cons line rest ih =>
    intro acc code h hacc
    unfold assembleLines at h
    split at h
    · exact ih acc code h hacc
    · obtain ⟨instr, hi, h⟩ := bind_eq_ok h
      refine ih _ code h ?_
      intro i hi'
      simp only [Array.toList_push, List.mem_append, List.mem_singleton] at hi'
      rcases hi' with hi' | hi'
      · exact hacc i hi'
      · subst hi'
        exact hP line _ hi

/-! ## 5. what a successful `compile()` has gone through -/

theorem compile_eq_some {lexTokens : String → List Token} {cfg : Config} {lines : List SourceLine}
    {ameta : AsmMeta} {w : WarriorData} (h : compile lexTokens cfg lines ameta = .ok (some w)) :
    compileX lexTokens cfg lines ameta = .ok w := by
  unfold compile at h
  split at h
  · cases h; assumption
  · cases h
  · cases h
  · cases h

theorem finishX_ok {cfg : Config} {ameta : AsmMeta} {c : Compiler} {code : Array Instr}
    {w : WarriorData} (h : finishX cfg ameta c code = .ok w) :
    w.code = code ∧ code.size ≤ cfg.length.toNat ∧ 0 ≤ w.start ∧ (w.start < code.size ∨ w.start = 0) ∧
      w.name = ameta.name ∧ w.author = ameta.author ∧ w.strategy = ameta.strategy := by
  unfold finishX at h
  split at h
  · cases h
  · rename_i hlen
    obtain ⟨startExpr, _, h⟩ := bind_eq_ok h
    obtain ⟨startVal, _, h⟩ := bind_eq_ok h
    split at h
    · cases h
    · rename_i hs
      cases h
      simp only [Bool.or_eq_true, Bool.and_eq_true, decide_eq_true_eq, bne_iff_ne, ne_eq, not_or,
        not_and, Decidable.not_not] at hs
      refine ⟨rfl, by omega, ?_, ?_, rfl, rfl, rfl⟩
      · show 0 ≤ startVal
        omega
      · show startVal < code.size ∨ startVal = 0
        by_cases h0 : startVal = 0
        · exact Or.inr h0
        · left
          have := hs.2
          omega

/-- the stages a successful run of `compile()` has passed -/
theorem compileX_ok {lexTokens : String → List Token} {cfg : Config} {lines : List SourceLine}
    {ameta : AsmMeta} {w : WarriorData} (h : compileX lexTokens cfg lines ameta = .ok w) :
    cfg.validate = true ∧ ∃ resolved,
      assembleLines (resC cfg lines resolved) lines #[] = .ok w.code ∧
      w.code.size ≤ cfg.length.toNat ∧ 0 ≤ w.start ∧ (w.start < w.code.size ∨ w.start = 0) ∧
      w.name = ameta.name ∧ w.author = ameta.author ∧ w.strategy = ameta.strategy := by
  rw [compileX_eq] at h
  split at h
  · cases h
  · rename_i hv
    split at h
    · cases h
    · obtain ⟨_, _, h⟩ := bind_eq_ok h
      obtain ⟨resolved, _, h⟩ := bind_eq_ok h
      obtain ⟨code, hcode, h⟩ := bind_eq_ok h
      obtain ⟨h1, h2, h3, h4, h5⟩ := finishX_ok h
      subst h1
      exact ⟨by simpa using hv, resolved, hcode, h2, h3, h4, h5⟩

theorem loadSymbolsLine_cfg (st : Compiler × Int) (line : SourceLine) :
    (loadSymbolsLine st line).1.cfg = st.1.cfg := by
  obtain ⟨c, cur⟩ := st
  unfold loadSymbolsLine
  simp only
  repeat' split
  all_goals rfl

theorem foldl_loadSymbolsLine_cfg (lines : List SourceLine) (st : Compiler × Int) :
    (lines.foldl loadSymbolsLine st).1.cfg = st.1.cfg := by
  induction lines generalizing st with
  | nil => rfl
  | cons l r ih => rw [List.foldl_cons, ih, loadSymbolsLine_cfg]

theorem symC_cfg (cfg : Config) (lines : List SourceLine) : (symC cfg lines).cfg = cfg := by
  unfold symC loadSymbols
  simp only
  rw [foldl_loadSymbolsLine_cfg]
  rfl

theorem resC_cfg (cfg : Config) (lines : List SourceLine) (resolved : SymTab) :
    (resC cfg lines resolved).cfg = cfg := symC_cfg cfg lines

/-! ## 6. the theorems of C06 -/

/-- every field below the core size, the entry point inside the code (or zero for an empty
    program), and no more instructions than the configured maximum length.

    The hypothesis `coreSize < 2^63` is NEEDED: with `coreSize = 3·2^62` the Go `int(c.m)` is
    negative and `dat -5` is assembled to `DAT.F #0, $18446744073709551611`. -/
theorem compile_wf {lexTokens : String → List Token} {cfg : Config} {lines : List SourceLine}
    {ameta : AsmMeta} {w : WarriorData}
    (h : compile lexTokens cfg lines ameta = .ok (some w)) (h63 : cfg.coreSize.toNat < 2 ^ 63) :
    (∀ i ∈ w.code.toList, i.a < cfg.coreSize ∧ i.b < cfg.coreSize) ∧
    ((w.code.size = 0 ∧ w.start = 0) ∨ (0 ≤ w.start ∧ w.start < w.code.size)) ∧
    w.code.size ≤ cfg.length.toNat := by
  obtain ⟨_, resolved, hcode, hlen, hs0, hs1, _⟩ := compileX_ok (compile_eq_some h)
  refine ⟨?_, ?_, hlen⟩
  · have hm : (resC cfg lines resolved).m = cfg.coreSize := by
      unfold Compiler.m; rw [resC_cfg]
    have := assembleLines_all (c := resC cfg lines resolved)
      (P := fun i => i.a < cfg.coreSize ∧ i.b < cfg.coreSize)
      (fun ln i hi => by
        have := assembleLine_lt (by rw [hm]; exact h63) hi
        rw [hm] at this
        exact this)
      lines #[] w.code hcode (by simp)
    exact this
  · by_cases hz : w.code.size = 0
    · left
      refine ⟨hz, ?_⟩
      rcases hs1 with hs1 | hs1
      · omega
      · exact hs1
    · right
      refine ⟨hs0, ?_⟩
      rcases hs1 with hs1 | hs1
      · exact hs1
      · omega

/-- under ICWS'88 every assembled instruction is in the '88 table and carries the implied
    modifier (including the lone-operand DAT rule) -/
theorem compile_88_legal {lexTokens : String → List Token} {cfg : Config} {lines : List SourceLine}
    {ameta : AsmMeta} {w : WarriorData}
    (h : compile lexTokens cfg lines ameta = .ok (some w)) (h88 : cfg.mode = .icws88) :
    ∀ i ∈ w.code.toList, Spec.Legal88 i = true := by
  obtain ⟨_, resolved, hcode, _⟩ := compileX_ok (compile_eq_some h)
  have hl : (resC cfg lines resolved).legacy = true := by
    unfold Compiler.legacy; rw [resC_cfg, h88]; rfl
  exact assembleLines_all (c := resC cfg lines resolved) (P := fun i => Spec.Legal88 i = true)
    (fun ln i hi => assembleLine_legal88 hl hi) lines #[] w.code hcode (by simp)

/-- the metadata of an accepted program is the parser's, unchanged -/
theorem compile_err_xor {lexTokens : String → List Token} {cfg : Config} {lines : List SourceLine}
    {ameta : AsmMeta} {w : WarriorData}
    (h : compile lexTokens cfg lines ameta = .ok (some w)) :
    w.name = ameta.name ∧ w.author = ameta.author ∧ w.strategy = ameta.strategy := by
  obtain ⟨_, _, _, _, _, _, hm⟩ := compileX_ok (compile_eq_some h)
  exact hm

/-! ## 7. the compiler stage neither panics nor hangs -/

theorem evaluateAssertion_eq (lexTokens : String → List Token) (c : Compiler) (s : String) :
    evaluateAssertion lexTokens c s =
      if (lexTokens s).isEmpty then .error (.fault (.panic .slice))
      else
        expandExpression c (lexTokens s).dropLast 0 >>= fun e =>
        evalM e >>= fun v => if v == 0 then .error .goErr else .ok () := by
  unfold evaluateAssertion
  by_cases h : (lexTokens s).isEmpty = true
  · simp only [h, if_true]
    rfl
  · simp only [h]
    rfl

theorem evaluateAssertions_cons (lexTokens : String → List Token) (c : Compiler) (line : SourceLine)
    (rest : List SourceLine) :
    evaluateAssertions lexTokens c (line :: rest) =
      (if line.typ == .comment && assertPrefix.isPrefixOf line.comment.toList then
        evaluateAssertion lexTokens c (String.ofList (line.comment.toList.drop 7))
       else .ok ()) >>= fun _ => evaluateAssertions lexTokens c rest := by
  conv => lhs; unfold evaluateAssertions
  split
  · rfl
  · rfl

/-- what the two tables `compile()` expands with have in common -/
structure GoodTable (c : Compiler) : Prop where
  m_ne : mInt c.m ≠ 0
  ranked : ∃ d, Ranked c.values d ∧ ∀ s, d s ≤ c.values.length

theorem GoodTable.expand {c : Compiler} (hc : GoodTable c) (expr : List Token) (line : Int) :
    NoFault (expandExpression c expr line) := by
  obtain ⟨d, hr, hd⟩ := hc.ranked
  exact expandExpression_noFault hc.m_ne hr hd expr line

theorem evaluateAssertion_noFault {lexTokens : String → List Token} (hlex : ∀ s, lexTokens s ≠ [])
    {c : Compiler} (hc : GoodTable c) (s : String) : NoFault (evaluateAssertion lexTokens c s) := by
  rw [evaluateAssertion_eq, if_neg (by simpa using hlex s)]
  refine NoFault.bind (hc.expand _ _) fun e _ => NoFault.bind (NoFault.evalM e) fun v _ => ?_
  split
  · exact NoFault.goErr
  · exact NoFault.ok _

theorem evaluateAssertions_noFault {lexTokens : String → List Token} (hlex : ∀ s, lexTokens s ≠ [])
    {c : Compiler} (hc : GoodTable c) (lines : List SourceLine) :
    NoFault (evaluateAssertions lexTokens c lines) := by
  induction lines with
  | nil => exact NoFault.ok _
  | cons line rest ih =>
    rw [evaluateAssertions_cons]
    refine NoFault.bind ?_ fun _ _ => ih
    split
    · exact evaluateAssertion_noFault hlex hc _
    · exact NoFault.ok _

theorem modeOf_noFault (c : Compiler) (ln : SourceLine) (s : String) : NoFault (modeOf c ln s) := by
  unfold modeOf
  split
  · exact NoFault.ok _
  · exact NoFault.optM _

theorem opOf_noFault (c : Compiler) (ln : SourceLine) (am bm : Mode) : NoFault (opOf c ln am bm) := by
  unfold opOf
  split
  · exact NoFault.bind (NoFault.optM _) fun _ _ => NoFault.bind (NoFault.optM _) fun _ _ => NoFault.ok _
  · split
    · exact NoFault.ok _
    · exact NoFault.bind (NoFault.optM _) fun _ _ => NoFault.ok _

theorem operandsOf_noFault {c : Compiler} (hc : GoodTable c) (ln : SourceLine) (op : Op)
    (am bm : Mode) (aVal : Int) : NoFault (operandsOf c ln op am bm aVal) := by
  unfold operandsOf
  split
  · split
    · exact NoFault.ok _
    · exact NoFault.ok _
  · exact NoFault.bind (hc.expand _ _) fun e _ => NoFault.bind (NoFault.evalM e) fun _ _ => NoFault.ok _

theorem assembleLine_noFault {c : Compiler} (hc : GoodTable c) (ln : SourceLine) :
    NoFault (assembleLine c ln) := by
  rw [assembleLine_eq]
  refine NoFault.bind (modeOf_noFault _ _ _) fun aMode _ => ?_
  refine NoFault.bind (modeOf_noFault _ _ _) fun bMode _ => ?_
  refine NoFault.bind (opOf_noFault _ _ _ _) fun p _ => ?_
  refine NoFault.bind (hc.expand _ _) fun aExpr _ => ?_
  refine NoFault.bind (NoFault.evalM _) fun aVal _ => ?_
  refine NoFault.bind (operandsOf_noFault hc _ _ _ _ _) fun q _ => ?_
  refine NoFault.bind (reduceMod_noFault hc.m_ne) fun a _ => ?_
  refine NoFault.bind (reduceMod_noFault hc.m_ne) fun b _ => ?_
  exact NoFault.ok _

theorem assembleLines_noFault {c : Compiler} (hc : GoodTable c) (lines : List SourceLine) :
    ∀ acc : Array Instr, NoFault (assembleLines c lines acc) := by
  induction lines with
  | nil => intro acc; exact NoFault.ok _
  | cons line rest ih =>
    intro acc
    unfold assembleLines
    split
    · exact ih acc
    · exact NoFault.bind (assembleLine_noFault hc line) fun i _ => ih _

theorem finishX_noFault (cfg : Config) (ameta : AsmMeta) {c : Compiler} (hc : GoodTable c)
    (code : Array Instr) : NoFault (finishX cfg ameta c code) := by
  unfold finishX
  split
  · exact NoFault.goErr
  · refine NoFault.bind (hc.expand _ _) fun e _ => NoFault.bind (NoFault.evalM e) fun v _ => ?_
    split
    · exact NoFault.goErr
    · exact NoFault.ok _

theorem validate_coreSize {cfg : Config} (hv : cfg.validate = true) : mInt cfg.coreSize ≠ 0 := by
  intro h
  have h0 := mInt_eq_zero h
  unfold Config.validate at hv
  rw [h0] at hv
  simp at hv

theorem compileX_noFault {lexTokens : String → List Token} (hlex : ∀ s, lexTokens s ≠ [])
    (cfg : Config) (lines : List SourceLine) (ameta : AsmMeta) :
    NoFault (compileX lexTokens cfg lines ameta) := by
  rw [compileX_eq]
  split
  · exact NoFault.goErr
  · rename_i hv
    have hv : cfg.validate = true := by simpa using hv
    have hm : mInt cfg.coreSize ≠ 0 := validate_coreSize hv
    split
    · exact NoFault.goErr
    · rename_i hcyc
      have hcyc : graphContainsCycle (buildReferenceGraph (symC cfg lines).values) = false := by
        simpa using hcyc
      have hsym : GoodTable (symC cfg lines) :=
        ⟨by unfold Compiler.m; rw [symC_cfg]; exact hm, _, ranked_of_acyclic hcyc⟩
      refine NoFault.bind (evaluateAssertions_noFault hlex hsym lines) fun _ _ => ?_
      refine NoFault.bind (NoFault.optM _) fun resolved hres => ?_
      have hres : GoodTable (resC cfg lines resolved) :=
        ⟨by unfold Compiler.m; rw [resC_cfg]; exact hm, _,
          ranked_of_expandExpressions (optM_eq_ok hres)⟩
      refine NoFault.bind (assembleLines_noFault hres lines #[]) fun code _ => ?_
      exact finishX_noFault cfg ameta hres code

/-- The compiler stage neither panics nor hangs: once `graphContainsCycle` has passed, the
    fixpoint loop of `expandExpression` ends within its fuel, on the EQU table as loaded (used
    by the assertions) and on the table `expandExpressions` produced (used by the instructions
    and the start expression) alike. No bound on the core size is needed for this. -/
theorem compile_no_fault' {lexTokens : String → List Token} {cfg : Config}
    {lines : List SourceLine} {ameta : AsmMeta} (hlex : ∀ s, lexTokens s ≠ []) :
    ∀ f, compile lexTokens cfg lines ameta ≠ .error f := by
  intro f h
  unfold compile at h
  split at h
  · cases h
  · cases h
  · cases h
  · rename_i f' hx
    exact compileX_noFault hlex cfg lines ameta f' hx

/-- `compile_no_fault'` in the requested form -/
theorem compile_no_fault {lexTokens : String → List Token} {cfg : Config}
    {lines : List SourceLine} {ameta : AsmMeta} (_h63 : cfg.coreSize.toNat < 2 ^ 63)
    (hlex : ∀ s, lexTokens s ≠ []) : ∀ f, compile lexTokens cfg lines ameta ≠ .error f :=
  compile_no_fault' hlex

/-- never "both or neither": `compile()` answers with an error (`.ok none`, the zero-valued
    warrior) or with a warrior whose code is the assembled code -/
theorem compile_total {lexTokens : String → List Token} {cfg : Config}
    {lines : List SourceLine} {ameta : AsmMeta} (hlex : ∀ s, lexTokens s ≠ []) :
    compile lexTokens cfg lines ameta = .ok none ∨
    ∃ w resolved, compile lexTokens cfg lines ameta = .ok (some w) ∧
      assembleLines (resC cfg lines resolved) lines #[] = .ok w.code := by
  cases h : compile lexTokens cfg lines ameta with
  | error f => exact absurd h (compile_no_fault' hlex f)
  | ok r =>
    cases r with
    | none => exact Or.inl rfl
    | some w =>
      obtain ⟨_, resolved, hcode, _⟩ := compileX_ok (compile_eq_some h)
      exact Or.inr ⟨w, resolved, rfl, hcode⟩

end Compile
end Gmars

