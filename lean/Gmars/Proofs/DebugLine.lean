/-
  The debug trace (`debugLine`, model of debugReporter.Report) is faithful to the reports: the
  printed line determines the report's type, warrior index and address, and an Exec line also
  determines the executed instruction.
-/
import Gmars.Model.DebugReporter
import Gmars.Proofs.InstrString

namespace Gmars.DebugLine
open Gmars Gmars.GoStr

/-- the characters of a zero padded number -/
def cls (c : Char) : Bool := isDigit c || c == '-'

/-! ## zero padding -/

theorem digitsVal_zeros (k : Nat) (ds : Str) :
    digitsVal (List.replicate k '0' ++ ds) = digitsVal ds := by
  induction k with
  | zero => simp
  | succ k ih =>
    rw [List.replicate_succ, List.cons_append]
    unfold digitsVal at *
    simpa [List.foldl_cons] using ih

theorem zeros_digits_inj {k k' a b : Nat}
    (h : List.replicate k '0' ++ natDigits a = List.replicate k' '0' ++ natDigits b) : a = b := by
  have := congrArg digitsVal h
  simpa [digitsVal_zeros, natDigits, digitsVal_toDigits] using this

theorem natDigits_isDigit (n : Nat) : ∀ c ∈ natDigits n, isDigit c = true :=
  toDigits_all_isDigit n

theorem zeros_digits_isDigit (k n : Nat) :
    ∀ c ∈ List.replicate k '0' ++ natDigits n, isDigit c = true := by
  intro c hc
  rcases List.mem_append.1 hc with hc | hc
  · rw [(List.mem_replicate.1 hc).2]; decide
  · exact natDigits_isDigit n c hc

/-- zero padding loses nothing -/
theorem padZero_inj (n : Nat) (i j : Int) (h : padZero n i = padZero n j) : i = j := by
  unfold padZero at h
  by_cases hi : i < 0 <;> by_cases hj : j < 0
  · rw [if_pos hi, if_pos hj] at h
    have := zeros_digits_inj (List.cons.inj h).2
    omega
  · rw [if_pos hi, if_neg hj] at h
    exact absurd (zeros_digits_isDigit _ _ '-' (by rw [← h]; simp)) (by decide)
  · rw [if_neg hi, if_pos hj] at h
    exact absurd (zeros_digits_isDigit _ _ '-' (by rw [h]; simp)) (by decide)
  · rw [if_neg hi, if_neg hj] at h
    have := zeros_digits_inj h
    omega

/-- every character of a zero padded number is a digit or the sign -/
theorem padZero_cls (n : Nat) (i : Int) : ∀ c ∈ padZero n i, cls c = true := by
  intro c hc
  unfold padZero at hc
  unfold cls
  split at hc
  · rcases List.mem_cons.1 hc with rfl | hc
    · decide
    · rw [zeros_digits_isDigit _ _ c hc]; rfl
  · rw [zeros_digits_isDigit _ _ c hc]; rfl

theorem padZero_digit_or_sign (n : Nat) (i : Int) :
    ∀ c ∈ padZero n i, isDigit c = true ∨ c = '-' := by
  intro c hc
  have := padZero_cls n i c hc
  simpa [cls] using this

theorem padZero_no_sep (n : Nat) (i : Int) : ∀ c ∈ padZero n i, c ≠ ' ' ∧ c ≠ ':' := by
  intro c hc
  have := padZero_cls n i c hc
  constructor <;> (intro e; subst e; revert this; decide)

/-! ## splitting at the first character outside the class -/

theorem span_cls (X r : Str) (hX : ∀ c ∈ X, cls c = true) (hr : ∀ c t, r = c :: t → cls c = false) :
    (X ++ r).takeWhile cls = X ∧ (X ++ r).dropWhile cls = r := by
  induction X with
  | nil =>
    cases r with
    | nil => simp
    | cons c t => simp [hr c t rfl]
  | cons c t ih =>
    have hc : cls c = true := hX c (by simp)
    have := ih (fun c hc => hX c (by simp [hc]))
    simp [hc, this]

theorem cls_split {X X' r r' : Str} (hX : ∀ c ∈ X, cls c = true) (hX' : ∀ c ∈ X', cls c = true)
    (hr : ∀ c t, r = c :: t → cls c = false) (hr' : ∀ c t, r' = c :: t → cls c = false)
    (h : X ++ r = X' ++ r') : X = X' ∧ r = r' := by
  have a := span_cls X r hX hr
  have a' := span_cls X' r' hX' hr'
  have e1 := congrArg (List.takeWhile cls) h
  have e2 := congrArg (List.dropWhile cls) h
  rw [a.1, a'.1] at e1
  rw [a.2, a'.2] at e2
  exact ⟨e1, e2⟩

/-! ## the shape of a line that names a warrior -/

def Named (t : RType) : Prop := t ≠ .simReset ∧ t ≠ .cycleStart ∧ t ≠ .cycleEnd

def hdc : RType → Char
  | .warriorSpawn => 'w'
  | _ => 'W'

def sSpawn : Str := "Warrior Spawn\n".toList
def sTaskT : Str := "Task Terminated\n".toList
def sWarT : Str := "Warrior Terminated\n".toList
def sRead : Str := "Read\n".toList
def sWrite : Str := "Write\n".toList
def sInc : Str := "Increment\n".toList
def sDec : Str := "Decrement\n".toList
def sPush : Str := " Task Push ".toList

def word (t : RType) (m : UInt64) (cell : Instr) : Str :=
  match t with
  | .warriorSpawn => sSpawn
  | .taskPop => 'E' :: 'x' :: 'e' :: 'c' :: ' ' :: (normString m cell ++ ['\n'])
  | .taskTerminate => sTaskT
  | .warriorTerminate => sWarT
  | .read => sRead
  | .write => sWrite
  | .increment => sInc
  | .decrement => sDec
  | .taskPush => []
  | .simReset => []
  | .cycleStart => []
  | .cycleEnd => []

def tailOf (t : RType) (a : Str) (m : UInt64) (cell : Instr) : Str :=
  match t with
  | .taskPush => ':' :: (sPush ++ (a ++ ['\n']))
  | t => ' ' :: (a ++ ':' :: ' ' :: word t m cell)

theorem debugLine_eq (r : Report) (c : Nat) (m : UInt64) (cell : Instr) (ht : Named r.typ) :
    debugLine r c m cell =
      hdc r.typ :: (padZero 2 r.wi ++ tailOf r.typ (padZero 4 (r.addr.toNat : Int)) m cell) := by
  obtain ⟨t, cy, wi, ad⟩ := r
  obtain ⟨h1, h2, h3⟩ := ht
  cases t <;> first
    | exact absurd rfl h1
    | exact absurd rfl h2
    | exact absurd rfl h3
    | (simp only [debugLine, List.append_assoc]; rfl)

/-- the lines of the three report types that name nobody -/
theorem unnamed_line (r : Report) (c : Nat) (m : UInt64) (cell : Instr) (ht : ¬ Named r.typ)
    (x : Char) (s : Str) (hx : x = 'w' ∨ x = 'W') : debugLine r c m cell ≠ x :: s := by
  obtain ⟨t, cy, wi, ad⟩ := r
  intro h
  dsimp only at ht
  cases t <;> first
    | exact ht ⟨by decide, by decide, by decide⟩
    | skip
  · -- simReset
    have e : "Simulator reset\n".toList = 'S' :: "imulator reset\n".toList := by decide
    simp only [debugLine, e, List.cons.injEq] at h
    rcases hx with rfl | rfl <;> exact absurd h.1 (by decide)
  · -- cycleStart
    simp only [debugLine] at h
    have hne : natDigits c ≠ [] := toDigits_ne_nil c
    cases hd : natDigits c with
    | nil => exact hne hd
    | cons d ds =>
      rw [hd, List.cons_append, List.cons.injEq] at h
      have := natDigits_isDigit c d (by rw [hd]; simp)
      rw [h.1] at this
      rcases hx with rfl | rfl <;> exact absurd this (by decide)
  · -- cycleEnd
    simp [debugLine] at h

theorem tailOf_head (t : RType) (a : Str) (m : UInt64) (cell : Instr) :
    ∀ c s, tailOf t a m cell = c :: s → cls c = false := by
  intro c s h
  cases t <;> simp only [tailOf, List.cons.injEq] at h <;> (rw [← h.1]; decide)

theorem word_head (t : RType) (m : UInt64) (cell : Instr) :
    ∀ c s, ':' :: ' ' :: word t m cell = c :: s → cls c = false := by
  intro c s h
  rw [List.cons.injEq] at h
  rw [← h.1]; decide

/-- what an equality of two lines gives, when the first one names a warrior -/
theorem decomp (r r' : Report) (c c' : Nat) (m : UInt64) (cell cell' : Instr)
    (ht : Named r.typ) (h : debugLine r c m cell = debugLine r' c' m cell') :
    Named r'.typ ∧ hdc r.typ = hdc r'.typ ∧ r.wi = r'.wi ∧
      tailOf r.typ (padZero 4 (r.addr.toNat : Int)) m cell =
        tailOf r'.typ (padZero 4 (r'.addr.toNat : Int)) m cell' := by
  have e := debugLine_eq r c m cell ht
  by_cases ht' : Named r'.typ
  · have e' := debugLine_eq r' c' m cell' ht'
    rw [e, e', List.cons.injEq] at h
    obtain ⟨h1, h2⟩ := h
    obtain ⟨h3, h4⟩ := cls_split (padZero_cls _ _) (padZero_cls _ _) (tailOf_head _ _ _ _)
      (tailOf_head _ _ _ _) h2
    exact ⟨ht', h1, padZero_inj _ _ _ h3, h4⟩
  · rw [e] at h
    refine absurd h.symm (unnamed_line r' c' m cell' ht' _ _ ?_)
    cases r.typ <;> simp [hdc]

theorem addr_of_pad {a b : UInt64} (h : padZero 4 (a.toNat : Int) = padZero 4 (b.toNat : Int)) :
    a = b := by
  have := padZero_inj _ _ _ h
  exact UInt64.toNat_inj.1 (by omega)

/-- the tail of the line gives the type, the address, and the text after the address -/
theorem tail_inj (t t' : RType) (a a' : UInt64) (m : UInt64) (cell cell' : Instr)
    (ht : Named t) (ht' : Named t') (hh : hdc t = hdc t')
    (h : tailOf t (padZero 4 (a.toNat : Int)) m cell = tailOf t' (padZero 4 (a'.toNat : Int)) m cell') :
    t = t' ∧ a = a' ∧ word t m cell = word t' m cell' := by
  by_cases hp : t = .taskPush
  · by_cases hp' : t' = .taskPush
    · subst hp; subst hp'
      simp only [tailOf, List.cons.injEq, true_and, List.append_cancel_left_eq] at h
      have := List.append_cancel_right h
      exact ⟨rfl, addr_of_pad this, rfl⟩
    · subst hp
      exfalso
      cases t' <;> simp [tailOf] at h hp'
  · by_cases hp' : t' = .taskPush
    · subst hp'
      exfalso
      cases t <;> simp [tailOf] at h hp
    · have e1 : tailOf t (padZero 4 (a.toNat : Int)) m cell =
          ' ' :: (padZero 4 (a.toNat : Int) ++ ':' :: ' ' :: word t m cell) := by
        cases t <;> first | rfl | exact absurd rfl hp
      have e2 : tailOf t' (padZero 4 (a'.toNat : Int)) m cell' =
          ' ' :: (padZero 4 (a'.toNat : Int) ++ ':' :: ' ' :: word t' m cell') := by
        cases t' <;> first | rfl | exact absurd rfl hp'
      rw [e1, e2, List.cons.injEq] at h
      obtain ⟨h3, h4⟩ := cls_split (padZero_cls _ _) (padZero_cls _ _) (word_head _ _ _)
        (word_head _ _ _) h.2
      simp only [List.cons.injEq, true_and] at h4
      refine ⟨?_, addr_of_pad h3, h4⟩
      obtain ⟨n1, n2, n3⟩ := ht
      obtain ⟨n1', n2', n3'⟩ := ht'
      have w2 : sTaskT = 'T' :: "ask Terminated\n".toList := by decide
      have w3 : sWarT = 'W' :: 'a' :: "rrior Terminated\n".toList := by decide
      have w4 : sRead = 'R' :: "ead\n".toList := by decide
      have w5 : sWrite = 'W' :: 'r' :: "ite\n".toList := by decide
      have w6 : sInc = 'I' :: "ncrement\n".toList := by decide
      have w7 : sDec = 'D' :: "ecrement\n".toList := by decide
      cases t <;> cases t' <;> first
        | rfl
        | exact absurd rfl n1
        | exact absurd rfl n2
        | exact absurd rfl n3
        | exact absurd rfl n1'
        | exact absurd rfl n2'
        | exact absurd rfl n3'
        | exact absurd rfl hp
        | exact absurd rfl hp'
        | (exfalso; revert hh; decide)
        | (exfalso; simp [word, w2, w3, w4, w5, w6, w7] at h4)

/-! ## the theorems -/

/-- for every report that names a warrior and an address, the printed line determines the
    report's type, warrior index and address -/
theorem debugLine_faithful (r r' : Report) (c c' : Nat) (m : UInt64) (cell cell' : Instr)
    (ht : r.typ ≠ .simReset ∧ r.typ ≠ .cycleStart ∧ r.typ ≠ .cycleEnd)
    (h : debugLine r c m cell = debugLine r' c' m cell') :
    r.typ = r'.typ ∧ r.wi = r'.wi ∧ r.addr = r'.addr := by
  obtain ⟨h1, h2, h3, h4⟩ := decomp r r' c c' m cell cell' ht h
  obtain ⟨h5, h6, _⟩ := tail_inj _ _ _ _ m cell cell' ht h1 h2 h4
  exact ⟨h5, h3, h6⟩

/-- an Exec line also determines the executed instruction -/
theorem debugLine_exec_cell (r r' : Report) (c c' : Nat) (m : UInt64) (cell cell' : Instr)
    (hp : r.typ = .taskPop) (hi : cell.a < m ∧ cell.b < m) (hj : cell'.a < m ∧ cell'.b < m)
    (h : debugLine r c m cell = debugLine r' c' m cell') : cell = cell' := by
  have ht : Named r.typ := by rw [hp]; exact ⟨by decide, by decide, by decide⟩
  obtain ⟨h1, h2, h3, h4⟩ := decomp r r' c c' m cell cell' ht h
  obtain ⟨h5, _, h7⟩ := tail_inj _ _ _ _ m cell cell' ht h1 h2 h4
  rw [← h5, hp] at h7
  simp only [word, List.cons.injEq, true_and] at h7
  exact InstrString.normString_injective m cell cell' hi hj (List.append_cancel_right h7)

end Gmars.DebugLine
