/-
  C03 / C07, compiler stage with EQU definitions: the abstract programs, their two readings
  (reference items, parser source lines) and the textual substitution functions the proofs in
  EquSubst.lean, EquResolve.lean and AsmEqu.lean talk about.
-/
import Gmars.Proofs.AsmLabels

namespace Gmars.AsmLine
open Gmars.Compile Gmars.ExprProofs

/-! ## expression tokens: the reference alphabet, rendered as gmars tokens -/

/-- the gmars token the lexer produces for a reference token -/
def tokOf : Spec.ETok → Token
  | .num n => ExprProofs.numTok n
  | .name s => textTok s
  | .op s => opTok s
  | .lp => lpTok
  | .rp => rpTok

def toksOf (ts : List Spec.ETok) : List Token := ts.map tokOf

/-! ## abstract programs with labels, EQUs and asserts -/

structure XOperand where
  mode : Option Mode
  expr : List Spec.ETok

/-- `kw` is the keyword as written; `cm` is the comment text of an `;assert` line as written -/
inductive XItem
  | instr (labels : List String) (op : String) (md : Option String) (a : XOperand) (b : Option XOperand)
  | equ (kw : String) (name : String) (e : List Spec.ETok)
  | org (kw : String) (e : List Spec.ETok)
  | end_ (kw : String) (e : Option (List Spec.ETok))
  | assert (cm : String) (e : List Spec.ETok)

def XOperand.toP (o : XOperand) : Spec.POperand := { mode := o.mode, expr := o.expr }

/-- the program as the reference reads it -/
def XItem.toItem : XItem → Spec.Item
  | .instr ls op md a b => .instr ls op md a.toP (b.map XOperand.toP)
  | .equ _ n e => .equ n e
  | .org _ e => .org e
  | .end_ _ e => .end_ e
  | .assert _ e => .assert e

def XItem.isInstr : XItem → Bool
  | .instr .. => true
  | _ => false

/-- the program as the parser hands it to the compiler -/
def XItem.toLine (k : Nat) : XItem → SourceLine
  | .instr ls op md a b =>
    { typ := .instruction, codeLine := (k : Int), labels := ls, op := opString op md,
      amode := modeString a.mode, a := some (toksOf a.expr),
      bmode := modeString (b.bind (·.mode)), b := b.map (fun o => toksOf o.expr) }
  | .equ kw n e => { typ := .pseudoOp, op := kw, labels := [n], a := some (toksOf e) }
  | .org kw e => { typ := .pseudoOp, op := kw, a := some (toksOf e) }
  | .end_ kw e => { typ := .pseudoOp, op := kw, a := e.map toksOf }
  | .assert cm _ => { typ := .comment, comment := cm }

def xrender (k : Nat) : List XItem → List SourceLine
  | [] => []
  | it :: r => it.toLine k :: xrender (if it.isInstr then k + 1 else k) r

/-- the label table: every label with the index of its instruction -/
def xlabelsFrom (k : Nat) : List XItem → List (String × Nat)
  | [] => []
  | .instr ls _ _ _ _ :: r => ls.map (fun l => (l, k)) ++ xlabelsFrom (k + 1) r
  | _ :: r => xlabelsFrom k r

/-- the EQU definitions in program order -/
def xequs : List XItem → List (String × List Spec.ETok)
  | [] => []
  | .equ _ n e :: r => (n, e) :: xequs r
  | _ :: r => xequs r

def xinstrCount (prog : List XItem) : Nat := (prog.filter XItem.isInstr).length

/-! ## textual substitution, reference side -/

abbrev ETab := List (String × List Spec.ETok)

def ETab.get? (tab : ETab) (s : String) : Option (List Spec.ETok) := (tab.find? (·.1 == s)).map (·.2)

/-- what one round of `Spec.expandEqus` does to one token -/
def stepETok (tab : ETab) (t : Spec.ETok) : List Spec.ETok :=
  match t with
  | .name n => match tab.find? (·.1 == n) with
    | some (_, v) => v
    | none => [t]
  | _ => [t]

/-- one round of `Spec.expandEqus` -/
def stepE (tab : ETab) (ts : List Spec.ETok) : List Spec.ETok := ts.flatMap (stepETok tab)

/-- `k` rounds -/
def iterE (tab : ETab) : Nat → List Spec.ETok → List Spec.ETok
  | 0, ts => ts
  | k + 1, ts => iterE tab k (stepE tab ts)

/-- `d` strictly decreases from an EQU name to the EQU names its body mentions -/
def ERanked (tab : ETab) (d : String → Nat) : Prop :=
  ∀ k v, tab.get? k = some v → ∀ s, Spec.ETok.name s ∈ v → (tab.get? s).isSome = true → d s < d k

/-! ## textual substitution, model side -/

def stepTTok (V : SymTab) (t : Token) : List Token :=
  if t.typ == .text then
    match V.get? t.val with
    | some v => v
    | none => [t]
  else [t]

/-- replace every text token that is a key of `V` by its value -/
def stepT (V : SymTab) (ts : List Token) : List Token := ts.flatMap (stepTTok V)

def iterT (V : SymTab) : Nat → List Token → List Token
  | 0, ts => ts
  | k + 1, ts => iterT V k (stepT V ts)

end Gmars.AsmLine
