/-
  The hypotheses of `compile_meaning_equ` are satisfiable: a five-line program with a forward EQU
  use, an EQU that uses another EQU and a label, textual (unparenthesised) substitution and an
  assert.

      x      equ 1+2
      a      dat x*3          ; 1+2*3 = 7, not 9
             dat y            ; y → x-a → 1+2-a → 1+2--1 = 4 on line 1
      y      EQU x-a
      ;assert x
-/
import Gmars.Proofs.AsmEqu
import Gmars.Proofs.ForPassEval

namespace Gmars.AsmLine.EquExample
open Gmars Gmars.AsmLine Gmars.Compile Gmars.Spec Gmars.ExprProofs

def cfgE : Config := Config.quick .icws94 8000 8000 80000 100
def scE : Spec.Cfg := { legacy := false, M := 8000, maxLen := 100, maxProcs := 8000, minDist := 100 }

open Spec.ETok in
def progE : List XItem := [
  .equ "equ" "x" [num 1, op "+", num 2],
  .instr ["a"] "dat" none ⟨none, [name "x", op "*", num 3]⟩ none,
  .instr [] "dat" none ⟨none, [name "y"]⟩ none,
  .equ "EQU" "y" [name "x", op "-", name "a"],
  .assert ";assert x" [name "x"] ]

def lexE : String → List Token := fun _ => toksOf [Spec.ETok.name "x"] ++ [{ typ := .eof }]

def dE (s : String) : Nat := if s = "y" then 1 else 0

abbrev tE : Spec.Tables := xtables scE progE

theorem small_big {v : Int} (h0 : -1000 < v) (h1 : v < 1000) : -GoEval.big < v ∧ v < GoEval.big := by
  have := ForPass.big_gt
  have e : (2 : Int) ^ 31 = 2147483648 := by decide
  omega

theorem lit_big (n : Nat) (h : n < 1000) : NoBigLit (.num n) := by
  show (n : Int) < GoEval.big
  have := (small_big (v := (n : Int)) (by omega) (by omega)).2
  exact this

theorem sizeE (e : List Spec.ETok) (h : ∀ j, j ≤ 3 → (iterE tE.equs j e).length ≤ 20000)
    (hk : keyFreeB tE.equs (iterE tE.equs 3 e) = true) : SizeOK tE.equs e :=
  sizeOK_of_keyfree 3 ((keyFreeB_iff _ _).1 hk) h

theorem le3 {P : Nat → Prop} (h0 : P 0) (h1 : P 1) (h2 : P 2) (h3 : P 3) : ∀ j, j ≤ 3 → P j := by
  intro j hj
  match j, hj with
  | 0, _ => exact h0
  | 1, _ => exact h1
  | 2, _ => exact h2
  | 3, _ => exact h3

theorem size_x : SizeOK tE.equs [.num 1, .op "+", .num 2] :=
  sizeE _ (le3 (by decide) (by decide) (by decide) (by decide)) (by decide)

theorem size_y : SizeOK tE.equs [.name "x", .op "-", .name "a"] :=
  sizeE _ (le3 (by decide) (by decide) (by decide) (by decide)) (by decide)

theorem good_a : GoodX scE tE 0 [.name "x", .op "*", .num 3] where
  size := sizeE _ (le3 (by decide) (by decide) (by decide) (by decide)) (by decide)
  tree := by
    intro x out h1 h2
    have e1 : Spec.expandEqus 64 tE.equs [.name "x", .op "*", .num 3] =
        some [.num 1, .op "+", .num 2, .op "*", .num 3] := by decide
    rw [e1] at h1
    cases h1
    have e2 : Spec.substLabels scE tE 0 [.num 1, .op "+", .num 2, .op "*", .num 3] =
        some [.num 1, .op "+", .num 2, .op "*", .num 3] := by decide
    rw [e2] at h2
    cases h2
    refine ⟨.bin "+" (.num 1) (.bin "*" (.num 2) (.num 3)), ?_, ?_, rfl⟩
    · exact ⟨Or.inl rfl, trivial, ⟨Or.inr (Or.inr (Or.inl rfl)), trivial, trivial, by decide, by decide⟩,
        by decide, by decide⟩
    · refine ⟨lit_big 1 (by omega), ⟨lit_big 2 (by omega), lit_big 3 (by omega), ?_⟩, ?_⟩
      · intro v hv
        have : v = 6 := by
          have : denote (.bin "*" (.num 2) (.num 3)) = some 6 := by decide
          rw [this] at hv; cases hv; rfl
        subst this
        exact small_big (by omega) (by omega)
      · intro v hv
        have : v = 7 := by
          have : denote (.bin "+" (.num 1) (.bin "*" (.num 2) (.num 3))) = some 7 := by decide
          rw [this] at hv; cases hv; rfl
        subst this
        exact small_big (by omega) (by omega)

theorem good_y : GoodX scE tE 1 [.name "y"] where
  size := sizeE _ (le3 (by decide) (by decide) (by decide) (by decide)) (by decide)
  tree := by
    intro x out h1 h2
    have e1 : Spec.expandEqus 64 tE.equs [.name "y"] =
        some [.num 1, .op "+", .num 2, .op "-", .name "a"] := by decide
    rw [e1] at h1
    cases h1
    have e2 : Spec.substLabels scE tE 1 [.num 1, .op "+", .num 2, .op "-", .name "a"] =
        some [.num 1, .op "+", .num 2, .op "-", .op "-", .num 1] := by decide
    rw [e2] at h2
    cases h2
    refine ⟨.bin "-" (.bin "+" (.num 1) (.num 2)) (.signs [true] (.num 1)), ?_, ?_, rfl⟩
    · exact ⟨Or.inr (Or.inl rfl), ⟨Or.inl rfl, trivial, trivial, by decide, by decide⟩,
        ⟨rfl, trivial⟩, by decide, by decide⟩
    · refine ⟨⟨lit_big 1 (by omega), lit_big 2 (by omega), ?_⟩, lit_big 1 (by omega), ?_⟩
      · intro v hv
        have : v = 3 := by
          have : denote (.bin "+" (.num 1) (.num 2)) = some 3 := by decide
          rw [this] at hv; cases hv; rfl
        subst this
        exact small_big (by omega) (by omega)
      · intro v hv
        have : v = 4 := by
          have : denote (.bin "-" (.bin "+" (.num 1) (.num 2)) (.signs [true] (.num 1))) = some 4 := by
            decide
          rw [this] at hv; cases hv; rfl
        subst this
        exact small_big (by omega) (by omega)

theorem good_assert : GoodX scE tE 0 [.name "x"] where
  size := sizeE _ (le3 (by decide) (by decide) (by decide) (by decide)) (by decide)
  tree := by
    intro x out h1 h2
    have e1 : Spec.expandEqus 64 tE.equs [.name "x"] = some [.num 1, .op "+", .num 2] := by decide
    rw [e1] at h1
    cases h1
    have e2 : Spec.substLabels scE tE 0 [.num 1, .op "+", .num 2] =
        some [.num 1, .op "+", .num 2] := by decide
    rw [e2] at h2
    cases h2
    refine ⟨.bin "+" (.num 1) (.num 2), ⟨Or.inl rfl, trivial, trivial, by decide, by decide⟩,
      ⟨lit_big 1 (by omega), lit_big 2 (by omega), ?_⟩, rfl⟩
    intro v hv
    have : v = 3 := by
      have : denote (.bin "+" (.num 1) (.num 2)) = some 3 := by decide
      rw [this] at hv; cases hv; rfl
    subst this
    exact small_big (by omega) (by omega)

theorem ascii_dat : Ascii "dat" := by
  have h : "dat".toList = ['d', 'a', 't'] := by decide
  intro c hc
  rw [h] at hc
  simp only [List.mem_cons, List.not_mem_nil, or_false] at hc
  rcases hc with rfl | rfl | rfl <;> decide

theorem progE_wf : XProgWF lexE scE tE 0 progE := by
  refine ⟨?_, ?_, ?_, ?_, ?_, trivial⟩
  · exact ⟨by decide, size_x⟩
  · refine ⟨ascii_dat, by decide, ?_, good_a, ?_⟩
    · intro s h; cases h
    · intro bo h; cases h
  · refine ⟨ascii_dat, by decide, ?_, good_y, ?_⟩
    · intro s h; cases h
    · intro bo h; cases h
  · exact ⟨by decide, size_y⟩
  · exact ⟨by decide, ⟨_, rfl⟩, good_assert⟩

theorem progE_ranked : ERanked (xequs progE ++ Spec.predefined scE) dE := by
  intro k v hkv s hsv hsome
  have hk : k = "x" ∨ k = "y" ∨ k ∈ constNames := by
    unfold ETab.get? at hkv
    cases hf : (xequs progE ++ Spec.predefined scE).find? (·.1 == k) with
    | none => rw [hf] at hkv; cases hkv
    | some p =>
      have hm := List.mem_of_find?_eq_some hf
      have hp : p.1 = k := by simpa using List.find?_some hf
      simp only [xequs, progE, Spec.predefined, List.cons_append, List.nil_append, List.mem_cons,
        List.not_mem_nil, or_false] at hm
      rcases hm with rfl | rfl | rfl | rfl | rfl | rfl <;> simp [← hp, constNames]
  rcases hk with rfl | rfl | hk
  · have : v = [.num 1, .op "+", .num 2] := by
      have : ETab.get? (xequs progE ++ Spec.predefined scE) "x" = some [.num 1, .op "+", .num 2] := by decide
      rw [this] at hkv; cases hkv; rfl
    subst this
    simp at hsv
  · have : v = [.name "x", .op "-", .name "a"] := by
      have : ETab.get? (xequs progE ++ Spec.predefined scE) "y" =
          some [.name "x", .op "-", .name "a"] := by decide
      rw [this] at hkv; cases hkv; rfl
    subst this
    simp only [List.mem_cons, Spec.ETok.name.injEq, List.not_mem_nil, or_false, reduceCtorEq,
      false_or] at hsv
    rcases hsv with rfl | rfl
    · decide
    · have : ETab.get? (xequs progE ++ Spec.predefined scE) "a" = none := by decide
      rw [this] at hsome; cases hsome
  · simp only [constNames, List.mem_cons, List.not_mem_nil, or_false] at hk
    rcases hk with rfl | rfl | rfl | rfl
    all_goals
      (have hh : ∀ s, Spec.ETok.name s ∉ v := by
        intro s hs
        revert hkv
        simp only [ETab.get?, xequs, progE, Spec.predefined, List.cons_append, List.nil_append,
          List.find?_cons]
        simp
        intro h; subst h; simp at hs
       exact absurd hsv (hh s))

/-- the theorem applies: on this program the model of `compile()` returns the reference meaning -/
theorem example_meaning (ameta : AsmMeta) :
    compile lexE cfgE (xrender 0 progE) ameta =
      .ok ((Spec.meaningFlat scE (progE.map XItem.toItem)).map (toWD ameta)) :=
  compile_meaning_equ lexE cfgE scE progE ameta dE (by decide) (by decide)
    ⟨rfl, rfl, rfl, rfl, rfl⟩ (by decide) (by decide) progE_ranked
    (by intro s; unfold dE; split <;> omega) progE_wf

end Gmars.AsmLine.EquExample
