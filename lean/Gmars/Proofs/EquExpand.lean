/-
  The fixpoint loop of `expandExpression` on an acyclic table computes "expand every EQU name
  completely, then replace every label by its offset": `expandExpression_ranked`.
-/
import Gmars.Proofs.EquSubst

namespace Gmars.AsmLine
open Gmars.Compile Gmars.ExprProofs

/-- the answer of the loop: `r` rounds of EQU substitution, then the labels -/
def finT (c : Compiler) (line : Int) (r : Nat) (ts : List Token) : Option (List Token) :=
  substT (sigmaC c line) (iterT c.values r ts)

theorem finT_nil (c : Compiler) (line : Int) (r : Nat) : finT c line r [] = some [] := by
  unfold finT
  rw [iterT_nil]; rfl

theorem finT_append (c : Compiler) (line : Int) (r : Nat) (a b : List Token) :
    finT c line r (a ++ b) = (finT c line r a).bind fun x => (finT c line r b).map fun y => x ++ y := by
  unfold finT
  rw [iterT_append, substT_append]

theorem finT_cons (c : Compiler) (line : Int) (r : Nat) (t : Token) (ts : List Token) :
    finT c line r (t :: ts) =
      (finT c line r [t]).bind fun x => (finT c line r ts).map fun y => x ++ y :=
  finT_append c line r [t] ts

theorem finT_notext (c : Compiler) (line : Int) (r : Nat) (ts : List Token)
    (h : ∀ t ∈ ts, t.typ ≠ .text) : finT c line r ts = some ts := by
  unfold finT
  rw [iterT_keyfree _ _ _ (fun t ht htx => absurd htx (h t ht)), substT_notext _ _ h]

/-! ## one round, in `Option` -/

def expTokO (c : Compiler) (line : Int) (t : Token) : Option (List Token) :=
  if t.typ == .text then
    match c.values.get? t.val with
    | some v => some v
    | none => (sigmaC c line t.val).map fun v => (valCST v).tokens
  else some [t]

def expOnceO (c : Compiler) (line : Int) : List Token → Option (List Token)
  | [] => some []
  | t :: r => (expTokO c line t).bind fun x => (expOnceO c line r).map fun rest => x ++ rest

theorem expOnceO_cons (c : Compiler) (line : Int) (t : Token) (r : List Token) :
    expOnceO c line (t :: r) =
      (expTokO c line t).bind fun x => (expOnceO c line r).map fun rest => x ++ rest := rfl

theorem expandTok_eq (c : Compiler) (line : Int) (hm : mInt c.m ≠ 0)
    (hm63 : mInt c.m < 9223372036854775808) (t : Token) :
    expandTok c line t = optM (expTokO c line t) := by
  unfold expTokO
  by_cases htx : t.typ = .text
  · have hb : (t.typ == TokType.text) = true := by simpa using htx
    rw [if_pos hb]
    cases hv : c.values.get? t.val with
    | some v =>
      unfold expandTok
      rw [if_pos hb, hv]
      rfl
    | none =>
      have ht' : t = textTok t.val := by
        cases t; simp only [textTok] at htx ⊢; subst htx; rfl
      simp only [sigmaC]
      cases hl : c.labels.get? t.val with
      | none =>
        unfold expandTok
        rw [if_pos hb, hv, hl]
        rfl
      | some label =>
        rw [ht', expandTok_label c line t.val label hm hm63 hv hl]
        rfl
  · have hb : (t.typ == TokType.text) = false := by simpa using htx
    unfold expandTok
    rw [hb]
    rfl

theorem expandOnce_eq (c : Compiler) (line : Int) (hm : mInt c.m ≠ 0)
    (hm63 : mInt c.m < 9223372036854775808) (ts : List Token) :
    expandOnce c line ts = optM (expOnceO c line ts) := by
  induction ts with
  | nil => rfl
  | cons t r ih =>
    unfold expandOnce expOnceO
    rw [expandTok_eq c line hm hm63 t, ih]
    cases expTokO c line t with
    | none => rfl
    | some x => cases expOnceO c line r <;> rfl

/-- one token: expanding it first does not change the answer (and fails only if the answer is
    "no") -/
theorem finT_expTok {c : Compiler} {d : String → Nat} (hr : TRanked c.values d) (line : Int) (r : Nat)
    (hall : ∀ s, (c.values.get? s).isSome = true → d s < r) (t : Token) :
    (expTokO c line t).bind (finT c line r) = finT c line r [t] := by
  unfold expTokO
  by_cases htx : t.typ = .text
  · have hb : (t.typ == TokType.text) = true := by simpa using htx
    rw [if_pos hb]
    cases hv : c.values.get? t.val with
    | some v =>
      simp only [Option.bind_some]
      have hd := hall t.val (by rw [hv]; rfl)
      obtain ⟨r', rfl⟩ : ∃ r', r = r' + 1 := ⟨r - 1, by omega⟩
      have hbv : TBound c.values d r' v := by
        intro x hx hxt hsome
        have := hr t.val v hv x hx hxt hsome
        omega
      unfold finT
      rw [iterT_stable hr r' v hbv (r' + 1) (by omega)]
      simp only [iterT, stepT, List.flatMap_cons, List.flatMap_nil, List.append_nil,
        stepTTok_text _ t htx, hv, Option.getD_some]
    | none =>
      have hkf : TKeyFree c.values [t] := by
        intro x hx _
        simp only [List.mem_singleton] at hx
        subst hx
        exact hv
      have h1 : finT c line r [t] = substT (sigmaC c line) [t] := by
        unfold finT
        rw [iterT_keyfree _ _ _ hkf]
      rw [h1]
      simp only [substT, hb, if_true]
      cases sigmaC c line t.val with
      | none => rfl
      | some v =>
        simp only [Option.map_some, Option.bind_some, List.append_nil]
        exact finT_notext c line r _ (valCST_notext v)
  · have hb : (t.typ == TokType.text) = false := by simpa using htx
    rw [hb]
    rfl

theorem finT_expOnce {c : Compiler} {d : String → Nat} (hr : TRanked c.values d) (line : Int) (r : Nat)
    (hall : ∀ s, (c.values.get? s).isSome = true → d s < r) (ts : List Token) :
    (expOnceO c line ts).bind (finT c line r) = finT c line r ts := by
  induction ts with
  | nil => rfl
  | cons t rest ih =>
    rw [finT_cons, ← finT_expTok hr line r hall t, ← ih, expOnceO_cons]
    cases expTokO c line t with
    | none => rfl
    | some x =>
      cases expOnceO c line rest with
      | none =>
        simp only [Option.bind_some, Option.map_none, Option.bind_none]
        cases finT c line r x <;> rfl
      | some y =>
        simp only [Option.bind_some, Option.map_some, finT_append]

/-! ## the loop -/

/-- a round that changes nothing has nothing left to change -/
theorem expandOnce_fix_notext {c : Compiler} {d : String → Nat} (hr : Ranked c.values d) {line : Int} :
    ∀ (n : Nat) (ts : List Token), (∀ t ∈ ts, tokDepth d t ≤ n) → expandOnce c line ts = .ok ts →
      ∀ t ∈ ts, t.typ ≠ .text := by
  intro n
  induction n with
  | zero =>
    intro ts h _ t ht htx
    have := h t ht
    unfold tokDepth at this
    rw [if_pos htx] at this
    omega
  | succ n ih =>
    intro ts h hfix
    exact ih ts (expandOnce_depth hr hfix h) hfix

theorem expandLoop_ranked {c : Compiler} {d1 d2 : String → Nat} (hm : mInt c.m ≠ 0)
    (hm63 : mInt c.m < 9223372036854775808) (h1 : Ranked c.values d1) (h2 : TRanked c.values d2)
    (line : Int) (r : Nat) (hall : ∀ s, (c.values.get? s).isSome = true → d2 s < r) :
    ∀ (fuel n : Nat) (ts : List Token), (∀ t ∈ ts, tokDepth d1 t ≤ n) → n < fuel →
      expandLoop c line fuel ts = optM (finT c line r ts) := by
  intro fuel
  induction fuel with
  | zero => intro n ts _ h; omega
  | succ fuel ih =>
    intro n ts hts hn
    unfold expandLoop
    have hinv := finT_expOnce h2 line r hall ts
    have honce := expandOnce_eq c line hm hm63 ts
    rw [honce]
    cases hy : expOnceO c line ts with
    | none =>
      rw [hy] at hinv
      rw [← hinv]
      rfl
    | some y =>
      rw [hy] at hinv honce
      simp only [Option.bind_some] at hinv
      show (if (y == ts) = true then pure y else expandLoop c line fuel y) = _
      split
      · rename_i heq
        have heq : y = ts := by simpa using heq
        subst heq
        have hnt := expandOnce_fix_notext h1 n y hts honce
        rw [finT_notext c line r y hnt]
        rfl
      · rename_i hne
        cases n with
        | zero =>
          rw [expandOnce_id hts] at honce
          cases honce
          simp at hne
        | succ n =>
          rw [ih n y (expandOnce_depth h1 honce hts) (by omega), hinv]

/-- **`expandExpression` on an acyclic table.**  `d1` is a rank that proves the loop ends within
    its fuel (`ranked_of_acyclic`, `ranked_of_expandExpressions`), `d2` any rank that bounds the
    number of substitution rounds by `r`. -/
theorem expandExpression_ranked {c : Compiler} {d1 d2 : String → Nat} (hm : mInt c.m ≠ 0)
    (hm63 : mInt c.m < 9223372036854775808) (h1 : Ranked c.values d1)
    (hd1 : ∀ s, d1 s ≤ c.values.length) (h2 : TRanked c.values d2) (r : Nat)
    (hall : ∀ s, (c.values.get? s).isSome = true → d2 s < r) (ts : List Token) (line : Int) :
    expandExpression c ts line = optM (finT c line r ts) := by
  unfold expandExpression
  cases ts with
  | nil => rw [finT_nil]; rfl
  | cons x rest =>
    simp only [List.isEmpty_cons, Bool.false_eq_true, if_false]
    refine expandLoop_ranked hm hm63 h1 h2 line r hall _ (c.values.length + 1) _ ?_ (by omega)
    intro t _
    unfold tokDepth
    split
    · have := hd1 t.val; omega
    · omega

end Gmars.AsmLine
