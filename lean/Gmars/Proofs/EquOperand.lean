/-
  One expression of a program with EQUs: the model's `expandExpression` + `evaluateExpression`,
  with the table as loaded (`;assert` lines) and with the table `expandExpressions` resolved
  (operands, start expression), against the reference's `Spec.evalAt`.
-/
import Gmars.Proofs.EquExpand
import Gmars.Proofs.EquResolve

namespace Gmars.AsmLine
open Gmars.Compile Gmars.ExprProofs

/-- the model's EQU table and the reference's describe the same acyclic definitions: same
    lookups (up to token rendering), distinct keys, a rank with EQU chains shorter than 64 -/
structure EquCtx (V : SymTab) (tab : ETab) (d : String → Nat) : Prop where
  rel : TabRel V tab
  nodup : (V.map (·.1)).Nodup
  ranked : ERanked tab d
  lt : ∀ s, d s < 63

theorem EquCtx.acyclic {V : SymTab} {tab : ETab} {d : String → Nat} (h : EquCtx V tab d) :
    graphContainsCycle (buildReferenceGraph V) = false :=
  acyclic_of_tranked h.nodup (h.ranked.tranked h.rel)

theorem EquCtx.ebound {V : SymTab} {tab : ETab} {d : String → Nat} (h : EquCtx V tab d)
    (e : List Spec.ETok) : EBound tab d 63 e := fun s _ _ => h.lt s

/-- what the reference's size limit must not cut off -/
def SizeOK (tab : ETab) (e : List Spec.ETok) : Prop := ∀ j, j ≤ 63 → (iterE tab j e).length ≤ 20000

theorem EquCtx.expandEqus {V : SymTab} {tab : ETab} {d : String → Nat} (h : EquCtx V tab d)
    {e : List Spec.ETok} (hs : SizeOK tab e) : Spec.expandEqus 64 tab e = some (iterE tab 63 e) :=
  (expandEqus_ranked h.ranked 64 63 e (h.ebound e) (by omega) hs).1

/-- the compiler state and the reference tables agree on the labels -/
structure XRel (c : Compiler) (sc : Spec.Cfg) (t : Spec.Tables) : Prop where
  crel : CRel c sc
  labels : c.labels = t.labels.map castL
  small : ∀ p ∈ t.labels, p.2 < 2 ^ 63

/-- the fully expanded expression is the token list of a precedence-well-formed tree inside the
    range the `go/types.Eval` model answers on -/
def TreeOK (sc : Spec.Cfg) (t : Spec.Tables) (k : Nat) (e : List Spec.ETok) : Prop :=
  ∀ x out, Spec.expandEqus 64 t.equs e = some x → Spec.substLabels sc t k x = some out →
    ∃ c : CST, WFprec c ∧ NoBigLit c ∧ c.etoks = out

theorem operandM_fin {c : Compiler} {sc : Spec.Cfg} {t : Spec.Tables} (hr : XRel c sc t) (k : Nat)
    (hk : k < 2 ^ 63) (e : List Spec.ETok) (r : Nat)
    (hexp : expandExpression c (toksOf e) (k : Int) = optM (finT c (k : Int) r (toksOf e)))
    (hit : iterT c.values r (toksOf e) = toksOf (iterE t.equs 63 e))
    (hE : Spec.expandEqus 64 t.equs e = some (iterE t.equs 63 e))
    (hwf : TreeOK sc t k e) :
    operandM c (toksOf e) (k : Int) = optM (Spec.evalAt sc t k e) := by
  have hfun : sigmaC c (k : Int) = sigmaS sc.M t.labels k :=
    funext (sigma_agree c sc.M t.labels k hr.labels hr.crel.m hr.small hk)
  unfold operandM
  rw [hexp]
  unfold finT
  rw [hit, substT_toksOf, hfun]
  unfold Spec.evalAt
  rw [hE]
  simp only [Option.bind_eq_bind, Option.bind_some]
  have hsub := substLabels_eq sc t k (iterE t.equs 63 e)
  rw [hsub]
  cases hout : substE (sigmaS sc.M t.labels k) (iterE t.equs 63 e) with
  | none => rfl
  | some out =>
    obtain ⟨x, h1, h2, rfl⟩ := hwf _ out hE (by rw [hsub, hout])
    show evalM (toksOf x.etoks) = _
    rw [← cst_tokens_eq]
    unfold evalM
    rw [model_agrees_with_reference x h1 h2]
    simp only [Option.bind_some]
    cases Spec.Expr.evalInt x.etoks <;> rfl

theorem XRel.m_ne {c : Compiler} {sc : Spec.Cfg} {t : Spec.Tables} (hr : XRel c sc t) :
    mInt c.m ≠ 0 := by
  rw [hr.crel.m]; have := hr.crel.pos; omega

theorem XRel.m_lt {c : Compiler} {sc : Spec.Cfg} {t : Spec.Tables} (hr : XRel c sc t) :
    mInt c.m < 9223372036854775808 := by
  rw [hr.crel.m]; have := hr.crel.lt; omega

/-- **with the table as loaded** (what `evaluateAssertion` expands with) -/
theorem operandM_raw {c : Compiler} {sc : Spec.Cfg} {t : Spec.Tables} {d : String → Nat}
    (hr : XRel c sc t) (hx : EquCtx c.values t.equs d) (k : Nat) (hk : k < 2 ^ 63)
    (e : List Spec.ETok) (hs : SizeOK t.equs e) (hwf : TreeOK sc t k e) :
    operandM c (toksOf e) (k : Int) = optM (Spec.evalAt sc t k e) := by
  obtain ⟨hrk, hle⟩ := ranked_of_acyclic hx.acyclic
  refine operandM_fin hr k hk e 63 ?_ (iterT_toksOf hx.rel 63 e) (hx.expandEqus hs) hwf
  exact expandExpression_ranked hr.m_ne hr.m_lt hrk hle (hx.ranked.tranked hx.rel) 63
    (fun s _ => hx.lt s) _ _

/-- **with the table `expandExpressions` resolved** (what `assembleLine` and the start expression
    expand with) -/
theorem operandM_resolved {c : Compiler} {sc : Spec.Cfg} {t : Spec.Tables} {d : String → Nat}
    {V : SymTab} (hr : XRel c sc t) (hx : EquCtx V t.equs d)
    (hres : expandExpressions V (buildReferenceGraph V) = some c.values)
    (k : Nat) (hk : k < 2 ^ 63)
    (e : List Spec.ETok) (hs : SizeOK t.equs e) (hwf : TreeOK sc t k e) :
    operandM c (toksOf e) (k : Int) = optM (Spec.evalAt sc t k e) := by
  obtain ⟨hrk, hle⟩ := ranked_of_acyclic hx.acyclic
  obtain ⟨res', hres', hget⟩ := expandExpressions_full hx.acyclic
  rw [hres] at hres'
  cases hres'
  obtain ⟨hrk1, hle1⟩ := ranked_of_expandExpressions hres
  have h0 : TRanked c.values (fun _ => 0) := by
    intro key v hkv tk htk htx hsome
    have h1 := hrk1 key v hkv tk htk htx
    have h2 : c.values.has tk.val = true := by rw [SymTab.has_eq]; exact hsome
    have h3 : c.values.has key = true := by rw [SymTab.has_eq, hkv]; rfl
    simp only [h2, h3, if_true] at h1
    omega
  refine operandM_fin hr k hk e 1 ?_ ?_ (hx.expandEqus hs) hwf
  · exact expandExpression_ranked hr.m_ne hr.m_lt hrk1 hle1 h0 1 (fun _ _ => Nat.zero_lt_one) _ _
  · have h1 : iterT c.values 1 (toksOf e) = stepT c.values (toksOf e) := rfl
    rw [h1, stepT_deep V c.values V.length hget, ← iterT_toksOf hx.rel 63 e]
    refine iterT_eq_of_bounds (Ranked.tranked hrk) (hx.ranked.tranked hx.rel) ?_
      ((hx.ebound e).tbound hx.rel)
    intro tk _ _ _
    have := hle tk.val
    omega

end Gmars.AsmLine
