/-
  graph.go / expr.go on an acyclic EQU table:
  * `acyclic_of_tranked`    — a ranked table passes `graphContainsCycle`;
  * `expandExpressions_full` — `expandExpressions` succeeds and resolves every key to its complete
    textual expansion `iterT V V.length`.
-/
import Gmars.Proofs.EquSubst

namespace Gmars.AsmLine
open Gmars.Compile Gmars.ExprProofs

/-! ## the reference graph once more -/

theorem refsOf_foldl_mem (V : SymTab) (toks : List Token) :
    ∀ (acc : List String) (s : String),
      s ∈ toks.foldl (fun (acc : List String) t =>
        if t.typ != .text then acc
        else if V.has t.val then (if acc.contains t.val then acc else acc ++ [t.val]) else acc) acc →
      s ∈ acc ∨ ∃ t ∈ toks, t.typ = .text ∧ t.val = s ∧ V.has s = true := by
  induction toks with
  | nil => intro acc s h; exact Or.inl h
  | cons t r ih =>
    intro acc s h
    rw [List.foldl_cons] at h
    rcases ih _ s h with h | ⟨t', ht', h1, h2, h3⟩
    · split at h
      · exact Or.inl h
      · rename_i htx
        have htx : t.typ = .text := by simpa using htx
        split at h
        · rename_i hhas
          split at h
          · exact Or.inl h
          · rcases List.mem_append.1 h with h | h
            · exact Or.inl h
            · simp only [List.mem_singleton] at h
              subst h
              exact Or.inr ⟨t, List.mem_cons_self .., htx, rfl, hhas⟩
        · exact Or.inl h
    · exact Or.inr ⟨t', List.mem_cons_of_mem _ ht', h1, h2, h3⟩

/-- the adjacency list of a value mentions keys of the table that occur in the value only -/
theorem of_mem_refsOf {V : SymTab} {toks : List Token} {s : String} (h : s ∈ refsOf V toks) :
    ∃ t ∈ toks, t.typ = .text ∧ t.val = s ∧ V.has s = true := by
  rcases refsOf_foldl_mem V toks [] s h with h | h
  · cases h
  · exact h

/-- every entry of the graph is the adjacency list of an entry of the table -/
theorem graph_get?_entry {V : SymTab} {k : String} {refs : List String}
    (h : (buildReferenceGraph V).get? k = some refs) :
    ∃ e ∈ V, e.1 = k ∧ refs = refsOf V e.2 := by
  have hm := mem_keys_of_get? h
  rw [buildReferenceGraph_eq] at hm
  obtain ⟨e, he, hge⟩ := List.mem_filterMap.1 hm
  unfold graphEntry at hge
  split at hge
  · cases hge
  · cases hge
    exact ⟨e, he, rfl, rfl⟩

theorem graph_refs_has {V : SymTab} {k : String} {refs : List String}
    (h : (buildReferenceGraph V).get? k = some refs) : ∀ r ∈ refs, V.has r = true := by
  obtain ⟨e, _, _, rfl⟩ := graph_get?_entry h
  intro r hr
  obtain ⟨_, _, _, _, h3⟩ := of_mem_refsOf hr
  exact h3

theorem SymTab.get?_of_mem_nodup {V : SymTab} (hnd : (V.map (·.1)).Nodup) {e : String × List Token}
    (he : e ∈ V) : V.get? e.1 = some e.2 := by
  induction V with
  | nil => cases he
  | cons x r ih =>
    rw [List.map_cons, List.nodup_cons] at hnd
    unfold SymTab.get?
    rw [List.find?_cons]
    rcases List.mem_cons.1 he with rfl | he
    · simp
    · have hne : x.1 ≠ e.1 := by
        intro heq
        exact hnd.1 (heq ▸ List.mem_map_of_mem he)
      have : (x.1 == e.1) = false := by simpa using hne
      rw [this]
      exact ih hnd.2 he

theorem SymTab.has_of_mem {V : SymTab} {e : String × List Token} (he : e ∈ V) : V.has e.1 = true := by
  unfold SymTab.has
  cases hf : V.find? (·.1 == e.1) with
  | some _ => rfl
  | none =>
    rw [List.find?_eq_none] at hf
    have := hf e he
    simp at this

/-! ## a ranked table passes the cycle check -/

theorem nodeContainsCycle_ranked {g : Graph} {d : String → Nat}
    (hd : ∀ k refs, g.get? k = some refs → ∀ r ∈ refs, d r < d k) :
    ∀ (fuel : Nat) (node : String) (visited : List String), visited.Nodup →
      (∀ x ∈ visited, (g.get? x).isSome = true) → (∀ x ∈ visited, d node < d x) →
      g.length + 2 ≤ fuel + visited.length → nodeContainsCycle fuel node g visited = false := by
  have hlen : ∀ visited : List String, visited.Nodup → (∀ x ∈ visited, (g.get? x).isSome = true) →
      visited.length ≤ g.length := by
    intro visited hnd hkeys
    have hsub : visited ⊆ g.map (·.1) := by
      intro x hx
      have := hkeys x hx
      cases hx' : g.get? x with
      | none => rw [hx'] at this; cases this
      | some rs => exact List.mem_map.mpr ⟨_, mem_keys_of_get? hx', rfl⟩
    have := List.Nodup.length_le_of_subset hnd hsub
    rwa [List.length_map] at this
  intro fuel
  induction fuel with
  | zero =>
    intro node visited hnd hkeys _ hf
    have := hlen visited hnd hkeys
    omega
  | succ fuel ih =>
    intro node visited hnd hkeys hlt hf
    unfold nodeContainsCycle
    cases hg : g.get? node with
    | none => rfl
    | some refs =>
      simp only
      rw [List.any_eq_false]
      intro r hr
      have hdr := hd node refs hg r hr
      have hnode : node ∉ visited := fun h => Nat.lt_irrefl _ (hlt node h)
      have hnd' : (visited ++ [node]).Nodup := by
        rw [List.nodup_append]
        refine ⟨hnd, by simp, ?_⟩
        intro a ha b hb
        simp only [List.mem_singleton] at hb
        subst hb
        intro hab
        subst hab
        exact hnode ha
      have hkeys' : ∀ x ∈ visited ++ [node], (g.get? x).isSome = true := by
        intro x hx
        rcases List.mem_append.mp hx with hx | hx
        · exact hkeys x hx
        · simp only [List.mem_singleton] at hx
          subst hx
          rw [hg]; rfl
      have hlt' : ∀ x ∈ visited ++ [node], d r < d x := by
        intro x hx
        rcases List.mem_append.mp hx with hx | hx
        · have := hlt x hx; omega
        · simp only [List.mem_singleton] at hx
          subst hx
          exact hdr
      have hnot : (visited ++ [node]).contains r = false := by
        cases hc : (visited ++ [node]).contains r with
        | false => rfl
        | true =>
          have := hlt' r (List.contains_iff_mem.1 hc)
          omega
      have hrec := ih r (visited ++ [node]) hnd' hkeys' hlt'
        (by simp only [List.length_append, List.length_singleton]; omega)
      rw [hnot, hrec]
      decide

theorem graphContainsCycle_ranked {g : Graph} {d : String → Nat}
    (hd : ∀ k refs, g.get? k = some refs → ∀ r ∈ refs, d r < d k) : graphContainsCycle g = false := by
  unfold graphContainsCycle
  rw [List.any_eq_false]
  intro e _
  have := nodeContainsCycle_ranked hd (g.length + 2) e.1 [] List.nodup_nil
    (fun x hx => by cases hx) (fun x hx => by cases hx) (by simp)
  simp [this]

/-- a table with distinct keys whose EQU-to-EQU references are ranked passes `graphContainsCycle` -/
theorem acyclic_of_tranked {V : SymTab} {d : String → Nat} (hnd : (V.map (·.1)).Nodup)
    (hr : TRanked V d) : graphContainsCycle (buildReferenceGraph V) = false := by
  apply graphContainsCycle_ranked (d := d)
  intro k refs hg r hrr
  obtain ⟨e, he, rfl, rfl⟩ := graph_get?_entry hg
  obtain ⟨t, ht, htx, rfl, hhas⟩ := of_mem_refsOf hrr
  exact hr e.1 e.2 (SymTab.get?_of_mem_nodup hnd he) t ht htx (by rw [← SymTab.has_eq]; exact hhas)

/-! ## `expandExpressions` resolves every key completely -/

/-- `res` has keys of `V` only, each resolved to its complete expansion -/
structure RInv (V res : SymTab) (R : Nat) : Prop where
  keys : ∀ k, res.has k = true → V.has k = true
  vals : ∀ k v, res.get? k = some v → ∃ value, V.get? k = some value ∧ v = iterT V R value

theorem RInv_nil (V : SymTab) (R : Nat) : RInv V [] R :=
  ⟨fun k hk => (by cases hk), fun k v hk => (by cases hk)⟩

theorem fold_full {β : Type} {V : SymTab} {R : Nat} (π : β → String)
    (E : String → SymTab → Option SymTab) (P : String → Prop)
    (hE : ∀ dep res, P dep → RInv V res R →
      ∃ res', E dep res = some res' ∧ RInv V res' R ∧ Mono res res' ∧ res'.has dep = true) :
    ∀ (l : List β) (res : SymTab), (∀ x ∈ l, P (π x)) → RInv V res R →
      ∃ res', l.foldl (fun (acc : Option SymTab) x =>
        match acc with
        | none => none
        | some r => if r.has (π x) then some r else E (π x) r) (some res) = some res' ∧
      RInv V res' R ∧ Mono res res' ∧ ∀ x ∈ l, res'.has (π x) = true := by
  intro l
  induction l with
  | nil =>
    intro res _ hinv
    exact ⟨res, rfl, hinv, fun k hk => hk, fun x hx => by cases hx⟩
  | cons x xs ih =>
    intro res hP hinv
    rw [List.foldl_cons]
    simp only
    have hPx := hP x (List.mem_cons_self ..)
    have hPxs : ∀ y ∈ xs, P (π y) := fun y hy => hP y (List.mem_cons_of_mem _ hy)
    by_cases hx : res.has (π x) = true
    · rw [if_pos hx]
      obtain ⟨res', h0, h1, h2, h3⟩ := ih res hPxs hinv
      refine ⟨res', h0, h1, h2, ?_⟩
      intro y hy
      rcases List.mem_cons.mp hy with rfl | hy
      · exact h2 _ hx
      · exact h3 y hy
    · rw [if_neg hx]
      obtain ⟨r1, e1, i1, m1, k1⟩ := hE (π x) res hPx hinv
      rw [e1]
      obtain ⟨res', h0, h1, h2, h3⟩ := ih r1 hPxs i1
      refine ⟨res', h0, h1, fun k hk => h2 k (m1 k hk), ?_⟩
      intro y hy
      rcases List.mem_cons.mp hy with rfl | hy
      · exact h2 _ k1
      · exact h3 y hy

theorem stepTTok_deep (V V' : SymTab) (k : Nat) (t : Token)
    (h : t.typ = .text → V'.get? t.val = (V.get? t.val).map (iterT V k)) :
    stepTTok V' t = iterT V k (stepTTok V t) := by
  by_cases htx : t.typ = .text
  · rw [stepTTok_text V' t htx, stepTTok_text V t htx, h htx]
    cases hg : V.get? t.val with
    | some v => rfl
    | none =>
      simp only [Option.map_none, Option.getD_none]
      rw [iterT_keyfree]
      intro x hx _
      simp only [List.mem_singleton] at hx
      subst hx
      exact hg
  · rw [stepTTok_notext V' t htx, stepTTok_notext V t htx, iterT_keyfree]
    intro x hx hxt
    simp only [List.mem_singleton] at hx
    subst hx
    exact absurd hxt htx

theorem stepT_deep_local (V V' : SymTab) (k : Nat) (ts : List Token)
    (h : ∀ t ∈ ts, t.typ = .text → V'.get? t.val = (V.get? t.val).map (iterT V k)) :
    stepT V' ts = iterT V (k + 1) ts := by
  induction ts with
  | nil => rw [iterT_nil]; rfl
  | cons t r ih =>
    rw [stepT_cons, iterT_cons, ih (fun x hx => h x (List.mem_cons_of_mem _ hx)),
      stepTTok_deep V V' k t (h t (List.mem_cons_self ..))]
    simp only [iterT, stepT, List.flatMap_cons, List.flatMap_nil, List.append_nil]

theorem expandValue_flatMap (res : SymTab) (value : List Token) :
    value.flatMap (fun t =>
      if t.typ == .text then
        match res.get? t.val with
        | some v => v
        | none => [t]
      else [t]) = stepT res value := rfl

theorem expandValue_full {V : SymTab} (hc : graphContainsCycle (buildReferenceGraph V) = false) :
    ∀ (fuel : Nat) (key : String) (res : SymTab), RInv V res V.length → V.has key = true →
      graphRank (buildReferenceGraph V) key < fuel →
      ∃ res', expandValue fuel key V res (buildReferenceGraph V) = some res' ∧
        RInv V res' V.length ∧ Mono res res' ∧ res'.has key = true := by
  obtain ⟨hrk, hle⟩ := ranked_of_acyclic hc
  intro fuel
  induction fuel with
  | zero => intro key res _ _ h; omega
  | succ fuel ih =>
    intro key res hinv hkey hfuel
    unfold expandValue
    cases hv : V.get? key with
    | none => rw [SymTab.has_eq, hv] at hkey; cases hkey
    | some value =>
      simp only
      by_cases hk : res.has key = true
      · rw [if_pos hk]
        exact ⟨res, rfl, hinv, fun k hk => hk, hk⟩
      · rw [if_neg hk]
        have hdeps : ∀ dep ∈ ((buildReferenceGraph V).get? key).getD [],
            V.has dep = true ∧ graphRank (buildReferenceGraph V) dep < fuel := by
          intro dep hdep
          cases hg : (buildReferenceGraph V).get? key with
          | none => rw [hg] at hdep; cases hdep
          | some refs =>
            rw [hg] at hdep
            have := graphRank_lt hc hg hdep
            exact ⟨graph_refs_has hg dep hdep, by omega⟩
        obtain ⟨r2, hfold, i2, m2, d2⟩ := fold_full (V := V) (R := V.length) (fun s : String => s)
          (fun dep r => expandValue fuel dep V r (buildReferenceGraph V))
          (fun dep => V.has dep = true ∧ graphRank (buildReferenceGraph V) dep < fuel)
          (fun dep r hp hr => ih dep r hr hp.1 hp.2) _ res hdeps hinv
        generalize hF : List.foldl _ (some res) (((buildReferenceGraph V).get? key).getD []) = F
        have hF2 : F = some r2 := hF.symm.trans hfold
        subst hF2
        show ∃ res', some (r2.set key (stepT r2 value)) = some res' ∧ _
        have hout : stepT r2 value = iterT V V.length value := by
          have hloc : ∀ t ∈ value, t.typ = .text →
              r2.get? t.val = (V.get? t.val).map (iterT V V.length) := by
            intro t ht htx
            cases hhas : V.has t.val with
            | false =>
              have h1 : V.get? t.val = none := by
                rw [SymTab.has_eq] at hhas
                cases hx : V.get? t.val with
                | none => rfl
                | some _ => rw [hx] at hhas; cases hhas
              have h2 : r2.get? t.val = none := by
                cases hx : r2.get? t.val with
                | none => rfl
                | some _ =>
                  have := i2.keys t.val (by rw [SymTab.has_eq, hx]; rfl)
                  rw [hhas] at this; cases this
              rw [h1, h2]; rfl
            | true =>
              have hne : value ≠ [] := by intro h; subst h; cases ht
              have hg := graph_get?_of_get? V V hv hne
              rw [← buildReferenceGraph_eq] at hg
              have hin := d2 t.val (by rw [hg]; exact mem_refsOf ht htx hhas)
              rw [SymTab.has_eq] at hin
              cases hx : r2.get? t.val with
              | none => rw [hx] at hin; cases hin
              | some v =>
                obtain ⟨value', hv', rfl⟩ := i2.vals _ _ hx
                rw [hv']; rfl
          rw [stepT_deep_local V r2 V.length value hloc]
          refine iterT_stable (Ranked.tranked hrk) V.length value ?_ _ (by omega)
          intro t ht htx _
          have := hrk key value hv t ht htx
          have := hle key
          omega
        rw [hout]
        refine ⟨_, rfl, ⟨?_, ?_⟩, ?_, ?_⟩
        · intro k hk'
          rw [SymTab.has_set] at hk'
          rcases Bool.or_eq_true_iff.mp hk' with hk' | hk'
          · have : k = key := by simpa using hk'
            rw [this]; exact hkey
          · exact i2.keys k hk'
        · intro k v hkv
          by_cases hkk : k = key
          · subst hkk
            rw [SymTab.get?_set_self] at hkv
            cases hkv
            exact ⟨value, hv, rfl⟩
          · rw [SymTab.get?_set_ne _ _ hkk] at hkv
            exact i2.vals k v hkv
        · intro k hk'
          rw [SymTab.has_set, m2 k hk', Bool.or_true]
        · rw [SymTab.has_set]
          simp

/-- **`expandExpressions` on an acyclic table** succeeds, and resolves every key to its complete
    textual expansion -/
theorem expandExpressions_full {V : SymTab}
    (hc : graphContainsCycle (buildReferenceGraph V) = false) :
    ∃ resolved, expandExpressions V (buildReferenceGraph V) = some resolved ∧
      ∀ s, resolved.get? s = (V.get? s).map (iterT V V.length) := by
  obtain ⟨hrk, hle⟩ := ranked_of_acyclic hc
  obtain ⟨resolved, hfold, hinv, _, hall⟩ := fold_full (V := V) (R := V.length)
    (fun e : String × List Token => e.1)
    (fun dep r => expandValue (V.length + 2) dep V r (buildReferenceGraph V))
    (fun dep => V.has dep = true)
    (fun dep r hp hr => expandValue_full hc _ dep r hr hp (by have := hle dep; omega))
    V [] (fun e he => SymTab.has_of_mem he) (RInv_nil V V.length)
  refine ⟨resolved, hfold, ?_⟩
  intro s
  cases hv : V.get? s with
  | none =>
    cases hx : resolved.get? s with
    | none => rfl
    | some _ =>
      have := hinv.keys s (by rw [SymTab.has_eq, hx]; rfl)
      rw [SymTab.has_eq, hv] at this
      cases this
  | some value =>
    have hmem : ∃ e ∈ V, e.1 = s := by
      unfold SymTab.get? at hv
      cases hf : V.find? (·.1 == s) with
      | none => rw [hf] at hv; cases hv
      | some e =>
        exact ⟨e, List.mem_of_find?_eq_some hf, by simpa using List.find?_some hf⟩
    obtain ⟨e, he, rfl⟩ := hmem
    have hhas := hall e he
    rw [SymTab.has_eq] at hhas
    cases hx : resolved.get? e.1 with
    | none => rw [hx] at hhas; cases hhas
    | some v =>
      obtain ⟨value', hv', rfl⟩ := hinv.vals _ _ hx
      rw [hv] at hv'
      cases hv'
      rfl

end Gmars.AsmLine
