/-
  More about the reference's iterated substitution `iterE`:
  * how to establish the size condition `SizeOK` (`sizeOK_of_keyfree`, `sizeOK_of_final`);
  * a table on which `Spec.expandEqus 64` succeeds for every body is ranked
    (`ranked_of_expandEqus`): the reference rejects every cyclic table.
-/
import Gmars.Proofs.EquOperand

namespace Gmars.AsmLine
open Gmars.Compile Gmars.ExprProofs

theorem iterE_nil (tab : ETab) (k : Nat) : iterE tab k [] = [] := by
  induction k with
  | zero => rfl
  | succ k ih => rw [iterE, stepE_nil, ih]

theorem iterE_append (tab : ETab) (k : Nat) : ∀ a b : List Spec.ETok,
    iterE tab k (a ++ b) = iterE tab k a ++ iterE tab k b := by
  induction k with
  | zero => intro a b; rfl
  | succ k ih => intro a b; rw [iterE, stepE_append, ih]; rfl

theorem iterE_add (tab : ETab) (a b : Nat) : ∀ ts : List Spec.ETok,
    iterE tab (a + b) ts = iterE tab b (iterE tab a ts) := by
  induction a with
  | zero => intro ts; rw [Nat.zero_add]; rfl
  | succ a ih =>
    intro ts
    rw [show a + 1 + b = (a + b) + 1 by omega]
    simp only [iterE]
    exact ih _

theorem iterE_succ' (tab : ETab) (k : Nat) (ts : List Spec.ETok) :
    iterE tab (k + 1) ts = stepE tab (iterE tab k ts) := by
  rw [iterE_add tab k 1 ts]; rfl

/-! ## the size condition -/

/-- once no EQU name is left nothing grows any more -/
theorem sizeOK_of_keyfree {tab : ETab} {e : List Spec.ETok} (r : Nat)
    (hk : EKeyFree tab (iterE tab r e)) (hlen : ∀ j, j ≤ r → (iterE tab j e).length ≤ 20000) :
    SizeOK tab e := by
  intro j _
  by_cases hj : j ≤ r
  · exact hlen j hj
  · obtain ⟨i, rfl⟩ : ∃ i, j = r + i := ⟨j - r, by omega⟩
    rw [iterE_add, iterE_keyfree tab i _ hk]
    exact hlen r (Nat.le_refl r)

theorem stepE_length_le {tab : ETab} (hne : ∀ p ∈ tab, p.2 ≠ []) (ts : List Spec.ETok) :
    ts.length ≤ (stepE tab ts).length := by
  induction ts with
  | nil => simp [stepE]
  | cons t r ih =>
    rw [stepE_cons, List.length_append, List.length_cons]
    have : 1 ≤ (stepETok tab t).length := by
      cases hn : isName t with
      | false => rw [stepETok_other tab t hn]; simp
      | true =>
        cases t <;> simp [isName] at hn
        rename_i s
        rw [stepETok_name]
        unfold ETab.get?
        cases hf : tab.find? (·.1 == s) with
        | none => simp
        | some p =>
          have := hne p (List.mem_of_find?_eq_some hf)
          simp only [Option.map_some, Option.getD_some]
          cases h : p.2 with
          | nil => exact absurd h this
          | cons _ _ => simp
    omega

/-- with non-empty EQU bodies the expansion only grows: the final size bounds every round -/
theorem sizeOK_of_final {tab : ETab} (hne : ∀ p ∈ tab, p.2 ≠ []) {e : List Spec.ETok}
    (h : (iterE tab 63 e).length ≤ 20000) : SizeOK tab e := by
  have hmono : ∀ i j, (iterE tab j e).length ≤ (iterE tab (j + i) e).length := by
    intro i
    induction i with
    | zero => intro j; exact Nat.le_refl _
    | succ i ih =>
      intro j
      refine Nat.le_trans (ih j) ?_
      rw [show j + (i + 1) = (j + i) + 1 by omega, iterE_succ']
      exact stepE_length_le hne _
  intro j hj
  have := hmono (63 - j) j
  rw [show j + (63 - j) = 63 by omega] at this
  omega

/-! ## a table the reference accepts is ranked -/

/-- the test for "no EQU name left", as a `Bool` -/
def keyFreeB (tab : ETab) (ts : List Spec.ETok) : Bool :=
  ts.all fun t => match t with
    | .name n => (tab.get? n).isNone
    | _ => true

theorem keyFreeB_iff (tab : ETab) (ts : List Spec.ETok) : keyFreeB tab ts = true ↔ EKeyFree tab ts := by
  unfold keyFreeB
  rw [List.all_eq_true]
  constructor
  · intro h s hs
    have := h _ hs
    simpa using this
  · intro h t ht
    cases t with
    | name s => simp [h s ht]
    | _ => rfl

/-- the number of rounds `Spec.expandEqus` performs (capped by the fuel) -/
def rounds (tab : ETab) : Nat → List Spec.ETok → Nat
  | 0, _ => 0
  | f + 1, ts => if keyFreeB tab ts then 0 else rounds tab f (stepE tab ts) + 1

theorem expandEqus_zero_some {tab : ETab} {ts out : List Spec.ETok}
    (h : Spec.expandEqus 0 tab ts = some out) : EKeyFree tab ts := by
  unfold Spec.expandEqus at h
  split at h
  · cases h
  · rename_i hn
    intro s hs
    exact absurd (List.any_eq_true.2 ⟨_, hs, rfl⟩) hn

theorem expandEqus_rounds (tab : ETab) : ∀ (F : Nat) (ts out : List Spec.ETok),
    Spec.expandEqus F tab ts = some out → EKeyFree tab (iterE tab (rounds tab F ts) ts) := by
  intro F
  induction F with
  | zero =>
    intro ts out h
    exact expandEqus_zero_some h
  | succ f ih =>
    intro ts out h
    rw [expandEqus_succ] at h
    unfold rounds
    split at h
    · cases h
    · split at h
      · rename_i hall
        have hk := (all_iff_keyfree tab ts).1 hall
        rw [if_pos ((keyFreeB_iff tab ts).2 hk)]
        exact hk
      · rename_i hall
        have hk : ¬ EKeyFree tab ts := fun hk => hall ((all_iff_keyfree tab ts).2 hk)
        rw [if_neg (fun hb => hk ((keyFreeB_iff tab ts).1 hb))]
        exact ih _ out h

theorem rounds_le (tab : ETab) : ∀ (F k : Nat) (ts : List Spec.ETok),
    EKeyFree tab (iterE tab k ts) → rounds tab F ts ≤ k := by
  intro F
  induction F with
  | zero => intro k ts _; exact Nat.zero_le _
  | succ f ih =>
    intro k ts h
    unfold rounds
    split
    · exact Nat.zero_le _
    · rename_i hall
      cases k with
      | zero => exact absurd ((keyFreeB_iff tab ts).2 h) hall
      | succ k =>
        have := ih k (stepE tab ts) h
        omega

theorem EKeyFree.mid {tab : ETab} {a b c : List Spec.ETok} (h : EKeyFree tab (a ++ b ++ c)) :
    EKeyFree tab b :=
  fun s hs => h s (List.mem_append_left _ (List.mem_append_right _ hs))

/-- the rank the reference's own check certifies: the number of rounds the body of a name needs -/
def rankOf (tab : ETab) (s : String) : Nat := rounds tab 64 ((tab.get? s).getD [])

/-- if `Spec.expandEqus 64` succeeds on every body of the table (the reference's check in
    `Spec.meaningFlat`), the table is ranked — in particular it is not cyclic -/
theorem ranked_of_expandEqus {tab : ETab}
    (h : ∀ k v, tab.get? k = some v → (Spec.expandEqus 64 tab v).isSome = true) :
    ERanked tab (rankOf tab) := by
  intro k v hkv s hsv hsome
  cases hsw : tab.get? s with
  | none => rw [hsw] at hsome; cases hsome
  | some w =>
    have hdk : rankOf tab k = rounds tab 64 v := by unfold rankOf; rw [hkv]; rfl
    have hds : rankOf tab s = rounds tab 64 w := by unfold rankOf; rw [hsw]; rfl
    rw [hdk, hds]
    have hv := h k v hkv
    cases hev : Spec.expandEqus 64 tab v with
    | none => rw [hev] at hv; cases hv
    | some out =>
      have hkf := expandEqus_rounds tab 64 v out hev
      obtain ⟨a, c, rfl⟩ := List.append_of_mem hsv
      cases hm : rounds tab 64 (a ++ Spec.ETok.name s :: c) with
      | zero =>
        rw [hm] at hkf
        have := hkf s (by simp [iterE])
        rw [hsw] at this
        cases this
      | succ m =>
        rw [hm] at hkf
        simp only [iterE] at hkf
        have hstep : stepE tab (a ++ Spec.ETok.name s :: c) = stepE tab a ++ w ++ stepE tab c := by
          rw [stepE_append, stepE_cons, stepETok_name, hsw]
          simp
        rw [hstep, iterE_append, iterE_append] at hkf
        have := rounds_le tab 64 m w hkf.mid
        omega

/-- single-level EQUs (no EQU body mentions an EQU name or a predefined constant... of the table):
    rank 0 everywhere -/
theorem eranked_of_flat {tab : ETab} (h : ∀ k v, tab.get? k = some v → EKeyFree tab v) :
    ERanked tab (fun _ => 0) := by
  intro k v hkv s hsv hsome
  rw [h k v hkv s hsv] at hsome
  cases hsome

/-! ## ranks carry over between the two tables -/

theorem TRanked.eranked {V : SymTab} {tab : ETab} {d : String → Nat} (h : TabRel V tab)
    (hr : TRanked V d) : ERanked tab d := by
  intro k v hkv s hsv hsome
  refine hr k (toksOf v) (by rw [h k, hkv]; rfl) (tokOf (.name s)) (List.mem_map_of_mem hsv) rfl ?_
  show (V.get? s).isSome = true
  rw [h s]
  cases hs : tab.get? s with
  | none => rw [hs] at hsome; cases hsome
  | some _ => rfl

end Gmars.AsmLine
