/-
  Textual EQU substitution: the reference's `Spec.expandEqus` is iterated parallel substitution
  (`iterE`), the same on gmars tokens (`iterT`), stability of the iteration on ranked (acyclic)
  tables, and "substituting fully expanded values once = substituting raw values repeatedly".
-/
import Gmars.Proofs.EquDefs

namespace Gmars.AsmLine
open Gmars.Compile Gmars.ExprProofs

/-! ## reference side -/

theorem stepE_nil (tab : ETab) : stepE tab [] = [] := rfl

theorem stepE_cons (tab : ETab) (t : Spec.ETok) (r : List Spec.ETok) :
    stepE tab (t :: r) = stepETok tab t ++ stepE tab r := by
  simp [stepE]

theorem stepE_append (tab : ETab) (a b : List Spec.ETok) :
    stepE tab (a ++ b) = stepE tab a ++ stepE tab b := by
  simp [stepE]

theorem stepETok_name (tab : ETab) (s : String) :
    stepETok tab (.name s) = (tab.get? s).getD [.name s] := by
  unfold ETab.get?
  simp only [stepETok]
  cases tab.find? (·.1 == s) with
  | none => rfl
  | some p => rfl

theorem stepETok_other (tab : ETab) (t : Spec.ETok) (h : isName t = false) : stepETok tab t = [t] := by
  cases t <;> first | rfl | (simp [isName] at h)

/-- no name of the list is an EQU name -/
def EKeyFree (tab : ETab) (ts : List Spec.ETok) : Prop :=
  ∀ s, Spec.ETok.name s ∈ ts → tab.get? s = none

theorem stepE_keyfree (tab : ETab) (ts : List Spec.ETok) (h : EKeyFree tab ts) : stepE tab ts = ts := by
  induction ts with
  | nil => rfl
  | cons t r ih =>
    rw [stepE_cons, ih (fun s hs => h s (List.mem_cons_of_mem _ hs))]
    cases ht : isName t with
    | false => rw [stepETok_other tab t ht]; rfl
    | true =>
      cases t <;> simp [isName] at ht
      rename_i s
      rw [stepETok_name, h s (List.mem_cons_self ..)]
      rfl

theorem iterE_keyfree (tab : ETab) (k : Nat) (ts : List Spec.ETok) (h : EKeyFree tab ts) :
    iterE tab k ts = ts := by
  induction k with
  | zero => rfl
  | succ k ih => rw [iterE, stepE_keyfree tab ts h, ih]

/-- the test `Spec.expandEqus` ends its rounds with -/
theorem all_iff_keyfree (tab : ETab) (ts : List Spec.ETok) :
    (ts.all (fun | .name n => (tab.find? (·.1 == n)).isNone | _ => true)) = true ↔ EKeyFree tab ts := by
  rw [List.all_eq_true]
  constructor
  · intro h s hs
    have := h _ hs
    simp only [Option.isNone_iff_eq_none] at this
    unfold ETab.get?
    rw [this]; rfl
  · intro h t ht
    cases t with
    | name s =>
      have := h s ht
      unfold ETab.get? at this
      simp only [Option.isNone_iff_eq_none]
      cases hf : tab.find? (·.1 == s) with
      | none => rfl
      | some p => rw [hf] at this; cases this
    | _ => rfl

theorem expandEqus_succ (f : Nat) (tab : ETab) (ts : List Spec.ETok) :
    Spec.expandEqus (f + 1) tab ts =
      if ts.length > 20000 then none
      else if ts.all (fun | .name n => (tab.find? (·.1 == n)).isNone | _ => true) then some ts
      else Spec.expandEqus f tab (stepE tab ts) := rfl

/-- every EQU name of the list has rank below `r` -/
def EBound (tab : ETab) (d : String → Nat) (r : Nat) (ts : List Spec.ETok) : Prop :=
  ∀ s, Spec.ETok.name s ∈ ts → (tab.get? s).isSome = true → d s < r

theorem EBound.keyfree {tab : ETab} {d : String → Nat} {ts : List Spec.ETok} (h : EBound tab d 0 ts) :
    EKeyFree tab ts := by
  intro s hs
  cases hg : tab.get? s with
  | none => rfl
  | some v => exact absurd (h s hs (by rw [hg]; rfl)) (Nat.not_lt_zero _)

theorem mem_stepE {tab : ETab} {ts : List Spec.ETok} {x : Spec.ETok} (hx : x ∈ stepE tab ts) :
    (x ∈ ts ∧ (∀ s, x = .name s → tab.get? s = none)) ∨
      ∃ k v, Spec.ETok.name k ∈ ts ∧ tab.get? k = some v ∧ x ∈ v := by
  unfold stepE at hx
  obtain ⟨t, ht, hxt⟩ := List.mem_flatMap.1 hx
  cases hn : isName t with
  | false =>
    rw [stepETok_other tab t hn, List.mem_singleton] at hxt
    subst hxt
    left
    refine ⟨ht, ?_⟩
    intro s hs; subst hs; simp [isName] at hn
  | true =>
    cases t <;> simp [isName] at hn
    rename_i k
    rw [stepETok_name] at hxt
    cases hg : tab.get? k with
    | none =>
      rw [hg] at hxt
      simp only [Option.getD_none, List.mem_singleton] at hxt
      subst hxt
      left
      refine ⟨ht, ?_⟩
      intro s hs; cases hs; exact hg
    | some v =>
      rw [hg] at hxt
      exact Or.inr ⟨k, v, ht, hg, hxt⟩

theorem EBound.step {tab : ETab} {d : String → Nat} (hr : ERanked tab d) {r : Nat}
    {ts : List Spec.ETok} (h : EBound tab d (r + 1) ts) : EBound tab d r (stepE tab ts) := by
  intro s hs hsome
  rcases mem_stepE hs with ⟨_, hnone⟩ | ⟨k, v, hk, hkv, hsv⟩
  · rw [hnone s rfl] at hsome; cases hsome
  · have h1 := hr k v hkv s hsv hsome
    have h2 := h k hk (by rw [hkv]; rfl)
    omega

/-- **`Spec.expandEqus` on a ranked table**: with ranks below the fuel and all rounds within the
    size limit the answer is the `r`-fold parallel substitution, which no longer mentions an EQU
    name -/
theorem expandEqus_ranked {tab : ETab} {d : String → Nat} (hr : ERanked tab d) :
    ∀ (F r : Nat) (ts : List Spec.ETok), EBound tab d r ts → r < F →
      (∀ j, j ≤ r → (iterE tab j ts).length ≤ 20000) →
      Spec.expandEqus F tab ts = some (iterE tab r ts) ∧ EKeyFree tab (iterE tab r ts) := by
  intro F
  induction F with
  | zero => intro r ts _ h; omega
  | succ f ih =>
    intro r ts hb hlt hlen
    rw [expandEqus_succ, if_neg (by have := hlen 0 (Nat.zero_le _); simp only [iterE] at this; omega)]
    by_cases hk : EKeyFree tab ts
    · rw [if_pos ((all_iff_keyfree tab ts).2 hk), iterE_keyfree tab r ts hk]
      exact ⟨rfl, hk⟩
    · rw [if_neg (fun h => hk ((all_iff_keyfree tab ts).1 h))]
      cases r with
      | zero => exact absurd hb.keyfree hk
      | succ r =>
        have := ih r (stepE tab ts) (hb.step hr) (by omega)
          (fun j hj => by have := hlen (j + 1) (by omega); simpa only [iterE] using this)
        simpa only [iterE] using this

/-! ## model side -/

theorem stepT_nil (V : SymTab) : stepT V [] = [] := rfl

theorem stepT_cons (V : SymTab) (t : Token) (r : List Token) :
    stepT V (t :: r) = stepTTok V t ++ stepT V r := by
  simp [stepT]

theorem stepT_append (V : SymTab) (a b : List Token) : stepT V (a ++ b) = stepT V a ++ stepT V b := by
  simp [stepT]

theorem iterT_nil (V : SymTab) (k : Nat) : iterT V k [] = [] := by
  induction k with
  | zero => rfl
  | succ k ih => rw [iterT, stepT_nil, ih]

theorem iterT_append (V : SymTab) (k : Nat) : ∀ a b : List Token,
    iterT V k (a ++ b) = iterT V k a ++ iterT V k b := by
  induction k with
  | zero => intro a b; rfl
  | succ k ih => intro a b; rw [iterT, stepT_append, ih]; rfl

theorem iterT_cons (V : SymTab) (k : Nat) (t : Token) (r : List Token) :
    iterT V k (t :: r) = iterT V k [t] ++ iterT V k r := by
  rw [← iterT_append]; rfl

theorem stepTTok_notext (V : SymTab) (t : Token) (h : t.typ ≠ .text) : stepTTok V t = [t] := by
  unfold stepTTok
  rw [if_neg (by simpa using h)]

theorem stepTTok_text (V : SymTab) (t : Token) (h : t.typ = .text) :
    stepTTok V t = (V.get? t.val).getD [t] := by
  unfold stepTTok
  rw [if_pos (by simpa using h)]
  cases V.get? t.val <;> rfl

/-- no text token of the list is a key of `V` -/
def TKeyFree (V : SymTab) (ts : List Token) : Prop :=
  ∀ t ∈ ts, t.typ = .text → V.get? t.val = none

theorem stepT_keyfree (V : SymTab) (ts : List Token) (h : TKeyFree V ts) : stepT V ts = ts := by
  induction ts with
  | nil => rfl
  | cons t r ih =>
    rw [stepT_cons, ih (fun x hx => h x (List.mem_cons_of_mem _ hx))]
    by_cases ht : t.typ = .text
    · rw [stepTTok_text V t ht, h t (List.mem_cons_self ..) ht]; rfl
    · rw [stepTTok_notext V t ht]; rfl

theorem iterT_keyfree (V : SymTab) (k : Nat) (ts : List Token) (h : TKeyFree V ts) :
    iterT V k ts = ts := by
  induction k with
  | zero => rfl
  | succ k ih => rw [iterT, stepT_keyfree V ts h, ih]

/-- `d` strictly decreases from a key to the keys its value mentions -/
def TRanked (V : SymTab) (d : String → Nat) : Prop :=
  ∀ k v, V.get? k = some v → ∀ t ∈ v, t.typ = .text → (V.get? t.val).isSome = true → d t.val < d k

theorem Ranked.tranked {V : SymTab} {d : String → Nat} (h : Ranked V d) : TRanked V d :=
  fun k v hkv t ht htx _ => h k v hkv t ht htx

/-- every key among the text tokens of the list has rank below `r` -/
def TBound (V : SymTab) (d : String → Nat) (r : Nat) (ts : List Token) : Prop :=
  ∀ t ∈ ts, t.typ = .text → (V.get? t.val).isSome = true → d t.val < r

theorem TBound.keyfree {V : SymTab} {d : String → Nat} {ts : List Token} (h : TBound V d 0 ts) :
    TKeyFree V ts := by
  intro t ht htx
  cases hg : V.get? t.val with
  | none => rfl
  | some v => exact absurd (h t ht htx (by rw [hg]; rfl)) (Nat.not_lt_zero _)

theorem TBound.mono {V : SymTab} {d : String → Nat} {r r' : Nat} {ts : List Token}
    (h : TBound V d r ts) (hle : r ≤ r') : TBound V d r' ts :=
  fun t ht htx hs => Nat.lt_of_lt_of_le (h t ht htx hs) hle

theorem mem_stepT {V : SymTab} {ts : List Token} {x : Token} (hx : x ∈ stepT V ts) :
    (x ∈ ts ∧ (x.typ = .text → V.get? x.val = none)) ∨
      ∃ t v, t ∈ ts ∧ t.typ = .text ∧ V.get? t.val = some v ∧ x ∈ v := by
  unfold stepT at hx
  obtain ⟨t, ht, hxt⟩ := List.mem_flatMap.1 hx
  by_cases htx : t.typ = .text
  · rw [stepTTok_text V t htx] at hxt
    cases hg : V.get? t.val with
    | none =>
      rw [hg] at hxt
      simp only [Option.getD_none, List.mem_singleton] at hxt
      subst hxt
      exact Or.inl ⟨ht, fun _ => hg⟩
    | some v =>
      rw [hg] at hxt
      exact Or.inr ⟨t, v, ht, htx, hg, hxt⟩
  · rw [stepTTok_notext V t htx, List.mem_singleton] at hxt
    subst hxt
    exact Or.inl ⟨ht, fun h => absurd h htx⟩

theorem TBound.step {V : SymTab} {d : String → Nat} (hr : TRanked V d) {r : Nat} {ts : List Token}
    (h : TBound V d (r + 1) ts) : TBound V d r (stepT V ts) := by
  intro x hx hxt hsome
  rcases mem_stepT hx with ⟨_, hnone⟩ | ⟨t, v, ht, htx, htv, hxv⟩
  · rw [hnone hxt] at hsome; cases hsome
  · have h1 := hr t.val v htv x hxv hxt hsome
    have h2 := h t ht htx (by rw [htv]; rfl)
    omega

/-- after `r` rounds no key is left … -/
theorem iterT_keyfree_of_bound {V : SymTab} {d : String → Nat} (hr : TRanked V d) :
    ∀ (r : Nat) (ts : List Token), TBound V d r ts → TKeyFree V (iterT V r ts) := by
  intro r
  induction r with
  | zero => intro ts h; exact h.keyfree
  | succ r ih => intro ts h; exact ih _ (h.step hr)

/-- … and further rounds change nothing -/
theorem iterT_stable {V : SymTab} {d : String → Nat} (hr : TRanked V d) :
    ∀ (r : Nat) (ts : List Token), TBound V d r ts → ∀ k, r ≤ k → iterT V k ts = iterT V r ts := by
  intro r
  induction r with
  | zero =>
    intro ts h k _
    rw [iterT_keyfree V k ts h.keyfree]; rfl
  | succ r ih =>
    intro ts h k hk
    obtain ⟨k', rfl⟩ : ∃ k', k = k' + 1 := ⟨k - 1, by omega⟩
    simp only [iterT]
    exact ih _ (h.step hr) k' (by omega)

/-- two ranks, one answer -/
theorem iterT_eq_of_bounds {V : SymTab} {d1 d2 : String → Nat} (h1 : TRanked V d1) (h2 : TRanked V d2)
    {r1 r2 : Nat} {ts : List Token} (b1 : TBound V d1 r1 ts) (b2 : TBound V d2 r2 ts) :
    iterT V r1 ts = iterT V r2 ts := by
  rw [← iterT_stable h1 r1 ts b1 (max r1 r2) (Nat.le_max_left ..),
    ← iterT_stable h2 r2 ts b2 (max r1 r2) (Nat.le_max_right ..)]

theorem iterT_flatMap (V : SymTab) (k : Nat) (f : Token → List Token) (ts : List Token) :
    iterT V k (ts.flatMap f) = ts.flatMap (fun t => iterT V k (f t)) := by
  induction ts with
  | nil => simp [iterT_nil]
  | cons t r ih => simp only [List.flatMap_cons, iterT_append, ih]

/-- substituting values that are `k` rounds expanded = `k + 1` rounds with the raw values -/
theorem stepT_deep (V V' : SymTab) (k : Nat)
    (h : ∀ s, V'.get? s = (V.get? s).map (iterT V k)) (ts : List Token) :
    stepT V' ts = iterT V (k + 1) ts := by
  simp only [iterT]
  unfold stepT
  rw [iterT_flatMap]
  have hcongr : ∀ (l : List Token) (f g : Token → List Token), (∀ t, f t = g t) →
      l.flatMap f = l.flatMap g := by
    intro l f g hfg
    have : f = g := funext hfg
    rw [this]
  apply hcongr
  intro t
  by_cases htx : t.typ = .text
  · rw [stepTTok_text V' t htx, stepTTok_text V t htx, h]
    cases hg : V.get? t.val with
    | some v => rfl
    | none =>
      simp only [Option.map_none, Option.getD_none]
      rw [iterT_keyfree]
      intro x hx _
      simp only [List.mem_singleton] at hx
      subst hx
      exact hg
  · rw [stepTTok_notext V' t htx, stepTTok_notext V t htx, iterT_keyfree]
    intro x hx hxt
    simp only [List.mem_singleton] at hx
    subst hx
    exact absurd hxt htx

/-! ## transport -/

theorem tokOf_typ_text (t : Spec.ETok) : (tokOf t).typ = .text ↔ ∃ s, t = .name s := by
  cases t <;> simp [tokOf, textTok, ExprProofs.numTok, opTok, lpTok, rpTok]

theorem tokOf_name (s : String) : tokOf (.name s) = textTok s := rfl

theorem cst_tokens_eq (c : CST) : c.tokens = toksOf c.etoks := by
  unfold toksOf
  induction c with
  | num n => rfl
  | signs ss e ih =>
    simp only [CST.tokens, CST.etoks, List.map_append, List.map_map, ih]
    rfl
  | paren e ih => simp only [CST.tokens, CST.etoks, List.map_cons, List.map_append, ih]; rfl
  | bin op l r ihl ihr =>
    simp only [CST.tokens, CST.etoks, List.map_cons, List.map_append, ihl, ihr]; rfl

/-- the model's table is the reference's, rendered -/
def TabRel (V : SymTab) (tab : ETab) : Prop := ∀ s, V.get? s = (tab.get? s).map toksOf

theorem stepT_toksOf {V : SymTab} {tab : ETab} (h : TabRel V tab) (ts : List Spec.ETok) :
    stepT V (toksOf ts) = toksOf (stepE tab ts) := by
  induction ts with
  | nil => rfl
  | cons t r ih =>
    show stepT V (tokOf t :: toksOf r) = _
    rw [stepT_cons, ih, stepE_cons]
    unfold toksOf
    rw [List.map_append]
    congr 1
    cases hn : isName t with
    | false =>
      rw [stepETok_other tab t hn, stepTTok_notext]
      · rfl
      · intro htx
        obtain ⟨s, rfl⟩ := (tokOf_typ_text t).1 htx
        simp [isName] at hn
    | true =>
      cases t <;> simp [isName] at hn
      rename_i s
      rw [stepETok_name, tokOf_name, stepTTok_text _ _ rfl]
      show (V.get? s).getD _ = _
      rw [h s]
      cases tab.get? s <;> rfl

theorem iterT_toksOf {V : SymTab} {tab : ETab} (h : TabRel V tab) (k : Nat) :
    ∀ ts : List Spec.ETok, iterT V k (toksOf ts) = toksOf (iterE tab k ts) := by
  induction k with
  | zero => intro ts; rfl
  | succ k ih => intro ts; rw [iterT, stepT_toksOf h, ih]; rfl

theorem substT_toksOf (σ : String → Option Int) (ts : List Spec.ETok) :
    substT σ (toksOf ts) = (substE σ ts).map toksOf := by
  induction ts with
  | nil => rfl
  | cons t r ih =>
    show substT σ (tokOf t :: toksOf r) = _
    cases hn : isName t with
    | false =>
      rw [substE_cons_other σ t r hn, substT_cons_notext, ih]
      · cases substE σ r <;> rfl
      · intro htx
        obtain ⟨s, rfl⟩ := (tokOf_typ_text t).1 htx
        simp [isName] at hn
    | true =>
      cases t <;> simp [isName] at hn
      rename_i s
      simp only [substT, substE, tokOf_name, textTok, beq_self_eq_true, if_true, ih]
      cases σ s with
      | none => rfl
      | some v =>
        simp only [Option.bind_some]
        cases substE σ r with
        | none => rfl
        | some rest =>
          simp only [Option.map_some, cst_tokens_eq, toksOf, List.map_append]

theorem ERanked.tranked {V : SymTab} {tab : ETab} {d : String → Nat} (h : TabRel V tab)
    (hr : ERanked tab d) : TRanked V d := by
  intro k v hkv t ht htx hsome
  rw [h k] at hkv
  cases hg : tab.get? k with
  | none => rw [hg] at hkv; cases hkv
  | some e =>
    rw [hg] at hkv
    simp only [Option.map_some, Option.some.injEq] at hkv
    subst hkv
    obtain ⟨x, hx, rfl⟩ := List.mem_map.1 ht
    obtain ⟨s, rfl⟩ := (tokOf_typ_text x).1 htx
    refine hr k e hg s hx ?_
    change (V.get? s).isSome = true at hsome
    rw [h s] at hsome
    cases hs : tab.get? s with
    | none => rw [hs] at hsome; cases hsome
    | some _ => rfl

theorem EBound.tbound {V : SymTab} {tab : ETab} {d : String → Nat} (h : TabRel V tab) {r : Nat}
    {ts : List Spec.ETok} (hb : EBound tab d r ts) : TBound V d r (toksOf ts) := by
  intro t ht htx hsome
  obtain ⟨x, hx, rfl⟩ := List.mem_map.1 ht
  obtain ⟨s, rfl⟩ := (tokOf_typ_text x).1 htx
  refine hb s hx ?_
  change (V.get? s).isSome = true at hsome
  rw [h s] at hsome
  cases hs : tab.get? s with
  | none => rw [hs] at hsome; cases hsome
  | some _ => rfl

end Gmars.AsmLine
