/-
  The reports `exec` appends to the log: `exec` only appends, and never a
  `taskPop` report.  Proved by showing that `exec` commutes with every log
  transformer that commutes with appending non-`taskPop` reports.
-/
import Gmars.Proofs.Abs

namespace Gmars

/-- apply `g` to the log -/
def Sim.mapLog (g : Array Report → Array Report) (s : Sim) : Sim := { s with log := g s.log }

/-- `g` commutes with appending a report that is not a `taskPop` -/
def LogHom (g : Array Report → Array Report) : Prop :=
  ∀ (l : Array Report) (r : Report), r.typ ≠ .taskPop → g (l.push r) = (g l).push r

section
variable {g : Array Report → Array Report} (hg : LogHom g) (wi : Nat)

local notation "ML" => Sim.mapLog g

@[simp] theorem Sim.mapLog_m (s : Sim) : (ML s).m = s.m := rfl
@[simp] theorem Sim.mapLog_readLimit (s : Sim) : (ML s).readLimit = s.readLimit := rfl
@[simp] theorem Sim.mapLog_writeLimit (s : Sim) : (ML s).writeLimit = s.writeLimit := rfl
@[simp] theorem Sim.mapLog_readFold (s : Sim) (p : UInt64) : (ML s).readFold p = s.readFold p := rfl
@[simp] theorem Sim.mapLog_writeFold (s : Sim) (p : UInt64) : (ML s).writeFold p = s.writeFold p := rfl
@[simp] theorem Sim.mapLog_rd (s : Sim) (i : UInt64) : (ML s).rd i = s.rd i := rfl
@[simp] theorem Sim.mapLog_addF (s : Sim) : (ML s).addF = s.addF := rfl
@[simp] theorem Sim.mapLog_subF (s : Sim) : (ML s).subF = s.subF := rfl
@[simp] theorem Sim.mapLog_mulF (s : Sim) : (ML s).mulF = s.mulF := rfl

include hg in
theorem Sim.mapLog_report (s : Sim) (t : RType) (a : UInt64) (ht : t ≠ .taskPop) :
    (ML s).report (rep t wi a) = ML (s.report (rep t wi a)) := by
  unfold Sim.report Sim.mapLog
  simp only
  rw [hg s.log (rep t wi a) ht]

@[simp] theorem Sim.mapLog_upd (s : Sim) (i : UInt64) (f : Instr → Instr) :
    (ML s).upd i f = ML <$> s.upd i f := by
  unfold Sim.upd
  by_cases h : i.toNat < s.mem.size
  · rw [dif_pos (by exact h), dif_pos h]; rfl
  · rw [dif_neg (by exact h), dif_neg h]; rfl

@[simp] theorem Sim.mapLog_push (s : Sim) (a : UInt64) :
    (ML s).push wi a = ML <$> s.push wi a := by
  unfold Sim.push
  by_cases h : wi < s.warriors.size
  · rw [dif_pos (by exact h), dif_pos h]
    dsimp only [Sim.mapLog]
    cases hq : s.warriors[wi].pq with
    | none => rfl
    | some q =>
      simp only
      cases hp : q.push a with
      | error e => rfl
      | ok q' => rfl
  · rw [dif_neg (by exact h), dif_neg h]; rfl

include hg

theorem Sim.mapLog_terminate (s : Sim) (pc : UInt64) :
    (ML s).terminate wi pc = ML (s.terminate wi pc) :=
  Sim.mapLog_report hg wi s _ _ (by decide)

theorem Sim.mapLog_reads (s : Sim) (pc rpa rpb : UInt64) :
    (ML s).reads pc rpa rpb wi = ML (s.reads pc rpa rpb wi) := by
  unfold Sim.reads
  rw [Sim.mapLog_report hg wi s _ _ (by decide), Sim.mapLog_m,
    Sim.mapLog_report hg wi _ _ _ (by decide)]

theorem Sim.mapLog_pushNext (s : Sim) (a : UInt64) :
    (ML s).pushNext wi a = ML <$> s.pushNext wi a := by
  unfold Sim.pushNext
  rw [Sim.mapLog_report hg wi s _ _ (by decide), Sim.mapLog_push]

theorem Sim.mapLog_aOperand (s : Sim) (pc : UInt64) (ir : Instr) :
    (ML s).aOperand pc ir wi = (fun p => (ML p.1, p.2)) <$> s.aOperand pc ir wi := by
  unfold Sim.aOperand
  generalize ir.am = am
  cases am <;> first | rfl | simp [Mode.isA, Mode.isB, Sim.mapLog_report hg]

theorem Sim.mapLog_aPost (s : Sim) (ir : Instr) (pip : UInt64) :
    (ML s).aPost ir pip wi = ML <$> s.aPost ir pip wi := by
  unfold Sim.aPost
  generalize ir.am = am
  cases am <;> simp [Sim.mapLog_report hg]

theorem Sim.mapLog_bOperand (s : Sim) (pc : UInt64) (ir : Instr) (pip0 : UInt64) :
    (ML s).bOperand pc ir wi pip0 = (fun p => (ML p.1, p.2)) <$> s.bOperand pc ir wi pip0 := by
  unfold Sim.bOperand
  generalize ir.bm = bm
  cases bm <;> first | rfl | simp [Mode.isA, Mode.isB, Sim.mapLog_report hg]

theorem Sim.mapLog_bPost (s : Sim) (ir : Instr) (pip : UInt64) :
    (ML s).bPost ir pip wi = ML <$> s.bPost ir pip wi := by
  unfold Sim.bPost
  generalize ir.bm = bm
  cases bm <;> simp [Sim.mapLog_report hg]

theorem Sim.mapLog_mov (s : Sim) (ir ira : Instr) (wab pc : UInt64) :
    (ML s).mov ir ira wab pc wi = ML <$> s.mov ir ira wab pc wi := by
  unfold Sim.mov
  generalize ir.md = md
  cases md <;> simp [Sim.mapLog_pushNext hg]

theorem Sim.mapLog_arith (s : Sim) (f : UInt64 → UInt64 → UInt64) (ir ira irb : Instr)
    (wab pc : UInt64) :
    (ML s).arith f ir ira irb wab pc wi = ML <$> s.arith f ir ira irb wab pc wi := by
  unfold Sim.arith
  generalize ir.md = md
  cases md <;> simp [Sim.mapLog_pushNext hg]

theorem Sim.mapLog_divmod (s : Sim) (f : UInt64 → UInt64 → UInt64) (ir ira irb : Instr)
    (wab pc : UInt64) :
    (ML s).divmod f ir ira irb wab pc wi = ML <$> s.divmod f ir ira irb wab pc wi := by
  unfold Sim.divmod
  generalize ir.md = md
  by_cases h1 : ira.a = 0 <;> by_cases h2 : ira.b = 0 <;>
    cases md <;> simp [h1, h2, Sim.mapLog_pushNext hg, Sim.mapLog_terminate hg]

omit hg in
theorem Sim.mapLog_jmz (s : Sim) (ir irb : Instr) (rab pc : UInt64) :
    (ML s).jmz ir irb rab pc wi = ML <$> s.jmz ir irb rab pc wi := by
  unfold Sim.jmz
  generalize ir.md = md
  cases md <;> dsimp only <;> split <;> simp

theorem Sim.mapLog_jmn (s : Sim) (ir irb : Instr) (rab pc : UInt64) :
    (ML s).jmn ir irb rab pc wi = ML <$> s.jmn ir irb rab pc wi := by
  unfold Sim.jmn
  simp [Sim.mapLog_pushNext hg]

theorem Sim.mapLog_djn (s : Sim) (ir irb : Instr) (rab wab pc : UInt64) :
    (ML s).djn ir irb rab wab pc wi = ML <$> s.djn ir irb rab wab pc wi := by
  unfold Sim.djn
  generalize ir.md = md
  cases md <;> simp [Sim.mapLog_pushNext hg]

theorem Sim.mapLog_skipIf (s : Sim) (c : Bool) (pc : UInt64) :
    (ML s).skipIf c pc wi = ML <$> s.skipIf c pc wi := by
  unfold Sim.skipIf
  simp [Sim.mapLog_pushNext hg]

/-- `exec` commutes with every transformation of the log that commutes with appending
    reports other than `taskPop` -/
theorem Sim.mapLog_exec (s : Sim) (pc : UInt64) :
    (ML s).exec pc wi = ML <$> s.exec pc wi := by
  unfold Sim.exec
  simp only [Sim.mapLog_m, Sim.mapLog_readLimit, Sim.mapLog_writeLimit, Sim.mapLog_rd]
  by_cases hc : (s.m == 0 || s.readLimit == 0 || s.writeLimit == 0) = true
  · simp only [hc, if_true]; rfl
  · simp only [hc, if_false, Bool.false_eq_true]
    simp only [Sim.mapLog_aOperand hg, Sim.mapLog_aPost hg, Sim.mapLog_bOperand hg,
      Sim.mapLog_bPost hg, Sim.mapLog_m, Sim.mapLog_rd, map_bind, bind_map_left]
    refine bind_congr fun ir => bind_congr fun a1 => bind_congr fun ira => bind_congr fun s2 =>
      bind_congr fun a4 => bind_congr fun irb => bind_congr fun s6 => ?_
    generalize ir.op = op
    cases op <;>
      simp [Sim.mapLog_mov hg, Sim.mapLog_arith hg, Sim.mapLog_divmod hg, Sim.mapLog_jmz,
        Sim.mapLog_jmn hg, Sim.mapLog_djn hg, Sim.mapLog_skipIf hg, Sim.mapLog_terminate hg,
        Sim.mapLog_reads hg, Sim.mapLog_report hg]

end

/-- `exec` only appends to the log, and what it appends contains no `taskPop` report -/
theorem exec_log (s s' : Sim) (pc : UInt64) (wi : Nat) (h : s.exec pc wi = .ok s') :
    ∃ new : List Report, s'.log.toList = s.log.toList ++ new ∧ ∀ r ∈ new, r.typ ≠ .taskPop := by
  have hg1 : LogHom (fun l => s.log ++ l) := fun l r _ => by simp
  have hg2 : LogHom (fun l => l.filter (fun r => r.typ != .taskPop)) := fun l r hr => by
    have : (r.typ != RType.taskPop) = true := by simpa using hr
    simp [this]
  have hs : s = Sim.mapLog (fun l => s.log ++ l) { s with log := #[] } := by
    simp [Sim.mapLog]
  have h0 : Sim.mapLog (fun l => l.filter (fun r => r.typ != .taskPop)) { s with log := #[] }
      = { s with log := #[] } := by
    simp [Sim.mapLog]
  have h1 := Sim.mapLog_exec hg1 wi { s with log := #[] } pc
  have h2 := Sim.mapLog_exec hg2 wi { s with log := #[] } pc
  rw [← hs, h] at h1
  rw [h0] at h2
  cases ht : ({ s with log := #[] } : Sim).exec pc wi with
  | error e => rw [ht] at h1; cases h1
  | ok t =>
    rw [ht] at h1 h2
    have e1 : s' = Sim.mapLog (fun l => s.log ++ l) t := by
      have := h1; simp only [Functor.map, Except.map] at this; exact Except.ok.inj this
    have e2 : t = Sim.mapLog (fun l => l.filter (fun r => r.typ != .taskPop)) t := by
      have := h2; simp only [Functor.map, Except.map] at this; exact Except.ok.inj this
    refine ⟨t.log.toList, ?_, ?_⟩
    · rw [e1]; simp [Sim.mapLog]
    · intro r hr
      have hl : t.log = t.log.filter (fun r => r.typ != .taskPop) := by
        have := congrArg Sim.log e2; simpa [Sim.mapLog] using this
      have hr' : r ∈ t.log := by simpa using hr
      rw [hl, Array.mem_filter] at hr'
      simpa using hr'.2

end Gmars
