/-
  `exec` neither reads nor writes the `state` of a warrior or the `living` counter:
  it commutes with relabelling them.  (Used by the scheduler proof: `RunCycle` calls
  `exec` in a state in which the running warrior is `alive` although its queue may
  be momentarily empty, which is outside `Sim.WF`.)
-/
import Gmars.Proofs.Abs

namespace Gmars

/-- set the `state` of warrior `wi` and shift the `living` counter -/
def Sim.relabel (wi : Nat) (st : WState) (d : Int) (s : Sim) : Sim :=
  { s with warriors := s.warriors.modify wi (fun w => { w with state := st }),
           living := s.living + d }

section
variable (wi : Nat) (st : WState) (d : Int)

local notation "RL" => Sim.relabel wi st d

@[simp] theorem Sim.relabel_m (s : Sim) : (RL s).m = s.m := rfl
@[simp] theorem Sim.relabel_readLimit (s : Sim) : (RL s).readLimit = s.readLimit := rfl
@[simp] theorem Sim.relabel_writeLimit (s : Sim) : (RL s).writeLimit = s.writeLimit := rfl
@[simp] theorem Sim.relabel_mem (s : Sim) : (RL s).mem = s.mem := rfl
@[simp] theorem Sim.relabel_readFold (s : Sim) (p : UInt64) : (RL s).readFold p = s.readFold p := rfl
@[simp] theorem Sim.relabel_writeFold (s : Sim) (p : UInt64) : (RL s).writeFold p = s.writeFold p := rfl
@[simp] theorem Sim.relabel_rd (s : Sim) (i : UInt64) : (RL s).rd i = s.rd i := rfl
@[simp] theorem Sim.relabel_report (s : Sim) (r : Report) : (RL s).report r = RL (s.report r) := rfl
@[simp] theorem Sim.relabel_addF (s : Sim) : (RL s).addF = s.addF := rfl
@[simp] theorem Sim.relabel_subF (s : Sim) : (RL s).subF = s.subF := rfl
@[simp] theorem Sim.relabel_mulF (s : Sim) : (RL s).mulF = s.mulF := rfl

@[simp] theorem Sim.relabel_upd (s : Sim) (i : UInt64) (f : Instr → Instr) :
    (RL s).upd i f = RL <$> s.upd i f := by
  unfold Sim.upd
  by_cases h : i.toNat < s.mem.size
  · rw [dif_pos (by exact h), dif_pos h]; rfl
  · rw [dif_neg (by exact h), dif_neg h]; rfl

@[simp] theorem Sim.relabel_push (s : Sim) (a : UInt64) :
    (RL s).push wi a = RL <$> s.push wi a := by
  unfold Sim.push
  by_cases h : wi < s.warriors.size
  · have h' : wi < (RL s).warriors.size := by simpa [Sim.relabel] using h
    rw [dif_pos h', dif_pos h]
    have hw : (RL s).warriors[wi] = { s.warriors[wi] with state := st } := by
      simp [Sim.relabel, Array.getElem_modify]
    simp only [hw]
    cases hq : s.warriors[wi].pq with
    | none => rfl
    | some q =>
      simp only
      cases hp : q.push a with
      | error e => rfl
      | ok q' =>
        simp only [bind, Except.bind, Functor.map, Except.map]
        congr 1
        simp only [Sim.relabel]
        congr 1
        apply Array.ext
        · simp
        · intro j h1 h2
          simp [Array.getElem_modify, Array.getElem_set]
          split <;> simp_all
  · have h' : ¬ wi < (RL s).warriors.size := by simpa [Sim.relabel] using h
    rw [dif_neg h', dif_neg h]; rfl

@[simp] theorem Sim.relabel_terminate (s : Sim) (pc : UInt64) :
    (RL s).terminate wi pc = RL (s.terminate wi pc) := rfl
@[simp] theorem Sim.relabel_reads (s : Sim) (pc rpa rpb : UInt64) :
    (RL s).reads pc rpa rpb wi = RL (s.reads pc rpa rpb wi) := rfl

private theorem map_ok {α β : Type} (f : α → β) (a : α) :
    f <$> (Except.ok a : Except Panic α) = Except.ok (f a) := rfl

@[simp] theorem Sim.relabel_pushNext (s : Sim) (a : UInt64) :
    (RL s).pushNext wi a = RL <$> s.pushNext wi a := by
  unfold Sim.pushNext
  simp

theorem Sim.relabel_aOperand (s : Sim) (pc : UInt64) (ir : Instr) :
    (RL s).aOperand pc ir wi = (fun p => (RL p.1, p.2)) <$> s.aOperand pc ir wi := by
  unfold Sim.aOperand
  generalize ir.am = am
  cases am <;> first | rfl | simp [Mode.isA, Mode.isB]

theorem Sim.relabel_aPost (s : Sim) (ir : Instr) (pip : UInt64) :
    (RL s).aPost ir pip wi = RL <$> s.aPost ir pip wi := by
  unfold Sim.aPost
  generalize ir.am = am
  cases am <;> simp

theorem Sim.relabel_bOperand (s : Sim) (pc : UInt64) (ir : Instr) (pip0 : UInt64) :
    (RL s).bOperand pc ir wi pip0 = (fun p => (RL p.1, p.2)) <$> s.bOperand pc ir wi pip0 := by
  unfold Sim.bOperand
  generalize ir.bm = bm
  cases bm <;> first | rfl | simp [Mode.isA, Mode.isB]

theorem Sim.relabel_bPost (s : Sim) (ir : Instr) (pip : UInt64) :
    (RL s).bPost ir pip wi = RL <$> s.bPost ir pip wi := by
  unfold Sim.bPost
  generalize ir.bm = bm
  cases bm <;> simp

theorem Sim.relabel_mov (s : Sim) (ir ira : Instr) (wab pc : UInt64) :
    (RL s).mov ir ira wab pc wi = RL <$> s.mov ir ira wab pc wi := by
  unfold Sim.mov
  generalize ir.md = md
  cases md <;> simp

theorem Sim.relabel_arith (s : Sim) (g : UInt64 → UInt64 → UInt64) (ir ira irb : Instr)
    (wab pc : UInt64) :
    (RL s).arith g ir ira irb wab pc wi = RL <$> s.arith g ir ira irb wab pc wi := by
  unfold Sim.arith
  generalize ir.md = md
  cases md <;> simp

theorem Sim.relabel_divmod (s : Sim) (g : UInt64 → UInt64 → UInt64) (ir ira irb : Instr)
    (wab pc : UInt64) :
    (RL s).divmod g ir ira irb wab pc wi = RL <$> s.divmod g ir ira irb wab pc wi := by
  unfold Sim.divmod
  generalize ir.md = md
  by_cases h1 : ira.a = 0 <;> by_cases h2 : ira.b = 0 <;>
    cases md <;> simp [h1, h2]

theorem Sim.relabel_jmz (s : Sim) (ir irb : Instr) (rab pc : UInt64) :
    (RL s).jmz ir irb rab pc wi = RL <$> s.jmz ir irb rab pc wi := by
  unfold Sim.jmz
  generalize ir.md = md
  cases md <;> dsimp only <;> split <;> simp

theorem Sim.relabel_jmn (s : Sim) (ir irb : Instr) (rab pc : UInt64) :
    (RL s).jmn ir irb rab pc wi = RL <$> s.jmn ir irb rab pc wi := by
  unfold Sim.jmn
  simp

theorem Sim.relabel_djn (s : Sim) (ir irb : Instr) (rab wab pc : UInt64) :
    (RL s).djn ir irb rab wab pc wi = RL <$> s.djn ir irb rab wab pc wi := by
  unfold Sim.djn
  generalize ir.md = md
  cases md <;> simp

theorem Sim.relabel_skipIf (s : Sim) (c : Bool) (pc : UInt64) :
    (RL s).skipIf c pc wi = RL <$> s.skipIf c pc wi := by
  unfold Sim.skipIf
  simp

/-- `exec` commutes with relabelling the running warrior's state and the living counter -/
theorem Sim.relabel_exec (s : Sim) (pc : UInt64) :
    (RL s).exec pc wi = RL <$> s.exec pc wi := by
  unfold Sim.exec
  simp only [Sim.relabel_m, Sim.relabel_readLimit, Sim.relabel_writeLimit, Sim.relabel_rd]
  by_cases hg : (s.m == 0 || s.readLimit == 0 || s.writeLimit == 0) = true
  · simp only [hg, if_true]; rfl
  · simp only [hg, if_false, Bool.false_eq_true]
    simp only [Sim.relabel_aOperand, Sim.relabel_aPost, Sim.relabel_bOperand, Sim.relabel_bPost,
      Sim.relabel_m, Sim.relabel_rd, map_bind, bind_map_left]
    refine bind_congr fun ir => bind_congr fun a1 => bind_congr fun ira => bind_congr fun s2 =>
      bind_congr fun a4 => bind_congr fun irb => bind_congr fun s6 => ?_
    generalize ir.op = op
    cases op <;>
      simp [Sim.relabel_mov, Sim.relabel_arith, Sim.relabel_divmod, Sim.relabel_jmz,
        Sim.relabel_jmn, Sim.relabel_djn, Sim.relabel_skipIf]

end

end Gmars
