/-
  C07 "operand expressions evaluate as integer arithmetic": concrete syntax trees,
  their two token renderings (gmars tokens and reference tokens), precedence
  well-formedness and the exact integer denotation.
-/
import Gmars.Model.Expr
import Gmars.Spec.Program

namespace Gmars.ExprProofs

/-- concrete syntax trees; in `signs ss e` a `true` in `ss` is a minus sign, `false` a plus sign -/
inductive CST
  | num (n : Nat)
  | signs (ss : List Bool) (e : CST)
  | paren (e : CST)
  | bin (op : String) (l r : CST)
  deriving Repr, Inhabited

def signStr (s : Bool) : String := if s then "-" else "+"

def signTok (s : Bool) : Token := { typ := .symbol, val := signStr s }
def numTok (n : Nat) : Token := { typ := .number, val := toString n }
def lpTok : Token := { typ := .parenL, val := "(" }
def rpTok : Token := { typ := .parenR, val := ")" }
def opTok (o : String) : Token := { typ := .symbol, val := o }

/-- the gmars token list of a tree -/
def CST.tokens : CST → List Token
  | .num n => [numTok n]
  | .signs ss e => ss.map signTok ++ e.tokens
  | .paren e => lpTok :: (e.tokens ++ [rpTok])
  | .bin op l r => l.tokens ++ opTok op :: r.tokens

/-- the same token list for the reference evaluator -/
def CST.etoks : CST → List Spec.ETok
  | .num n => [.num n]
  | .signs ss e => ss.map (fun s => Spec.ETok.op (signStr s)) ++ e.etoks
  | .paren e => .lp :: (e.etoks ++ [.rp])
  | .bin op l r => l.etoks ++ .op op :: r.etoks

/-- the five arithmetic operators -/
def isArith (op : String) : Prop := op = "+" ∨ op = "-" ∨ op = "*" ∨ op = "/" ∨ op = "%"

instance (op : String) : Decidable (isArith op) := by unfold isArith; infer_instance

/-- precedence of the root of a tree: binary nodes have the precedence of their operator,
    everything else binds tighter than any operator -/
def CST.prec : CST → Nat
  | .bin op _ _ => Spec.Expr.prec op
  | _ => 6

def CST.isAtom : CST → Bool
  | .num _ | .paren _ => true
  | _ => false

/-- the tree is the one precedence climbing with left associativity produces from its own token
    list: the left operand of a binary node binds at least as tight as the operator, the right
    operand strictly tighter; sign runs are maximal (their operand is a number or a parenthesis);
    only `+ - * / %` occur -/
def WFprec : CST → Prop
  | .num _ => True
  | .signs _ e => e.isAtom = true ∧ WFprec e
  | .paren e => WFprec e
  | .bin op l r => isArith op ∧ WFprec l ∧ WFprec r ∧ Spec.Expr.prec op ≤ l.prec ∧ Spec.Expr.prec op < r.prec

def applySigns (ss : List Bool) (v : Int) : Int := ss.foldr (fun s v => if s then -v else v) v

/-- exact integer meaning of a binary operator; `none` on a zero divisor (or a foreign operator) -/
def binVal (op : String) (a b : Int) : Option Int :=
  match op with
  | "+" => some (a + b)
  | "-" => some (a - b)
  | "*" => some (a * b)
  | "/" => if b = 0 then none else some (Int.tdiv a b)
  | "%" => if b = 0 then none else some (Int.tmod a b)
  | _ => none

/-- denotation: exact integers, truncating division and remainder, `none` on a zero divisor -/
def denote : CST → Option Int
  | .num n => some (n : Int)
  | .signs ss e => (denote e).map (applySigns ss)
  | .paren e => denote e
  | .bin op l r =>
    match denote l, denote r with
    | some a, some b => binVal op a b
    | _, _ => none

/-- number of binary nodes on the left spine -/
def CST.spine : CST → Nat
  | .bin _ l _ => l.spine + 1
  | _ => 0

/-- recursion depth (fuel) the precedence climbing parsers need below the root call -/
def CST.need : CST → Nat
  | .num _ => 1
  | .signs ss e => ss.length + e.need
  | .paren e => e.need + e.spine + 2
  | .bin _ l r => l.need + r.need + r.spine + 2

def CST.ntoks : CST → Nat
  | .num _ => 1
  | .signs ss e => ss.length + e.ntoks
  | .paren e => e.ntoks + 2
  | .bin _ l r => l.ntoks + r.ntoks + 1

theorem CST.tokens_length (c : CST) : c.tokens.length = c.ntoks := by
  induction c with
  | num n => rfl
  | signs ss e ih => simp [CST.tokens, CST.ntoks, ih]
  | paren e ih => simp [CST.tokens, CST.ntoks, ih]
  | bin op l r ihl ihr => simp [CST.tokens, CST.ntoks, ihl, ihr]; omega

theorem CST.etoks_length (c : CST) : c.etoks.length = c.ntoks := by
  induction c with
  | num n => rfl
  | signs ss e ih => simp [CST.etoks, CST.ntoks, ih]
  | paren e ih => simp [CST.etoks, CST.ntoks, ih]
  | bin op l r ihl ihr => simp [CST.etoks, CST.ntoks, ihl, ihr]; omega

theorem CST.need_pos (c : CST) (h : WFprec c) : 1 ≤ c.need := by
  induction c with
  | num n => simp [CST.need]
  | signs ss e ih => simp only [WFprec] at h; have := ih h.2; simp only [CST.need]; omega
  | paren e ih => simp only [CST.need]; omega
  | bin op l r ihl ihr => simp only [CST.need]; omega

/-- the fuel the evaluators pass (`3 * length + 3`) is enough -/
theorem CST.need_spine_le (c : CST) : c.need + c.spine ≤ 3 * c.ntoks := by
  induction c with
  | num n => simp [CST.need, CST.spine, CST.ntoks]
  | signs ss e ih => simp only [CST.need, CST.spine, CST.ntoks]; cases e <;> simp only [CST.spine] at ih ⊢ <;> omega
  | paren e ih => simp only [CST.need, CST.spine, CST.ntoks]; omega
  | bin op l r ihl ihr => simp only [CST.need, CST.spine, CST.ntoks]; omega

theorem prec_arith {op : String} (h : isArith op) : 4 ≤ Spec.Expr.prec op ∧ Spec.Expr.prec op ≤ 5 := by
  rcases h with h | h | h | h | h <;> subst h <;> decide

theorem goPrec_arith {op : String} (h : isArith op) : GoEval.prec op = Spec.Expr.prec op := by
  rcases h with h | h | h | h | h <;> subst h <;> decide

theorem CST.prec_le (c : CST) (h : WFprec c) : c.prec ≤ 6 := by
  cases c with
  | bin op l r => simp only [WFprec] at h; have := prec_arith h.1; simp only [CST.prec]; omega
  | _ => simp [CST.prec]

theorem CST.spine_of_prec6 (c : CST) (hw : WFprec c) (h : c.prec = 6) : c.spine = 0 := by
  cases c with
  | bin op l r =>
    simp only [WFprec] at hw; have := prec_arith hw.1; simp only [CST.prec] at h; omega
  | _ => rfl

end Gmars.ExprProofs
