/-
  C07, part 4c: the precedence climbing parser / constant evaluator of the `go/types.Eval` model
  (`GoEval.parseBinary`) computes the denotation of every precedence-well-formed tree whose
  values stay in the modelled range.
-/
import Gmars.Proofs.ExprNormSem

namespace Gmars.ExprProofs
open Gmars.GoEval

/-- the Go scanner tokens of a tree -/
def CST.gtoks : CST → List GTok
  | .num n => [.int n]
  | .signs ss e => ss.map (fun s => GTok.op (signStr s)) ++ e.gtoks
  | .paren e => .lparen :: (e.gtoks ++ [.rparen])
  | .bin op l r => l.gtoks ++ .op op :: r.gtoks

theorem CST.gtoks_length (c : CST) : c.gtoks.length = c.ntoks := by
  induction c with
  | num n => rfl
  | signs ss e ih => simp [CST.gtoks, CST.ntoks, ih]
  | paren e ih => simp [CST.gtoks, CST.ntoks, ih]
  | bin op l r ihl ihr => simp [CST.gtoks, CST.ntoks, ihl, ihr]; omega

/-- a denotation as a result of the Go evaluator: a zero divisor is a (constant) error -/
def resOf : Option Int → Res Val
  | some v => .ok (.int v)
  | none => .err

def GStop (q : Nat) (rest : List GTok) : Prop :=
  ∀ o r, rest = GTok.op o :: r → GoEval.prec o < q ∨ GoEval.prec o = 0

theorem GStop.mono {q q' : Nat} {rest : List GTok} (h : GStop q rest) (hq : q ≤ q') : GStop q' rest := by
  intro o r e
  rcases h o r e with h | h
  · left; omega
  · right; exact h

theorem GStop_nil (q : Nat) : GStop q [] := by intro o r e; cases e
theorem GStop_rp (q : Nat) (r : List GTok) : GStop q (.rparen :: r) := by intro o r e; cases e

theorem binLoop_stop (F : Nat) (x : Res Val) (rest : List GTok) (p1 : Nat) (h : GStop p1 rest) :
    binLoop (F + 1) x rest p1 = some (x, rest) := by
  unfold binLoop
  split
  · rename_i o r
    have := h o r rfl
    have hc : (GoEval.prec o < p1 || GoEval.prec o == 0) = true := by
      rcases this with h | h <;> simp [h]
    simp only [hc, if_true]
  · rfl

theorem binLoop_step (F : Nat) (x : Res Val) (o : String) (r : List GTok) (p1 : Nat)
    (hp : p1 ≤ GoEval.prec o) (h0 : GoEval.prec o ≠ 0) :
    binLoop (F + 1) x (.op o :: r) p1 =
      match parseBinary F r (GoEval.prec o + 1) with
      | none => none
      | some (y, r') => binLoop F (lift2 o x y) r' p1 := by
  rw [binLoop]
  have hc : (GoEval.prec o < p1 || GoEval.prec o == 0) = false := by
    simp [h0]; omega
  simp only [hc]
  rfl

theorem guard_ok (v : Int) (h : -big < v ∧ v < big) : GoEval.guard v = .ok (.int v) := by
  unfold GoEval.guard
  have : (decide (v ≥ big) || decide (v ≤ -big)) = false := by
    simp only [Bool.or_eq_false_iff, decide_eq_false_iff_not]; omega
  rw [this]; rfl

def binDen (op : String) (dl dr : Option Int) : Option Int :=
  match dl, dr with
  | some a, some b => binVal op a b
  | _, _ => none

theorem denote_bin (op : String) (l r : CST) : denote (.bin op l r) = binDen op (denote l) (denote r) := by
  simp only [denote, binDen]
  cases denote l <;> cases denote r <;> rfl

theorem lift2_resOf (op : String) (dl dr : Option Int) (hop : isArith op)
    (hb : ∀ a b v, dl = some a → dr = some b → binVal op a b = some v → -big < v ∧ v < big) :
    lift2 op (resOf dl) (resOf dr) = resOf (binDen op dl dr) := by
  cases dl with
  | none => cases dr <;> rfl
  | some a =>
    cases dr with
    | none => rfl
    | some b =>
      have hb' := hb a b
      simp only [resOf, lift2, binDen]
      rcases hop with h | h | h | h | h <;> subst h
      · simp only [binop, binVal]; rw [guard_ok _ (hb' _ rfl rfl rfl)]
      · simp only [binop, binVal]; rw [guard_ok _ (hb' _ rfl rfl rfl)]
      · simp only [binop, binVal]; rw [guard_ok _ (hb' _ rfl rfl rfl)]
      · simp only [binop, binVal]
        by_cases h0 : b = 0 <;> simp [h0]
      · simp only [binop, binVal]
        by_cases h0 : b = 0 <;> simp [h0]

theorem neg_resOf (d : Option Int) : neg (resOf d) = resOf (d.map (fun v => -v)) := by
  cases d <;> rfl

theorem pos_resOf (d : Option Int) : pos (resOf d) = resOf d := by
  cases d <;> rfl

theorem parseUnary_signs (ss : List Bool) (F : Nat) (ts rest : List GTok) (d : Option Int)
    (h : parseUnary F ts = some (resOf d, rest)) :
    parseUnary (F + ss.length) (ss.map (fun s => GTok.op (signStr s)) ++ ts) =
      some (resOf (d.map (applySigns ss)), rest) := by
  induction ss with
  | nil => cases d <;> simpa [applySigns] using h
  | cons s ss ih =>
    have e : F + (s :: ss).length = (F + ss.length) + 1 := by simp; omega
    rw [e]
    cases s with
    | true =>
      simp only [List.map_cons, List.cons_append]
      rw [show signStr true = "-" from rfl, parseUnary, ih]
      simp only [Option.map_some, neg_resOf]
      cases d <;> rfl
    | false =>
      simp only [List.map_cons, List.cons_append]
      rw [show signStr false = "+" from rfl, parseUnary, ih]
      simp only [Option.map_some, pos_resOf]
      cases d <;> rfl

/-- the combined statement proved by induction on the tree -/
def GoOK (c : CST) : Prop :=
  (c.prec = 6 → ∀ F, c.need ≤ F → ∀ rest,
      parseUnary F (c.gtoks ++ rest) = some (resOf (denote c), rest)) ∧
  (∀ F, c.need ≤ F → ∀ p1 rest, p1 ≤ c.prec → GStop (c.prec + 1) rest →
      parseBinary (F + 1 + c.spine) (c.gtoks ++ rest) p1 = binLoop F (resOf (denote c)) rest p1)

theorem parseBinary_of_unary (c : CST) (hw : WFprec c) (h6 : c.prec = 6)
    (hu : ∀ F, c.need ≤ F → ∀ rest,
      parseUnary F (c.gtoks ++ rest) = some (resOf (denote c), rest)) :
    ∀ F, c.need ≤ F → ∀ p1 rest, p1 ≤ c.prec → GStop (c.prec + 1) rest →
      parseBinary (F + 1 + c.spine) (c.gtoks ++ rest) p1 = binLoop F (resOf (denote c)) rest p1 := by
  intro F hF p1 rest _ _
  rw [CST.spine_of_prec6 c hw h6, Nat.add_zero, parseBinary, hu F hF rest]

theorem goOK_num (n : Nat) : GoOK (.num n) := by
  have hu : ∀ F, (CST.num n).need ≤ F → ∀ rest,
      parseUnary F ((CST.num n).gtoks ++ rest) = some (resOf (denote (.num n)), rest) := by
    intro F hF rest
    obtain ⟨F', rfl⟩ : ∃ F', F = F' + 1 := ⟨F - 1, by simp only [CST.need] at hF; omega⟩
    simp [CST.gtoks, parseUnary, denote, resOf]
  exact ⟨fun _ => hu, parseBinary_of_unary _ (by simp [WFprec]) rfl hu⟩

theorem prec_ge_four (e : CST) (hw : WFprec e) : 4 ≤ e.prec := by
  cases e with
  | bin op l r => simp only [WFprec] at hw; have := prec_arith hw.1; simp only [CST.prec]; omega
  | _ => simp [CST.prec]

theorem goOK_paren (e : CST) (hw : WFprec e) (ih : GoOK e) : GoOK (.paren e) := by
  have hu : ∀ F, (CST.paren e).need ≤ F → ∀ rest,
      parseUnary F ((CST.paren e).gtoks ++ rest) = some (resOf (denote (.paren e)), rest) := by
    intro F hF rest
    have hn := CST.need_pos e hw
    simp only [CST.need] at hF
    obtain ⟨G, rfl⟩ : ∃ G, F = (G + 1 + e.spine) + 1 := ⟨F - e.spine - 2, by omega⟩
    have hG : e.need ≤ G := by omega
    obtain ⟨G', rfl⟩ : ∃ G', G = G' + 1 := ⟨G - 1, by omega⟩
    simp only [CST.gtoks, List.cons_append, List.append_assoc, List.nil_append]
    rw [parseUnary, ih.2 (G' + 1) hG 1 (.rparen :: rest) (by have := prec_ge_four e hw; omega) (GStop_rp _ _),
      binLoop_stop _ _ _ _ (GStop_rp _ _)]
    rfl
  exact ⟨fun _ => hu, parseBinary_of_unary _ (by simpa [WFprec] using hw) rfl hu⟩

theorem goOK_signs (ss : List Bool) (e : CST) (ha : e.isAtom = true) (hw : WFprec e) (ih : GoOK e) :
    GoOK (.signs ss e) := by
  have h6 : e.prec = 6 := by cases e <;> simp_all [CST.isAtom, CST.prec]
  have hu : ∀ F, (CST.signs ss e).need ≤ F → ∀ rest,
      parseUnary F ((CST.signs ss e).gtoks ++ rest) = some (resOf (denote (.signs ss e)), rest) := by
    intro F hF rest
    simp only [CST.need] at hF
    obtain ⟨G, rfl⟩ : ∃ G, F = G + ss.length := ⟨F - ss.length, by omega⟩
    have hG : e.need ≤ G := by omega
    simp only [CST.gtoks, List.append_assoc]
    rw [parseUnary_signs ss G (e.gtoks ++ rest) rest (denote e) (ih.1 h6 G hG rest)]
    rfl
  exact ⟨fun _ => hu, parseBinary_of_unary _ (by simp [WFprec, ha, hw]) rfl hu⟩

theorem goOK_bin (op : String) (l r : CST) (hw : WFprec (.bin op l r)) (hb : NoBigLit (.bin op l r))
    (ihl : GoOK l) (ihr : GoOK r) : GoOK (.bin op l r) := by
  simp only [WFprec] at hw
  obtain ⟨hop, hwl, hwr, hpl, hpr⟩ := hw
  simp only [NoBigLit] at hb
  have hp := prec_arith hop
  have hgp := goPrec_arith hop
  refine ⟨fun h => by simp only [CST.prec] at h; omega, ?_⟩
  intro F hF p1 rest hp1 hstop
  simp only [CST.prec] at hp1 hstop
  simp only [CST.need] at hF
  have hnl := CST.need_pos l hwl
  have hnr := CST.need_pos r hwr
  simp only [CST.gtoks, CST.spine, List.append_assoc, List.cons_append]
  have e1 : F + 1 + (l.spine + 1) = (F + 1) + 1 + l.spine := by omega
  rw [e1, ihl.2 (F + 1) (by omega) p1 _ (by omega)
    (by intro o r' e; cases e; left; rw [hgp]; omega)]
  rw [binLoop_step F _ op _ p1 (by rw [hgp]; exact hp1) (by rw [hgp]; omega)]
  obtain ⟨G, hG⟩ : ∃ G, F = (G + 1) + 1 + r.spine := ⟨F - r.spine - 2, by omega⟩
  have hGn : r.need ≤ G + 1 := by omega
  have hstop' : GStop (GoEval.prec op + 1) rest := by rw [hgp]; exact hstop
  rw [hG, ihr.2 (G + 1) hGn (GoEval.prec op + 1) rest (by rw [hgp]; omega) (hstop'.mono (by rw [hgp]; omega)),
    ← hG, binLoop_stop _ _ _ _ hstop']
  simp only
  rw [lift2_resOf op (denote l) (denote r) hop, denote_bin]
  · intro a b v ha hb' hv
    exact hb.2.2 v (by simp only [denote, ha, hb']; exact hv)

theorem goOK (c : CST) (hw : WFprec c) (hb : NoBigLit c) : GoOK c := by
  induction c with
  | num n => exact goOK_num n
  | signs ss e ih =>
    simp only [WFprec] at hw; simp only [NoBigLit] at hb
    exact goOK_signs ss e hw.1 hw.2 (ih hw.2 hb)
  | paren e ih =>
    simp only [WFprec] at hw; simp only [NoBigLit] at hb
    exact goOK_paren e hw (ih hw hb)
  | bin op l r ihl ihr =>
    have hw' := hw
    have hb' := hb
    simp only [WFprec] at hw'
    simp only [NoBigLit] at hb'
    exact goOK_bin op l r hw hb (ihl hw'.2.1 hb'.1) (ihr hw'.2.2.1 hb'.2.1)

/-- the Go constant evaluator computes the denotation from the scanner tokens of a tree -/
theorem parseBinary_gtoks (c : CST) (hw : WFprec c) (hb : NoBigLit c) :
    parseBinary (3 * c.gtoks.length + 3) c.gtoks 1 = some (resOf (denote c), []) := by
  have hs : c.need + c.spine ≤ 3 * c.gtoks.length := by
    have := CST.need_spine_le c; rw [CST.gtoks_length]; exact this
  have hn := CST.need_pos c hw
  have h := (goOK c hw hb).2 (3 * c.gtoks.length + 2 - c.spine) (by omega) 1 []
    (by have := prec_ge_four c hw; omega) (GStop_nil _)
  have e : 3 * c.gtoks.length + 2 - c.spine + 1 + c.spine = 3 * c.gtoks.length + 3 := by omega
  rw [e, List.append_nil] at h
  rw [h]
  obtain ⟨G, hG⟩ : ∃ G, 3 * c.gtoks.length + 2 - c.spine = G + 1 :=
    ⟨3 * c.gtoks.length + 2 - c.spine - 1, by omega⟩
  rw [hG, binLoop_stop _ _ _ _ (GStop_nil _)]

end Gmars.ExprProofs
