/-
  C07, part 4a: `combineSigns` and `flipDoubleNegatives` on the token list of a
  precedence-well-formed tree are tree transformations (`cs`, `fl`) that preserve
  well-formedness, the denotation and the size bounds.
-/
import Gmars.Proofs.ExprCST
import Gmars.Proofs.ExprSigns
import Gmars.Proofs.GoStrLemmas

namespace Gmars.ExprProofs

/-! ## basic facts about the tokens of a tree -/

theorem toString_toList (n : Nat) : (toString n).toList = Nat.toDigits 10 n := by
  show (Nat.repr n).toList = _
  simp [Nat.repr]

theorem numTok_val_ne (n : Nat) (s : String) (c : Char) (hs : s.toList = [c]) (hc : GoStr.isDigit c = false) :
    (numTok n).val ≠ s := by
  intro h
  have h1 := congrArg String.toList h
  simp only [numTok] at h1
  rw [toString_toList, hs] at h1
  have := GoStr.toDigits_all_isDigit n c (by rw [h1]; simp)
  rw [hc] at this; cases this

theorem numTok_ne_minus (n : Nat) : (numTok n).val ≠ "-" := numTok_val_ne n "-" '-' rfl (by decide)
theorem numTok_ne_plus (n : Nat) : (numTok n).val ≠ "+" := numTok_val_ne n "+" '+' rfl (by decide)

theorem isSign_numTok (n : Nat) : isSign (numTok n) = false := by
  simp [isSign, numTok_ne_minus, numTok_ne_plus]

theorem isSign_lpTok : isSign lpTok = false := by decide
theorem isSign_rpTok : isSign rpTok = false := by decide
theorem isSign_signTok (s : Bool) : isSign (signTok s) = true := by cases s <;> decide

theorem signTok_val_minus (s : Bool) : ((signTok s).val == "-") = s := by cases s <;> decide

theorem signTok_true : signTok true = minusTok := rfl
theorem signTok_false : signTok false = plusTok := rfl

theorem CST.tokens_ne_nil (c : CST) : c.tokens ≠ [] := by
  induction c with
  | num n => simp [CST.tokens]
  | signs ss e ih => simp [CST.tokens, ih]
  | paren e ih => simp [CST.tokens]
  | bin op l r ihl ihr => simp [CST.tokens]

/-- an atom starts with a number or `(` -/
theorem atom_head (e : CST) (h : e.isAtom = true) :
    ∃ x r, e.tokens = x :: r ∧ isSign x = false ∧ x.val ≠ "-" ∧ (x.typ == TokType.symbol) = false := by
  cases e with
  | num n => exact ⟨numTok n, [], rfl, isSign_numTok n, numTok_ne_minus n, rfl⟩
  | paren e => exact ⟨lpTok, _, rfl, isSign_lpTok, by decide, rfl⟩
  | signs ss e => cases h
  | bin op l r => cases h

/-! ## sign parity -/

def parityFrom (b : Bool) (ss : List Bool) : Bool := ss.foldl (fun p s => if s then !p else p) b

/-- parity of the minus signs -/
def parity (ss : List Bool) : Bool := parityFrom false ss

theorem parityFrom_eq (b : Bool) (ss : List Bool) : parityFrom b ss = (b ^^ parity ss) := by
  induction ss generalizing b with
  | nil => simp [parityFrom, parity]
  | cons s ss ih =>
    have e1 : parityFrom b (s :: ss) = parityFrom (if s then !b else b) ss := rfl
    have e2 : parity (s :: ss) = parityFrom (if s then !false else false) ss := rfl
    rw [e1, e2, ih, ih]
    cases s <;> cases b <;> simp

theorem parity_cons (s : Bool) (ss : List Bool) : parity (s :: ss) = (s ^^ parity ss) := by
  have e2 : parity (s :: ss) = parityFrom (if s then !false else false) ss := rfl
  rw [e2, parityFrom_eq]; cases s <;> simp

theorem minusParity_signs (b : Bool) (ss : List Bool) : minusParity b (ss.map signTok) = parityFrom b ss := by
  induction ss generalizing b with
  | nil => rfl
  | cons s ss ih =>
    show minusParity (if (signTok s).val == "-" then !b else b) (ss.map signTok) = _
    rw [ih, signTok_val_minus]; rfl

theorem applySigns_cons (s : Bool) (ss : List Bool) (v : Int) :
    applySigns (s :: ss) v = if s then -(applySigns ss v) else applySigns ss v := rfl

theorem applySigns_eq (ss : List Bool) (v : Int) : applySigns ss v = if parity ss then -v else v := by
  induction ss with
  | nil => rfl
  | cons s ss ih =>
    rw [applySigns_cons, ih, parity_cons]
    cases s <;> cases parity ss <;> simp

/-! ## `combineSigns` as a tree transformation -/

def foldSigns (ss : List Bool) : List Bool := if parity ss then [true] else []

/-- `combineSigns` on trees; the flag is the scanner state "the last token copied is a symbol" -/
def cs : Bool → CST → CST
  | _, .num n => .num n
  | _, .paren e => .paren (cs false e)
  | b, .bin op l r => .bin op (cs b l) (cs true r)
  | true, .signs ss e => .signs (foldSigns ss) (cs false e)
  | false, .signs [] e => .signs [] (cs false e)
  | false, .signs (s :: ss) e => .signs (s :: foldSigns ss) (cs false e)

theorem foldSigns_tokens (ss : List Bool) :
    (if minusParity false (ss.map signTok) then [minusTok] else []) = (foldSigns ss).map signTok := by
  rw [minusParity_signs]
  show (if parity ss then _ else _) = _
  unfold foldSigns
  cases parity ss <;> rfl

theorem CS_tree (c : CST) (hw : WFprec c) :
    ∀ b rest, CS b (c.tokens ++ rest) = (cs b c).tokens ++ CS false rest := by
  induction c with
  | num n =>
    intro b rest
    cases b with
    | false => simp only [CST.tokens, cs, List.cons_append, List.nil_append]; rw [CS_false_cons]; rfl
    | true =>
      have := CS_true_run [] (numTok n) rest (by simp) (isSign_numTok n)
      simpa [CST.tokens, cs, minusParity, show ((numTok n).typ == TokType.symbol) = false from rfl] using this
  | paren e ih =>
    intro b rest
    simp only [WFprec] at hw
    have key : lpTok :: CS false (e.tokens ++ rpTok :: rest) = (cs b (.paren e)).tokens ++ CS false rest := by
      rw [ih hw false, CS_false_cons]
      simp only [cs, CST.tokens, List.cons_append, List.append_assoc, List.nil_append]
      rfl
    cases b with
    | false =>
      simp only [CST.tokens, List.cons_append, List.append_assoc, List.nil_append]
      rw [CS_false_cons]; exact key
    | true =>
      have := CS_true_run [] lpTok (e.tokens ++ rpTok :: rest) (by simp) isSign_lpTok
      simp only [List.nil_append, minusParity, List.foldl_nil, Bool.false_eq_true, if_false] at this
      simp only [CST.tokens, List.cons_append, List.append_assoc, List.nil_append]
      rw [this]; exact key
  | bin op l r ihl ihr =>
    intro b rest
    simp only [WFprec] at hw
    simp only [CST.tokens, cs, List.append_assoc, List.cons_append]
    rw [ihl hw.2.1 b, CS_false_cons, show ((opTok op).typ == TokType.symbol) = true from rfl, ihr hw.2.2.1 true]
  | signs ss e ih =>
    intro b rest
    simp only [WFprec] at hw
    obtain ⟨x, r', hx, hxs, _, hxt⟩ := atom_head e hw.1
    have hrun : ∀ ss' : List Bool, CS true (ss'.map signTok ++ (e.tokens ++ rest)) =
        (foldSigns ss').map signTok ++ ((cs false e).tokens ++ CS false rest) := by
      intro ss'
      rw [hx, List.cons_append,
        CS_true_run (ss'.map signTok) x (r' ++ rest)
          (by intro t ht; obtain ⟨s, _, rfl⟩ := List.mem_map.1 ht; exact isSign_signTok s) hxs, hxt,
        foldSigns_tokens]
      have := ih hw.2 false rest
      rw [hx, List.cons_append, CS_false_cons, hxt] at this
      rw [this]
    cases b with
    | true =>
      simp only [CST.tokens, cs, List.append_assoc]
      exact hrun ss
    | false =>
      cases ss with
      | nil => simpa [CST.tokens, cs] using ih hw.2 false rest
      | cons s ss =>
        simp only [CST.tokens, cs, List.append_assoc, List.map_cons, List.cons_append]
        rw [CS_false_cons, show ((signTok s).typ == TokType.symbol) = true from rfl, hrun ss]

/-- `combineSigns` maps the tokens of a tree to the tokens of the folded tree -/
theorem combineSigns_tokens (c : CST) (hw : WFprec c) : combineSigns c.tokens = (cs false c).tokens := by
  have := CS_tree c hw false []
  simpa [CS_nil, combineSigns_eq_CS] using this

/-! ## `flipDoubleNegatives` as a tree transformation -/

/-- the first token of the tree is a minus sign -/
def startsNeg : CST → Bool
  | .signs (true :: _) _ => true
  | .bin _ l _ => startsNeg l
  | _ => false

def flipSigns : List Bool → List Bool
  | true :: true :: r => false :: flipSigns r
  | a :: r => a :: flipSigns r
  | [] => []

/-- `flipDoubleNegatives` on trees; with `s = true` the leading minus sign of the tree has already
    been consumed (it formed a pair with the binary minus in front of the tree) -/
def fl : Bool → CST → CST
  | _, .num n => .num n
  | _, .paren e => .paren (fl false e)
  | s, .signs ss e => .signs (flipSigns (if s then ss.tail else ss)) (fl false e)
  | s, .bin op l r =>
    if op = "-" ∧ startsNeg r = true then .bin "+" (fl s l) (fl true r) else .bin op (fl s l) (fl false r)

theorem flip_signs (ss : List Bool) (x : Token) (r : List Token) (hx : x.val ≠ "-") :
    flipDoubleNegatives (ss.map signTok ++ x :: r) =
      (flipSigns ss).map signTok ++ flipDoubleNegatives (x :: r) := by
  induction ss using flipSigns.induct with
  | case1 r' ih =>
    simp only [List.map_cons, List.cons_append, flipSigns]
    rw [flip_pair _ _ _ rfl rfl, ih]; rfl
  | case2 a r' hne ih =>
    rw [flipSigns]
    · simp only [List.map_cons, List.cons_append]
      cases a with
      | false => rw [flip_cons_of_ne _ _ (by decide), ih]
      | true =>
        cases r' with
        | nil => simp only [List.map_nil, List.nil_append, flipSigns]; rw [flip_cons_cons_of_ne _ _ _ hx,
            flip_cons_of_ne _ _ hx]
        | cons b r'' =>
          cases b with
          | true => exact (hne r'' rfl rfl).elim
          | false =>
            rw [← ih]
            simp only [List.map_cons, List.cons_append]
            rw [flip_cons_cons_of_ne _ _ _ (by decide), flip_cons_of_ne (signTok false) _ (by decide)]
    · intro r'' e; cases e; exact hne r'' rfl
  | case3 => simp [flipSigns]

/-- the head token of a tree is a minus exactly if `startsNeg` -/
theorem head_minus (c : CST) (hw : WFprec c) :
    ∃ x r, c.tokens = x :: r ∧ (x.val = "-" ↔ startsNeg c = true) ∧ (startsNeg c = true → x = minusTok) := by
  induction c with
  | num n => exact ⟨numTok n, [], rfl, by simp [startsNeg, numTok_ne_minus], by simp [startsNeg]⟩
  | paren e ih => exact ⟨lpTok, _, rfl, by simp [startsNeg, lpTok], by simp [startsNeg]⟩
  | bin op l r ihl ihr =>
    simp only [WFprec] at hw
    obtain ⟨x, r', hx, h1, h2⟩ := ihl hw.2.1
    exact ⟨x, r' ++ opTok op :: r.tokens, by simp [CST.tokens, hx], by simpa [startsNeg] using h1,
      by simpa [startsNeg] using h2⟩
  | signs ss e ih =>
    simp only [WFprec] at hw
    cases ss with
    | nil =>
      obtain ⟨x, r', hx, _, hxm, _⟩ := atom_head e hw.1
      exact ⟨x, r', by simp [CST.tokens, hx], by simp [startsNeg, hxm], by simp [startsNeg]⟩
    | cons s ss =>
      cases s with
      | true => exact ⟨minusTok, _, rfl, by simp [startsNeg, minusTok], fun _ => rfl⟩
      | false => exact ⟨plusTok, _, rfl, by simp [startsNeg, plusTok], by simp [startsNeg]⟩

theorem FL_tree (c : CST) (hw : WFprec c) :
    ∀ (s : Bool) rest, (s = true → startsNeg c = true) →
      flipDoubleNegatives ((if s then c.tokens.tail else c.tokens) ++ rest) =
        (fl s c).tokens ++ flipDoubleNegatives rest := by
  induction c with
  | num n =>
    intro s rest hs
    cases s with
    | true => simp [startsNeg] at hs
    | false =>
      simp only [Bool.false_eq_true, if_false, CST.tokens, fl, List.cons_append, List.nil_append]
      rw [flip_cons_of_ne _ _ (numTok_ne_minus n)]
  | paren e ih =>
    intro s rest hs
    cases s with
    | true => simp [startsNeg] at hs
    | false =>
      simp only [WFprec] at hw
      simp only [Bool.false_eq_true, if_false, CST.tokens, fl, List.cons_append, List.append_assoc,
        List.nil_append]
      rw [flip_cons_of_ne _ _ (by decide)]
      have := ih hw false (rpTok :: rest) (by simp)
      simp only [Bool.false_eq_true, if_false] at this
      rw [this, flip_cons_of_ne rpTok _ (by decide)]
  | signs ss e ih =>
    intro s rest hs
    simp only [WFprec] at hw
    obtain ⟨x, r', hx, _, hxm, _⟩ := atom_head e hw.1
    have he := ih hw.2 false rest (by simp)
    simp only [Bool.false_eq_true, if_false] at he
    have key : ∀ ss' : List Bool, flipDoubleNegatives (ss'.map signTok ++ (e.tokens ++ rest)) =
        (flipSigns ss').map signTok ++ ((fl false e).tokens ++ flipDoubleNegatives rest) := by
      intro ss'
      rw [hx, List.cons_append, flip_signs ss' x (r' ++ rest) hxm, ← he, hx, List.cons_append]
    cases s with
    | false =>
      simp only [Bool.false_eq_true, if_false, CST.tokens, fl, List.append_assoc]
      exact key ss
    | true =>
      have hs' := hs rfl
      cases ss with
      | nil => simp [startsNeg] at hs'
      | cons a ss =>
        simp only [if_true, CST.tokens, fl, List.map_cons, List.cons_append, List.tail_cons, List.append_assoc]
        exact key ss
  | bin op l r ihl ihr =>
    intro s rest hs
    simp only [WFprec] at hw
    have hl := ihl hw.2.1 s (opTok op :: (r.tokens ++ rest)) (by simpa [startsNeg] using hs)
    have e1 : (if s = true then (CST.bin op l r).tokens.tail else (CST.bin op l r).tokens) ++ rest =
        (if s = true then l.tokens.tail else l.tokens) ++ opTok op :: (r.tokens ++ rest) := by
      have := CST.tokens_ne_nil l
      cases s <;> simp only [CST.tokens, Bool.false_eq_true, if_false, if_true, List.append_assoc,
        List.cons_append, List.tail_append_of_ne_nil this]
    rw [e1, hl]
    obtain ⟨x, r', hx, h1, h2⟩ := head_minus r hw.2.2.1
    by_cases hc : op = "-" ∧ startsNeg r = true
    · have hr := ihr hw.2.2.1 true rest (fun _ => hc.2)
      simp only [if_true] at hr
      simp only [fl, hc, and_self, if_true, CST.tokens, List.append_assoc, List.cons_append]
      rw [hx, h2 hc.2, List.cons_append, flip_pair _ _ _ (by simp [opTok]) rfl, ← hr, hx]
      rfl
    · have hr := ihr hw.2.2.1 false rest (by simp)
      simp only [Bool.false_eq_true, if_false] at hr
      simp only [fl, hc, if_false, CST.tokens, List.append_assoc, List.cons_append]
      by_cases hop : op = "-"
      · have hxm : x.val ≠ "-" := fun h => hc ⟨hop, h1.1 h⟩
        rw [hx, List.cons_append, flip_cons_cons_of_ne _ _ _ hxm, ← flip_cons_of_ne _ _ hxm,
          ← List.cons_append, ← hx, hr]
      · rw [flip_cons_of_ne _ _ (by simpa [opTok] using hop), hr]

/-- `flipDoubleNegatives` maps the tokens of a tree to the tokens of the flipped tree -/
theorem flip_tokens (c : CST) (hw : WFprec c) : flipDoubleNegatives c.tokens = (fl false c).tokens := by
  have := FL_tree c hw false [] (by simp)
  simpa [flip_nil] using this

end Gmars.ExprProofs
