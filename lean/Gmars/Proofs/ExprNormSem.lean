/-
  C07, part 4b: the tree transformations `cs` (combineSigns) and `fl` (flipDoubleNegatives)
  preserve precedence well-formedness, the denotation and the size bounds.  The correctness of
  `flipDoubleNegatives` (`a - -b*c` becomes `a + b*c`) rests on `/` and `%` truncating towards zero.
-/
import Gmars.Proofs.ExprNorm

namespace Gmars.ExprProofs

/-- every literal and every defined intermediate value is below `2^500` in absolute value (the
    range on which the `go/types.Eval` model `GoEval` answers) -/
def NoBigLit : CST → Prop
  | .num n => (n : Int) < GoEval.big
  | .signs _ e => NoBigLit e
  | .paren e => NoBigLit e
  | .bin op l r => NoBigLit l ∧ NoBigLit r ∧
      ∀ v, denote (.bin op l r) = some v → -GoEval.big < v ∧ v < GoEval.big

/-! ## `cs` -/

theorem cs_shape (c : CST) (b : Bool) : (cs b c).prec = c.prec ∧ (cs b c).isAtom = c.isAtom := by
  cases c with
  | num n => simp [cs]
  | paren e => simp [cs, CST.prec, CST.isAtom]
  | bin op l r => simp [cs, CST.prec, CST.isAtom]
  | signs ss e =>
    cases b with
    | true => simp [cs, CST.prec, CST.isAtom]
    | false => cases ss <;> simp [cs, CST.prec, CST.isAtom]

theorem wf_cs (c : CST) (hw : WFprec c) : ∀ b, WFprec (cs b c) := by
  induction c with
  | num n => intro b; simp [cs, WFprec]
  | paren e ih => intro b; simp only [WFprec] at hw; simp only [cs, WFprec]; exact ih hw false
  | bin op l r ihl ihr =>
    intro b
    simp only [WFprec] at hw
    simp only [cs, WFprec, (cs_shape l b).1, (cs_shape r true).1]
    exact ⟨hw.1, ihl hw.2.1 b, ihr hw.2.2.1 true, hw.2.2.2⟩
  | signs ss e ih =>
    intro b
    simp only [WFprec] at hw
    have : (cs false e).isAtom = true ∧ WFprec (cs false e) := ⟨by rw [(cs_shape e false).2]; exact hw.1, ih hw.2 false⟩
    cases b with
    | true => simpa only [cs, WFprec] using this
    | false => cases ss <;> simpa only [cs, WFprec] using this

theorem applySigns_foldSigns (ss : List Bool) (v : Int) : applySigns (foldSigns ss) v = applySigns ss v := by
  rw [applySigns_eq ss]
  unfold foldSigns
  cases parity ss <;> rfl

theorem denote_cs (c : CST) : ∀ b, denote (cs b c) = denote c := by
  induction c with
  | num n => intro b; rfl
  | paren e ih => intro b; simp only [cs, denote]; exact ih false
  | bin op l r ihl ihr => intro b; simp only [cs, denote, ihl b, ihr true]
  | signs ss e ih =>
    intro b
    cases b with
    | true => simp only [cs, denote, ih false]; congr 1; funext v; exact applySigns_foldSigns ss v
    | false =>
      cases ss with
      | nil => simp only [cs, denote, ih false]
      | cons s ss =>
        simp only [cs, denote, ih false]; congr 1; funext v
        rw [applySigns_cons, applySigns_cons, applySigns_foldSigns]

theorem nobig_cs (c : CST) (h : NoBigLit c) : ∀ b, NoBigLit (cs b c) := by
  induction c with
  | num n => intro b; exact h
  | paren e ih => intro b; simp only [NoBigLit] at h; simp only [cs, NoBigLit]; exact ih h false
  | bin op l r ihl ihr =>
    intro b
    simp only [NoBigLit] at h
    have hd : denote (.bin op (cs b l) (cs true r)) = denote (.bin op l r) := by
      simp only [denote, denote_cs]
    simp only [cs, NoBigLit]
    exact ⟨ihl h.1 b, ihr h.2.1 true, fun v hv => h.2.2 v (by rw [← hd]; exact hv)⟩
  | signs ss e ih =>
    intro b
    simp only [NoBigLit] at h
    cases b with
    | true => simpa only [cs, NoBigLit] using ih h false
    | false => cases ss <;> simpa only [cs, NoBigLit] using ih h false

/-! ## `fl` -/

theorem fl_shape (c : CST) (s : Bool) : (fl s c).prec = c.prec ∧ (fl s c).isAtom = c.isAtom := by
  cases c with
  | num n => simp [fl]
  | paren e => simp [fl, CST.prec, CST.isAtom]
  | signs ss e => simp [fl, CST.prec, CST.isAtom]
  | bin op l r =>
    by_cases hc : op = "-" ∧ startsNeg r = true
    · simp only [fl, hc, and_self, if_true, CST.prec, CST.isAtom]; exact ⟨by decide, trivial⟩
    · simp only [fl, hc, if_false, CST.prec, CST.isAtom]; exact ⟨trivial, trivial⟩

theorem wf_fl (c : CST) (hw : WFprec c) : ∀ s, WFprec (fl s c) := by
  induction c with
  | num n => intro s; simp [fl, WFprec]
  | paren e ih => intro s; simp only [WFprec] at hw; simp only [fl, WFprec]; exact ih hw false
  | signs ss e ih =>
    intro s
    simp only [WFprec] at hw
    simp only [fl, WFprec]
    exact ⟨by rw [(fl_shape e false).2]; exact hw.1, ih hw.2 false⟩
  | bin op l r ihl ihr =>
    intro s
    simp only [WFprec] at hw
    by_cases hc : op = "-" ∧ startsNeg r = true
    · simp only [fl, hc, and_self, if_true, WFprec, (fl_shape l s).1, (fl_shape r true).1]
      obtain ⟨rfl, _⟩ := hc
      exact ⟨by decide, ihl hw.2.1 s, ihr hw.2.2.1 true, hw.2.2.2⟩
    · simp only [fl, hc, if_false, WFprec, (fl_shape l s).1, (fl_shape r false).1]
      exact ⟨hw.1, ihl hw.2.1 s, ihr hw.2.2.1 false, hw.2.2.2⟩

theorem applySigns_flipSigns (ss : List Bool) (v : Int) : applySigns (flipSigns ss) v = applySigns ss v := by
  induction ss using flipSigns.induct with
  | case1 r ih => simp only [flipSigns, applySigns_cons, ih, if_true, Bool.false_eq_true, if_false, Int.neg_neg]
  | case2 a r hne ih =>
    rw [flipSigns]
    · simp only [applySigns_cons, ih]
    · intro r'' e; cases e; exact hne r'' rfl
  | case3 => rfl

/-- a leading minus can be pulled out of a product chain because `/` and `%` truncate -/
theorem binVal_neg_left (op : String) (a b : Int) (hop : isArith op) (hp : 5 ≤ Spec.Expr.prec op) :
    binVal op (-a) b = (binVal op a b).map (fun v => -v) := by
  rcases hop with h | h | h | h | h <;> subst h
  · exact absurd hp (by decide)
  · exact absurd hp (by decide)
  · simp [binVal, Int.neg_mul]
  · simp only [binVal]; split <;> simp [Int.neg_tdiv]
  · simp only [binVal]; split <;> simp [Int.neg_tmod]

theorem denote_fl (c : CST) (hw : WFprec c) :
    denote (fl false c) = denote c ∧
    (startsNeg c = true → 5 ≤ c.prec → denote (fl true c) = (denote c).map (fun v => -v)) := by
  induction c with
  | num n => exact ⟨rfl, by simp [startsNeg]⟩
  | paren e ih =>
    simp only [WFprec] at hw
    exact ⟨by simp only [fl, denote]; exact (ih hw).1, by simp [startsNeg]⟩
  | signs ss e ih =>
    simp only [WFprec] at hw
    refine ⟨?_, ?_⟩
    · simp only [fl, Bool.false_eq_true, if_false, denote, (ih hw.2).1]
      congr 1; funext v; exact applySigns_flipSigns ss v
    · intro hs _
      cases ss with
      | nil => simp [startsNeg] at hs
      | cons a ss =>
        cases a with
        | false => simp [startsNeg] at hs
        | true =>
          simp only [fl, if_true, List.tail_cons, denote, (ih hw.2).1]
          cases denote e with
          | none => rfl
          | some v => simp [applySigns_flipSigns, applySigns_cons]
  | bin op l r ihl ihr =>
    simp only [WFprec] at hw
    obtain ⟨hop, hwl, hwr, hpl, hpr⟩ := hw
    have hp := prec_arith hop
    refine ⟨?_, ?_⟩
    · by_cases hc : op = "-" ∧ startsNeg r = true
      · simp only [fl, hc, and_self, if_true, denote, (ihl hwl).1, (ihr hwr).2 hc.2 (by omega)]
        obtain ⟨rfl, _⟩ := hc
        cases denote l <;> cases denote r <;> simp [binVal, Int.sub_eq_add_neg]
      · simp only [fl, hc, if_false, denote, (ihl hwl).1, (ihr hwr).1]
    · intro hs hp5
      simp only [startsNeg] at hs
      simp only [CST.prec] at hp5
      have hne : ¬ (op = "-" ∧ startsNeg r = true) := by
        rintro ⟨rfl, _⟩; revert hp5; decide
      simp only [fl, hne, if_false, denote, (ihl hwl).2 hs (by omega), (ihr hwr).1]
      cases denote l <;> cases denote r <;> simp [binVal_neg_left op _ _ hop hp5]

theorem nobig_fl (c : CST) (hw : WFprec c) (h : NoBigLit c) :
    NoBigLit (fl false c) ∧ (startsNeg c = true → 5 ≤ c.prec → NoBigLit (fl true c)) := by
  induction c with
  | num n => exact ⟨h, by simp [startsNeg]⟩
  | paren e ih =>
    simp only [WFprec] at hw
    simp only [NoBigLit] at h
    exact ⟨by simp only [fl, NoBigLit]; exact (ih hw h).1, by simp [startsNeg]⟩
  | signs ss e ih =>
    simp only [WFprec] at hw
    simp only [NoBigLit] at h
    exact ⟨by simp only [fl, NoBigLit]; exact (ih hw.2 h).1, fun _ _ => by simp only [fl, NoBigLit]; exact (ih hw.2 h).1⟩
  | bin op l r ihl ihr =>
    have hw' := hw
    simp only [WFprec] at hw
    obtain ⟨hop, hwl, hwr, hpl, hpr⟩ := hw
    have hp := prec_arith hop
    simp only [NoBigLit] at h
    have hd := denote_fl (.bin op l r) hw'
    refine ⟨?_, ?_⟩
    · have hd1 := hd.1
      by_cases hc : op = "-" ∧ startsNeg r = true
      · simp only [fl, hc, and_self, if_true] at hd1
        rw [← hc.1] at hd1
        simp only [fl, hc, and_self, if_true, NoBigLit]
        exact ⟨(ihl hwl h.1).1, (ihr hwr h.2.1).2 hc.2 (by omega), fun v hv => h.2.2 v (by rw [← hd1]; exact hv)⟩
      · simp only [fl, hc, if_false] at hd1
        simp only [fl, hc, if_false, NoBigLit]
        exact ⟨(ihl hwl h.1).1, (ihr hwr h.2.1).1, fun v hv => h.2.2 v (by rw [← hd1]; exact hv)⟩
    · intro hs hp5
      have hd2 := hd.2 hs hp5
      simp only [startsNeg] at hs
      simp only [CST.prec] at hp5
      have hne : ¬ (op = "-" ∧ startsNeg r = true) := by
        rintro ⟨rfl, _⟩; revert hp5; decide
      simp only [fl, hne, if_false] at hd2
      simp only [fl, hne, if_false, NoBigLit]
      refine ⟨(ihl hwl h.1).2 hs (by omega), (ihr hwr h.2.1).1, fun v hv => ?_⟩
      rw [hd2] at hv
      cases hdd : denote (.bin op l r) with
      | none => rw [hdd] at hv; cases hv
      | some w =>
        rw [hdd] at hv
        simp only [Option.map_some, Option.some.injEq] at hv
        have := h.2.2 w hdd
        omega

/-! ## the normal form the Go evaluator sees -/

/-- the tree whose tokens are `flipDoubleNegatives (combineSigns c.tokens)` -/
def norm (c : CST) : CST := fl false (cs false c)

theorem norm_tokens (c : CST) (hw : WFprec c) :
    flipDoubleNegatives (combineSigns c.tokens) = (norm c).tokens := by
  rw [combineSigns_tokens c hw, flip_tokens _ (wf_cs c hw false)]; rfl

theorem wf_norm (c : CST) (hw : WFprec c) : WFprec (norm c) := wf_fl _ (wf_cs c hw false) false

theorem denote_norm (c : CST) (hw : WFprec c) : denote (norm c) = denote c := by
  unfold norm
  rw [(denote_fl _ (wf_cs c hw false)).1, denote_cs]

theorem nobig_norm (c : CST) (hw : WFprec c) (h : NoBigLit c) : NoBigLit (norm c) :=
  (nobig_fl _ (wf_cs c hw false) (nobig_cs c h false)).1

end Gmars.ExprProofs
