/-
  C07 "operand expressions evaluate as integer arithmetic" — main theorems.

  * part 1 (sign folding, token level): `signRun_eq`, `minusParity_count`,
    `combineSigns_signsFolded`, `flip_pair`, `flip_noMM`, `flip_noPP`   (ExprSigns.lean)
  * part 2 (syntax trees): `CST`, `CST.tokens`, `CST.etoks`, `WFprec`, `denote`   (ExprCST.lean)
  * part 3: `reference_eval_cst`, `reference_evalInt_cst`   (ExprRef.lean)
  * part 4: `model_eval_cst` (this file), from
      `norm_tokens`, `denote_norm`, `wf_norm`, `nobig_norm`   (ExprNorm.lean, ExprNormSem.lean)
      `scan_tokens`   (ExprScan.lean)
      `parseBinary_gtoks`   (ExprGoParse.lean)
  * `model_agrees_with_reference`: gmars' evaluator and the reference evaluator agree on every
    precedence-well-formed tree in the modelled range.
-/
import Gmars.Proofs.ExprRef
import Gmars.Proofs.ExprScan

namespace Gmars.ExprProofs
open Gmars.GoEval

/-! ## the tokens of a tree can be scanned -/

theorem tokens_printable (c : CST) (hw : WFprec c) : ∀ t ∈ c.tokens, Printable t := by
  induction c with
  | num n => intro t ht; simp only [CST.tokens, List.mem_singleton] at ht; subst ht; exact Or.inl ⟨n, rfl⟩
  | signs ss e ih =>
    simp only [WFprec] at hw
    intro t ht
    simp only [CST.tokens, List.mem_append, List.mem_map] at ht
    rcases ht with ⟨s, _, rfl⟩ | ht
    · right; right; right
      cases s
      · exact ⟨rfl, Or.inl rfl⟩
      · exact ⟨rfl, Or.inr (Or.inl rfl)⟩
    · exact ih hw.2 t ht
  | paren e ih =>
    simp only [WFprec] at hw
    intro t ht
    simp only [CST.tokens, List.mem_cons, List.mem_append, List.not_mem_nil, or_false] at ht
    rcases ht with rfl | ht | rfl
    · exact Or.inr (Or.inl rfl)
    · exact ih hw t ht
    · exact Or.inr (Or.inr (Or.inl rfl))
  | bin op l r ihl ihr =>
    simp only [WFprec] at hw
    intro t ht
    simp only [CST.tokens, List.mem_append, List.mem_cons] at ht
    rcases ht with ht | rfl | ht
    · exact ihl hw.2.1 t ht
    · exact Or.inr (Or.inr (Or.inr ⟨rfl, hw.1⟩))
    · exact ihr hw.2.2.1 t ht

/-- the neighbour relation that holds in the token list of any tree -/
def TreeAdj (a b : Token) : Prop :=
  (a.typ = .number → b.typ ≠ .number) ∧ (a.typ = .symbol → b.typ = .symbol → isSign b = true)

theorem tokens_first (c : CST) : ∃ x r, c.tokens = x :: r ∧ (x.typ = .symbol → isSign x = true) := by
  induction c with
  | num n => exact ⟨numTok n, [], rfl, fun h => by cases h⟩
  | paren e ih => exact ⟨lpTok, _, rfl, fun h => by cases h⟩
  | bin op l r ihl ihr =>
    obtain ⟨x, r', hx, h⟩ := ihl
    exact ⟨x, r' ++ opTok op :: r.tokens, by simp [CST.tokens, hx], h⟩
  | signs ss e ih =>
    cases ss with
    | nil => obtain ⟨x, r', hx, h⟩ := ih; exact ⟨x, r', by simp [CST.tokens, hx], h⟩
    | cons s ss => exact ⟨signTok s, _, rfl, fun _ => isSign_signTok s⟩

theorem tokens_last (c : CST) : ∃ i y, c.tokens = i ++ [y] ∧ y.typ ≠ .symbol := by
  induction c with
  | num n => exact ⟨[], numTok n, rfl, by simp [numTok]⟩
  | paren e ih => exact ⟨lpTok :: e.tokens, rpTok, by simp [CST.tokens], by simp [rpTok]⟩
  | bin op l r ihl ihr =>
    obtain ⟨i, y, hy, h⟩ := ihr
    exact ⟨l.tokens ++ opTok op :: i, y, by simp [CST.tokens, hy], h⟩
  | signs ss e ih =>
    obtain ⟨i, y, hy, h⟩ := ih
    exact ⟨ss.map signTok ++ i, y, by simp [CST.tokens, hy], h⟩

theorem signs_chain (ss : List Bool) : Chain TreeAdj (ss.map signTok) := by
  induction ss with
  | nil => trivial
  | cons s ss ih =>
    cases ss with
    | nil => trivial
    | cons s' ss => exact ⟨⟨fun h => (by cases h), fun _ _ => isSign_signTok s'⟩, ih⟩

theorem tokens_chain (c : CST) : Chain TreeAdj c.tokens := by
  induction c with
  | num n => trivial
  | paren e ih =>
    obtain ⟨x, r, hx, hf⟩ := tokens_first e
    obtain ⟨i, y, hy, hl⟩ := tokens_last e
    simp only [CST.tokens]
    have h1 : Chain TreeAdj (e.tokens ++ [rpTok]) := by
      refine ih.append (by trivial) (fun a b ha hb => ?_)
      rw [hy, List.getLast?_concat] at ha
      cases ha; simp only [List.head?_cons, Option.some.injEq] at hb; subst hb
      exact ⟨fun _ => by simp [rpTok], fun h => absurd h hl⟩
    refine h1.cons (fun b r' e' => ⟨fun h => (by cases h), fun h => (by cases h)⟩)
  | bin op l r ihl ihr =>
    obtain ⟨x, r', hx, hf⟩ := tokens_first r
    obtain ⟨i, y, hy, hl⟩ := tokens_last l
    simp only [CST.tokens]
    have h1 : Chain TreeAdj (opTok op :: r.tokens) := by
      refine ihr.cons (fun b r'' e' => ?_)
      rw [hx] at e'; cases e'
      exact ⟨fun h => (by cases h), fun _ h => hf h⟩
    refine ihl.append h1 (fun a b ha hb => ?_)
    rw [hy, List.getLast?_concat] at ha
    cases ha; simp only [List.head?_cons, Option.some.injEq] at hb; subst hb
    exact ⟨fun _ => by simp [opTok], fun h => absurd h hl⟩
  | signs ss e ih =>
    obtain ⟨x, r', hx, hf⟩ := tokens_first e
    simp only [CST.tokens]
    refine (signs_chain ss).append ih (fun a b ha hb => ?_)
    rw [hx] at hb; simp only [List.head?_cons, Option.some.injEq] at hb; subst hb
    have : ∃ s, a = signTok s := by
      have := List.mem_of_getLast? ha
      obtain ⟨s, _, rfl⟩ := List.mem_map.1 this
      exact ⟨s, rfl⟩
    obtain ⟨s, rfl⟩ := this
    exact ⟨fun h => (by cases h), fun _ h => hf h⟩

theorem tokens_map_tokG (c : CST) : c.tokens.map tokG = c.gtoks := by
  induction c with
  | num n => simp [CST.tokens, CST.gtoks, tokG_numTok]
  | paren e ih => simp [CST.tokens, CST.gtoks, ih]; exact ⟨rfl, rfl⟩
  | bin op l r ihl ihr => simp [CST.tokens, CST.gtoks, ihl, ihr]; rfl
  | signs ss e ih =>
    simp only [CST.tokens, CST.gtoks, List.map_append, List.map_map, ih]
    congr 1

theorem gtoks_no_bad (c : CST) : c.gtoks.contains GTok.bad = false := by
  have : ∀ t ∈ c.gtoks, t ≠ GTok.bad := by
    induction c with
    | num n => simp [CST.gtoks]
    | paren e ih =>
      intro t ht
      simp only [CST.gtoks, List.mem_cons, List.mem_append, List.not_mem_nil, or_false] at ht
      rcases ht with rfl | ht | rfl
      · simp
      · exact ih t ht
      · simp
    | bin op l r ihl ihr =>
      intro t ht
      simp only [CST.gtoks, List.mem_append, List.mem_cons] at ht
      rcases ht with ht | rfl | ht
      · exact ihl t ht
      · simp
      · exact ihr t ht
    | signs ss e ih =>
      intro t ht
      simp only [CST.gtoks, List.mem_append, List.mem_map] at ht
      rcases ht with ⟨s, _, rfl⟩ | ht
      · simp
      · exact ih t ht
  cases h : c.gtoks.contains GTok.bad with
  | false => rfl
  | true => exact absurd rfl (this _ (List.contains_iff_mem.1 h))

/-- after `combineSigns` and `flipDoubleNegatives` the tokens of a tree can be scanned -/
theorem norm_scanAdj (c : CST) (hw : WFprec c) : Chain ScanAdj (norm c).tokens := by
  have hprint := tokens_printable c hw
  have hsym : ∀ t ∈ combineSigns c.tokens, isSign t = true → t.typ = .symbol := by
    intro t ht hs
    rcases CS_mem c.tokens.length false c.tokens (Nat.le_refl _) t ht with h | rfl
    · rcases hprint t h with ⟨n, rfl⟩ | rfl | rfl | ⟨h', _⟩
      · rw [isSign_numTok] at hs; cases hs
      · cases hs
      · cases hs
      · exact h'
    · rfl
  have h1 := tokens_chain (norm c)
  have h2 := flip_noMM (combineSigns c.tokens)
  have h3 := flip_noPP (combineSigns c.tokens) false (combineSigns_signsFolded c.tokens) hsym
  rw [norm_tokens c hw] at h2 h3
  exact ((h1.and h2).and h3).imp (fun a b h => ⟨h.1.1.1, h.1.1.2, h.1.2, h.2⟩)

/-- `go/types.Eval` (its model) on the string gmars builds from the tokens of a tree -/
theorem goEval_norm (c : CST) (hw : WFprec c) (hb : NoBigLit c) :
    GoEval.eval (String.join ((flipDoubleNegatives (combineSigns c.tokens)).map (·.val))) =
      resOf (denote c) := by
  have hwn := wf_norm c hw
  unfold GoEval.eval
  simp only
  rw [norm_tokens c hw, join_toList,
    scan_tokens (norm c).tokens (tokens_printable _ hwn) (norm_scanAdj c hw) _
      (by
        have : (norm c).tokens.length ≤ (tokChars (norm c).tokens).length := by
          have hp := tokens_printable _ hwn
          generalize (norm c).tokens = l at hp
          induction l with
          | nil => simp
          | cons t r ih =>
            obtain ⟨ch, cs, hv, _⟩ := printable_head t (hp t (by simp))
            have := ih (fun u hu => hp u (by simp [hu]))
            rw [tokChars_cons, List.length_append, hv]
            simp only [List.length_cons]; omega
        omega)]
  simp only [tokens_map_tokG, gtoks_no_bad, Bool.false_eq_true, if_false]
  rw [parseBinary_gtoks _ hwn (nobig_norm c hw hb), denote_norm c hw]

/-- **Part 4.** The model of gmars' `evaluateExpression` (sign folding, double-negative
    rewriting, string concatenation, `go/types.Eval`, 32-bit range check) computes the denotation
    of every precedence-well-formed tree whose literals and intermediate values are below `2^500`
    in absolute value: sign runs of any length and redundant parentheses included. -/
theorem model_eval_cst (c : CST) (hw : WFprec c) (hb : NoBigLit c) :
    evaluateExpression c.tokens =
      match denote c with
      | some v => if -2 ^ 31 ≤ v ∧ v < 2 ^ 31 then .ok v else .err
      | none => .err := by
  have hany : (c.tokens.any (fun t => t.typ == .text || !t.isExpressionTerm)) = false := by
    rw [List.any_eq_false]
    intro t ht
    rcases tokens_printable c hw t ht with ⟨n, rfl⟩ | rfl | rfl | ⟨h', _⟩
    · simp [numTok, Token.isExpressionTerm]
    · simp [lpTok, Token.isExpressionTerm]
    · simp [rpTok, Token.isExpressionTerm]
    · simp [h', Token.isExpressionTerm]
  unfold evaluateExpression
  simp only [hany, Bool.false_eq_true, if_false]
  rw [goEval_norm c hw hb]
  cases denote c with
  | none => rfl
  | some v =>
    simp only [resOf]
    have e : (2 : Int) ^ 31 = 2147483648 := by decide
    by_cases h : -2147483648 ≤ v ∧ v ≤ 2147483647
    · rw [if_pos h, if_pos (by rw [e]; omega)]
    · rw [if_neg h, if_neg (by rw [e]; omega)]

/-- gmars' evaluator and the reference evaluator agree on every precedence-well-formed tree in the
    modelled range -/
theorem model_agrees_with_reference (c : CST) (hw : WFprec c) (hb : NoBigLit c) :
    evaluateExpression c.tokens =
      match Spec.Expr.evalInt c.etoks with
      | some v => .ok v
      | none => .err := by
  rw [model_eval_cst c hw hb, reference_evalInt_cst c hw]
  cases denote c with
  | none => rfl
  | some v =>
    have e : (2 : Int) ^ 31 = 2147483648 := by decide
    simp only [Option.bind_some]
    by_cases h : -2147483648 ≤ v ∧ v ≤ 2147483647
    · rw [if_pos h, if_pos (by rw [e]; omega)]
    · rw [if_neg h, if_neg (by rw [e]; omega)]

end Gmars.ExprProofs
