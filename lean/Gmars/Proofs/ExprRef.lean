/-
  C07, part 3: the reference evaluator `Spec.Expr.eval` computes the denotation of every
  precedence-well-formed concrete syntax tree.
-/
import Gmars.Proofs.ExprCST

namespace Gmars.ExprProofs
open Gmars.Spec Gmars.Spec.Expr

/-- `rest` does not continue an operand parsed at level `q` -/
def RStop (q : Nat) (rest : List ETok) : Prop :=
  ∀ o r, rest = ETok.op o :: r → Spec.Expr.prec o < q ∨ Spec.Expr.prec o = 0

theorem RStop.mono {q q' : Nat} {rest : List ETok} (h : RStop q rest) (hq : q ≤ q') : RStop q' rest := by
  intro o r e
  rcases h o r e with h | h
  · left; omega
  · right; exact h

theorem RStop_nil (q : Nat) : RStop q [] := by intro o r e; cases e
theorem RStop_rp (q : Nat) (r : List ETok) : RStop q (.rp :: r) := by intro o r e; cases e

theorem loop_stop (F : Nat) (x : V) (rest : List ETok) (p1 : Nat) (h : RStop p1 rest) :
    loop (F + 1) x rest p1 = some (x, rest) := by
  unfold loop
  split
  · rename_i o r
    have := h o r rfl
    have hc : (Spec.Expr.prec o < p1 || Spec.Expr.prec o == 0) = true := by
      rcases this with h | h <;> simp [h]
    simp only [hc, if_true]
  · rfl

theorem loop_step (F : Nat) (x : V) (o : String) (r : List ETok) (p1 : Nat)
    (hp : p1 ≤ Spec.Expr.prec o) (h0 : Spec.Expr.prec o ≠ 0) :
    loop (F + 1) x (.op o :: r) p1 =
      (binary F r (Spec.Expr.prec o + 1)).bind (fun yr =>
        (apply o x yr.1).bind (fun z => loop F z yr.2 p1)) := by
  rw [loop]
  have hc : (Spec.Expr.prec o < p1 || Spec.Expr.prec o == 0) = false := by
    simp [h0]; omega
  simp only [hc]
  rfl

theorem apply_int (op : String) (a b : Int) (h : isArith op) :
    apply op (.int a) (.int b) = (binVal op a b).map V.int := by
  rcases h with h | h | h | h | h <;> subst h <;> simp [apply, binVal] <;> split <;> simp_all

theorem unary_signs (ss : List Bool) (F : Nat) (ts : List ETok) (res : Option (Int × List ETok))
    (h : unary F ts = res.map (fun p => (V.int p.1, p.2))) :
    unary (F + ss.length) (ss.map (fun s => ETok.op (signStr s)) ++ ts) =
      res.map (fun p => (V.int (applySigns ss p.1), p.2)) := by
  induction ss with
  | nil => simpa [applySigns] using h
  | cons s ss ih =>
    have e : F + (s :: ss).length = (F + ss.length) + 1 := by simp; omega
    rw [e]
    cases s with
    | true =>
      simp only [List.map_cons, List.cons_append]
      rw [show signStr true = "-" from rfl, unary, ih]
      cases res <;> simp [applySigns]
    | false =>
      simp only [List.map_cons, List.cons_append]
      rw [show signStr false = "+" from rfl, unary, ih]
      cases res <;> simp [applySigns]

/-- the combined statement proved by induction on the tree -/
def RefOK (c : CST) : Prop :=
  (c.prec = 6 → ∀ F, c.need ≤ F → ∀ rest,
      unary F (c.etoks ++ rest) = (denote c).map (fun v => (V.int v, rest))) ∧
  (∀ F, c.need ≤ F → ∀ p1 rest, p1 ≤ c.prec → RStop (c.prec + 1) rest →
      binary (F + 1 + c.spine) (c.etoks ++ rest) p1 =
        (denote c).bind (fun v => loop F (V.int v) rest p1))

theorem binary_of_unary (c : CST) (hw : WFprec c) (h6 : c.prec = 6)
    (hu : ∀ F, c.need ≤ F → ∀ rest,
      unary F (c.etoks ++ rest) = (denote c).map (fun v => (V.int v, rest))) :
    ∀ F, c.need ≤ F → ∀ p1 rest, p1 ≤ c.prec → RStop (c.prec + 1) rest →
      binary (F + 1 + c.spine) (c.etoks ++ rest) p1 =
        (denote c).bind (fun v => loop F (V.int v) rest p1) := by
  intro F hF p1 rest _ _
  rw [CST.spine_of_prec6 c hw h6, Nat.add_zero, binary, hu F hF rest]
  cases denote c <;> rfl

theorem refOK_num (n : Nat) : RefOK (.num n) := by
  have hu : ∀ F, (CST.num n).need ≤ F → ∀ rest,
      unary F ((CST.num n).etoks ++ rest) = (denote (.num n)).map (fun v => (V.int v, rest)) := by
    intro F hF rest
    obtain ⟨F', rfl⟩ : ∃ F', F = F' + 1 := ⟨F - 1, by simp only [CST.need] at hF; omega⟩
    simp [CST.etoks, unary, denote]
  exact ⟨fun _ => hu, binary_of_unary _ (by simp [WFprec]) rfl hu⟩

theorem refOK_paren (e : CST) (hw : WFprec e) (ih : RefOK e) : RefOK (.paren e) := by
  have hu : ∀ F, (CST.paren e).need ≤ F → ∀ rest,
      unary F ((CST.paren e).etoks ++ rest) = (denote (.paren e)).map (fun v => (V.int v, rest)) := by
    intro F hF rest
    have hn := CST.need_pos e hw
    simp only [CST.need] at hF
    obtain ⟨G, rfl⟩ : ∃ G, F = (G + 1 + e.spine) + 1 := ⟨F - e.spine - 2, by omega⟩
    have hG : e.need ≤ G := by omega
    obtain ⟨G', rfl⟩ : ∃ G', G = G' + 1 := ⟨G - 1, by omega⟩
    simp only [CST.etoks, List.cons_append, List.append_assoc, List.nil_append]
    rw [unary, ih.2 (G' + 1) hG 1 (.rp :: rest) (by have := prec_le_of e hw; omega) (RStop_rp _ _)]
    simp only [denote]
    cases denote e with
    | none => rfl
    | some v =>
      simp only [Option.bind_some, Option.map_some]
      rw [loop_stop _ _ _ _ (RStop_rp _ _)]
  exact ⟨fun _ => hu, binary_of_unary _ (by simpa [WFprec] using hw) rfl hu⟩
where
  prec_le_of (e : CST) (hw : WFprec e) : 4 ≤ e.prec := by
    cases e with
    | bin op l r => simp only [WFprec] at hw; have := prec_arith hw.1; simp only [CST.prec]; omega
    | _ => simp [CST.prec]

theorem refOK_signs (ss : List Bool) (e : CST) (ha : e.isAtom = true) (hw : WFprec e) (ih : RefOK e) :
    RefOK (.signs ss e) := by
  have h6 : e.prec = 6 := by cases e <;> simp_all [CST.isAtom, CST.prec]
  have hu : ∀ F, (CST.signs ss e).need ≤ F → ∀ rest,
      unary F ((CST.signs ss e).etoks ++ rest) =
        (denote (.signs ss e)).map (fun v => (V.int v, rest)) := by
    intro F hF rest
    simp only [CST.need] at hF
    obtain ⟨G, rfl⟩ : ∃ G, F = G + ss.length := ⟨F - ss.length, by omega⟩
    have hG : e.need ≤ G := by omega
    simp only [CST.etoks, List.append_assoc]
    rw [unary_signs ss G (e.etoks ++ rest) ((denote e).map (fun v => (v, rest)))]
    · simp only [denote]; cases denote e <;> rfl
    · rw [ih.1 h6 G hG rest]; cases denote e <;> rfl
  exact ⟨fun _ => hu, binary_of_unary _ (by simp [WFprec, ha, hw]) rfl hu⟩

theorem refOK_bin (op : String) (l r : CST) (hw : WFprec (.bin op l r)) (ihl : RefOK l) (ihr : RefOK r) :
    RefOK (.bin op l r) := by
  simp only [WFprec] at hw
  obtain ⟨hop, hwl, hwr, hpl, hpr⟩ := hw
  have hp := prec_arith hop
  refine ⟨fun h => by simp only [CST.prec] at h; omega, ?_⟩
  intro F hF p1 rest hp1 hstop
  simp only [CST.prec] at hp1 hstop
  simp only [CST.need] at hF
  have hnl := CST.need_pos l hwl
  have hnr := CST.need_pos r hwr
  simp only [CST.etoks, CST.spine, List.append_assoc, List.cons_append]
  have e1 : F + 1 + (l.spine + 1) = (F + 1) + 1 + l.spine := by omega
  rw [e1, ihl.2 (F + 1) (by omega) p1 _ (by omega)
    (by intro o r' e; cases e; left; omega)]
  simp only [denote]
  cases hl : denote l with
  | none => rfl
  | some a =>
    simp only [Option.bind_some]
    rw [loop_step F _ op _ p1 hp1 (by omega)]
    obtain ⟨G, hG⟩ : ∃ G, F = (G + 1) + 1 + r.spine := ⟨F - r.spine - 2, by omega⟩
    have hGn : r.need ≤ G + 1 := by omega
    rw [hG, ihr.2 (G + 1) hGn (Spec.Expr.prec op + 1) rest (by omega) (hstop.mono (by omega)), ← hG]
    cases hr : denote r with
    | none => rfl
    | some b =>
      simp only [Option.bind_some]
      rw [loop_stop _ _ _ _ hstop]
      simp only [Option.bind_some, apply_int op a b hop]
      cases binVal op a b <;> rfl

theorem refOK (c : CST) (hw : WFprec c) : RefOK c := by
  induction c with
  | num n => exact refOK_num n
  | signs ss e ih => simp only [WFprec] at hw; exact refOK_signs ss e hw.1 hw.2 (ih hw.2)
  | paren e ih => simp only [WFprec] at hw; exact refOK_paren e hw (ih hw)
  | bin op l r ihl ihr =>
    have hw' := hw
    simp only [WFprec] at hw'
    exact refOK_bin op l r hw (ihl hw'.2.1) (ihr hw'.2.2.1)

/-- **Part 3.** The reference evaluator computes the denotation of every precedence-well-formed
    tree from its token list. -/
theorem reference_eval_cst (c : CST) (hw : WFprec c) :
    Spec.Expr.eval c.etoks = (denote c).map Spec.Expr.V.int := by
  have h := (refOK c hw).2 (3 * c.etoks.length + 2 - c.spine)
    (by have := CST.need_spine_le c; rw [CST.etoks_length]; omega) 1 []
    (by cases c with
        | bin op l r => simp only [WFprec] at hw; have := prec_arith hw.1; simp only [CST.prec]; omega
        | _ => simp [CST.prec])
    (RStop_nil _)
  have hs : c.spine ≤ 3 * c.etoks.length + 2 := by
    have := CST.need_spine_le c; rw [CST.etoks_length]; omega
  have e : 3 * c.etoks.length + 2 - c.spine + 1 + c.spine = 3 * c.etoks.length + 3 := by omega
  rw [e, List.append_nil] at h
  unfold Spec.Expr.eval
  rw [h]
  cases denote c with
  | none => rfl
  | some v =>
    simp only [Option.bind_some, Option.map_some]
    obtain ⟨G, hG⟩ : ∃ G, 3 * c.etoks.length + 2 - c.spine = G + 1 :=
      ⟨3 * c.etoks.length + 2 - c.spine - 1, by
        have := CST.need_spine_le c; have := CST.need_pos c hw; rw [CST.etoks_length]; omega⟩
    rw [hG, loop_stop _ _ _ _ (RStop_nil _)]

/-- as gmars consumes it -/
theorem reference_evalInt_cst (c : CST) (hw : WFprec c) :
    Spec.Expr.evalInt c.etoks =
      (denote c).bind (fun v => if -2147483648 ≤ v ∧ v ≤ 2147483647 then some v else none) := by
  unfold Spec.Expr.evalInt
  rw [reference_eval_cst c hw]
  cases denote c <;> rfl

end Gmars.ExprProofs
