/-
  C07, part 4d: the Go scanner model `GoEval.scan` on the concatenated values of a token list
  whose neighbours cannot fuse yields one scanner token per gmars token.
-/
import Gmars.Proofs.ExprGoParse

namespace Gmars.ExprProofs
open Gmars.GoEval

/-! ## strings -/

theorem foldl_append_toList (l : List String) (acc : String) :
    (l.foldl (fun r s => r ++ s) acc).toList = acc.toList ++ l.flatMap String.toList := by
  induction l generalizing acc with
  | nil => simp
  | cons s l ih => simp [List.foldl_cons, ih, String.toList_append, List.append_assoc]

/-- the characters `go/types.Eval` receives -/
def tokChars (l : List Token) : List Char := l.flatMap (fun t => t.val.toList)

theorem join_toList (l : List Token) : (String.join (l.map (·.val))).toList = tokChars l := by
  unfold String.join tokChars
  rw [foldl_append_toList]
  simp [List.flatMap_map]

theorem tokChars_cons (t : Token) (l : List Token) : tokChars (t :: l) = t.val.toList ++ tokChars l := by
  simp [tokChars]

/-! ## decimal literals -/

theorem isDigit_eq (c : Char) : GoEval.isDigit c = GoStr.isDigit c := rfl

theorem toDigits_no_lead0 (n : Nat) : ∀ (x : Char) (xs : List Char), Nat.toDigits 10 n ≠ '0' :: x :: xs := by
  induction n using Nat.strongRecOn with
  | _ n ih =>
    intro x xs h
    by_cases hn : n < 10
    · rw [Nat.toDigits_of_lt_base hn] at h
      simp at h
    · have h1 : 0 < n / 10 := by omega
      have h2 : n % 10 < 10 := by omega
      have := Nat.toDigits_append_toDigits (b := 10) (n := n / 10) (d := n % 10) (by omega) h1 h2
      rw [show 10 * (n / 10) + n % 10 = n by omega] at this
      rw [← this] at h
      cases hq : Nat.toDigits 10 (n / 10) with
      | nil => exact GoStr.toDigits_ne_nil _ hq
      | cons a as =>
        rw [hq] at h
        simp only [List.cons_append, List.cons.injEq] at h
        cases as with
        | nil =>
          have hv := GoStr.digitsVal_toDigits (n / 10)
          rw [hq, h.1] at hv
          simp [GoStr.digitsVal] at hv
          omega
        | cons b bs => exact ih (n / 10) (by omega) b bs (by rw [hq, h.1])

theorem litVal_toDigits (n : Nat) : litVal (Nat.toDigits 10 n) = some n := by
  unfold litVal
  split
  · rename_i x xs h
    exact absurd h (toDigits_no_lead0 n _ _)
  · have := GoStr.digitsVal_toDigits n
    unfold GoStr.digitsVal at this
    rw [this]

/-! ## single scanner steps -/

theorem scan_num (f : Nat) (ds rest : List Char) (n : Nat) (hne : ds ≠ [])
    (hds : ∀ c ∈ ds, GoEval.isDigit c = true) (hlit : litVal ds = some n)
    (hrest : ∀ c r, rest = c :: r → GoEval.isDigit c = false) :
    scan (f + 1) (ds ++ rest) = (scan f rest).map (GTok.int n :: ·) := by
  have htw : (ds ++ rest).takeWhile GoEval.isDigit = ds := by
    rw [List.takeWhile_append_of_pos hds]
    cases rest with
    | nil => simp
    | cons c r => rw [List.takeWhile_cons_of_neg (by simp [hrest c r rfl])]; simp
  have hdw : (ds ++ rest).dropWhile GoEval.isDigit = rest := by
    rw [List.dropWhile_append_of_pos hds]
    cases rest with
    | nil => simp
    | cons c r => rw [List.dropWhile_cons_of_neg (by simp [hrest c r rfl])]
  cases ds with
  | nil => exact absurd rfl hne
  | cons d ds' =>
    rw [List.cons_append] at htw hdw ⊢
    rw [scan]
    simp only [hds d (by simp), if_true, htw, hdw, hlit]

theorem scan_lp (f : Nat) (rest : List Char) :
    scan (f + 1) ('(' :: rest) = (scan f rest).map (GTok.lparen :: ·) := by
  rw [scan]
  simp only [show GoEval.isDigit '(' = false from by decide, Bool.false_eq_true, if_false]

theorem scan_rp (f : Nat) (rest : List Char) :
    scan (f + 1) (')' :: rest) = (scan f rest).map (GTok.rparen :: ·) := by
  rw [scan]
  simp only [show GoEval.isDigit ')' = false from by decide, Bool.false_eq_true, if_false]

theorem scan_plus (f : Nat) (rest : List Char) (h1 : ∀ r, rest ≠ '+' :: r) (h2 : ∀ r, rest ≠ '=' :: r) :
    scan (f + 1) ('+' :: rest) = (scan f rest).map (GTok.op "+" :: ·) := by
  rw [scan]
  simp only [show GoEval.isDigit '+' = false from by decide, Bool.false_eq_true, if_false]

theorem scan_minus (f : Nat) (rest : List Char) (h1 : ∀ r, rest ≠ '-' :: r) (h2 : ∀ r, rest ≠ '=' :: r) :
    scan (f + 1) ('-' :: rest) = (scan f rest).map (GTok.op "-" :: ·) := by
  rw [scan]
  simp only [show GoEval.isDigit '-' = false from by decide, Bool.false_eq_true, if_false]

theorem scan_star (f : Nat) (rest : List Char) (h2 : ∀ r, rest ≠ '=' :: r) :
    scan (f + 1) ('*' :: rest) = (scan f rest).map (GTok.op "*" :: ·) := by
  rw [scan]
  simp only [show GoEval.isDigit '*' = false from by decide, Bool.false_eq_true, if_false]

theorem scan_slash (f : Nat) (rest : List Char) (h1 : ∀ r, rest ≠ '/' :: r) (h3 : ∀ r, rest ≠ '*' :: r)
    (h2 : ∀ r, rest ≠ '=' :: r) :
    scan (f + 1) ('/' :: rest) = (scan f rest).map (GTok.op "/" :: ·) := by
  rw [scan]
  simp only [show GoEval.isDigit '/' = false from by decide, Bool.false_eq_true, if_false]

theorem scan_percent (f : Nat) (rest : List Char) (h2 : ∀ r, rest ≠ '=' :: r) :
    scan (f + 1) ('%' :: rest) = (scan f rest).map (GTok.op "%" :: ·) := by
  rw [scan]
  simp only [show GoEval.isDigit '%' = false from by decide, Bool.false_eq_true, if_false]



/-! ## scanning a token list -/

/-- the tokens that occur in trees -/
def Printable (t : Token) : Prop :=
  (∃ n, t = numTok n) ∨ t = lpTok ∨ t = rpTok ∨ (t.typ = .symbol ∧ isArith t.val)

/-- the scanner token of a gmars token -/
def tokG (t : Token) : GTok :=
  match t.typ with
  | .number => .int (GoStr.digitsVal t.val.toList)
  | .parenL => .lparen
  | .parenR => .rparen
  | _ => .op t.val

/-- neighbours that the Go scanner keeps apart and reads as themselves: no two numbers, after an
    operator only a sign (so no `//`, `/*`), no `--`, no `++` -/
def ScanAdj (a b : Token) : Prop :=
  (a.typ = .number → b.typ ≠ .number) ∧ (a.typ = .symbol → b.typ = .symbol → isSign b = true) ∧
    ¬ (a.val = "-" ∧ b.val = "-") ∧ ¬ (a.val = "+" ∧ b.val = "+")

theorem digit_ne (c : Char) (h : GoStr.isDigit c = true) :
    c ≠ '=' ∧ c ≠ '+' ∧ c ≠ '-' ∧ c ≠ '*' ∧ c ≠ '/' := by
  refine ⟨?_, ?_, ?_, ?_, ?_⟩ <;> (rintro rfl; revert h; decide)

theorem printable_head (b : Token) (hb : Printable b) :
    ∃ c cs, b.val.toList = c :: cs ∧ c ≠ '=' ∧ (b.typ ≠ .number → GoEval.isDigit c = false) ∧
      (c = '+' → b.val = "+") ∧ (c = '-' → b.val = "-") ∧
      (c = '*' ∨ c = '/' → b.typ = .symbol ∧ isSign b = false) := by
  rcases hb with ⟨n, rfl⟩ | rfl | rfl | ⟨hs, ha⟩
  · have hne := GoStr.toDigits_ne_nil n
    cases hd : Nat.toDigits 10 n with
    | nil => exact absurd hd hne
    | cons c cs =>
      have hc := GoStr.toDigits_all_isDigit n c (by rw [hd]; simp)
      obtain ⟨h1, h2, h3, h4, h5⟩ := digit_ne c hc
      refine ⟨c, cs, by simp only [numTok]; rw [toString_toList, hd], h1, fun h => absurd rfl h,
        fun h => absurd h h2, fun h => absurd h h3, fun h => ?_⟩
      rcases h with h | h
      · exact absurd h h4
      · exact absurd h h5
  · exact ⟨'(', [], rfl, by decide, fun _ => by decide, by decide, by decide, by decide⟩
  · exact ⟨')', [], rfl, by decide, fun _ => by decide, by decide, by decide, by decide⟩
  · obtain ⟨typ, val⟩ := b
    simp only at hs ha
    subst hs
    rcases ha with h | h | h | h | h <;> subst h
    · exact ⟨'+', [], rfl, by decide, fun _ => by decide, by decide, by decide, by decide⟩
    · exact ⟨'-', [], rfl, by decide, fun _ => by decide, by decide, by decide, by decide⟩
    · exact ⟨'*', [], rfl, by decide, fun _ => by decide, by decide, by decide, by decide⟩
    · exact ⟨'/', [], rfl, by decide, fun _ => by decide, by decide, by decide, by decide⟩
    · exact ⟨'%', [], rfl, by decide, fun _ => by decide, by decide, by decide, by decide⟩

/-- what the scanner may see after token `t` -/
def HeadOK (t : Token) (rest : List Char) : Prop :=
  ∀ c cs, rest = c :: cs → c ≠ '=' ∧ (t.typ = .number → GoEval.isDigit c = false) ∧
    (t.val = "+" → c ≠ '+') ∧ (t.val = "-" → c ≠ '-') ∧ (t.typ = .symbol → c ≠ '*' ∧ c ≠ '/')

theorem headOK_of_chain (t : Token) (r : List Token) (hp : ∀ u ∈ r, Printable u)
    (hc : Chain ScanAdj (t :: r)) : HeadOK t (tokChars r) := by
  cases r with
  | nil => intro c cs e; simp [tokChars] at e
  | cons b r' =>
    obtain ⟨c, cs, hv, h1, h2, h3, h4, h5⟩ := printable_head b (hp b (by simp))
    obtain ⟨a1, a2, a3, a4⟩ := hc.1
    intro c' cs' e
    rw [tokChars_cons, hv, List.cons_append] at e
    obtain ⟨rfl, _⟩ := List.cons.inj e
    refine ⟨h1, fun ht => h2 (a1 ht), fun ht hc' => a4 ⟨ht, h3 hc'⟩, fun ht hc' => a3 ⟨ht, h4 hc'⟩, fun ht => ?_⟩
    refine ⟨fun hc' => ?_, fun hc' => ?_⟩
    · have := h5 (Or.inl hc'); rw [a2 ht this.1] at this; cases this.2
    · have := h5 (Or.inr hc'); rw [a2 ht this.1] at this; cases this.2

theorem tokG_numTok (n : Nat) : tokG (numTok n) = .int n := by
  simp only [tokG, numTok]
  rw [toString_toList, GoStr.digitsVal_toDigits]

theorem scan_step (f : Nat) (t : Token) (rest : List Char) (hp : Printable t) (hh : HeadOK t rest) :
    scan (f + 1) (t.val.toList ++ rest) = (scan f rest).map (tokG t :: ·) := by
  rcases hp with ⟨n, rfl⟩ | rfl | rfl | ⟨hs, ha⟩
  · rw [tokG_numTok]
    simp only [numTok]
    rw [toString_toList]
    exact scan_num f _ rest n (GoStr.toDigits_ne_nil n)
      (fun c hc => by rw [isDigit_eq]; exact GoStr.toDigits_all_isDigit n c hc) (litVal_toDigits n)
      (fun c r e => (hh c r e).2.1 rfl)
  · exact scan_lp f rest
  · exact scan_rp f rest
  · obtain ⟨typ, val⟩ := t
    simp only at hs ha
    subst hs
    have hne : ∀ x, (∀ c cs, rest = c :: cs → c ≠ x) → ∀ r, rest ≠ x :: r := by
      intro x h r e; exact h x r e rfl
    have heq := hne '=' (fun c cs e => (hh c cs e).1)
    rcases ha with h | h | h | h | h <;> subst h
    · exact scan_plus f rest (hne '+' (fun c cs e => (hh c cs e).2.2.1 rfl)) heq
    · exact scan_minus f rest (hne '-' (fun c cs e => (hh c cs e).2.2.2.1 rfl)) heq
    · exact scan_star f rest heq
    · exact scan_slash f rest (hne '/' (fun c cs e => ((hh c cs e).2.2.2.2 rfl).2))
        (hne '*' (fun c cs e => ((hh c cs e).2.2.2.2 rfl).1)) heq
    · exact scan_percent f rest heq

/-- **The Go scanner on the concatenated token values.** One scanner token per gmars token, as
    long as neighbours cannot fuse. -/
theorem scan_tokens (l : List Token) (hp : ∀ t ∈ l, Printable t) (hc : Chain ScanAdj l) :
    ∀ f, l.length ≤ f → scan f (tokChars l) = some (l.map tokG) := by
  induction l with
  | nil => intro f _; cases f <;> simp [tokChars, scan]
  | cons t r ih =>
    intro f hf
    obtain ⟨f, rfl⟩ : ∃ g, f = g + 1 := ⟨f - 1, by simp only [List.length_cons] at hf; omega⟩
    simp only [List.length_cons] at hf
    rw [tokChars_cons, scan_step f t _ (hp t (by simp)) (headOK_of_chain t r (fun u hu => hp u (by simp [hu])) hc),
      ih (fun u hu => hp u (by simp [hu])) hc.tail f (by omega)]
    rfl

end Gmars.ExprProofs
