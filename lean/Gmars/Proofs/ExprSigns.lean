/-
  C07, part 1: token level facts about `signRun`, `combineSigns` and `flipDoubleNegatives`.
-/
import Gmars.Model.Expr

namespace Gmars.ExprProofs

/-! ## adjacency chains -/

/-- every two adjacent elements are related -/
def Chain {α : Type} (R : α → α → Prop) : List α → Prop
  | [] => True
  | [_] => True
  | a :: b :: r => R a b ∧ Chain R (b :: r)

theorem Chain.tail {α : Type} {R : α → α → Prop} {a : α} {l : List α} (h : Chain R (a :: l)) : Chain R l := by
  cases l with
  | nil => trivial
  | cons b r => exact h.2

theorem Chain.cons {α : Type} {R : α → α → Prop} {a : α} {l : List α} (h : Chain R l)
    (hh : ∀ b r, l = b :: r → R a b) : Chain R (a :: l) := by
  cases l with
  | nil => trivial
  | cons b r => exact ⟨hh b r rfl, h⟩

theorem Chain.append {α : Type} {R : α → α → Prop} {l1 l2 : List α} (h1 : Chain R l1) (h2 : Chain R l2)
    (hj : ∀ a b, l1.getLast? = some a → l2.head? = some b → R a b) : Chain R (l1 ++ l2) := by
  induction l1 with
  | nil => simpa using h2
  | cons a l ih =>
    cases l with
    | nil =>
      simp only [List.cons_append, List.nil_append]
      exact h2.cons (fun b r e => hj a b (by simp) (by simp [e]))
    | cons b r =>
      simp only [List.cons_append]
      refine ⟨h1.1, ?_⟩
      have := ih h1.2 (fun x y hx hy => hj x y (by simpa [List.getLast?_cons_cons] using hx) hy)
      simpa using this

theorem Chain.and {α : Type} {R S : α → α → Prop} {l : List α} (h1 : Chain R l) (h2 : Chain S l) :
    Chain (fun a b => R a b ∧ S a b) l := by
  induction l with
  | nil => trivial
  | cons a l ih =>
    cases l with
    | nil => trivial
    | cons b r => exact ⟨⟨h1.1, h2.1⟩, ih h1.2 h2.2⟩

theorem Chain.imp {α : Type} {R S : α → α → Prop} {l : List α} (h : ∀ a b, R a b → S a b) (h1 : Chain R l) :
    Chain S l := by
  induction l with
  | nil => trivial
  | cons a l ih =>
    cases l with
    | nil => trivial
    | cons b r => exact ⟨h _ _ h1.1, ih h1.2⟩

/-! ## `signRun` -/

def minusTok : Token := { typ := .symbol, val := "-" }
def plusTok : Token := { typ := .symbol, val := "+" }

/-- parity of the minus signs of a list of sign tokens, starting from `b` -/
def minusParity (b : Bool) (ts : List Token) : Bool :=
  ts.foldl (fun p t => if t.val == "-" then !p else p) b

/-- `signRun` consumes exactly the maximal prefix of sign tokens and returns the parity of the
    minus signs in it -/
theorem signRun_eq (ts : List Token) (b : Bool) :
    signRun ts b = (minusParity b (ts.takeWhile isSign), ts.dropWhile isSign) := by
  induction ts generalizing b with
  | nil => rfl
  | cons t r ih =>
    unfold signRun
    by_cases h : isSign t = true
    · simp only [h, if_true, List.takeWhile_cons_of_pos, List.dropWhile_cons_of_pos, ih]
      rfl
    · simp only [h, Bool.false_eq_true, if_false, List.takeWhile_cons_of_neg, List.dropWhile_cons_of_neg,
        not_false_eq_true]
      rfl

theorem minusParity_count (ts : List Token) (b : Bool) :
    minusParity b ts = (b != decide (ts.countP (·.val == "-") % 2 = 1)) := by
  induction ts generalizing b with
  | nil => simp [minusParity]
  | cons t r ih =>
    unfold minusParity at ih ⊢
    rw [List.foldl_cons, ih, List.countP_cons]
    by_cases h : (t.val == "-") = true
    · simp only [h, if_true]
      rcases Nat.mod_two_eq_zero_or_one (List.countP (fun x => x.val == "-") r) with h' | h' <;>
        cases b <;> simp [h', Nat.add_mod]
    · simp only [h, Bool.false_eq_true, if_false, Nat.add_zero]

/-- `signRun` stops at the first token that is not a sign -/
theorem signRun_append (pre : List Token) (x : Token) (r : List Token) (b : Bool)
    (hpre : ∀ t ∈ pre, isSign t = true) (hx : isSign x = false) :
    signRun (pre ++ x :: r) b = (minusParity b pre, x :: r) := by
  rw [signRun_eq, List.takeWhile_append_of_pos hpre, List.dropWhile_append_of_pos hpre,
    List.takeWhile_cons_of_neg (by simp [hx]), List.dropWhile_cons_of_neg (by simp [hx]), List.append_nil]

theorem signRun_all (pre : List Token) (b : Bool) (hpre : ∀ t ∈ pre, isSign t = true) :
    signRun pre b = (minusParity b pre, []) := by
  have := List.takeWhile_append_of_pos (l₂ := []) hpre
  have h2 := List.dropWhile_append_of_pos (l₂ := []) hpre
  simp only [List.append_nil, List.takeWhile_nil, List.dropWhile_nil] at this h2
  rw [signRun_eq, this, h2]

/-- the rest returned by `signRun` never starts with a sign -/
theorem signRun_rest_head (ts : List Token) (b : Bool) (x : Token) (r : List Token)
    (h : (signRun ts b).2 = x :: r) : isSign x = false := by
  rw [signRun_eq] at h
  simp only at h
  have := List.head_dropWhile_not isSign (l := ts) (by rw [h]; simp)
  simpa [h] using this

/-! ## `combineSigns`: independence of the fuel, unfolding equations -/

theorem combineSignsAux_fuel (f1 f2 : Nat) (b : Bool) (ts : List Token)
    (h1 : ts.length < f1) (h2 : ts.length < f2) :
    combineSignsAux f1 b ts = combineSignsAux f2 b ts := by
  induction f1 generalizing f2 b ts with
  | zero => omega
  | succ f1 ih =>
    obtain ⟨f2, rfl⟩ : ∃ g, f2 = g + 1 := ⟨f2 - 1, by omega⟩
    cases ts with
    | nil => rfl
    | cons t r =>
      simp only [List.length_cons] at h1 h2
      unfold combineSignsAux
      cases b with
      | false =>
        simp only [Bool.false_eq_true, if_false]
        rw [ih f2 _ r (by omega) (by omega)]
      | true =>
        simp only [if_true]
        have hl := signRun_length (t :: r) false
        generalize signRun (t :: r) false = sr at hl
        obtain ⟨neg, rest⟩ := sr
        simp only at hl ⊢
        cases rest with
        | nil => rfl
        | cons x r' =>
          simp only [List.length_cons] at hl
          simp only
          rw [ih f2 _ r' (by omega) (by omega)]

/-- `combineSigns` continued in state `lastSym = b` -/
def CS (b : Bool) (ts : List Token) : List Token := combineSignsAux (ts.length + 1) b ts

theorem combineSigns_eq_CS (ts : List Token) : combineSigns ts = CS false ts := rfl

theorem CS_nil (b : Bool) : CS b [] = [] := rfl

theorem CS_false_cons (t : Token) (r : List Token) : CS false (t :: r) = t :: CS (t.typ == .symbol) r := by
  unfold CS
  rw [combineSignsAux]
  simp only [Bool.false_eq_true, if_false, List.length_cons]

theorem CS_true (ts : List Token) (hne : ts ≠ []) :
    CS true ts = (if (signRun ts false).1 then [minusTok] else []) ++
      match (signRun ts false).2 with
      | [] => []
      | x :: r' => x :: CS (x.typ == .symbol) r' := by
  cases ts with
  | nil => exact absurd rfl hne
  | cons t r =>
    unfold CS
    rw [combineSignsAux]
    simp only [if_true]
    have hl := signRun_length (t :: r) false
    generalize signRun (t :: r) false = sr at hl
    obtain ⟨neg, rest⟩ := sr
    simp only at hl ⊢
    cases rest with
    | nil => simp [minusTok]
    | cons x r' =>
      simp only [List.length_cons] at hl
      simp only [minusTok, List.length_cons]
      rw [combineSignsAux_fuel (r.length + 1) (r'.length + 1) _ r' (by omega) (by omega)]

/-- a folded sign run followed by a token that is not a sign -/
theorem CS_true_run (pre : List Token) (x : Token) (r : List Token)
    (hpre : ∀ t ∈ pre, isSign t = true) (hx : isSign x = false) :
    CS true (pre ++ x :: r) =
      (if minusParity false pre then [minusTok] else []) ++ x :: CS (x.typ == .symbol) r := by
  rw [CS_true _ (by simp), signRun_append pre x r false hpre hx]

/-! ## the invariant of the output of `combineSigns`

After a symbol token at most one sign token follows, and it is a minus. -/

/-- `prev` = "the previous token is a symbol" -/
def SignsFolded : Bool → List Token → Prop
  | _, [] => True
  | prev, t :: r =>
    (prev = true → isSign t = true → t.val = "-" ∧ ∀ u r', r = u :: r' → isSign u = false) ∧
      SignsFolded (t.typ == .symbol) r

theorem CS_signsFolded (n : Nat) : ∀ (b : Bool) (ts : List Token), ts.length ≤ n → SignsFolded b (CS b ts) := by
  induction n with
  | zero =>
    intro b ts h
    have : ts = [] := List.eq_nil_of_length_eq_zero (by omega)
    subst this; trivial
  | succ n ih =>
    intro b ts h
    cases ts with
    | nil => trivial
    | cons t r =>
      simp only [List.length_cons] at h
      cases b with
      | false =>
        rw [CS_false_cons]
        exact ⟨fun h => (by cases h), ih _ r (by omega)⟩
      | true =>
        rw [CS_true _ (by simp)]
        have hl := signRun_length (t :: r) false
        have hh := signRun_rest_head (t :: r) false
        generalize signRun (t :: r) false = sr at hl hh
        obtain ⟨neg, rest⟩ := sr
        simp only [List.length_cons] at hl hh ⊢
        cases rest with
        | nil =>
          cases neg with
          | false => trivial
          | true =>
            simp only [if_true, List.append_nil]
            exact ⟨fun _ _ => ⟨rfl, fun u r' e => by cases e⟩, trivial⟩
        | cons x r' =>
          have hx := hh x r' rfl
          simp only [List.length_cons] at hl
          have ihr := ih (x.typ == .symbol) r' (by omega)
          cases neg with
          | false =>
            simp only [Bool.false_eq_true, if_false, List.nil_append]
            exact ⟨fun _ h => (by rw [hx] at h; cases h), ihr⟩
          | true =>
            simp only [if_true, List.cons_append, List.nil_append]
            refine ⟨fun _ _ => ⟨rfl, fun u r'' e => by cases e; exact hx⟩, ?_⟩
            exact ⟨fun _ h => (by rw [hx] at h; cases h), ihr⟩

/-- **Invariant of `combineSigns`.** In its output, a sign token that directly follows a symbol
    token is a minus and is not followed by another sign token. -/
theorem combineSigns_signsFolded (ts : List Token) : SignsFolded false (combineSigns ts) :=
  CS_signsFolded ts.length false ts (Nat.le_refl _)

/-- `combineSigns` only copies tokens or inserts the symbol `-` -/
theorem CS_mem (n : Nat) : ∀ (b : Bool) (ts : List Token), ts.length ≤ n →
    ∀ t ∈ CS b ts, t ∈ ts ∨ t = minusTok := by
  induction n with
  | zero =>
    intro b ts h
    have : ts = [] := List.eq_nil_of_length_eq_zero (by omega)
    subst this; intro t ht; cases ht
  | succ n ih =>
    intro b ts h
    cases ts with
    | nil => intro t ht; cases ht
    | cons t r =>
      simp only [List.length_cons] at h
      cases b with
      | false =>
        rw [CS_false_cons]
        intro u hu
        rcases List.mem_cons.1 hu with rfl | hu
        · left; simp
        · rcases ih _ r (by omega) u hu with h | h
          · left; simp [h]
          · right; exact h
      | true =>
        rw [CS_true _ (by simp)]
        have hl := signRun_length (t :: r) false
        have hs : ∀ u ∈ (signRun (t :: r) false).2, u ∈ t :: r := by
          intro u hu; rw [signRun_eq] at hu; exact (List.dropWhile_sublist _).subset hu
        generalize signRun (t :: r) false = sr at hl hs
        obtain ⟨neg, rest⟩ := sr
        simp only at hl hs ⊢
        intro u hu
        rcases List.mem_append.1 hu with hu | hu
        · right; cases neg <;> simp_all
        · cases rest with
          | nil => cases hu
          | cons x r' =>
            simp only [List.length_cons] at hl
            rcases List.mem_cons.1 hu with rfl | hu
            · left; exact hs _ (by simp)
            · rcases ih _ r' (by omega) u hu with h | h
              · left; exact hs _ (by simp [h])
              · right; exact h

/-! ## `flipDoubleNegatives` -/

theorem flip_pair (a b : Token) (r : List Token) (ha : a.val = "-") (hb : b.val = "-") :
    flipDoubleNegatives (a :: b :: r) = plusTok :: flipDoubleNegatives r := by
  rw [flipDoubleNegatives]; simp [ha, hb, plusTok]

theorem flip_cons_of_ne (a : Token) (r : List Token) (ha : a.val ≠ "-") :
    flipDoubleNegatives (a :: r) = a :: flipDoubleNegatives r := by
  cases r with
  | nil => simp [flipDoubleNegatives]
  | cons b r => rw [flipDoubleNegatives]; simp [ha]

theorem flip_cons_cons_of_ne (a b : Token) (r : List Token) (hb : b.val ≠ "-") :
    flipDoubleNegatives (a :: b :: r) = a :: b :: flipDoubleNegatives r := by
  rw [flipDoubleNegatives]
  have : (a.val == "-" && b.val == "-") = false := by simp [hb]
  simp only [this, Bool.false_eq_true, if_false]
  rw [flip_cons_of_ne b r hb]

theorem flip_nil : flipDoubleNegatives [] = [] := by simp [flipDoubleNegatives]

/-- the head of a flipped list: a `+` produced from `--`, or the old head -/
theorem flip_head (ts : List Token) (y : Token) (r : List Token) (h : flipDoubleNegatives ts = y :: r) :
    (∃ r', ts = y :: r') ∨ (y = plusTok ∧ ∃ a b r', ts = a :: b :: r' ∧ a.val = "-" ∧ b.val = "-") := by
  cases ts with
  | nil => rw [flip_nil] at h; cases h
  | cons a l =>
    cases l with
    | nil => simp [flipDoubleNegatives] at h; left; exact ⟨[], by rw [h.1]⟩
    | cons b l =>
      by_cases hab : a.val = "-" ∧ b.val = "-"
      · rw [flip_pair a b l hab.1 hab.2] at h
        right; exact ⟨(List.cons.inj h).1.symm, a, b, l, rfl, hab.1, hab.2⟩
      · rw [flipDoubleNegatives] at h
        have : (a.val == "-" && b.val == "-") = false := by
          simp only [Bool.and_eq_false_imp, beq_iff_eq, beq_eq_false_iff_ne]; intro h1 h2; exact hab ⟨h1, h2⟩
        simp only [this, Bool.false_eq_true, if_false] at h
        left; exact ⟨l.cons b, by rw [(List.cons.inj h).1]⟩

/-- **`flipDoubleNegatives` leaves no two adjacent minus tokens.** -/
theorem flip_noMM (ts : List Token) :
    Chain (fun a b : Token => ¬ (a.val = "-" ∧ b.val = "-")) (flipDoubleNegatives ts) := by
  induction ts using flipDoubleNegatives.induct with
  | case1 a b r hab ih =>
    simp only [Bool.and_eq_true, beq_iff_eq] at hab
    rw [flip_pair a b r hab.1 hab.2]
    exact ih.cons (fun y r' _ h => by simp [plusTok] at h)
  | case2 a b r hab ih =>
    rw [flipDoubleNegatives]; simp only [hab]
    refine ih.cons (fun y r' e h => ?_)
    rcases flip_head _ _ _ e with ⟨r'', e'⟩ | ⟨rfl, _⟩
    · cases e'
      exact hab (by simp [h.1, h.2])
    · simp [plusTok] at h
  | case3 l hl =>
    cases l with
    | nil => rw [flip_nil]; trivial
    | cons a l =>
      cases l with
      | nil => simp [flipDoubleNegatives]; trivial
      | cons b l => exact absurd rfl (hl a b l)

/-- on a list whose signs are folded (and are symbols), `flipDoubleNegatives` creates no two
    adjacent plus tokens -/
theorem flip_noPP (ts : List Token) (prev : Bool) (hf : SignsFolded prev ts)
    (hsym : ∀ t ∈ ts, isSign t = true → t.typ = .symbol) :
    Chain (fun a b : Token => ¬ (a.val = "+" ∧ b.val = "+")) (flipDoubleNegatives ts) := by
  induction ts using flipDoubleNegatives.induct generalizing prev with
  | case1 a b r hab ih =>
    simp only [Bool.and_eq_true, beq_iff_eq] at hab
    rw [flip_pair a b r hab.1 hab.2]
    have hb := hf.2.1
    have hta : (a.typ == .symbol) = true := by
      simp [hsym a (by simp) (by simp [isSign, hab.1])]
    have hbs : isSign b = true := by simp [isSign, hab.2]
    have hnext := (hb hta hbs).2
    refine (ih _ hf.2.2 (fun t ht => hsym t (by simp [ht]))).cons (fun y r' e h => ?_)
    rcases flip_head _ _ _ e with ⟨r'', e'⟩ | ⟨_, a', b', r'', e', ha', _⟩
    · have := hnext y r'' e'
      simp [isSign, h.2] at this
    · have := hnext a' _ e'
      simp [isSign, ha'] at this
  | case2 a b r hab ih =>
    rw [flipDoubleNegatives]; simp only [hab]
    refine (ih _ hf.2 (fun t ht => hsym t (by simp [ht]))).cons (fun y r' e h => ?_)
    have hta : (a.typ == .symbol) = true := by
      simp [hsym a (by simp) (by simp [isSign, h.1])]
    rcases flip_head _ _ _ e with ⟨r'', e'⟩ | ⟨_, a', b', r'', e', ha', hb'⟩
    · cases e'
      have := (hf.2.1 hta (by simp [isSign, h.2])).1
      rw [h.2] at this; exact absurd this (by decide)
    · cases e'
      have := (hf.2.1 hta (by simp [isSign, ha'])).2 _ _ rfl
      simp [isSign, hb'] at this
  | case3 l hl =>
    cases l with
    | nil => rw [flip_nil]; trivial
    | cons a l =>
      cases l with
      | nil => simp [flipDoubleNegatives]; trivial
      | cons b l => exact absurd rfl (hl a b l)

end Gmars.ExprProofs
