/-
  Limit folding: the UInt64 computation of sim.go agrees with the reference
  `Spec.fold` on naturals, and its range (the arithmetic heart of C11).
-/
import Gmars.Model.Sim
import Gmars.Spec.ICWS94

namespace Gmars

/-- the common shape of `readFold` / `writeFold` -/
def foldU (p L m : UInt64) : UInt64 :=
  let res := p % L
  if res > L / 2 then res + (m - L) else res

theorem Sim.readFold_eq (s : Sim) (p : UInt64) : s.readFold p = foldU p s.readLimit s.m := rfl
theorem Sim.writeFold_eq (s : Sim) (p : UInt64) : s.writeFold p = foldU p s.writeLimit s.m := rfl

theorem foldU_toNat (p L m : UInt64) (hL : 0 < L.toNat) (hLM : L.toNat ≤ m.toNat) :
    (foldU p L m).toNat = Spec.fold p.toNat L.toNat m.toNat := by
  unfold foldU Spec.fold
  have hlt : p.toNat % L.toNat < L.toNat := Nat.mod_lt _ hL
  have hm : m.toNat < 2 ^ 64 := m.toNat_lt
  have hsub : (m - L).toNat = m.toNat - L.toNat := UInt64.toNat_sub_of_le _ _ (UInt64.le_iff_toNat_le.mpr hLM)
  simp only [GT.gt, UInt64.lt_iff_toNat_lt, UInt64.toNat_div, UInt64.toNat_mod, UInt64.toNat_ofNat]
  have h2 : (2 : UInt64).toNat = 2 := rfl
  split
  · rename_i h
    rw [UInt64.toNat_add, hsub, UInt64.toNat_mod]
    rw [Nat.mod_eq_of_lt (by omega)]
    omega
  · simp [UInt64.toNat_mod]

namespace Spec

theorem fold_lt (p L M : Nat) (hL : 0 < L) (hLM : L ≤ M) : fold p L M < M := by
  unfold fold
  have := Nat.mod_lt p hL
  simp only
  split <;> omega

/-- a folded pointer is at most `L/2` ahead of, or at most `L/2` behind, the base -/
theorem fold_range (p L M : Nat) (hL : 0 < L) (hLM : L ≤ M) :
    fold p L M ≤ L / 2 ∨ (fold p L M < M ∧ M - fold p L M ≤ L / 2) := by
  unfold fold
  have := Nat.mod_lt p hL
  simp only
  split
  · right; omega
  · left; omega

/-- with a limit equal to the core size folding is reduction modulo the core size -/
theorem fold_full (p M : Nat) : fold p M M = p % M := by
  unfold fold
  simp only
  split <;> omega

end Spec

theorem foldU_lt (p L m : UInt64) (hL : 0 < L.toNat) (hLM : L.toNat ≤ m.toNat) : foldU p L m < m := by
  rw [UInt64.lt_iff_toNat_lt, foldU_toNat p L m hL hLM]
  exact Spec.fold_lt _ _ _ hL hLM

end Gmars
