/-
  C08 "FOR/ROF blocks assemble exactly like their manual unrolling".

  Main results (all about the frozen models in Gmars/Model/ForExpand.lean and Assemble.lean):

  * `expand_pass`   : one pass of the FOR expander (`forExpandWith`) sends the FOR-free lines in
                      front through, replaces the first outermost block by its manual unrolling
                      (`Block.unrolled`) and sends the rest of the stream through. The body may
                      contain complete inner blocks (`Balanced`): they are copied, with the
                      counter substituted, to be expanded by later passes.
  * `expand_single` : the case of a body of plain instruction lines.
  * `expand_zero`   : count ≤ 0: only the renamed line labels of the FOR line are left
                      (`expand_zero_nolabels`: nothing is left when there are none).
  * `forLoop_noForTok`, `forLoop_forFree`, `forLoop_end` : FOR-free programs pass the loop
                      `forLoop` unchanged, with zero expansion passes (scanner part:
                      `scan_noForTok`, `scan_forFree`, `scan_for`, `scan_end` in ForPassScan.lean).
  * `for_unroll_partial` : a chain of k ≤ 12 manual unrolling steps (`UnrollStep`, each one
                      expanding the first outermost block) ending in a FOR-free program is what
                      `forLoop` computes; `for_unroll_too_deep`: a 13th step is an error.
  * `Block.lines_balanced`, `Balanced.append` : complete blocks and their concatenations are
                      bodies of blocks (nesting).

  Whole structured programs: Gmars/Proofs/ForUnroll.lean (`for_unroll_full`).
-/
import Gmars.Proofs.ForPassExpand
import Gmars.Proofs.ForPassInner
import Gmars.Proofs.ForPassScan

namespace Gmars
namespace ForPass

open ForExpand

/-! ## 1. blocks -/

/-- one FOR block: `labels… ctr for count… \n body-lines… [labels…] rof … \n` -/
structure Block where
  labels : List Token      -- the line labels in front of the counter
  ctr : Token              -- the counter
  forTok : Token           -- `for`
  count : List Token       -- the count expression (and comments) up to the newline
  nl : Token               -- the newline of the FOR line
  body : List Line         -- the body: complete lines
  rofLine : Line           -- the closing line: `rof` and whatever follows it on the line
  deriving Repr

/-- the FOR line -/
def Block.header (b : Block) : List Token :=
  b.labels ++ b.ctr :: b.forTok :: (b.count ++ [b.nl])

/-- the token stream of the block -/
def Block.flat (b : Block) : List Token := b.header ++ (ForPass.flat b.body ++ b.rofLine.flat)

structure Block.WF (b : Block) : Prop where
  labels : ∀ x ∈ b.labels, isLabelTok x = true
  ctr : isLabelTok b.ctr = true
  forTyp : b.forTok.typ = .text
  forVal : lowerStr b.forTok.val = "for"
  count : ∀ x ∈ b.count, InLine x
  nl : b.nl.typ = .newline
  body : ∀ l ∈ b.body, l.WF
  balanced : Balanced b.body
  rofWF : b.rofLine.WF
  rofKind : lineKind b.rofLine.toks = .rof

/-- the context of the expansion: counter name, line labels, count -/
def Block.ctx (b : Block) (n : Int) : Ctx := mkCtx (b.labels.map (·.val)) b.ctr.val n

/-- the renamed line labels `__for_<ctr>_<label>`: written once, in front of the expansion,
    if the body has a line with an opcode -/
def Block.renamed (b : Block) : List Token :=
  if hasOpLine b.body then labelToks ((b.labels.map (·.val)).map (forLabel b.ctr.val)) else []

/-- the manual unrolling of the block for the count `n`: the renamed labels, then iterations
    1..n of the body with counter and line labels substituted -/
def Block.unrolled (b : Block) (n : Int) : List Token :=
  b.renamed ++ repeated (b.ctx n) (bodyContent b.body) n.toNat

/-- the terminator as it is received: a tokEOF is replaced by the `token{tokEOF, ""}` of
    `run()`, a tokError is passed on -/
def endTok (z : Token) : Token := if z.typ = .eof then { typ := .eof, val := "" } else z

theorem endTok_isTerm {z : Token} (h : z.isTerm = true) : (endTok z).isTerm = true := by
  unfold endTok; split
  · rfl
  · exact h

theorem exists_cons (a : List Token) (x : Token) (r : List Token) :
    ∃ y ys, a ++ x :: r = y :: ys := by
  cases a with
  | nil => exact ⟨_, _, rfl⟩
  | cons b bs => exact ⟨_, _, rfl⟩

theorem bodyContent_noTerm {ls : List Line} (h : ∀ l ∈ ls, l.WF) :
    ∀ t ∈ bodyContent ls, t.isTerm = false := by
  apply flat_inLine_or_nl
  intro l hl
  simp only [List.mem_map] at hl
  obtain ⟨l0, hl0, rfl⟩ := hl
  have hw := h l0 hl0
  refine ⟨hw.1, ?_⟩
  intro t ht
  apply hw.2
  simp only [Line.norm, lineContent] at ht
  split at ht
  · exact (List.dropWhile_sublist _).subset ht
  · exact ht

theorem Block.unrolled_noTerm (b : Block) (n : Int) (hb : b.WF) :
    ∀ t ∈ b.unrolled n, t.isTerm = false := by
  intro t ht
  simp only [Block.unrolled, List.mem_append] at ht
  rcases ht with ht | ht
  · unfold Block.renamed at ht
    split at ht
    · exact labelToks_noTerm _ t ht
    · cases ht
  · exact repeated_noTerm _ _ _ (bodyContent_noTerm hb.body) t ht

/-! ## 2. the block, from `forLine` to `forEmitConsumeStream` -/

theorem runLine_block (e : List Token → SymTab → EvalRes) (syms : SymTab) (b : Block)
    (hb : b.WF) (n : Int) (hev : e (exprToks b.count) syms = .ok n)
    (t : Token) (r : List Token) (o : Out) :
    runLine e syms (b.flat ++ t :: r) o = runECS (t :: r) (emits o (b.unrolled n)) := by
  -- the FOR line
  have hlab : ∀ x ∈ b.labels ++ [b.ctr], isLabelTok x = true := by
    intro x hx
    rcases List.mem_append.1 hx with h | h
    · exact hb.labels x h
    · rw [List.mem_singleton.1 h]; exact hb.ctr
  obtain ⟨y2, ys2, h2⟩ := exists_cons (ForPass.flat b.body ++ b.rofLine.flat) t r
  obtain ⟨y3, ys3, h3⟩ := exists_cons b.rofLine.flat t r
  have hflat : b.flat ++ t :: r =
      (b.labels ++ [b.ctr]) ++ b.forTok :: (b.count ++ b.nl :: y2 :: ys2) := by
    rw [← h2]; simp [Block.flat, Block.header]
  obtain ⟨y1, ys1, h1⟩ := exists_cons (b.count) b.nl (y2 :: ys2)
  have hhead : ∃ a as, b.flat ++ t :: r = a :: as ∧ a.typ = .text := by
    rw [hflat]
    cases hl : b.labels with
    | nil => exact ⟨_, _, rfl, (isLabelTok_iff.1 hb.ctr).1⟩
    | cons a as =>
      exact ⟨a, _, rfl, (isLabelTok_iff.1 (hb.labels a (by rw [hl]; exact List.mem_cons_self ..))).1⟩
  obtain ⟨a, as, ha, hatext⟩ := hhead
  have step1 : runLine e syms (b.flat ++ t :: r) o = runCL e syms (b.flat ++ t :: r) [] o := by
    rw [ha]; simp [runLine, runCL, forLine, hatext]
  rw [step1, hflat, h1, runCL_for e syms _ _ _ _ _ _ hlab hb.forTyp hb.forVal, ← h1,
    runCE_count e syms _ _ _ _ _ _ _ hb.count hb.nl]
  have hexpr : ∀ x ∈ exprToks b.count, x.isTerm = false := by
    intro x hx
    exact (hb.count x (List.mem_filter.1 hx).1).isTerm
  simp only [List.nil_append, List.map_append, List.map_cons, List.map_nil]
  rw [forFor_ok e syms _ _ _ _ _ _ n hexpr hev]
  -- the body
  have hbody := runIL_body (b.ctx n) b.body y3 ys3
    { toWrite := (b.labels.map (·.val)).map (forLabel b.ctr.val), out := o } hb.body hb.balanced.1
  rw [← h3, ← List.append_assoc, h2] at hbody
  rw [runIL] at hbody
  rw [Block.ctx] at hbody
  rw [hbody]
  -- the closing line
  rw [runIL_close _ b.rofLine t r _ hb.rofWF hb.rofKind
    (by rw [foldl_stepInner_depth]; exact hb.balanced.2)]
  rw [expand_eq, foldl_stepInner_content, foldl_stepInner_out]
  simp only [Block.unrolled, Block.renamed, emits_append, mkCtx]
  congr 1
  split
  · simp [emitLabels_eq, Block.ctx, mkCtx]
  · simp [Block.ctx, mkCtx]

/-! ## 3. one pass -/

theorem Block.flat_noTerm (b : Block) (hb : b.WF) : ∀ t ∈ b.flat, t.isTerm = false := by
  intro t ht
  have hlabel : ∀ x : Token, isLabelTok x = true → x.isTerm = false := fun x hx =>
    isTerm_eq_false.2 (by rw [(isLabelTok_iff.1 hx).1]; simp)
  simp only [Block.flat, Block.header, List.mem_append, List.mem_cons, List.not_mem_nil,
    or_false, Line.flat] at ht
  rcases ht with (ht | ht | ht | ht | ht) | ht | ht | ht
  · exact hlabel t (hb.labels t ht)
  · rw [ht]; exact hlabel _ hb.ctr
  · rw [ht]; exact isTerm_eq_false.2 (by rw [hb.forTyp]; simp)
  · exact (hb.count t ht).isTerm
  · rw [ht]; exact isTerm_eq_false.2 (by rw [hb.nl]; simp)
  · exact flat_inLine_or_nl hb.body t ht
  · exact (hb.rofWF.2 t ht).isTerm
  · rw [ht]; exact isTerm_eq_false.2 (by rw [hb.rofWF.1]; simp)

theorem Block.flat_ne_nil (b : Block) : b.flat ≠ [] := by
  simp [Block.flat, Block.header]

theorem emit_done (o : Out) (t : Token) (h : o.done = true) : o.emit t = o := by
  simp [Out.emit, h]

/-- the closing tokEOF of `run()` and the list `Tokens()` receives -/
theorem finish (L : List Token) (z : Token) (hL : ∀ t ∈ L, t.isTerm = false)
    (hz : z.isTerm = true) :
    let oR : Out := if z.typ = .eof then emits {} L else emits {} (L ++ [z])
    let o := oR.emit { typ := .eof, val := "" }
    received o.toks.toList = L ++ [endTok z] ∧ o.unmodelled = false := by
  intro oR o
  have hd0 : ({} : Out).done = false := rfl
  have hdL := emits_noTerm_done {} L hd0 hL
  have htL := emits_noTerm_toks {} L hd0 hL
  have hemit : ∀ t : Token, ((emits {} L).emit t).toks.toList = L ++ [t] ∧
      ((emits {} L).emit t).done = t.isTerm := by
    intro t
    simp only [Out.emit, hdL]
    simpa using htL
  have hu : o.unmodelled = false := by
    have h1 : ∀ (o' : Out) (t : Token), (o'.emit t).unmodelled = o'.unmodelled := by
      intro o' t; unfold Out.emit; split <;> rfl
    have h2 : oR.unmodelled = false := by
      simp only [oR]; split <;> rw [emits_unmodelled] <;> rfl
    simp only [o, h1, h2]
  refine ⟨?_, hu⟩
  by_cases hze : z.typ = .eof
  · have : o.toks.toList = L ++ [endTok z] := by
      simp only [o, oR, hze, if_true, endTok]
      exact (hemit _).1
    rw [this]
    exact received_append_term _ _ hL (endTok_isTerm hz)
  · have : o.toks.toList = L ++ [endTok z] := by
      simp only [o, oR, hze, if_false, endTok, emits_snoc]
      rw [emit_done _ _ (by rw [(hemit z).2]; exact hz)]
      exact (hemit z).1
    rw [this]
    exact received_append_term _ _ hL (endTok_isTerm hz)

/-- `expand_pass`: FOR-free lines `pre`, one block `b` whose count evaluates to `n`, then an
    arbitrary stream `q ++ z :: rest` whose first terminator is `z`. One pass of the expander
    sends `pre` through, replaces the block by its manual unrolling, and sends `q` and the
    terminator through (whatever follows the first terminator is never read). -/
theorem expand_pass (e : List Token → SymTab → EvalRes) (syms : SymTab)
    (pre : List Line) (b : Block) (q : List Token) (z : Token) (rest : List Token) (n : Int)
    (hpre : ∀ l ∈ pre, l.WF) (hpass : ∀ l ∈ pre, PassLine l.toks) (hb : b.WF)
    (hq : ∀ x ∈ q, x.isTerm = false) (hz : z.isTerm = true)
    (hev : e (exprToks b.count) syms = .ok n) :
    forExpandWith e (flat pre ++ b.flat ++ q ++ z :: rest) syms =
      .ok (some (flat pre ++ b.unrolled n ++ q ++ [endTok z]), false) := by
  obtain ⟨t, r, htr⟩ := exists_cons q z rest
  have hts : flat pre ++ b.flat ++ q ++ z :: rest = flat pre ++ (b.flat ++ t :: r) := by
    rw [← htr]; simp
  obtain ⟨y, ys, hy⟩ : ∃ y ys, flat pre ++ (b.flat ++ t :: r) = y :: ys ∧ y.isTerm = false := by
    have hne : flat pre ++ b.flat ≠ [] := by simp [Block.flat_ne_nil]
    cases hpb : flat pre ++ b.flat with
    | nil => exact absurd hpb hne
    | cons y ys =>
      refine ⟨y, ys ++ t :: r, by rw [← List.append_assoc, hpb]; rfl, ?_⟩
      have : y ∈ flat pre ++ b.flat := by rw [hpb]; exact List.mem_cons_self ..
      rcases List.mem_append.1 this with h | h
      · exact flat_inLine_or_nl hpre y h
      · exact b.flat_noTerm hb y h
  have hrun : runLine e syms (y :: ys) {} =
      .ok (if z.typ = .eof then emits {} (flat pre ++ b.unrolled n ++ q)
           else emits {} ((flat pre ++ b.unrolled n ++ q) ++ [z])) := by
    obtain ⟨y', ys', hy'⟩ := exists_cons b.flat t r
    rw [← hy.1, hy', runLine_passLines e syms pre y' ys' {} hpre hpass, ← hy',
      runLine_block e syms b hb n hev, ← htr, runECS_stream q z rest _ hq hz]
    simp only [emits_append]
  have hL : ∀ x ∈ flat pre ++ b.unrolled n ++ q, x.isTerm = false := by
    intro x hx
    rcases List.mem_append.1 hx with hx | hx
    · rcases List.mem_append.1 hx with hx | hx
      · exact flat_inLine_or_nl hpre x hx
      · exact b.unrolled_noTerm n hb x hx
    · exact hq x hx
  have hfin := finish _ z hL hz
  simp only at hfin
  rw [hts, hy.1]
  unfold forExpandWith sendsWith
  simp only [hy.2, Bool.false_eq_true, ↓reduceIte]
  rw [runLine] at hrun
  rw [hrun]
  simp only [Except.map, hfin.1, hfin.2]

/-! ## 4. special cases of `expand_pass` -/

/-- a simple body line: an opcode first (so no labels), then in-line tokens -/
def SimpleLine (l : Line) : Prop :=
  l.WF ∧ ∃ op args, l.toks = op :: args ∧ op.typ = .text ∧ op.isOp = true ∧ op.isPseudoOp = false

theorem SimpleLine.kind {l : Line} (h : SimpleLine l) : lineKind l.toks = .op := by
  obtain ⟨_, op, args, e, h1, h2, h3⟩ := h
  rw [e]; simp [lineKind, h1, h2, h3]

theorem noClose_of_no_rof (d : Nat) (ls : List Line) (h : ∀ l ∈ ls, lineKind l.toks = .op) :
    NoClose d ls ∧ depthAfter d ls = d := by
  induction ls generalizing d with
  | nil => exact ⟨trivial, rfl⟩
  | cons l ls ih =>
    have hk := h l (List.mem_cons_self ..)
    have := ih d (fun l' h' => h l' (List.mem_cons_of_mem _ h'))
    refine ⟨⟨by rw [hk]; simp, ?_⟩, ?_⟩
    · rw [hk]; exact this.1
    · simp only [depthAfter, List.foldl_cons, hk, kindDepth]; exact this.2

theorem simple_balanced (ls : List Line) (h : ∀ l ∈ ls, SimpleLine l) : Balanced ls :=
  noClose_of_no_rof 0 ls (fun l hl => (h l hl).kind)

theorem lineContent_of_not_rof {l : List Token} (h : lineKind l ≠ .rof) : lineContent l = l := by
  simp [lineContent, h]

/-- a body whose `rof` lines carry no labels is copied as it is -/
theorem bodyContent_verbatim (ls : List Line)
    (h : ∀ l ∈ ls, lineKind l.toks = .rof → ∀ x ∈ l.toks.head?, isLabelTok x = false) :
    bodyContent ls = flat ls := by
  induction ls with
  | nil => rfl
  | cons l ls ih =>
    have hl : l.norm = l := by
      have hc : lineContent l.toks = l.toks := by
        unfold lineContent
        split
        · rename_i hk
          have := h l (List.mem_cons_self ..) hk
          cases hlt : l.toks with
          | nil => rfl
          | cons a as =>
            rw [hlt] at this
            have ha := this a (by simp)
            simp [ha]
        · rfl
      unfold Line.norm
      rw [hc]
    simp only [bodyContent, List.map_cons, flat_cons, hl] at ih ⊢
    rw [ih (fun l' h' => h l' (List.mem_cons_of_mem _ h'))]

theorem simple_bodyContent (ls : List Line) (h : ∀ l ∈ ls, SimpleLine l) :
    bodyContent ls = flat ls :=
  bodyContent_verbatim ls (fun l hl hk => by rw [(h l hl).kind] at hk; cases hk)

theorem simple_hasOpLine (ls : List Line) (h : ∀ l ∈ ls, SimpleLine l) :
    hasOpLine ls = !ls.isEmpty := by
  cases ls with
  | nil => rfl
  | cons l ls => simp [hasOpLine, (h l (List.mem_cons_self ..)).kind]

/-- the manual unrolling of a simple block: the renamed line labels (if the body is not
    empty), then for i = 1..n the body lines with counter and line labels substituted -/
def simpleUnrolled (b : Block) (n : Nat) : List Token :=
  (if b.body.isEmpty then [] else
    labelToks ((b.labels.map (·.val)).map (forLabel b.ctr.val))) ++
  (List.range n).flatMap (fun k => (flat b.body).map (substTok (b.ctx n) (k + 1)))

/-- **expand_single**: one simple block (every body line starts with an opcode), FOR-free
    lines in front, an arbitrary terminated stream behind -/
theorem expand_single (e : List Token → SymTab → EvalRes) (syms : SymTab)
    (pre : List Line) (b : Block) (q : List Token) (z : Token) (rest : List Token) (n : Nat)
    (hpre : ∀ l ∈ pre, l.WF) (hpass : ∀ l ∈ pre, PassLine l.toks) (hb : b.WF)
    (hsimple : ∀ l ∈ b.body, SimpleLine l)
    (hq : ∀ x ∈ q, x.isTerm = false) (hz : z.isTerm = true)
    (hev : e (exprToks b.count) syms = .ok (n : Int)) :
    forExpandWith e (flat pre ++ b.flat ++ q ++ z :: rest) syms =
      .ok (some (flat pre ++ simpleUnrolled b n ++ q ++ [endTok z]), false) := by
  rw [expand_pass e syms pre b q z rest n hpre hpass hb hq hz hev]
  have : b.unrolled (n : Int) = simpleUnrolled b n := by
    unfold Block.unrolled Block.renamed simpleUnrolled repeated iteration
    rw [simple_bodyContent _ hsimple, simple_hasOpLine _ hsimple]
    cases b.body.isEmpty <;> simp
  rw [this]

/-- the substitution of `substTok`, spelled out -/
theorem substTok_spec (c : Ctx) (i : Nat) (t : Token) :
    substTok c i t =
      if t.typ = .text ∧ t.val = c.forCountLabel then { typ := .number, val := toString i }
      else if t.typ = .text ∧ t.val ∈ c.forLineLabels then
        { typ := .text, val := "__for_" ++ c.forCountLabel ++ "_" ++ t.val }
      else t := by
  unfold substTok forLabel
  by_cases h1 : t.typ = .text <;> by_cases h2 : t.val = c.forCountLabel <;>
    by_cases h3 : t.val ∈ c.forLineLabels <;> simp [h1, h2, h3]

/-- **expand_zero**: a count `n ≤ 0` leaves only the renamed line labels of the block (and
    nothing at all when the FOR line has no line labels or the body has no opcode line) -/
theorem unrolled_zero (b : Block) (n : Int) (hn : n ≤ 0) : b.unrolled n = b.renamed := by
  have : n.toNat = 0 := by omega
  simp [Block.unrolled, repeated, this]

theorem renamed_nil_of_no_labels (b : Block) (h : b.labels = []) : b.renamed = [] := by
  simp [Block.renamed, h, labelToks]

theorem expand_zero (e : List Token → SymTab → EvalRes) (syms : SymTab)
    (pre : List Line) (b : Block) (q : List Token) (z : Token) (rest : List Token) (n : Int)
    (hpre : ∀ l ∈ pre, l.WF) (hpass : ∀ l ∈ pre, PassLine l.toks) (hb : b.WF)
    (hq : ∀ x ∈ q, x.isTerm = false) (hz : z.isTerm = true)
    (hev : e (exprToks b.count) syms = .ok n) (hn : n ≤ 0) :
    forExpandWith e (flat pre ++ b.flat ++ q ++ z :: rest) syms =
      .ok (some (flat pre ++ b.renamed ++ q ++ [endTok z]), false) := by
  rw [expand_pass e syms pre b q z rest n hpre hpass hb hq hz hev, unrolled_zero b n hn]

theorem expand_zero_nolabels (e : List Token → SymTab → EvalRes) (syms : SymTab)
    (pre : List Line) (b : Block) (q : List Token) (z : Token) (rest : List Token) (n : Int)
    (hpre : ∀ l ∈ pre, l.WF) (hpass : ∀ l ∈ pre, PassLine l.toks) (hb : b.WF)
    (hq : ∀ x ∈ q, x.isTerm = false) (hz : z.isTerm = true)
    (hev : e (exprToks b.count) syms = .ok n) (hn : n ≤ 0) (hl : b.labels = []) :
    forExpandWith e (flat pre ++ b.flat ++ q ++ z :: rest) syms =
      .ok (some (flat pre ++ q ++ [endTok z]), false) := by
  rw [expand_zero e syms pre b q z rest n hpre hpass hb hq hz hev hn,
    renamed_nil_of_no_labels b hl, List.append_nil]

/-! ## 5. the pass loop -/

/-- a program the scanner finds FOR-free is returned unchanged, after zero expansion passes -/
theorem forLoop_done (fuel depth : Nat) (ts : List Token) (syms : SymTab)
    (h : scanInput ts = .ok (some (syms, false))) : forLoop (fuel + 1) depth ts = .ok ts := by
  simp [forLoop, h]

/-- **scan_forFree / forLoop (token form)**: a terminated token list without any `for` token
    is returned unchanged, unless the scanner reports a redefined symbol -/
theorem forLoop_noForTok (fuel depth : Nat) (ts : List Token) (hnf : NoForTok ts)
    (hterm : HasTerm ts) :
    (∃ syms, scanInput ts = .ok (some (syms, false)) ∧ forLoop (fuel + 1) depth ts = .ok ts) ∨
    (scanInput ts = .ok none ∧ forLoop (fuel + 1) depth ts = .error .err) := by
  obtain ⟨h1, h2⟩ := scan_noForTok ts hnf
  cases hs : scanInput ts with
  | error f => exact absurd hs (h2 hterm f)
  | ok res =>
    cases res with
    | none => right; exact ⟨rfl, by simp [forLoop, hs]⟩
    | some p =>
      obtain ⟨syms, b⟩ := p
      cases b with
      | true => exact absurd hs (h1 syms)
      | false => left; exact ⟨syms, rfl, forLoop_done fuel depth ts syms hs⟩

/-- **scan_forFree / forLoop (line form)**: FOR-free lines and a terminator -/
theorem forLoop_forFree (fuel depth : Nat) (ls : List Line) (z : Token) (rest : List Token)
    (syms : SymTab) (hwf : ∀ l ∈ ls, l.WF) (hpre : ScanPre ls [] syms) (hz : z.isTerm = true) :
    forLoop (fuel + 1) depth (flat ls ++ z :: rest) = .ok (flat ls ++ z :: rest) :=
  forLoop_done fuel depth _ syms (scan_forFree ls z rest syms hwf hpre hz)

/-- FOR-free lines up to an END line: returned unchanged, whatever follows the `end` -/
theorem forLoop_end (fuel depth : Nat) (ls : List Line) (lbls : List Token) (f : Token)
    (rest : List Token) (syms : SymTab) (hwf : ∀ l ∈ ls, l.WF) (hpre : ScanPre ls [] syms)
    (hl : ∀ x ∈ lbls, isLabelTok x = true) (h1 : f.typ = .text) (h3 : lowerStr f.val = "end") :
    forLoop (fuel + 1) depth (flat ls ++ (lbls ++ f :: rest)) =
      .ok (flat ls ++ (lbls ++ f :: rest)) :=
  forLoop_done fuel depth _ syms (scan_end ls lbls f rest syms hwf hpre hl h1 h3)

theorem lineKind_equ (lbls : List Token) (q : Token) (v : List Token)
    (hl : ∀ x ∈ lbls, isLabelTok x = true) (h1 : q.typ = .text) (h3 : lowerStr q.val = "equ") :
    lineKind (lbls ++ q :: v) = .pseudo := by
  induction lbls with
  | nil =>
    have hp : q.isPseudoOp = true := by unfold Token.isPseudoOp; rw [h3]; rfl
    simp only [List.nil_append, lineKind, h1, beq_self_eq_true, ↓reduceIte, hp, h3]
    decide
  | cons a as ih =>
    rw [List.cons_append, lineKind_label (hl a (List.mem_cons_self ..))]
    exact ih (fun x hx => hl x (List.mem_cons_of_mem _ hx))

/-- the lines the scanner reads through are lines the expander sends through -/
theorem ScanPre.passLine {ls : List Line} {s s' : SymTab} (h : ScanPre ls s s') :
    ∀ l ∈ ls, PassLine l.toks := by
  induction h with
  | nil s => intro l hl; cases hl
  | @skip l ls s s' hs _ ih =>
    intro l' hl'
    rcases List.mem_cons.1 hl' with rfl | hl'
    · rcases hs with h | h | h | h
      · exact Or.inl h
      · exact Or.inr (Or.inl h)
      · exact Or.inr (Or.inr (Or.inl h))
      · exact Or.inr (Or.inr (Or.inr h.1))
    · exact ih l' hl'
  | @equ l ls s s1 s' lbls q v hlt hl h1 h3 _ _ ih =>
    intro l' hl'
    rcases List.mem_cons.1 hl' with rfl | hl'
    · rw [hlt]; exact Or.inr (Or.inr (Or.inr (lineKind_equ lbls q v hl h1 h3)))
    · exact ih l' hl'

/-- `UnrollStep ts ts'`: `ts'` is `ts` with its first outermost FOR block replaced by its
    manual unrolling; the count is evaluated (by the real evaluator `expandAndEvaluate`)
    with the symbols of the EQU lines in front of the block -/
inductive UnrollStep : List Token → List Token → Prop
  | mk (pre : List Line) (b : Block) (q : List Token) (z : Token) (rest : List Token)
      (syms : SymTab) (n : Int) :
      (∀ l ∈ pre, l.WF) → ScanPre pre [] syms → b.WF →
      (∀ x ∈ q, x.isTerm = false) → z.isTerm = true →
      expandAndEvaluate (exprToks b.count) syms = .ok n →
      UnrollStep (flat pre ++ b.flat ++ q ++ z :: rest)
        (flat pre ++ b.unrolled n ++ q ++ [endTok z])

theorem UnrollStep.loop {ts ts' : List Token} (h : UnrollStep ts ts') (fuel depth : Nat) :
    forLoop (fuel + 1) depth ts =
      if depth + 1 > 12 then .error .err else forLoop fuel (depth + 1) ts' := by
  obtain ⟨pre, b, q, z, rest, syms, n, hwf, hpre, hb, hq, hz, hev⟩ := h
  have hscan : scanInput (flat pre ++ b.flat ++ q ++ z :: rest) = .ok (some (syms, true)) := by
    have := scan_for pre (b.labels ++ [b.ctr]) b.forTok
      (b.count ++ [b.nl] ++ (flat b.body ++ b.rofLine.flat) ++ q ++ z :: rest) syms hwf hpre
      (by
        intro x hx
        rcases List.mem_append.1 hx with h | h
        · exact hb.labels x h
        · rw [List.mem_singleton.1 h]; exact hb.ctr) hb.forTyp hb.forVal
    rw [← this]
    simp [Block.flat, Block.header]
  have hexp := expand_pass expandAndEvaluate syms pre b q z rest n hwf hpre.passLine hb hq hz hev
  rw [forLoop]
  simp only [hscan, hexp, Bool.not_true, Bool.false_eq_true, ↓reduceIte]

/-- one turn of the pass loop = one manual unrolling step -/
theorem forLoop_step {ts ts' : List Token} (h : UnrollStep ts ts') (fuel depth : Nat)
    (hd : depth + 1 ≤ 12) : forLoop (fuel + 1) depth ts = forLoop fuel (depth + 1) ts' := by
  rw [h.loop, if_neg (by omega)]

/-- `Unrolls k ts out`: `k` manual unrolling steps lead from `ts` to the FOR-free `out` -/
inductive Unrolls : Nat → List Token → List Token → Prop
  | done (ts : List Token) (syms : SymTab) :
      scanInput ts = .ok (some (syms, false)) → Unrolls 0 ts ts
  | step {k : Nat} {ts ts' out : List Token} :
      UnrollStep ts ts' → Unrolls k ts' out → Unrolls (k + 1) ts out

/-- **for_unroll_partial**: when at most 12 manual unrolling steps (each one expanding the
    first outermost block) lead to a FOR-free program, the pass loop returns that program -/
theorem for_unroll_partial {k : Nat} {ts out : List Token} (h : Unrolls k ts out)
    (fuel depth : Nat) (hk : depth + k ≤ 12) (hf : k < fuel) :
    forLoop fuel depth ts = .ok out := by
  induction h generalizing fuel depth with
  | done ts syms hs =>
    obtain ⟨f, rfl⟩ : ∃ f, fuel = f + 1 := ⟨fuel - 1, by omega⟩
    exact forLoop_done f depth ts syms hs
  | @step k ts ts' out hstep _ ih =>
    obtain ⟨f, rfl⟩ : ∃ f, fuel = f + 1 := ⟨fuel - 1, by omega⟩
    rw [forLoop_step hstep f depth (by omega)]
    exact ih f (depth + 1) (by omega) (by omega)

/-- the pass loop of `CompileWarrior` (fuel 14, depth 0) -/
theorem for_unroll_assemble {k : Nat} {ts out : List Token} (h : Unrolls k ts out)
    (hk : k ≤ 12) : forLoop 14 0 ts = .ok out :=
  for_unroll_partial h 14 0 (by omega) (by omega)

/-- `k` unrolling steps in a row -/
inductive Steps : Nat → List Token → List Token → Prop
  | refl (ts : List Token) : Steps 0 ts ts
  | step {k : Nat} {ts ts' out : List Token} :
      UnrollStep ts ts' → Steps k ts' out → Steps (k + 1) ts out

/-- a 13th unrolling step is an error ("for loop nesting too deep"), whatever it produces -/
theorem for_unroll_too_deep {k : Nat} {ts mid ts' : List Token} (h : Steps k ts mid)
    (hlast : UnrollStep mid ts') (fuel depth : Nat) (hk : depth + k = 12) (hf : k < fuel) :
    forLoop fuel depth ts = .error .err := by
  induction h generalizing fuel depth with
  | refl ts =>
    obtain ⟨f, rfl⟩ : ∃ f, fuel = f + 1 := ⟨fuel - 1, by omega⟩
    rw [hlast.loop, if_pos (by omega)]
  | @step k ts ts1 out hstep _ ih =>
    obtain ⟨f, rfl⟩ : ∃ f, fuel = f + 1 := ⟨fuel - 1, by omega⟩
    rw [forLoop_step hstep f depth (by omega)]
    exact ih hlast f (depth + 1) (by omega) (by omega)

/-! ## 6. nested blocks: the body of a block may contain complete inner blocks -/

/-- the lines of a block: the FOR line, the body, the ROF line -/
def Block.headerLine (b : Block) : Line :=
  { toks := b.labels ++ b.ctr :: b.forTok :: b.count, nl := b.nl }

def Block.lines (b : Block) : List Line := b.headerLine :: (b.body ++ [b.rofLine])

theorem Block.flat_lines (b : Block) : ForPass.flat b.lines = b.flat := by
  simp [Block.lines, Block.headerLine, Block.flat, Block.header, flat_append, Line.flat]

theorem Block.headerLine_WF (b : Block) (hb : b.WF) : b.headerLine.WF := by
  refine ⟨hb.nl, ?_⟩
  intro t ht
  have hlabel : ∀ x : Token, isLabelTok x = true → InLine x := fun x hx => by
    unfold InLine; rw [(isLabelTok_iff.1 hx).1]; simp
  simp only [Block.headerLine, List.mem_append, List.mem_cons] at ht
  rcases ht with ht | ht | ht | ht
  · exact hlabel t (hb.labels t ht)
  · rw [ht]; exact hlabel _ hb.ctr
  · rw [ht]; unfold InLine; rw [hb.forTyp]; simp
  · exact hb.count t ht

theorem Block.lines_WF (b : Block) (hb : b.WF) : ∀ l ∈ b.lines, l.WF := by
  intro l hl
  simp only [Block.lines, List.mem_cons, List.mem_append, List.not_mem_nil, or_false] at hl
  rcases hl with rfl | hl | rfl
  · exact b.headerLine_WF hb
  · exact hb.body l hl
  · exact hb.rofWF

theorem lineKind_forLine (lbls : List Token) (f : Token) (v : List Token)
    (hl : ∀ x ∈ lbls, isLabelTok x = true) (h1 : f.typ = .text) (h3 : lowerStr f.val = "for") :
    lineKind (lbls ++ f :: v) = .for_ := by
  induction lbls with
  | nil => simp [lineKind, h1, isPseudoOp_of_lower_for h3, h3]
  | cons a as ih =>
    rw [List.cons_append, lineKind_label (hl a (List.mem_cons_self ..))]
    exact ih (fun x hx => hl x (List.mem_cons_of_mem _ hx))

theorem Block.headerLine_kind (b : Block) (hb : b.WF) : lineKind b.headerLine.toks = .for_ := by
  have := lineKind_forLine (b.labels ++ [b.ctr]) b.forTok b.count (by
    intro x hx
    rcases List.mem_append.1 hx with h | h
    · exact hb.labels x h
    · rw [List.mem_singleton.1 h]; exact hb.ctr) hb.forTyp hb.forVal
  simpa [Block.headerLine] using this

theorem noClose_append {d : Nat} {a b : List Line} (ha : NoClose d a)
    (hb : NoClose (depthAfter d a) b) : NoClose d (a ++ b) := by
  induction a generalizing d with
  | nil => exact hb
  | cons l ls ih => exact ⟨ha.1, ih ha.2 hb⟩

theorem depthAfter_append (d : Nat) (a b : List Line) :
    depthAfter d (a ++ b) = depthAfter (depthAfter d a) b := by
  simp [depthAfter, List.foldl_append]

/-- reading the same lines one level deeper -/
theorem noClose_succ {d : Nat} {ls : List Line} (h : NoClose d ls) (e : Nat) :
    NoClose (d + e) ls ∧ depthAfter (d + e) ls = depthAfter d ls + e := by
  induction ls generalizing d with
  | nil => exact ⟨trivial, rfl⟩
  | cons l ls ih =>
    have hstep : kindDepth (lineKind l.toks) (d + e) = kindDepth (lineKind l.toks) d + e := by
      cases hk : lineKind l.toks <;> simp only [kindDepth]
      · omega
      · have : d ≠ 0 := fun h0 => h.1 ⟨hk, h0⟩
        omega
    have := ih h.2
    refine ⟨⟨fun hc => h.1 ⟨hc.1, by omega⟩, ?_⟩, ?_⟩
    · rw [hstep]; exact this.1
    · simp only [depthAfter, List.foldl_cons] at this ⊢
      rw [hstep]; exact this.2

theorem Balanced.nil : Balanced [] := ⟨trivial, rfl⟩

theorem Balanced.append {a b : List Line} (ha : Balanced a) (hb : Balanced b) :
    Balanced (a ++ b) :=
  ⟨noClose_append ha.1 (by rw [ha.2]; exact hb.1), by rw [depthAfter_append, ha.2]; exact hb.2⟩

/-- a complete block is balanced: it can stand in the body of another block -/
theorem Block.lines_balanced (b : Block) (hb : b.WF) : Balanced b.lines := by
  have hk := b.headerLine_kind hb
  have hbody := noClose_succ hb.balanced.1 1
  rw [hb.balanced.2] at hbody
  simp only [Nat.zero_add] at hbody
  have hrof : NoClose 1 [b.rofLine] ∧ depthAfter 1 [b.rofLine] = 0 := by
    refine ⟨⟨by simp, trivial⟩, ?_⟩
    simp [depthAfter, hb.rofKind, kindDepth]
  have hrest : NoClose 1 (b.body ++ [b.rofLine]) ∧ depthAfter 1 (b.body ++ [b.rofLine]) = 0 :=
    ⟨noClose_append hbody.1 (by rw [hbody.2]; exact hrof.1),
      by rw [depthAfter_append, hbody.2]; exact hrof.2⟩
  refine ⟨⟨by rw [hk]; simp, ?_⟩, ?_⟩
  · rw [hk]; exact hrest.1
  · simp only [Block.lines, depthAfter, List.foldl_cons, hk, kindDepth]
    exact hrest.2

end ForPass
end Gmars
