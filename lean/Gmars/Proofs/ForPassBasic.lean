/-
  C08 "FOR/ROF blocks assemble exactly like their manual unrolling", part 1: vocabulary and the
  output side of the FOR expander (Gmars/Model/ForExpand.lean).

  * `InLine t`        : `t` is neither a newline nor a terminator (tokEOF / tokError)
  * `Line`            : the tokens of one source line plus its newline token
  * `lineKind`        : what the line machines (`forConsumeLabels`, `forInnerLabels`, `scanLabels`)
                        find after the leading labels of a line
  * `Out.emits`       : `emit` on a list of tokens, and its closed form on `Out.toks`
-/
import Gmars.Model.Assemble

namespace Gmars
namespace ForPass

open ForExpand

/-! ## 1. tokens -/

/-- a token inside a line: not a newline, not a terminator -/
def InLine (t : Token) : Prop := t.typ ≠ .newline ∧ t.typ ≠ .eof ∧ t.typ ≠ .error

instance (t : Token) : Decidable (InLine t) := by unfold InLine; infer_instance

theorem isTerm_eq_false {t : Token} : t.isTerm = false ↔ (t.typ ≠ .eof ∧ t.typ ≠ .error) := by
  unfold Token.isTerm
  cases t.typ <;> simp

theorem isTerm_eq_true {t : Token} : t.isTerm = true ↔ (t.typ = .eof ∨ t.typ = .error) := by
  unfold Token.isTerm
  cases t.typ <;> simp

theorem InLine.isTerm {t : Token} (h : InLine t) : t.isTerm = false :=
  isTerm_eq_false.2 ⟨h.2.1, h.2.2⟩

/-- a text token that every line machine takes for a label: not an opcode, not a pseudo-op -/
def isLabelTok (t : Token) : Bool := t.typ == .text && !t.isOp

theorem isOp_of_isPseudoOp {t : Token} (ht : t.typ = .text) (h : t.isPseudoOp = true) :
    t.isOp = true := by
  unfold Token.isOp
  simp [ht, h]

theorem isPseudoOp_of_not_isOp {t : Token} (ht : t.typ = .text) (h : t.isOp = false) :
    t.isPseudoOp = false := by
  cases hp : t.isPseudoOp with
  | false => rfl
  | true => rw [isOp_of_isPseudoOp ht hp] at h; cases h

theorem isLabelTok_iff {t : Token} :
    isLabelTok t = true ↔ (t.typ = .text ∧ t.isPseudoOp = false ∧ t.isOp = false) := by
  unfold isLabelTok
  constructor
  · intro h
    simp only [Bool.and_eq_true, beq_iff_eq, Bool.not_eq_eq_eq_not, Bool.not_true] at h
    exact ⟨h.1, isPseudoOp_of_not_isOp h.1 h.2, h.2⟩
  · rintro ⟨h1, _, h3⟩
    simp [h1, h3]

theorem isPseudoOp_of_lower_for {t : Token} (h : lowerStr t.val = "for") : t.isPseudoOp = true := by
  unfold Token.isPseudoOp
  rw [h]; rfl

theorem isPseudoOp_of_lower_rof {t : Token} (h : lowerStr t.val = "rof") : t.isPseudoOp = true := by
  unfold Token.isPseudoOp
  rw [h]; rfl

/-- a text token is the same as the label token rebuilt from its value -/
theorem text_eta {t : Token} (h : t.typ = .text) : ({ typ := .text, val := t.val } : Token) = t := by
  cases t; simp_all

/-! ## 2. lines -/

/-- what stands after the leading labels of a line (the tokens of a line without its newline) -/
inductive Kind
  | blank    -- nothing, or a token that is not text (comment, colon, number, ...)
  | op       -- an opcode
  | for_     -- the pseudo-op `for`
  | rof      -- the pseudo-op `rof`
  | pseudo   -- another pseudo-op: `equ`, `end`, `org`
  deriving DecidableEq, Repr

/-- skip the leading labels and classify the first other token; this is the decision tree
    shared by `forConsumeLabels`, `forInnerLabels` and `scanLabels` -/
def lineKind : List Token → Kind
  | [] => .blank
  | t :: r =>
    if t.typ == .text then
      if t.isPseudoOp then
        if lowerStr t.val == "for" then .for_
        else if lowerStr t.val == "rof" then .rof
        else .pseudo
      else if t.isOp then .op
      else lineKind r
    else .blank

theorem lineKind_label {t : Token} {r : List Token} (h : isLabelTok t = true) :
    lineKind (t :: r) = lineKind r := by
  obtain ⟨h1, h2, h3⟩ := isLabelTok_iff.1 h
  simp [lineKind, h1, h2, h3]

/-- the first token of a line is a label, or it decides the kind of the line -/
theorem lineKind_cases (t : Token) (r : List Token) :
    (isLabelTok t = true ∧ lineKind (t :: r) = lineKind r) ∨
    (t.typ ≠ .text ∧ lineKind (t :: r) = .blank) ∨
    (t.typ = .text ∧ t.isOp = true ∧ t.isPseudoOp = false ∧ lineKind (t :: r) = .op) ∨
    (t.typ = .text ∧ t.isOp = true ∧ lowerStr t.val = "for" ∧ lineKind (t :: r) = .for_) ∨
    (t.typ = .text ∧ t.isOp = true ∧ lowerStr t.val = "rof" ∧ lineKind (t :: r) = .rof) ∨
    (t.typ = .text ∧ t.isOp = true ∧ t.isPseudoOp = true ∧ lowerStr t.val ≠ "for" ∧
      lowerStr t.val ≠ "rof" ∧ lineKind (t :: r) = .pseudo) := by
  by_cases h1 : t.typ = .text
  · cases hp : t.isPseudoOp with
    | true =>
      have hop := isOp_of_isPseudoOp h1 hp
      by_cases hf : lowerStr t.val = "for"
      · right; right; right; left
        simp [lineKind, h1, hp, hf, hop]
      · by_cases hr : lowerStr t.val = "rof"
        · right; right; right; right; left
          simp [lineKind, h1, hp, hr, hop]
        · right; right; right; right; right
          simp [lineKind, h1, hp, hf, hr, hop]
    | false =>
      cases hop : t.isOp with
      | true => right; right; left; simp [lineKind, h1, hp, hop]
      | false =>
        left
        have : isLabelTok t = true := isLabelTok_iff.2 ⟨h1, hp, hop⟩
        exact ⟨this, lineKind_label this⟩
  · right; left
    simp [lineKind, h1]

theorem not_label_of_isOp {t : Token} (h : t.isOp = true) : isLabelTok t = false := by
  simp [isLabelTok, h]

theorem lineKind_head_text' {l : List Token} (h : lineKind l ≠ .blank) :
    ∃ a as, l = a :: as ∧ a.typ = .text := by
  cases l with
  | nil => simp [lineKind] at h
  | cons a as =>
    refine ⟨a, as, rfl, ?_⟩
    rcases lineKind_cases a as with ⟨h', _⟩ | ⟨_, h'⟩ | ⟨h', _⟩ | ⟨h', _⟩ | ⟨h', _⟩ | ⟨h', _⟩
    · exact (isLabelTok_iff.1 h').1
    · exact absurd h' h
    all_goals exact h'

/-- one source line: its tokens and the newline token that ends it -/
structure Line where
  toks : List Token
  nl : Token
  deriving Repr

def Line.flat (l : Line) : List Token := l.toks ++ [l.nl]

/-- the tokens of a line are in-line tokens and its newline is a newline -/
def Line.WF (l : Line) : Prop := l.nl.typ = .newline ∧ ∀ t ∈ l.toks, InLine t

/-- the token stream of a list of lines -/
def flat (ls : List Line) : List Token := ls.flatMap Line.flat

@[simp] theorem flat_nil : flat [] = [] := rfl
@[simp] theorem flat_cons (l : Line) (ls : List Line) : flat (l :: ls) = l.flat ++ flat ls := rfl
theorem flat_append (a b : List Line) : flat (a ++ b) = flat a ++ flat b := by
  simp [flat]

theorem flat_inLine_or_nl {ls : List Line} (h : ∀ l ∈ ls, l.WF) :
    ∀ t ∈ flat ls, t.isTerm = false := by
  induction ls with
  | nil => intro t ht; cases ht
  | cons l ls ih =>
    intro t ht
    simp only [flat_cons, Line.flat, List.mem_append, List.mem_singleton] at ht
    have hl := h l (List.mem_cons_self ..)
    rcases ht with (ht | ht) | ht
    · exact (hl.2 t ht).isTerm
    · subst ht; exact isTerm_eq_false.2 (by rw [hl.1]; simp)
    · exact ih (fun l' hl' => h l' (List.mem_cons_of_mem _ hl')) t ht

/-! ## 3. the output side -/

/-- `emit` on a list -/
def emits (o : Out) (l : List Token) : Out := l.foldl Out.emit o

@[simp] theorem emits_nil (o : Out) : emits o [] = o := rfl
@[simp] theorem emits_cons (o : Out) (t : Token) (l : List Token) :
    emits o (t :: l) = emits (o.emit t) l := rfl
theorem emits_append (o : Out) (a b : List Token) : emits o (a ++ b) = emits (emits o a) b := by
  simp [emits, List.foldl_append]
theorem emits_snoc (o : Out) (a : List Token) (t : Token) :
    emits o (a ++ [t]) = (emits o a).emit t := by
  simp [emits_append]

/-- the label tokens `emitLabels` sends -/
def labelToks (ls : List String) : List Token := ls.map (fun l => { typ := .text, val := l })

theorem emitLabels_eq (o : Out) (ls : List String) : o.emitLabels ls = emits o (labelToks ls) := by
  unfold Out.emitLabels emits labelToks
  rw [List.foldl_map]

theorem labelToks_vals {ls : List Token} (h : ∀ t ∈ ls, t.typ = .text) :
    labelToks (ls.map (·.val)) = ls := by
  induction ls with
  | nil => rfl
  | cons t r ih =>
    simp only [labelToks, List.map_cons, List.map_map] at *
    rw [text_eta (h t (List.mem_cons_self ..))]
    congr 1
    exact ih (fun t' ht' => h t' (List.mem_cons_of_mem _ ht'))

theorem labelToks_append (a b : List String) : labelToks (a ++ b) = labelToks a ++ labelToks b := by
  simp [labelToks]

theorem labelToks_noTerm (ls : List String) : ∀ t ∈ labelToks ls, t.isTerm = false := by
  intro t ht
  simp only [labelToks, List.mem_map] at ht
  obtain ⟨l, _, rfl⟩ := ht
  rfl

theorem emit_noTerm (o : Out) (t : Token) (hd : o.done = false) (ht : t.isTerm = false) :
    o.emit t = { o with toks := o.toks.push t } := by
  unfold Out.emit
  simp [hd, ht]

/-- closed form of `emits` for tokens that do not terminate the stream -/
theorem emits_noTerm (o : Out) (l : List Token) (hd : o.done = false)
    (h : ∀ t ∈ l, t.isTerm = false) :
    emits o l = { o with toks := o.toks ++ l.toArray } := by
  induction l generalizing o with
  | nil => simp
  | cons t r ih =>
    rw [emits_cons, emit_noTerm o t hd (h t (List.mem_cons_self ..)),
      ih _ (by exact hd) (fun t' ht' => h t' (List.mem_cons_of_mem _ ht'))]
    simp

theorem emits_noTerm_done (o : Out) (l : List Token) (hd : o.done = false)
    (h : ∀ t ∈ l, t.isTerm = false) : (emits o l).done = false := by
  rw [emits_noTerm o l hd h]; exact hd

theorem emits_noTerm_toks (o : Out) (l : List Token) (hd : o.done = false)
    (h : ∀ t ∈ l, t.isTerm = false) : (emits o l).toks.toList = o.toks.toList ++ l := by
  rw [emits_noTerm o l hd h]; simp

theorem emits_unmodelled (o : Out) (l : List Token) : (emits o l).unmodelled = o.unmodelled := by
  induction l generalizing o with
  | nil => rfl
  | cons t r ih =>
    rw [emits_cons, ih]
    unfold Out.emit
    split <;> rfl

/-- `Tokens()` receives everything when only the last token sent terminates the stream -/
theorem received_append_term (l : List Token) (e : Token) (h : ∀ t ∈ l, t.isTerm = false)
    (he : e.isTerm = true) : received (l ++ [e]) = l ++ [e] := by
  induction l with
  | nil => simp [received, he]
  | cons t r ih =>
    simp only [List.cons_append, received, h t (List.mem_cons_self ..)]
    rw [ih (fun t' ht' => h t' (List.mem_cons_of_mem _ ht'))]
    simp

end ForPass
end Gmars
