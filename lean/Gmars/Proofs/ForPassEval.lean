/-
  C08: the count of a FOR line when it is a number literal and no EQU symbol is defined.
-/
import Gmars.Proofs.ExprProofs

namespace Gmars
namespace ForPass

open ExprProofs

/-- without symbols `ExpandAndEvaluate` is `evaluateExpression` -/
theorem expandAndEvaluate_nil (expr : List Token) :
    expandAndEvaluate expr [] = evaluateExpression expr := by
  unfold expandAndEvaluate
  simp only [buildReferenceGraph, List.filterMap_nil, graphContainsCycle, List.any_nil,
    Bool.false_eq_true, ↓reduceIte, expandExpressions, List.foldl_nil]
  congr 1
  induction expr with
  | nil => rfl
  | cons a as ih =>
    rw [List.flatMap_cons, ih]
    split <;> rfl

theorem big_gt : (2 : Int) ^ 31 < GoEval.big := by
  unfold GoEval.big
  have h : (2 : Int) ^ 500 = 2 ^ 31 * 2 ^ 469 := by rw [← Int.pow_add]
  have h2 : (1 : Int) < 2 ^ 469 := by
    have : (2 : Int) ^ 469 = 2 * 2 ^ 468 := by rw [← Int.pow_succ']
    have hp : (0 : Int) < 2 ^ 468 := Int.pow_pos (by decide)
    omega
  have h3 : (0 : Int) < 2 ^ 31 := by decide
  rw [h]
  calc (2 : Int) ^ 31 = 2 ^ 31 * 1 := by omega
    _ < 2 ^ 31 * 2 ^ 469 := Int.mul_lt_mul_of_pos_left h2 h3

/-- a number literal below 2^31 evaluates to itself -/
theorem eval_numTok (n : Nat) (h : n < 2 ^ 31) :
    expandAndEvaluate [numTok n] [] = .ok (n : Int) := by
  rw [expandAndEvaluate_nil]
  have hw : WFprec (.num n) := trivial
  have hb : NoBigLit (.num n) := by
    show (n : Int) < GoEval.big
    have := big_gt
    have h' : (n : Int) < 2 ^ 31 := by exact_mod_cast h
    omega
  have := model_eval_cst (.num n) hw hb
  simp only [CST.tokens, denote] at this
  rw [this, if_pos]
  constructor
  · have : (0 : Int) ≤ n := Int.natCast_nonneg n
    have h2 : (-2 : Int) ^ 31 ≤ 0 := by decide
    omega
  · exact_mod_cast h

end ForPass
end Gmars
