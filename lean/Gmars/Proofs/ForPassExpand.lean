/-
  C08, part 2: one pass of the FOR expander (`forExpandWith`, Gmars/Model/ForExpand.lean).
-/
import Gmars.Proofs.ForPassBasic

namespace Gmars
namespace ForPass

open ForExpand

variable (e : List Token → SymTab → EvalRes) (s : SymTab)

/-! ## 1. the state functions on a token list (look-ahead :: remaining input) -/

/-- `forLine` -/
def runLine : List Token → Out → Res
  | [], o => .ok o
  | c :: r, o => forLine e s c r o

/-- `forConsumeEmitLine` -/
def runCEL : List Token → Out → Res
  | [], o => .ok o
  | c :: r, o => consumeEmitLine e s c r o

/-- `forConsumeLabels` -/
def runCL : List Token → List String → Out → Res
  | [], _, o => .ok o
  | c :: r, lb, o => consumeLabels e s c r lb o

/-- `forConsumeExpression` -/
def runCE : List Token → List Token → List String → Out → Res
  | [], _, _, o => .ok o
  | c :: r, eb, lb, o => consumeExpression e s c r eb lb o

/-! ## 2. `forConsumeEmitLine` -/

theorem cel_inline (cur t : Token) (r : List Token) (o : Out) (h : InLine cur) :
    consumeEmitLine e s cur (t :: r) o = consumeEmitLine e s t r (o.emit cur) := by
  obtain ⟨h1, h2, h3⟩ := h
  rw [consumeEmitLine]
  split <;> simp_all

theorem cel_nl (cur t : Token) (r : List Token) (o : Out) (h : cur.typ = .newline) :
    consumeEmitLine e s cur (t :: r) o = forLine e s t r (o.emit cur) := by
  rw [consumeEmitLine, forLine]
  split <;> simp_all

/-- the rest of a line is sent as it is, up to and including the newline -/
theorem runCEL_line (args : List Token) (nl t : Token) (r : List Token) (o : Out)
    (ha : ∀ x ∈ args, InLine x) (hnl : nl.typ = .newline) :
    runCEL e s (args ++ nl :: t :: r) o = runLine e s (t :: r) (emits o (args ++ [nl])) := by
  induction args generalizing o with
  | nil => simp only [List.nil_append, runCEL, runLine, emits_cons, emits_nil]; exact cel_nl e s _ _ _ _ hnl
  | cons a as ih =>
    have ha' : ∀ x ∈ as, InLine x := fun x hx => ha x (List.mem_cons_of_mem _ hx)
    have h0 := ha a (List.mem_cons_self ..)
    simp only [List.cons_append]
    rw [emits_cons, ← ih _ ha']
    cases as with
    | nil => exact cel_inline e s _ _ _ _ h0
    | cons b bs => exact cel_inline e s _ _ _ _ h0

/-! ## 3. `forConsumeLabels` -/

theorem cl_label (cur t : Token) (r : List Token) (lb : List String) (o : Out)
    (h : isLabelTok cur = true) :
    consumeLabels e s cur (t :: r) lb o = consumeLabels e s t r (lb ++ [cur.val]) o := by
  obtain ⟨h1, h2, h3⟩ := isLabelTok_iff.1 h
  rw [consumeLabels]
  simp [h1, h2, h3]

theorem cl_write (cur t : Token) (r : List Token) (lb : List String) (o : Out)
    (h1 : cur.typ = .text) (h2 : cur.isOp = true) (h3 : lowerStr cur.val ≠ "for") :
    consumeLabels e s cur (t :: r) lb o =
      consumeEmitLine e s t r ((o.emitLabels lb).emit cur) := by
  rw [consumeLabels]
  simp only [h1, beq_self_eq_true, ↓reduceIte, h2, beq_iff_eq, h3]
  split <;> rfl

theorem cl_for (cur t : Token) (r : List Token) (lb : List String) (o : Out)
    (h1 : cur.typ = .text) (h3 : lowerStr cur.val = "for") :
    consumeLabels e s cur (t :: r) lb o = consumeExpression e s t r [] lb o := by
  rw [consumeLabels]
  simp [h1, isPseudoOp_of_lower_for h3, h3]

/-- a line with an opcode or a pseudo-op other than `for` after its labels is sent as it is -/
theorem runCL_line (l : List Token) (nl t : Token) (r : List Token) (lb : List String) (o : Out)
    (hl : ∀ x ∈ l, InLine x) (hnl : nl.typ = .newline)
    (hk : lineKind l = .op ∨ lineKind l = .rof ∨ lineKind l = .pseudo) :
    runCL e s (l ++ nl :: t :: r) lb o =
      runLine e s (t :: r) (emits (o.emitLabels lb) (l ++ [nl])) := by
  induction l generalizing lb with
  | nil => simp [lineKind] at hk
  | cons a as ih =>
    have hl' : ∀ x ∈ as, InLine x := fun x hx => hl x (List.mem_cons_of_mem _ hx)
    have hcel : ∀ o', runCEL e s (as ++ nl :: t :: r) o' =
        runLine e s (t :: r) (emits o' (as ++ [nl])) := fun o' => runCEL_line e s as nl t r o' hl' hnl
    have hstep : ∀ (x : Token) (xs : List Token), as ++ nl :: t :: r = x :: xs →
        a.typ = .text → a.isOp = true → lowerStr a.val ≠ "for" →
        runCL e s ((a :: as) ++ nl :: t :: r) lb o =
          runLine e s (t :: r) (emits (o.emitLabels lb) ((a :: as) ++ [nl])) := by
      intro x xs hx h1 h2 h3
      simp only [List.cons_append]
      rw [emits_cons, ← hcel, hx]
      exact cl_write e s _ _ _ _ _ h1 h2 h3
    obtain ⟨x, xs, hx⟩ : ∃ x xs, as ++ nl :: t :: r = x :: xs := by
      cases as with
      | nil => exact ⟨_, _, rfl⟩
      | cons b bs => exact ⟨_, _, rfl⟩
    rcases lineKind_cases a as with ⟨hlab, hk'⟩ | ⟨_, hk'⟩ | ⟨h1, h2, h3, _⟩ | ⟨_, _, _, hk'⟩ |
        ⟨h1, h2, h3, _⟩ | ⟨h1, h2, _, h3, _, _⟩
    · rw [hk'] at hk
      have hrec := ih (lb ++ [a.val]) hl' hk
      have h1 := (isLabelTok_iff.1 hlab).1
      simp only [List.cons_append]
      rw [emits_cons, hx] at *
      rw [runCL, cl_label e s _ _ _ _ _ hlab, ← runCL, hrec]
      rw [emitLabels_eq, emitLabels_eq, labelToks_append, emits_append]
      simp [labelToks, text_eta h1, emits_append]
    · rw [hk'] at hk; simp at hk
    · refine hstep x xs hx h1 h2 ?_
      intro hf; rw [isPseudoOp_of_lower_for hf] at h3; cases h3
    · rw [hk'] at hk; simp at hk
    · refine hstep x xs hx h1 h2 ?_
      rw [h3]; decide
    · exact hstep x xs hx h1 h2 h3

/-- a line that does not start with a text token is sent as it is -/
theorem runLine_nontext (l : List Token) (nl t : Token) (r : List Token) (o : Out)
    (hl : ∀ x ∈ l, InLine x) (hnl : nl.typ = .newline)
    (hh : ∀ x ∈ l.head?, x.typ ≠ .text) :
    runLine e s (l ++ nl :: t :: r) o = runLine e s (t :: r) (emits o (l ++ [nl])) := by
  rw [← runCEL_line e s l nl t r o hl hnl]
  cases l with
  | nil => simp [runLine, runCEL, forLine, hnl]
  | cons a as =>
    have := hh a (by simp)
    simp [runLine, runCEL, forLine, this]

/-- the lines that `forLine` sends through unchanged: no text token in front, or (after the
    labels) an opcode or a pseudo-op other than `for`. (A line of labels only, or labels
    followed by a colon or comment, is NOT sent as it is: the labels are kept for the next
    line and the colon/comment/newline is dropped.) -/
def PassLine (l : List Token) : Prop :=
  (∀ x ∈ l.head?, x.typ ≠ .text) ∨ lineKind l = .op ∨ lineKind l = .rof ∨ lineKind l = .pseudo

theorem runLine_passLine (l : Line) (t : Token) (r : List Token) (o : Out)
    (hwf : l.WF) (hp : PassLine l.toks) :
    runLine e s (l.flat ++ t :: r) o = runLine e s (t :: r) (emits o l.flat) := by
  obtain ⟨hnl, hl⟩ := hwf
  unfold Line.flat
  rw [List.append_assoc, List.singleton_append]
  rcases hp with hh | hk
  · exact runLine_nontext e s _ _ _ _ _ hl hnl hh
  · have := runCL_line e s l.toks l.nl t r [] o hl hnl hk
    rw [emitLabels_eq, labelToks, List.map_nil, emits_nil] at this
    rw [← this]
    cases hlt : l.toks with
    | nil => rw [hlt] at hk; simp [lineKind] at hk
    | cons a as =>
      have h1 : a.typ = .text := by
        rw [hlt] at hk
        rcases lineKind_cases a as with ⟨h, _⟩ | ⟨_, h⟩ | ⟨h, _⟩ | ⟨_, _, _, h⟩ | ⟨h, _⟩ | ⟨h, _⟩
        · exact (isLabelTok_iff.1 h).1
        · rw [h] at hk; simp at hk
        · exact h
        · rw [h] at hk; simp at hk
        · exact h
        · exact h
      simp [runLine, runCL, forLine, h1]

/-- FOR-free lines in front are streamed through -/
theorem runLine_passLines (ls : List Line) (t : Token) (r : List Token) (o : Out)
    (hwf : ∀ l ∈ ls, l.WF) (hp : ∀ l ∈ ls, PassLine l.toks) :
    runLine e s (flat ls ++ t :: r) o = runLine e s (t :: r) (emits o (flat ls)) := by
  induction ls generalizing o with
  | nil => rfl
  | cons l ls ih =>
    rw [flat_cons, List.append_assoc]
    obtain ⟨x, xs, hx⟩ : ∃ x xs, flat ls ++ t :: r = x :: xs := by
      cases flat ls with
      | nil => exact ⟨_, _, rfl⟩
      | cons b bs => exact ⟨_, _, rfl⟩
    rw [hx, runLine_passLine e s l x xs o (hwf l (List.mem_cons_self ..)) (hp l (List.mem_cons_self ..)),
      ← hx, ih _ (fun l' h' => hwf l' (List.mem_cons_of_mem _ h')) (fun l' h' => hp l' (List.mem_cons_of_mem _ h')),
      emits_append]

/-! ## 4. the FOR line: labels, counter, `for`, count expression -/

theorem runCL_for (lbls : List Token) (f t : Token) (r : List Token) (lb : List String) (o : Out)
    (hl : ∀ x ∈ lbls, isLabelTok x = true) (h1 : f.typ = .text) (h3 : lowerStr f.val = "for") :
    runCL e s (lbls ++ f :: t :: r) lb o = runCE e s (t :: r) [] (lb ++ lbls.map (·.val)) o := by
  induction lbls generalizing lb with
  | nil => simpa [runCL, runCE] using cl_for e s f t r lb o h1 h3
  | cons a as ih =>
    have hrec := ih (lb ++ [a.val]) (fun x hx => hl x (List.mem_cons_of_mem _ hx))
    obtain ⟨x, xs, hx⟩ : ∃ x xs, as ++ f :: t :: r = x :: xs := by
      cases as with
      | nil => exact ⟨_, _, rfl⟩
      | cons b bs => exact ⟨_, _, rfl⟩
    simp only [List.cons_append, List.map_cons]
    rw [hx] at hrec ⊢
    rw [runCL, cl_label e s _ _ _ _ _ (hl a (List.mem_cons_self ..)), ← runCL, hrec]
    simp

theorem ce_step (cur t : Token) (r : List Token) (eb : List Token) (lb : List String) (o : Out)
    (h : InLine cur) (hc : cur.typ ≠ .comment) :
    consumeExpression e s cur (t :: r) eb lb o = consumeExpression e s t r (eb ++ [cur]) lb o := by
  obtain ⟨h1, h2, h3⟩ := h
  rw [consumeExpression]
  split <;> simp_all

theorem ce_comment (cur t : Token) (r : List Token) (eb : List Token) (lb : List String) (o : Out)
    (hc : cur.typ = .comment) :
    consumeExpression e s cur (t :: r) eb lb o = consumeExpression e s t r eb lb o := by
  rw [consumeExpression]
  split <;> simp_all

theorem ce_nl (cur t : Token) (r : List Token) (eb : List Token) (lb : List String) (o : Out)
    (hc : cur.typ = .newline) :
    consumeExpression e s cur (t :: r) eb lb o = forFor e s t r eb lb o := by
  rw [consumeExpression]
  split <;> simp_all

/-- the tokens of the count expression that reach the evaluator: comments are skipped -/
def exprToks (count : List Token) : List Token := count.filter (fun t => t.typ != .comment)

theorem runCE_count (count : List Token) (nl t : Token) (r : List Token) (eb : List Token)
    (lb : List String) (o : Out) (hc : ∀ x ∈ count, InLine x) (hnl : nl.typ = .newline) :
    runCE e s (count ++ nl :: t :: r) eb lb o = forFor e s t r (eb ++ exprToks count) lb o := by
  induction count generalizing eb with
  | nil => simpa [runCE, exprToks] using ce_nl e s nl t r eb lb o hnl
  | cons a as ih =>
    have hrec := fun eb => ih eb (fun x hx => hc x (List.mem_cons_of_mem _ hx))
    have ha := hc a (List.mem_cons_self ..)
    obtain ⟨x, xs, hx⟩ : ∃ x xs, as ++ nl :: t :: r = x :: xs := by
      cases as with
      | nil => exact ⟨_, _, rfl⟩
      | cons b bs => exact ⟨_, _, rfl⟩
    simp only [List.cons_append]
    rw [hx] at hrec ⊢
    by_cases hcm : a.typ = .comment
    · rw [runCE, ce_comment e s _ _ _ _ _ _ hcm, ← runCE, hrec]
      simp [exprToks, hcm]
    · rw [runCE, ce_step e s _ _ _ _ _ _ ha hcm, ← runCE, hrec]
      simp [exprToks, hcm]

/-- the context `forFor` builds from the label buffer `labels ++ [counter]` -/
def mkCtx (labels : List String) (ctr : String) (n : Int) : Ctx :=
  { forCountLabel := ctr, forLineLabels := labels, forCount := n }

theorem termFold_id (eb : List Token) (o : Out) (heb : ∀ x ∈ eb, x.isTerm = false) :
    eb.foldl (fun o t =>
      if t.isTerm then o.emit { typ := .error, val := "unexpected expression term: " ++ t.str } else o) o = o := by
  induction eb generalizing o with
  | nil => rfl
  | cons a as ih =>
    rw [List.foldl_cons, heb a (List.mem_cons_self ..)]
    exact ih o (fun x hx => heb x (List.mem_cons_of_mem _ hx))

theorem forFor_ok (t : Token) (r : List Token) (eb : List Token) (labels : List String)
    (ctr : String) (o : Out) (n : Int)
    (heb : ∀ x ∈ eb, x.isTerm = false) (hev : e eb s = .ok n) :
    forFor e s t r eb (labels ++ [ctr]) o =
      innerLine (mkCtx labels ctr n) t r
        { toWrite := labels.map (forLabel ctr), out := o } := by
  unfold forFor
  simp only [termFold_id eb o heb, hev, List.getLast?_append, List.getLast?_singleton,
    Option.some_or, List.dropLast_concat, mkCtx]

end ForPass
end Gmars
