/-
  C08, part 3: the body of a FOR block (`forInnerLine`, `forInnerLabels`,
  `forInnerEmitConsumeLine`, `forRof`, `forEmitConsumeStream`).
-/
import Gmars.Proofs.ForPassBasic

namespace Gmars
namespace ForPass

open ForExpand

variable (c : Ctx)

/-! ## 1. the state functions on a token list -/

def runIL : List Token → Inner → Res
  | [], s => .ok s.out
  | x :: r, s => innerLine c x r s

def runILab : List Token → List String → Inner → Res
  | [], _, s => .ok s.out
  | x :: r, lb, s => innerLabels c x r lb s

def runIECL : List Token → Inner → Res
  | [], s => .ok s.out
  | x :: r, s => innerEmitConsumeLine c x r s

def runRof (content : Array Token) : List Token → Out → Res
  | [], o => .ok o
  | x :: r, o => forRof c content x r o

def runECS : List Token → Out → Res
  | [], o => .ok o
  | x :: r, o => emitConsumeStream x r o

/-- append tokens to `forContent` -/
def pushes (s : Inner) (l : List Token) : Inner := { s with content := s.content ++ l.toArray }

@[simp] theorem pushes_nil (s : Inner) : pushes s [] = s := by simp [pushes]
theorem pushes_pushes (s : Inner) (a b : List Token) : pushes (pushes s a) b = pushes s (a ++ b) := by
  simp [pushes]
theorem push_eq (s : Inner) (t : Token) : s.push t = pushes s [t] := by
  simp [Inner.push, pushes]

theorem pushLabels_eq (s : Inner) (lb : List String) : s.pushLabels lb = pushes s (labelToks lb) := by
  unfold Inner.pushLabels pushes labelToks
  congr 1
  induction lb generalizing s with
  | nil => simp
  | cons a as ih =>
    have := ih { s with content := s.content.push { typ := .text, val := a } }
    simp only [List.foldl_cons, List.map_cons] at this ⊢
    rw [this]
    simp

/-! ## 2. `forInnerEmitConsumeLine` -/

theorem iecl_inline (cur t : Token) (r : List Token) (s : Inner) (h : InLine cur) :
    innerEmitConsumeLine c cur (t :: r) s = innerEmitConsumeLine c t r (s.push cur) := by
  obtain ⟨h1, h2, h3⟩ := h
  rw [innerEmitConsumeLine]
  split <;> simp_all

theorem iecl_nl (cur t : Token) (r : List Token) (s : Inner) (h : cur.typ = .newline) :
    innerEmitConsumeLine c cur (t :: r) s = innerLine c t r (s.push cur) := by
  rw [innerEmitConsumeLine, innerLine]
  split <;> simp_all

/-- the rest of a body line goes into `forContent`, up to and including the newline -/
theorem runIECL_line (args : List Token) (nl t : Token) (r : List Token) (s : Inner)
    (ha : ∀ x ∈ args, InLine x) (hnl : nl.typ = .newline) :
    runIECL c (args ++ nl :: t :: r) s = runIL c (t :: r) (pushes s (args ++ [nl])) := by
  induction args generalizing s with
  | nil =>
    simp only [List.nil_append, runIECL, runIL]
    rw [iecl_nl c _ _ _ _ hnl, push_eq]
  | cons a as ih =>
    have ha' : ∀ x ∈ as, InLine x := fun x hx => ha x (List.mem_cons_of_mem _ hx)
    have h0 := ha a (List.mem_cons_self ..)
    have hrec := ih (s.push a) ha'
    obtain ⟨x, xs, hx⟩ : ∃ x xs, as ++ nl :: t :: r = x :: xs := by
      cases as with
      | nil => exact ⟨_, _, rfl⟩
      | cons b bs => exact ⟨_, _, rfl⟩
    simp only [List.cons_append]
    rw [hx] at hrec ⊢
    rw [runIECL, iecl_inline c _ _ _ _ h0, ← runIECL, hrec, push_eq, pushes_pushes]
    rfl

/-! ## 3. `forInnerLabels` -/

theorem il_label (cur t : Token) (r : List Token) (lb : List String) (s : Inner)
    (h : isLabelTok cur = true) :
    innerLabels c cur (t :: r) lb s = innerLabels c t r (lb ++ [cur.val]) s := by
  obtain ⟨h1, h2, h3⟩ := isLabelTok_iff.1 h
  rw [innerLabels]
  simp [h1, h2, h3]

theorem il_nontext (cur : Token) (r : List Token) (lb : List String) (s : Inner)
    (h : cur.typ ≠ .text) :
    innerLabels c cur r lb s = innerEmitConsumeLine c cur r (s.pushLabels lb) := by
  rw [innerLabels.eq_def]
  simp [h]

theorem il_op (cur : Token) (r : List Token) (lb : List String) (s : Inner)
    (h1 : cur.typ = .text) (h2 : cur.isPseudoOp = false) (h3 : cur.isOp = true) :
    innerLabels c cur r lb s = innerEmitConsumeLine c cur r
      (({ s with out := s.out.emitLabels s.toWrite, toWrite := [] } : Inner).pushLabels lb) := by
  rw [innerLabels.eq_def]
  simp [h1, h2, h3]

theorem il_for (cur : Token) (r : List Token) (lb : List String) (s : Inner)
    (h1 : cur.typ = .text) (h3 : lowerStr cur.val = "for") :
    innerLabels c cur r lb s = innerEmitConsumeLine c cur r
      (({ s with depth := s.depth + 1 } : Inner).pushLabels lb) := by
  rw [innerLabels.eq_def]
  simp [h1, isPseudoOp_of_lower_for h3, h3]

theorem il_rof_pos (cur : Token) (r : List Token) (lb : List String) (s : Inner)
    (h1 : cur.typ = .text) (h3 : lowerStr cur.val = "rof") (hd : s.depth > 0) :
    innerLabels c cur r lb s = innerEmitConsumeLine c cur r { s with depth := s.depth - 1 } := by
  rw [innerLabels.eq_def]
  simp [h1, isPseudoOp_of_lower_rof h3, h3, hd]

theorem il_rof_zero (cur : Token) (r : List Token) (lb : List String) (s : Inner)
    (h1 : cur.typ = .text) (h3 : lowerStr cur.val = "rof") (hd : s.depth = 0) :
    innerLabels c cur r lb s = forRof c s.content cur r s.out := by
  rw [innerLabels.eq_def]
  simp [h1, isPseudoOp_of_lower_rof h3, h3, hd]

theorem il_pseudo (cur : Token) (r : List Token) (lb : List String) (s : Inner)
    (h1 : cur.typ = .text) (h2 : cur.isPseudoOp = true) (h3 : lowerStr cur.val ≠ "for")
    (h4 : lowerStr cur.val ≠ "rof") :
    innerLabels c cur r lb s = innerEmitConsumeLine c cur r (s.pushLabels lb) := by
  rw [innerLabels.eq_def]
  rw [if_pos (by simp [h1]), if_pos h2]
  split
  · exact absurd ‹_› h3
  · exact absurd ‹_› h4
  · rfl

/-! ## 4. one body line -/

/-- what a line of kind `k` does to the fields other than `forContent` -/
def kindMod (k : Kind) (s : Inner) : Inner :=
  match k with
  | .op => { s with out := s.out.emitLabels s.toWrite, toWrite := [] }
  | .for_ => { s with depth := s.depth + 1 }
  | .rof => { s with depth := s.depth - 1 }
  | _ => s

/-- what goes into `forContent` for a line: everything, except that the labels in front of an
    inner `rof` are dropped -/
def lineContent (l : List Token) : List Token :=
  if lineKind l = .rof then l.dropWhile isLabelTok else l

theorem runILab_line (l : List Token) (nl t : Token) (r : List Token) (lb : List String)
    (s : Inner) (hl : ∀ x ∈ l, InLine x) (hnl : nl.typ = .newline)
    (hk : ¬(lineKind l = .rof ∧ s.depth = 0)) :
    runILab c (l ++ nl :: t :: r) lb s =
      runIL c (t :: r) (pushes (kindMod (lineKind l) s)
        ((if lineKind l = .rof then l.dropWhile isLabelTok else labelToks lb ++ l) ++ [nl])) := by
  induction l generalizing lb with
  | nil =>
    simp only [List.nil_append, runILab, lineKind, kindMod, reduceCtorEq, ↓reduceIte,
      List.append_nil]
    rw [il_nontext c _ _ _ _ (by rw [hnl]; simp), iecl_nl c _ _ _ _ hnl, runIL, pushLabels_eq,
      push_eq, pushes_pushes]
  | cons a as ih =>
    have hl' : ∀ x ∈ as, InLine x := fun x hx => hl x (List.mem_cons_of_mem _ hx)
    have hline : ∀ s', runIECL c ((a :: as) ++ nl :: t :: r) s' =
        runIL c (t :: r) (pushes s' ((a :: as) ++ [nl])) := fun s' =>
      runIECL_line c (a :: as) nl t r s' hl hnl
    obtain ⟨x, xs, hx⟩ : ∃ x xs, as ++ nl :: t :: r = x :: xs := by
      cases as with
      | nil => exact ⟨_, _, rfl⟩
      | cons b bs => exact ⟨_, _, rfl⟩
    simp only [List.cons_append] at hline ⊢
    rcases lineKind_cases a as with ⟨hlab, hk'⟩ | ⟨h1, hk'⟩ | ⟨h1, h2, h3, hk'⟩ | ⟨h1, h2, h3, hk'⟩ |
        ⟨h1, h2, h3, hk'⟩ | ⟨h1, h2, h3, h4, h5, hk'⟩
    · rw [hk'] at hk ⊢
      have hrec := ih (lb ++ [a.val]) hl' hk
      have h1 := (isLabelTok_iff.1 hlab).1
      rw [hx] at hrec ⊢
      rw [runILab, il_label c _ _ _ _ _ hlab, ← runILab, hrec]
      simp [hlab, labelToks, text_eta h1]
    · rw [runILab, il_nontext c _ _ _ _ h1, ← runIECL, hline, hk', pushLabels_eq, pushes_pushes]
      simp [kindMod]
    · rw [runILab, il_op c _ _ _ _ h1 h3 h2, ← runIECL, hline, hk', pushLabels_eq, pushes_pushes]
      simp [kindMod]
    · rw [runILab, il_for c _ _ _ _ h1 h3, ← runIECL, hline, hk', pushLabels_eq, pushes_pushes]
      simp [kindMod]
    · have hd : s.depth > 0 := by
        rcases Nat.eq_zero_or_pos s.depth with h0 | h0
        · exact absurd ⟨hk', h0⟩ hk
        · exact h0
      rw [runILab, il_rof_pos c _ _ _ _ h1 h3 hd, ← runIECL, hline, hk']
      simp [kindMod, not_label_of_isOp h2]
    · rw [runILab, il_pseudo c _ _ _ _ h1 h3 h4 h5, ← runIECL, hline, hk', pushLabels_eq,
        pushes_pushes]
      simp [kindMod]

/-- the effect of one body line on the state of the body reader -/
def stepInner (s : Inner) (l : Line) : Inner :=
  pushes (kindMod (lineKind l.toks) s) (lineContent l.toks ++ [l.nl])

/-- one line of the body that is not the closing `rof` -/
theorem runIL_line (l : Line) (t : Token) (r : List Token) (s : Inner) (hwf : l.WF)
    (hk : ¬(lineKind l.toks = .rof ∧ s.depth = 0)) :
    runIL c (l.flat ++ t :: r) s = runIL c (t :: r) (stepInner s l) := by
  obtain ⟨hnl, hl⟩ := hwf
  have hlab := runILab_line c l.toks l.nl t r [] s hl hnl hk
  have hcel := runIECL_line c l.toks l.nl t r s hl hnl
  unfold Line.flat stepInner lineContent
  rw [List.append_assoc, List.singleton_append]
  cases hlt : l.toks with
  | nil =>
    rw [hlt] at hcel
    simp only [List.nil_append] at hcel ⊢
    rw [runIL, innerLine, if_neg (by rw [hnl]; simp), ← runIECL, hcel]
    simp [lineKind, kindMod]
  | cons a as =>
    rw [hlt] at hcel hlab hk
    simp only [List.cons_append] at hcel hlab ⊢
    by_cases h1 : a.typ = .text
    · rw [runIL, innerLine, if_pos (by simp [h1]), ← runILab, hlab]
      simp only [labelToks, List.map_nil, List.nil_append]
    · rw [runIL, innerLine, if_neg (by simp [h1]), ← runIECL, hcel]
      have : lineKind (a :: as) = .blank := by simp [lineKind, h1]
      simp [this, kindMod]

/-! ## 5. the closing `rof` line -/

theorem rof_skip (content : Array Token) (cur t : Token) (r : List Token) (o : Out)
    (h : InLine cur) : forRof c content cur (t :: r) o = forRof c content t r o := by
  obtain ⟨h1, h2, h3⟩ := h
  rw [forRof]
  simp [h1, h2, h3]

theorem rof_nl (content : Array Token) (cur t : Token) (r : List Token) (o : Out)
    (h : cur.typ = .newline) :
    forRof c content cur (t :: r) o = emitConsumeStream t r (expand c content o) := by
  rw [forRof]
  simp [h, nextTok, Token.isTerm]

/-- everything on the `rof` line is dropped, its newline too; then the expansion is sent -/
theorem runRof_line (content : Array Token) (args : List Token) (nl t : Token) (r : List Token)
    (o : Out) (ha : ∀ x ∈ args, InLine x) (hnl : nl.typ = .newline) :
    runRof c content (args ++ nl :: t :: r) o = runECS (t :: r) (expand c content o) := by
  induction args with
  | nil => exact rof_nl c content nl t r o hnl
  | cons a as ih =>
    have hrec := ih (fun x hx => ha x (List.mem_cons_of_mem _ hx))
    obtain ⟨x, xs, hx⟩ : ∃ x xs, as ++ nl :: t :: r = x :: xs := by
      cases as with
      | nil => exact ⟨_, _, rfl⟩
      | cons b bs => exact ⟨_, _, rfl⟩
    simp only [List.cons_append]
    rw [hx] at hrec ⊢
    rw [runRof, rof_skip c content _ _ _ _ (ha a (List.mem_cons_self ..)), ← runRof, hrec]

theorem runILab_close (l : List Token) (nl t : Token) (r : List Token) (lb : List String)
    (s : Inner) (hl : ∀ x ∈ l, InLine x) (hnl : nl.typ = .newline)
    (hk : lineKind l = .rof) (hd : s.depth = 0) :
    runILab c (l ++ nl :: t :: r) lb s = runECS (t :: r) (expand c s.content s.out) := by
  induction l generalizing lb with
  | nil => simp [lineKind] at hk
  | cons a as ih =>
    have hl' : ∀ x ∈ as, InLine x := fun x hx => hl x (List.mem_cons_of_mem _ hx)
    have hline := runRof_line c s.content (a :: as) nl t r s.out hl hnl
    obtain ⟨x, xs, hx⟩ : ∃ x xs, as ++ nl :: t :: r = x :: xs := by
      cases as with
      | nil => exact ⟨_, _, rfl⟩
      | cons b bs => exact ⟨_, _, rfl⟩
    simp only [List.cons_append] at hline ⊢
    rcases lineKind_cases a as with ⟨hlab, hk'⟩ | ⟨h1, hk'⟩ | ⟨h1, h2, h3, hk'⟩ | ⟨h1, h2, h3, hk'⟩ |
        ⟨h1, h2, h3, hk'⟩ | ⟨h1, h2, h3, h4, h5, hk'⟩
    · rw [hk'] at hk
      have hrec := ih (lb ++ [a.val]) hl' hk
      rw [hx] at hrec ⊢
      rw [runILab, il_label c _ _ _ _ _ hlab, ← runILab, hrec]
    · rw [hk'] at hk; cases hk
    · rw [hk'] at hk; cases hk
    · rw [hk'] at hk; cases hk
    · rw [runILab, il_rof_zero c _ _ _ _ h1 h3 hd, ← runRof, hline]
    · rw [hk'] at hk; cases hk

/-- the `rof` line that closes the block -/
theorem runIL_close (l : Line) (t : Token) (r : List Token) (s : Inner) (hwf : l.WF)
    (hk : lineKind l.toks = .rof) (hd : s.depth = 0) :
    runIL c (l.flat ++ t :: r) s = runECS (t :: r) (expand c s.content s.out) := by
  obtain ⟨hnl, hl⟩ := hwf
  have hlab := runILab_close c l.toks l.nl t r [] s hl hnl hk hd
  obtain ⟨a, as, hlt, h1⟩ := lineKind_head_text' (l := l.toks) (by rw [hk]; simp)
  unfold Line.flat
  rw [List.append_assoc, List.singleton_append]
  rw [hlt] at hlab ⊢
  simp only [List.cons_append] at hlab ⊢
  rw [runIL, innerLine, if_pos (by simp [h1]), ← runILab, hlab]

/-! ## 6. the whole body -/

/-- nesting depth after a line of kind `k` -/
def kindDepth (k : Kind) (d : Nat) : Nat :=
  match k with
  | .for_ => d + 1
  | .rof => d - 1
  | _ => d

/-- from nesting depth `d`, no `rof` line of `ls` closes the block that is being read -/
def NoClose : Nat → List Line → Prop
  | _, [] => True
  | d, l :: ls => ¬(lineKind l.toks = .rof ∧ d = 0) ∧ NoClose (kindDepth (lineKind l.toks) d) ls

/-- nesting depth after the lines `ls` -/
def depthAfter (d : Nat) (ls : List Line) : Nat :=
  ls.foldl (fun d l => kindDepth (lineKind l.toks) d) d

/-- the `for` and `rof` lines of `ls` match up: the body of a block -/
def Balanced (ls : List Line) : Prop := NoClose 0 ls ∧ depthAfter 0 ls = 0

/-- the line as it is copied into `forContent` -/
def Line.norm (l : Line) : Line := { l with toks := lineContent l.toks }

/-- `forContent` for the body lines `ls` -/
def bodyContent (ls : List Line) : List Token := flat (ls.map Line.norm)

/-- the body has a line with an opcode after its labels: that is where the renamed line
    labels of the FOR line are written -/
def hasOpLine (ls : List Line) : Bool := ls.any (fun l => lineKind l.toks == .op)

theorem kindMod_depth (k : Kind) (s : Inner) : (kindMod k s).depth = kindDepth k s.depth := by
  cases k <;> rfl

theorem stepInner_depth (s : Inner) (l : Line) :
    (stepInner s l).depth = kindDepth (lineKind l.toks) s.depth := by
  simp [stepInner, pushes, kindMod_depth]

theorem runIL_body (ls : List Line) (t : Token) (r : List Token) (s : Inner)
    (hwf : ∀ l ∈ ls, l.WF) (hb : NoClose s.depth ls) :
    runIL c (flat ls ++ t :: r) s = runIL c (t :: r) (ls.foldl stepInner s) := by
  induction ls generalizing s with
  | nil => rfl
  | cons l ls ih =>
    rw [flat_cons, List.append_assoc]
    obtain ⟨x, xs, hx⟩ : ∃ x xs, flat ls ++ t :: r = x :: xs := by
      cases flat ls with
      | nil => exact ⟨_, _, rfl⟩
      | cons b bs => exact ⟨_, _, rfl⟩
    rw [hx, runIL_line c l x xs s (hwf l (List.mem_cons_self ..)) hb.1, ← hx, List.foldl_cons]
    apply ih _ (fun l' h' => hwf l' (List.mem_cons_of_mem _ h'))
    rw [stepInner_depth]
    exact hb.2

theorem foldl_stepInner_depth (ls : List Line) (s : Inner) :
    (ls.foldl stepInner s).depth = depthAfter s.depth ls := by
  induction ls generalizing s with
  | nil => rfl
  | cons l ls ih => rw [List.foldl_cons, ih, stepInner_depth]; rfl

theorem foldl_stepInner_content (ls : List Line) (s : Inner) :
    (ls.foldl stepInner s).content = s.content ++ (bodyContent ls).toArray := by
  induction ls generalizing s with
  | nil => simp [bodyContent]
  | cons l ls ih =>
    rw [List.foldl_cons, ih]
    have : (stepInner s l).content = s.content ++ (lineContent l.toks ++ [l.nl]).toArray := by
      unfold stepInner pushes
      cases lineKind l.toks <;> rfl
    rw [this]
    simp [bodyContent, Line.norm, Line.flat]

theorem emitLabels_nil (o : Out) : o.emitLabels [] = o := rfl

theorem foldl_stepInner_out (ls : List Line) (s : Inner) :
    (ls.foldl stepInner s).out =
      if hasOpLine ls then s.out.emitLabels s.toWrite else s.out := by
  induction ls generalizing s with
  | nil => rfl
  | cons l ls ih =>
    rw [List.foldl_cons, ih]
    by_cases hk : lineKind l.toks = .op
    · have h1 : (stepInner s l).out = s.out.emitLabels s.toWrite := by
        simp [stepInner, pushes, hk, kindMod]
      have h2 : (stepInner s l).toWrite = [] := by
        simp [stepInner, pushes, hk, kindMod]
      simp [hasOpLine, hk, h1, h2, emitLabels_nil]
    · have h1 : (stepInner s l).out = s.out := by
        unfold stepInner pushes
        cases hk' : lineKind l.toks <;> first | rfl | exact absurd hk' hk
      have h2 : (stepInner s l).toWrite = s.toWrite := by
        unfold stepInner pushes
        cases hk' : lineKind l.toks <;> first | rfl | exact absurd hk' hk
      simp [hasOpLine, hk, h1, h2]

/-! ## 7. the expansion and the rest of the stream -/

/-- iteration `k + 1` of the body -/
def iteration (content : List Token) (k : Nat) : List Token := content.map (substTok c (k + 1))

/-- the `n` iterations of the body, counter values 1..n -/
def repeated (content : List Token) (n : Nat) : List Token :=
  (List.range n).flatMap (iteration c content)

theorem expand_eq (content : Array Token) (o : Out) :
    expand c content o = emits o (repeated c content.toList c.forCount.toNat) := by
  unfold expand repeated
  generalize List.range c.forCount.toNat = ks
  induction ks generalizing o with
  | nil => rfl
  | cons k ks ih =>
    rw [List.foldl_cons, ih, List.flatMap_cons, emits_append]
    congr 1
    rw [← Array.foldl_toList, iteration, emits, List.foldl_map]

theorem substTok_noTerm (i : Nat) (t : Token) (h : t.isTerm = false) :
    (substTok c i t).isTerm = false := by
  unfold substTok
  split
  · split
    · rfl
    · split
      · rfl
      · exact h
  · exact h

theorem repeated_noTerm (content : List Token) (n : Nat) (h : ∀ t ∈ content, t.isTerm = false) :
    ∀ t ∈ repeated c content n, t.isTerm = false := by
  intro t ht
  simp only [repeated, iteration, List.mem_flatMap, List.mem_map] at ht
  obtain ⟨_, _, x, hx, rfl⟩ := ht
  exact substTok_noTerm c _ _ (h x hx)

theorem ecs_step (cur t : Token) (r : List Token) (o : Out) (h : cur.isTerm = false) :
    emitConsumeStream cur (t :: r) o = emitConsumeStream t r (o.emit cur) := by
  obtain ⟨h1, h2⟩ := isTerm_eq_false.1 h
  rw [emitConsumeStream]
  simp [h1, h2]

/-- the tokens behind the block are sent as they are, up to the first terminator; a tokError
    is sent, a tokEOF is not (`run()` sends its own) -/
theorem runECS_stream (q : List Token) (z : Token) (rest : List Token) (o : Out)
    (hq : ∀ x ∈ q, x.isTerm = false) (hz : z.isTerm = true) :
    runECS (q ++ z :: rest) o =
      .ok (if z.typ = .eof then emits o q else emits o (q ++ [z])) := by
  induction q generalizing o with
  | nil =>
    simp only [List.nil_append, runECS, emits_nil, emits_cons]
    rcases isTerm_eq_true.1 hz with h | h
    · rw [emitConsumeStream.eq_def]; simp [h]
    · rw [emitConsumeStream.eq_def]; simp [h]
  | cons a as ih =>
    have hrec := ih (o.emit a) (fun x hx => hq x (List.mem_cons_of_mem _ hx))
    obtain ⟨x, xs, hx⟩ : ∃ x xs, as ++ z :: rest = x :: xs := by
      cases as with
      | nil => exact ⟨_, _, rfl⟩
      | cons b bs => exact ⟨_, _, rfl⟩
    simp only [List.cons_append, emits_cons]
    rw [hx] at hrec ⊢
    rw [runECS, ecs_step _ _ _ _ (hq a (List.mem_cons_self ..))]
    exact hrec

end ForPass
end Gmars
