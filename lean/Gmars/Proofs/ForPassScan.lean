/-
  C08, part 4: the symbol scanner (`scanInput`, Gmars/Model/ForExpand.lean) on FOR-free input,
  and the pass loop `forLoop` (Gmars/Model/Assemble.lean) on it.
-/
import Gmars.Proofs.ForPassBasic

namespace Gmars
namespace ForPass

open Scan

/-! ## 1. token lists without a `for` token -/

/-- the token is the text `for` (in any case) -/
def isForTok (t : Token) : Prop := t.typ = .text ∧ lowerStr t.val = "for"

/-- no token of the list is a `for` -/
def NoForTok (l : List Token) : Prop := ∀ t ∈ l, ¬isForTok t

/-- the list has a terminator (tokEOF or tokError) -/
def HasTerm (l : List Token) : Prop := ∃ t ∈ l, t.isTerm = true

/-- the scanner result does not report a `for`, and is not an endless loop if `P` -/
def Good (P : Prop) (res : Scan.Res) : Prop :=
  (∀ syms, res ≠ .ok (some (syms, true))) ∧ (P → ∀ f, res ≠ .error f)

theorem good_stop (P : Prop) (syms : SymTab) : Good P (stop syms) :=
  ⟨fun _ h => by simp [stop] at h, fun _ _ h => by simp [stop] at h⟩

theorem good_none (P : Prop) : Good P (.ok none) :=
  ⟨fun _ h => by simp at h, fun _ _ h => by simp at h⟩

theorem good_hang {P : Prop} (f : Fault) (h : ¬P) : Good P (.error f) :=
  ⟨fun _ h => by simp at h, fun hp => absurd hp h⟩

theorem Good.mono {P Q : Prop} {res : Scan.Res} (h : Good Q res) (hpq : P → Q) : Good P res :=
  ⟨h.1, fun hp => h.2 (hpq hp)⟩

theorem hasTerm_single {t : Token} : HasTerm [t] ↔ t.isTerm = true := by
  simp [HasTerm]

theorem hasTerm_cons {t : Token} {l : List Token} (h : t.isTerm = false) :
    HasTerm (t :: l) → HasTerm l := by
  rintro ⟨x, hx, hxt⟩
  rcases List.mem_cons.1 hx with rfl | hx
  · rw [h] at hxt; cases hxt
  · exact ⟨x, hx, hxt⟩

theorem noFor_tail {t : Token} {l : List Token} (h : NoForTok (t :: l)) : NoForTok l :=
  fun x hx => h x (List.mem_cons_of_mem _ hx)

/-- the three state functions, on every look-ahead in front of `rest` -/
def GoodAt (cur : Token) (rest : List Token) : Prop :=
  (∀ lb syms, Good (HasTerm (cur :: rest)) (scanLabels cur rest lb syms)) ∧
  (∀ syms, Good (HasTerm (cur :: rest)) (scanConsumeLine cur rest syms)) ∧
  (∀ vb lb syms, Good (HasTerm (cur :: rest)) (scanEquValue cur rest vb lb syms))

theorem good_consume_nil (cur : Token) (syms : SymTab) :
    Good (HasTerm [cur]) (scanConsumeLine cur [] syms) := by
  rw [scanConsumeLine.eq_def]
  split
  · exact good_hang _ (by rw [hasTerm_single, isTerm_eq_true]; simp_all)
  · exact good_stop _ _
  · exact good_stop _ _
  · exact good_hang _ (by rw [hasTerm_single, isTerm_eq_true]; simp_all)

theorem good_consume_cons (cur t : Token) (r : List Token) (syms : SymTab) (ih : GoodAt t r) :
    Good (HasTerm (cur :: t :: r)) (scanConsumeLine cur (t :: r) syms) := by
  rw [scanConsumeLine.eq_def]
  split
  · have hc : cur.isTerm = false := isTerm_eq_false.2 (by simp_all)
    simp only
    split
    · exact good_stop _ _
    · split
      · exact (ih.1 _ _).mono (hasTerm_cons hc)
      · exact (ih.2.1 _).mono (hasTerm_cons hc)
  · exact good_stop _ _
  · exact good_stop _ _
  · have hc : cur.isTerm = false := isTerm_eq_false.2 (by simp_all)
    simp only
    split
    · exact good_stop _ _
    · exact (ih.2.1 _).mono (hasTerm_cons hc)

theorem good_consume (cur : Token) (rest : List Token) (syms : SymTab)
    (ih : ∀ t r, rest = t :: r → GoodAt t r) :
    Good (HasTerm (cur :: rest)) (scanConsumeLine cur rest syms) := by
  cases rest with
  | nil => exact good_consume_nil cur syms
  | cons t r => exact good_consume_cons cur t r syms (ih t r rfl)

theorem good_equ (cur : Token) (rest : List Token) (vb : List Token) (lb : List String)
    (syms : SymTab) (ih : ∀ t r, rest = t :: r → GoodAt t r) :
    Good (HasTerm (cur :: rest)) (scanEquValue cur rest vb lb syms) := by
  rw [scanEquValue.eq_def]
  split
  · split
    · exact good_none _
    · split
      · have hc : cur.isTerm = false := isTerm_eq_false.2 (by simp_all)
        cases rest with
        | nil => exact good_hang _ (by rw [hasTerm_single, hc]; simp)
        | cons t r =>
          simp only
          split
          · exact good_stop _ _
          · split
            · exact ((ih t r rfl).1 _ _).mono (hasTerm_cons hc)
            · exact ((ih t r rfl).2.1 _).mono (hasTerm_cons hc)
      · exact good_stop _ _
  · have hc : cur.isTerm = false := isTerm_eq_false.2 (by simp_all)
    cases rest with
    | nil => exact good_hang _ (by rw [hasTerm_single, hc]; simp)
    | cons t r => exact ((ih t r rfl).2.2 _ _ _).mono (hasTerm_cons hc)

theorem good_labels (cur : Token) (rest : List Token) (lb : List String) (syms : SymTab)
    (hnf : ¬isForTok cur) (ih : ∀ t r, rest = t :: r → GoodAt t r) :
    Good (HasTerm (cur :: rest)) (scanLabels cur rest lb syms) := by
  have hcl := fun syms => good_consume cur rest syms ih
  rw [scanLabels.eq_def]
  split
  · -- text
    have hc : cur.isTerm = false := isTerm_eq_false.2 (by simp_all)
    split
    · split
      · cases rest with
        | nil => exact good_hang _ (by rw [hasTerm_single, hc]; simp)
        | cons t r =>
          simp only
          split
          · exact good_stop _ _
          · exact ((ih t r rfl).2.2 _ _ _).mono (hasTerm_cons hc)
      · exact absurd ⟨‹_›, ‹_›⟩ hnf
      · exact good_stop _ _
      · exact hcl _
    · split
      · exact hcl _
      · cases rest with
        | nil => exact good_hang _ (by rw [hasTerm_single, hc]; simp)
        | cons t r =>
          simp only
          split
          · exact good_stop _ _
          · exact ((ih t r rfl).1 _ _).mono (hasTerm_cons hc)
  · have hc : cur.isTerm = false := isTerm_eq_false.2 (by simp_all)
    cases rest with
    | nil => exact good_hang _ (by rw [hasTerm_single, hc]; simp)
    | cons t r =>
      simp only
      split
      · exact good_stop _ _
      · exact ((ih t r rfl).1 _ _).mono (hasTerm_cons hc)
  · have hc : cur.isTerm = false := isTerm_eq_false.2 (by simp_all)
    cases rest with
    | nil => exact good_hang _ (by rw [hasTerm_single, hc]; simp)
    | cons t r =>
      simp only
      split
      · exact good_stop _ _
      · exact ((ih t r rfl).1 _ _).mono (hasTerm_cons hc)
  · have hc : cur.isTerm = false := isTerm_eq_false.2 (by simp_all)
    cases rest with
    | nil => exact good_hang _ (by rw [hasTerm_single, hc]; simp)
    | cons t r =>
      simp only
      split
      · exact good_stop _ _
      · exact ((ih t r rfl).1 _ _).mono (hasTerm_cons hc)
  · exact good_stop _ _
  · exact hcl _

theorem goodAt (rest : List Token) : ∀ cur, NoForTok (cur :: rest) → GoodAt cur rest := by
  induction rest with
  | nil =>
    intro cur hnf
    have ih : ∀ t r, ([] : List Token) = t :: r → GoodAt t r := fun _ _ h => by cases h
    exact ⟨fun lb syms => good_labels cur [] lb syms (hnf cur (List.mem_cons_self ..)) ih,
      fun syms => good_consume cur [] syms ih, fun vb lb syms => good_equ cur [] vb lb syms ih⟩
  | cons t r ih =>
    intro cur hnf
    have ih' : ∀ t' r', t :: r = t' :: r' → GoodAt t' r' := by
      intro t' r' h
      cases h
      exact ih t (noFor_tail hnf)
    exact ⟨fun lb syms => good_labels cur _ lb syms (hnf cur (List.mem_cons_self ..)) ih',
      fun syms => good_consume cur _ syms ih', fun vb lb syms => good_equ cur _ vb lb syms ih'⟩

/-- **scan_forFree (token form).** On a token list without any `for` token the scanner never
    reports a `for`; if the list has a terminator the scanner does not loop for ever. -/
theorem scan_noForTok (ts : List Token) (h : NoForTok ts) :
    Good (HasTerm ts) (scanInput ts) := by
  cases ts with
  | nil =>
    have : scanInput [] = stop [] := by
      simp [scanInput, scanLine, Token.zero, scanConsumeLine]
    rw [this]; exact good_stop _ _
  | cons t r =>
    have hg := goodAt r t h
    show Good _ (scanLine t r [])
    unfold scanLine
    split
    · exact hg.1 _ _
    · exact hg.2.1 _

/-! ## 2. the scanner, line by line -/

/-- `consume(scanLine)`: the step to the first token of the next line -/
def runScan : List Token → SymTab → Scan.Res
  | [], _ => .error (.hang "scanConsumeLine")
  | t :: r, syms => if t.typ == .eof then stop syms else scanLine t r syms

def runSCL : List Token → SymTab → Scan.Res
  | [], syms => stop syms
  | t :: r, syms => scanConsumeLine t r syms

def runSLab : List Token → List String → SymTab → Scan.Res
  | [], _, syms => stop syms
  | t :: r, lb, syms => scanLabels t r lb syms

def runSEqu : List Token → List Token → List String → SymTab → Scan.Res
  | [], _, _, syms => stop syms
  | t :: r, vb, lb, syms => scanEquValue t r vb lb syms

theorem scl_inline (cur t : Token) (r : List Token) (syms : SymTab) (h : InLine cur)
    (ht : t.typ ≠ .eof) :
    scanConsumeLine cur (t :: r) syms = scanConsumeLine t r syms := by
  obtain ⟨h1, h2, h3⟩ := h
  rw [scanConsumeLine]
  split <;> simp_all

theorem scl_nl (cur : Token) (rest : List Token) (syms : SymTab) (h : cur.typ = .newline) :
    scanConsumeLine cur rest syms = runScan rest syms := by
  rw [scanConsumeLine.eq_def]
  simp only [h]
  cases rest with
  | nil => rfl
  | cons t r => simp only [runScan, scanLine]

/-- the rest of a line is skipped -/
theorem runSCL_line (args : List Token) (nl : Token) (rest : List Token) (syms : SymTab)
    (ha : ∀ x ∈ args, InLine x) (hnl : nl.typ = .newline) :
    runSCL (args ++ nl :: rest) syms = runScan rest syms := by
  induction args with
  | nil => exact scl_nl nl rest syms hnl
  | cons a as ih =>
    have hrec := ih (fun x hx => ha x (List.mem_cons_of_mem _ hx))
    have h0 := ha a (List.mem_cons_self ..)
    cases as with
    | nil =>
      simp only [List.nil_append, List.cons_append, runSCL] at hrec ⊢
      rw [scl_inline _ _ _ _ h0 (by rw [hnl]; simp), hrec]
    | cons b bs =>
      simp only [List.cons_append, runSCL] at hrec ⊢
      rw [scl_inline _ _ _ _ h0 (ha b (by simp)).2.1, hrec]

theorem slab_label (cur t : Token) (r : List Token) (lb : List String) (syms : SymTab)
    (h : isLabelTok cur = true) (ht : t.typ ≠ .eof) :
    scanLabels cur (t :: r) lb syms = scanLabels t r (lb ++ [cur.val]) syms := by
  obtain ⟨h1, h2, h3⟩ := isLabelTok_iff.1 h
  rw [scanLabels]
  simp [h1, h2, h3, ht]

theorem slab_op (cur : Token) (rest : List Token) (lb : List String) (syms : SymTab)
    (h1 : cur.typ = .text) (h2 : cur.isPseudoOp = false) (h3 : cur.isOp = true) :
    scanLabels cur rest lb syms = scanConsumeLine cur rest syms := by
  rw [scanLabels.eq_def]
  simp [h1, h2, h3]

theorem slab_for (cur : Token) (rest : List Token) (lb : List String) (syms : SymTab)
    (h1 : cur.typ = .text) (h3 : lowerStr cur.val = "for") :
    scanLabels cur rest lb syms = stop syms true := by
  rw [scanLabels.eq_def]
  simp only [h1, isPseudoOp_of_lower_for h3, ↓reduceIte, h3]

theorem slab_end (cur : Token) (rest : List Token) (lb : List String) (syms : SymTab)
    (h1 : cur.typ = .text) (h3 : lowerStr cur.val = "end") :
    scanLabels cur rest lb syms = stop syms := by
  have hp : cur.isPseudoOp = true := by unfold Token.isPseudoOp; rw [h3]; rfl
  rw [scanLabels.eq_def]
  simp only [h1, hp, ↓reduceIte, h3]

theorem slab_equ (cur t : Token) (r : List Token) (lb : List String) (syms : SymTab)
    (h1 : cur.typ = .text) (h3 : lowerStr cur.val = "equ") (ht : t.typ ≠ .eof) :
    scanLabels cur (t :: r) lb syms = scanEquValue t r [] lb syms := by
  have hp : cur.isPseudoOp = true := by unfold Token.isPseudoOp; rw [h3]; rfl
  rw [scanLabels.eq_def]
  simp only [h1, hp, ↓reduceIte, h3]
  simp [ht]

theorem slab_pseudo (cur : Token) (rest : List Token) (lb : List String) (syms : SymTab)
    (h1 : cur.typ = .text) (h2 : cur.isPseudoOp = true) (h3 : lowerStr cur.val ≠ "for")
    (h4 : lowerStr cur.val ≠ "equ") (h5 : lowerStr cur.val ≠ "end") :
    scanLabels cur rest lb syms = scanConsumeLine cur rest syms := by
  rw [scanLabels.eq_def]
  simp only [h1, h2, ↓reduceIte]

/-- the token after the labels of a line -/
def lineOp (l : List Token) : Option Token := (l.dropWhile isLabelTok).head?

theorem lineOp_label {a : Token} {as : List Token} (h : isLabelTok a = true) :
    lineOp (a :: as) = lineOp as := by
  simp [lineOp, h]

theorem lineOp_op {a : Token} {as : List Token} (h : a.isOp = true) :
    lineOp (a :: as) = some a := by
  simp [lineOp, not_label_of_isOp h]

/-- the lines the scanner skips without touching the symbol table: no text token in front,
    or (after the labels) an opcode, `rof` or `org` -/
def ScanSkip (l : List Token) : Prop :=
  (∀ x ∈ l.head?, x.typ ≠ .text) ∨ lineKind l = .op ∨ lineKind l = .rof ∨
  (lineKind l = .pseudo ∧ ∀ h ∈ lineOp l, lowerStr h.val ≠ "equ" ∧ lowerStr h.val ≠ "end")

theorem exists_cons' (a : List Token) (x : Token) (r : List Token) :
    ∃ y ys, a ++ x :: r = y :: ys ∧ (y = x ∨ y ∈ a) := by
  cases a with
  | nil => exact ⟨_, _, rfl, Or.inl rfl⟩
  | cons b bs => exact ⟨_, _, rfl, Or.inr (List.mem_cons_self ..)⟩

theorem runSLab_skip (l : List Token) (nl : Token) (rest : List Token) (lb : List String)
    (syms : SymTab) (hl : ∀ x ∈ l, InLine x) (hnl : nl.typ = .newline)
    (hk : lineKind l = .op ∨ lineKind l = .rof ∨
      (lineKind l = .pseudo ∧ ∀ h ∈ lineOp l, lowerStr h.val ≠ "equ" ∧ lowerStr h.val ≠ "end")) :
    runSLab (l ++ nl :: rest) lb syms = runScan rest syms := by
  induction l generalizing lb with
  | nil => simp [lineKind] at hk
  | cons a as ih =>
    have hl' : ∀ x ∈ as, InLine x := fun x hx => hl x (List.mem_cons_of_mem _ hx)
    have hline := runSCL_line (a :: as) nl rest syms hl hnl
    obtain ⟨x, xs, hx, hxm⟩ := exists_cons' as nl rest
    have hxe : x.typ ≠ .eof := by
      rcases hxm with rfl | hxm
      · rw [hnl]; simp
      · exact (hl' x hxm).2.1
    simp only [List.cons_append] at hline ⊢
    rcases lineKind_cases a as with ⟨hlab, hk'⟩ | ⟨h1, hk'⟩ | ⟨h1, h2, h3, hk'⟩ | ⟨h1, h2, h3, hk'⟩ |
        ⟨h1, h2, h3, hk'⟩ | ⟨h1, h2, h3, h4, h5, hk'⟩
    · rw [hk', lineOp_label hlab] at hk
      have hrec := ih (lb ++ [a.val]) hl' hk
      rw [hx] at hrec ⊢
      rw [runSLab, slab_label _ _ _ _ _ hlab hxe]
      exact hrec
    · rw [hk'] at hk; simp at hk
    · rw [runSLab, slab_op _ _ _ _ h1 h3 h2]; exact hline
    · rw [hk'] at hk; simp at hk
    · rw [runSLab, slab_pseudo _ _ _ _ h1 (isPseudoOp_of_lower_rof h3) (by rw [h3]; decide)
        (by rw [h3]; decide) (by rw [h3]; decide)]
      exact hline
    · rw [hk', lineOp_op h2] at hk
      simp only [reduceCtorEq, Option.mem_def, Option.some.injEq, forall_eq', true_and,
        false_or] at hk
      rw [runSLab, slab_pseudo _ _ _ _ h1 h3 h4 hk.1 hk.2]
      exact hline

theorem runScan_cons (t : Token) (r : List Token) (syms : SymTab) (h : t.typ ≠ .eof) :
    runScan (t :: r) syms = scanLine t r syms := by
  simp [runScan, h]

/-- a line the scanner skips -/
theorem runScan_skipLine (l : Line) (rest : List Token) (syms : SymTab) (hwf : l.WF)
    (hs : ScanSkip l.toks) : runScan (l.flat ++ rest) syms = runScan rest syms := by
  obtain ⟨hnl, hl⟩ := hwf
  unfold Line.flat
  rw [List.append_assoc, List.singleton_append]
  have hscl := runSCL_line l.toks l.nl rest syms hl hnl
  cases hlt : l.toks with
  | nil =>
    rw [hlt] at hscl
    simp only [List.nil_append] at hscl ⊢
    rw [runScan_cons _ _ _ (by rw [hnl]; simp), scanLine, if_neg (by rw [hnl]; simp)]
    exact hscl
  | cons a as =>
    have ha := hl a (by rw [hlt]; exact List.mem_cons_self ..)
    rw [hlt] at hscl hs
    simp only [List.cons_append] at hscl ⊢
    rw [runScan_cons _ _ _ ha.2.1, scanLine]
    rcases hs with hh | hk
    · rw [if_neg (by simpa using hh a (by simp))]
      exact hscl
    · have hlab := runSLab_skip (a :: as) l.nl rest [] syms (by rw [← hlt]; exact hl) hnl hk
      have h1 : a.typ = .text := by
        have hne : lineKind (a :: as) ≠ .blank := by
          rcases hk with h | h | h <;> simp [h]
        obtain ⟨a', as', e, ht⟩ := lineKind_head_text' hne
        cases e; exact ht
      rw [if_pos (by simp [h1])]
      exact hlab

/-- a FOR line: the scanner stops and reports it -/
theorem runSLab_for (lbls : List Token) (f : Token) (rest : List Token) (lb : List String)
    (syms : SymTab) (hl : ∀ x ∈ lbls, isLabelTok x = true) (h1 : f.typ = .text)
    (h3 : lowerStr f.val = "for") :
    runSLab (lbls ++ f :: rest) lb syms = stop syms true := by
  induction lbls generalizing lb with
  | nil => exact slab_for f rest lb syms h1 h3
  | cons a as ih =>
    have hrec := ih (lb ++ [a.val]) (fun x hx => hl x (List.mem_cons_of_mem _ hx))
    obtain ⟨x, xs, hx, hxm⟩ := exists_cons' as f rest
    have hxe : x.typ ≠ .eof := by
      rcases hxm with rfl | hxm
      · rw [h1]; simp
      · rw [(isLabelTok_iff.1 (hl x (List.mem_cons_of_mem _ hxm))).1]; simp
    simp only [List.cons_append]
    rw [hx] at hrec ⊢
    rw [runSLab, slab_label _ _ _ _ _ (hl a (List.mem_cons_self ..)) hxe]
    exact hrec

theorem runScan_forLine (lbls : List Token) (f : Token) (rest : List Token) (syms : SymTab)
    (hl : ∀ x ∈ lbls, isLabelTok x = true) (h1 : f.typ = .text) (h3 : lowerStr f.val = "for") :
    runScan (lbls ++ f :: rest) syms = stop syms true := by
  have h := runSLab_for lbls f rest [] syms hl h1 h3
  obtain ⟨x, xs, hx, hxm⟩ := exists_cons' lbls f rest
  have hxt : x.typ = .text := by
    rcases hxm with rfl | hxm
    · exact h1
    · exact (isLabelTok_iff.1 (hl x hxm)).1
  rw [hx] at h ⊢
  rw [runScan_cons _ _ _ (by rw [hxt]; simp), scanLine, if_pos (by simp [hxt])]
  exact h

/-! ### EQU lines -/

/-- `consume(scanLine)` with the symbol table after the definition, or the error -/
def afterDefine (vb : List Token) (lb : List String) (syms : SymTab) (rest : List Token) :
    Scan.Res :=
  match define vb lb syms with
  | none => .ok none
  | some syms' => runScan rest syms'

theorem sequ_step (cur t : Token) (r : List Token) (vb : List Token) (lb : List String)
    (syms : SymTab) (h : InLine cur) :
    scanEquValue cur (t :: r) vb lb syms =
      scanEquValue t r (if cur.typ == .comment then vb else vb ++ [cur]) lb syms := by
  obtain ⟨h1, h2, h3⟩ := h
  rw [scanEquValue]
  simp [h1, h2, h3]

theorem sequ_nl (cur : Token) (rest : List Token) (vb : List Token) (lb : List String)
    (syms : SymTab) (h : cur.typ = .newline) :
    scanEquValue cur rest vb lb syms = afterDefine vb lb syms rest := by
  rw [scanEquValue.eq_def]
  simp only [h, beq_self_eq_true, Bool.true_or, ↓reduceIte, afterDefine]
  cases define vb lb syms with
  | none => rfl
  | some s1 =>
    cases rest with
    | nil => rfl
    | cons t r => simp only [runScan, scanLine]

theorem runSEqu_line (v : List Token) (nl : Token) (rest : List Token) (vb : List Token)
    (lb : List String) (syms : SymTab) (hv : ∀ x ∈ v, InLine x) (hnl : nl.typ = .newline) :
    runSEqu (v ++ nl :: rest) vb lb syms =
      afterDefine (vb ++ v.filter (fun t => t.typ != .comment)) lb syms rest := by
  induction v generalizing vb with
  | nil => simpa [runSEqu] using sequ_nl nl rest vb lb syms hnl
  | cons a as ih =>
    have hrec := fun vb => ih vb (fun x hx => hv x (List.mem_cons_of_mem _ hx))
    obtain ⟨x, xs, hx, _⟩ := exists_cons' as nl rest
    simp only [List.cons_append]
    rw [hx] at hrec ⊢
    rw [runSEqu, sequ_step _ _ _ _ _ _ (hv a (List.mem_cons_self ..))]
    have := hrec (if a.typ == .comment then vb else vb ++ [a])
    rw [runSEqu] at this
    rw [this]
    by_cases hc : a.typ = .comment
    · simp [hc]
    · simp [hc]

/-- an EQU line `labels… equ value… \n` -/
theorem runSLab_equ (lbls : List Token) (q : Token) (v : List Token) (nl : Token)
    (rest : List Token) (lb : List String) (syms : SymTab)
    (hl : ∀ x ∈ lbls, isLabelTok x = true) (h1 : q.typ = .text) (h3 : lowerStr q.val = "equ")
    (hv : ∀ x ∈ v, InLine x) (hnl : nl.typ = .newline) :
    runSLab (lbls ++ q :: (v ++ nl :: rest)) lb syms =
      afterDefine (v.filter (fun t => t.typ != .comment)) (lb ++ lbls.map (·.val)) syms rest := by
  induction lbls generalizing lb with
  | nil =>
    obtain ⟨x, xs, hx, hxm⟩ := exists_cons' v nl rest
    have hxe : x.typ ≠ .eof := by
      rcases hxm with rfl | hxm
      · rw [hnl]; simp
      · exact (hv x hxm).2.1
    have := runSEqu_line v nl rest [] lb syms hv hnl
    simp only [List.nil_append, List.map_nil, List.append_nil] at this ⊢
    rw [hx] at this ⊢
    rw [runSLab, slab_equ _ _ _ _ _ h1 h3 hxe]
    exact this
  | cons a as ih =>
    have hrec := ih (lb ++ [a.val]) (fun x hx => hl x (List.mem_cons_of_mem _ hx))
    obtain ⟨x, xs, hx, hxm⟩ := exists_cons' as q (v ++ nl :: rest)
    have hxe : x.typ ≠ .eof := by
      rcases hxm with rfl | hxm
      · rw [h1]; simp
      · rw [(isLabelTok_iff.1 (hl x (List.mem_cons_of_mem _ hxm))).1]; simp
    simp only [List.cons_append, List.map_cons]
    rw [hx] at hrec ⊢
    rw [runSLab, slab_label _ _ _ _ _ (hl a (List.mem_cons_self ..)) hxe]
    rw [runSLab] at hrec
    rw [hrec]
    simp

theorem runScan_equLine (lbls : List Token) (q : Token) (v : List Token) (nl : Token)
    (rest : List Token) (syms : SymTab)
    (hl : ∀ x ∈ lbls, isLabelTok x = true) (h1 : q.typ = .text) (h3 : lowerStr q.val = "equ")
    (hv : ∀ x ∈ v, InLine x) (hnl : nl.typ = .newline) :
    runScan (lbls ++ q :: (v ++ nl :: rest)) syms =
      afterDefine (v.filter (fun t => t.typ != .comment)) (lbls.map (·.val)) syms rest := by
  have h := runSLab_equ lbls q v nl rest [] syms hl h1 h3 hv hnl
  obtain ⟨x, xs, hx, hxm⟩ := exists_cons' lbls q (v ++ nl :: rest)
  have hxt : x.typ = .text := by
    rcases hxm with rfl | hxm
    · exact h1
    · exact (isLabelTok_iff.1 (hl x hxm)).1
  rw [hx] at h ⊢
  rw [runScan_cons _ _ _ (by rw [hxt]; simp), scanLine, if_pos (by simp [hxt])]
  simpa [runSLab] using h

/-! ## 3. FOR-free lines -/

/-- the lines in front of the first FOR block, as the scanner reads them: lines it skips and
    EQU lines `labels… equ value…`; `ScanPre ls s s'` = reading `ls` takes the symbol table
    from `s` to `s'` (no symbol is defined twice) -/
inductive ScanPre : List Line → SymTab → SymTab → Prop
  | nil (s : SymTab) : ScanPre [] s s
  | skip {l : Line} {ls : List Line} {s s' : SymTab} :
      ScanSkip l.toks → ScanPre ls s s' → ScanPre (l :: ls) s s'
  | equ {l : Line} {ls : List Line} {s s1 s' : SymTab} (lbls : List Token) (q : Token)
      (v : List Token) :
      l.toks = lbls ++ q :: v → (∀ x ∈ lbls, isLabelTok x = true) → q.typ = .text →
      lowerStr q.val = "equ" →
      define (v.filter (fun t => t.typ != .comment)) (lbls.map (·.val)) s = some s1 →
      ScanPre ls s1 s' → ScanPre (l :: ls) s s'

theorem runScan_pre {ls : List Line} {s s' : SymTab} (h : ScanPre ls s s')
    (hwf : ∀ l ∈ ls, l.WF) (rest : List Token) :
    runScan (flat ls ++ rest) s = runScan rest s' := by
  induction h with
  | nil s => rfl
  | @skip l ls s s' hs _ ih =>
    rw [flat_cons, List.append_assoc, runScan_skipLine l _ s (hwf l (List.mem_cons_self ..)) hs]
    exact ih (fun l' h' => hwf l' (List.mem_cons_of_mem _ h'))
  | @equ l ls s s1 s' lbls q v hlt hl h1 h3 hdef _ ih =>
    obtain ⟨hnl, hin⟩ := hwf l (List.mem_cons_self ..)
    have hv : ∀ x ∈ v, InLine x := fun x hx => hin x (by rw [hlt]; simp [hx])
    rw [flat_cons, List.append_assoc]
    have : l.flat ++ (flat ls ++ rest) = lbls ++ q :: (v ++ l.nl :: (flat ls ++ rest)) := by
      simp [Line.flat, hlt]
    rw [this, runScan_equLine lbls q v l.nl _ s hl h1 h3 hv hnl, afterDefine, hdef]
    exact ih (fun l' h' => hwf l' (List.mem_cons_of_mem _ h'))

theorem scl_eof (cur : Token) (rest : List Token) (syms : SymTab) (h : cur.typ = .eof) :
    scanConsumeLine cur rest syms = stop syms := by
  rw [scanConsumeLine.eq_def]; simp [h]

theorem scl_error (cur : Token) (rest : List Token) (syms : SymTab) (h : cur.typ = .error) :
    scanConsumeLine cur rest syms = stop syms := by
  rw [scanConsumeLine.eq_def]; simp [h]

theorem scanInput_eq_runScan (t : Token) (r : List Token) :
    scanInput (t :: r) = runScan (t :: r) [] := by
  by_cases h : t.typ = .eof
  · simp [scanInput, runScan, scanLine, h, scl_eof]
  · simp [scanInput, runScan, scanLine, h]

theorem runScan_term (z : Token) (rest : List Token) (syms : SymTab) (hz : z.isTerm = true) :
    runScan (z :: rest) syms = stop syms := by
  rcases isTerm_eq_true.1 hz with h | h
  · simp [runScan, h]
  · simp [runScan, h, scanLine, scl_error]

/-- **scan_forFree (line form).** FOR-free lines `ls` followed by a terminator: the scanner
    returns the symbols of the EQU lines and `forSeen = false`. -/
theorem scan_forFree (ls : List Line) (z : Token) (rest : List Token) (syms : SymTab)
    (hwf : ∀ l ∈ ls, l.WF) (hpre : ScanPre ls [] syms) (hz : z.isTerm = true) :
    scanInput (flat ls ++ z :: rest) = .ok (some (syms, false)) := by
  obtain ⟨x, xs, hx, _⟩ := exists_cons' (flat ls) z rest
  rw [hx, scanInput_eq_runScan, ← hx, runScan_pre hpre hwf, runScan_term z rest syms hz]
  rfl

/-- FOR-free lines followed by a FOR line: the scanner returns the symbols of the EQU lines in
    front and `forSeen = true` -/
theorem scan_for (ls : List Line) (lbls : List Token) (f : Token) (rest : List Token)
    (syms : SymTab) (hwf : ∀ l ∈ ls, l.WF) (hpre : ScanPre ls [] syms)
    (hl : ∀ x ∈ lbls, isLabelTok x = true) (h1 : f.typ = .text) (h3 : lowerStr f.val = "for") :
    scanInput (flat ls ++ (lbls ++ f :: rest)) = .ok (some (syms, true)) := by
  obtain ⟨x, xs, hx, _⟩ := exists_cons' (flat ls ++ lbls) f rest
  rw [← List.append_assoc, hx, scanInput_eq_runScan, ← hx, List.append_assoc,
    runScan_pre hpre hwf, runScan_forLine lbls f rest syms hl h1 h3]
  rfl

/-- an END line: the scanner stops; what follows is not looked at -/
theorem runScan_endLine (lbls : List Token) (f : Token) (rest : List Token) (syms : SymTab)
    (hl : ∀ x ∈ lbls, isLabelTok x = true) (h1 : f.typ = .text) (h3 : lowerStr f.val = "end") :
    runScan (lbls ++ f :: rest) syms = stop syms := by
  have h : ∀ lb, runSLab (lbls ++ f :: rest) lb syms = stop syms := by
    induction lbls with
    | nil => intro lb; exact slab_end f rest lb syms h1 h3
    | cons a as ih =>
      intro lb
      have hrec := ih (fun x hx => hl x (List.mem_cons_of_mem _ hx)) (lb ++ [a.val])
      obtain ⟨x, xs, hx, hxm⟩ := exists_cons' as f rest
      have hxe : x.typ ≠ .eof := by
        rcases hxm with rfl | hxm
        · rw [h1]; simp
        · rw [(isLabelTok_iff.1 (hl x (List.mem_cons_of_mem _ hxm))).1]; simp
      simp only [List.cons_append]
      rw [hx] at hrec ⊢
      rw [runSLab, slab_label _ _ _ _ _ (hl a (List.mem_cons_self ..)) hxe]
      exact hrec
  obtain ⟨x, xs, hx, hxm⟩ := exists_cons' lbls f rest
  have hxt : x.typ = .text := by
    rcases hxm with rfl | hxm
    · exact h1
    · exact (isLabelTok_iff.1 (hl x hxm)).1
  have h' := h []
  rw [hx] at h' ⊢
  rw [runScan_cons _ _ _ (by rw [hxt]; simp), scanLine, if_pos (by simp [hxt])]
  exact h'

/-- FOR-free lines followed by an END line: `forSeen = false` whatever follows the `end`
    (FOR blocks behind `end` are never expanded) -/
theorem scan_end (ls : List Line) (lbls : List Token) (f : Token) (rest : List Token)
    (syms : SymTab) (hwf : ∀ l ∈ ls, l.WF) (hpre : ScanPre ls [] syms)
    (hl : ∀ x ∈ lbls, isLabelTok x = true) (h1 : f.typ = .text) (h3 : lowerStr f.val = "end") :
    scanInput (flat ls ++ (lbls ++ f :: rest)) = .ok (some (syms, false)) := by
  obtain ⟨x, xs, hx, _⟩ := exists_cons' (flat ls ++ lbls) f rest
  rw [← List.append_assoc, hx, scanInput_eq_runScan, ← hx, List.append_assoc,
    runScan_pre hpre hwf, runScan_endLine lbls f rest syms hl h1 h3]
  rfl

end ForPass
end Gmars
