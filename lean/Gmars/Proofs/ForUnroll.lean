/-
  C08 "FOR/ROF blocks assemble exactly like their manual unrolling": whole programs.

  A structured program (`Prog`: instruction lines and FOR blocks, nested to any depth, whose
  counts are number literals or counters of enclosing blocks) has a manual unrolling
  (`FullUnroll`): every block is replaced by the copies of its body with the counter
  substituted, and the copies are unrolled in turn. `for_unroll_full`: if the manual unrolling
  takes at most 12 block expansions, the pass loop of `CompileWarrior` returns exactly the
  token list of the unrolled program.
-/
import Gmars.Proofs.ForPass
import Gmars.Proofs.ForPassEval

namespace Gmars
namespace ForPass

open ForExpand ExprProofs

/-! ## 1. substitution of the counter -/

/-- iteration `i`: every text token equal to the counter `c` becomes the number `i` -/
def substC (c : String) (i : Nat) (t : Token) : Token :=
  if t.typ = .text ∧ t.val = c then numTok i else t

theorem substTok_noLabels (c : String) (n : Int) (i : Nat) (t : Token) :
    substTok (mkCtx [] c n) i t = substC c i t := by
  unfold substTok substC mkCtx numTok
  by_cases h1 : t.typ = .text <;> by_cases h2 : t.val = c <;> simp [h1, h2]

def Line.subst (c : String) (i : Nat) (l : Line) : Line :=
  { toks := l.toks.map (substC c i), nl := substC c i l.nl }

theorem Line.flat_subst (c : String) (i : Nat) (l : Line) :
    (l.subst c i).flat = l.flat.map (substC c i) := by
  simp [Line.subst, Line.flat]

theorem flat_map_subst (c : String) (i : Nat) (ls : List Line) :
    flat (ls.map (Line.subst c i)) = (flat ls).map (substC c i) := by
  induction ls with
  | nil => rfl
  | cons l ls ih => simp [ih, Line.flat_subst]

/-! ## 2. structured programs -/

/-- a program: instruction lines and FOR blocks `ctr for count \n body rof… \n` -/
inductive Prog
  | nil
  | line (l : Line) (rest : Prog)
  | block (ctr forTok count nl : Token) (body : Prog) (rofLine : Line) (rest : Prog)

namespace Prog

def append : Prog → Prog → Prog
  | nil, q => q
  | line l r, q => line l (r.append q)
  | block c f n nl body rof r, q => block c f n nl body rof (r.append q)

/-- the source lines of the program -/
def render : Prog → List Line
  | nil => []
  | line l r => l :: r.render
  | block c f n nl body rof r =>
    { toks := [c, f, n], nl := nl } :: (body.render ++ rof :: r.render)

/-- substitution of a counter in every token of the program -/
def subst (c : String) (i : Nat) : Prog → Prog
  | nil => nil
  | line l r => line (l.subst c i) (r.subst c i)
  | block ct f n nl body rof r =>
    block (substC c i ct) (substC c i f) (substC c i n) (substC c i nl) (body.subst c i)
      (rof.subst c i) (r.subst c i)

theorem render_append (p q : Prog) : (p.append q).render = p.render ++ q.render := by
  induction p with
  | nil => rfl
  | line l r ih => simp [append, render, ih]
  | block c f n nl body rof r _ ih => simp [append, render, ih]

theorem render_subst (c : String) (i : Nat) (p : Prog) :
    (p.subst c i).render = p.render.map (Line.subst c i) := by
  induction p with
  | nil => rfl
  | line l r ih => simp [subst, render, ih]
  | block ct f n nl body rof r ihb ih => simp [subst, render, ih, ihb, Line.subst]

end Prog

/-- the tokens of a FOR line the expander and the scanner need -/
def HeaderOK (c f n nl : Token) : Prop :=
  isLabelTok c = true ∧ f.typ = .text ∧ lowerStr f.val = "for" ∧ InLine n ∧ nl.typ = .newline

instance (c f n nl : Token) : Decidable (HeaderOK c f n nl) := by
  unfold HeaderOK; infer_instance

/-- a ROF line: `rof` first (no labels), then in-line tokens -/
def RofOK (l : Line) : Prop :=
  l.WF ∧ ∃ t r, l.toks = t :: r ∧ t.typ = .text ∧ lowerStr t.val = "rof"

/-- the shape of a program: simple instruction lines, proper FOR and ROF lines -/
def Prog.Shape : Prog → Prop
  | .nil => True
  | .line l r => SimpleLine l ∧ r.Shape
  | .block c f n nl body rof r => HeaderOK c f n nl ∧ RofOK rof ∧ body.Shape ∧ r.Shape

theorem RofOK.kind {l : Line} (h : RofOK l) : lineKind l.toks = .rof := by
  obtain ⟨_, t, r, e, h1, h3⟩ := h
  rw [e]
  simp [lineKind, h1, isPseudoOp_of_lower_rof h3, h3]

theorem RofOK.head {l : Line} (h : RofOK l) : ∀ x ∈ l.toks.head?, isLabelTok x = false := by
  obtain ⟨_, t, r, e, h1, h3⟩ := h
  rw [e]
  intro x hx
  simp only [List.head?_cons, Option.mem_def, Option.some.injEq] at hx
  subst hx
  exact not_label_of_isOp (isOp_of_isPseudoOp h1 (isPseudoOp_of_lower_rof h3))

/-- the `Block` of a FOR block of a program -/
def mkBlock (c f n nl : Token) (body : Prog) (rof : Line) : Block :=
  { labels := [], ctr := c, forTok := f, count := [n], nl := nl, body := body.render,
    rofLine := rof }

/-- no `rof` line carries labels -/
def RofsBare (ls : List Line) : Prop :=
  ∀ l ∈ ls, lineKind l.toks = .rof → ∀ x ∈ l.toks.head?, isLabelTok x = false

theorem shape_render (p : Prog) (h : p.Shape) :
    (∀ l ∈ p.render, l.WF) ∧ Balanced p.render ∧ RofsBare p.render := by
  induction p with
  | nil => exact ⟨fun _ h => (by cases h), Balanced.nil, fun _ h => (by cases h)⟩
  | line l r ih =>
    obtain ⟨hl, hr⟩ := h
    obtain ⟨h1, h2, h3⟩ := ih hr
    refine ⟨?_, ?_, ?_⟩
    · intro l' hl'
      rcases List.mem_cons.1 hl' with rfl | hl'
      · exact hl.1
      · exact h1 l' hl'
    · have : Balanced [l] := simple_balanced [l] (fun l' hl' => by
        rw [List.mem_singleton.1 hl']; exact hl)
      exact this.append h2
    · intro l' hl'
      rcases List.mem_cons.1 hl' with rfl | hl'
      · intro hk; rw [hl.kind] at hk; cases hk
      · exact h3 l' hl'
  | block c f n nl body rof r ihb ih =>
    obtain ⟨hh, hrof, hbody, hr⟩ := h
    obtain ⟨b1, b2, b3⟩ := ihb hbody
    obtain ⟨r1, r2, r3⟩ := ih hr
    have hb : (mkBlock c f n nl body rof).WF :=
      { labels := fun _ h => by cases h
        ctr := hh.1
        forTyp := hh.2.1
        forVal := hh.2.2.1
        count := fun x hx => by rw [List.mem_singleton.1 hx]; exact hh.2.2.2.1
        nl := hh.2.2.2.2
        body := b1
        balanced := b2
        rofWF := hrof.1
        rofKind := hrof.kind }
    have hlines : (Prog.block c f n nl body rof r).render =
        (mkBlock c f n nl body rof).lines ++ r.render := by
      simp [Prog.render, Block.lines, Block.headerLine, mkBlock]
    rw [hlines]
    refine ⟨?_, ?_, ?_⟩
    · intro l hl
      rcases List.mem_append.1 hl with hl | hl
      · exact Block.lines_WF _ hb l hl
      · exact r1 l hl
    · exact (Block.lines_balanced _ hb).append r2
    · intro l hl
      rcases List.mem_append.1 hl with hl | hl
      · simp only [Block.lines, List.mem_cons, List.mem_append, List.not_mem_nil, or_false] at hl
        rcases hl with rfl | hl | rfl
        · intro hk; rw [Block.headerLine_kind _ hb] at hk; cases hk
        · exact b3 l hl
        · intro _; exact hrof.head
      · exact r3 l hl

theorem mkBlock_WF {c f n nl : Token} {body : Prog} {rof : Line} (hh : HeaderOK c f n nl)
    (hrof : RofOK rof) (hbody : body.Shape) : (mkBlock c f n nl body rof).WF :=
  { labels := fun _ h => by cases h
    ctr := hh.1
    forTyp := hh.2.1
    forVal := hh.2.2.1
    count := fun x hx => by rw [List.mem_singleton.1 hx]; exact hh.2.2.2.1
    nl := hh.2.2.2.2
    body := (shape_render body hbody).1
    balanced := (shape_render body hbody).2.1
    rofWF := hrof.1
    rofKind := hrof.kind }

/-! ## 3. the manual unrolling of a program -/

/-- `FullUnroll p ls k`: the manual unrolling of `p` is the list of lines `ls`, and it takes
    `k` block expansions. A block whose count is the literal `m` is replaced by the unrollings
    of the `m` copies of its body with the counter replaced by 1..m; in the copies the counts
    of inner blocks that named the counter have become literals. -/
inductive FullUnroll : Prog → List Line → Nat → Prop
  | nil : FullUnroll .nil [] 0
  | line {l : Line} {r : Prog} {ls : List Line} {k : Nat} :
      SimpleLine l → FullUnroll r ls k → FullUnroll (.line l r) (l :: ls) k
  | block {c f nl : Token} {body : Prog} {rof : Line} {r : Prog} {ls : List Line} {k : Nat}
      (m : Nat) (L : Nat → List Line) (K : Nat → Nat) :
      HeaderOK c f (numTok m) nl → m < 2 ^ 31 → RofOK rof → body.Shape →
      (∀ i, i < m → FullUnroll (body.subst c.val (i + 1)) (L i) (K i)) →
      FullUnroll r ls k →
      FullUnroll (.block c f (numTok m) nl body rof r)
        ((List.range m).flatMap L ++ ls) (1 + ((List.range m).map K).sum + k)

theorem FullUnroll.cast {p : Prog} {ls ls' : List Line} {k k' : Nat} (h : FullUnroll p ls k)
    (e1 : ls = ls') (e2 : k = k') : FullUnroll p ls' k' := by
  subst e1; subst e2; exact h

theorem FullUnroll.shape {p : Prog} {ls : List Line} {k : Nat} (h : FullUnroll p ls k) :
    p.Shape := by
  induction h with
  | nil => trivial
  | line hl _ ih => exact ⟨hl, ih⟩
  | block m L K hh _ hrof hbody _ _ _ ih => exact ⟨hh, hrof, hbody, ih⟩

/-- the unrolled program consists of simple instruction lines -/
theorem FullUnroll.simple {p : Prog} {ls : List Line} {k : Nat} (h : FullUnroll p ls k) :
    ∀ l ∈ ls, SimpleLine l := by
  induction h with
  | nil => intro l hl; cases hl
  | line hl _ ih =>
    intro l' hl'
    rcases List.mem_cons.1 hl' with rfl | hl'
    · exact hl
    · exact ih l' hl'
  | block m L K _ _ _ _ _ _ ihb ih =>
    intro l hl
    rcases List.mem_append.1 hl with hl | hl
    · obtain ⟨i, hi, hli⟩ := List.mem_flatMap.1 hl
      exact ihb i (List.mem_range.1 hi) l hli
    · exact ih l hl

theorem FullUnroll.append {p q : Prog} {lp lq : List Line} {kp kq : Nat}
    (hp : FullUnroll p lp kp) (hq : FullUnroll q lq kq) :
    FullUnroll (p.append q) (lp ++ lq) (kp + kq) := by
  induction hp with
  | nil => simpa [Prog.append] using hq
  | line hl _ ih => exact FullUnroll.line hl ih
  | block m L K hh hm hrof hbody hcopies _ _ ih =>
    exact (FullUnroll.block m L K hh hm hrof hbody hcopies ih).cast
      (by simp) (by omega)

/-- the copies `i + 1` (for `i` in `is`) of a body, followed by `r` -/
def copies (c : String) (body r : Prog) : List Nat → Prog
  | [] => r
  | i :: is => (body.subst c (i + 1)).append (copies c body r is)

theorem fullUnroll_copies (c : String) (body r : Prog) (L : Nat → List Line) (K : Nat → Nat)
    (ls : List Line) (k : Nat) (is : List Nat)
    (h : ∀ i ∈ is, FullUnroll (body.subst c (i + 1)) (L i) (K i)) (hr : FullUnroll r ls k) :
    FullUnroll (copies c body r is) (is.flatMap L ++ ls) ((is.map K).sum + k) := by
  induction is with
  | nil => simpa [copies] using hr
  | cons i is ih =>
    have h1 := h i (List.mem_cons_self ..)
    have h2 := ih (fun j hj => h j (List.mem_cons_of_mem _ hj))
    exact (h1.append h2).cast (by simp) (by simp; omega)

theorem flat_render_copies (c : String) (body r : Prog) (is : List Nat) :
    flat (copies c body r is).render =
      is.flatMap (fun i => (flat body.render).map (substC c (i + 1))) ++ flat r.render := by
  induction is with
  | nil => rfl
  | cons i is ih =>
    simp only [copies, Prog.render_append, flat_append, ih, Prog.render_subst, flat_map_subst,
      List.flatMap_cons, List.append_assoc]

/-! ## 4. the pass loop on a program -/

theorem scanPre_simple (ls : List Line) (h : ∀ l ∈ ls, SimpleLine l) (s : SymTab) :
    ScanPre ls s s := by
  induction ls with
  | nil => exact ScanPre.nil s
  | cons l ls ih =>
    exact ScanPre.skip (Or.inr (Or.inl (h l (List.mem_cons_self ..)).kind))
      (ih (fun l' h' => h l' (List.mem_cons_of_mem _ h')))

/-- the tokEOF the lexer and the expander send -/
def eofTok : Token := { typ := .eof, val := "" }

theorem mkBlock_unrolled (c f nl : Token) (m : Nat) (body : Prog) (rof : Line)
    (hbody : body.Shape) :
    (mkBlock c f (numTok m) nl body rof).unrolled (m : Int) =
      (List.range m).flatMap (fun i => (flat body.render).map (substC c.val (i + 1))) := by
  have hr : (mkBlock c f (numTok m) nl body rof).renamed = [] := by
    simp [Block.renamed, mkBlock, labelToks]
  rw [Block.unrolled, hr, List.nil_append, repeated]
  have hc : bodyContent (mkBlock c f (numTok m) nl body rof).body = flat body.render :=
    bodyContent_verbatim _ (shape_render body hbody).2.2
  rw [hc, Int.toNat_natCast]
  congr 1
  funext i
  simp only [iteration, Block.ctx, mkBlock, List.map_nil]
  congr 1
  funext t
  exact substTok_noLabels _ _ _ _

/-- one expansion step of a program whose first block stands after the simple lines `pre` -/
theorem unrollStep_block (pre : List Line) (hpre : ∀ l ∈ pre, SimpleLine l)
    (c f nl : Token) (m : Nat) (body : Prog) (rof : Line) (r : Prog)
    (hh : HeaderOK c f (numTok m) nl) (hm : m < 2 ^ 31) (hrof : RofOK rof)
    (hbody : body.Shape) (hr : r.Shape) :
    UnrollStep
      (flat pre ++ flat (Prog.block c f (numTok m) nl body rof r).render ++ [eofTok])
      (flat pre ++ flat (copies c.val body r (List.range m)).render ++ [eofTok]) := by
  have hb := mkBlock_WF hh hrof hbody
  have hq : ∀ x ∈ flat r.render, x.isTerm = false :=
    flat_inLine_or_nl (shape_render r hr).1
  have hev : expandAndEvaluate (exprToks (mkBlock c f (numTok m) nl body rof).count) [] =
      .ok (m : Int) := by
    have : exprToks (mkBlock c f (numTok m) nl body rof).count = [numTok m] := by
      simp [exprToks, mkBlock, numTok]
    rw [this]; exact eval_numTok m hm
  have hstep := UnrollStep.mk pre (mkBlock c f (numTok m) nl body rof) (flat r.render) eofTok []
    [] (m : Int) (fun l hl => (hpre l hl).1) (scanPre_simple pre hpre []) hb hq rfl hev
  have e1 : flat pre ++ flat (Prog.block c f (numTok m) nl body rof r).render ++ [eofTok] =
      flat pre ++ (mkBlock c f (numTok m) nl body rof).flat ++ flat r.render ++ [eofTok] := by
    simp [Prog.render, Block.flat, Block.header, mkBlock, flat_append, Line.flat]
  have e2 : flat pre ++ flat (copies c.val body r (List.range m)).render ++ [eofTok] =
      flat pre ++ (mkBlock c f (numTok m) nl body rof).unrolled (m : Int) ++ flat r.render ++
        [endTok eofTok] := by
    rw [flat_render_copies, mkBlock_unrolled c f nl m body rof hbody]
    simp [endTok, eofTok]
  rw [e1, e2]
  exact hstep

/-- the unrolling steps of the pass loop follow the manual unrolling -/
theorem unrolls_of_fullUnroll (k : Nat) :
    ∀ (p : Prog) (pre ls : List Line), (∀ l ∈ pre, SimpleLine l) → FullUnroll p ls k →
      Unrolls k (flat pre ++ flat p.render ++ [eofTok]) (flat pre ++ flat ls ++ [eofTok]) := by
  induction k using Nat.strongRecOn with
  | ind k IH =>
    intro p
    induction p with
    | nil =>
      intro pre ls hpre h
      cases h
      have hs := scan_forFree pre eofTok [] [] (fun l hl => (hpre l hl).1)
        (scanPre_simple pre hpre []) rfl
      simpa [Prog.render] using Unrolls.done _ _ hs
    | line l r ih =>
      intro pre ls hpre h
      cases h with
      | line hl hr =>
        have := ih (pre ++ [l]) _ (by
          intro l' hl'
          rcases List.mem_append.1 hl' with h' | h'
          · exact hpre l' h'
          · rw [List.mem_singleton.1 h']; exact hl) hr
        simpa [Prog.render, flat_append] using this
    | block c f n nl body rof r _ _ =>
      intro pre ls hpre h
      cases h with
      | @block _ _ _ _ _ _ ls' k' m L K hh hm hrof hbody hcopies hr =>
        have hstep := unrollStep_block pre hpre c f nl m body rof r hh hm hrof hbody hr.shape
        have hfull := fullUnroll_copies c.val body r L K _ _ (List.range m)
          (fun i hi => hcopies i (List.mem_range.1 hi)) hr
        have hrec := IH _ (by omega) _ pre _ hpre hfull
        have hfin := Unrolls.step hstep hrec
        have e : (List.map K (List.range m)).sum + k' + 1 =
            1 + (List.map K (List.range m)).sum + k' := by omega
        rw [e] at hfin
        exact hfin

/-- **for_unroll_full**: if the manual unrolling of the program `p` is `ls` and takes at most
    12 block expansions, the pass loop of `CompileWarrior` returns the tokens of `ls` -/
theorem for_unroll_full (p : Prog) (ls : List Line) (k : Nat) (h : FullUnroll p ls k)
    (hk : k ≤ 12) :
    forLoop 14 0 (flat p.render ++ [eofTok]) = .ok (flat ls ++ [eofTok]) := by
  have := unrolls_of_fullUnroll k p [] ls (fun _ h => by cases h) h
  simp only [flat_nil, List.nil_append] at this
  exact for_unroll_assemble this hk

theorem Unrolls.prefix {k : Nat} {ts out : List Token} (h : Unrolls k ts out) :
    ∀ j, j < k → ∃ mid ts', Steps j ts mid ∧ UnrollStep mid ts' := by
  induction h with
  | done ts syms _ => intro j hj; omega
  | @step k ts ts1 out hstep _ ih =>
    intro j hj
    cases j with
    | zero => exact ⟨ts, ts1, Steps.refl ts, hstep⟩
    | succ j =>
      obtain ⟨mid, ts', hs, hl⟩ := ih j (by omega)
      exact ⟨mid, ts', Steps.step hstep hs, hl⟩

/-- **for_unroll_full_too_deep**: with 13 or more block expansions the pass loop gives up
    (gmars: "for loop nesting too deep") -/
theorem for_unroll_full_too_deep (p : Prog) (ls : List Line) (k : Nat) (h : FullUnroll p ls k)
    (hk : 13 ≤ k) : forLoop 14 0 (flat p.render ++ [eofTok]) = .error .err := by
  have hu := unrolls_of_fullUnroll k p [] ls (fun _ h => by cases h) h
  simp only [flat_nil, List.nil_append] at hu
  obtain ⟨mid, ts', hs, hl⟩ := hu.prefix 12 (by omega)
  exact for_unroll_too_deep hs hl 14 0 (by omega) (by omega)

/-! ## 5. a worked example (the hypotheses are decidable on concrete programs)

      i for 2
      mov i, 1
      rof
      nop
-/

section Example

private def nlT : Token := ⟨.newline, ""⟩
private def tx (s : String) : Token := ⟨.text, s⟩
private def movLine (a : Token) : Line := ⟨[tx "mov", a, ⟨.comma, ","⟩, numTok 1], nlT⟩
private def nopLine : Line := ⟨[tx "nop"], nlT⟩
private def rofLine : Line := ⟨[tx "rof"], nlT⟩
private def prog1 : Prog :=
  .block (tx "i") (tx "for") (numTok 2) nlT (.line (movLine (tx "i")) .nil) rofLine
    (.line nopLine .nil)

private theorem simple_nop : SimpleLine nopLine :=
  ⟨⟨rfl, by decide⟩, tx "nop", [], rfl, rfl, by decide, by decide⟩

private theorem simple_mov (a : Token) (h : InLine a) : SimpleLine (movLine a) := by
  refine ⟨⟨rfl, ?_⟩, tx "mov", _, rfl, rfl, by decide, by decide⟩
  intro t ht
  simp only [movLine, List.mem_cons, List.not_mem_nil, or_false] at ht
  rcases ht with rfl | rfl | rfl | rfl
  · decide
  · exact h
  · decide
  · decide

private theorem full_prog1 :
    FullUnroll prog1 [movLine (numTok 1), movLine (numTok 2), nopLine] 1 :=
  FullUnroll.block (c := tx "i") (f := tx "for") (nl := nlT)
    (body := .line (movLine (tx "i")) .nil) (rof := rofLine) (r := .line nopLine .nil)
    (ls := [nopLine]) (k := 0)
    2 (fun i => [movLine (numTok (i + 1))]) (fun _ => 0)
    (by decide) (by decide) ⟨⟨rfl, by decide⟩, tx "rof", [], rfl, rfl, by decide⟩
    ⟨simple_mov _ (by decide), trivial⟩
    (by
      intro i _
      have : (Prog.line (movLine (tx "i")) .nil).subst (tx "i").val (i + 1) =
          .line (movLine (numTok (i + 1))) .nil := by
        simp [Prog.subst, Line.subst, movLine, substC, tx, numTok, nlT]
      rw [this]
      exact FullUnroll.line (simple_mov _ (by simp [InLine, numTok])) FullUnroll.nil)
    (FullUnroll.line simple_nop FullUnroll.nil)

example : forLoop 14 0 (flat prog1.render ++ [eofTok]) =
    .ok (flat [movLine (numTok 1), movLine (numTok 2), nopLine] ++ [eofTok]) :=
  for_unroll_full prog1 _ 1 full_prog1 (by decide)

end Example

end ForPass
end Gmars
