/-
  Lemmas about the Go string-function models of `Gmars/Base/GoStr.lean`:
  `fields`, `readLines`, decimal digits / `parseInt`, `trimSpace`, `splitOnChar`.
-/
import Gmars.Base.GoStr

namespace Gmars.GoStr

/-! ## characters -/

theorem isDigit_iff (c : Char) : isDigit c = true ↔ 48 ≤ c.toNat ∧ c.toNat ≤ 57 := by
  simp only [isDigit, Char.le_def, decide_eq_true_eq, UInt32.le_iff_toNat_le, Char.toNat]
  exact Iff.rfl

theorem isDigit_of_charIsDigit {c : Char} (h : c.isDigit = true) : isDigit c = true := by
  rw [isDigit_iff]
  simp only [Char.isDigit, ge_iff_le, Bool.and_eq_true, decide_eq_true_eq, UInt32.le_iff_toNat_le] at h
  exact h

theorem isAsciiSpace_iff (c : Char) : isAsciiSpace c = true ↔
    c = ' ' ∨ c = '\t' ∨ c = '\n' ∨ c = '\x0b' ∨ c = '\x0c' ∨ c = '\r' := by
  simp [isAsciiSpace, or_assoc]

theorem digit_not_space {c : Char} (h : isDigit c = true) : isAsciiSpace c = false := by
  rw [isDigit_iff] at h
  cases hs : isAsciiSpace c with
  | false => rfl
  | true =>
    rw [isAsciiSpace_iff] at hs
    rcases hs with h' | h' | h' | h' | h' | h' <;> subst h' <;> revert h <;> decide

theorem lowerChar_of_not_upper {c : Char} (h : ¬ (65 ≤ c.toNat ∧ c.toNat ≤ 90)) (ha : c.toNat < 128) :
    lowerChar c = c := by
  unfold lowerChar
  rw [if_neg, if_neg, if_neg]
  · simp only [beq_iff_eq]; omega
  · simp only [beq_iff_eq]; omega
  · intro hh
    exact h ⟨Char.le_def.mp hh.1, Char.le_def.mp hh.2⟩

theorem lowerChar_digit {c : Char} (h : isDigit c = true) : lowerChar c = c := by
  rw [isDigit_iff] at h
  exact lowerChar_of_not_upper (by omega) (by omega)

theorem lowerChar_space {c : Char} (h : isAsciiSpace c = true) : lowerChar c = c := by
  rw [isAsciiSpace_iff] at h
  rcases h with h' | h' | h' | h' | h' | h' <;> subst h' <;> decide

/-! ## decimal digits -/

theorem digitsVal_append (a b : Str) :
    digitsVal (a ++ b) = b.foldl (fun n c => n * 10 + (c.toNat - '0'.toNat)) (digitsVal a) := by
  simp [digitsVal, List.foldl_append]

theorem digitsVal_single (c : Char) : digitsVal [c] = c.toNat - 48 := by
  simp [digitsVal]

theorem digitChar_val : ∀ n, n < 10 → (Nat.digitChar n).toNat - 48 = n := by decide

theorem digitsVal_toDigits (n : Nat) : digitsVal (Nat.toDigits 10 n) = n := by
  induction n using Nat.strongRecOn with
  | _ n ih =>
    by_cases h : n < 10
    · rw [Nat.toDigits_of_lt_base h, digitsVal_single, digitChar_val n h]
    · have h1 : 0 < n / 10 := by omega
      have h2 : n % 10 < 10 := by omega
      have := Nat.toDigits_append_toDigits (b := 10) (n := n / 10) (d := n % 10) (by omega) h1 h2
      have e : 10 * (n / 10) + n % 10 = n := by omega
      rw [e] at this
      rw [← this, digitsVal_append, Nat.toDigits_of_lt_base h2]
      simp only [List.foldl_cons, List.foldl_nil]
      rw [ih (n / 10) (by omega)]
      have := digitChar_val (n % 10) h2
      simp only [Char.reduceToNat] at *
      omega

theorem toDigits_all_isDigit (n : Nat) : ∀ c ∈ Nat.toDigits 10 n, isDigit c = true :=
  fun _ hc => isDigit_of_charIsDigit (Nat.isDigit_of_mem_toDigits (by omega) (by omega) hc)

theorem toDigits_all (n : Nat) : (Nat.toDigits 10 n).all isDigit = true := by
  rw [List.all_eq_true]; exact toDigits_all_isDigit n

theorem toDigits_ne_nil (n : Nat) : Nat.toDigits 10 n ≠ [] := Nat.toDigits_ne_nil

theorem toDigits_isEmpty (n : Nat) : (Nat.toDigits 10 n).isEmpty = false := by
  cases h : Nat.toDigits 10 n with
  | nil => exact absurd h (toDigits_ne_nil n)
  | cons _ _ => rfl

/-- a digit string is not taken for a sign by `parseInt` -/
theorem parseInt_digits {ds : Str} (hne : ds ≠ []) (hd : ∀ c ∈ ds, isDigit c = true) (bits : Nat) :
    parseInt ds bits = if digitsVal ds < 2 ^ (bits - 1) then some (digitsVal ds : Int) else none := by
  have hall : ds.all isDigit = true := by rw [List.all_eq_true]; exact hd
  cases ds with
  | nil => exact absurd rfl hne
  | cons c r =>
    have hc : isDigit c = true := hd c (by simp)
    have h1 : c ≠ '+' := by intro h; subst h; revert hc; decide
    have h2 : c ≠ '-' := by intro h; subst h; revert hc; decide
    unfold parseInt
    split
    rename_i neg ds heq
    split at heq
    · rename_i heq'; simp only [List.cons.injEq] at heq'; exact absurd heq'.1 h1
    · rename_i heq'; simp only [List.cons.injEq] at heq'; exact absurd heq'.1 h2
    · cases heq; simp [hall]

theorem parseInt_toDigits (n bits : Nat) (h : n < 2 ^ (bits - 1)) :
    parseInt (Nat.toDigits 10 n) bits = some (n : Int) := by
  rw [parseInt_digits (toDigits_ne_nil n) (toDigits_all_isDigit n), digitsVal_toDigits, if_pos h]

/-! ## strings.Fields -/

theorem fields_go_space1 (c : Char) (s cur : Str) (acc : List Str) (h : isAsciiSpace c = true) :
    fields.go (c :: s) cur acc = fields.go s [] (if cur.isEmpty then acc else cur.reverse :: acc) := by
  simp [fields.go, h]

theorem fields_go_space0 (ws s : Str) (acc : List Str) (h : ∀ c ∈ ws, isAsciiSpace c = true) :
    fields.go (ws ++ s) [] acc = fields.go s [] acc := by
  induction ws with
  | nil => rfl
  | cons c r ih =>
    rw [List.cons_append, fields_go_space1 _ _ _ _ (h c (by simp))]
    exact ih (fun c hc => h c (by simp [hc]))

theorem fields_go_space (ws s cur : Str) (acc : List Str) (h : ∀ c ∈ ws, isAsciiSpace c = true)
    (hne : ws ≠ []) :
    fields.go (ws ++ s) cur acc = fields.go s [] (if cur.isEmpty then acc else cur.reverse :: acc) := by
  cases ws with
  | nil => exact absurd rfl hne
  | cons c r =>
    rw [List.cons_append, fields_go_space1 _ _ _ _ (h c (by simp))]
    exact fields_go_space0 r s _ (fun c hc => h c (by simp [hc]))

theorem fields_go_word (w s cur : Str) (acc : List Str) (h : ∀ c ∈ w, isAsciiSpace c = false) :
    fields.go (w ++ s) cur acc = fields.go s (w.reverse ++ cur) acc := by
  induction w generalizing cur with
  | nil => rfl
  | cons c r ih =>
    have hc : isAsciiSpace c = false := h c (by simp)
    rw [List.cons_append]
    simp only [fields.go, hc, Bool.false_eq_true, if_false]
    rw [ih _ (fun c hc => h c (by simp [hc]))]
    simp

theorem fields_go_item (w g s : Str) (acc : List Str) (hw : ∀ c ∈ w, isAsciiSpace c = false)
    (hwne : w ≠ []) (hg : ∀ c ∈ g, isAsciiSpace c = true) (hgne : g ≠ []) :
    fields.go (w ++ (g ++ s)) [] acc = fields.go s [] (w :: acc) := by
  rw [fields_go_word w _ _ _ hw, fields_go_space g _ _ _ hg hgne]
  simp [hwne]

/-- a word: non-empty, no white space -/
def IsWord (w : Str) : Prop := w ≠ [] ∧ ∀ c ∈ w, isAsciiSpace c = false
/-- a separator: non-empty, white space only -/
def IsSep (g : Str) : Prop := g ≠ [] ∧ ∀ c ∈ g, isAsciiSpace c = true

/-- text made of an optional leading separator and words each followed by a separator -/
def layout (g0 : Str) (wgs : List (Str × Str)) : Str :=
  g0 ++ (wgs.map (fun p => p.1 ++ p.2)).flatten

theorem fields_go_layout (wgs : List (Str × Str)) (acc : List Str)
    (h : ∀ p ∈ wgs, IsWord p.1 ∧ IsSep p.2) :
    fields.go ((wgs.map (fun p => p.1 ++ p.2)).flatten) [] acc = acc.reverse ++ wgs.map (·.1) := by
  induction wgs generalizing acc with
  | nil => simp [fields.go]
  | cons p r ih =>
    obtain ⟨hw, hg⟩ := h p (by simp)
    simp only [List.map_cons, List.flatten_cons, List.append_assoc]
    rw [fields_go_item _ _ _ _ hw.2 hw.1 hg.2 hg.1, ih _ (fun q hq => h q (by simp [hq]))]
    simp

theorem fields_layout (g0 : Str) (wgs : List (Str × Str)) (h0 : ∀ c ∈ g0, isAsciiSpace c = true)
    (h : ∀ p ∈ wgs, IsWord p.1 ∧ IsSep p.2) :
    fields (layout g0 wgs) = wgs.map (·.1) := by
  unfold fields layout
  rw [fields_go_space0 _ _ _ h0, fields_go_layout _ _ h]
  simp

theorem fields_go_layout_tail (wgs : List (Str × Str)) (s : Str) (acc : List Str)
    (h : ∀ p ∈ wgs, IsWord p.1 ∧ IsSep p.2) :
    fields.go ((wgs.map (fun p => p.1 ++ p.2)).flatten ++ s) [] acc =
      fields.go s [] ((wgs.map (·.1)).reverse ++ acc) := by
  induction wgs generalizing acc with
  | nil => simp
  | cons p r ih =>
    obtain ⟨hw, hg⟩ := h p (by simp)
    simp only [List.map_cons, List.flatten_cons, List.append_assoc]
    rw [fields_go_item _ _ _ _ hw.2 hw.1 hg.2 hg.1, ih _ (fun q hq => h q (by simp [hq]))]
    simp

/-- the last word need not be followed by a separator -/
theorem fields_layout_last (g0 : Str) (wgs : List (Str × Str)) (w : Str)
    (h0 : ∀ c ∈ g0, isAsciiSpace c = true) (h : ∀ p ∈ wgs, IsWord p.1 ∧ IsSep p.2) (hw : IsWord w) :
    fields (layout g0 wgs ++ w) = wgs.map (·.1) ++ [w] := by
  unfold fields layout
  rw [List.append_assoc, fields_go_space0 _ _ _ h0, fields_go_layout_tail _ _ _ h]
  have := fields_go_word w [] [] ((wgs.map (·.1)).reverse ++ []) hw.2
  rw [List.append_nil] at this
  rw [this]
  simp [fields.go, hw.1]

/-! ## bufio ReadString('\n') -/

theorem readLines_go_line (l s cur : Str) (acc : List Str) (h : ∀ c ∈ l, c ≠ '\n') :
    readLines.go (l ++ '\n' :: s) cur acc = readLines.go s [] ((cur.reverse ++ l ++ ['\n']) :: acc) := by
  induction l generalizing cur with
  | nil => simp [readLines.go]
  | cons c r ih =>
    have hc : c ≠ '\n' := h c (by simp)
    rw [List.cons_append]
    simp only [readLines.go, beq_iff_eq, hc, if_false]
    rw [ih _ (fun c hc => h c (by simp [hc]))]
    simp

theorem readLines_go_lines (ls : List Str) (acc : List Str) (h : ∀ l ∈ ls, ∀ c ∈ l, c ≠ '\n') :
    readLines.go ((ls.map (· ++ ['\n'])).flatten) [] acc = acc.reverse ++ ls.map (· ++ ['\n']) := by
  induction ls generalizing acc with
  | nil => simp [readLines.go]
  | cons l r ih =>
    simp only [List.map_cons, List.flatten_cons, List.append_assoc, List.singleton_append]
    rw [readLines_go_line _ _ _ _ (h l (by simp)), ih _ (fun q hq => h q (by simp [hq]))]
    simp

/-- `readLines` of newline-terminated lines without inner newlines -/
theorem readLines_lines (ls : List Str) (h : ∀ l ∈ ls, ∀ c ∈ l, c ≠ '\n') :
    readLines ((ls.map (· ++ ['\n'])).flatten) = ls.map (· ++ ['\n']) := by
  unfold readLines
  rw [readLines_go_lines _ _ h]; simp

theorem readLines_go_acc (s cur : Str) (acc : List Str) :
    readLines.go s cur acc = acc.reverse ++ readLines.go s cur [] := by
  induction s generalizing cur acc with
  | nil => simp only [readLines.go]; split <;> simp
  | cons c r ih =>
    simp only [readLines.go]
    split
    · rw [ih, ih (acc := [_])]; simp
    · exact ih _ _

/-! ## TrimSpace -/

/-- white-space-only text -/
def AllSpace (g : Str) : Prop := ∀ c ∈ g, isAsciiSpace c = true
/-- text without white space -/
def NoSpace (w : Str) : Prop := ∀ c ∈ w, isAsciiSpace c = false

theorem AllSpace.append {g h : Str} (hg : AllSpace g) (hh : AllSpace h) : AllSpace (g ++ h) := by
  intro c hc
  rcases List.mem_append.1 hc with hc | hc
  · exact hg c hc
  · exact hh c hc

theorem allSpace_replicate (n : Nat) : AllSpace (List.replicate n ' ') := by
  intro c hc
  rw [(List.mem_replicate.1 hc).2]; decide

theorem allSpace_nil : AllSpace [] := by intro c hc; cases hc

theorem allSpace_cons {c : Char} {g : Str} (hc : isAsciiSpace c = true) (hg : AllSpace g) :
    AllSpace (c :: g) := by
  intro d hd
  rcases List.mem_cons.1 hd with rfl | hd
  · exact hc
  · exact hg d hd

theorem trimLeft_allSpace {g : Str} (hg : AllSpace g) (s : Str) : trimLeft (g ++ s) = trimLeft s :=
  List.dropWhile_append_of_pos hg

theorem trimLeft_allSpace_nil {g : Str} (hg : AllSpace g) : trimLeft g = [] := by
  have := trimLeft_allSpace hg []
  simpa [trimLeft] using this

theorem trimLeft_cons {c : Char} (hc : isAsciiSpace c = false) (s : Str) : trimLeft (c :: s) = c :: s := by
  simp [trimLeft, hc]

/-- `TrimSpace` removes exactly the surrounding white space of a text whose first and last
    characters are not white space -/
theorem trimSpace_core {g g' core : Str} (hg : AllSpace g) (hg' : AllSpace g')
    (hhead : ∀ a r, core = a :: r → isAsciiSpace a = false)
    (hlast : ∀ z r, core = r ++ [z] → isAsciiSpace z = false) :
    trimSpace (g ++ core ++ g') = core := by
  unfold trimSpace
  rw [List.append_assoc, trimLeft_allSpace hg]
  cases core with
  | nil =>
    rw [List.nil_append, trimLeft_allSpace_nil hg']
    rfl
  | cons a r =>
    rw [List.cons_append, trimLeft_cons (hhead a r rfl), ← List.cons_append, List.reverse_append]
    have hr : AllSpace g'.reverse := fun c hc => hg' c (List.mem_reverse.1 hc)
    rw [trimLeft_allSpace hr]
    rcases List.eq_nil_or_concat (a :: r) with h | ⟨r', z, h⟩
    · cases h
    · rw [h] at hlast ⊢
      have := hlast z r' (by simp)
      simp only [List.concat_eq_append, List.reverse_append, List.reverse_cons, List.reverse_nil,
        List.nil_append, List.cons_append]
      rw [trimLeft_cons this]
      simp

/-- variant for a text without any white space -/
theorem trimSpace_noSpace {g g' w : Str} (hg : AllSpace g) (hg' : AllSpace g') (hw : NoSpace w) :
    trimSpace (g ++ w ++ g') = w :=
  trimSpace_core hg hg' (fun a r h => hw a (by simp [h])) (fun z r h => hw z (by simp [h]))

/-! ## token split at white space -/

theorem takeWhile_noSpace {w s : Str} (hw : NoSpace w) (hs : ∀ c r, s = c :: r → isAsciiSpace c = true) :
    (w ++ s).takeWhile (fun c => !isAsciiSpace c) = w := by
  rw [List.takeWhile_append_of_pos (by intro c hc; simp [hw c hc])]
  cases s with
  | nil => simp
  | cons c r => simp [hs c r rfl]

theorem dropWhile_noSpace {w s : Str} (hw : NoSpace w) (hs : ∀ c r, s = c :: r → isAsciiSpace c = true) :
    (w ++ s).dropWhile (fun c => !isAsciiSpace c) = s := by
  rw [List.dropWhile_append_of_pos (by intro c hc; simp [hw c hc])]
  cases s with
  | nil => simp
  | cons c r => simp [hs c r rfl]

/-! ## strings.Split at a character -/

theorem splitOnChar_go_skip (c : Char) (a s cur : Str) (acc : List Str) (ha : ∀ x ∈ a, x ≠ c) :
    splitOnChar.go c (a ++ s) cur acc = splitOnChar.go c s (a.reverse ++ cur) acc := by
  induction a generalizing cur with
  | nil => rfl
  | cons x r ih =>
    have hx : x ≠ c := ha x (by simp)
    rw [List.cons_append]
    simp only [splitOnChar.go, beq_iff_eq, hx, if_false]
    rw [ih _ (fun y hy => ha y (by simp [hy]))]
    simp

theorem splitOnChar_none (c : Char) (a : Str) (ha : ∀ x ∈ a, x ≠ c) : splitOnChar a c = [a] := by
  have := splitOnChar_go_skip c a [] [] [] ha
  simp only [List.append_nil] at this
  simp [splitOnChar, this, splitOnChar.go]

theorem splitOnChar_one (c : Char) (a b : Str) (ha : ∀ x ∈ a, x ≠ c) (hb : ∀ x ∈ b, x ≠ c) :
    splitOnChar (a ++ c :: b) c = [a, b] := by
  have h1 := splitOnChar_go_skip c a (c :: b) [] [] ha
  have h2 := splitOnChar_go_skip c b [] [] [a] hb
  simp only [List.append_nil] at h1 h2
  simp [splitOnChar, h1, splitOnChar.go, h2]

theorem takeWhile_ne_self (c : Char) (s : Str) (h : ∀ x ∈ s, x ≠ c) : s.takeWhile (· != c) = s := by
  have := List.takeWhile_append_of_pos (p := (· != c)) (l₁ := s) (l₂ := [])
    (by intro x hx; simp [h x hx])
  simpa using this

end Gmars.GoStr
