/-
  The one-line renderings `Instruction.String()` and `Instruction.NormString(coresize)`
  (models `instrString`, `normString`) identify the instruction.
-/
import Gmars.Model.ListingP
import Gmars.Proofs.RoundTripB

namespace Gmars.InstrString
open Gmars Gmars.GoStr Gmars.RoundTrip

/-! ## the tables -/

theorem opName_length (o : Op) : o.name.toList.length = 3 := by cases o <;> decide
theorem opName_inj (a b : Op) (h : a.name.toList = b.name.toList) : a = b := by
  revert h; cases a <;> cases b <;> decide
theorem modName_length (o : Modifier) : (padRight 2 o.name.toList).length = 2 := by
  cases o <;> decide
theorem modName_inj (p q : Modifier) (h : padRight 2 p.name.toList = padRight 2 q.name.toList) :
    p = q := by
  revert h; cases p <;> cases q <;> decide
theorem sym_inj (a b : Mode) (h : a.sym = b.sym) : a = b := by
  revert h; cases a <;> cases b <;> decide

/-! ## blank-padded columns -/

/-- a column entry: not empty, no blank -/
def Tok (X : Str) : Prop := X ≠ [] ∧ ∀ c ∈ X, c ≠ ' '

theorem dropWhile_pad (k : Nat) (X r : Str) (h : Tok X) :
    (List.replicate k ' ' ++ (X ++ r)).dropWhile (· == ' ') = X ++ r := by
  induction k with
  | zero =>
    cases X with
    | nil => exact absurd rfl h.1
    | cons c t =>
      have : c ≠ ' ' := h.2 c (by simp)
      simp [this]
  | succ k ih => simpa [List.replicate_succ, List.dropWhile_cons] using ih

theorem takeWhile_tok (X r : Str) (h : ∀ c ∈ X, c ≠ ' ') :
    (X ++ ' ' :: r).takeWhile (· != ' ') = X ∧ (X ++ ' ' :: r).dropWhile (· != ' ') = ' ' :: r := by
  induction X with
  | nil => simp
  | cons c t ih =>
    have hc : c ≠ ' ' := h c (by simp)
    have := ih (fun c hc => h c (by simp [hc]))
    simp [hc, this]

theorem pad_split {n : Nat} {X X' r r' : Str} (hX : Tok X) (hX' : Tok X')
    (h : padLeft n X ++ ' ' :: r = padLeft n X' ++ ' ' :: r') : X = X' ∧ r = r' := by
  unfold padLeft at h
  rw [List.append_assoc, List.append_assoc] at h
  have h1 := congrArg (List.dropWhile (· == ' ')) h
  rw [dropWhile_pad _ _ _ hX, dropWhile_pad _ _ _ hX'] at h1
  have t := takeWhile_tok X r hX.2
  have t' := takeWhile_tok X' r' hX'.2
  have e1 := congrArg (List.takeWhile (· != ' ')) h1
  have e2 := congrArg (List.dropWhile (· != ' ')) h1
  rw [t.1, t'.1] at e1
  rw [t.2, t'.2] at e2
  exact ⟨e1, by simpa using e2⟩

theorem pad_last {n : Nat} {X X' : Str} (hX : Tok X) (hX' : Tok X')
    (h : padLeft n X = padLeft n X') : X = X' := by
  unfold padLeft at h
  have h1 := congrArg (List.dropWhile (· == ' ')) h
  have a := dropWhile_pad (n - X.length) X [] hX
  have a' := dropWhile_pad (n - X'.length) X' [] hX'
  rw [List.append_nil] at a a'
  rw [a, a'] at h1
  exact h1

/-! ## the line -/

def line (o : Op) (md : Modifier) (am : Mode) (X : Str) (bm : Mode) (Y : Str) : Str :=
  o.name.toList ++ ('.' :: (padRight 2 md.name.toList ++
    (' ' :: am.sym :: ' ' :: (padLeft 5 X ++ ' ' :: bm.sym :: ' ' :: padLeft 5 Y))))

theorem line_inj {o o' : Op} {md md' : Modifier} {am am' bm bm' : Mode} {X X' Y Y' : Str}
    (hX : Tok X) (hX' : Tok X') (hY : Tok Y) (hY' : Tok Y')
    (h : line o md am X bm Y = line o' md' am' X' bm' Y') :
    o = o' ∧ md = md' ∧ am = am' ∧ X = X' ∧ bm = bm' ∧ Y = Y' := by
  unfold line at h
  obtain ⟨h1, h2⟩ := List.append_inj h (by rw [opName_length, opName_length])
  rw [List.cons.injEq] at h2
  obtain ⟨h3, h4⟩ := List.append_inj h2.2 (by rw [modName_length, modName_length])
  simp only [List.cons.injEq, true_and] at h4
  obtain ⟨h5, h6⟩ := h4
  obtain ⟨h7, h8⟩ := pad_split hX hX' h6
  simp only [List.cons.injEq, true_and] at h8
  exact ⟨opName_inj _ _ h1, modName_inj _ _ h3, sym_inj _ _ h5, h7, sym_inj _ _ h8.1,
    pad_last hY hY' h8.2⟩

theorem instrString_eq (i : Instr) :
    instrString i = line i.op i.md i.am (natDigits i.a.toNat) i.bm (natDigits i.b.toNat) := by
  have e1 : ".".toList = ['.'] := by decide
  have e2 : " ".toList = [' '] := by decide
  simp [instrString, line, e1, e2]

theorem normString_eq (m : UInt64) (i : Instr) :
    normString m i = line i.op i.md i.am (showInt (signedAddressGo i.a m)) i.bm
      (showInt (signedAddressGo i.b m)) := by
  have e1 : ".".toList = ['.'] := by decide
  have e2 : " ".toList = [' '] := by decide
  simp [normString, line, e1, e2]

/-! ## numerals -/

theorem tok_showInt (v : Int) : Tok (showInt v) := by
  have h := showInt_numeral v
  refine ⟨h.ne, fun c hc e => ?_⟩
  have := h.nospace c hc
  subst e
  revert this; decide

theorem showInt_inj {v w : Int} (h : showInt v = showInt w) : v = w := by
  have a := (showInt_numeral v).parse
  rw [h, (showInt_numeral w).parse] at a
  exact (Option.some.inj a).symm

theorem tok_natDigits (n : Nat) : Tok (natDigits n) := by
  have := tok_showInt (n : Int)
  have hn : ¬ ((n : Int) < 0) := by omega
  simpa [showInt, hn] using this

theorem natDigits_inj {v w : Nat} (h : natDigits v = natDigits w) : v = w := by
  have := congrArg digitsVal h
  simpa [natDigits, digitsVal_toDigits] using this

theorem instr_ext {i j : Instr} (h1 : i.op = j.op) (h2 : i.md = j.md) (h3 : i.am = j.am)
    (h4 : i.a = j.a) (h5 : i.bm = j.bm) (h6 : i.b = j.b) : i = j := by
  cases i; cases j; simp_all

/-- `Instruction.String()` identifies the instruction -/
theorem instrString_injective (i j : Instr) (h : instrString i = instrString j) : i = j := by
  rw [instrString_eq, instrString_eq] at h
  obtain ⟨h1, h2, h3, h4, h5, h6⟩ :=
    line_inj (tok_natDigits _) (tok_natDigits _) (tok_natDigits _) (tok_natDigits _) h
  exact instr_ext h1 h2 h3 (UInt64.toNat_inj.1 (natDigits_inj h4)) h5
    (UInt64.toNat_inj.1 (natDigits_inj h6))

/-! ## signed fields -/

theorem toInt_toInt64 (x : UInt64) : x.toInt64.toInt = (x.toNat : Int).bmod (2 ^ 64) := by
  unfold Int64.toInt
  rw [UInt64.toBitVec_toInt64, BitVec.toInt_eq_toNat_bmod]
  rfl

/-- inside the core Go's wrapping `signedAddress` is the exact formula -/
theorem signedAddressGo_eq (a m : UInt64) (h : a < m) : signedAddressGo a m = addressSigned m a := by
  unfold signedAddressGo addressSigned
  have ha := a.toNat_lt
  have hm := m.toNat_lt
  have hlt := UInt64.lt_iff_toNat_lt.1 h
  split
  · rename_i hgt
    have hg := UInt64.lt_iff_toNat_lt.1 hgt
    rw [UInt64.toNat_div] at hg
    have h2 : (2 : UInt64).toNat = 2 := rfl
    rw [h2] at hg
    rw [Int64.toInt_neg, Int64.toInt_sub, toInt_toInt64, toInt_toInt64]
    simp only [Int.bmod_def]
    omega
  · rename_i hgt
    have hg : ¬ (m / 2).toNat < a.toNat := fun x => hgt (UInt64.lt_iff_toNat_lt.2 x)
    rw [UInt64.toNat_div] at hg
    have h2 : (2 : UInt64).toNat = 2 := rfl
    rw [h2] at hg
    rw [toInt_toInt64]
    simp only [Int.bmod_def]
    omega

theorem addressSigned_inj (m a b : UInt64) (ha : a < m) (hb : b < m)
    (h : addressSigned m a = addressSigned m b) : a = b := by
  unfold addressSigned at h
  have ha' := UInt64.lt_iff_toNat_lt.1 ha
  have hb' := UInt64.lt_iff_toNat_lt.1 hb
  apply UInt64.toNat_inj.1
  split at h <;> split at h <;> omega

theorem signedAddressGo_inj (m a b : UInt64) (ha : a < m) (hb : b < m)
    (h : signedAddressGo a m = signedAddressGo b m) : a = b := by
  rw [signedAddressGo_eq _ _ ha, signedAddressGo_eq _ _ hb] at h
  exact addressSigned_inj m a b ha hb h

/-- inside the core `Instruction.NormString(coresize)` identifies the instruction -/
theorem normString_injective (m : UInt64) (i j : Instr) (hi : i.a < m ∧ i.b < m)
    (hj : j.a < m ∧ j.b < m) (h : normString m i = normString m j) : i = j := by
  rw [normString_eq, normString_eq] at h
  obtain ⟨h1, h2, h3, h4, h5, h6⟩ :=
    line_inj (tok_showInt _) (tok_showInt _) (tok_showInt _) (tok_showInt _) h
  exact instr_ext h1 h2 h3 (signedAddressGo_inj m _ _ hi.1 hj.1 (showInt_inj h4)) h5
    (signedAddressGo_inj m _ _ hi.2 hj.2 (showInt_inj h6))

end Gmars.InstrString
