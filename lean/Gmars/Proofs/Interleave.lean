/-
  Independence of jobs that share no mutable state (C14): under ANY interleaving each job ends in
  the state it reaches when run alone.
-/
namespace Gmars.Interleave

variable {ι : Type} [DecidableEq ι] {σ : Type}

def upd (st : ι → σ) (i : ι) (v : σ) : ι → σ := fun j => if j = i then v else st j

/-- run a schedule: each entry lets one job take one step on ITS OWN state -/
def runSched (step : ι → σ → σ) (init : ι → σ) (sched : List ι) : ι → σ :=
  sched.foldl (fun st i => upd st i (step i (st i))) init

def iter (f : σ → σ) : Nat → σ → σ
  | 0, s => s
  | n + 1, s => iter f n (f s)

/-- every job's final state depends only on the number of its own steps that were scheduled:
    it is the state reached by running that job alone for as many steps -/
theorem jobs_independent (step : ι → σ → σ) (init : ι → σ) (sched : List ι) (i : ι) :
    runSched step init sched i = iter (step i) (sched.count i) (init i) := by
  induction sched generalizing init with
  | nil => rfl
  | cons j l ih =>
    have e : runSched step init (j :: l) = runSched step (upd init j (step j (init j))) l := rfl
    rw [e, ih]
    by_cases h : i = j
    · subst h
      simp [upd, iter]
    · have hji : j ≠ i := fun e => h e.symm
      rw [List.count_cons_of_ne (by simpa using hji)]
      simp [upd, h]

end Gmars.Interleave
