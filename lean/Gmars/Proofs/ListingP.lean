/-
  The pMARS-style printers: `signedAddress` with Go's wrapping arithmetic agrees with the exact
  formula inside the core, and `LoadCodePMARS()` without its header line reads back to the warrior.
-/
import Gmars.Model.ListingP
import Gmars.Proofs.RoundTrip

namespace Gmars.ListingP
open Gmars Gmars.GoStr

theorem toInt_toInt64 (a : UInt64) : a.toInt64.toInt = (a.toNat : Int).bmod (2 ^ 64) := by
  show a.toBitVec.toInt = _
  rw [BitVec.toInt_eq_toNat_bmod]; rfl

theorem signedAddressGo_eq (m a : UInt64) (ha : a < m) : signedAddressGo a m = addressSigned m a := by
  unfold signedAddressGo addressSigned
  have ha' : a.toNat < m.toNat := UInt64.lt_iff_toNat_lt.1 ha
  have hm : m.toNat < 2 ^ 64 := m.toNat_lt
  have hd : (m / 2).toNat = m.toNat / 2 := by simp [UInt64.toNat_div]
  by_cases h : a > m / 2
  · have h' : m.toNat / 2 < a.toNat := by
      have := UInt64.lt_iff_toNat_lt.1 h; omega
    simp only [h, if_true, Int64.toInt_neg, Int64.toInt_sub, toInt_toInt64]
    simp only [Int.bmod_def]
    omega
  · have h' : ¬ m.toNat / 2 < a.toNat := by
      intro hh; apply h; apply UInt64.lt_iff_toNat_lt.2; omega
    simp only [h, if_false, toInt_toInt64]
    simp only [Int.bmod_def]
    omega

theorem pmars_body (m : UInt64) (legacy : Bool) (name author : Str) (w : WarriorData)
    (h : 0 < w.code.size) :
    (loadCodePMARS m legacy name author w).drop (pmarsHeader name author w.code.size).length =
      loadCode m legacy w ++ ['\n'] := by
  unfold loadCodePMARS
  rw [if_pos h, List.append_assoc, List.drop_left]
  rfl

theorem pmars_empty (m : UInt64) (legacy : Bool) (name author : Str) (w : WarriorData)
    (h : w.code.size = 0) :
    loadCodePMARS m legacy name author w = pmarsHeader name author w.code.size := by
  unfold loadCodePMARS
  rw [if_neg (by omega)]

/-- an extra empty line after newline-terminated lines is invisible to the reference reader -/
theorem readText_lines_nl (L : List Str) (hnl : ∀ l ∈ L, ∀ c ∈ l, c ≠ '\n') :
    Spec.readText ((L.map (· ++ ['\n'])).flatten ++ ['\n']) =
      Spec.readText ((L.map (· ++ ['\n'])).flatten) := by
  have hnl' : ∀ l ∈ L ++ [[]], ∀ c ∈ l, c ≠ '\n' := by
    intro l hl
    rcases List.mem_append.1 hl with hl | hl
    · exact hnl l hl
    · simp only [List.mem_singleton] at hl; subst hl; intro c hc; cases hc
  have e : (L.map (· ++ ['\n'])).flatten ++ ['\n'] = ((L ++ [[]]).map (· ++ ['\n'])).flatten := by
    simp
  have t0 : trimSpace (Spec.stripComment ([] ++ ['\n'])) = [] := by decide
  unfold Spec.readText
  rw [e, readLines_lines _ hnl', readLines_lines _ hnl]
  simp only [List.map_append, List.filter_append, List.map_cons, List.map_nil, t0, List.filter_cons,
    List.isEmpty_nil, Bool.not_true, Bool.false_eq_true, if_false, List.filter_nil, List.append_nil]

theorem readText_loadCode_nl (m : UInt64) (legacy : Bool) (w : WarriorData)
    (hne : w.code.size ≠ 0) (hs : 0 ≤ w.start) :
    Spec.readText (loadCode m legacy w ++ ['\n']) = Spec.readText (loadCode m legacy w) := by
  have hnl : ∀ l ∈ (if legacy then [] else ["       ORG      START".toList]) ++
        RoundTrip.bodies m legacy w ++
        (if legacy then ["       END      START".toList] else []), ∀ c ∈ l, c ≠ '\n' := by
    intro l hl
    simp only [List.mem_append] at hl
    rcases hl with (hl | hl) | hl
    · cases legacy
      · simp only [Bool.false_eq_true, if_false, List.mem_singleton] at hl; subst hl; decide
      · simp at hl
    · obtain ⟨p, _, rfl⟩ := List.mem_map.1 hl
      exact RoundTrip.lbody_no_nl _ _ _ _
    · cases legacy
      · simp at hl
      · simp only [if_true, List.mem_singleton] at hl; subst hl; decide
  rw [RoundTrip.loadCode_lines m legacy w hne hs]
  exact readText_lines_nl _ hnl

theorem pmars_listing_roundtrip (m : UInt64) (legacy : Bool) (name author : Str) (w : WarriorData)
    (hs : 0 ≤ w.start) (hlt : w.start < w.code.size)
    (hl : legacy = true → ∀ i ∈ w.code.toList, Spec.Legal88 i = true) :
    ∃ t, Spec.readText ((loadCodePMARS m legacy name author w).drop
        (pmarsHeader name author w.code.size).length) = some t ∧
      Spec.denotes m.toNat t w.code.toList w.start = true := by
  have h0 : 0 < w.code.size := by omega
  rw [pmars_body m legacy name author w h0, readText_loadCode_nl m legacy w (by omega) hs]
  exact RoundTrip.listing_roundtrip_gen m legacy w hs hlt hl

end Gmars.ListingP
