/-
  C09, loader half: layout-only variations of a load file do not change what is read.

  `Layout` describes a perturbation of the canonical load-file text `Spec.printLoad`:
    per line    — a letter-case mask for the mnemonic(.modifier) / `ORG` / `END` word,
                  the gaps of `load_print_any_blanks` (blanks, tabs, VT, FF, CR),
                  an optional trailing comment `;…`, LF or CR-LF as line end;
    in between  — any number of blank lines, white-space-only lines, indented comments and
                  full-line comments (`Filler`), before every line and after the last one;
    at the end  — the final newline may be missing.

  Main theorems
    * `load_print_any_layout_meta` — for every layout, in both dialects, the reader returns the
      same instructions and entry point; name / author / strategy are `Meta.step` folded over
      the raw lines read (`Layout.metaRead`): only full-line comments that begin with `;name`,
      `;author`, `;strategy` (any letter case) change them (`meta_step_name`, `meta_step_author`,
      `meta_step_strategy`, `meta_step_plain` in `LoadLayoutBase.lean`).
    * `load_print_any_layout` — if no filler line begins with one of these keywords, the result is
      exactly the result for the unperturbed text (`Unknown` / `Anonymous` / no strategy).
    * `load_layout_agrees` — in any case code and entry point are those read from `Spec.printLoad`.
    * `render_canonical` — the trivial layout is `Spec.printLoad` itself.
-/
import Gmars.Proofs.LoadLayoutLoop
import Gmars.Proofs.RoundTrip

namespace Gmars.LoadLayout
open Gmars Gmars.GoStr Gmars.RoundTrip

/-! ## the perturbation -/

/-- what follows the last field of a line: an optional comment `;text`, an optional CR -/
structure Trail where
  comment : Option Str := none
  cr : Bool := false

def Trail.render (t : Trail) : Str :=
  (match t.comment with
   | none => []
   | some c => ';' :: c) ++ (if t.cr then ['\r'] else [])

/-- a comment may contain anything (commas, semicolons, letters of any kind) but a newline -/
def Trail.ok (t : Trail) : Prop := ∀ c, t.comment = some c → ∀ x ∈ c, x ≠ '\n'

/-- a line between the significant lines: white space only (`blank []` is the empty line,
    `blank ['\r']` an empty CR-LF line), or a comment after optional white space
    (`comment [] text` is a full-line comment, the only kind that can be a metadata line) -/
inductive Filler
  | blank (ws : Str)
  | comment (ws : Str) (text : Str)

def Filler.content : Filler → Str
  | .blank ws => ws
  | .comment ws text => ws ++ ';' :: text

def Filler.ok : Filler → Prop
  | .blank ws => Blanks ws
  | .comment ws text => Blanks ws ∧ ∀ c ∈ text, c ≠ '\n'

/-- the line is no metadata line (see `PlainLine`) -/
def Filler.plain (f : Filler) : Prop := PlainLine f.content

/-- layout of one instruction line -/
structure InstrLay where
  pre : List Filler := []
  mask : List Bool := []
  gaps : Gaps := {}
  trail : Trail := {}
  instr : Instr

/-- layout of the `ORG n` ('94) / `END n` ('88) line -/
structure DirLay where
  pre : List Filler := []
  mask : List Bool := []
  gaps : DirGaps := {}
  trail : Trail := {}

structure Layout where
  dir : DirLay := {}
  lines : List InstrLay
  post : List Filler := []
  finalNewline : Bool := true

/-- the significant part of an instruction line, with the mnemonic word re-cased -/
def instrBodyM (legacy : Bool) (mask : List Bool) (g : Gaps) (i : Instr) : Str :=
  g.g0 ++ recase mask (opWord legacy i) ++ g.g1 ++ [i.am.sym] ++ g.g2 ++ Nat.toDigits 10 i.a.toNat ++
    g.g3 ++ [','] ++ g.g4 ++ [i.bm.sym] ++ g.g5 ++ Nat.toDigits 10 i.b.toNat ++ g.g6

def dirBodyM (mask : List Bool) (d : DirGaps) (kw : Str) (n : Nat) : Str :=
  d.d0 ++ recase mask kw ++ d.d1 ++ Nat.toDigits 10 n ++ d.d2

def InstrLay.content (legacy : Bool) (p : InstrLay) : Str :=
  instrBodyM legacy p.mask p.gaps p.instr ++ p.trail.render

def DirLay.content (d : DirLay) (kw : Str) (n : Nat) : Str :=
  dirBodyM d.mask d.gaps kw n ++ d.trail.render

def fillerItems (fs : List Filler) : List (Str × Eff) := fs.map (fun f => (f.content, Eff.filler))

def instrItems (legacy : Bool) (p : InstrLay) : List (Str × Eff) :=
  fillerItems p.pre ++ [(p.content legacy, Eff.push p.instr)]

/-- the lines of the '94 text (contents without line end): `ORG n` first -/
def Layout.items94 (L : Layout) (start : Nat) : List (Str × Eff) :=
  fillerItems L.dir.pre ++ (L.dir.content "ORG".toList start, Eff.setStart start) ::
    (L.lines.flatMap (instrItems false) ++ fillerItems L.post)

/-- the lines of the '88 text in front of `END n` -/
def Layout.body88 (L : Layout) : List (Str × Eff) :=
  L.lines.flatMap (instrItems true) ++ fillerItems L.dir.pre

def Layout.items88 (L : Layout) (start : Nat) : List (Str × Eff) :=
  L.body88 ++ (L.dir.content "END".toList start, Eff.setStart start) :: fillerItems L.post

/-- the perturbed text -/
def Layout.render (L : Layout) (legacy : Bool) (start : Nat) : Str :=
  joinLines ((if legacy then L.items88 start else L.items94 start).map (·.1)) L.finalNewline

/-- the raw lines the reader consumes: all of them in '94, those in front of `END` in '88 -/
def Layout.linesRead (L : Layout) (legacy : Bool) (start : Nat) : List Str :=
  if legacy then L.body88.map (fun p => p.1 ++ ['\n'])
  else (rawLines (L.items94 start) L.finalNewline).map (·.1)

/-- name / author / strategy after these lines -/
def Layout.metaRead (L : Layout) (legacy : Bool) (start : Nat) : Meta :=
  (L.linesRead legacy start).foldl Meta.step {}

structure Layout.ok (L : Layout) (M : UInt64) (legacy : Bool) : Prop where
  dirPre : ∀ f ∈ L.dir.pre, f.ok
  dirGaps : L.dir.gaps.ok
  dirTrail : L.dir.trail.ok
  lines : ∀ p ∈ L.lines, (∀ f ∈ p.pre, f.ok) ∧ p.trail.ok ∧ RoundTrip.LineOK M legacy (p.gaps, p.instr)
  post : ∀ f ∈ L.post, f.ok

/-- no filler line is a metadata line -/
def Layout.plain (L : Layout) : Prop :=
  (∀ f ∈ L.dir.pre, f.plain) ∧ (∀ p ∈ L.lines, ∀ f ∈ p.pre, f.plain) ∧ (∀ f ∈ L.post, f.plain)

/-- '94: the text read is the whole text -/
theorem linesRead_94 (L : Layout) (start : Nat)
    (h : ∀ p ∈ L.items94 start, ∀ c ∈ p.1, c ≠ '\n') :
    L.linesRead false start = readLines (L.render false start) := by
  simp only [Layout.linesRead, Layout.render, Bool.false_eq_true, if_false]
  rw [readLines_joinLines _ _ h]

/-! ## tails -/

theorem trail_tailOK (t : Trail) (e : Str) (he : e = [] ∨ e = ['\n']) : TailOK (t.render ++ e) := by
  have hE : AllSpace e := by rcases he with rfl | rfl; exact allSpace_nil; exact allSpace_nl
  unfold Trail.render
  cases t.comment with
  | some c => exact .inr ⟨_, rfl⟩
  | none =>
    left
    cases t.cr
    · simpa using hE
    · simpa using allSpace_cr.append hE

theorem trail_no_nl (t : Trail) (ht : t.ok) : ∀ c ∈ t.render, c ≠ '\n' := by
  intro c hc
  unfold Trail.render at hc
  rcases List.mem_append.1 hc with hc | hc
  · cases h : t.comment with
    | none => rw [h] at hc; cases hc
    | some x =>
      rw [h] at hc
      rcases List.mem_cons.1 hc with rfl | hc
      · decide
      · exact ht x h c hc
  · by_cases hcr : t.cr = true
    · rw [if_pos hcr] at hc; simp only [List.mem_singleton] at hc; subst hc; decide
    · rw [if_neg hcr] at hc; cases hc

/-- a character below `'A'` that is not in `B` is not in a re-spelling of `B` either -/
theorem no_char_of_lower {B B' : Str} {x : Char} (hx : x.toNat < 65) (hB : ∀ c ∈ B, c ≠ x)
    (hlow : toLower B' = toLower B) : ∀ c ∈ B', c ≠ x := by
  intro c hc e
  subst e
  have : lowerChar c ∈ toLower B' := List.mem_map.2 ⟨_, hc, rfl⟩
  rw [hlow] at this
  obtain ⟨d, hd, hd'⟩ := List.mem_map.1 this
  have e1 : lowerChar c = c := (lowerChar_eq_iff hx).2 rfl
  rw [e1] at hd'
  exact hB d hd ((lowerChar_eq_iff hx).1 hd')

/-! ## filler lines -/

theorem filler_spec94 (M : UInt64) (f : Filler) (hf : f.ok) : LineSpec (line94 M) f.content .filler := by
  intro e he st
  have hE : AllSpace e := by rcases he with rfl | rfl; exact allSpace_nil; exact allSpace_nl
  cases f with
  | blank ws => exact line94_filler M st ws e (blanks_allSpace hf) (.inl hE)
  | comment ws text =>
    simp only [Filler.content, List.append_assoc, List.cons_append]
    exact line94_filler M st ws _ (blanks_allSpace hf.1) (.inr ⟨_, rfl⟩)

theorem filler_spec88 (M : UInt64) (f : Filler) (hf : f.ok) : LineSpec (line88 M) f.content .filler := by
  intro e he st
  have hE : AllSpace e := by rcases he with rfl | rfl; exact allSpace_nil; exact allSpace_nl
  cases f with
  | blank ws => exact line88_filler M st ws e (blanks_allSpace hf) (.inl hE)
  | comment ws text =>
    simp only [Filler.content, List.append_assoc, List.cons_append]
    exact line88_filler M st ws _ (blanks_allSpace hf.1) (.inr ⟨_, rfl⟩)

theorem filler_no_nl (f : Filler) (hf : f.ok) : ∀ c ∈ f.content, c ≠ '\n' := by
  cases f with
  | blank ws => exact fun c hc => (hf c hc).2
  | comment ws text =>
    intro c hc
    simp only [Filler.content, List.mem_append, List.mem_cons] at hc
    rcases hc with hc | rfl | hc
    · exact (hf.1 c hc).2
    · decide
    · exact hf.2 c hc

/-! ## instruction lines -/

theorem toLower_instrBodyM (legacy : Bool) (mask : List Bool) (g : Gaps) (i : Instr) :
    toLower (instrBodyM legacy mask g i) = toLower (instrBody legacy g i) := by
  simp only [instrBodyM, instrBody, toLower_append, toLower_recase]

theorem toLower_dirBodyM (mask : List Bool) (d : DirGaps) (kw : Str) (n : Nat) :
    toLower (dirBodyM mask d kw n) = toLower (dirBody d kw n) := by
  simp only [dirBodyM, dirBody, toLower_append, toLower_recase]

theorem instrBody_semi (legacy : Bool) (g : Gaps) (i : Instr) (hg : g.ok) :
    ∀ c ∈ instrBody legacy g i, c ≠ ';' ∧ lowerChar c ≠ ';' := by
  have hparts := instrLine_parts legacy g i hg
  have hsemi := layout_no_semi g.g0 _ (blanks_sep hg.b0) hparts
  rw [← instrLine_layout] at hsemi
  exact fun c hc => hsemi c (List.mem_append_left _ hc)

theorem dirBody_semi (d : DirGaps) (kw : Str) (n : Nat) (hd : d.ok) (hk : LowWord kw) :
    ∀ c ∈ dirBody d kw n, c ≠ ';' ∧ lowerChar c ≠ ';' := by
  have hparts := dirLine_parts d kw n hd hk
  have hsemi := layout_no_semi d.d0 _ (blanks_sep hd.b0) hparts
  rw [← dirLine_layout] at hsemi
  exact fun c hc => hsemi c (List.mem_append_left _ hc)

theorem instrBody_ne_nil (legacy : Bool) (g : Gaps) (i : Instr) : instrBody legacy g i ≠ [] := by
  intro h
  have : ',' ∈ instrBody legacy g i := by simp [instrBody]
  rw [h] at this; cases this

theorem dirBody_ne_nil (d : DirGaps) (kw : Str) (n : Nat) : dirBody d kw n ≠ [] := by
  intro h
  have := congrArg List.length h
  have h2 := toDigits_ne_nil n
  simp only [dirBody, List.length_append, List.length_nil] at this
  have : (Nat.toDigits 10 n).length = 0 := by omega
  exact h2 (List.eq_nil_of_length_eq_zero this)

/-- the head of a perturbed significant line is not `;` -/
theorem head_perturbed {B B' T : Str} (hne : B ≠ []) (hB : ∀ c ∈ B, c ≠ ';' ∧ lowerChar c ≠ ';')
    (hlow : toLower B' = toLower B) : ((B' ++ T).head? == some ';') = false :=
  head_append_ne_semi (ne_nil_of_lower hne hlow) (no_semi_of_lower (fun c hc => (hB c hc).2) hlow)

theorem instr_spec94 (M : UInt64) (p : InstrLay) (hM : M.toNat < 2 ^ 63)
    (h : RoundTrip.LineOK M false (p.gaps, p.instr)) :
    LineSpec (line94 M) (p.content false) (.push p.instr) := by
  intro e he st
  have hsemi := instrBody_semi false p.gaps p.instr h.gaps
  have hlow := toLower_instrBodyM false p.mask p.gaps p.instr
  have hne := instrBody_ne_nil false p.gaps p.instr
  simp only [InstrLay.content, List.append_assoc, Eff.apply]
  rw [stepMeta_of_head (head_perturbed hne hsemi hlow),
    line94_perturb M st _ _ _ hne hsemi hlow (trail_tailOK p.trail e he)]
  exact line94_instrLine M st p.gaps p.instr h.gaps h.a_lt h.b_lt hM

theorem instr_spec88 (M : UInt64) (p : InstrLay) (hM : M.toNat < 2 ^ 63)
    (h : RoundTrip.LineOK M true (p.gaps, p.instr)) :
    LineSpec (line88 M) (p.content true) (.push p.instr) := by
  intro e he st
  have hsemi := instrBody_semi true p.gaps p.instr h.gaps
  have hlow := toLower_instrBodyM true p.mask p.gaps p.instr
  have hne := instrBody_ne_nil true p.gaps p.instr
  simp only [InstrLay.content, List.append_assoc, Eff.apply]
  rw [stepMeta_of_head (head_perturbed hne hsemi hlow),
    line88_perturb M st _ _ _ hne hsemi hlow (trail_tailOK p.trail e he)]
  exact line88_instrLine M st p.gaps p.instr h.gaps h.a_lt h.b_lt hM (h.legal rfl)

theorem org_spec94 (M : UInt64) (d : DirLay) (n : Nat) (hd : d.gaps.ok) (hn : n < 2 ^ 31) :
    LineSpec (line94 M) (d.content "ORG".toList n) (.setStart n) := by
  intro e he st
  have hsemi := dirBody_semi d.gaps "ORG".toList n hd kw_low.1
  have hlow := toLower_dirBodyM d.mask d.gaps "ORG".toList n
  have hne := dirBody_ne_nil d.gaps "ORG".toList n
  simp only [DirLay.content, List.append_assoc, Eff.apply]
  rw [stepMeta_of_head (head_perturbed hne hsemi hlow),
    line94_perturb M st _ _ _ hne hsemi hlow (trail_tailOK d.trail e he)]
  exact line94_orgLine M st d.gaps n hd hn

theorem end_line88 (M : UInt64) (st : LoadState) (d : DirLay) (n : Nat) (hd : d.gaps.ok)
    (hn : n < 2 ^ 31) (hle : n ≤ st.code.size) (e : Str) (he : e = [] ∨ e = ['\n']) :
    line88 M st (d.content "END".toList n ++ e) = .ok (.stop { st with start := (n : Int) }) := by
  have hsemi := dirBody_semi d.gaps "END".toList n hd kw_low.2
  have hlow := toLower_dirBodyM d.mask d.gaps "END".toList n
  have hne := dirBody_ne_nil d.gaps "END".toList n
  simp only [DirLay.content, List.append_assoc]
  rw [line88_perturb M st _ _ _ hne hsemi hlow (trail_tailOK d.trail e he)]
  exact line88_endLine M st d.gaps n hd hn hle

theorem instrContent_no_nl (legacy : Bool) (p : InstrLay) (hg : p.gaps.ok) (ht : p.trail.ok) :
    ∀ c ∈ p.content legacy, c ≠ '\n' := by
  intro c hc
  rcases List.mem_append.1 hc with hc | hc
  · exact no_char_of_lower (by decide) (instrBody_no_nl legacy p.gaps p.instr hg)
      (toLower_instrBodyM legacy p.mask p.gaps p.instr) c hc
  · exact trail_no_nl p.trail ht c hc

theorem dirContent_no_nl (d : DirLay) (kw : Str) (n : Nat) (hg : d.gaps.ok) (ht : d.trail.ok)
    (hk : LowWord kw) : ∀ c ∈ d.content kw n, c ≠ '\n' := by
  intro c hc
  rcases List.mem_append.1 hc with hc | hc
  · exact no_char_of_lower (by decide) (dirBody_no_nl d.gaps kw n hg hk)
      (toLower_dirBodyM d.mask d.gaps kw n) c hc
  · exact trail_no_nl d.trail ht c hc

theorem instrContent_ne_nil (legacy : Bool) (p : InstrLay) : p.content legacy ≠ [] := by
  intro h
  have h1 := (List.append_eq_nil_iff.1 h).1
  exact ne_nil_of_lower (instrBody_ne_nil legacy p.gaps p.instr)
    (toLower_instrBodyM legacy p.mask p.gaps p.instr) h1

theorem dirContent_ne_nil (d : DirLay) (kw : Str) (n : Nat) : d.content kw n ≠ [] := by
  intro h
  have h1 := (List.append_eq_nil_iff.1 h).1
  exact ne_nil_of_lower (dirBody_ne_nil d.gaps kw n) (toLower_dirBodyM d.mask d.gaps kw n) h1

theorem instrContent_plain (legacy : Bool) (p : InstrLay) (hg : p.gaps.ok) :
    PlainLine (p.content legacy) :=
  plain_of_head (head_perturbed (instrBody_ne_nil legacy p.gaps p.instr)
    (instrBody_semi legacy p.gaps p.instr hg) (toLower_instrBodyM legacy p.mask p.gaps p.instr))

theorem dirContent_plain (d : DirLay) (kw : Str) (n : Nat) (hg : d.gaps.ok) (hk : LowWord kw) :
    PlainLine (d.content kw n) :=
  plain_of_head (head_perturbed (dirBody_ne_nil d.gaps kw n)
    (dirBody_semi d.gaps kw n hg hk) (toLower_dirBodyM d.mask d.gaps kw n))

/-! ## the item lists -/

/-- a property of all items of one kind of list -/
theorem forall_fillerItems {P : Str × Eff → Prop} {fs : List Filler}
    (h : ∀ f ∈ fs, P (f.content, .filler)) : ∀ q ∈ fillerItems fs, P q := by
  intro q hq
  obtain ⟨f, hf, rfl⟩ := List.mem_map.1 hq
  exact h f hf

theorem forall_instrItems {P : Str × Eff → Prop} {legacy : Bool} {ps : List InstrLay}
    (h : ∀ p ∈ ps, (∀ f ∈ p.pre, P (f.content, .filler)) ∧ P (p.content legacy, .push p.instr)) :
    ∀ q ∈ ps.flatMap (instrItems legacy), P q := by
  intro q hq
  obtain ⟨p, hp, hq⟩ := List.mem_flatMap.1 hq
  rcases List.mem_append.1 hq with hq | hq
  · exact forall_fillerItems (h p hp).1 q hq
  · simp only [List.mem_singleton] at hq; subst hq; exact (h p hp).2

theorem forall_items94 {P : Str × Eff → Prop} (L : Layout) (start : Nat)
    (h1 : ∀ f ∈ L.dir.pre, P (f.content, .filler))
    (h2 : P (L.dir.content "ORG".toList start, .setStart start))
    (h3 : ∀ p ∈ L.lines, (∀ f ∈ p.pre, P (f.content, .filler)) ∧ P (p.content false, .push p.instr))
    (h4 : ∀ f ∈ L.post, P (f.content, .filler)) : ∀ q ∈ L.items94 start, P q := by
  intro q hq
  simp only [Layout.items94, List.mem_append, List.mem_cons] at hq
  rcases hq with hq | rfl | hq | hq
  · exact forall_fillerItems h1 q hq
  · exact h2
  · exact forall_instrItems h3 q hq
  · exact forall_fillerItems h4 q hq

theorem forall_body88 {P : Str × Eff → Prop} (L : Layout)
    (h1 : ∀ f ∈ L.dir.pre, P (f.content, .filler))
    (h3 : ∀ p ∈ L.lines, (∀ f ∈ p.pre, P (f.content, .filler)) ∧ P (p.content true, .push p.instr)) :
    ∀ q ∈ L.body88, P q := by
  intro q hq
  simp only [Layout.body88, List.mem_append] at hq
  rcases hq with hq | hq
  · exact forall_instrItems h3 q hq
  · exact forall_fillerItems h1 q hq

theorem filterMap_fillerItems {β : Type} (g : Eff → Option β) (hg : g .filler = none) (fs : List Filler) :
    (fillerItems fs).filterMap (fun p => g p.2) = [] := by
  induction fs with
  | nil => rfl
  | cons f r ih =>
    simp only [fillerItems, List.map_cons, List.filterMap_cons, hg] at ih ⊢
    exact ih

theorem instrs_instrItems (legacy : Bool) (ps : List InstrLay) :
    (ps.flatMap (instrItems legacy)).filterMap (fun p => p.2.instr?) = ps.map (·.instr) := by
  induction ps with
  | nil => rfl
  | cons p r ih =>
    simp only [List.flatMap_cons, List.filterMap_append, ih, instrItems,
      filterMap_fillerItems Eff.instr? rfl, List.map_cons]
    rfl

theorem starts_instrItems (legacy : Bool) (ps : List InstrLay) :
    (ps.flatMap (instrItems legacy)).filterMap (fun p => p.2.start?) = [] := by
  induction ps with
  | nil => rfl
  | cons p r ih =>
    simp only [List.flatMap_cons, List.filterMap_append, ih, instrItems,
      filterMap_fillerItems Eff.start? rfl]
    rfl

theorem instrs_items94 (L : Layout) (start : Nat) :
    (L.items94 start).filterMap (fun p => p.2.instr?) = L.lines.map (·.instr) := by
  unfold Layout.items94
  rw [List.filterMap_append, List.filterMap_cons, List.filterMap_append, instrs_instrItems,
    filterMap_fillerItems Eff.instr? rfl, filterMap_fillerItems Eff.instr? rfl]
  simp [Eff.instr?]

theorem starts_items94 (L : Layout) (start : Nat) :
    (L.items94 start).filterMap (fun p => p.2.start?) = [start] := by
  unfold Layout.items94
  rw [List.filterMap_append, List.filterMap_cons, List.filterMap_append, starts_instrItems,
    filterMap_fillerItems Eff.start? rfl, filterMap_fillerItems Eff.start? rfl]
  simp [Eff.start?]

theorem instrs_body88 (L : Layout) :
    L.body88.filterMap (fun p => p.2.instr?) = L.lines.map (·.instr) := by
  simp only [Layout.body88, List.filterMap_append, instrs_instrItems,
    filterMap_fillerItems Eff.instr? rfl, List.append_nil]

/-- contents without newline, for `readLines` -/
theorem items94_no_nl (L : Layout) (start : Nat) {M : UInt64} (hok : L.ok M false) :
    ∀ q ∈ L.items94 start, ∀ c ∈ q.1, c ≠ '\n' :=
  forall_items94 (P := fun q => ∀ c ∈ q.1, c ≠ '\n') L start
    (fun f hf => filler_no_nl f (hok.dirPre f hf))
    (dirContent_no_nl _ _ _ hok.dirGaps hok.dirTrail kw_low.1)
    (fun p hp => ⟨fun f hf => filler_no_nl f ((hok.lines p hp).1 f hf),
      instrContent_no_nl false p (hok.lines p hp).2.2.gaps (hok.lines p hp).2.1⟩)
    (fun f hf => filler_no_nl f (hok.post f hf))

theorem items88_no_nl (L : Layout) (start : Nat) {M : UInt64} (hok : L.ok M true) :
    ∀ q ∈ L.items88 start, ∀ c ∈ q.1, c ≠ '\n' := by
  intro q hq
  simp only [Layout.items88, List.mem_append, List.mem_cons] at hq
  rcases hq with hq | rfl | hq
  · exact forall_body88 (P := fun q => ∀ c ∈ q.1, c ≠ '\n') L
      (fun f hf => filler_no_nl f (hok.dirPre f hf))
      (fun p hp => ⟨fun f hf => filler_no_nl f ((hok.lines p hp).1 f hf),
        instrContent_no_nl true p (hok.lines p hp).2.2.gaps (hok.lines p hp).2.1⟩) q hq
  · exact dirContent_no_nl _ _ _ hok.dirGaps hok.dirTrail kw_low.2
  · exact forall_fillerItems (P := fun q => ∀ c ∈ q.1, c ≠ '\n')
      (fun f hf => filler_no_nl f (hok.post f hf)) q hq

/-! ## the two dialects -/

theorem metaOf_init : metaOf ({} : LoadState) = ({} : Meta) := rfl

theorem loadLoop_layout94 (M : UInt64) (L : Layout) (start : Nat) (hok : L.ok M false)
    (hM : M.toNat < 2 ^ 63) (hs : start < 2 ^ 31) :
    ∃ st, loadLoop (line94 M) {} (readLines (L.render false start)) = .ok (some st) ∧
      st.code = (L.lines.map (·.instr)).toArray ∧ st.start = (start : Int) ∧
      metaOf st = L.metaRead false start := by
  have hnl := items94_no_nl L start hok
  have hspec : ∀ q ∈ L.items94 start, LineSpec (line94 M) q.1 q.2 :=
    forall_items94 (P := fun q => LineSpec (line94 M) q.1 q.2) L start
      (fun f hf => filler_spec94 M f (hok.dirPre f hf))
      (org_spec94 M L.dir start hok.dirGaps hs)
      (fun p hp => ⟨fun f hf => filler_spec94 M f ((hok.lines p hp).1 f hf),
        instr_spec94 M p hM (hok.lines p hp).2.2⟩)
      (fun f hf => filler_spec94 M f (hok.post f hf))
  have hempty : ∀ q ∈ L.items94 start, q.1 = [] → q.2 = Eff.filler :=
    forall_items94 (P := fun q => q.1 = [] → q.2 = Eff.filler) L start
      (fun _ _ _ => rfl) (fun h => absurd h (dirContent_ne_nil _ _ _))
      (fun p _ => ⟨fun _ _ _ => rfl, fun h => absurd h (instrContent_ne_nil false p)⟩)
      (fun _ _ _ => rfl)
  refine ⟨run (rawLines (L.items94 start) L.finalNewline) {}, ?_, ?_, ?_, ?_⟩
  · simp only [Layout.render, Bool.false_eq_true, if_false]
    rw [readLines_joinLines _ _ hnl]
    have := loadLoop_run (line94 M) (rawLines (L.items94 start) L.finalNewline) [] {}
      (rawLines_spec _ _ _ hspec)
    rw [List.append_nil] at this
    rw [this]; rfl
  · rw [run_code, filterMap_rawLines Eff.instr? _ _ (fun q hq h => by rw [hempty q hq h]; rfl),
      instrs_items94]
    simp
  · rw [run_start, filterMap_rawLines Eff.start? _ _ (fun q hq h => by rw [hempty q hq h]; rfl),
      starts_items94]
    rfl
  · rw [run_metaOf, metaOf_init]
    simp only [Layout.metaRead, Layout.linesRead, Bool.false_eq_true, if_false]

theorem loadLoop_layout88 (M : UInt64) (L : Layout) (start : Nat) (hok : L.ok M true)
    (hM : M.toNat < 2 ^ 63) (hs : start < 2 ^ 31) (hle : start ≤ L.lines.length) :
    ∃ st, loadLoop (line88 M) {} (readLines (L.render true start)) = .ok (some st) ∧
      st.code = (L.lines.map (·.instr)).toArray ∧ st.start = (start : Int) ∧
      metaOf st = L.metaRead true start := by
  have hnl := items88_no_nl L start hok
  have hspec : ∀ q ∈ L.body88, LineSpec (line88 M) q.1 q.2 :=
    forall_body88 (P := fun q => LineSpec (line88 M) q.1 q.2) L
      (fun f hf => filler_spec88 M f (hok.dirPre f hf))
      (fun p hp => ⟨fun f hf => filler_spec88 M f ((hok.lines p hp).1 f hf),
        instr_spec88 M p hM (hok.lines p hp).2.2⟩)
  let pairs : List (Str × Eff) := L.body88.map (fun q => (q.1 ++ ['\n'], q.2))
  have hpairs : ∀ p ∈ pairs, ∀ st, line88 M st p.1 = .ok (.cont (p.2.apply p.1 st)) := by
    intro p hp st
    obtain ⟨q, hq, rfl⟩ := List.mem_map.1 hp
    exact hspec q hq ['\n'] (.inr rfl) st
  have hcode : (run pairs {}).code = (L.lines.map (·.instr)).toArray := by
    rw [run_code]
    have : pairs.filterMap (fun p => p.2.instr?) = L.body88.filterMap (fun p => p.2.instr?) := by
      simp only [pairs, List.filterMap_map, Function.comp_def]
    rw [this, instrs_body88]
    simp
  have hstart : (run pairs {}).start = 0 := by
    rw [run_start]
    have : pairs.filterMap (fun p => p.2.start?) = [] := by
      simp only [pairs, List.filterMap_map, Function.comp_def, Layout.body88, List.filterMap_append,
        starts_instrItems, filterMap_fillerItems Eff.start? rfl, List.append_nil]
    rw [this]; rfl
  obtain ⟨e, rest, he, hraw⟩ := rawLines_append_cons L.body88
    (L.dir.content "END".toList start, Eff.setStart start) (fillerItems L.post) L.finalNewline
    (dirContent_ne_nil _ _ _)
  refine ⟨{ run pairs {} with start := (start : Int) }, ?_, hcode, rfl, ?_⟩
  · simp only [Layout.render, if_true]
    rw [readLines_joinLines _ _ hnl, Layout.items88, hraw]
    simp only [List.map_append, List.map_cons]
    have := loadLoop_run (line88 M) pairs
      ((L.dir.content "END".toList start ++ e) :: rest.map (·.1)) {} hpairs
    simp only [pairs, List.map_map, Function.comp_def] at this hcode ⊢
    rw [this]
    exact loadLoop_stop _ _ _ _ _
      (end_line88 M _ L.dir start hok.dirGaps hs (by rw [hcode]; simpa using hle) e he)
  · have h := run_metaOf pairs {}
    rw [metaOf_init] at h
    simp only [Layout.metaRead, Layout.linesRead, if_true]
    have e1 : pairs.map (·.1) = L.body88.map (fun p => p.1 ++ ['\n']) := by
      simp only [pairs, List.map_map, Function.comp_def]
    rw [← e1, ← h]
    rfl

/-! ## main theorems -/

/-- **C09 (loader half), any layout.** Letter case of the mnemonics and of `ORG` / `END`, any
    blanks between the fields, trailing comments, LF or CR-LF line ends, blank lines,
    white-space-only lines and comment lines anywhere, a missing final newline: the reader
    returns the same instructions and the same entry point. The three text fields are
    `Meta.step` folded over the raw lines read. -/
theorem load_print_any_layout_meta (cfg : Config) (L : Layout) (start : Nat)
    (hok : L.ok cfg.coreSize (cfg.mode == .icws88)) (hM : cfg.coreSize.toNat < 2 ^ 63)
    (hstart : start < L.lines.length) (hs : start < 2 ^ 31) :
    parseLoadFile cfg (L.render (cfg.mode == .icws88) start) =
      .ok (some { name := String.ofList (L.metaRead (cfg.mode == .icws88) start).name,
                  author := String.ofList (L.metaRead (cfg.mode == .icws88) start).author,
                  strategy := String.ofList (L.metaRead (cfg.mode == .icws88) start).strategy,
                  code := (L.lines.map (·.instr)).toArray, start := (start : Int) }) := by
  unfold parseLoadFile
  cases hleg : (cfg.mode == .icws88)
  · rw [hleg] at hok
    obtain ⟨st, hloop, hc, hst, hm⟩ := loadLoop_layout94 cfg.coreSize L start hok hM hs
    simp only [Bool.false_eq_true, if_false, bind, Except.bind]
    rw [hloop]
    have : ¬ ((L.lines.length : Int) ≤ (start : Int)) := by omega
    rw [← hm]
    simp [finish, hc, hst, this, metaOf]
  · rw [hleg] at hok
    obtain ⟨st, hloop, hc, hst, hm⟩ :=
      loadLoop_layout88 cfg.coreSize L start hok hM hs (by omega)
    simp only [if_true, bind, Except.bind]
    rw [hloop]
    have : ¬ ((L.lines.length : Int) ≤ (start : Int)) := by omega
    rw [← hm]
    simp [finish, hc, hst, this, metaOf]

theorem foldl_step_plain (raws : List Str) (m : Meta) (h : ∀ r ∈ raws, ∀ m : Meta, m.step r = m) :
    raws.foldl Meta.step m = m := by
  induction raws with
  | nil => rfl
  | cons r rs ih => rw [List.foldl_cons, h r (by simp), ih (fun x hx => h x (by simp [hx]))]

/-- without metadata lines among the fillers the text fields keep their defaults -/
theorem metaRead_plain (L : Layout) (M : UInt64) (legacy : Bool) (start : Nat) (hok : L.ok M legacy)
    (hp : L.plain) : L.metaRead legacy start = {} := by
  unfold Layout.metaRead
  apply foldl_step_plain
  intro r hr m
  cases legacy with
  | false =>
    simp only [Layout.linesRead, Bool.false_eq_true, if_false] at hr
    obtain ⟨p, hp', rfl⟩ := List.mem_map.1 hr
    obtain ⟨q, hq, _, e, he, h1⟩ := mem_rawLines hp'
    rw [h1]
    refine meta_step_plain ?_ he
    exact forall_items94 (P := fun q => PlainLine q.1) L start hp.1
      (dirContent_plain _ _ _ hok.dirGaps kw_low.1)
      (fun p hpl => ⟨hp.2.1 p hpl, instrContent_plain false p (hok.lines p hpl).2.2.gaps⟩)
      hp.2.2 q hq
  | true =>
    simp only [Layout.linesRead, if_true] at hr
    obtain ⟨q, hq, rfl⟩ := List.mem_map.1 hr
    refine meta_step_plain ?_ (.inr rfl)
    exact forall_body88 (P := fun q => PlainLine q.1) L hp.1
      (fun p hpl => ⟨hp.2.1 p hpl, instrContent_plain true p (hok.lines p hpl).2.2.gaps⟩) q hq

/-- **`load_print_any_layout`.** For every layout perturbation without metadata lines the reader
    returns exactly what it returns for the unperturbed text (`load_print`,
    `load_print_any_blanks`). -/
theorem load_print_any_layout (cfg : Config) (L : Layout) (start : Nat)
    (hok : L.ok cfg.coreSize (cfg.mode == .icws88)) (hplain : L.plain)
    (hM : cfg.coreSize.toNat < 2 ^ 63) (hstart : start < L.lines.length) (hs : start < 2 ^ 31) :
    parseLoadFile cfg (L.render (cfg.mode == .icws88) start) =
      .ok (some { name := "Unknown", author := "Anonymous", strategy := "",
                  code := (L.lines.map (·.instr)).toArray, start := (start : Int) }) := by
  rw [load_print_any_layout_meta cfg L start hok hM hstart hs,
    metaRead_plain L cfg.coreSize _ start hok hplain]
  rfl

/-- metadata lines or not: code and entry point are those read from the unperturbed text -/
theorem load_layout_agrees (cfg : Config) (L : Layout) (start : Nat)
    (hok : L.ok cfg.coreSize (cfg.mode == .icws88)) (hM : cfg.coreSize.toNat < 2 ^ 63)
    (hstart : start < L.lines.length) (hs : start < 2 ^ 31) :
    ∃ w w0, parseLoadFile cfg (L.render (cfg.mode == .icws88) start) = .ok (some w) ∧
      parseLoadFile cfg (Spec.printLoad (cfg.mode == .icws88) (L.lines.map (·.instr)) start) =
        .ok (some w0) ∧ w.code = w0.code ∧ w.start = w0.start := by
  have hf : ∀ i ∈ L.lines.map (·.instr),
      i.a.toNat < cfg.coreSize.toNat ∧ i.b.toNat < cfg.coreSize.toNat := by
    intro i hi
    obtain ⟨p, hp, rfl⟩ := List.mem_map.1 hi
    have h := (hok.lines p hp).2.2
    exact ⟨UInt64.lt_iff_toNat_lt.1 h.a_lt, UInt64.lt_iff_toNat_lt.1 h.b_lt⟩
  have hM0 : 0 < cfg.coreSize.toNat := by
    cases hl : L.lines with
    | nil => rw [hl] at hstart; cases hstart
    | cons p r =>
      have := (hf p.instr (by rw [hl]; simp)).1
      omega
  have h1 := load_print_any_layout_meta cfg L start hok hM hstart hs
  have h2 := load_print cfg (L.lines.map (·.instr)) start hM0 hM hf (by simpa using hstart)
    (fun h i hi => by
      obtain ⟨p, hp, rfl⟩ := List.mem_map.1 hi
      exact (hok.lines p hp).2.2.legal h) hs
  exact ⟨_, _, h1, h2, rfl, rfl⟩

/-! ## conveniences -/

theorem head_of_blanks {ws T : Str} (h : Blanks ws) (hne : ws ≠ []) :
    ((ws ++ T).head? == some ';') = false :=
  head_append_ne_semi hne (allSpace_ne (blanks_allSpace h) (by decide))

/-- blank and white-space-only lines are plain -/
theorem Filler.plain_blank (ws : Str) (h : Blanks ws) : (Filler.blank ws).plain := by
  cases ws with
  | nil => exact plain_of_head rfl
  | cons c r =>
    have := head_of_blanks (T := []) h (by simp)
    rw [List.append_nil] at this
    exact plain_of_head this

/-- indented comments are plain, whatever they say -/
theorem Filler.plain_indented (ws text : Str) (h : Blanks ws) (hne : ws ≠ []) :
    (Filler.comment ws text).plain :=
  plain_of_head (head_of_blanks h hne)

/-- `;redcode-94` and `;redcode` are plain comment lines -/
example : (Filler.comment [] "redcode-94".toList).plain ∧ (Filler.comment [] "redcode".toList).plain ∧
    (Filler.comment [] " Name: x, y".toList).plain := by
  unfold Filler.plain PlainLine; decide

/-! ## the trivial layout is the canonical text -/

def Layout.canon (code : List Instr) : Layout := { lines := code.map (fun i => { instr := i }) }

theorem recase_nil (w : Str) : recase [] w = w := by cases w <;> rfl

theorem instrContent_canon (legacy : Bool) (i : Instr) :
    ({ instr := i } : InstrLay).content legacy = instrBody legacy {} i := by
  simp [InstrLay.content, instrBodyM, instrBody, recase_nil, Trail.render]

theorem dirContent_canon (kw : Str) (n : Nat) : ({} : DirLay).content kw n = dirBody {} kw n := by
  simp [DirLay.content, dirBodyM, dirBody, recase_nil, Trail.render]

theorem canon_items (legacy : Bool) (code : List Instr) :
    ((code.map (fun i => ({ instr := i } : InstrLay))).flatMap (instrItems legacy)).map (·.1) =
      code.map (fun i => instrBody legacy {} i) := by
  induction code with
  | nil => rfl
  | cons i r ih =>
    simp only [List.map_cons, List.flatMap_cons, List.map_append, ih]
    simp [instrItems, fillerItems, instrContent_canon]

theorem render_canonical (legacy : Bool) (code : List Instr) (start : Nat) :
    (Layout.canon code).render legacy start = Spec.printLoad legacy code start := by
  rw [printLoad_eq]
  cases legacy
  · rw [printLoadG_94]
    simp only [Layout.render, Bool.false_eq_true, if_false, Layout.canon, joinLines_true,
      Layout.items94, fillerItems, List.map_nil, List.nil_append, List.append_nil, List.map_cons,
      canon_items, dirContent_canon, List.map_map, Function.comp_def]
  · rw [printLoadG_88]
    simp only [Layout.render, if_true, Layout.canon, joinLines_true, Layout.items88, Layout.body88,
      fillerItems, List.map_nil, List.append_nil, List.map_append, List.map_cons,
      canon_items, dirContent_canon, List.map_map, Function.comp_def]

theorem canon_ok (M : UInt64) (legacy : Bool) (code : List Instr)
    (hf : ∀ i ∈ code, i.a < M ∧ i.b < M) (hl : legacy = true → ∀ i ∈ code, Spec.Legal88 i = true) :
    (Layout.canon code).ok M legacy ∧ (Layout.canon code).plain := by
  have hno : ∀ f : Filler, f ∈ ([] : List Filler) → False := fun _ h => by cases h
  have hlines : ∀ p ∈ (Layout.canon code).lines, ∃ i ∈ code, p = { instr := i } := by
    intro p hp
    obtain ⟨i, hi, rfl⟩ := List.mem_map.1 hp
    exact ⟨i, hi, rfl⟩
  constructor
  · constructor
    · exact fun f hf => (hno f hf).elim
    · exact canonDir_ok
    · intro c hc; cases hc
    · intro p hp
      obtain ⟨i, hi, rfl⟩ := hlines p hp
      refine ⟨fun f hf => (hno f hf).elim, ?_, ⟨canonGaps_ok, (hf i hi).1, (hf i hi).2, fun h => hl h i hi⟩⟩
      intro c hc; cases hc
    · exact fun f hf => (hno f hf).elim
  · refine ⟨fun f hf => (hno f hf).elim, ?_, fun f hf => (hno f hf).elim⟩
    intro p hp
    obtain ⟨i, hi, rfl⟩ := hlines p hp
    exact fun f hf => (hno f hf).elim

end Gmars.LoadLayout
