/-
  C09, loader half, layout perturbations (part 1): string lemmas and the per-line facts.

  The reader (`line94` / `line88`) looks at a raw line only through
    * its first character (a `;` makes it a comment / metadata line), and
    * `lowerOf raw = toLower (raw.takeWhile (· != ';'))` (`LoadOK.line94_eq`),
      of which it takes `fields ∘ replaceComma` and "contains a comma".
  Hence letter case, a trailing comment, trailing white space (a CR before the LF) and a
  missing LF do not change what a line is read as (`line94_perturb`, `line88_perturb`),
  and white-space-only lines, indented comments and full-line comments are skipped, the
  latter through `metaLine` (`line94_filler`, `line88_filler`).
-/
import Gmars.Proofs.RoundTripA
import Gmars.Proofs.LoadOK

namespace Gmars.LoadLayout
open Gmars Gmars.GoStr Gmars.RoundTrip

/-! ## letter case -/

theorem lowerChar_idem (c : Char) : lowerChar (lowerChar c) = lowerChar c := by
  by_cases h : 'A' ≤ c ∧ c ≤ 'Z'
  · have h1 : 65 ≤ c.toNat := by have := Char.le_def.mp h.1; exact this
    have h2 : c.toNat ≤ 90 := by have := Char.le_def.mp h.2; exact this
    have e : lowerChar c = Char.ofNat (c.toNat + 32) := by unfold lowerChar; rw [if_pos h]
    have := ofNat_range ⟨c.toNat - 65, by omega⟩
    simp only [] at this
    rw [show c.toNat - 65 + 65 + 32 = c.toNat + 32 by omega] at this
    rw [e]
    exact lowerChar_of_not_upper (by omega) (by omega)
  · by_cases h3 : (c.toNat == 0x130) = true
    · have e : lowerChar c = 'i' := by unfold lowerChar; rw [if_neg h, if_pos h3]
      rw [e]; decide
    · by_cases h4 : (c.toNat == 0x212A) = true
      · have e : lowerChar c = 'k' := by unfold lowerChar; rw [if_neg h, if_neg h3, if_pos h4]
        rw [e]; decide
      · have e : lowerChar c = c := by unfold lowerChar; rw [if_neg h, if_neg h3, if_neg h4]
        rw [e, e]

/-- a case mask applied to a word: where the mask says `true` the character is put into lower
    case (the canonical words `MOV.AB`, `ORG`, `END` are upper case, so the masks produce every
    upper/lower-case spelling); a mask shorter than the word leaves the rest alone -/
def recase : List Bool → Str → Str
  | b :: m, c :: w => (if b then lowerChar c else c) :: recase m w
  | _, w => w

theorem toLower_recase (m : List Bool) (w : Str) : toLower (recase m w) = toLower w := by
  induction w generalizing m with
  | nil => cases m <;> rfl
  | cons c w ih =>
    cases m with
    | nil => rfl
    | cons b m =>
      have := ih m
      unfold toLower at this ⊢
      cases b
      · simp only [recase, Bool.false_eq_true, if_false, List.map_cons, this]
      · simp only [recase, if_true, List.map_cons, this, lowerChar_idem]

theorem toLower_append (a b : Str) : toLower (a ++ b) = toLower a ++ toLower b := by
  simp [toLower]

theorem toLower_allSpace {ws : Str} (h : AllSpace ws) : toLower ws = ws := by
  unfold toLower
  conv => rhs; rw [← List.map_id ws]
  exact List.map_congr_left (fun c hc => lowerChar_space (h c hc))

theorem replaceComma_allSpace {ws : Str} (h : AllSpace ws) : replaceComma ws = ws := by
  unfold replaceComma
  conv => rhs; rw [← List.map_id ws]
  apply List.map_congr_left
  intro c hc
  have : c ≠ ',' := by intro e; subst e; have := h _ hc; revert this; decide
  simp [this]

theorem replaceComma_append (a b : Str) : replaceComma (a ++ b) = replaceComma a ++ replaceComma b := by
  simp [replaceComma]

theorem allSpace_ne {ws : Str} (h : AllSpace ws) {d : Char} (hd : isAsciiSpace d = false) :
    ∀ c ∈ ws, c ≠ d := by
  intro c hc e; subst e; rw [h c hc] at hd; cases hd

theorem allSpace_nl : AllSpace ['\n'] := by
  intro c hc; simp only [List.mem_singleton] at hc; subst hc; decide

theorem allSpace_cr : AllSpace ['\r'] := by
  intro c hc; simp only [List.mem_singleton] at hc; subst hc; decide

theorem blanks_allSpace {g : Str} (h : Blanks g) : AllSpace g := fun c hc => (h c hc).1

/-! ## `strings.Fields` ignores trailing white space -/

theorem fields_go_nil (cur : Str) (acc : List Str) :
    fields.go [] cur acc = (if cur.isEmpty then acc else cur.reverse :: acc).reverse := by
  simp [fields.go]

theorem fields_go_trail (ws cur : Str) (acc : List Str) (h : AllSpace ws) :
    fields.go ws cur acc = fields.go [] cur acc := by
  cases ws with
  | nil => rfl
  | cons c r =>
    have := fields_go_space (c :: r) [] cur acc h (by simp)
    rw [List.append_nil] at this
    rw [this, fields_go_nil, fields_go_nil]
    simp

theorem fields_go_append_space (s ws cur : Str) (acc : List Str) (h : AllSpace ws) :
    fields.go (s ++ ws) cur acc = fields.go s cur acc := by
  induction s generalizing cur acc with
  | nil => exact fields_go_trail ws cur acc h
  | cons c r ih =>
    simp only [List.cons_append, fields.go]
    split
    · exact ih _ _
    · exact ih _ _

theorem fields_append_space (s ws : Str) (h : AllSpace ws) : fields (s ++ ws) = fields s := by
  unfold fields; exact fields_go_append_space s ws [] [] h

theorem fields_allSpace {ws : Str} (h : AllSpace ws) : fields ws = [] := by
  have := fields_append_space [] ws h
  simpa [fields, fields.go] using this

theorem contains_append_space (s ws : Str) (h : AllSpace ws) :
    containsChar (s ++ ws) ',' = containsChar s ',' := by
  have hn : ',' ∉ ws := by
    intro hc; have := h _ hc; revert this; decide
  simp only [containsChar, List.contains_eq_mem, List.mem_append, hn, or_false]

/-! ## what follows the significant part of a line -/

/-- the tail of a line: white space only (a CR, the LF, nothing at all), or a comment -/
def TailOK (T : Str) : Prop := AllSpace T ∨ ∃ r, T = ';' :: r

theorem takeWhile_semi_append (B r : Str) (hB : ∀ c ∈ B, c ≠ ';') :
    (B ++ ';' :: r).takeWhile (· != ';') = B := by
  rw [List.takeWhile_append_of_pos (by intro c hc; simp [hB c hc])]
  simp

/-- the lower-cased, comment-stripped line is the lower-cased body plus white space -/
theorem lowerOf_tail (B T : Str) (hB : ∀ c ∈ B, c ≠ ';') (hT : TailOK T) :
    ∃ ws, AllSpace ws ∧ lowerOf (B ++ T) = toLower B ++ ws := by
  rcases hT with hT | ⟨r, rfl⟩
  · refine ⟨T, hT, ?_⟩
    unfold lowerOf
    rw [takeWhile_ne_self ';' (B ++ T), toLower_append, toLower_allSpace hT]
    intro c hc
    rcases List.mem_append.1 hc with hc | hc
    · exact hB c hc
    · exact allSpace_ne hT (by decide) c hc
  · refine ⟨[], allSpace_nil, ?_⟩
    unfold lowerOf
    rw [takeWhile_semi_append B r hB, List.append_nil]

theorem key_tail (B T : Str) (hB : ∀ c ∈ B, c ≠ ';') (hT : TailOK T) :
    fields (replaceComma (lowerOf (B ++ T))) = fields (replaceComma (toLower B)) ∧
      containsChar (lowerOf (B ++ T)) ',' = containsChar (toLower B) ',' := by
  obtain ⟨ws, hws, e⟩ := lowerOf_tail B T hB hT
  rw [e, replaceComma_append, replaceComma_allSpace hws, fields_append_space _ _ hws,
    contains_append_space _ _ hws]
  exact ⟨rfl, rfl⟩

theorem no_semi_of_lower {B B' : Str} (hB : ∀ c ∈ B, lowerChar c ≠ ';')
    (hlow : toLower B' = toLower B) : ∀ c ∈ B', c ≠ ';' := by
  intro c hc e
  subst e
  have : lowerChar ';' ∈ toLower B' := List.mem_map.2 ⟨_, hc, rfl⟩
  rw [hlow] at this
  obtain ⟨d, hd, hd'⟩ := List.mem_map.1 this
  exact hB d hd (by rw [hd']; decide)

theorem head_append_ne_semi {B T : Str} (hne : B ≠ []) (hB : ∀ c ∈ B, c ≠ ';') :
    ((B ++ T).head? == some ';') = false := by
  cases B with
  | nil => exact absurd rfl hne
  | cons c r =>
    have := hB c (by simp)
    simp [this]

theorem ne_nil_of_lower {B B' : Str} (hne : B ≠ []) (hlow : toLower B' = toLower B) : B' ≠ [] := by
  intro e; subst e
  cases B with
  | nil => exact hne rfl
  | cons c r => simp [toLower] at hlow

/-- **letter case, trailing comment, CR, missing LF**: a line whose significant part `B'` is a
    re-spelling in another letter case of `B`, followed by white space or by a comment, is read
    exactly as the plain line `B ++ "\n"` -/
theorem line94_perturb (M : UInt64) (st : LoadState) (B B' T : Str) (hne : B ≠ [])
    (hB : ∀ c ∈ B, c ≠ ';' ∧ lowerChar c ≠ ';') (hlow : toLower B' = toLower B) (hT : TailOK T) :
    line94 M st (B' ++ T) = line94 M st (B ++ ['\n']) := by
  have hB1 : ∀ c ∈ B, c ≠ ';' := fun c hc => (hB c hc).1
  have hB' := no_semi_of_lower (fun c hc => (hB c hc).2) hlow
  have k1 := key_tail B' T hB' hT
  have k2 := key_tail B ['\n'] hB1 (.inl allSpace_nl)
  rw [line94_eq, line94_eq, head_append_ne_semi (ne_nil_of_lower hne hlow) hB',
    head_append_ne_semi hne hB1, k1.1, k1.2, k2.1, k2.2, hlow]
  simp only [Bool.false_eq_true, if_false]

theorem line88_perturb (M : UInt64) (st : LoadState) (B B' T : Str) (hne : B ≠ [])
    (hB : ∀ c ∈ B, c ≠ ';' ∧ lowerChar c ≠ ';') (hlow : toLower B' = toLower B) (hT : TailOK T) :
    line88 M st (B' ++ T) = line88 M st (B ++ ['\n']) := by
  have hB1 : ∀ c ∈ B, c ≠ ';' := fun c hc => (hB c hc).1
  have hB' := no_semi_of_lower (fun c hc => (hB c hc).2) hlow
  have k1 := key_tail B' T hB' hT
  have k2 := key_tail B ['\n'] hB1 (.inl allSpace_nl)
  rw [line88_eq, line88_eq, head_append_ne_semi (ne_nil_of_lower hne hlow) hB',
    head_append_ne_semi hne hB1, k1.1, k1.2, k2.1, k2.2, hlow]
  simp only [Bool.false_eq_true, if_false]

/-! ## blank lines and comment lines -/

/-- what a line does to the metadata: only a line that starts with `;` can do anything -/
def stepMeta (st : LoadState) (raw : Str) : LoadState :=
  if raw.head? == some ';' then metaLine st raw (toLower raw) else st

theorem key_blank (ws T : Str) (hws : AllSpace ws) (hT : TailOK T) :
    fields (replaceComma (lowerOf (ws ++ T))) = [] ∧ containsChar (lowerOf (ws ++ T)) ',' = false := by
  have k := key_tail ws T (allSpace_ne hws (by decide)) hT
  rw [k.1, k.2, toLower_allSpace hws, replaceComma_allSpace hws, fields_allSpace hws]
  refine ⟨rfl, ?_⟩
  simp only [containsChar, List.contains_eq_mem, decide_eq_false_iff_not]
  intro hc; have := hws _ hc; revert this; decide

/-- **blank lines, white-space-only lines, comment lines** (indented or not, whatever the comment
    contains — commas included): the line is skipped; only a full-line comment may touch the
    metadata -/
theorem line94_filler (M : UInt64) (st : LoadState) (ws T : Str) (hws : AllSpace ws) (hT : TailOK T) :
    line94 M st (ws ++ T) = .ok (.cont (stepMeta st (ws ++ T))) := by
  rw [line94_eq, stepMeta]
  split
  · rfl
  · have k := key_blank ws T hws hT
    rw [k.1, k.2]; rfl

theorem line88_filler (M : UInt64) (st : LoadState) (ws T : Str) (hws : AllSpace ws) (hT : TailOK T) :
    line88 M st (ws ++ T) = .ok (.cont (stepMeta st (ws ++ T))) := by
  rw [line88_eq, stepMeta]
  split
  · rfl
  · have k := key_blank ws T hws hT
    rw [k.1, k.2]; rfl

theorem stepMeta_of_head {st : LoadState} {raw : Str} (h : (raw.head? == some ';') = false) :
    stepMeta st raw = st := by
  simp [stepMeta, h]

/-! ## the metadata, as a specification -/

/-- name, author, strategy as the reader accumulates them -/
structure Meta where
  name : Str := "Unknown".toList
  author : Str := "Anonymous".toList
  strategy : Str := []
  deriving DecidableEq, Repr

/-- the effect of one raw line (with its line end) on the metadata: `;name` and `;author`
    (any letter case, matched as a prefix) replace the field by the trimmed rest of the line,
    `;strategy` appends the rest of the line after one separator character, line end included;
    every other line leaves the metadata alone -/
def Meta.step (m : Meta) (raw : Str) : Meta :=
  if hasPrefix (toLower raw) ";name".toList then { m with name := trimSpace (raw.drop 5) }
  else if hasPrefix (toLower raw) ";author".toList then { m with author := trimSpace (raw.drop 7) }
  else if hasPrefix (toLower raw) ";strategy".toList && raw.length > 10 then
    { m with strategy := m.strategy ++ raw.drop 10 }
  else m

def metaOf (st : LoadState) : Meta := ⟨st.name, st.author, st.strategy⟩

theorem head_of_semi_prefix {raw p : Str} (h : hasPrefix (toLower raw) (';' :: p) = true) :
    (raw.head? == some ';') = true := by
  cases raw with
  | nil => simp [hasPrefix, toLower] at h
  | cons c r =>
    simp only [hasPrefix, toLower, List.map_cons, List.isPrefixOf_cons_cons, Bool.and_eq_true,
      beq_iff_eq] at h
    have := (@lowerChar_eq_iff c ';' (by decide)).1 h.1.symm
    simp [this]

theorem meta_step_of_head {m : Meta} {raw : Str} (h : (raw.head? == some ';') = false) :
    m.step raw = m := by
  have h1 : hasPrefix (toLower raw) ";name".toList = false := by
    cases hp : hasPrefix (toLower raw) ";name".toList with
    | false => rfl
    | true => rw [head_of_semi_prefix (p := "name".toList) hp] at h; cases h
  have h2 : hasPrefix (toLower raw) ";author".toList = false := by
    cases hp : hasPrefix (toLower raw) ";author".toList with
    | false => rfl
    | true => rw [head_of_semi_prefix (p := "author".toList) hp] at h; cases h
  have h3 : hasPrefix (toLower raw) ";strategy".toList = false := by
    cases hp : hasPrefix (toLower raw) ";strategy".toList with
    | false => rfl
    | true => rw [head_of_semi_prefix (p := "strategy".toList) hp] at h; cases h
  simp only [Meta.step, h1, h2, h3, Bool.false_eq_true, if_false, Bool.false_and]

theorem metaOf_stepMeta (st : LoadState) (raw : Str) :
    metaOf (stepMeta st raw) = (metaOf st).step raw ∧ (stepMeta st raw).code = st.code ∧
      (stepMeta st raw).start = st.start := by
  unfold stepMeta
  split
  · refine ⟨?_, (metaLine_code _ _ _).1, (metaLine_code _ _ _).2⟩
    unfold metaLine Meta.step
    split
    · rfl
    · split
      · rfl
      · split <;> rfl
  · rename_i h
    exact ⟨(meta_step_of_head (by simpa using h)).symm, rfl, rfl⟩

/-! ### the metadata lines, spelled out -/

theorem isPrefixOf_append_single (p c : Str) (x : Char) (hx : x ∉ p) :
    p.isPrefixOf (c ++ [x]) = p.isPrefixOf c := by
  induction c generalizing p with
  | nil =>
    cases p with
    | nil => rfl
    | cons y p =>
      have : y ≠ x := fun e => hx (by simp [e])
      cases p <;> simp [List.isPrefixOf, this]
  | cons d c ih =>
    cases p with
    | nil => rfl
    | cons y p =>
      simp only [List.cons_append, List.isPrefixOf_cons_cons]
      rw [ih p (fun h => hx (by simp [h]))]

/-- the keyword test does not see the line end -/
theorem hasPrefix_lineEnd (c p : Str) (hp : '\n' ∉ p) :
    hasPrefix (toLower (c ++ ['\n'])) p = hasPrefix (toLower c) p := by
  rw [toLower_append]
  exact isPrefixOf_append_single p (toLower c) '\n' hp

/-- a line (without its line end) that is no metadata line: it does not begin with one of the
    keywords `;name`, `;author`, `;strategy` in any letter case (so `;redcode-94`, `; text`,
    blank lines and indented comments are all plain) -/
def PlainLine (c : Str) : Prop :=
  hasPrefix (toLower c) ";name".toList = false ∧ hasPrefix (toLower c) ";author".toList = false ∧
    hasPrefix (toLower c) ";strategy".toList = false

theorem meta_step_plain {m : Meta} {c e : Str} (h : PlainLine c) (he : e = [] ∨ e = ['\n']) :
    m.step (c ++ e) = m := by
  rcases he with rfl | rfl
  · rw [List.append_nil]
    simp only [Meta.step, h.1, h.2.1, h.2.2, Bool.false_eq_true, if_false, Bool.false_and]
  · have h1 := hasPrefix_lineEnd c ";name".toList (by decide)
    have h2 := hasPrefix_lineEnd c ";author".toList (by decide)
    have h3 := hasPrefix_lineEnd c ";strategy".toList (by decide)
    simp only [Meta.step, h1, h2, h3, h.1, h.2.1, h.2.2, Bool.false_eq_true, if_false, Bool.false_and]

/-- a line that does not start with `;` is plain -/
theorem plain_of_head {c : Str} (h : (c.head? == some ';') = false) : PlainLine c := by
  refine ⟨?_, ?_, ?_⟩
  · cases hp : hasPrefix (toLower c) ";name".toList with
    | false => rfl
    | true => rw [head_of_semi_prefix (p := "name".toList) hp] at h; cases h
  · cases hp : hasPrefix (toLower c) ";author".toList with
    | false => rfl
    | true => rw [head_of_semi_prefix (p := "author".toList) hp] at h; cases h
  · cases hp : hasPrefix (toLower c) ";strategy".toList with
    | false => rfl
    | true => rw [head_of_semi_prefix (p := "strategy".toList) hp] at h; cases h

theorem isPrefixOf_append_left (p a b : Str) (h : p.length ≤ a.length) :
    p.isPrefixOf (a ++ b) = p.isPrefixOf a := by
  induction p generalizing a with
  | nil => simp
  | cons y p ih =>
    cases a with
    | nil => simp at h
    | cons d a =>
      simp only [List.cons_append, List.isPrefixOf_cons_cons]
      rw [ih a (by simpa using h)]

theorem hasPrefix_kw (kw x p : Str) (hl : p.length ≤ (toLower kw).length) :
    hasPrefix (toLower (kw ++ x)) p = p.isPrefixOf (toLower kw) := by
  rw [toLower_append]; exact isPrefixOf_append_left _ _ _ hl

/-- `;name X` (keyword in any letter case): the name becomes `X` trimmed -/
theorem meta_step_name (m : Meta) (kw x : Str) (hk : toLower kw = ";name".toList) :
    m.step (kw ++ x) = { m with name := trimSpace x } := by
  have hl : kw.length = 5 := by
    have := congrArg List.length hk
    simpa [toLower] using this
  have hp : hasPrefix (toLower (kw ++ x)) ";name".toList = true := by
    rw [hasPrefix_kw _ _ _ (by rw [hk]; decide), hk]; decide
  have hd : (kw ++ x).drop 5 = x := by rw [← hl]; simp
  simp only [Meta.step, hp, if_true, hd]

/-- `;author X`: the author becomes `X` trimmed -/
theorem meta_step_author (m : Meta) (kw x : Str) (hk : toLower kw = ";author".toList) :
    m.step (kw ++ x) = { m with author := trimSpace x } := by
  have hl : kw.length = 7 := by
    have := congrArg List.length hk
    simpa [toLower] using this
  have hp : hasPrefix (toLower (kw ++ x)) ";author".toList = true := by
    rw [hasPrefix_kw _ _ _ (by rw [hk]; decide), hk]; decide
  have hn : hasPrefix (toLower (kw ++ x)) ";name".toList = false := by
    rw [hasPrefix_kw _ _ _ (by rw [hk]; decide), hk]; decide
  have hd : (kw ++ x).drop 7 = x := by rw [← hl]; simp
  simp only [Meta.step, hp, hn, Bool.false_eq_true, if_false, if_true, hd]

/-- `;strategy` + one separator character + `X` (`X` includes the line end): `X` is appended
    to the strategy text; a bare `;strategy` line (nothing after the separator) changes nothing -/
theorem meta_step_strategy (m : Meta) (kw : Str) (sep : Char) (x : Str)
    (hk : toLower kw = ";strategy".toList) :
    m.step (kw ++ sep :: x) = if x = [] then m else { m with strategy := m.strategy ++ x } := by
  have hl : kw.length = 9 := by
    have := congrArg List.length hk
    simpa [toLower] using this
  have hp : hasPrefix (toLower (kw ++ sep :: x)) ";strategy".toList = true := by
    rw [hasPrefix_kw _ _ _ (by rw [hk]; decide), hk]; decide
  have hn : hasPrefix (toLower (kw ++ sep :: x)) ";name".toList = false := by
    rw [hasPrefix_kw _ _ _ (by rw [hk]; decide), hk]; decide
  have ha : hasPrefix (toLower (kw ++ sep :: x)) ";author".toList = false := by
    rw [hasPrefix_kw _ _ _ (by rw [hk]; decide), hk]; decide
  have hd : (kw ++ sep :: x).drop 10 = x := by
    rw [show (10 : Nat) = kw.length + 1 by omega, List.drop_append]; simp
  have hlen : (kw ++ sep :: x).length = 10 + x.length := by
    simp only [List.length_append, List.length_cons, hl]; omega
  simp only [Meta.step, hp, hn, ha, Bool.false_eq_true, if_false, Bool.true_and, hd, hlen]
  cases x with
  | nil => simp
  | cons y x => simp

end Gmars.LoadLayout
