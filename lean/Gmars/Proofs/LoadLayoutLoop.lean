/-
  C09, loader half, layout perturbations (part 2): a text as a list of line contents
  (`joinLines`, with or without the final newline), the raw lines `readLines` delivers
  for it (`rawLines`), and `loadLoop` over lines with known effects.
-/
import Gmars.Proofs.LoadLayoutBase

namespace Gmars.LoadLayout
open Gmars Gmars.GoStr Gmars.RoundTrip

/-! ## text from line contents -/

/-- the lines `cs` (contents, without line end) separated by LF; the last one gets its LF
    only if `nl` -/
def joinLines : List Str → Bool → Str
  | [], _ => []
  | [c], false => c
  | c :: r, nl => c ++ '\n' :: joinLines r nl

/-- the raw lines the reader gets for `joinLines`: every line with its LF, but the last one
    without when the final newline is missing (and not at all when it is empty then).
    Every line carries a tag. -/
def rawLines {α : Type} : List (Str × α) → Bool → List (Str × α)
  | [], _ => []
  | [p], false => if p.1.isEmpty then [] else [p]
  | p :: r, nl => (p.1 ++ ['\n'], p.2) :: rawLines r nl

theorem joinLines_true (cs : List Str) : joinLines cs true = (cs.map (· ++ ['\n'])).flatten := by
  induction cs with
  | nil => rfl
  | cons c r ih =>
    cases r with
    | nil => simp [joinLines]
    | cons d r => simp only [joinLines] at ih ⊢; simp [ih]

theorem joinLines_cons_cons (c d : Str) (r : List Str) (nl : Bool) :
    joinLines (c :: d :: r) nl = c ++ '\n' :: joinLines (d :: r) nl := by
  cases nl <;> rfl

theorem rawLines_cons_cons {α : Type} (p q : Str × α) (r : List (Str × α)) (nl : Bool) :
    rawLines (p :: q :: r) nl = (p.1 ++ ['\n'], p.2) :: rawLines (q :: r) nl := by
  cases nl <;> rfl

theorem rawLines_true {α : Type} (items : List (Str × α)) :
    rawLines items true = items.map (fun p => (p.1 ++ ['\n'], p.2)) := by
  induction items with
  | nil => rfl
  | cons p r ih =>
    cases r with
    | nil => rfl
    | cons q r => rw [rawLines_cons_cons, ih]; rfl

theorem readLines_cons_line (l s : Str) (h : ∀ c ∈ l, c ≠ '\n') :
    readLines (l ++ '\n' :: s) = (l ++ ['\n']) :: readLines s := by
  unfold readLines
  rw [readLines_go_line l s [] [] h, readLines_go_acc]
  simp

theorem readLines_go_nonl (l cur : Str) (acc : List Str) (h : ∀ c ∈ l, c ≠ '\n') :
    readLines.go l cur acc =
      (if (l.reverse ++ cur).isEmpty then acc else (l.reverse ++ cur).reverse :: acc).reverse := by
  induction l generalizing cur with
  | nil => simp [readLines.go]
  | cons c r ih =>
    have hc : c ≠ '\n' := h c (by simp)
    simp only [readLines.go, beq_iff_eq, hc, if_false]
    rw [ih _ (fun c hc => h c (by simp [hc]))]
    simp

theorem readLines_nonl (l : Str) (h : ∀ c ∈ l, c ≠ '\n') :
    readLines l = if l.isEmpty then [] else [l] := by
  unfold readLines
  rw [readLines_go_nonl l [] [] h]
  cases l <;> simp

theorem readLines_joinLines {α : Type} (items : List (Str × α)) (nl : Bool)
    (h : ∀ p ∈ items, ∀ c ∈ p.1, c ≠ '\n') :
    readLines (joinLines (items.map (·.1)) nl) = (rawLines items nl).map (·.1) := by
  induction items with
  | nil => rfl
  | cons p r ih =>
    cases r with
    | nil =>
      cases nl
      · simp only [List.map_cons, List.map_nil, joinLines, rawLines]
        rw [readLines_nonl _ (h p (by simp))]
        split <;> rfl
      · simp only [List.map_cons, List.map_nil, joinLines, rawLines]
        rw [readLines_cons_line _ _ (h p (by simp))]
        rfl
    | cons q r =>
      rw [List.map_cons, List.map_cons, joinLines_cons_cons, rawLines_cons_cons,
        readLines_cons_line _ _ (h p (by simp))]
      rw [List.map_cons] at ih
      rw [ih (fun x hx => h x (by simp [hx]))]
      rfl

/-- every raw line is a content with or without its LF -/
theorem mem_rawLines {α : Type} {items : List (Str × α)} {nl : Bool} {p : Str × α}
    (hp : p ∈ rawLines items nl) :
    ∃ q ∈ items, p.2 = q.2 ∧ ∃ e, (e = [] ∨ e = ['\n']) ∧ p.1 = q.1 ++ e := by
  induction items with
  | nil => cases hp
  | cons q r ih =>
    cases r with
    | nil =>
      cases nl
      · simp only [rawLines] at hp
        split at hp
        · cases hp
        · simp only [List.mem_singleton] at hp
          subst hp
          exact ⟨p, by simp, rfl, [], .inl rfl, by simp⟩
      · simp only [rawLines, List.mem_singleton] at hp
        subst hp
        exact ⟨q, by simp, rfl, ['\n'], .inr rfl, rfl⟩
    | cons q' r =>
      rw [rawLines_cons_cons] at hp
      rcases List.mem_cons.1 hp with rfl | hp
      · exact ⟨q, by simp, rfl, ['\n'], .inr rfl, rfl⟩
      · obtain ⟨x, hx, h1, h2⟩ := ih hp
        exact ⟨x, by simp [hx], h1, h2⟩

/-- the tags of the raw lines are the tags of the contents; only an empty last line without
    line end is missing -/
theorem filterMap_rawLines {α β : Type} (g : α → Option β) (items : List (Str × α)) (nl : Bool)
    (h : ∀ p ∈ items, p.1 = [] → g p.2 = none) :
    (rawLines items nl).filterMap (fun p => g p.2) = items.filterMap (fun p => g p.2) := by
  induction items with
  | nil => rfl
  | cons q r ih =>
    cases r with
    | nil =>
      cases nl
      · simp only [rawLines]
        split
        · rename_i he
          have : q.1 = [] := by simpa using he
          simp [h q (by simp) this]
        · rfl
      · simp only [rawLines, List.filterMap_cons, List.filterMap_nil]
    | cons q' r =>
      rw [rawLines_cons_cons, List.filterMap_cons, List.filterMap_cons,
        ih (fun x hx => h x (by simp [hx]))]

/-- in front of a non-empty line, everything keeps its LF -/
theorem rawLines_append_cons {α : Type} (A : List (Str × α)) (p : Str × α) (P : List (Str × α))
    (nl : Bool) (hp : p.1 ≠ []) :
    ∃ e rest, (e = [] ∨ e = ['\n']) ∧
      rawLines (A ++ p :: P) nl = A.map (fun q => (q.1 ++ ['\n'], q.2)) ++ (p.1 ++ e, p.2) :: rest := by
  induction A with
  | nil =>
    cases P with
    | nil =>
      cases nl
      · refine ⟨[], [], .inl rfl, ?_⟩
        have : p.1.isEmpty = false := by cases h : p.1 with
          | nil => exact absurd h hp
          | cons _ _ => rfl
        simp [rawLines, this]
      · exact ⟨['\n'], [], .inr rfl, rfl⟩
    | cons q P => exact ⟨['\n'], rawLines (q :: P) nl, .inr rfl, by rw [List.nil_append, rawLines_cons_cons]; rfl⟩
  | cons a A ih =>
    obtain ⟨e, rest, he, h⟩ := ih
    refine ⟨e, rest, he, ?_⟩
    cases hA : A ++ p :: P with
    | nil => simp at hA
    | cons x y =>
      rw [List.cons_append, hA, rawLines_cons_cons, ← hA, h]
      rfl

/-! ## lines with known effects -/

/-- what a line does besides the metadata -/
inductive Eff
  | filler
  | push (i : Instr)
  | setStart (n : Nat)

def Eff.apply : Eff → Str → LoadState → LoadState
  | .filler, raw, st => stepMeta st raw
  | .push i, raw, st => stepMeta { st with code := st.code.push i } raw
  | .setStart n, raw, st => stepMeta { st with start := (n : Int) } raw

def Eff.instr? : Eff → Option Instr
  | .push i => some i
  | _ => none

def Eff.start? : Eff → Option Nat
  | .setStart n => some n
  | _ => none

/-- the line with content `c` is read with effect `k`, with or without its LF -/
def LineSpec (f : LoadState → Str → Except Panic LineOutcome) (c : Str) (k : Eff) : Prop :=
  ∀ e, (e = [] ∨ e = ['\n']) → ∀ st, f st (c ++ e) = .ok (.cont (k.apply (c ++ e) st))

def run (pairs : List (Str × Eff)) (st : LoadState) : LoadState :=
  pairs.foldl (fun s p => p.2.apply p.1 s) st

theorem loadLoop_run (f : LoadState → Str → Except Panic LineOutcome) (pairs : List (Str × Eff))
    (rest : List Str) (st : LoadState)
    (h : ∀ p ∈ pairs, ∀ st, f st p.1 = .ok (.cont (p.2.apply p.1 st))) :
    loadLoop f st (pairs.map (·.1) ++ rest) = loadLoop f (run pairs st) rest := by
  induction pairs generalizing st with
  | nil => rfl
  | cons p r ih =>
    simp only [List.map_cons, List.cons_append]
    rw [loadLoop_cont f st _ _ _ (h p (by simp) st), ih _ (fun q hq => h q (by simp [hq]))]
    rfl

theorem rawLines_spec (f : LoadState → Str → Except Panic LineOutcome) (items : List (Str × Eff))
    (nl : Bool) (h : ∀ p ∈ items, LineSpec f p.1 p.2) :
    ∀ p ∈ rawLines items nl, ∀ st, f st p.1 = .ok (.cont (p.2.apply p.1 st)) := by
  intro p hp st
  obtain ⟨q, hq, h2, e, he, h1⟩ := mem_rawLines hp
  rw [h1, h2]
  exact h q hq e he st

theorem apply_facts (k : Eff) (raw : Str) (st : LoadState) :
    metaOf (k.apply raw st) = (metaOf st).step raw ∧
      (k.apply raw st).code = (match k.instr? with | some i => st.code.push i | none => st.code) ∧
      (k.apply raw st).start = (match k.start? with | some n => (n : Int) | none => st.start) := by
  cases k with
  | filler => exact metaOf_stepMeta st raw
  | push i =>
    have := metaOf_stepMeta { st with code := st.code.push i } raw
    exact ⟨this.1, this.2.1, this.2.2⟩
  | setStart n =>
    have := metaOf_stepMeta { st with start := (n : Int) } raw
    exact ⟨this.1, this.2.1, this.2.2⟩

theorem run_metaOf (pairs : List (Str × Eff)) (st : LoadState) :
    metaOf (run pairs st) = (pairs.map (·.1)).foldl Meta.step (metaOf st) := by
  induction pairs generalizing st with
  | nil => rfl
  | cons p r ih =>
    simp only [run, List.foldl_cons, List.map_cons] at ih ⊢
    rw [ih, (apply_facts p.2 p.1 st).1]

theorem run_code (pairs : List (Str × Eff)) (st : LoadState) :
    (run pairs st).code = st.code ++ (pairs.filterMap (fun p => p.2.instr?)).toArray := by
  induction pairs generalizing st with
  | nil => simp [run]
  | cons p r ih =>
    simp only [run, List.foldl_cons] at ih ⊢
    rw [ih, (apply_facts p.2 p.1 st).2.1]
    cases h : p.2.instr? with
    | none => simp [h]
    | some i => simp [h]

theorem run_start (pairs : List (Str × Eff)) (st : LoadState) :
    (run pairs st).start =
      (pairs.filterMap (fun p => p.2.start?)).foldl (fun (_ : Int) (n : Nat) => (n : Int)) st.start := by
  induction pairs generalizing st with
  | nil => rfl
  | cons p r ih =>
    simp only [run, List.foldl_cons] at ih ⊢
    rw [ih, (apply_facts p.2 p.1 st).2.2]
    cases h : p.2.start? with
    | none => simp [h]
    | some n => simp [h]

end Gmars.LoadLayout
