/-
  The loader's per-line functions (`line94`, `line88`) on a line whose tokenisation is
  known, `loadLoop` over such lines, and the normalisation `replaceComma ∘ toLower` on a
  laid-out line (words separated by blanks / commas).
-/
import Gmars.Model.Load
import Gmars.Proofs.GoStrLemmas

namespace Gmars.RoundTrip
open Gmars Gmars.GoStr

/-! ## per-line results from the tokenisation -/

theorem line94_instr (M : UInt64) (st : LoadState) (raw w0 w1 w2 w3 w4 : Str)
    (op : Op) (md : Modifier) (am bm : Mode) (a b : UInt64)
    (hhead : raw.head? ≠ some ';') (hsemi : containsChar (toLower raw) ';' = false)
    (hcomma : containsChar (toLower raw) ',' = true)
    (hf : fields (replaceComma (toLower raw)) = [w0, w1, w2, w3, w4])
    (h0 : getOp94 w0 = some (op, md)) (h1 : getAddressMode w1 = some am)
    (h2 : parseAddress w2 M = .ok (some a)) (h3 : getAddressMode w3 = some bm)
    (h4 : parseAddress w4 M = .ok (some b)) :
    line94 M st raw = .ok (.cont { st with code := st.code.push { op, md, am, a, bm, b } }) := by
  simp [line94, hhead, hsemi, hcomma, hf, h0, h1, h2, h3, h4, bind, Except.bind]

theorem line88_instr (M : UInt64) (st : LoadState) (raw w0 w1 w2 w3 w4 : Str)
    (op : Op) (md : Modifier) (am bm : Mode) (a b : UInt64)
    (hhead : raw.head? ≠ some ';') (hsemi : containsChar (toLower raw) ';' = false)
    (hcomma : containsChar (toLower raw) ',' = true)
    (hf : fields (replaceComma (toLower raw)) = [w0, w1, w2, w3, w4])
    (h0 : getOpCode88 w0 = some op) (h1 : getAddressMode88 w1 = some am)
    (h2 : parseAddress w2 M = .ok (some a)) (h3 : getAddressMode88 w3 = some bm)
    (h4 : parseAddress w4 M = .ok (some b)) (h5 : getOpModeAndValidate88 op am bm = some md) :
    line88 M st raw = .ok (.cont { st with code := st.code.push { op, md, am, a, bm, b } }) := by
  simp [line88, hhead, hsemi, hcomma, hf, h0, h1, h2, h3, h4, h5, bind, Except.bind]

theorem line94_org (M : UInt64) (st : LoadState) (raw ds : Str) (v : Nat)
    (hhead : raw.head? ≠ some ';') (hsemi : containsChar (toLower raw) ';' = false)
    (hf : fields (replaceComma (toLower raw)) = ["org".toList, ds])
    (hv : parseInt ds 32 = some (v : Int)) :
    line94 M st raw = .ok (.cont { st with start := (v : Int) }) := by
  have : ¬ ((v : Int) < 0) := by omega
  simp [line94, hhead, hsemi, hf, hv, this]

theorem line88_end (M : UInt64) (st : LoadState) (raw ds : Str) (v : Nat)
    (hhead : raw.head? ≠ some ';') (hsemi : containsChar (toLower raw) ';' = false)
    (hf : fields (replaceComma (toLower raw)) = ["end".toList, ds])
    (hv : parseInt ds 32 = some (v : Int)) (hle : v ≤ st.code.size) :
    line88 M st raw = .ok (.stop { st with start := (v : Int) }) := by
  have h1 : ¬ ((v : Int) < 0) := by omega
  have h2 : ¬ ((v : Int) > (st.code.size : Int)) := by omega
  simp [line88, hhead, hsemi, hf, hv, h1, h2]

theorem line94_org_fail (M : UInt64) (st : LoadState) (raw ds : Str)
    (hhead : raw.head? ≠ some ';') (hsemi : containsChar (toLower raw) ';' = false)
    (hf : fields (replaceComma (toLower raw)) = ["org".toList, ds])
    (hv : parseInt ds 32 = none) :
    line94 M st raw = .ok .fail := by
  simp [line94, hhead, hsemi, hf, hv]

/-! ## the loop -/

theorem loadLoop_cont (f : LoadState → Str → Except Panic LineOutcome) (st st' : LoadState)
    (l : Str) (ls : List Str) (h : f st l = .ok (.cont st')) :
    loadLoop f st (l :: ls) = loadLoop f st' ls := by
  simp [loadLoop, h, bind, Except.bind]

theorem loadLoop_stop (f : LoadState → Str → Except Panic LineOutcome) (st st' : LoadState)
    (l : Str) (ls : List Str) (h : f st l = .ok (.stop st')) :
    loadLoop f st (l :: ls) = .ok (some st') := by
  simp [loadLoop, h, bind, Except.bind]

theorem loadLoop_fail (f : LoadState → Str → Except Panic LineOutcome) (st : LoadState)
    (l : Str) (ls : List Str) (h : f st l = .ok .fail) :
    loadLoop f st (l :: ls) = .ok none := by
  simp [loadLoop, h, bind, Except.bind]

theorem loadLoop_instrs (f : LoadState → Str → Except Panic LineOutcome)
    (lines : List (Str × Instr)) (rest : List Str) (st : LoadState)
    (h : ∀ p ∈ lines, ∀ st : LoadState, f st p.1 = .ok (.cont { st with code := st.code.push p.2 })) :
    loadLoop f st (lines.map (·.1) ++ rest) =
      loadLoop f { st with code := st.code ++ (lines.map (·.2)).toArray } rest := by
  induction lines generalizing st with
  | nil => simp
  | cons p r ih =>
    simp only [List.map_cons, List.cons_append]
    rw [loadLoop_cont f st _ _ _ (h p (by simp) st), ih _ (fun q hq => h q (by simp [hq]))]
    congr 1
    simp

/-! ## normalisation of a laid-out line -/

/-- separator characters of a load-file line: white space or a comma -/
def SepChar (c : Char) : Prop := isAsciiSpace c = true ∨ c = ','

/-- a word of a load-file line: it survives lower-casing as a word and has no `;` -/
def LowWord (w : Str) : Prop :=
  w ≠ [] ∧ ∀ c ∈ w, c ≠ ';' ∧ lowerChar c ≠ ';' ∧ lowerChar c ≠ ',' ∧ isAsciiSpace (lowerChar c) = false

def LowSep (g : Str) : Prop := g ≠ [] ∧ ∀ c ∈ g, SepChar c

/-- `replaceComma ∘ toLower` character-wise -/
def normChar (c : Char) : Char := if lowerChar c == ',' then ' ' else lowerChar c

theorem replaceComma_toLower (s : Str) : replaceComma (toLower s) = s.map normChar := by
  simp [replaceComma, toLower, normChar, Function.comp_def]

theorem normChar_sep {c : Char} (h : SepChar c) : isAsciiSpace (normChar c) = true := by
  rcases h with h | h
  · have := lowerChar_space h
    have hc : c ≠ ',' := by intro e; subst e; revert h; decide
    simp [normChar, this, hc, h]
  · subst h; decide

theorem sepChar_ne_semi {c : Char} (h : SepChar c) : c ≠ ';' ∧ lowerChar c ≠ ';' := by
  rcases h with h | h
  · have := lowerChar_space h
    have hc : c ≠ ';' := by intro e; subst e; revert h; decide
    rw [this]; exact ⟨hc, hc⟩
  · subst h; decide

theorem map_layout (f : Char → Char) (g0 : Str) (wgs : List (Str × Str)) :
    (layout g0 wgs).map f = layout (g0.map f) (wgs.map (fun p => (p.1.map f, p.2.map f))) := by
  simp [layout, List.map_flatten, Function.comp_def]

theorem map_normChar_lowWord {w : Str} (h : LowWord w) : w.map normChar = toLower w := by
  unfold toLower
  apply List.map_congr_left
  intro c hc
  have := (h.2 c hc).2.2.1
  simp [normChar, this]

/-- the tokens of a laid-out line after `toLower` and `replaceComma` -/
theorem fields_norm_layout (g0 : Str) (wgs : List (Str × Str)) (h0 : ∀ c ∈ g0, SepChar c)
    (h : ∀ p ∈ wgs, LowWord p.1 ∧ LowSep p.2) :
    fields (replaceComma (toLower (layout g0 wgs))) = wgs.map (fun p => toLower p.1) := by
  rw [replaceComma_toLower, map_layout, fields_layout]
  · rw [List.map_map]
    apply List.map_congr_left
    intro p hp
    exact map_normChar_lowWord (h p hp).1
  · intro c hc
    obtain ⟨d, hd, rfl⟩ := List.mem_map.1 hc
    exact normChar_sep (h0 d hd)
  · intro q hq
    obtain ⟨p, hp, rfl⟩ := List.mem_map.1 hq
    obtain ⟨hw, hg⟩ := h p hp
    refine ⟨⟨by simpa using hw.1, ?_⟩, ⟨by simpa using hg.1, ?_⟩⟩
    · intro c hc
      obtain ⟨d, hd, rfl⟩ := List.mem_map.1 hc
      have := hw.2 d hd
      simp only [normChar, beq_iff_eq, this.2.2.1, if_false]
      exact this.2.2.2
    · intro c hc
      obtain ⟨d, hd, rfl⟩ := List.mem_map.1 hc
      exact normChar_sep (hg.2 d hd)

theorem mem_layout {c : Char} {g0 : Str} {wgs : List (Str × Str)} (h : c ∈ layout g0 wgs) :
    c ∈ g0 ∨ ∃ p ∈ wgs, c ∈ p.1 ∨ c ∈ p.2 := by
  simp only [layout, List.mem_append, List.mem_flatten, List.mem_map] at h
  rcases h with h | ⟨l, ⟨p, hp, rfl⟩, hc⟩
  · exact .inl h
  · exact .inr ⟨p, hp, by simpa using hc⟩

theorem layout_no_semi (g0 : Str) (wgs : List (Str × Str)) (h0 : ∀ c ∈ g0, SepChar c)
    (h : ∀ p ∈ wgs, LowWord p.1 ∧ LowSep p.2) :
    ∀ c ∈ layout g0 wgs, c ≠ ';' ∧ lowerChar c ≠ ';' := by
  intro c hc
  rcases mem_layout hc with hc | ⟨p, hp, hc | hc⟩
  · exact sepChar_ne_semi (h0 c hc)
  · have := (h p hp).1.2 c hc; exact ⟨this.1, this.2.1⟩
  · exact sepChar_ne_semi ((h p hp).2.2 c hc)

theorem head_ne_semi {s : Str} (h : ∀ c ∈ s, c ≠ ';' ∧ lowerChar c ≠ ';') : s.head? ≠ some ';' := by
  cases s with
  | nil => simp
  | cons c r => simp only [List.head?_cons, ne_eq, Option.some.injEq]; exact (h c (by simp)).1

theorem lower_no_semi {s : Str} (h : ∀ c ∈ s, c ≠ ';' ∧ lowerChar c ≠ ';') :
    containsChar (toLower s) ';' = false := by
  simp only [containsChar, toLower, List.contains_eq_mem, List.mem_map, decide_eq_false_iff_not,
    not_exists, not_and]
  intro c hc; exact (h c hc).2

theorem lower_has_comma {s : Str} (h : ',' ∈ s) : containsChar (toLower s) ',' = true := by
  simp only [containsChar, toLower, List.contains_eq_mem, List.mem_map, decide_eq_true_eq]
  exact ⟨',', h, by decide⟩

end Gmars.RoundTrip
